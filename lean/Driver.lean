import QModel.AlgebraIO
import QModel.MachineIO
import QModel.AtomsIO
import QModel.AdaptiveIO
import QModel.OpsIO
import QModel.CriteriaIO
import QModel.RunLoopIO
import QModel.FilesIO
import QModel.FBMCIO
import QModel.ProtocolIO
import QModel.CalcIO
import QModel.SeedIO
import QModel.SchedIO
import QModel.VerletIO
import QModel.ConstraintsIO
import QModel.SerialIO
import QModel.ResultsDictIO
import QModel.FBDriverIO
import QModel.LogTableIO
import QModel.ArrayNamesIO
/-! Model driver: one operation per line on stdin, one canonical result line on stdout.
    Run with `lake env lean --run Driver.lean`. -/

def dispatch (line : String) : String :=
  match Proto.toks line with
  | [] => "bad-op"
  | ws@(cmd :: _) =>
    if cmd = "alg" || cmd = "oalg" || cmd = "callplain" then Alg.handle ws
    else if cmd = "mm" then MM.handle ws
    else if cmd.startsWith "ri." || cmd.startsWith "at." || cmd = "mol" || cmd = "molg" then RI.handle ws
    else if cmd = "rdict" then RDict.handle ws
    else if cmd = "c18direct" || cmd = "c18run" then AFB.handle ws
    else if cmd = "ops" then Ops.handle ws
    else if cmd = "crit" || cmd = "crit-raw" then Crit.IO.handle ws
    else if cmd = "runloop" then RunLoop.handle ws
    else if cmd = "files" || cmd = "fcall" || cmd = "flink" then Files.handle ws
    else if cmd = "fbgamma" || cmd = "fbprob" || cmd = "fbstep" then FB.handle ws
    else if cmd = "p20" then Proto20.handle ws
    else if cmd = "mc" then MC.handle ws
    else if cmd = "seed" || cmd = "seedrt" || cmd = "seedrun" then Seed.handle ws
    else if cmd = "yield" || cmd = "step" || cmd = "addmoves" || cmd = "rng" || cmd = "defcycles" then Sched.handle ws
    else if cmd = "verlet" || cmd = "mbdist" || cmd = "hmove" || cmd = "hcomp" then Verlet.IO.handle ws
    else if cmd = "cadj" || cmd = "fixrot" || cmd = "c12trial" then Constr.IO.handle ws
    else if cmd.startsWith "c08." || cmd.startsWith "c07." then Ser.IO.handle ws
    else if cmd = "fbd" then FBD.IO.handle ws
    else if cmd = "logt" then LogT.IO.handle ws
    else if cmd = "arrn" then ArrN.IO.handle ws
    else "bad-op"

partial def loop (h : IO.FS.Stream) (out : IO.FS.Stream) : IO Unit := do
  let line ← h.getLine
  if line.isEmpty then return ()
  out.putStrLn (dispatch line)
  loop h out

def main : IO Unit := do
  let out ← IO.getStdout
  loop (← IO.getStdin) out
