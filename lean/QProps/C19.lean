import QProofs.Atoms
/-!
# C19 — re-insertion inverts deletion; molecule search partitions the atoms by bonds

All theorems quantify over every list / every atoms object (any number of atoms, any number of per-atom arrays of any
dtype and trailing shape), every index list (any order; Python's negative indices at the atoms level), every component
list, every size filter and every default array.

What "restores exactly" means for the two special branches of `reinsert_atoms`:
`new_atoms.get_masses()` is only different from `new_atoms.arrays['masses']` when the re-inserted atoms carry no
`masses` array, and `new_atoms.arrays.get(name, 0)` only yields `0` when they miss the array `name` (then the code raises
`AttributeError: 'int' object has no attribute 'shape'`; the model says so, see `missing_array_raises`). After
`taken = atoms[idx]; del atoms[idx]` both objects carry exactly the arrays of the original, so neither branch is taken,
the second loop (arrays only present in the re-inserted atoms) has nothing to add, and the restoration is exact:
`atoms_reinsert_delete` — for every value of the default masses `dm`.
-/
namespace RI
variable {α : Type}

/-! ## re-insertion inverts deletion -/

/-- **reinsert_delete**: for every list, every duplicate-free list of valid positions in ANY order,
    `reinsert (del l[idx]) (l[idx]) idx = l`. -/
theorem reinsert_delete (l : List α) (idx : List Nat) (hn : idx.Nodup) (hv : ∀ i ∈ idx, i < l.length) :
    reinsert (delete l idx) (pick l idx) idx = l := by
  unfold reinsert
  have h1 := delete_length l idx hn hv
  have h2 := pick_length l idx hv
  have h3 : (delete l idx).length + (pick l idx).length = l.length := by omega
  rw [h3]
  exact reinsert_delete_from l idx hv l 0 (by simp)

/-- the same with numpy's run-time checks: no IndexError / ValueError is raised on the way -/
theorem reinsertChecked_delete (l : List α) (idx : List Nat) (hn : idx.Nodup) (hv : ∀ i ∈ idx, i < l.length) :
    reinsertChecked (delete l idx) (pick l idx) idx = .ok l := by
  have h1 := delete_length l idx hn hv
  have h2 := pick_length l idx hv
  have h3 : (delete l idx).length + (pick l idx).length = l.length := by omega
  have hall : idx.all (fun i => decide (i < l.length)) = true := by
    simpa [List.all_eq_true] using hv
  have hb1 : bcast (delete l idx) (maskCount idx l.length) = some (delete l idx) := by
    have := bcast_self (delete l idx)
    rwa [delete_length_mask] at this
  have hb2 : bcast (pick l idx) idx.length = some (pick l idx) := by
    have := bcast_self (pick l idx)
    rwa [h2] at this
  simp only [reinsertChecked, h3, hall, if_true, hb1, hb2]
  exact congrArg Except.ok (reinsert_delete_from l idx hv l 0 (by simp))

/-- a repeated index is outside the property ("index set"): numpy deletes the row once, picks it twice, and the
    re-insertion raises `ValueError` (mask count ≠ number of kept rows) — model and code agree on that. -/
theorem repeated_index_raises :
    reinsertChecked (delete [10, 11, 12] [1, 1]) (pick [10, 11, 12] [1, 1]) [1, 1] = .error "ValueError" := by decide

/-! `delete_length`, `pick_length`, `reinsert_length` are proved in `QProofs/Atoms.lean` (core-only file). -/

/-- **atoms_reinsert_delete** (column-wise lifting, names, dtypes, trailing shapes and dict order included):
    for every well-formed atoms object `a` with `n` atoms, every Python index list `idx` (negative indices allowed) that
    denotes `n`-valid, pairwise different positions, in any order, and whatever the default masses are,
    `taken = a[idx]; del a[idx]; reinsert_atoms(a, taken, idx)` raises nothing and leaves exactly the original arrays. -/
theorem atoms_reinsert_delete (a : Atoms) (n : Nat) (hw : WF a n) (idx : List Int) (nidx : List Nat)
    (hi : normIdx n idx = some nidx) (hn : nidx.Nodup) (dm : List Int) :
    ∃ kept taken, delAtoms a idx = .ok kept ∧ pickAtoms a idx = .ok taken ∧
      reinsertAtoms kept taken idx dm = .ok a := by
  have hv : ∀ i ∈ nidx, i < n := normIdx_lt n idx nidx hi
  refine ⟨a.map fun c => { c with rows := delete c.rows nidx }, a.map fun c => { c with rows := pick c.rows nidx },
    ?_, ?_, ?_⟩
  · simp [delAtoms, hw.len, hi]
  · simp [pickAtoms, hw.len, hi]
  · have htot := natoms_map_add a n hw nidx hn hv
    have h1 : mapE (reinsertCol (a.map fun c => { c with rows := pick c.rows nidx }) n idx dm)
        (a.map fun c => { c with rows := delete c.rows nidx }) = .ok a :=
      mapE_map_ok _ _ a (fun c hc => reinsertCol_delete a n hw idx nidx hi dm c hc)
    have h2 := filter_new_nil a (fun c => { c with rows := delete c.rows nidx })
      (fun c => { c with rows := pick c.rows nidx }) (fun _ => rfl) (fun _ => rfl)
    simp only [reinsertAtoms, htot, h1, h2, mapE, List.append_nil]

/-- every array keeps its dtype (and name, trailing shape): immediate from `atoms_reinsert_delete`, stated for the
    first loop alone — the result array has the dtype of the array of the atoms it is inserted into. -/
theorem reinsertCol_dtype (taken : Atoms) (total : Nat) (idx : List Int) (dm : List Int) (c c' : Col)
    (h : reinsertCol taken total idx dm c = .ok c') : c'.dtype = c.dtype ∧ c'.name = c.name := by
  unfold reinsertCol at h
  cases h0 : lookupArr taken dm c.name with
  | none => simp [h0] at h
  | some arr =>
    cases h1 : normIdx total idx with
    | none => simp [h0, h1] at h
    | some nidx =>
      by_cases hs : arr.shape = c.shape
      · cases h2 : bcast c.rows (maskCount nidx total) with
        | none => simp [h0, h1, hs, h2] at h
        | some keptRows =>
          cases h3 : bcast (arr.rows.map fun r => r.map (castVal arr.dtype c.dtype)) nidx.length with
          | none => simp [h0, h1, hs, h2, h3] at h
          | some takenRows =>
            simp only [h0, h1, hs, h2, h3, ne_eq, not_true_eq_false, if_false, Except.ok.injEq] at h
            subst h
            exact ⟨rfl, rfl⟩
      · simp [h0, h1, hs] at h

/-- an array that only the re-inserted atoms have is created with THEIR dtype, zero outside the re-inserted rows -/
theorem addCol_spec (n : Nat) (idx : List Int) (t t' : Col) (h : addCol n idx t = .ok t') :
    t'.dtype = t.dtype ∧ t'.name = t.name ∧ t'.rows.length = n ∧
      ∀ nidx, normIdx n idx = some nidx → ∀ k, k < n → k ∉ nidx →
        t'.rows[k]? = some (List.replicate (width t.shape) 0) := by
  unfold addCol at h
  cases hi : normIdx n idx with
  | none => simp [hi] at h
  | some nidx =>
    cases hb : bcast t.rows nidx.length with
    | none => simp [hi, hb] at h
    | some rows =>
      simp only [hi, hb, Except.ok.injEq] at h
      subst h
      refine ⟨rfl, rfl, by simp, ?_⟩
      intro nidx' hn' k hk hnot
      cases hn'
      simp [hk, scatterGet_none_of_not_mem nidx rows k hnot]

/-- `new_atoms.arrays.get(name, 0)`: an array of `atoms` (other than `masses`) missing in `new_atoms` makes the code
    raise — outside the property (after delete + pick every array is in both), recorded here as what the model says. -/
theorem missing_array_raises :
    reinsertAtoms [⟨"numbers", .i8, [], [[1]]⟩, ⟨"tags", .i8, [], [[7]]⟩] [⟨"numbers", .i8, [], [[2]]⟩] [1] []
      = .error "AttributeError" := by decide

/-! ## molecule labels -/

/-- the assumption on networkx / the ASE neighbour list: `comps` is the partition of `range n` into connected
    components (each listed without repetition), in networkx's enumeration order -/
structure IsPartition (comps : List (List Nat)) (n : Nat) : Prop where
  cover : ∀ i, i < n → ∃ c ∈ comps, i ∈ c
  bound : ∀ c ∈ comps, ∀ i ∈ c, i < n
  disjoint : comps.Pairwise (fun a b => ∀ j, j ∈ a → j ∉ b)
  nodup : ∀ c ∈ comps, c.Nodup

/-- the array the labelling starts from (fixed code): `-1` everywhere, or a copy of the supplied default -/
def startArray (n : Nat) : Option (List Int) → List Int
  | none => List.replicate n (-1)
  | some d => d

/-- **label_spec**: an atom of the `k`-th component gets label `k` when the component's size is admitted and keeps
    `default[i]` otherwise — for ANY default array. -/
theorem label_spec (comps : List (List Nat)) (r : Int × Int) (default : List Int)
    (hd : comps.Pairwise (fun a b => ∀ j, j ∈ a → j ∉ b))
    (i k : Nat) (c : List Nat) (hk : comps[k]? = some c) (hi : i ∈ c) (hlt : i < default.length) :
    (labelComponents comps r default)[i]? = if admitted r c then some (k : Int) else default[i]? := by
  have := labelFrom_get r comps 0 default i k c hd hk hi
  simp only [Nat.zero_add] at this
  unfold labelComponents
  rw [this]
  have : default[i]? = some default[i] := by simp [hlt]
  simp [this]

/-- **search_total**: with the fixed default handling `search_molecules` raises nothing and returns one label per
    atom, for `None` and for ANY default array with one entry per atom. -/
theorem search_total (n : Nat) (comps : List (List Nat)) (req : ReqSize) (default : Option (List Int))
    (hp : IsPartition comps n) (hl : ∀ d, default = some d → d.length = n) :
    ∃ out, searchMolecules n comps req default = .ok out ∧ out.length = n := by
  have hlen : (startArray n default).length = n := by
    cases default with
    | none => simp [startArray]
    | some d => simpa [startArray] using hl d rfl
  refine ⟨labelComponents comps (sizeRange n req) (startArray n default), ?_, ?_⟩
  · have hall : (comps.all fun c => decide (admitted (sizeRange n req) c → ∀ i ∈ c, i < (startArray n default).length))
        = true := by
      simp only [List.all_eq_true, decide_eq_true_eq]
      intro c hc _ i hi
      rw [hlen]; exact hp.bound c hc i hi
    unfold searchMolecules
    change (if (comps.all fun c => decide (admitted (sizeRange n req) c →
      ∀ i ∈ c, i < (startArray n default).length)) = true then _ else _) = _
    rw [if_pos hall]
    rfl
  · unfold labelComponents
    rw [labelFrom_length, hlen]

theorem search_eq (n : Nat) (comps : List (List Nat)) (req : ReqSize) (default : Option (List Int)) (out : List Int)
    (h : searchMolecules n comps req default = .ok out) :
    out = labelComponents comps (sizeRange n req) (startArray n default) := by
  unfold searchMolecules at h
  change (if (comps.all fun c => decide (admitted (sizeRange n req) c →
      ∀ i ∈ c, i < (startArray n default).length)) = true then _ else _) = _ at h
  split at h
  · cases h; rfl
  · cases h

/-- **search_default_kept**: every atom whose component is not admitted keeps `default[i]` (`-1` without default),
    for ANY default array. -/
theorem search_default_kept (n : Nat) (comps : List (List Nat)) (req : ReqSize) (default : Option (List Int))
    (out : List Int) (hp : IsPartition comps n) (hl : ∀ d, default = some d → d.length = n)
    (h : searchMolecules n comps req default = .ok out)
    (i : Nat) (hi : i < n) (c : List Nat) (hc : c ∈ comps) (hic : i ∈ c) (hna : ¬ admitted (sizeRange n req) c) :
    out[i]? = (startArray n default)[i]? := by
  have hlen : (startArray n default).length = n := by
    cases default with
    | none => simp [startArray]
    | some d => simpa [startArray] using hl d rfl
  obtain ⟨k, hk⟩ := List.getElem?_of_mem hc
  rw [search_eq n comps req default out h,
    label_spec comps _ _ hp.disjoint i k c hk hic (by omega)]
  simp [hna]

/-- **search_label**: every atom of an admitted component gets that component's enumeration number. -/
theorem search_label (n : Nat) (comps : List (List Nat)) (req : ReqSize) (default : Option (List Int))
    (out : List Int) (hp : IsPartition comps n) (hl : ∀ d, default = some d → d.length = n)
    (h : searchMolecules n comps req default = .ok out)
    (i k : Nat) (c : List Nat) (hk : comps[k]? = some c) (hic : i ∈ c) (ha : admitted (sizeRange n req) c) :
    out[i]? = some (k : Int) := by
  have hlen : (startArray n default).length = n := by
    cases default with
    | none => simp [startArray]
    | some d => simpa [startArray] using hl d rfl
  have hi : i < n := hp.bound c (List.mem_of_getElem? hk) i hic
  rw [search_eq n comps req default out h,
    label_spec comps _ _ hp.disjoint i k c hk hic (by omega)]
  simp [ha]

/-- **search_same_label_iff**: two atoms carry the same non-negative label exactly when they lie in one connected
    component whose size is admitted. Hypothesis `hneg`: the default entries of the atoms of NON-admitted components
    are negative ("do not touch" markers; `-1` without a default array). It cannot be dropped: a non-negative default
    can coincide with an enumeration number (`label_collision` below); the part of the property that holds for ANY
    default array is `search_default_kept` + `search_label`. -/
theorem search_same_label_iff (n : Nat) (comps : List (List Nat)) (req : ReqSize) (default : Option (List Int))
    (out : List Int) (hp : IsPartition comps n) (hl : ∀ d, default = some d → d.length = n)
    (h : searchMolecules n comps req default = .ok out)
    (hneg : ∀ i c, c ∈ comps → i ∈ c → ¬ admitted (sizeRange n req) c →
      ∀ v, (startArray n default)[i]? = some v → v < 0)
    (i j : Nat) (hi : i < n) (hj : j < n) :
    (∃ v, out[i]? = some v ∧ out[j]? = some v ∧ 0 ≤ v) ↔
      ∃ c ∈ comps, admitted (sizeRange n req) c ∧ i ∈ c ∧ j ∈ c := by
  constructor
  · rintro ⟨v, hvi, hvj, hv0⟩
    obtain ⟨ci, hci, hici⟩ := hp.cover i hi
    obtain ⟨cj, hcj, hjcj⟩ := hp.cover j hj
    obtain ⟨ki, hki⟩ := List.getElem?_of_mem hci
    obtain ⟨kj, hkj⟩ := List.getElem?_of_mem hcj
    have hai : admitted (sizeRange n req) ci := by
      apply Classical.byContradiction
      intro hna
      have := search_default_kept n comps req default out hp hl h i hi ci hci hici hna
      rw [hvi] at this
      have := hneg i ci hci hici hna v this.symm
      omega
    have haj : admitted (sizeRange n req) cj := by
      apply Classical.byContradiction
      intro hna
      have := search_default_kept n comps req default out hp hl h j hj cj hcj hjcj hna
      rw [hvj] at this
      have := hneg j cj hcj hjcj hna v this.symm
      omega
    have e1 := search_label n comps req default out hp hl h i ki ci hki hici hai
    have e2 := search_label n comps req default out hp hl h j kj cj hkj hjcj haj
    rw [hvi] at e1; rw [hvj] at e2
    have hkk : ki = kj := by
      have : (ki : Int) = (kj : Int) := by
        rw [← Option.some.inj e1, ← Option.some.inj e2]
      exact Int.ofNat.inj this
    subst hkk
    have : ci = cj := by rw [hki] at hkj; exact Option.some.inj hkj
    subst this
    exact ⟨ci, hci, hai, hici, hjcj⟩
  · rintro ⟨c, hc, ha, hic, hjc⟩
    obtain ⟨k, hk⟩ := List.getElem?_of_mem hc
    exact ⟨(k : Int), search_label n comps req default out hp hl h i k c hk hic ha,
      search_label n comps req default out hp hl h j k c hk hjc ha, by omega⟩

/-- why `hneg` is needed: atoms 0 and 2 are in different components, component `[2]` is filtered out and keeps its
    default `0`, which is also the enumeration number of the admitted component `[0, 1]`. -/
theorem label_collision :
    searchMolecules 3 [[0, 1], [2]] (.exact 2) (some [5, 5, 0]) = .ok [0, 0, 0] := by decide

/-! ## non-vacuity -/

example : reinsert (delete [10, 11, 12, 13, 14] [3, 1]) (pick [10, 11, 12, 13, 14] [3, 1]) [3, 1]
    = [10, 11, 12, 13, 14] := by decide
example : delete [10, 11, 12, 13, 14] [3, 1] = [10, 12, 14] ∧ pick [10, 11, 12, 13, 14] [3, 1] = [13, 11] := by decide
/-- numpy: a single re-inserted row is broadcast; the last assignment to a repeated index wins -/
example : reinsertChecked [10, 12] [7] [1, 1] = .ok [10, 7, 12] ∧
    reinsertFrom [1, 1] [7, 8] 0 3 [10, 12] = [10, 8, 12] := by decide
example : (reinsert [10, 12, 14] [13, 11] [3, 1]).length = 5 := by decide
example : normIdx 5 [-1, 0, -5, 4] = some [4, 0, 0, 4] ∧ normIdx 5 [5] = none ∧ normIdx 5 [-6] = none := by decide

def exAtoms : Atoms :=
  [⟨"numbers", .i8, [], [[1], [8], [1], [29]]⟩, ⟨"momenta", .f8, [3], [[1, 2, 3], [4, 5, 6], [7, 8, 9], [10, 11, 12]]⟩,
   ⟨"flag", .b1, [], [[1], [0], [1], [1]]⟩]

example : WF exAtoms 4 := ⟨by decide, by decide, by decide⟩
example : delAtoms exAtoms [-1, 1] = .ok
    [⟨"numbers", .i8, [], [[1], [1]]⟩, ⟨"momenta", .f8, [3], [[1, 2, 3], [7, 8, 9]]⟩, ⟨"flag", .b1, [], [[1], [1]]⟩] := by
  decide
example : pickAtoms exAtoms [-1, 1] = .ok
    [⟨"numbers", .i8, [], [[29], [8]]⟩, ⟨"momenta", .f8, [3], [[10, 11, 12], [4, 5, 6]]⟩,
     ⟨"flag", .b1, [], [[1], [0]]⟩] := by decide
/-- second loop + dtype rule + default masses: `tags` is created (int, zero elsewhere), `flag` stays bool (2 ↦ True),
    `masses` is filled from the default masses -/
example : reinsertAtoms [⟨"numbers", .i8, [], [[1], [1]]⟩, ⟨"flag", .b1, [], [[1], [0]]⟩, ⟨"masses", .f8, [], [[5], [6]]⟩]
    [⟨"numbers", .i8, [], [[8]]⟩, ⟨"flag", .i8, [], [[2]]⟩, ⟨"tags", .i8, [], [[9]]⟩] [1] [16]
    = .ok [⟨"numbers", .i8, [], [[1], [8], [1]]⟩, ⟨"flag", .b1, [], [[1], [1], [0]]⟩,
           ⟨"masses", .f8, [], [[5], [16], [6]]⟩, ⟨"tags", .i8, [], [[0], [9], [0]]⟩] := by decide

example : IsPartition [[0, 1, 2], [3], [4, 5]] 6 :=
  ⟨by decide, by decide, by decide, by decide⟩
example : searchMolecules 6 [[0, 1, 2], [3], [4, 5]] (.between 2 3) (some [-5, -5, -5, 9, -5, -5])
    = .ok [0, 0, 0, 9, 2, 2] := by decide
example : searchMolecules 6 [[0, 1, 2], [3], [4, 5]] .all none = .ok [0, 0, 0, 1, 2, 2] := by decide
example : searchMolecules 6 [[0, 1, 2], [3], [4, 5]] (.exact 1) (some [7]) = .error "IndexError" := by decide

end RI
