import QProofs.Calc
import QProps.C03
/-!
# C04 — energies used for acceptance belong to the configuration they describe

Model: QModel/Calc.lean on top of the M-machine.  `MC.ctrial` is one trial of `MonteCarlo.step` including what the
criteria, `save_state` and `revert_state` do to the calculator; `MC.logRead` is the logger's energy read.

* `getEnergy_spec` (QProofs/Calc.lean) — **no cross attribution**: whatever valid cache the calculator holds,
  `get_potential_energy()` returns the energy of the atoms it is asked about, for every calculator style;
* `einv_trial` — after every trial (accepted, rejected, failed) followed by the logger's read, the reported energy and
  the reference energy of the next acceptance test equal the from-scratch energy of the current atoms, the remembered
  positions equal the current ones, and the calculator is synchronised with the atoms (canonical driver, every
  displacement-type tree, every script; stateless and result-caching calculators);
* `one_eval_per_trial` — with a result-caching calculator a trial plus the logger's read costs at most one
  evaluation, a failed trial none; `reject_and_log_free` — after the criteria's evaluation neither the rejection nor
  logging costs an evaluation;
* `stateless_always_fresh` — a calculator that caches nothing reports the from-scratch energy unconditionally.
* Known finding, as a theorem: `peratom_unusable_after_rejected_exchange` — a calculator with per-atom internal state is
  handed atoms of another size after a rejected grand-canonical exchange.
-/
namespace MC
open MM

/-- energy bookkeeping invariant between trials (after the logger's read) -/
structure EInv (cs : CState) : Prop where
  fresh : Fresh cs.cal cs.m.atoms
  lastE : cs.lastE = energy cs.m.atoms
  lastR : cs.lastResults = some (energy cs.m.atoms)

theorem stateless_always_fresh (c : CalcS) (a : AtomsS) (hs : c.style = .stateless) :
    (getEnergy c a).1 = energy a := by
  unfold getEnergy; simp [hs]

theorem einv_validate (sim : Sim) (cs : CState) (hv : Valid cs.cal) : EInv (cvalidate sim cs) := by
  obtain ⟨h1, h2, _, _, _⟩ := getEnergy_spec cs.cal (validate sim cs.m).atoms hv
  unfold cvalidate
  exact ⟨h2, h1, h2.1⟩

/-- **einv_trial** (canonical driver, displacement-type trees) -/
theorem einv_trial (sim : Sim) (he : sim.ens = .canonical) (t : Tree) (v : Bool) (cs : CState)
    (hinv : Inv sim.ens cs.m) (heinv : EInv cs)
    (hrs : ∀ r ∈ t.refs, r < cs.m.heap.length) (ht : PosTree cs.m t) :
    let cs' := (logRead (ctrial sim t v cs).2).2
    EInv cs' ∧ (logRead (ctrial sim t v cs).2).1 = energy cs'.m.atoms ∧
    cs'.m.ctx.lastPos = positions cs'.m.atoms.rows := by
  have hb : sim.ens ≠ .base := by rw [he]; simp
  have hk := callTree_keeps t cs.m hrs ht
  have hfail := callTree_fail t cs.m hrs ht
  have hrej := reject_restores sim t cs.m hb hinv hrs ht
  have hinv' := inv_trial sim t v cs.m hb hinv hrs ht
  unfold trial at hrej hinv'
  unfold ctrial
  rcases hct : callTree t cs.m with ⟨ok, s1⟩
  rw [hct] at hk hfail hrej hinv'
  simp only [] at hk hfail hrej hinv' ⊢
  cases ok with
  | false =>
    simp only [Bool.false_eq_true, if_false] at hinv' ⊢
    have ha := hfail rfl
    have hf : Fresh cs.cal s1.atoms := fresh_congr _ _ _ ha heinv.fresh
    obtain ⟨g1, g2, _, _, _⟩ := getEnergy_spec cs.cal s1.atoms (fresh_valid _ _ hf)
    refine ⟨⟨g2, ?_, ?_⟩, g1, ?_⟩
    · show cs.lastE = energy s1.atoms; rw [ha]; exact heinv.lastE
    · show cs.lastResults = some (energy s1.atoms); rw [ha]; exact heinv.lastR
    · exact hinv'.lastPos hb
  | true =>
    have hv0 : Valid cs.cal := fresh_valid _ _ heinv.fresh
    obtain ⟨_, f1, v1, _, _⟩ := getEnergy_spec cs.cal s1.atoms hv0
    cases v with
    | true =>
      simp only [if_true] at hinv' ⊢
      obtain ⟨e2, f2, v2, _, _⟩ := getEnergy_spec (getEnergy cs.cal s1.atoms).2 s1.atoms v1
      have hat : (saveState sim s1).atoms = s1.atoms := saveState_atoms sim s1
      have f2' : Fresh (getEnergy (getEnergy cs.cal s1.atoms).2 s1.atoms).2 (saveState sim s1).atoms :=
        fresh_congr _ _ _ hat f2
      obtain ⟨g1, g2, _, _, _⟩ := getEnergy_spec _ (saveState sim s1).atoms (fresh_valid _ _ f2')
      refine ⟨⟨g2, ?_, ?_⟩, g1, hinv'.lastPos hb⟩
      · show (getEnergy (getEnergy cs.cal s1.atoms).2 s1.atoms).1 = energy (saveState sim s1).atoms
        rw [hat]; exact e2
      · show (getEnergy (getEnergy cs.cal s1.atoms).2 s1.atoms).2.results = some (energy (saveState sim s1).atoms)
        rw [hat]; exact f2.1
    | false =>
      simp only [if_true, Bool.false_eq_true, if_false] at hrej hinv' ⊢
      have hat : (revertState sim s1).atoms = cs.m.atoms := (hrej (by first | rfl | trivial)).2
      have hrc : Fresh (revertCalc sim.ens (getEnergy cs.cal s1.atoms).2 cs.lastResults (revertState sim s1).atoms)
          (revertState sim s1).atoms := by
        rw [hat, he, heinv.lastR]
        exact revertCalc_fresh_pos _ _ _ hk.pos f1
      obtain ⟨g1, g2, _, _, _⟩ := getEnergy_spec _ (revertState sim s1).atoms (fresh_valid _ _ hrc)
      refine ⟨⟨g2, ?_, ?_⟩, g1, hinv'.lastPos hb⟩
      · show cs.lastE = energy (revertState sim s1).atoms; rw [hat]; exact heinv.lastE
      · show cs.lastResults = some (energy (revertState sim s1).atoms); rw [hat]; exact heinv.lastR

/-- **one_eval_per_trial**: with a result-caching calculator a trial and the logger's read together cost at most one
    evaluation; a trial that fails costs none. -/
theorem one_eval_per_trial (sim : Sim) (he : sim.ens = .canonical) (t : Tree) (v : Bool) (cs : CState)
    (hinv : Inv sim.ens cs.m) (heinv : EInv cs) (hs : cs.cal.style = .caching)
    (hrs : ∀ r ∈ t.refs, r < cs.m.heap.length) (ht : PosTree cs.m t) :
    (logRead (ctrial sim t v cs).2).2.cal.evals ≤ cs.cal.evals + 1 ∧
    ((ctrial sim t v cs).1 = .failed → (logRead (ctrial sim t v cs).2).2.cal.evals = cs.cal.evals) := by
  have hb : sim.ens ≠ .base := by rw [he]; simp
  have hk := callTree_keeps t cs.m hrs ht
  have hfail := callTree_fail t cs.m hrs ht
  have hrej := reject_restores sim t cs.m hb hinv hrs ht
  unfold trial at hrej
  unfold ctrial
  rcases hct : callTree t cs.m with ⟨ok, s1⟩
  rw [hct] at hk hfail hrej
  simp only [] at hk hfail hrej ⊢
  have hns : cs.cal.style ≠ .stateless := by rw [hs]; simp
  cases ok with
  | false =>
    simp only [Bool.false_eq_true, if_false]
    have hf : Fresh cs.cal s1.atoms := fresh_congr _ _ _ (hfail rfl) heinv.fresh
    have := (getEnergy_free cs.cal s1.atoms hns hf).1
    simp only [logRead, this]
    exact ⟨Nat.le_succ _, by first | (intro _; rfl) | (intro _; trivial) | trivial⟩
  | true =>
    have hv0 : Valid cs.cal := fresh_valid _ _ heinv.fresh
    obtain ⟨_, f1, v1, e1, st1⟩ := getEnergy_spec cs.cal s1.atoms hv0
    have hns1 : (getEnergy cs.cal s1.atoms).2.style ≠ .stateless := by rw [st1]; exact hns
    cases v with
    | true =>
      simp only [if_true]
      have h2 := (getEnergy_free _ s1.atoms hns1 f1).1
      have f2' : Fresh (getEnergy cs.cal s1.atoms).2 (saveState sim s1).atoms :=
        fresh_congr _ _ _ (saveState_atoms sim s1) f1
      have h3 := (getEnergy_free _ (saveState sim s1).atoms hns1 f2').1
      simp only [logRead, h2, h3]
      exact ⟨e1, fun h => by cases h⟩
    | false =>
      simp only [if_true, Bool.false_eq_true, if_false] at hrej ⊢
      have hat : (revertState sim s1).atoms = cs.m.atoms := (hrej (by first | rfl | trivial)).2
      have hrc : Fresh (revertCalc sim.ens (getEnergy cs.cal s1.atoms).2 cs.lastResults (revertState sim s1).atoms)
          (revertState sim s1).atoms := by
        rw [hat, he, heinv.lastR]
        exact revertCalc_fresh_pos _ _ _ hk.pos f1
      have hsr : (revertCalc sim.ens (getEnergy cs.cal s1.atoms).2 cs.lastResults (revertState sim s1).atoms).style
          ≠ .stateless := by
        rw [he]; simp only [revertCalc]; exact hns1
      have h3 := (getEnergy_free _ (revertState sim s1).atoms hsr hrc).1
      simp only [logRead, h3]
      refine ⟨?_, fun h => by cases h⟩
      rw [he]; simp only [revertCalc]; exact e1

/-- **reject_and_log_free**: once the criteria has evaluated the trial configuration, neither the rejection nor the
    logger's read costs an evaluation. -/
theorem reject_and_log_free (sim : Sim) (he : sim.ens = .canonical) (t : Tree) (cs : CState)
    (hinv : Inv sim.ens cs.m) (heinv : EInv cs) (hs : cs.cal.style = .caching)
    (hrs : ∀ r ∈ t.refs, r < cs.m.heap.length) (ht : PosTree cs.m t) (hok : (callTree t cs.m).1 = true) :
    (logRead (ctrial sim t false cs).2).2.cal.evals = (getEnergy cs.cal (callTree t cs.m).2.atoms).2.evals := by
  have hb : sim.ens ≠ .base := by rw [he]; simp
  have hk := callTree_keeps t cs.m hrs ht
  have hrej := reject_restores sim t cs.m hb hinv hrs ht
  unfold trial at hrej
  unfold ctrial
  rcases hct : callTree t cs.m with ⟨ok, s1⟩
  rw [hct] at hk hrej hok
  simp only [] at hk hrej hok ⊢
  subst hok
  have hns : cs.cal.style ≠ .stateless := by rw [hs]; simp
  have hv0 : Valid cs.cal := fresh_valid _ _ heinv.fresh
  obtain ⟨_, f1, v1, e1, st1⟩ := getEnergy_spec cs.cal s1.atoms hv0
  have hns1 : (getEnergy cs.cal s1.atoms).2.style ≠ .stateless := by rw [st1]; exact hns
  simp only [if_true, Bool.false_eq_true, if_false] at hrej ⊢
  have hat : (revertState sim s1).atoms = cs.m.atoms := (hrej (by first | rfl | trivial)).2
  have hrc : Fresh (revertCalc sim.ens (getEnergy cs.cal s1.atoms).2 cs.lastResults (revertState sim s1).atoms)
      (revertState sim s1).atoms := by
    rw [hat, he, heinv.lastR]
    exact revertCalc_fresh_pos _ _ _ hk.pos f1
  have hsr : (revertCalc sim.ens (getEnergy cs.cal s1.atoms).2 cs.lastResults (revertState sim s1).atoms).style
      ≠ .stateless := by
    rw [he]; simp only [revertCalc]; exact hns1
  have h3 := (getEnergy_free _ (revertState sim s1).atoms hsr hrc).1
  simp only [logRead, h3]
  rw [he]; simp only [revertCalc]

/-! ### the grand-canonical driver -/

theorem revertCalc_fresh_grand (c : CalcS) (a : AtomsS) :
    Fresh (revertCalc .grand c (some (energy a)) a) a :=
  ⟨rfl, a, rfl, changes_self a⟩

/-- energy bookkeeping through one trial, for any tree whose rejection / failure restores the atoms (the hypotheses
    `hfail`, `hrej` are discharged by the C03 theorems) — grand-canonical driver -/
theorem einv_trial_grand_of (sim : Sim) (he : sim.ens = .grand) (t : Tree) (v : Bool) (cs : CState)
    (heinv : EInv cs)
    (hfail : (callTree t cs.m).1 = false → (callTree t cs.m).2.atoms = cs.m.atoms)
    (hrej : (callTree t cs.m).1 = true → (revertState sim (callTree t cs.m).2).atoms = cs.m.atoms) :
    let cs' := (logRead (ctrial sim t v cs).2).2
    EInv cs' ∧ (logRead (ctrial sim t v cs).2).1 = energy cs'.m.atoms := by
  unfold ctrial
  rcases hct : callTree t cs.m with ⟨ok, s1⟩
  rw [hct] at hfail hrej
  simp only [] at hfail hrej ⊢
  cases ok with
  | false =>
    simp only [Bool.false_eq_true, if_false]
    have ha := hfail rfl
    have hf : Fresh cs.cal s1.atoms := fresh_congr _ _ _ ha heinv.fresh
    obtain ⟨g1, g2, _, _, _⟩ := getEnergy_spec cs.cal s1.atoms (fresh_valid _ _ hf)
    refine ⟨⟨g2, ?_, ?_⟩, g1⟩
    · show cs.lastE = energy s1.atoms; rw [ha]; exact heinv.lastE
    · show cs.lastResults = some (energy s1.atoms); rw [ha]; exact heinv.lastR
  | true =>
    have hv0 : Valid cs.cal := fresh_valid _ _ heinv.fresh
    obtain ⟨_, f1, v1, _, _⟩ := getEnergy_spec cs.cal s1.atoms hv0
    cases v with
    | true =>
      simp only [if_true]
      obtain ⟨e2, f2, v2, _, _⟩ := getEnergy_spec (getEnergy cs.cal s1.atoms).2 s1.atoms v1
      have hat : (saveState sim s1).atoms = s1.atoms := saveState_atoms sim s1
      have f2' : Fresh (getEnergy (getEnergy cs.cal s1.atoms).2 s1.atoms).2 (saveState sim s1).atoms :=
        fresh_congr _ _ _ hat f2
      obtain ⟨g1, g2, _, _, _⟩ := getEnergy_spec _ (saveState sim s1).atoms (fresh_valid _ _ f2')
      refine ⟨⟨g2, ?_, ?_⟩, g1⟩
      · show (getEnergy (getEnergy cs.cal s1.atoms).2 s1.atoms).1 = energy (saveState sim s1).atoms
        rw [hat]; exact e2
      · show (getEnergy (getEnergy cs.cal s1.atoms).2 s1.atoms).2.results = some (energy (saveState sim s1).atoms)
        rw [hat]; exact f2.1
    | false =>
      simp only [if_true, Bool.false_eq_true, if_false]
      have hat : (revertState sim s1).atoms = cs.m.atoms := hrej rfl
      have hrc : Fresh (revertCalc sim.ens (getEnergy cs.cal s1.atoms).2 cs.lastResults (revertState sim s1).atoms)
          (revertState sim s1).atoms := by
        rw [hat, he, heinv.lastR]
        exact revertCalc_fresh_grand _ _
      obtain ⟨g1, g2, _, _, _⟩ := getEnergy_spec _ (revertState sim s1).atoms (fresh_valid _ _ hrc)
      refine ⟨⟨g2, ?_, ?_⟩, g1⟩
      · show cs.lastE = energy (revertState sim s1).atoms; rw [hat]; exact heinv.lastE
      · show cs.lastResults = some (energy (revertState sim s1).atoms); rw [hat]; exact heinv.lastR

/-- **einv_trial (grand canonical, single exchange move)**: after an insertion or deletion trial — accepted, rejected
    or failed — and the logger's read, reported and reference energy are those of the current atoms -/
theorem einv_trial_exchange (sim : Sim) (he : sim.ens = .grand) (r : Nat) (v : Bool) (cs : CState)
    (hinv : InvG cs.m) (heinv : EInv cs) (hk : (cs.m.obj r).kind = .exch)
    (hlab : (cs.m.obj r).labels.length = cs.m.atoms.rows.length) (hnew : toAddOf (cs.m.obj r) cs.m.ctx ≠ []) :
    let cs' := (logRead (ctrial sim (.leaf r) v cs).2).2
    EInv cs' ∧ (logRead (ctrial sim (.leaf r) v cs).2).1 = energy cs'.m.atoms := by
  have hna := exch_not_accepted_restores sim he r cs.m hinv hk hlab hnew
  apply einv_trial_grand_of sim he (.leaf r) v cs heinv
  · intro hf
    simp only [trial, hf, Bool.false_eq_true, if_false] at hna
    exact hna
  · intro hok
    simp only [trial, hok, if_true, Bool.false_eq_true, if_false] at hna
    exact hna

/-- **einv_trial (grand canonical, displacement-type trees)** -/
theorem einv_trial_grand_pos (sim : Sim) (he : sim.ens = .grand) (t : Tree) (v : Bool) (cs : CState)
    (hinv : Inv sim.ens cs.m) (heinv : EInv cs)
    (hrs : ∀ r ∈ t.refs, r < cs.m.heap.length) (ht : PosTree cs.m t) :
    let cs' := (logRead (ctrial sim t v cs).2).2
    EInv cs' ∧ (logRead (ctrial sim t v cs).2).1 = energy cs'.m.atoms := by
  have hb : sim.ens ≠ .base := by rw [he]; simp
  apply einv_trial_grand_of sim he t v cs heinv
  · exact callTree_fail t cs.m hrs ht
  · intro hok
    have := (reject_restores sim t cs.m hb hinv hrs ht hok).2
    simp only [trial, hok, if_true, Bool.false_eq_true, if_false] at this
    exact this

/-! ### every driver, every tree whose rejection restores the atoms -/

/-- energy bookkeeping through one trial for ANY driver: the three hypotheses are what the C03 theorems and the
    `revertCalc_fresh_*` lemmas provide for the driver/tree at hand -/
theorem einv_trial_of (sim : Sim) (t : Tree) (v : Bool) (cs : CState) (heinv : EInv cs)
    (hfail : (callTree t cs.m).1 = false → (callTree t cs.m).2.atoms = cs.m.atoms)
    (hrej : (callTree t cs.m).1 = true → (revertState sim (callTree t cs.m).2).atoms = cs.m.atoms)
    (hrc : (callTree t cs.m).1 = true → ∀ c : CalcS, Fresh c (callTree t cs.m).2.atoms →
            Fresh (revertCalc sim.ens c (some (energy cs.m.atoms)) cs.m.atoms) cs.m.atoms) :
    let cs' := (logRead (ctrial sim t v cs).2).2
    EInv cs' ∧ (logRead (ctrial sim t v cs).2).1 = energy cs'.m.atoms := by
  unfold ctrial
  rcases hct : callTree t cs.m with ⟨ok, s1⟩
  rw [hct] at hfail hrej hrc
  simp only [] at hfail hrej hrc ⊢
  cases ok with
  | false =>
    simp only [Bool.false_eq_true, if_false]
    have ha := hfail rfl
    have hf : Fresh cs.cal s1.atoms := fresh_congr _ _ _ ha heinv.fresh
    obtain ⟨g1, g2, _, _, _⟩ := getEnergy_spec cs.cal s1.atoms (fresh_valid _ _ hf)
    refine ⟨⟨g2, ?_, ?_⟩, g1⟩
    · show cs.lastE = energy s1.atoms; rw [ha]; exact heinv.lastE
    · show cs.lastResults = some (energy s1.atoms); rw [ha]; exact heinv.lastR
  | true =>
    have hv0 : Valid cs.cal := fresh_valid _ _ heinv.fresh
    obtain ⟨_, f1, v1, _, _⟩ := getEnergy_spec cs.cal s1.atoms hv0
    cases v with
    | true =>
      simp only [if_true]
      obtain ⟨e2, f2, v2, _, _⟩ := getEnergy_spec (getEnergy cs.cal s1.atoms).2 s1.atoms v1
      have hat : (saveState sim s1).atoms = s1.atoms := saveState_atoms sim s1
      have f2' : Fresh (getEnergy (getEnergy cs.cal s1.atoms).2 s1.atoms).2 (saveState sim s1).atoms :=
        fresh_congr _ _ _ hat f2
      obtain ⟨g1, g2, _, _, _⟩ := getEnergy_spec _ (saveState sim s1).atoms (fresh_valid _ _ f2')
      refine ⟨⟨g2, ?_, ?_⟩, g1⟩
      · show (getEnergy (getEnergy cs.cal s1.atoms).2 s1.atoms).1 = energy (saveState sim s1).atoms
        rw [hat]; exact e2
      · show (getEnergy (getEnergy cs.cal s1.atoms).2 s1.atoms).2.results = some (energy (saveState sim s1).atoms)
        rw [hat]; exact f2.1
    | false =>
      simp only [if_true, Bool.false_eq_true, if_false]
      have hat : (revertState sim s1).atoms = cs.m.atoms := hrej rfl
      have hrc' : Fresh (revertCalc sim.ens (getEnergy cs.cal s1.atoms).2 cs.lastResults (revertState sim s1).atoms)
          (revertState sim s1).atoms := by
        rw [hat, heinv.lastR]
        exact hrc rfl _ f1
      obtain ⟨g1, g2, _, _, _⟩ := getEnergy_spec _ (revertState sim s1).atoms (fresh_valid _ _ hrc')
      refine ⟨⟨g2, ?_, ?_⟩, g1⟩
      · show cs.lastE = energy (revertState sim s1).atoms; rw [hat]; exact heinv.lastE
      · show cs.lastResults = some (energy (revertState sim s1).atoms); rw [hat]; exact heinv.lastR

/-- **einv_trial (isobaric / isotension driver, cell move)**: also after a rejected deformation the reported and the
    reference energy are those of the restored cell and positions -/
theorem einv_trial_cell (sim : Sim) (he : sim.ens = .isobaric) (r : Nat) (v : Bool) (cs : CState)
    (hinv : Inv sim.ens cs.m) (heinv : EInv cs) (hk : (cs.m.obj r).kind = .cell) :
    let cs' := (logRead (ctrial sim (.leaf r) v cs).2).2
    EInv cs' ∧ (logRead (ctrial sim (.leaf r) v cs).2).1 = energy cs'.m.atoms := by
  have hspec := cellCall_spec r cs.m
  have hcall : callTree (.leaf r) cs.m = cellCall r cs.m := by simp [callTree, leafCall, hk]
  apply einv_trial_of sim (.leaf r) v cs heinv
  · intro hf
    have := fail_restores_cell sim r v cs.m hk hf
    simpa [trial, hf] using this
  · intro hok
    have := reject_restores_cell sim r cs.m he hinv hk hok
    simpa [trial, hok] using this
  · intro hok c hfc
    rw [he]
    apply revertCalc_fresh_strip c cs.m.atoms _ _ hfc
    rw [hcall] at hok ⊢
    rcases hspec.2.2 with ⟨hx, _⟩ | ⟨_, f, hf⟩
    · rw [hok] at hx; cases hx
    · rw [hf]; exact deform_strip _ _ _

/-- **einv_trial (Hamiltonian driver, Hamiltonian move)** — the energy read is the potential energy; momenta are not
    part of what the calculator compares -/
theorem einv_trial_ham (sim : Sim) (he : sim.ens = .hamiltonian) (r : Nat) (v : Bool) (cs : CState)
    (hinv : Inv sim.ens cs.m) (heinv : EInv cs) (hk : (cs.m.obj r).kind = .ham) :
    let cs' := (logRead (ctrial sim (.leaf r) v cs).2).2
    EInv cs' ∧ (logRead (ctrial sim (.leaf r) v cs).2).1 = energy cs'.m.atoms := by
  have hspec := hamCall_spec r cs.m
  have hcall : callTree (.leaf r) cs.m = hamCall r cs.m := by simp [callTree, leafCall, hk]
  apply einv_trial_of sim (.leaf r) v cs heinv
  · intro hf
    have := fail_restores_ham sim r v cs.m hk hf
    simpa [trial, hf] using this
  · intro hok
    have := reject_restores_ham sim r cs.m he hinv hk hok
    simpa [trial, hok] using this
  · intro hok c hfc
    apply revertCalc_fresh_aux sim.ens (Or.inr he) c cs.m.atoms _ _ hfc
    rw [hcall] at hok ⊢
    rcases hspec.2.2 with ⟨hx, _⟩ | ⟨_, haux⟩
    · rw [hok] at hx; cases hx
    · exact haux

/-- **einv_trial (isobaric and Hamiltonian drivers, displacement-type trees)** -/
theorem einv_trial_pos_any (sim : Sim) (he : sim.ens = .canonical ∨ sim.ens = .hamiltonian ∨ sim.ens = .isobaric)
    (t : Tree) (v : Bool) (cs : CState) (hinv : Inv sim.ens cs.m) (heinv : EInv cs)
    (hrs : ∀ r ∈ t.refs, r < cs.m.heap.length) (ht : PosTree cs.m t) :
    let cs' := (logRead (ctrial sim t v cs).2).2
    EInv cs' ∧ (logRead (ctrial sim t v cs).2).1 = energy cs'.m.atoms := by
  have hb : sim.ens ≠ .base := by rcases he with h | h | h <;> rw [h] <;> simp
  have hk := callTree_keeps t cs.m hrs ht
  apply einv_trial_of sim t v cs heinv
  · exact callTree_fail t cs.m hrs ht
  · intro hok
    have := (reject_restores sim t cs.m hb hinv hrs ht hok).2
    simpa [trial, hok] using this
  · intro _ c hfc
    rcases he with h | h | h
    · rw [h]; exact revertCalc_fresh_aux .canonical (Or.inl rfl) c _ _ hk.pos.auxOnly hfc
    · rw [h]; exact revertCalc_fresh_aux .hamiltonian (Or.inr rfl) c _ _ hk.pos.auxOnly hfc
    · rw [h]; exact revertCalc_fresh_strip c _ _ hk.pos.stripOnly hfc

/-! ### non-vacuity and the known finding -/

def c4Sim : Sim := { ens := .canonical, table := [{ name := "a", oid := 0, tree := .leaf 0 }] }
def c4State : CState :=
  cvalidate c4Sim
    { m := { atoms := { rows := [⟨(1,0,0), (0,0,0), [29]⟩, ⟨(2,0,0), (0,0,0), [29]⟩], cell := (9,9,9), fixed := none },
             heap := [{ kind := .disp, labels := [0, 1] }], ctx := { lastPos := [(1,0,0), (2,0,0)] },
             inp := { draws := [1], ops := [(1,1,1)], checks := [true] } },
      cal := { style := .caching } }

-- energy 32 = 1 + 4 + 27; a rejected displacement of atom 1 costs one evaluation, the reference energy stays 32
example : c4State.lastE = 32 ∧ c4State.cal.evals = 1 ∧
    (logRead (ctrial c4Sim (.leaf 0) false c4State).2).1 = 32 ∧
    (logRead (ctrial c4Sim (.leaf 0) false c4State).2).2.cal.evals = 2 ∧
    (logRead (ctrial c4Sim (.leaf 0) true c4State).2).1 = 39 := by decide

/-- **known finding, as a theorem**: after a rejected grand-canonical insertion the driver hands the calculator the
    restored atoms together with the old results, so a calculator with per-atom internal state (sized for the trial
    configuration) is asked to evaluate atoms of another size on the next displacement. -/
theorem peratom_unusable_after_rejected_exchange :
    ∃ (sim : Sim) (cs : CState), sim.ens = .grand ∧ cs.cal.style = .perAtom ∧ cs.cal.broken = false ∧
      (logRead (ctrial sim (.leaf 1)
        true { (logRead (ctrial sim (.leaf 0) false cs).2).2 with
                m := { (logRead (ctrial sim (.leaf 0) false cs).2).2.m with
                        inp := { draws := [0], ops := [(1,0,0)], checks := [true] } } }).2).2.cal.broken = true := by
  refine ⟨{ ens := .grand, table := [{ name := "x", oid := 0, tree := .leaf 0 }, { name := "d", oid := 1, tree := .leaf 1 }] },
    cvalidate { ens := .grand, table := [] }
      { m := { atoms := { rows := [⟨(1,0,0), (0,0,0), [29]⟩, ⟨(2,0,0), (0,0,0), [29]⟩], cell := (9,9,9), fixed := none },
               heap := [{ kind := .exch, labels := [0, 1], bias := 1000 }, { kind := .disp, labels := [0, 1] }],
               ctx := { lastPos := [(1,0,0), (2,0,0)], template := [⟨(0,0,0), (0,0,0), [1]⟩] },
               inp := { draws := [0], ops := [(3,3,3)], checks := [true] } },
        cal := { style := .perAtom } }, rfl, rfl, by decide, by decide⟩

end MC
