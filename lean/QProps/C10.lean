import QProofs.Ops
import QProofs.OpsMeasure
/-!
# C10 — proposal operations stay within their advertised geometry and are symmetric

All theorems are about the shared definitions of `QModel/Ops.lean` at the carrier `ℝ`, for **all** step sizes /
maximum strains, all cells, all groups (any number of rows, any geometry, any masses with non-zero total), all masks
and all values of the random draws in their range.

Conventions.
* A uniform draw is a real `u` with `0 ≤ u < 1` (numpy `random()`); `uniform lo hi u = lo + (hi - lo) u`.
* The matrix exponential of the deformation models is a parameter; here it is instantiated with
  `Ops.expR = NormedSpace.exp` on `Matrix (Fin 3) (Fin 3) ℝ`. The `Float` Taylor routine of the model driver and
  scipy's `expm` are *not* related to it by any theorem (DESIGN §5, modelled-not-verified).
* `Rotation` is the **repaired** sampler (`harness/patches/C10-rotation.diff`): a rotation matrix built from four
  normal deviates. For the pinned Euler-angle code the symmetry clause is false: `euler_coded_not_symmetric`.
* Symmetry of a proposal is stated as: the inverse move is produced by an explicit reparametrisation of the draws
  that preserves their joint law (`QProofs/OpsMeasure.lean`). The reparametrisation `flip u = 1 - u` maps `(0,1)` to
  itself; the single point `u = 0` of the half-open interval `[0,1)` is a null set (handled in
  `Ops.flip_measurePreserving` through `Ico =ᵐ Ioo`).
* **Assumption, not proved:** a normalised standard-normal 4-vector is Haar-uniform on unit quaternions
  (orthogonal invariance of the Gaussian). `rotation_symm` needs only that the Gaussian density is even.
-/

namespace Ops
open Real MeasureTheory

/-! ## Ball, Sphere, Box -/

/-- **ball_norm**: the norm of a `Ball` displacement is `s·u₁`; it is at most `s`, and strictly less for `s > 0`. -/
theorem ball_norm (s u1 u2 u3 : ℝ) (hs : 0 ≤ s) (h1 : 0 ≤ u1 ∧ u1 < 1) (h3 : 0 ≤ u3 ∧ u3 < 1) :
    norm (ball s u1 u2 u3) = s * u1 ∧ norm (ball s u1 u2 u3) ≤ s ∧ (0 < s → norm (ball s u1 u2 u3) < s) := by
  have hn : norm (ball s u1 u2 u3) = s * u1 := by
    rw [norm, Num.real_sqrt, ball_norm2 s u1 u2 u3 h3.1 h3.2.le, Real.sqrt_sq (mul_nonneg hs h1.1)]
  refine ⟨hn, ?_, fun hpos => ?_⟩ <;> rw [hn] <;> nlinarith [h1.1, h1.2]

/-- **sphere_norm**: the norm of a `Sphere` displacement equals the step size. -/
theorem sphere_norm (s u1 u2 : ℝ) (hs : 0 ≤ s) (h2 : 0 ≤ u2 ∧ u2 < 1) : norm (sphere s u1 u2) = s := by
  rw [norm, Num.real_sqrt, sphere_norm2 s u1 u2 h2.1 h2.2.le, Real.sqrt_sq hs]

/-- **box_bounds**: every component of a `Box` displacement lies in `[-s, s]` (indeed in `[-s, s)`). -/
theorem box_bounds (s u1 u2 u3 : ℝ) (hs : 0 ≤ s) (h1 : 0 ≤ u1 ∧ u1 < 1) (h2 : 0 ≤ u2 ∧ u2 < 1)
    (h3 : 0 ≤ u3 ∧ u3 < 1) (i : Fin 3) : |box s u1 u2 u3 i| ≤ s := by
  rw [box_apply, abs_le]
  have hv : 0 ≤ vec3 u1 u2 u3 i ∧ vec3 u1 u2 u3 i < 1 := by
    fin_cases i <;> first | exact h1 | exact h2 | exact h3
  constructor <;> nlinarith [hv.1, hv.2]

/-- **ball_symm**: the reparametrisation `(u₁, u₂, u₃) ↦ (u₁, u₂ + ½ mod 1, 1 - u₃)` — i.e. `φ ↦ φ + π (mod 2π)`,
    `cos θ ↦ -cos θ` — produces the negated displacement, stays in the range of the draws (up to the null set
    `u₃ = 0`), is an involution, and preserves the joint law of the draws. -/
theorem ball_symm (s u1 u2 u3 : ℝ) :
    ball s u1 (shiftHalf u2) (flip u3) = -ball s u1 u2 u3
    ∧ (0 ≤ shiftHalf u2 ∧ shiftHalf u2 < 1)
    ∧ (0 < u3 → u3 < 1 → 0 < flip u3 ∧ flip u3 < 1)
    ∧ (0 ≤ u2 → u2 < 1 → shiftHalf (shiftHalf u2) = u2) ∧ flip (flip u3) = u3
    ∧ MeasurePreserving (fun u : ℝ × ℝ × ℝ => (u.1, shiftHalf u.2.1, flip u.2.2))
        (U01.prod (U01.prod U01)) (U01.prod (U01.prod U01)) :=
  ⟨ball_flip s u1 u2 u3, shiftHalf_mem u2, flip_mem u3, shiftHalf_shiftHalf u2, flip_flip u3,
    ball_reparam_measurePreserving⟩

/-- **sphere_symm** -/
theorem sphere_symm (s u1 u2 : ℝ) :
    sphere s (shiftHalf u1) (flip u2) = -sphere s u1 u2
    ∧ (0 ≤ shiftHalf u1 ∧ shiftHalf u1 < 1)
    ∧ (0 < u2 → u2 < 1 → 0 < flip u2 ∧ flip u2 < 1)
    ∧ (0 ≤ u1 → u1 < 1 → shiftHalf (shiftHalf u1) = u1) ∧ flip (flip u2) = u2
    ∧ MeasurePreserving (fun u : ℝ × ℝ => (shiftHalf u.1, flip u.2)) (U01.prod U01) (U01.prod U01) :=
  ⟨sphere_flip s u1 u2, shiftHalf_mem u1, flip_mem u2, shiftHalf_shiftHalf u1, flip_flip u2,
    sphere_reparam_measurePreserving⟩

/-- **box_symm**: `u ↦ 1 - u` in each coordinate negates the displacement and preserves the law of the draws. -/
theorem box_symm (s u1 u2 u3 : ℝ) :
    box s (flip u1) (flip u2) (flip u3) = -box s u1 u2 u3
    ∧ (∀ u : ℝ, 0 < u → u < 1 → 0 < flip u ∧ flip u < 1) ∧ (∀ u : ℝ, flip (flip u) = u)
    ∧ MeasurePreserving (fun u : ℝ × ℝ × ℝ => (flip u.1, flip u.2.1, flip u.2.2))
        (U01.prod (U01.prod U01)) (U01.prod (U01.prod U01)) :=
  ⟨box_flip s u1 u2 u3, flip_mem, flip_flip, box_reparam_measurePreserving⟩

/-! ## Translation -/

/-- **translation_centroid**: after a `Translation` the centroid of the group is `u ᵥ* cell`, for any cell
    (triclinic, singular, left-handed) and any non-empty group. -/
theorem translation_centroid (cell : Mat ℝ) (ps : List (Vec ℝ)) (hne : ps ≠ []) (u1 u2 u3 : ℝ) :
    centroid (ps.map (fun p => vadd p (translation cell ps u1 u2 u3)))
      = Matrix.vecMul (vec3 u1 u2 u3) (Matrix.of cell) := by
  simp only [vadd_real]
  rw [centroid_map_add ps _ hne, translation_real]
  abel

/-- **translation_uniform**: for an invertible cell the fractional coordinates of the new centroid are exactly the
    three uniform draws — in `[0,1)³`, independent of where the group was (so the proposal density `1/V` is the same
    in both directions). -/
theorem translation_uniform (cell : Mat ℝ) (hc : IsUnit (Matrix.of cell : Matrix (Fin 3) (Fin 3) ℝ))
    (ps : List (Vec ℝ)) (hne : ps ≠ []) (u1 u2 u3 : ℝ) :
    Matrix.vecMul (centroid (ps.map (fun p => vadd p (translation cell ps u1 u2 u3))))
      (Matrix.of cell : Matrix (Fin 3) (Fin 3) ℝ)⁻¹ = vec3 u1 u2 u3 := by
  rw [translation_centroid cell ps hne, Matrix.vecMul_vecMul, Matrix.mul_nonsing_inv _ ((Matrix.isUnit_iff_isUnit_det _).mp hc),
    Matrix.vecMul_one]

/-- **translation_rigid**: a translation adds one and the same row to every atom of the group, so every pairwise
    distance is preserved. -/
theorem translation_rigid (cell : Mat ℝ) (ps : List (Vec ℝ)) (u1 u2 u3 : ℝ) (p q : Vec ℝ) :
    dist2 (vadd p (translation cell ps u1 u2 u3)) (vadd q (translation cell ps u1 u2 u3)) = dist2 p q :=
  dist2_add_right p q _

/-! ## Rotation -/

/-- the displacement block of a rotation has one row per atom -/
theorem rotationWith_length (r : Mat ℝ) (g : List (ℝ × Vec ℝ)) : (rotationWith r g).length = g.length := by
  simp [rotationWith]

/-- **rotation_rigid**: for an orthogonal matrix, moving the group by the rotation's displacement block preserves
    all pairwise distances. -/
theorem rotation_rigid (r : Mat ℝ) (h : (Matrix.of r).transpose * Matrix.of r = 1) (g : List (ℝ × Vec ℝ))
    (i j : ℕ) (hi : i < g.length) (hj : j < g.length) :
    dist2 ((moveGroup g (rotationWith r g))[i]'(by rw [moveGroup_rotationWith, rotated_length]; exact hi)).2
          ((moveGroup g (rotationWith r g))[j]'(by rw [moveGroup_rotationWith, rotated_length]; exact hj)).2
      = dist2 g[i].2 g[j].2 := by
  simp only [moveGroup_rotationWith, rotated_getElem r g i hi, rotated_getElem r g j hj]
  exact dist2_rotPoint r h _ _ _

/-- **rotation_keeps_com**: the mass-weighted centre of the group is unchanged (any matrix, any masses with
    non-zero sum). -/
theorem rotation_keeps_com (r : Mat ℝ) (g : List (ℝ × Vec ℝ)) (hm : msum g ≠ 0) :
    com (moveGroup g (rotationWith r g)) = com g := by
  rw [moveGroup_rotationWith]; exact com_rotated r g hm

/-- **quat_rotation**: the matrix built from any non-zero quaternion is a proper rotation. -/
theorem quat_rotation (w x y z : ℝ) (h : w * w + x * x + y * y + z * z ≠ 0) :
    (Matrix.of (quatMat w x y z)).transpose * Matrix.of (quatMat w x y z) = 1
    ∧ (Matrix.of (quatMat w x y z)).det = 1 :=
  ⟨quatMat_orthogonal w x y z h, quatMat_det w x y z h⟩

/-- the sampled `Rotation` is rigid and keeps the centre of mass, for every non-zero draw -/
theorem rotation_sampled_rigid_com (g : List (ℝ × Vec ℝ)) (hm : msum g ≠ 0) (w x y z : ℝ)
    (h : w * w + x * x + y * y + z * z ≠ 0) :
    com (moveGroup g (rotation g w x y z)) = com g ∧
    ∀ (i j : ℕ) (hi : i < g.length) (hj : j < g.length),
      dist2 ((moveGroup g (rotation g w x y z))[i]'(by
                rw [rotation, moveGroup_rotationWith, rotated_length]; exact hi)).2
            ((moveGroup g (rotation g w x y z))[j]'(by
                rw [rotation, moveGroup_rotationWith, rotated_length]; exact hj)).2
        = dist2 g[i].2 g[j].2 :=
  ⟨rotation_keeps_com _ g hm, fun i j hi hj => rotation_rigid _ (quatMat_orthogonal w x y z h) g i j hi hj⟩

/-- `TranslationRotation` (sum of a translation row and a rotation block) is rigid as well. -/
theorem translationRotation_rigid (cell : Mat ℝ) (g : List (ℝ × Vec ℝ)) (u1 u2 u3 w x y z : ℝ)
    (h : w * w + x * x + y * y + z * z ≠ 0) (i j : ℕ) (hi : i < g.length) (hj : j < g.length) :
    dist2 ((moveGroup g (translationRotation cell g u1 u2 u3 w x y z))[i]'(by
              simp [translationRotation, moveGroup, rotation, rotationWith]; exact hi)).2
          ((moveGroup g (translationRotation cell g u1 u2 u3 w x y z))[j]'(by
              simp [translationRotation, moveGroup, rotation, rotationWith]; exact hj)).2
      = dist2 g[i].2 g[j].2 := by
  simp only [translationRotation, moveGroup_map_add, rotation, moveGroup_rotationWith, List.getElem_map,
    rotated_getElem _ g i hi, rotated_getElem _ g j hj, dist2_add_right]
  exact dist2_rotPoint _ (quatMat_orthogonal w x y z h) _ _ _

/-- **rotation_symm**: the quaternion conjugate `(w,-x,-y,-z)` produces the inverse rotation — its matrix is the
    transpose = inverse, and applying it to the rotated group restores the group exactly — and conjugation is an
    involution that preserves Lebesgue measure on `ℝ⁴` and the standard normal density `∝ exp(-|q|²/2)` of the four
    draws. Hence a rotation and its inverse are proposed with equal density. (Haar-uniformity is not claimed.) -/
theorem rotation_symm (g : List (ℝ × Vec ℝ)) (hm : msum g ≠ 0) (w x y z : ℝ)
    (h : w * w + x * x + y * y + z * z ≠ 0) :
    Matrix.of (quatMat w (-x) (-y) (-z)) = (Matrix.of (quatMat w x y z))⁻¹
    ∧ rotated (quatMat w (-x) (-y) (-z)) (rotated (quatMat w x y z) g) = g
    ∧ Real.exp (-(w * w + (-x) * (-x) + (-y) * (-y) + (-z) * (-z)) / 2)
        = Real.exp (-(w * w + x * x + y * y + z * z) / 2)
    ∧ (w * w + (-x) * (-x) + (-y) * (-y) + (-z) * (-z) ≠ 0)
    ∧ MeasurePreserving (fun q : ℝ × ℝ × ℝ × ℝ => (q.1, -q.2.1, -q.2.2.1, -q.2.2.2)) volume volume := by
  have ho := quatMat_orthogonal w x y z h
  have hT : (fun i j => quatMat w x y z j i) = quatMat w (-x) (-y) (-z) := by
    have := quatMat_conj w x y z
    funext i j
    exact (congrFun (congrFun this i) j).symm
  refine ⟨?_, ?_, by simp only [neg_mul_neg], by simpa only [neg_mul_neg] using h, conj_measurePreserving⟩
  · rw [quatMat_conj]
    exact (Matrix.inv_eq_left_inv ho).symm
  · rw [← hT]; exact rotated_transpose _ ho g hm

/-- **euler_coded_not_symmetric** (the pinned code): `Rotation.calculate` hands `2π·u` (a number below 6.3) to
    ASE's `euler_rotate`, which reads **degrees**. The inverse of a rotation by `a°` about an axis is the rotation by
    `-a° ≡ 360° - a°`; for every non-zero coded angle no draw produces an angle congruent to it modulo 360°. So
    the coded proposal is not symmetric (uses only `0 < π ≤ 4`). -/
theorem euler_coded_not_symmetric (u u' : ℝ) (hu : 0 < u ∧ u < 1) (hu' : 0 ≤ u' ∧ u' < 1) (k : ℤ) :
    eulerAngleDeg u' ≠ -eulerAngleDeg u + 360 * (k : ℝ) := by
  simp only [eulerAngleDeg, uniform_real, twoPi_real, Num.real_zero]
  intro heq
  have hp := Real.pi_pos
  have hp4 := Real.pi_le_four
  have h1 : (0 : ℝ) < 360 * k := by nlinarith [mul_pos hp hu.1, mul_nonneg hp.le hu'.1]
  have h2 : (360 : ℝ) * k < 16 := by nlinarith [mul_lt_mul_of_pos_left hu.2 hp, mul_lt_mul_of_pos_left hu'.2 hp]
  have hk0 : (0 : ℝ) < k := by nlinarith
  have hk0' : (0 : ℤ) < k := by exact_mod_cast hk0
  have hk1' : (1 : ℤ) ≤ k := by omega
  have hk1 : (1 : ℝ) ≤ k := by exact_mod_cast hk1'
  nlinarith

/-! ## Composite -/

/-- **composite_sum**: with numpy broadcasting (`(1,3)` blocks count for every row) row `i` of the composite
    result is the sum of the rows `i` of its parts, for any number of parts; the result is a `(1,3)` or `(n,3)` block. -/
theorem composite_sum (n : ℕ) (parts : List (List (Vec ℝ))) (hne : parts ≠ [])
    (hc : ∀ p ∈ parts, p.length = 1 ∨ p.length = n) :
    ((composite parts).length = 1 ∨ (composite parts).length = n) ∧
    ∀ i, i < n → rowOf (composite parts) i = (parts.map (fun p => rowOf p i)).sum :=
  composite_spec n parts hne hc

/-- the same for composites of deformation operations (entrywise sum of the 3×3 results) -/
theorem compositeMat_sum (parts : List (Mat ℝ)) (i j : Fin 3) :
    compositeMat parts i j = (parts.map (fun p => p i j)).sum := compositeMat_apply parts i j

/-- the sum of no parts is the zero displacement (a composite operation of length 0 leaves the atoms where they are) -/
theorem composite_nil_zero : composite ([] : List (List (Vec ℝ))) = [vzero] := rfl

/-- **move_uses_given_operation**: a move built with an operation uses THAT operation, whatever it is — in particular a
    composite of no parts is not replaced by the default operation; the default is used exactly when none was given -/
theorem move_uses_given_operation {β : Type} (g dflt : β) : chosenOp (some g) dflt = g := rfl
theorem default_operation_only_when_none {β : Type} (dflt : β) : chosenOp (none : Option β) dflt = dflt := rfl

/-- the line before the repair (`operation or self.default_operation`) replaced an empty composite by the default
    operation: a move that should displace by the sum of no parts displaced by a `Ball(0.1)` draw instead -/
theorem pinned_replaces_empty_composite {β : Type} (len : β → Option Nat) (g dflt : β) (h : len g = some 0) :
    chosenOpPinned len (some g) dflt = dflt := by
  simp [chosenOpPinned, h]

/-- for every operation that is not an empty composite the two lines agree (the repair changes nothing else) -/
theorem pinned_agrees_elsewhere {β : Type} (len : β → Option Nat) (g : Option β) (dflt : β)
    (h : ∀ x, g = some x → len x ≠ some 0) : chosenOpPinned len g dflt = chosenOp g dflt := by
  cases g with
  | none => rfl
  | some x => simp [chosenOpPinned, chosenOp, h x rfl]

/-! ## Deformations -/

/-- **iso_scalar_identity**: with the default mask an isotropic deformation is `e^x · 1`, `x = U(-m, m)`, and the
    scalar is positive. -/
theorem iso_scalar_identity (m u : ℝ) :
    Matrix.of (iso m allTrue u) = Real.exp (uniform (-m) m u) • (1 : Matrix (Fin 3) (Fin 3) ℝ)
    ∧ 0 < Real.exp (uniform (-m) m u) :=
  ⟨iso_allTrue m u, Real.exp_pos _⟩

/-- **shape_det_one**: with the default mask a shape deformation has determinant 1 (volume preserving). -/
theorem shape_det_one (m u1 u2 u3 u4 u5 u6 : ℝ) :
    (Matrix.of (shape expR m allTrue u1 u2 u3 u4 u5 u6)).det = 1 := by
  rw [shape, blend_allTrue]
  exact expR_det_one _ (shapeGen_symm m u1 u2 u3 u4 u5 u6) (shapeGen_trace m u1 u2 u3 u4 u5 u6)

/-- **deform_spd**: with the default mask all three deformation gradients are symmetric positive definite. -/
theorem deform_spd (m u1 u2 u3 u4 u5 u6 : ℝ) :
    (Matrix.of (aniso expR m allTrue u1 u2 u3 u4 u5 u6)).PosDef
    ∧ (Matrix.of (shape expR m allTrue u1 u2 u3 u4 u5 u6)).PosDef
    ∧ (Matrix.of (iso m allTrue u1)).PosDef := by
  refine ⟨?_, ?_, ?_⟩
  · rw [aniso, blend_allTrue]; exact expR_posDef _ (anisoGen_symm m u1 u2 u3 u4 u5 u6)
  · rw [shape, blend_allTrue]; exact expR_posDef _ (shapeGen_symm m u1 u2 u3 u4 u5 u6)
  · rw [iso_allTrue]
    exact Matrix.PosDef.one.smul (Real.exp_pos _)

/-- a positive definite real matrix is in particular symmetric -/
theorem deform_symmetric (m u1 u2 u3 u4 u5 u6 : ℝ) :
    (Matrix.of (aniso expR m allTrue u1 u2 u3 u4 u5 u6)).IsSymm
    ∧ (Matrix.of (shape expR m allTrue u1 u2 u3 u4 u5 u6)).IsSymm := by
  obtain ⟨h1, h2, _⟩ := deform_spd m u1 u2 u3 u4 u5 u6
  exact ⟨by simpa [Matrix.IsSymm, Matrix.IsHermitian] using h1.1, by simpa [Matrix.IsSymm, Matrix.IsHermitian] using h2.1⟩

/-- **mask_identity**: for every mask and every `expm`, a masked-out component of the gradient equals the
    corresponding component of the identity — for all three kinds; kept components are those of the unmasked
    gradient. -/
theorem mask_identity (expm : Mat ℝ → Mat ℝ) (m : ℝ) (mask : Fin 3 → Fin 3 → Bool) (u1 u2 u3 u4 u5 u6 : ℝ)
    (i j : Fin 3) (h : mask i j = false) :
    aniso expm m mask u1 u2 u3 u4 u5 u6 i j = (1 : Matrix (Fin 3) (Fin 3) ℝ) i j
    ∧ shape expm m mask u1 u2 u3 u4 u5 u6 i j = (1 : Matrix (Fin 3) (Fin 3) ℝ) i j
    ∧ iso m mask u1 i j = (1 : Matrix (Fin 3) (Fin 3) ℝ) i j :=
  ⟨blend_masked _ mask i j h, blend_masked _ mask i j h, iso_masked m u1 mask i j h⟩

theorem mask_kept (expm : Mat ℝ → Mat ℝ) (m : ℝ) (mask : Fin 3 → Fin 3 → Bool) (u1 u2 u3 u4 u5 u6 : ℝ)
    (i j : Fin 3) (h : mask i j = true) :
    aniso expm m mask u1 u2 u3 u4 u5 u6 i j = aniso expm m allTrue u1 u2 u3 u4 u5 u6 i j
    ∧ shape expm m mask u1 u2 u3 u4 u5 u6 i j = shape expm m allTrue u1 u2 u3 u4 u5 u6 i j := by
  simp only [aniso, shape, blend_allTrue]
  exact ⟨blend_kept _ mask i j h, blend_kept _ mask i j h⟩

/-- **deform_symm**: the reparametrisation `uₖ ↦ 1 - uₖ` of the draws negates the generator (it commutes with the
    traceless projection of `ShapeDeformation`), so it produces the inverse gradient `(exp A)⁻¹ = exp (-A)`; it maps
    the sampling box to itself (up to the null set `uₖ = 0`) and preserves the law of the six draws. For the
    isotropic deformation the scalar becomes its reciprocal. -/
theorem deform_symm (m u1 u2 u3 u4 u5 u6 : ℝ) :
    Matrix.of (aniso expR m allTrue (flip u1) (flip u2) (flip u3) (flip u4) (flip u5) (flip u6))
      = (Matrix.of (aniso expR m allTrue u1 u2 u3 u4 u5 u6))⁻¹
    ∧ Matrix.of (shape expR m allTrue (flip u1) (flip u2) (flip u3) (flip u4) (flip u5) (flip u6))
      = (Matrix.of (shape expR m allTrue u1 u2 u3 u4 u5 u6))⁻¹
    ∧ Matrix.of (iso m allTrue (flip u1)) = (Matrix.of (iso m allTrue u1))⁻¹
    ∧ MeasurePreserving (fun u : ℝ × ℝ × ℝ × ℝ × ℝ × ℝ =>
          (flip u.1, flip u.2.1, flip u.2.2.1, flip u.2.2.2.1, flip u.2.2.2.2.1, flip u.2.2.2.2.2))
        (U01.prod (U01.prod (U01.prod (U01.prod (U01.prod U01)))))
        (U01.prod (U01.prod (U01.prod (U01.prod (U01.prod U01))))) := by
  refine ⟨?_, ?_, ?_, deform_reparam_measurePreserving⟩
  · simp only [aniso, blend_allTrue, anisoGen_flip]; exact expR_neg _
  · simp only [shape, blend_allTrue, shapeGen_flip]; exact expR_neg _
  · rw [iso_allTrue, iso_allTrue]
    have hx : -m + (m - -m) * flip u1 = -(-m + (m - -m) * u1) := by unfold flip; ring
    rw [hx, Real.exp_neg]
    have hpos := Real.exp_pos (-m + (m - -m) * u1)
    symm
    apply Matrix.inv_eq_left_inv
    rw [Matrix.smul_mul, Matrix.mul_smul, Matrix.one_mul, smul_smul, inv_mul_cancel₀ hpos.ne', one_smul]

/-! ## Non-vacuity: the hypotheses are satisfiable and the statements say something at concrete points -/

example : norm (ball (2 : ℝ) (1 / 2) (1 / 4) (1 / 2)) = 1 := by
  have := (ball_norm 2 (1 / 2) (1 / 4) (1 / 2) (by norm_num) (by norm_num) (by norm_num)).1
  rw [this]; norm_num
example : norm (sphere (3 : ℝ) (1 / 8) (3 / 4)) = 3 := sphere_norm 3 _ _ (by norm_num) (by norm_num)
example : |box (5 : ℝ) (1 / 10) 0 (9 / 10) 2| ≤ 5 :=
  box_bounds 5 _ _ _ (by norm_num) (by norm_num) (by norm_num) (by norm_num) 2
example : box (5 : ℝ) (flip (1 / 10)) (flip (1 / 2)) (flip (9 / 10)) = -box 5 (1 / 10) (1 / 2) (9 / 10) :=
  (box_symm 5 _ _ _).1
example : shiftHalf (3 / 4) = 1 / 4 := by
  rw [shiftHalf_piecewise _ (by norm_num) (by norm_num)]; norm_num
/-- a triclinic cell, a two-atom group -/
example : centroid ([vec3 (0 : ℝ) 0 0, vec3 1 1 1].map (fun p => vadd p
    (translation (mat3 (vec3 4 0 0) (vec3 1 5 0) (vec3 (-1) 2 6)) [vec3 0 0 0, vec3 1 1 1] (1 / 2) (1 / 4) (1 / 8))))
    = Matrix.vecMul (vec3 (1 / 2 : ℝ) (1 / 4) (1 / 8))
        (Matrix.of (mat3 (vec3 (4 : ℝ) 0 0) (vec3 1 5 0) (vec3 (-1) 2 6))) :=
  translation_centroid _ _ (by simp) _ _ _
/-- the quaternion `(1,1,0,0)/√2` is the rotation by 90° about `x` -/
example : quatMat (1 : ℝ) 1 0 0 = mat3 (vec3 1 0 0) (vec3 0 0 (-1)) (vec3 0 1 0) := by
  funext i j; fin_cases i <;> fin_cases j <;> simp [quatMat] <;> norm_num
/-! ## the bounds survive `DisplacementMove`'s retry loop -/

/-- **moveLoop_mem**: whatever the verdicts of `check_move` and however many attempts are vetoed, the displacement the
    atoms end up with is the translation of ONE attempt (never an accumulation of several) … -/
theorem moveLoop_mem {α : Type} (k : ℕ) (ts : List (List (Vec α))) (cs : List Bool) (d : List (Vec α))
    (h : moveLoop k ts cs = some d) : d ∈ ts := by
  induction k generalizing ts cs with
  | zero => simp [moveLoop] at h
  | succ k ih =>
    cases ts with
    | nil => simp [moveLoop] at h
    | cons t ts =>
      cases cs with
      | nil => simp [moveLoop] at h
      | cons c cs =>
        simp only [moveLoop] at h
        split at h
        · cases h; exact List.mem_cons_self
        · exact List.mem_cons_of_mem _ (ih ts cs h)

/-- … hence any bound every single proposal satisfies (`ball_norm`, `sphere_norm`, `box_bounds`, rigidity, …) holds for
    the displacement a `DisplacementMove` finally applies -/
theorem moveLoop_bound {α : Type} (P : List (Vec α) → Prop) (k : ℕ) (ts : List (List (Vec α))) (cs : List Bool)
    (hP : ∀ t ∈ ts, P t) (d : List (Vec α)) (h : moveLoop k ts cs = some d) : P d :=
  hP d (moveLoop_mem k ts cs d h)

/-- instance: a `Ball` move after any number of vetoed attempts displaces by at most the step size -/
theorem ball_move_norm (s : ℝ) (hs : 0 ≤ s) (k : ℕ) (draws : List (ℝ × ℝ × ℝ)) (cs : List Bool)
    (hd : ∀ u ∈ draws, (0 ≤ u.1 ∧ u.1 < 1) ∧ (0 ≤ u.2.2 ∧ u.2.2 < 1)) (d : List (Vec ℝ))
    (h : moveLoop k (draws.map (fun u => [ball s u.1 u.2.1 u.2.2])) cs = some d) :
    ∃ v, d = [v] ∧ norm v ≤ s := by
  have hm := moveLoop_mem k _ cs d h
  obtain ⟨u, hu, rfl⟩ := List.mem_map.mp hm
  exact ⟨_, rfl, (ball_norm s u.1 u.2.1 u.2.2 hs (hd u hu).1 (hd u hu).2).2.1⟩

example : moveLoop 3 [[vec3 (1 : ℝ) 0 0], [vec3 0 2 0], [vec3 0 0 3]] [false, true, true] = some [vec3 0 2 0] := by
  simp [moveLoop]
example : moveLoop 2 [[vec3 (1 : ℝ) 0 0], [vec3 0 2 0], [vec3 0 0 3]] [false, false, true] = none := by
  simp [moveLoop]

example : (Matrix.of (quatMat (1 : ℝ) 1 0 0)).det = 1 := (quat_rotation 1 1 0 0 (by norm_num)).2
example : com (moveGroup [((1 : ℝ), vec3 0 0 0), (2, vec3 1 0 0), (16, vec3 0 1 2)]
      (rotation [((1 : ℝ), vec3 0 0 0), (2, vec3 1 0 0), (16, vec3 0 1 2)] 1 2 3 4))
    = com [((1 : ℝ), vec3 0 0 0), (2, vec3 1 0 0), (16, vec3 0 1 2)] :=
  (rotation_sampled_rigid_com _ (by norm_num [msum]) 1 2 3 4 (by norm_num)).1
example : eulerAngleDeg (1 / 2 : ℝ) ≠ -eulerAngleDeg (1 / 4 : ℝ) + 360 * ((1 : ℤ) : ℝ) :=
  euler_coded_not_symmetric _ _ (by norm_num) (by norm_num) 1
example : rowOf (composite [[vec3 1 2 3], [vec3 1 0 0, vec3 0 1 0]]) 1
    = ([[vec3 1 2 3], [vec3 1 0 0, vec3 0 1 0]].map (fun p => rowOf p 1)).sum :=
  (composite_sum 2 _ (by simp) (by simp)).2 1 (by norm_num)
example : (Matrix.of (shape expR (1 / 10) allTrue (1 / 2) (1 / 3) (1 / 4) (1 / 5) (1 / 6) (1 / 7))).det = 1 :=
  shape_det_one _ _ _ _ _ _ _
example : iso (1 / 10 : ℝ) (fun i j => decide (i = j ∧ i ≠ 2)) (3 / 4) 2 2 = 1 := by
  have := (mask_identity expR (1 / 10) (fun i j => decide (i = j ∧ i ≠ 2)) (3 / 4) 0 0 0 0 0 2 2 (by decide)).2.2
  simpa using this
/-- masks do change the gradient: a kept diagonal entry of an isotropic deformation is `e^x ≠ 1` for `x ≠ 0` -/
example : iso (1 : ℝ) (fun i j => decide (i = j ∧ i ≠ 2)) 1 0 0 = Real.exp 1 := by
  simp [iso, b2n, eye]

end Ops
