import QProofs.MachineCompExch
/-!
# C03 (exchange moves) — a rejected or failed insertion / deletion leaves the system exactly as it was

`MM.exch_not_accepted_restores` (proved in QProofs/MachineExch.lean, re-exported here): for a bare `ExchangeMove` in the
grand-canonical driver, whatever the draws, operation results and `check_move` verdicts, a trial that is not accepted
returns the atoms (count, order, every column) **and the FixAtoms constraint** to what they were.  Ingredients:
`reinsert_delete` (re-insertion inverts deletion for any index set), `delete_after_insert`, `remapFixed_beyond`.

The known finding (DESIGN §7 #5) is stated as a theorem too: for a *plain* composite of two exchange moves the
code does **not** restore the atoms — `plain_two_deletions_not_restored` exhibits a concrete history.
-/
namespace MM

/-- **reject_restores (exchange)** -/
theorem reject_restores_exchange (sim : Sim) (he : sim.ens = .grand) (r : Nat) (s : State) (hinv : InvG s)
    (hk : (s.obj r).kind = .exch) (hlab : (s.obj r).labels.length = s.atoms.rows.length)
    (hnew : toAddOf (s.obj r) s.ctx ≠ []) :
    (trial sim (.leaf r) false s).2.atoms = s.atoms :=
  exch_not_accepted_restores sim he r s hinv hk hlab hnew

/-- **reject_restores (composite insertion)**: `CompositeExchangeMove` in its insertion branch -/
theorem reject_restores_composite_insertion (sim : Sim) (he : sim.ens = .grand) (rs : List Nat) (b : Nat)
    (s : State) (hinv : InvG s) (hadd : s.inp.draw.1 < b) :
    (trial sim (.compExch rs b) false s).2.atoms = s.atoms :=
  compExch_insertion_not_accepted_restores sim he rs b s hinv hadd

/-- **reject_restores (composite deletion)**: `CompositeExchangeMove` in its deletion branch, members sharing one
    labelling `L` (what `move * n` and `+` on one labelling produce) -/
theorem reject_restores_composite_deletion (sim : Sim) (he : sim.ens = .grand) (rs : List Nat) (b : Nat)
    (s : State) (hinv : InvG s) (L : List Int) (hL : ∀ r ∈ rs, (s.obj r).labels = L)
    (hlen : L.length = s.atoms.rows.length) (hdel : ¬ s.inp.draw.1 < b) :
    (trial sim (.compExch rs b) false s).2.atoms = s.atoms :=
  compExch_deletion_not_accepted_restores sim he rs b s hinv L hL hlen hdel

/-! non-vacuity: a rejected deletion of a fixed atom (the constraint comes back), and a rejected insertion -/

def gcSim : Sim := { ens := .grand, table := [{ name := "x", oid := 0, tree := .leaf 0 }] }
def gcState (bias : Nat) : State :=
  { atoms := { rows := [⟨(0,0,0), (1,0,0), [29, 7]⟩, ⟨(2,0,0), (0,1,0), [29, 8]⟩, ⟨(4,0,0), (0,0,1), [8, 9]⟩],
               cell := (9,9,9), fixed := some [1] },
    heap := [{ kind := .exch, labels := [0, 1, 2], bias := bias }],
    ctx := { lastPos := [(0,0,0), (2,0,0), (4,0,0)], template := [⟨(1,1,1), (0,0,0), [1, 0]⟩] },
    inp := { draws := [500, 1], ops := [(1,2,3)], checks := [true] } }

example : InvG (gcState 0) := by
  constructor <;> simp [gcState, positions, FixedOK]
-- deletion of the fixed atom 1 (bias 0 ⇒ deletion; draw 1 ⇒ label 1): after the move the constraint is gone …
example : (callTree (.leaf 0) (gcState 0)).2.atoms.fixed = none ∧
    (callTree (.leaf 0) (gcState 0)).2.atoms.rows.length = 2 := by decide
-- … and the rejection brings atoms and constraint back
example : (trial gcSim (.leaf 0) false (gcState 0)).2.atoms = (gcState 0).atoms := by decide
-- insertion (bias 1000)
example : (callTree (.leaf 0) (gcState 1000)).2.atoms.rows.length = 4 ∧
    (trial gcSim (.leaf 0) false (gcState 1000)).2.atoms = (gcState 1000).atoms := by decide

-- a composite of two insertions, then rejected; a composite deletion of two particles (one of them fixed), rejected
example : (callTree (.compExch [0, 0] 1000) { gcState 0 with inp := { draws := [0], ops := [(1,0,0), (0,1,0)], checks := [true, true] } }).2.atoms.rows.length = 5 ∧
    (trial gcSim (.compExch [0, 0] 1000) false { gcState 0 with inp := { draws := [0], ops := [(1,0,0), (0,1,0)], checks := [true, true] } }).2.atoms = (gcState 0).atoms := by decide
example : (callTree (.compExch [0, 0] 0) { gcState 0 with inp := { draws := [0, 1, 0] } }).2.atoms.rows.length = 1 ∧
    (trial gcSim (.compExch [0, 0] 0) false { gcState 0 with inp := { draws := [0, 1, 0] } }).2.atoms = (gcState 0).atoms := by decide

/-- **known finding, as a theorem**: two deletions inside one *plain* composite are recorded in different index
    frames; the rejection does not restore the atoms. -/
theorem plain_two_deletions_not_restored :
    ∃ (sim : Sim) (s : State), sim.ens = .grand ∧ InvG s ∧
      (trial sim (.plain [0, 0]) false s).1 = .rejected ∧ (trial sim (.plain [0, 0]) false s).2.atoms ≠ s.atoms := by
  refine ⟨gcSim, { gcState 0 with inp := { draws := [500, 0, 500, 0] } }, rfl, ?_, ?_, ?_⟩
  · constructor <;> simp [gcState, positions, FixedOK]
  · decide
  · decide

end MM
