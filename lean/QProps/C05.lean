import QProofs.MachineExchSpec
import QProofs.MachineHistory
/-!
# C05 — grand-canonical bookkeeping tracks the real system

Model: QModel/Machine.lean (`exchCall`, `saveState`, `notifyRefs`, `onAtomsChangedObj`, `ctxSave`).
All theorems are for every script of draws / operation results / `check_move` verdicts and every label array.

* `labels_aligned_after_accept` — after an accepted insertion or deletion every label-bearing move reachable
  from the table (through any composite, the same object under several names included) has exactly one label per atom;
* `inserted_particle_one_label`, `auto_label_fresh`, `default_label_honoured` — the atoms of one inserted particle
  share one label; an automatically assigned label differs from every non-negative label in use; a configured
  label (0 and negative do-not-touch labels included) is honoured verbatim;
* `nexch_counter` — the particle counter moves by +1 / −1 / 0 for an accepted insertion / accepted deletion /
  anything else;
* `template_untouched` — the exchange template is never modified;
* `not_accepted_keeps_labels` — a rejected or failed trial changes no label and not the counter.

A *composite* insertion of several particles used to give all of them ONE label (`composite_insertion_shares_label_pinned`);
the driver now notifies once per inserted particle (`composite_insertion_distinct_labels`).
-/
namespace MM

/-- every distinct elementary move object behind the table -/
def tableRefs (sim : Sim) : List Nat := ((sim.table.map (fun e => e.tree.refs)).flatten).eraseDups

/-- all label-bearing objects reachable from the table have one label per atom -/
def LabelsAligned (sim : Sim) (s : State) : Prop :=
  ∀ r ∈ tableRefs sim, r < s.heap.length → labelBearing (s.obj r).kind = true →
    (s.obj r).labels.length = s.atoms.rows.length

theorem labels_aligned_after_accept (sim : Sim) (he : sim.ens = .grand) (r : Nat) (s : State) (hinv : InvG s)
    (hk : (s.obj r).kind = .exch) (hnew : toAddOf (s.obj r) s.ctx ≠ [])
    (hrl : (s.obj r).labels.length = s.atoms.rows.length)
    (hal : LabelsAligned sim s) (hok : (exchCall r s).1 = true) :
    (trial sim (.leaf r) true s).1 = .accepted ∧ LabelsAligned sim (trial sim (.leaf r) true s).2 := by
  obtain ⟨hout, hheap, _, _⟩ := exchCall_outcome r s hinv hnew
  have htr : trial sim (.leaf r) true s = (.accepted, saveState sim (exchCall r s).2) := by
    simp [trial, callTree, leafCall, hk, hok]
  rw [htr]
  refine ⟨rfl, ?_⟩
  generalize hs1 : (exchCall r s).2 = s1 at hout hheap
  rw [hok] at hout
  -- the state after `save_state`
  have hsave : (saveState sim s1).atoms = s1.atoms ∧
      (saveState sim s1).heap = notifyRefs (tableRefs sim) s1.ctx.addedIdx s1.ctx.deletedIdx s1.heap := by
    have hsz : s1.ctx.addedSizes.length ≤ 1 := by
      rw [← hs1]; exact exchCall_sizes_le r s hinv.fixedOK hinv.noSizes
    simp [saveState, he, ctxSave, tableRefs, notifyParts_short _ _ _ _ _ hsz]
  intro r' hr' hlt hlb
  have hnd : (tableRefs sim).Nodup := nodup_eraseDups' _
  have hlen : (saveState sim s1).heap.length = s1.heap.length := by
    rw [hsave.2]; exact (notifyRefs_shape _ _ _ _).1
  have hlt1 : r' < s1.heap.length := by rw [← hlen]; exact hlt
  have hlt0 : r' < s.heap.length := by rw [← hheap.1]; exact hlt1
  have hst := hheap.2 r'
  have hspec := notifyRefs_spec (tableRefs sim) s1.ctx.addedIdx s1.ctx.deletedIdx s1.heap hnd r'
  have hobj : (saveState sim s1).obj r' = (notifyRefs (tableRefs sim) s1.ctx.addedIdx s1.ctx.deletedIdx s1.heap).getD r'
      { kind := .user } := by simp [State.obj, hsave.2]
  have hkind1 : (s1.heap.getD r' { kind := .user }).kind = (s.obj r').kind := hst.1
  have hlab1 : (s1.heap.getD r' { kind := .user }).labels = (s.obj r').labels := hst.2.1
  have hlb0 : labelBearing (s.obj r').kind = true := by
    rw [hobj, hspec] at hlb
    split at hlb
    · rename_i hc; rw [← hkind1]; exact hc.2.2
    · rw [← hkind1]; exact hlb
  have hlb1 : labelBearing (s1.heap.getD r' { kind := .user }).kind = true := by rw [hkind1]; exact hlb0
  have hal0 := hal r' hr' hlt0 hlb0
  rw [hobj, hspec, hsave.1]
  simp only [hr', hlt1, hlb1, and_self, if_true]
  cases hout with
  | inserted d hat ha hd hdelta =>
    have hL := onAtomsChanged_length (s1.heap.getD r' { kind := .user }) s1.ctx.addedIdx s1.ctx.deletedIdx
      (by rw [hd]; exact List.nodup_nil) (by rw [hd]; simp)
    rw [hd, ha, hlab1, hal0] at hL
    rw [hat, applyDisp_length]
    simp only [AtomsS.extend, List.length_append]
    rw [ha, hd]
    simpa [addMoving] using hL
  | deleted l hne hat ha hd hdelta =>
    have hnd' : (whereEq (s.obj r).labels l).Nodup := whereEq_nodup _ _
    have hv : ∀ i ∈ whereEq (s.obj r).labels l, i < s.atoms.rows.length := by
      intro i hi; rw [← hrl]; exact whereEq_lt _ _ _ hi
    have hL := onAtomsChanged_length (s1.heap.getD r' { kind := .user }) s1.ctx.addedIdx s1.ctx.deletedIdx
      (by rw [hd]; exact hnd') (by rw [hd, ha, hlab1, hal0]; simpa using hv)
    rw [hd, ha, hlab1, hal0] at hL
    have hR := deleteFrom_length (whereEq (s.obj r).labels l) hnd' s.atoms.rows 0 (by simpa using hv)
    have hf : ((whereEq (s.obj r).labels l).filter (fun i => decide (0 ≤ i))) = whereEq (s.obj r).labels l := by simp
    rw [hf] at hR
    rw [hat, ha, hd]
    simp only [AtomsS.delete, deleteIdx, List.length_nil, Nat.add_zero] at hL ⊢
    omega

/-- the atoms of one inserted particle share one label -/
theorem inserted_particle_one_label (m : MoveObj) (added : List Nat) (hne : added ≠ []) :
    ∃ L, (onAtomsChangedObj m added []).labels = m.labels ++ List.replicate added.length L :=
  ⟨_, onAtomsChanged_added_labels m added hne⟩

/-- an automatically assigned label is non-negative and differs from every non-negative label in use, so distinct
    particles keep distinct labels -/
theorem auto_label_fresh (m : MoveObj) (hd : m.defaultLabel = none) :
    0 ≤ newLabel m.labels m.defaultLabel ∧ ∀ x ∈ m.labels, 0 ≤ x → x < newLabel m.labels m.defaultLabel := by
  rw [hd]; exact ⟨newLabel_nonneg _, fun x hx h0 => newLabel_fresh _ x hx h0⟩

/-- a configured label — 0 and negative do-not-touch labels included — is the label new atoms get -/
theorem default_label_honoured (m : MoveObj) (l : Int) (hd : m.defaultLabel = some l) (added : List Nat)
    (hne : added ≠ []) :
    (onAtomsChangedObj m added []).labels = m.labels ++ List.replicate added.length l := by
  rw [onAtomsChanged_added_labels m added hne, hd]; rfl

/-- **nexch_counter** and **template_untouched** for one trial of a single exchange move -/
theorem nexch_counter (sim : Sim) (he : sim.ens = .grand) (r : Nat) (v : Bool) (s : State) (hinv : InvG s)
    (hd0 : s.ctx.delta = 0) (hk : (s.obj r).kind = .exch) (hnew : toAddOf (s.obj r) s.ctx ≠ []) :
    let res := trial sim (.leaf r) v s
    res.2.ctx.template = s.ctx.template ∧
    (res.1 ≠ .accepted → res.2.ctx.nExch = s.ctx.nExch) ∧
    (res.1 = .accepted → (res.2.atoms.rows.length = s.atoms.rows.length + (toAddOf (s.obj r) s.ctx).length ∧
                            res.2.ctx.nExch = s.ctx.nExch + 1) ∨
                         res.2.ctx.nExch = s.ctx.nExch - 1) := by
  obtain ⟨hout, _, htm, hnx⟩ := exchCall_outcome r s hinv hnew
  simp only [trial, callTree, leafCall, hk]
  generalize hs1 : (exchCall r s).2 = s1 at hout htm hnx
  cases hok : (exchCall r s).1 with
  | false =>
    simp only [Bool.false_eq_true, if_false]
    exact ⟨htm, fun _ => hnx, fun h => by cases h⟩
  | true =>
    rw [hok] at hout
    cases v with
    | false =>
      simp only [if_true, Bool.false_eq_true, if_false]
      refine ⟨?_, fun _ => ?_, fun h => by cases h⟩
      · simp [revertState, he, htm]
      · simp [revertState, he, hnx]
    | true =>
      simp only [if_true]
      refine ⟨by simp [saveState, he, ctxSave, htm], fun h => absurd rfl h, fun _ => ?_⟩
      cases hout with
      | inserted d hat ha hd hdelta =>
        left
        refine ⟨?_, by simp [saveState, he, ctxSave, hnx, hdelta, hd0]⟩
        simp [saveState, he, ctxSave, hat, applyDisp_length, AtomsS.extend]
      | deleted l hne hat ha hd hdelta =>
        right
        simp [saveState, he, ctxSave, hnx, hdelta, hd0]; omega

/-- a trial that is not accepted changes no label of any move object -/
theorem not_accepted_keeps_labels (sim : Sim) (r : Nat) (s : State) (hinv : InvG s)
    (hk : (s.obj r).kind = .exch) (hnew : toAddOf (s.obj r) s.ctx ≠ []) (v : Bool)
    (hna : (trial sim (.leaf r) v s).1 ≠ .accepted) (r' : Nat) :
    ((trial sim (.leaf r) v s).2.obj r').labels = (s.obj r').labels := by
  obtain ⟨_, hheap, _, _⟩ := exchCall_outcome r s hinv hnew
  simp only [trial, callTree, leafCall, hk] at hna ⊢
  cases hok : (exchCall r s).1 with
  | false =>
    simp only [hok, Bool.false_eq_true, if_false]
    exact (hheap.2 r').2.1
  | true =>
    cases v with
    | false =>
      simp only [hok, if_true, Bool.false_eq_true, if_false]
      simp only [State.obj, revertState_shape]
      exact (hheap.2 r').2.1
    | true => simp [hok] at hna

/-! ### histories of insertions and deletions -/

/-- the bookkeeping invariant of the grand-canonical driver between trials -/
structure GInv (sim : Sim) (s : State) : Prop where
  invg : InvG s
  delta0 : s.ctx.delta = 0
  aligned : LabelsAligned sim s
  templ : s.ctx.template ≠ []

theorem toAddOf_ne_nil (m : MoveObj) (c : Ctx) (h : c.template ≠ []) : toAddOf m c ≠ [] := by
  unfold toAddOf
  cases hm : m.toAdd with
  | none => exact h
  | some rows =>
    simp only []
    split
    · exact h
    · rename_i hne; intro hn; rw [hn] at hne; simp at hne

/-- what one exchange trial does to the counter -/
def counterStep (before after : State) : Int :=
  if after.atoms.rows.length > before.atoms.rows.length then 1
  else if after.atoms.rows.length < before.atoms.rows.length then -1 else 0

/-- **ginv_trial**: every outcome of an exchange trial (accepted insertion or deletion, rejection, failure)
    re-establishes the invariant — labels of every move aligned with the atoms, constraint indices valid, nothing
    pending — and moves the particle counter by exactly the change of the particle number. -/
theorem ginv_trial (sim : Sim) (he : sim.ens = .grand) (r : Nat) (v : Bool) (s : State) (h : GInv sim s)
    (hk : (s.obj r).kind = .exch) (hrl : (s.obj r).labels.length = s.atoms.rows.length) :
    GInv sim (trial sim (.leaf r) v s).2 ∧
    (trial sim (.leaf r) v s).2.ctx.nExch = s.ctx.nExch + counterStep s (trial sim (.leaf r) v s).2 := by
  have hnew := toAddOf_ne_nil (s.obj r) s.ctx h.templ
  obtain ⟨hout, hheap, htm, hnx⟩ := exchCall_outcome r s h.invg hnew
  have hrej := exch_not_accepted_restores sim he r s h.invg hk hrl hnew
  have hacc := labels_aligned_after_accept sim he r s h.invg hk hnew hrl h.aligned
  have htr : trial sim (.leaf r) v s =
      if (exchCall r s).1 then (if v then (.accepted, saveState sim (exchCall r s).2)
                                 else (.rejected, revertState sim (exchCall r s).2))
      else (.failed, (exchCall r s).2) := by
    simp [trial, callTree, leafCall, hk]
  have hrejA : (exchCall r s).1 = true → (revertState sim (exchCall r s).2).atoms = s.atoms := by
    intro hok
    have := hrej
    simp only [trial, callTree, leafCall, hk, hok, if_true, Bool.false_eq_true, if_false] at this
    exact this
  rw [htr]
  generalize hs1 : (exchCall r s).2 = s1 at *
  cases hok : (exchCall r s).1 with
  | false =>
    rw [hok] at hout
    cases hout with
    | failed hat ha hd hdelta hcore =>
      simp only [Bool.false_eq_true, if_false]
      have hlp : s1.ctx.lastPos = s.ctx.lastPos := by have := congrArg Ctx.lastPos hcore; simpa [ctxCore] using this
      have hda : s1.ctx.deletedAtoms = s.ctx.deletedAtoms := by
        have := congrArg Ctx.deletedAtoms hcore; simpa [ctxCore] using this
      have hsv : s1.ctx.savedFixed = s.ctx.savedFixed := by
        have := congrArg Ctx.savedFixed hcore; simpa [ctxCore] using this
      have hszc : s1.ctx.addedSizes = s.ctx.addedSizes := by
        have := congrArg Ctx.addedSizes hcore; simpa [ctxCore] using this
      refine ⟨⟨⟨by rw [hlp, hat]; exact h.invg.lastPos, ha, hd, by rw [hda]; exact h.invg.noDeletedAtoms,
                by rw [hsv]; exact h.invg.noSaved, by rw [hat]; exact h.invg.fixedOK,
                by rw [hszc]; exact h.invg.noSizes⟩,
               by rw [hdelta]; exact h.delta0, ?_, by rw [htm]; exact h.templ⟩, ?_⟩
      · intro r' hr' hlt hlb
        have hst := hheap.2 r'
        have hlt0 : r' < s.heap.length := by rw [← hheap.1]; exact hlt
        have hlb0 : labelBearing (s.obj r').kind = true := by
          have : (s1.obj r').kind = (s.obj r').kind := hst.1
          rw [← this]; exact hlb
        have : (s1.obj r').labels = (s.obj r').labels := hst.2.1
        rw [this, hat]; exact h.aligned r' hr' hlt0 hlb0
      · simp [counterStep, hat, hnx]
  | true =>
    rw [hok] at hout
    cases v with
    | false =>
      simp only [if_true, Bool.false_eq_true, if_false]
      have hat := hrejA hok
      have hlp1 : s1.ctx.lastPos = s.ctx.lastPos := by
        cases hout with
        | inserted d _ _ _ _ hlp => exact hlp
        | deleted l _ _ _ _ _ hlp => exact hlp
      have hheapR : (revertState sim s1).heap = s1.heap := revertState_shape sim s1
      refine ⟨⟨⟨?_, by simp [revertState, he], by simp [revertState, he], by simp [revertState, he],
                by simp [revertState, he], by rw [hat]; exact h.invg.fixedOK, by simp [revertState, he]⟩,
               by simp [revertState, he], ?_, by simp [revertState, he, htm]; exact h.templ⟩, ?_⟩
      · rw [hat]
        have : (revertState sim s1).ctx.lastPos = s1.ctx.lastPos := by simp [revertState, he]
        rw [this, hlp1]; exact h.invg.lastPos
      · intro r' hr' hlt hlb
        have hobj : (revertState sim s1).obj r' = s1.obj r' := by simp [State.obj, hheapR]
        have hst := hheap.2 r'
        have hlt0 : r' < s.heap.length := by rw [← hheap.1, ← hheapR]; exact hlt
        rw [hobj] at hlb ⊢
        have hlb0 : labelBearing (s.obj r').kind = true := by
          have : (s1.obj r').kind = (s.obj r').kind := hst.1
          rw [← this]; exact hlb
        have : (s1.obj r').labels = (s.obj r').labels := hst.2.1
        rw [this, hat]; exact h.aligned r' hr' hlt0 hlb0
      · have : (revertState sim s1).ctx.nExch = s1.ctx.nExch := by simp [revertState, he]
        simp [counterStep, hat, this, hnx]
    | true =>
      simp only [if_true]
      have hal := (hacc hok).2
      simp only [trial, callTree, leafCall, hk, hok, if_true] at hal
      rw [hs1] at hal
      have hsa : (saveState sim s1).atoms = s1.atoms := by simp [saveState, he, ctxSave]
      have hctx : (saveState sim s1).ctx.lastPos = positions s1.atoms.rows ∧ (saveState sim s1).ctx.addedIdx = [] ∧
          (saveState sim s1).ctx.deletedIdx = [] ∧ (saveState sim s1).ctx.deletedAtoms = [] ∧
          (saveState sim s1).ctx.savedFixed = none ∧ (saveState sim s1).ctx.delta = 0 ∧
          (saveState sim s1).ctx.template = s1.ctx.template ∧
          (saveState sim s1).ctx.nExch = s1.ctx.nExch + s1.ctx.delta := by
        simp [saveState, he, ctxSave]
      obtain ⟨c1, c2, c3, c4, c5, c6, c7, c8⟩ := hctx
      have hfx : FixedOK s1.atoms ∧ counterStep s (saveState sim s1) = s1.ctx.delta := by
        cases hout with
        | inserted d hat ha hd hdelta hlp =>
          constructor
          · have hfx0 := h.invg.fixedOK
            have hfixed : s1.atoms.fixed = s.atoms.fixed := by rw [hat]; rfl
            have hlen1 : s.atoms.rows.length ≤ s1.atoms.rows.length := by
              rw [hat, applyDisp_length]; simp [AtomsS.extend]
            unfold FixedOK at hfx0 ⊢
            rw [hfixed]
            cases hf : s.atoms.fixed with
            | none => trivial
            | some f =>
              rw [hf] at hfx0
              exact ⟨hfx0.1, fun i hi => by have := hfx0.2 i hi; omega⟩
          · have hlen : s1.atoms.rows.length = s.atoms.rows.length + (toAddOf (s.obj r) s.ctx).length := by
              rw [hat, applyDisp_length]; simp [AtomsS.extend]
            have hpos : 0 < (toAddOf (s.obj r) s.ctx).length := List.length_pos_iff.mpr hnew
            simp only [counterStep, hsa, hlen, hdelta, h.delta0]
            have : s.atoms.rows.length + (toAddOf (s.obj r) s.ctx).length > s.atoms.rows.length := by omega
            simp [this]
        | deleted l hne hat ha hd hdelta hlp =>
          have hnd : (whereEq (s.obj r).labels l).Nodup := whereEq_nodup _ _
          have hv : ∀ i ∈ whereEq (s.obj r).labels l, i < s.atoms.rows.length := by
            intro i hi; rw [← hrl]; exact whereEq_lt _ _ _ hi
          constructor
          · rw [hat]; exact fixedOK_delete s.atoms _ h.invg.fixedOK hnd hv
          · have hR := deleteFrom_length (whereEq (s.obj r).labels l) hnd s.atoms.rows 0 (by simpa using hv)
            have hf : ((whereEq (s.obj r).labels l).filter (fun i => decide (0 ≤ i))) = whereEq (s.obj r).labels l := by simp
            rw [hf] at hR
            have hpos : 0 < (whereEq (s.obj r).labels l).length := List.length_pos_iff.mpr hne
            have hlen : s1.atoms.rows.length + (whereEq (s.obj r).labels l).length = s.atoms.rows.length := by
              rw [hat]; simpa [AtomsS.delete, deleteIdx] using hR
            simp only [counterStep, hsa, hdelta, h.delta0]
            have h1 : ¬ s1.atoms.rows.length > s.atoms.rows.length := by omega
            have h2 : s1.atoms.rows.length < s.atoms.rows.length := by omega
            simp [h1, h2]
      have c9 : (saveState sim s1).ctx.addedSizes = [] := by simp [saveState, he, ctxSave]
      refine ⟨⟨⟨by rw [c1, hsa], c2, c3, c4, c5, by rw [hsa]; exact hfx.1, c9⟩, c6, hal,
               by rw [c7, htm]; exact h.templ⟩, ?_⟩
      rw [c8, hnx, hfx.2]

/-- one exchange trial of a history: which move object, the criteria verdict, the external inputs -/
structure XTrial where
  r : Nat
  verdict : Bool
  inp : Inputs

def runX (sim : Sim) : List XTrial → State → State
  | [], s => s
  | t :: ts, s => runX sim ts (trial sim (.leaf t.r) t.verdict { s with inp := t.inp }).2

/-- the net change of the particle number along a history -/
def netChange (sim : Sim) : List XTrial → State → Int
  | [], _ => 0
  | t :: ts, s =>
    counterStep s (trial sim (.leaf t.r) t.verdict { s with inp := t.inp }).2
      + netChange sim ts (trial sim (.leaf t.r) t.verdict { s with inp := t.inp }).2

/-- every scheduled move of the history is an exchange move of the table whose labels are aligned when it runs -/
def XHistoryOK (sim : Sim) : List XTrial → State → Prop
  | [], _ => True
  | t :: ts, s =>
    (s.obj t.r).kind = .exch ∧ t.r ∈ tableRefs sim ∧ t.r < s.heap.length ∧
    XHistoryOK sim ts (trial sim (.leaf t.r) t.verdict { s with inp := t.inp }).2

/-- **labels_inv_history / nexch_counter (histories)**: after ANY history of accepted, rejected and failed insertions and
    deletions every label-bearing move of the table still has exactly one label per atom, nothing is pending, and the
    recorded number of exchangeable particles is its initial value plus accepted insertions minus accepted deletions. -/
theorem gc_history (sim : Sim) (he : sim.ens = .grand) (ts : List XTrial) (s : State) (h : GInv sim s)
    (hok : XHistoryOK sim ts s) :
    GInv sim (runX sim ts s) ∧ (runX sim ts s).ctx.nExch = s.ctx.nExch + netChange sim ts s := by
  induction ts generalizing s with
  | nil => exact ⟨h, by simp [runX, netChange]⟩
  | cons t ts ih =>
    obtain ⟨hk, hmem, hlt, hrest⟩ := hok
    have h' : GInv sim ({ s with inp := t.inp } : State) := ⟨⟨h.invg.1, h.invg.2, h.invg.3, h.invg.4, h.invg.5, h.invg.6, h.invg.7⟩,
      h.delta0, h.aligned, h.templ⟩
    have hrl : (s.obj t.r).labels.length = s.atoms.rows.length :=
      h.aligned t.r hmem hlt (by simp [labelBearing, hk])
    obtain ⟨g1, g2⟩ := ginv_trial sim he t.r t.verdict { s with inp := t.inp } h' hk hrl
    obtain ⟨i1, i2⟩ := ih _ g1 hrest
    refine ⟨i1, ?_⟩
    simp only [runX, netChange]
    rw [i2, g2]
    simp only [counterStep]
    omega

/-! ### non-vacuity and the known finding -/

def c5Sim : Sim := { ens := .grand, table := [{ name := "x", oid := 0, tree := .leaf 0 },
                                              { name := "d", oid := 1, tree := .compDisp [1, 1] }] }
def c5State (bias : Nat) : State :=
  { atoms := { rows := [⟨(0,0,0), (0,0,0), [29]⟩, ⟨(2,0,0), (0,0,0), [29]⟩], cell := (9,9,9), fixed := none },
    heap := [{ kind := .exch, labels := [0, 1], bias := bias, defaultLabel := some 0 },
             { kind := .disp, labels := [4, -1] }],
    ctx := { lastPos := [(0,0,0), (2,0,0)], template := [⟨(1,1,1), (0,0,0), [1]⟩, ⟨(1,1,2), (0,0,0), [1]⟩], nExch := 2 },
    inp := { draws := [0, 1], ops := [(1,2,3)], checks := [true] } }

-- accepted molecular insertion: both moves get two new labels (configured 0 / fresh 5), the counter goes 2 → 3
example : ((trial c5Sim (.leaf 0) true (c5State 1000)).2.heap.map (·.labels)) = [[0, 1, 0, 0], [4, -1, 5, 5]] ∧
    (trial c5Sim (.leaf 0) true (c5State 1000)).2.ctx.nExch = 3 := by decide
-- accepted deletion of particle 1: labels follow, counter 2 → 1
example : ((trial c5Sim (.leaf 0) true (c5State 0)).2.heap.map (·.labels)) = [[0], [4]] ∧
    (trial c5Sim (.leaf 0) true (c5State 0)).2.ctx.nExch = 1 := by decide

-- a three-trial history: accepted insertion, rejected insertion, accepted deletion: counter 2 → 3 → 3 → 2, labels aligned
def c5History : List XTrial :=
  [⟨0, true, { draws := [0], ops := [(1,2,3)], checks := [true] }⟩,
   ⟨0, false, { draws := [0], ops := [(2,2,2)], checks := [true] }⟩,
   ⟨0, true, { draws := [999, 1] }⟩]

example : XHistoryOK c5Sim c5History (c5State 500) := by
  simp only [c5History, XHistoryOK]
  decide

example : netChange c5Sim c5History (c5State 500) = 0 ∧
    (runX c5Sim c5History (c5State 500)).ctx.nExch = 2 ∧
    ((runX c5Sim c5History (c5State 500)).heap.map (·.labels.length)) = [3, 3] ∧
    (runX c5Sim c5History (c5State 500)).atoms.rows.length = 3 := by decide

/-- the flat notification of before the repair "one notification per inserted particle" -/
def saveStatePinned (sim : Sim) (s : State) : State :=
  match sim.ens with
  | .grand =>
    let refs := ((sim.table.map (fun e => e.tree.refs)).flatten).eraseDups
    ctxSave .grand { s with heap := notifyRefs refs s.ctx.addedIdx s.ctx.deletedIdx s.heap }
  | _ => saveState sim s

def c5Comp : Sim := { ens := .grand, table := [{ name := "x", oid := 0, tree := .compExch [0, 0] 1000 }] }
def c5CompState : State :=
  { atoms := { rows := [⟨(0,0,0), (0,0,0), [29]⟩, ⟨(2,0,0), (0,0,0), [29]⟩], cell := (9,9,9), fixed := none },
    heap := [{ kind := .exch, labels := [0, 1] }],
    ctx := { lastPos := [(0,0,0), (2,0,0)], template := [⟨(1,1,1), (0,0,0), [1]⟩] },
    inp := { draws := [0], ops := [(1,2,3), (3,2,1)], checks := [true, true] } }

/-- **composite_insertion_distinct_labels**: the two particles of an accepted composite insertion get two labels -/
theorem composite_insertion_distinct_labels :
    c5Comp.ens = .grand ∧ InvG c5CompState ∧
      ((trial c5Comp (.compExch [0, 0] 1000) true c5CompState).2.obj 0).labels = [0, 1, 2, 3] := by
  refine ⟨rfl, ?_, ?_⟩
  · constructor <;> simp [c5CompState, positions, FixedOK]
  · decide

/-- pinned (before the repair): one flat notification labelled both with ONE label -/
theorem composite_insertion_shares_label_pinned :
    ((saveStatePinned c5Comp (callTree (.compExch [0, 0] 1000) c5CompState).2).obj 0).labels = [0, 1, 2, 2] := by
  decide

end MM
