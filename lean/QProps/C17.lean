import QProofs.Algebra
/-!
# C17 — combining moves and operations with `+` and `*` is faithful and order-preserving

All theorems quantify over **every** expression tree (unbounded size, every parenthesisation), every
assignment of kinds to leaves and every integer repeat count.
-/
namespace Alg

/-- every evaluated value satisfies the invariant and lists the leaves left to right with multiplicity -/
theorem eval_sound (kind : Nat → Kind) (e : Expr) (v : Val) (h : eval kind e = .ok v) :
    Good kind v ∧ v.elems = e.leaves := by
  induction e generalizing v with
  | leaf i => simp [eval] at h; subst h; exact ⟨good_base kind i, rfl⟩
  | add a b iha ihb =>
    simp only [eval, bind, Except.bind, pure, Except.pure] at h
    cases ha : eval kind a with
    | error e => simp [ha] at h
    | ok va =>
      cases hb : eval kind b with
      | error e => simp [ha, hb] at h
      | ok vb =>
        simp [ha, hb] at h; subst h
        obtain ⟨ga, ea⟩ := iha va ha
        obtain ⟨gb, eb⟩ := ihb vb hb
        obtain ⟨g, el⟩ := add_good kind va vb ga gb
        exact ⟨g, by rw [el, ea, eb]; rfl⟩
  | mul a n iha =>
    simp only [eval, bind, Except.bind] at h
    cases ha : eval kind a with
    | error e => simp [ha] at h
    | ok va =>
      simp [ha] at h
      obtain ⟨ga, ea⟩ := iha va ha
      obtain ⟨hlt, hge⟩ := mul_good kind va n ga
      by_cases hn : n < 1
      · rw [hlt hn] at h; cases h
      · obtain ⟨w, hw, gw, ew⟩ := hge (by omega)
        rw [hw] at h; cases h
        exact ⟨gw, by rw [ew, ea]; rfl⟩

/-- **flatten_faithful**: the composite contains exactly the operands' elementary moves, in order and
    with multiplicity. -/
theorem flatten_faithful (kind : Nat → Kind) (e : Expr) (v : Val) (h : eval kind e = .ok v) :
    v.elems = e.leaves := (eval_sound kind e v h).2

/-- re-parenthesising a sum does not change the element list (nor, by `specialised_iff`, the class) -/
theorem assoc_elems (kind : Nat → Kind) (a b c : Expr) (v w : Val)
    (h1 : eval kind (.add (.add a b) c) = .ok v) (h2 : eval kind (.add a (.add b c)) = .ok w) :
    v.elems = w.elems := by
  rw [flatten_faithful kind _ v h1, flatten_faithful kind _ w h2]; simp [Expr.leaves, List.append_assoc]

/-- **specialised_iff**: the result is the displacement (exchange) composite exactly when all of its
    elements are displacement (exchange) moves; otherwise it is a plain composite. -/
theorem specialised_iff (kind : Nat → Kind) (e : Expr) (t : CType) (ms : List Nat)
    (h : eval kind e = .ok (.comp t ms)) :
    (t = .cdisp ↔ ∀ i ∈ e.leaves, kind i = .disp) ∧
    (t = .cexch ↔ ∀ i ∈ e.leaves, kind i = .exch) ∧
    (t = .plain ↔ ¬ (∀ i ∈ e.leaves, kind i = .disp) ∧ ¬ (∀ i ∈ e.leaves, kind i = .exch)) := by
  obtain ⟨⟨hne, hcl⟩, hel⟩ := eval_sound kind e _ h
  simp only [Val.elems, Val.cls] at hne hcl hel
  subst hel
  obtain ⟨a, as, hms⟩ := List.exists_cons_of_ne_nil hne
  rw [hcl, hms]
  unfold classify
  simp only [List.all_cons, List.mem_cons, forall_eq_or_imp]
  have hA1 : (as.all fun i => decide (kind i = .disp)) = true ↔ ∀ i ∈ as, kind i = .disp := by simp
  have hA2 : (as.all fun i => decide (kind i = .exch)) = true ↔ ∀ i ∈ as, kind i = .exch := by simp
  generalize (as.all fun i => decide (kind i = .disp)) = A1 at hA1
  generalize (as.all fun i => decide (kind i = .exch)) = A2 at hA2
  cases hk : kind a <;> cases A1 <;> cases A2 <;> simp_all <;>
    (first | (obtain ⟨x, hx, _⟩ := hA1; exact ⟨x, hx⟩) | (obtain ⟨x, hx, _⟩ := hA2; exact ⟨x, hx⟩))

/-- **mul_pos_int**: evaluation succeeds exactly when every repeat count is a positive integer. -/
theorem eval_ok_iff (kind : Nat → Kind) (e : Expr) : (∃ v, eval kind e = .ok v) ↔ e.wf = true := by
  induction e with
  | leaf i => simp [eval, Expr.wf]
  | add a b iha ihb =>
    simp only [Expr.wf, Bool.and_eq_true, ← iha, ← ihb]
    constructor
    · rintro ⟨v, h⟩
      simp only [eval, bind, Except.bind, pure, Except.pure] at h
      cases ha : eval kind a <;> cases hb : eval kind b <;> simp_all
    · rintro ⟨⟨va, ha⟩, ⟨vb, hb⟩⟩
      exact ⟨add kind va vb, by simp [eval, bind, Except.bind, pure, Except.pure, ha, hb]⟩
  | mul a n iha =>
    simp only [Expr.wf, Bool.and_eq_true, decide_eq_true_eq, ← iha]
    constructor
    · rintro ⟨v, h⟩
      simp only [eval, bind, Except.bind] at h
      cases ha : eval kind a with
      | error e => simp [ha] at h
      | ok va =>
        refine ⟨⟨va, rfl⟩, ?_⟩
        simp [ha] at h
        by_cases hn : n < 1
        · rw [(mul_good kind va n (eval_sound kind a va ha).1).1 hn] at h; cases h
        · omega
    · rintro ⟨⟨va, ha⟩, hn⟩
      obtain ⟨w, hw, _⟩ := (mul_good kind va n (eval_sound kind a va ha).1).2 hn
      exact ⟨w, by simp [eval, bind, Except.bind, ha, hw]⟩

/-- `a * n` with `n ≤ 0` is refused, whatever `a` is -/
theorem mul_nonpos_refused (kind : Nat → Kind) (a : Expr) (n : Int) (hn : n ≤ 0) :
    ∀ v, eval kind (.mul a n) ≠ .ok v := by
  intro v h
  have := (eval_ok_iff kind (.mul a n)).1 ⟨v, h⟩
  simp [Expr.wf] at this; omega

/-- **plain_call_each_once_in_order** and **plain_success_iff_any** -/
theorem plain_call (ms : List Nat) (result : Nat → Bool) :
    (callPlain ms result).1 = ms ∧ ((callPlain ms result).2 = true ↔ ∃ m ∈ ms, result m = true) := by
  simp [callPlain]

/-! ### operations -/

theorem oeval_sound (e : Expr) (v : OVal) (h : oeval e = .ok v) : v.elems = e.leaves := by
  induction e generalizing v with
  | leaf i => simp [oeval] at h; subst h; rfl
  | add a b iha ihb =>
    simp only [oeval, bind, Except.bind, pure, Except.pure] at h
    cases ha : oeval a with
    | error e => simp [ha] at h
    | ok va =>
      cases hb : oeval b with
      | error e => simp [ha, hb] at h
      | ok vb =>
        simp [ha, hb] at h; subst h
        have : (oadd va vb).elems = va.elems ++ vb.elems := by
          cases va <;> cases vb <;> simp [oadd, OVal.elems]
        rw [this, iha va ha, ihb vb hb]; rfl
  | mul a n iha =>
    simp only [oeval, bind, Except.bind] at h
    cases ha : oeval a with
    | error e => simp [ha] at h
    | ok va =>
      simp [ha] at h
      have := iha va ha
      cases va with
      | base x =>
        simp only [omul] at h; split at h; cases h
        cases h; simp [OVal.elems, Expr.leaves, ← this, replicateList_singleton]
      | comp os =>
        simp only [omul] at h; split at h; cases h
        cases h; simp [OVal.elems, Expr.leaves, ← this]

theorem oeval_composite (e : Expr) (v : OVal) (h : oeval e = .ok v) (hl : e.isLeaf = false) :
    ∃ os, v = .comp os := by
  cases e with
  | leaf i => simp [Expr.isLeaf] at hl
  | add a b =>
    simp only [oeval, bind, Except.bind, pure, Except.pure] at h
    cases ha : oeval a <;> cases hb : oeval b <;> simp [ha, hb] at h
    subst h; rename_i va vb; cases va <;> cases vb <;> simp [oadd]
  | mul a n =>
    simp only [oeval, bind, Except.bind] at h
    cases ha : oeval a <;> simp [ha] at h
    rename_i va; cases va <;> simp only [omul] at h <;> split at h <;> cases h <;> simp

/-! ### non-vacuity: concrete trees meet the hypotheses -/

def kindEx : Nat → Kind | 0 => .disp | 1 => .disp | 2 => .exch | 3 => .cell | _ => .gen

example : eval kindEx (.add (.leaf 0) (.add (.leaf 1) (.mul (.leaf 0) 2))) =
    .ok (.comp .cdisp [0, 1, 0, 0]) := by rfl
example : eval kindEx (.add (.mul (.leaf 2) 2) (.leaf 2)) = .ok (.comp .cexch [2, 2, 2]) := by rfl
example : eval kindEx (.add (.leaf 0) (.add (.leaf 2) (.leaf 3))) = .ok (.comp .plain [0, 2, 3]) := by rfl
example : eval kindEx (.mul (.leaf 0) 0) = .error .badCount := by rfl
example : oeval (.add (.leaf 0) (.mul (.add (.leaf 1) (.leaf 2)) 2)) = .ok (.comp [0, 1, 2, 1, 2]) := by rfl

end Alg
