import QProofs.VerletMB
/-!
# C14 — Hamiltonian proposals are reversible and correctly thermalised

Theorems about the model `QModel/Verlet.lean` at the carrier `ℝ`.  Quantifiers are unbounded: every force
function `F` (no smoothness needed for reversibility), every number of atoms `n`, every number of steps,
all masses `> 0`, every `dt ≠ 0`, every initial state, both values of `Verlet.apply_constraints`.

The clause "the total-energy error shrinks quadratically with the time step **for all smooth potentials**" is proved
uniformly in time for harmonic wells here (`energy_error_quadratic_partial`) and, over a fixed time span and for every
`C³` potential (separable or not) whose trajectory stays in a bounded region, in `QProps/C14g.lean`
(`verlet_energy_error_quadratic_general`, `…_general_contDiff`).
-/
namespace Verlet
open VecFn Finset MeasureTheory ProbabilityTheory

variable {n : ℕ}

/-! ## reversibility -/

/-- **verlet_reversible**: integrate `steps` steps, negate all momenta, integrate `steps` steps, negate:
    exactly the initial positions and momenta (over `ℝ`; in `Float` "up to rounding"). -/
theorem verlet_reversible (apply : Bool) (F : Arr n ℝ → Arr n ℝ) (m : Col n ℝ) (dt : ℝ)
    (hm : ∀ i, 0 < m i) (hdt : dt ≠ 0) (steps : ℕ) (s : St n ℝ) :
    flip (integrate Cons.none apply F m dt steps (flip (integrate Cons.none apply F m dt steps s))) = s := by
  have hm' : ∀ i, m i ≠ 0 := fun i => (hm i).ne'
  rw [integrate_none apply F m dt hm' hdt, integrate_none apply F m dt hm' hdt]
  exact Phi_iter_reverse F m dt steps s

/-- non-vacuity: hypotheses are satisfiable and the integrator really moves the particle
    (`F = −q`, `m = 1`, `dt = 1`, one step from `(q, p) = (1, 0)` gives `q = 1/2`) -/
example : (integrate Cons.none true (harmonicForce (fun _ => 1) (fun _ _ => 0)) (fun _ => 1) 1 1
    (⟨fun _ _ => 1, fun _ _ => 0⟩ : St 1 ℝ)).q 0 0 = 1 / 2 := by
  rw [integrate_none true _ _ _ (by intro i; norm_num) (by norm_num)]
  simp [Phi, harmonicForce]
  norm_num

/-! ## energy error -/

/-- **verlet_shadow_harmonic**: for harmonic wells `F = −kᵢ (qᵢ − cᵢ)` the coded integrator conserves the
    modified energy `Σ p²/2mᵢ + ½ kᵢ x² (1 − kᵢ dt²/(4 mᵢ))` exactly, for any number of steps; and the true
    energy differs from it by the explicit `dt²` term. -/
theorem verlet_shadow_harmonic (apply : Bool) (k : Col n ℝ) (ctr : Arr n ℝ) (m : Col n ℝ) (dt : ℝ)
    (hm : ∀ i, 0 < m i) (hdt : dt ≠ 0) (steps : ℕ) (s : St n ℝ) :
    shadowEnergy k ctr m dt (integrate Cons.none apply (harmonicForce k ctr) m dt steps s)
        = shadowEnergy k ctr m dt s
    ∧ ∀ s' : St n ℝ, totalEnergy k ctr m s' = shadowEnergy k ctr m dt s'
        + dt ^ 2 * ∑ i, ∑ a, k i / (4 * m i) * (1 / 2 * k i * (s'.q i a - ctr i a) ^ 2) := by
  have hm' : ∀ i, m i ≠ 0 := fun i => (hm i).ne'
  constructor
  · rw [integrate_none apply _ m dt hm' hdt]
    unfold shadowEnergy
    exact Finset.sum_congr rfl (fun i _ => Finset.sum_congr rfl (fun a _ => shDof_iter k ctr m dt hm' steps s i a))
  · intro s'
    rw [totalEnergy_eq_sum, shadowEnergy, Finset.mul_sum, ← Finset.sum_add_distrib]
    refine Finset.sum_congr rfl (fun i _ => ?_)
    rw [Finset.mul_sum, ← Finset.sum_add_distrib]
    refine Finset.sum_congr rfl (fun a _ => ?_)
    simp only [eDof, shDof]
    ring

/-- **energy_error_quadratic_partial** (harmonic wells): if every `ωᵢ² = kᵢ/mᵢ ≤ W` and `W dt² < 4`
    (stability range), then after *any* number of steps
    `|H(q_n, p_n) − H(q_0, p_0)| ≤ dt² · W/(4 − W dt²) · H(q_0, p_0)`: the energy error is `O(dt²)`
    uniformly in the number of steps.

    The statement for every smooth potential `V`, `F = −∇V` — a constant `C` with `|H(Φ_dt^n s) − H(s)| ≤ C·T·dt²`
    for `n dt ≤ T` while the trajectory stays in a bounded region — is `verlet_energy_error_quadratic_general(_contDiff)`
    in `QProps/C14g.lean` (local truncation analysis: the `dt` and `dt²` terms cancel identically, the `dt³` remainder is
    bounded by Taylor estimates). What remains unproved is only that the trajectory stays bounded (derived here for the
    harmonic and the cosine potential) and a bound uniform in time for general `V`. -/
theorem energy_error_quadratic_partial (apply : Bool) (k : Col n ℝ) (ctr : Arr n ℝ) (m : Col n ℝ)
    (dt W : ℝ) (hm : ∀ i, 0 < m i) (hk : ∀ i, 0 ≤ k i) (hW : ∀ i, k i / m i ≤ W) (hdt : dt ≠ 0)
    (hstab : W * dt ^ 2 < 4) (steps : ℕ) (s : St n ℝ) :
    |totalEnergy k ctr m (integrate Cons.none apply (harmonicForce k ctr) m dt steps s)
        - totalEnergy k ctr m s| ≤ dt ^ 2 * (W / (4 - W * dt ^ 2)) * totalEnergy k ctr m s := by
  have hm' : ∀ i, m i ≠ 0 := fun i => (hm i).ne'
  rw [integrate_none apply _ m dt hm' hdt]
  set s' := (Phi (harmonicForce k ctr) m dt)^[steps] s with hs'
  set c := W * dt ^ 2 / 4 with hc
  have hc1 : c < 1 := by rw [hc]; linarith
  have hcoef : dt ^ 2 * (W / (4 - W * dt ^ 2)) = c / (1 - c) := by
    have h4 : (4 : ℝ) - W * dt ^ 2 ≠ 0 := by linarith
    have h1 : (1 : ℝ) - c ≠ 0 := by linarith
    rw [hc] at h1 ⊢
    field_simp
  have hdof : ∀ i a, |eDof k ctr m s' i a - eDof k ctr m s i a| ≤ c / (1 - c) * eDof k ctr m s i a := by
    intro i a
    refine dof_energy_bound k ctr m dt c s s' i a (hm i) (hk i) ?_ hc1 (shDof_iter k ctr m dt hm' steps s i a)
    have h1 : k i * dt ^ 2 / (4 * m i) = k i / m i * dt ^ 2 / 4 := by
      have := hm' i
      field_simp
    rw [h1, hc]
    have : k i / m i * dt ^ 2 ≤ W * dt ^ 2 := mul_le_mul_of_nonneg_right (hW i) (sq_nonneg dt)
    linarith
  rw [hcoef, totalEnergy_eq_sum, totalEnergy_eq_sum, ← Finset.sum_sub_distrib, Finset.mul_sum]
  refine le_trans (Finset.abs_sum_le_sum_abs _ _) (Finset.sum_le_sum (fun i _ => ?_))
  rw [← Finset.sum_sub_distrib, Finset.mul_sum]
  exact le_trans (Finset.abs_sum_le_sum_abs _ _) (Finset.sum_le_sum (fun a _ => hdof i a))

/-- non-vacuity of the stability hypotheses (`k = m = 1`, `W = 1`, `dt = 1`) -/
example : ∃ (k m : Col 1 ℝ) (dt W : ℝ), (∀ i, 0 < m i) ∧ (∀ i, 0 ≤ k i) ∧ (∀ i, k i / m i ≤ W) ∧ dt ≠ 0 ∧
    W * dt ^ 2 < 4 := ⟨fun _ => 1, fun _ => 1, 1, 1, by simp, by simp, by simp, by simp, by norm_num⟩

/-! ## momentum refresh -/

/-- unforced refresh, no constraint attached: `p = z · √(m kT)` component-wise -/
theorem mb_unforced (m : Col n ℝ) (kT ndof : ℝ) (q z : Arr n ℝ) (i : Fin n) (a : Fin 3) :
    maxwellBoltzmann Cons.none m kT ndof false q z i a = z i a * Real.sqrt (m i * kT) := by
  rw [maxwellBoltzmann_none, mbScale_not_forced]
  simp only [mul_one, mbDraw_real]

variable {Ω : Type} [MeasurableSpace Ω]

/-- **mb_mean_zero**: if the normal draw has mean 0, every momentum component has mean 0 -/
theorem mb_mean_zero (μ : Measure Ω) (Z : Ω → Arr n ℝ) (m : Col n ℝ) (kT ndof : ℝ) (q : Arr n ℝ)
    (i : Fin n) (a : Fin 3) (h0 : ∫ ω, Z ω i a ∂μ = 0) :
    ∫ ω, maxwellBoltzmann Cons.none m kT ndof false q (Z ω) i a ∂μ = 0 := by
  simp only [mb_unforced]
  rw [integral_mul_const, h0, zero_mul]

/-- **mb_variance**: if the normal draw has variance 1, every momentum component has variance `m kT` -/
theorem mb_variance (μ : Measure Ω) (Z : Ω → Arr n ℝ) (m : Col n ℝ) (kT ndof : ℝ) (q : Arr n ℝ)
    (i : Fin n) (a : Fin 3) (hmk : 0 ≤ m i * kT) (h1 : Var[fun ω => Z ω i a; μ] = 1) :
    Var[fun ω => maxwellBoltzmann Cons.none m kT ndof false q (Z ω) i a; μ] = m i * kT := by
  simp only [mb_unforced]
  rw [variance_mul_const, h1, one_mul, Real.sq_sqrt hmk]

/-- **mb_normal**: if the draw is standard normal, every momentum component is `N(0, m kT)` -/
theorem mb_normal (μ : Measure Ω) (Z : Ω → Arr n ℝ) (m : Col n ℝ) (kT ndof : ℝ) (q : Arr n ℝ)
    (i : Fin n) (a : Fin 3) (hmk : 0 ≤ m i * kT) (hZ : μ.map (fun ω => Z ω i a) = gaussianReal 0 1) :
    μ.map (fun ω => maxwellBoltzmann Cons.none m kT ndof false q (Z ω) i a)
      = gaussianReal 0 ⟨m i * kT, hmk⟩ := by
  simp only [mb_unforced]
  have hne : NeZero (μ.map (fun ω => Z ω i a)) := by rw [hZ]; infer_instance
  have hae : AEMeasurable (fun ω => Z ω i a) μ := aemeasurable_of_map_neZero hne
  have hcomp : (fun ω => Z ω i a * Real.sqrt (m i * kT))
      = (fun z => z * Real.sqrt (m i * kT)) ∘ (fun ω => Z ω i a) := rfl
  rw [hcomp, ← AEMeasurable.map_map_of_aemeasurable (by fun_prop) hae, hZ]
  exact gaussian_scaled (m i * kT) hmk

/-- non-vacuity: the standard normal law on `Ω = ℝ` itself satisfies the three hypotheses -/
example : ∃ (μ : Measure ℝ) (Z : ℝ → Arr 1 ℝ), μ.map (fun ω => Z ω 0 0) = gaussianReal 0 1 ∧
    ∫ ω, Z ω 0 0 ∂μ = 0 ∧ Var[fun ω => Z ω 0 0; μ] = 1 :=
  ⟨gaussianReal 0 1, fun ω _ _ => ω, by simp, by simp, by simp⟩

/-- **mb_forced_temperature**: with `forced=True` the kinetic temperature `T' = 2 E_kin/ndof` after the
    call equals `T · T_real/(T_real + 1e-15)`, where `T_real` is the kinetic temperature of the raw draw;
    hence `|T' − T| ≤ T · 1e-15 / T_real` ("the target temperature to rounding"). -/
theorem mb_forced_temperature (m : Col n ℝ) (kT ndof : ℝ) (q z : Arr n ℝ) (hkT : 0 ≤ kT)
    (hT : 0 < 2 * ekin m (mbDraw m kT z) / ndof) :
    2 * ekin m (maxwellBoltzmann Cons.none m kT ndof true q z) / ndof
        = kT * (2 * ekin m (mbDraw m kT z) / ndof) / (2 * ekin m (mbDraw m kT z) / ndof + 1 / 10 ^ 15)
    ∧ |2 * ekin m (maxwellBoltzmann Cons.none m kT ndof true q z) / ndof - kT|
        ≤ kT * (1 / 10 ^ 15) / (2 * ekin m (mbDraw m kT z) / ndof) := by
  set Tr := 2 * ekin m (mbDraw m kT z) / ndof with hTr
  have hpos : 0 < Tr + 1 / 10 ^ 15 := by positivity
  have hsq : mbScale kT ndof true (ekin m (mbDraw m kT z)) ^ 2 = kT / (Tr + 1 / 10 ^ 15) :=
    mbScale_forced_sq kT ndof _ (div_nonneg hkT hpos.le)
  have hT' : 2 * ekin m (maxwellBoltzmann Cons.none m kT ndof true q z) / ndof
      = kT * Tr / (Tr + 1 / 10 ^ 15) := by
    rw [maxwellBoltzmann_none, ekin_scale, hsq, hTr]
    ring
  refine ⟨hT', ?_⟩
  rw [hT']
  have hdiff : kT * Tr / (Tr + 1 / 10 ^ 15) - kT = -(kT * (1 / 10 ^ 15) / (Tr + 1 / 10 ^ 15)) := by
    field_simp
    ring
  rw [hdiff, abs_neg, abs_of_nonneg (by positivity)]
  apply div_le_div_of_nonneg_left (by positivity) hT
  linarith [show (0 : ℝ) < 1 / 10 ^ 15 by positivity]

/-- non-vacuity: one atom, `m = kT = 1`, `ndof = 3`, draw `z = (1,1,1)` has `T_real = 1 > 0` -/
example : 0 < 2 * ekin (fun _ => (1 : ℝ)) (mbDraw (n := 1) (fun _ => 1) 1 (fun _ _ => 1)) / 3 := by
  simp [ekin, sumAll_real, mbDraw_real]

/-! ## the kinetic energy that enters the acceptance test -/

/-- **ke_reference_fresh**: when `HamiltonianDisplacementMove.attempt_displacement` (momentum sampling on) is
    called with a kinetic reference that is current — `context.last_kinetic_energy` is the kinetic energy of the
    momenta the atoms carry, which is what the constructor, `save_state`, `revert_state` and
    `validate_simulation` leave (`QProps/C14k.lean`, `reference_established`, `reference_between_trials`) — and
    returns `True`, it did so in attempt `j` — the first attempt whose `check_move` verdict is not a veto —,
    `context.last_kinetic_energy` is the kinetic energy of the momenta drawn **in that attempt** (also when
    earlier attempts were vetoed), and the proposed state is the trajectory started from the original
    positions with exactly those momenta.  Holds for every force field, constraint set, `dt`, step count,
    forced or unforced refresh.  Without the hypothesis (a member of a composite called after other members):
    `ke_reference_carried` in `QProps/C14k.lean`. -/
theorem ke_reference_fresh (g : HCfg n ℝ) (maxAttempts : ℕ) (zs : List (Arr n ℝ)) (checks : List Bool)
    (c c' : HCtx n ℝ) (href : c.lastKE = ekin g.m c.p)
    (h : attemptDisplacement g true maxAttempts zs checks c = (true, c')) :
    ∃ j, j < maxAttempts ∧ checks.getD j true = true ∧ (∀ l, l < j → checks.getD l true = false) ∧
      c'.lastKE = ekin g.m (g.draw c.q (zs.getD j Arr.zero)) ∧
      (⟨c'.q, c'.p⟩ : St n ℝ) = g.run ⟨c.q, g.draw c.q (zs.getD j Arr.zero)⟩ := by
  obtain ⟨j, h1, h2, h3, h4, h5⟩ :=
    attemptLoop_fresh g ⟨c.q, c.p⟩ c.lastKE (ekin g.m c.p) maxAttempts zs checks c c' rfl h
  refine ⟨j, h1, h2, h3, ?_, h5⟩
  rw [h4, href]
  ring

/-- a call whose attempts are all vetoed restores positions and momenta -/
theorem attempt_failed_restores (g : HCfg n ℝ) (sample : Bool) (maxAttempts : ℕ) (zs : List (Arr n ℝ))
    (checks : List Bool) (c c' : HCtx n ℝ)
    (h : attemptDisplacement g sample maxAttempts zs checks c = (false, c')) : c'.q = c.q ∧ c'.p = c.p :=
  let r := attemptLoop_failed g sample ⟨c.q, c.p⟩ c.lastKE (ekin g.m c.p) maxAttempts zs checks c c' rfl rfl rfl h
  ⟨r.1, r.2.1⟩

/-- non-vacuity of the hypothesis of `ke_reference_fresh`: a context just constructed satisfies it -/
example (g : HCfg n ℝ) (q p : Arr n ℝ) : (HCtx.fresh g.m q p).lastKE = ekin g.m (HCtx.fresh g.m q p).p := rfl

/-- non-vacuity: a call that succeeds in its second attempt after a vetoed first one -/
example (g : HCfg 1 ℝ) (c : HCtx 1 ℝ) (z0 z1 : Arr 1 ℝ) :
    (attemptDisplacement g true 2 [z0, z1] [false, true] c).1 = true := by
  simp [attemptDisplacement, attemptLoop]

end Verlet
