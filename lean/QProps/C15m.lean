import QProofs.RunLoopInv
import QProps.C07m
/-!
# C15 (M-machine) — splitting a run of the Monte Carlo drivers does not change it, with no abstract hypothesis left

QProps/C15.lean proves `run a; run b ≡ run (a+b)` for an ABSTRACT simulation under `ValidateStable cfg`
(`validate_simulation` is a no-op on every state reached by steps from ANY fixed point of `validate`). For the concrete
M-machine (QModel/Machine.lean) that hypothesis is too strong; what holds is stability along the run.

1. `RunLoop.split_run_on`, `split_irun_on`, `split_many_on`, `split_run_coded_partial_on` (+ `…_upto` with a horizon): the
   split theorems under `ValidateStableOn cfg P` / `ValidateStableUpTo cfg P N` (QProofs/RunLoopInv.lean), `P k x` an
   invariant of the simulation state `x` at `step_count = k`, required of the VALIDATED start state only.
   `split_run_of_stable` … : the old theorems are the special case `P _ x := validate x = x`.
2. `MM.mmCfg sim sched …` / `MM.mmCfgG sim sched …`: the run loop of a Monte Carlo driver (lazy `step`, one trial per
   step) executing the scripted trial `sched k` at `step_count = k`. `MM.PA` / `MM.PG`: trial boundary + the remaining
   schedule up to the horizon is admissible (`AHistoryOK` / `GHistoryOK`). `mm_stable_upto`, `mm_stable_upto_grand`:
   `ValidateStableUpTo` from `validate_of_boundary`, `boundary_astep`, `boundary_gstep`.
   **`mm_split_run`**, **`mm_split_run_grand`** (and `…_min`, `mm_split_many…`, `mm_split_irun…`,
   `mm_split_run_coded_partial…`, `mm_split_run_forever…` for a schedule admissible for ever).
3. non-vacuity on `exSim`/`exState0` (canonical, `a = 1, b = 2`) and `c7Sim`/`c7G0` (grand-canonical, `a = 2, b = 4`).
-/
namespace RunLoop
variable {σ : Type}

/-! ## 1. the split theorems relative to an invariant -/

/-- **split_run_upto** (fixed loop): `run a; run b ≡ run (a+b)` for all `a, b ≥ 0` whenever `validate` is stable along the
    run up to a horizon covering the first segment. Equality of the whole object: simulation state, `step_count`,
    `max_steps`, number of executed steps, the complete observer trace. -/
theorem split_run_upto (cfg : Cfg σ) (hv : cfg.variant = .fixed) {P : Nat → σ → Prop} {N : Nat}
    (hs : ValidateStableUpTo cfg P N) (a b : Nat) (s : Sim σ) (hN : s.stepCount + a ≤ N)
    (hP : P s.stepCount (cfg.validate s.st)) :
    run cfg b (run cfg a s) = run cfg (a + b) s := by
  unfold run
  cases cfg.kind <;> exact irunWith_split_on cfg hs _ a b s hN hP (Or.inl (past_stepZero_fixed cfg _ hv))

/-- **split_run_on** -/
theorem split_run_on (cfg : Cfg σ) (hv : cfg.variant = .fixed) {P : Nat → σ → Prop} (hs : ValidateStableOn cfg P)
    (a b : Nat) (s : Sim σ) (hP : P s.stepCount (cfg.validate s.st)) :
    run cfg b (run cfg a s) = run cfg (a + b) s :=
  split_run_upto cfg hv (hs.upTo (s.stepCount + a)) a b s (Nat.le_refl _) hP

/-- the same for any consumer of `irun`/`srun` (a lazy driver whose step generators are not exhausted included) -/
theorem split_irun_upto (cfg : Cfg σ) (hv : cfg.variant = .fixed) {P : Nat → σ → Prop} {N : Nat}
    (hs : ValidateStableUpTo cfg P N) (c : Bool) (a b : Nat) (s : Sim σ) (hN : s.stepCount + a ≤ N)
    (hP : P s.stepCount (cfg.validate s.st)) :
    irunWith cfg c b (irunWith cfg c a s) = irunWith cfg c (a + b) s :=
  irunWith_split_on cfg hs c a b s hN hP (Or.inl (past_stepZero_fixed cfg _ hv))

/-- **split_irun_on** -/
theorem split_irun_on (cfg : Cfg σ) (hv : cfg.variant = .fixed) {P : Nat → σ → Prop} (hs : ValidateStableOn cfg P)
    (c : Bool) (a b : Nat) (s : Sim σ) (hP : P s.stepCount (cfg.validate s.st)) :
    irunWith cfg c b (irunWith cfg c a s) = irunWith cfg c (a + b) s :=
  split_irun_upto cfg hv (hs.upTo (s.stepCount + a)) c a b s (Nat.le_refl _) hP

/-- **split_run_coded_partial_upto**: the loop of the pinned tree splits correctly when the step-0 block cannot be
    re-entered (first segment non-empty, or already past step 0). -/
theorem split_run_coded_partial_upto (cfg : Cfg σ) {P : Nat → σ → Prop} {N : Nat} (hs : ValidateStableUpTo cfg P N)
    (a b : Nat) (s : Sim σ) (hN : s.stepCount + a ≤ N) (hP : P s.stepCount (cfg.validate s.st))
    (h : 0 < a ∨ 0 < s.stepCount) :
    run cfg b (run cfg a s) = run cfg (a + b) s := by
  have key : ∀ c, irunWith cfg c b (irunWith cfg c a s) = irunWith cfg c (a + b) s := by
    intro c
    cases hv : cfg.variant with
    | fixed => exact irunWith_split_on cfg hs c a b s hN hP (Or.inl (past_stepZero_fixed cfg _ hv))
    | coded =>
      rcases h with h | h
      · exact irunWith_split_on cfg hs c a b s hN hP (Or.inr ⟨h, hv⟩)
      · exact irunWith_split_on cfg hs c a b s hN hP (Or.inl (past_stepZero_coded cfg _ (by
          simp [setMax, validateSim]; omega)))
  unfold run
  cases cfg.kind <;> exact key _

/-- **split_run_coded_partial_on** -/
theorem split_run_coded_partial_on (cfg : Cfg σ) {P : Nat → σ → Prop} (hs : ValidateStableOn cfg P)
    (a b : Nat) (s : Sim σ) (hP : P s.stepCount (cfg.validate s.st)) (h : 0 < a ∨ 0 < s.stepCount) :
    run cfg b (run cfg a s) = run cfg (a + b) s :=
  split_run_coded_partial_upto cfg (hs.upTo (s.stepCount + a)) a b s (Nat.le_refl _) hP h

/-- **split_many_upto** (fixed loop): any non-empty list of segment lengths, zeros included, is one run of their sum -/
theorem split_many_upto (cfg : Cfg σ) (hv : cfg.variant = .fixed) {P : Nat → σ → Prop} {N : Nat}
    (hs : ValidateStableUpTo cfg P N) (n : Nat) (segs : List Nat) (s : Sim σ)
    (hN : s.stepCount + (n + segs.sum) ≤ N) (hP : P s.stepCount (cfg.validate s.st)) :
    runs cfg (n :: segs) s = run cfg (n + segs.sum) s := by
  induction segs generalizing n s with
  | nil => simp [runs]
  | cons m rest ih =>
    rw [List.sum_cons] at hN
    have := ih m (run cfg n s) (by rw [run_stepCount]; omega) (run_P_validate cfg hs n s (by omega) hP)
    simp only [runs] at this ⊢
    rw [this, split_run_upto cfg hv hs n (m + rest.sum) s (by omega) hP, List.sum_cons]

/-- **split_many_on** -/
theorem split_many_on (cfg : Cfg σ) (hv : cfg.variant = .fixed) {P : Nat → σ → Prop} (hs : ValidateStableOn cfg P)
    (n : Nat) (segs : List Nat) (s : Sim σ) (hP : P s.stepCount (cfg.validate s.st)) :
    runs cfg (n :: segs) s = run cfg (n + segs.sum) s :=
  split_many_upto cfg hv (hs.upTo _) n segs s (Nat.le_refl _) hP

/-- files: whatever an observer renders from its invocations, the split run writes the same bytes -/
theorem split_run_files_upto {β : Type} (cfg : Cfg σ) (hv : cfg.variant = .fixed) {P : Nat → σ → Prop} {N : Nat}
    (hs : ValidateStableUpTo cfg P N) (render : Ev σ → List β) (i n : Nat) (segs : List Nat) (s : Sim σ)
    (hN : s.stepCount + (n + segs.sum) ≤ N) (hP : P s.stepCount (cfg.validate s.st)) :
    fileOf render i (runs cfg (n :: segs) s) = fileOf render i (run cfg (n + segs.sum) s) := by
  rw [split_many_upto cfg hv hs n segs s hN hP]

/-! ### the old theorems are the special case `P _ x := validate x = x` -/

theorem split_run_of_stable (cfg : Cfg σ) (hv : cfg.variant = .fixed) (hs : ValidateStable cfg) (a b : Nat)
    (s : Sim σ) : run cfg b (run cfg a s) = run cfg (a + b) s :=
  split_run_on cfg hv hs.on a b s (hs.idem _)

theorem split_irun_of_stable (cfg : Cfg σ) (hv : cfg.variant = .fixed) (hs : ValidateStable cfg) (c : Bool)
    (a b : Nat) (s : Sim σ) : irunWith cfg c b (irunWith cfg c a s) = irunWith cfg c (a + b) s :=
  split_irun_on cfg hv hs.on c a b s (hs.idem _)

theorem split_many_of_stable (cfg : Cfg σ) (hv : cfg.variant = .fixed) (hs : ValidateStable cfg) (n : Nat)
    (segs : List Nat) (s : Sim σ) : runs cfg (n :: segs) s = run cfg (n + segs.sum) s :=
  split_many_on cfg hv hs.on n segs s (hs.idem _)

theorem split_run_coded_partial_of_stable (cfg : Cfg σ) (hs : ValidateStable cfg) (a b : Nat) (s : Sim σ)
    (h : 0 < a ∨ 0 < s.stepCount) : run cfg b (run cfg a s) = run cfg (a + b) s :=
  split_run_coded_partial_on cfg hs.on a b s (hs.idem _) h

end RunLoop

namespace MM
open RunLoop (Cfg Variant Kind Ev)

/-! ## 2. the Monte Carlo drivers -/

/-- the trials scheduled for the steps `k, k+1, …, k+n-1` -/
def slice {α : Type} (sched : Nat → α) : Nat → Nat → List α
  | _, 0 => []
  | k, n + 1 => sched k :: slice sched (k + 1) n

theorem slice_eq_map {α : Type} (sched : Nat → α) (k n : Nat) : slice sched k n = (List.range' k n).map sched := by
  induction n generalizing k with
  | zero => rfl
  | succ n ih => simp [slice, ih, List.range'_succ]

theorem slice_add {α : Type} (sched : Nat → α) (k a b : Nat) :
    slice sched k (a + b) = slice sched k a ++ slice sched (k + a) b := by
  induction a generalizing k with
  | zero => simp [slice]
  | succ a ih =>
    rw [Nat.succ_add]
    simp only [slice, List.cons_append]
    rw [ih, Nat.add_assoc, Nat.add_comm 1 a]

/-- the run loop of the canonical / Hamiltonian / isobaric-isotension Monte Carlo driver (`MonteCarlo.step` is lazy)
    executing the scripted trial `sched k` when `step_count = k` (one trial per step: `max_cycles = 1`); observers
    `ivs`, default logger `lg`, loop variant `v` are arbitrary -/
def mmCfg (sim : Sim) (sched : Nat → ATrial) (ivs : List Int) (lg : Option Nat) (v : Variant) : Cfg State :=
  { intervals := ivs, logger := lg, kind := .lazy, variant := v,
    validate := validate sim, stepFn := fun k s => (astep sim (sched k) s).2 }

/-- the same for the grand-canonical driver -/
def mmCfgG (sim : Sim) (sched : Nat → GTrial) (ivs : List Int) (lg : Option Nat) (v : Variant) : Cfg State :=
  { intervals := ivs, logger := lg, kind := .lazy, variant := v,
    validate := validate sim, stepFn := fun k s => (gstep sim (sched k) s).2 }

/-- the invariant along the run: a trial boundary, and the schedule from step `k` up to the horizon `N` is admissible -/
def PA (sim : Sim) (sched : Nat → ATrial) (N : Nat) (k : Nat) (s : State) : Prop :=
  Boundary sim s ∧ AHistoryOK sim (slice sched k (N - k)) s

def PG (sim : Sim) (sched : Nat → GTrial) (N : Nat) (k : Nat) (s : State) : Prop :=
  Boundary sim s ∧ GHistoryOK sim (slice sched k (N - k)) s

/-- **the hypothesis of the split theorems holds for the canonical / Hamiltonian / isobaric drivers** -/
theorem mm_stable_upto (sim : Sim) (hb : sim.ens ≠ .base) (hng : sim.ens ≠ .grand) (sched : Nat → ATrial)
    (ivs : List Int) (lg : Option Nat) (v : Variant) (N : Nat) :
    RunLoop.ValidateStableUpTo (mmCfg sim sched ivs lg v) (PA sim sched N) N := by
  refine ⟨fun k x _ h => validate_of_boundary sim x h.1, ?_⟩
  intro k x hk ⟨hbd, hok⟩
  have e : N - k = (N - (k + 1)) + 1 := by omega
  rw [e] at hok
  exact ⟨boundary_astep sim hb hng (sched k) x hbd hok.1, hok.2⟩

/-- **… and for the grand-canonical driver** -/
theorem mm_stable_upto_grand (sim : Sim) (he : sim.ens = .grand) (sched : Nat → GTrial)
    (ivs : List Int) (lg : Option Nat) (v : Variant) (N : Nat) :
    RunLoop.ValidateStableUpTo (mmCfgG sim sched ivs lg v) (PG sim sched N) N := by
  refine ⟨fun k x _ h => validate_of_boundary sim x h.1, ?_⟩
  intro k x hk ⟨hbd, hok⟩
  have e : N - k = (N - (k + 1)) + 1 := by omega
  rw [e] at hok
  have hok' := (gHistoryOK_cons sim (sched k) (slice sched (k + 1) (N - (k + 1))) x).mp hok
  exact ⟨boundary_gstep sim he (sched k) x hbd hok'.1, hok'.2⟩

/-- a schedule admissible for ever: every finite stretch of it is admissible -/
def AdmissibleA (sim : Sim) (sched : Nat → ATrial) (k : Nat) (s : State) : Prop :=
  Boundary sim s ∧ ∀ n, AHistoryOK sim (slice sched k n) s

def AdmissibleG (sim : Sim) (sched : Nat → GTrial) (k : Nat) (s : State) : Prop :=
  Boundary sim s ∧ ∀ n, GHistoryOK sim (slice sched k n) s

theorem mm_stable_on (sim : Sim) (hb : sim.ens ≠ .base) (hng : sim.ens ≠ .grand) (sched : Nat → ATrial)
    (ivs : List Int) (lg : Option Nat) (v : Variant) :
    RunLoop.ValidateStableOn (mmCfg sim sched ivs lg v) (AdmissibleA sim sched) := by
  refine ⟨fun k x h => validate_of_boundary sim x h.1, ?_⟩
  intro k x ⟨hbd, hok⟩
  exact ⟨boundary_astep sim hb hng (sched k) x hbd (hok 1).1, fun n => (hok (n + 1)).2⟩

theorem mm_stable_on_grand (sim : Sim) (he : sim.ens = .grand) (sched : Nat → GTrial)
    (ivs : List Int) (lg : Option Nat) (v : Variant) :
    RunLoop.ValidateStableOn (mmCfgG sim sched ivs lg v) (AdmissibleG sim sched) := by
  refine ⟨fun k x h => validate_of_boundary sim x h.1, ?_⟩
  intro k x ⟨hbd, hok⟩
  have h1 := (gHistoryOK_cons sim (sched k) (slice sched (k + 1) 0) x).mp (hok 1)
  exact ⟨boundary_gstep sim he (sched k) x hbd h1.1,
    fun n => ((gHistoryOK_cons sim (sched k) (slice sched (k + 1) n) x).mp (hok (n + 1))).2⟩

/-! ### what the loop executes: the scripted history -/

theorem stepsFrom_mmCfg (sim : Sim) (sched : Nat → ATrial) (ivs : List Int) (lg : Option Nat) (v : Variant)
    (k n : Nat) (x : State) :
    RunLoop.stepsFrom (mmCfg sim sched ivs lg v) k n x = runA sim (slice sched k n) x := by
  induction n generalizing k x with
  | zero => rfl
  | succ n ih => simp only [RunLoop.stepsFrom, slice, runA]; rw [ih]; rfl

theorem stepsFrom_mmCfgG (sim : Sim) (sched : Nat → GTrial) (ivs : List Int) (lg : Option Nat) (v : Variant)
    (k n : Nat) (x : State) :
    RunLoop.stepsFrom (mmCfgG sim sched ivs lg v) k n x = runG sim (slice sched k n) x := by
  induction n generalizing k x with
  | zero => rfl
  | succ n ih => simp only [RunLoop.stepsFrom, slice, runG]; rw [ih]; rfl

/-- `run n` of the driver model executes `validate_simulation()` and then exactly the scheduled trials
    `sched step_count, …, sched (step_count + n - 1)` (the histories of C03 / C05 / C07) -/
theorem mm_run_st (sim : Sim) (sched : Nat → ATrial) (ivs : List Int) (lg : Option Nat) (v : Variant) (n : Nat)
    (s : RunLoop.Sim State) :
    (RunLoop.run (mmCfg sim sched ivs lg v) n s).st = runA sim (slice sched s.stepCount n) (validate sim s.st) := by
  rw [RunLoop.run_st, stepsFrom_mmCfg]; rfl

theorem mm_run_st_grand (sim : Sim) (sched : Nat → GTrial) (ivs : List Int) (lg : Option Nat) (v : Variant) (n : Nat)
    (s : RunLoop.Sim State) :
    (RunLoop.run (mmCfgG sim sched ivs lg v) n s).st = runG sim (slice sched s.stepCount n) (validate sim s.st) := by
  rw [RunLoop.run_st, stepsFrom_mmCfgG]; rfl

/-! ### the split theorems, canonical / Hamiltonian / isobaric drivers -/

theorem PA_mk (sim : Sim) (sched : Nat → ATrial) (k a : Nat) (y : State) (hbd : Boundary sim y)
    (hok : AHistoryOK sim (slice sched k a) y) : PA sim sched (k + a) k y := by
  refine ⟨hbd, ?_⟩
  have : k + a - k = a := by omega
  rw [this]; exact hok

theorem PA_start (sim : Sim) (sched : Nat → ATrial) (k a : Nat) (x : State) (hbd : Boundary sim x)
    (hok : AHistoryOK sim (slice sched k a) x) : PA sim sched (k + a) k (validate sim x) := by
  rw [validate_of_boundary sim x hbd]; exact PA_mk sim sched k a x hbd hok

/-- **mm_split_run_unvalidated**: the simulation state need not be validated yet (e.g. the user has edited the atoms since
    the last run): it is enough that `validate_simulation()` produces a boundary state from which the first segment is
    admissible -/
theorem mm_split_run_unvalidated (sim : Sim) (hb : sim.ens ≠ .base) (hng : sim.ens ≠ .grand) (sched : Nat → ATrial)
    (ivs : List Int) (lg : Option Nat) (a b : Nat) (s : RunLoop.Sim State)
    (hbd : Boundary sim (validate sim s.st))
    (hok : AHistoryOK sim (slice sched s.stepCount a) (validate sim s.st)) :
    RunLoop.run (mmCfg sim sched ivs lg .fixed) b (RunLoop.run (mmCfg sim sched ivs lg .fixed) a s)
      = RunLoop.run (mmCfg sim sched ivs lg .fixed) (a + b) s :=
  RunLoop.split_run_upto _ rfl (mm_stable_upto sim hb hng sched ivs lg .fixed (s.stepCount + a)) a b s
    (Nat.le_refl _) (PA_mk sim sched _ a _ hbd hok)

/-- `validate_simulation()` re-establishes the boundary condition after the user has moved the atoms / changed the cell -/
theorem boundary_newRun (sim : Sim) (hng : sim.ens ≠ .grand) (s0 : State) (p : List V3) (c : Option V3)
    (h : Boundary sim s0) : Boundary sim (newRun sim s0 p c) := by
  refine ⟨?_, fun he => absurd he hng, fun _ => inv_newRun sim s0 p c (h.other hng)⟩
  have e : (newRun sim s0 p c).heap = s0.heap := by
    unfold newRun validate; cases sim.ens <;> rfl
  intro m hm
  rw [e] at hm
  exact h.noPresel m hm

/-- **mm_split_run_after_edit**: between two `run()` calls the user moves the atoms and / or changes the cell
    (`userEdit`, QModel/Machine.lean); the next `run a; run b` is `run (a+b)` — here `validate_simulation()` is NOT a
    no-op at the start of the first run, and still one at the start of the second. -/
theorem mm_split_run_after_edit (sim : Sim) (hb : sim.ens ≠ .base) (hng : sim.ens ≠ .grand) (sched : Nat → ATrial)
    (ivs : List Int) (lg : Option Nat) (a b : Nat) (s : RunLoop.Sim State) (p : List V3) (c : Option V3)
    (hbd : Boundary sim s.st) (hok : AHistoryOK sim (slice sched s.stepCount a) (newRun sim s.st p c)) :
    RunLoop.run (mmCfg sim sched ivs lg .fixed) b
        (RunLoop.run (mmCfg sim sched ivs lg .fixed) a { s with st := userEdit s.st p c })
      = RunLoop.run (mmCfg sim sched ivs lg .fixed) (a + b) { s with st := userEdit s.st p c } :=
  mm_split_run_unvalidated sim hb hng sched ivs lg a b { s with st := userEdit s.st p c }
    (boundary_newRun sim hng s.st p c hbd) hok

/-- **mm_split_run_min**: only the FIRST segment has to be admissible -/
theorem mm_split_run_min (sim : Sim) (hb : sim.ens ≠ .base) (hng : sim.ens ≠ .grand) (sched : Nat → ATrial)
    (ivs : List Int) (lg : Option Nat) (a b : Nat) (s : RunLoop.Sim State)
    (hbd : Boundary sim s.st) (hok : AHistoryOK sim (slice sched s.stepCount a) s.st) :
    RunLoop.run (mmCfg sim sched ivs lg .fixed) b (RunLoop.run (mmCfg sim sched ivs lg .fixed) a s)
      = RunLoop.run (mmCfg sim sched ivs lg .fixed) (a + b) s :=
  RunLoop.split_run_upto _ rfl (mm_stable_upto sim hb hng sched ivs lg .fixed (s.stepCount + a)) a b s
    (Nat.le_refl _) (PA_start sim sched _ a s.st hbd hok)

/-- **mm_split_run** (canonical, Hamiltonian, isobaric / isotension drivers; fixed loop): from a trial boundary, with an
    admissible schedule for the `a + b` steps, `run a; run b ≡ run (a+b)` for all `a, b ≥ 0` — equality of the whole
    simulation object: M-machine state (atoms, move objects with their labels, context, script), `step_count`,
    `max_steps`, `_started`, number of executed steps, and the complete observer trace (which records the M-machine state
    at every observer call). No hypothesis on `validate` is left. -/
theorem mm_split_run (sim : Sim) (hb : sim.ens ≠ .base) (hng : sim.ens ≠ .grand) (sched : Nat → ATrial)
    (ivs : List Int) (lg : Option Nat) (a b : Nat) (s : RunLoop.Sim State)
    (hbd : Boundary sim s.st) (hok : AHistoryOK sim (slice sched s.stepCount (a + b)) s.st) :
    RunLoop.run (mmCfg sim sched ivs lg .fixed) b (RunLoop.run (mmCfg sim sched ivs lg .fixed) a s)
      = RunLoop.run (mmCfg sim sched ivs lg .fixed) (a + b) s := by
  rw [slice_add] at hok
  exact mm_split_run_min sim hb hng sched ivs lg a b s hbd (aHistoryOK_append sim _ _ _ hok).1

/-- `mm_split_run` field by field -/
theorem mm_split_run_fields (sim : Sim) (hb : sim.ens ≠ .base) (hng : sim.ens ≠ .grand) (sched : Nat → ATrial)
    (ivs : List Int) (lg : Option Nat) (a b : Nat) (s : RunLoop.Sim State)
    (hbd : Boundary sim s.st) (hok : AHistoryOK sim (slice sched s.stepCount (a + b)) s.st) :
    let cfg := mmCfg sim sched ivs lg .fixed
    let split := RunLoop.run cfg b (RunLoop.run cfg a s)
    let whole := RunLoop.run cfg (a + b) s
    split.st.atoms = whole.st.atoms ∧ split.st.heap = whole.st.heap ∧ split.st.ctx = whole.st.ctx ∧
    split.st.inp = whole.st.inp ∧ split.stepCount = whole.stepCount ∧ split.stepCount = s.stepCount + (a + b) ∧
    split.performed = whole.performed ∧ split.trace = whole.trace ∧
    whole.st = runA sim (slice sched s.stepCount (a + b)) s.st := by
  intro cfg split whole
  have h : split = whole := mm_split_run sim hb hng sched ivs lg a b s hbd hok
  have hst : whole.st = runA sim (slice sched s.stepCount (a + b)) s.st := by
    show (RunLoop.run (mmCfg sim sched ivs lg .fixed) (a + b) s).st = _
    rw [mm_run_st, validate_of_boundary sim s.st hbd]
  refine ⟨by rw [h], by rw [h], by rw [h], by rw [h], by rw [h], ?_, by rw [h], by rw [h], hst⟩
  rw [h]; exact RunLoop.run_stepCount _ _ _

/-- any consumer of `irun` / `srun` -/
theorem mm_split_irun (sim : Sim) (hb : sim.ens ≠ .base) (hng : sim.ens ≠ .grand) (sched : Nat → ATrial)
    (ivs : List Int) (lg : Option Nat) (c : Bool) (a b : Nat) (s : RunLoop.Sim State)
    (hbd : Boundary sim s.st) (hok : AHistoryOK sim (slice sched s.stepCount a) s.st) :
    RunLoop.irunWith (mmCfg sim sched ivs lg .fixed) c b (RunLoop.irunWith (mmCfg sim sched ivs lg .fixed) c a s)
      = RunLoop.irunWith (mmCfg sim sched ivs lg .fixed) c (a + b) s :=
  RunLoop.split_irun_upto _ rfl (mm_stable_upto sim hb hng sched ivs lg .fixed (s.stepCount + a)) c a b s
    (Nat.le_refl _) (PA_start sim sched _ a s.st hbd hok)

/-- any number of segments, zeros included -/
theorem mm_split_many (sim : Sim) (hb : sim.ens ≠ .base) (hng : sim.ens ≠ .grand) (sched : Nat → ATrial)
    (ivs : List Int) (lg : Option Nat) (n : Nat) (segs : List Nat) (s : RunLoop.Sim State)
    (hbd : Boundary sim s.st) (hok : AHistoryOK sim (slice sched s.stepCount (n + segs.sum)) s.st) :
    RunLoop.runs (mmCfg sim sched ivs lg .fixed) (n :: segs) s
      = RunLoop.run (mmCfg sim sched ivs lg .fixed) (n + segs.sum) s :=
  RunLoop.split_many_upto _ rfl (mm_stable_upto sim hb hng sched ivs lg .fixed (s.stepCount + (n + segs.sum))) n segs s
    (Nat.le_refl _) (PA_start sim sched _ _ s.st hbd hok)

/-- the loop of the pinned tree (either variant, in fact): correct when the step-0 block cannot be re-entered -/
theorem mm_split_run_coded_partial (sim : Sim) (hb : sim.ens ≠ .base) (hng : sim.ens ≠ .grand) (sched : Nat → ATrial)
    (ivs : List Int) (lg : Option Nat) (v : Variant) (a b : Nat) (s : RunLoop.Sim State)
    (hbd : Boundary sim s.st) (hok : AHistoryOK sim (slice sched s.stepCount a) s.st) (h : 0 < a ∨ 0 < s.stepCount) :
    RunLoop.run (mmCfg sim sched ivs lg v) b (RunLoop.run (mmCfg sim sched ivs lg v) a s)
      = RunLoop.run (mmCfg sim sched ivs lg v) (a + b) s :=
  RunLoop.split_run_coded_partial_upto _ (mm_stable_upto sim hb hng sched ivs lg v (s.stepCount + a)) a b s
    (Nat.le_refl _) (PA_start sim sched _ a s.st hbd hok) h

/-- a schedule admissible for ever: one hypothesis for every `a`, `b` -/
theorem mm_split_run_forever (sim : Sim) (hb : sim.ens ≠ .base) (hng : sim.ens ≠ .grand) (sched : Nat → ATrial)
    (ivs : List Int) (lg : Option Nat) (s : RunLoop.Sim State) (h : AdmissibleA sim sched s.stepCount s.st) (a b : Nat) :
    RunLoop.run (mmCfg sim sched ivs lg .fixed) b (RunLoop.run (mmCfg sim sched ivs lg .fixed) a s)
      = RunLoop.run (mmCfg sim sched ivs lg .fixed) (a + b) s :=
  RunLoop.split_run_on _ rfl (mm_stable_on sim hb hng sched ivs lg .fixed) a b s
    (by show AdmissibleA sim sched s.stepCount (validate sim s.st); rw [validate_of_boundary sim s.st h.1]; exact h)

/-! ### the split theorems, grand-canonical driver -/

theorem PG_mk (sim : Sim) (sched : Nat → GTrial) (k a : Nat) (y : State) (hbd : Boundary sim y)
    (hok : GHistoryOK sim (slice sched k a) y) : PG sim sched (k + a) k y := by
  refine ⟨hbd, ?_⟩
  have : k + a - k = a := by omega
  rw [this]; exact hok

theorem PG_start (sim : Sim) (sched : Nat → GTrial) (k a : Nat) (x : State) (hbd : Boundary sim x)
    (hok : GHistoryOK sim (slice sched k a) x) : PG sim sched (k + a) k (validate sim x) := by
  rw [validate_of_boundary sim x hbd]; exact PG_mk sim sched k a x hbd hok

theorem mm_split_run_grand_unvalidated (sim : Sim) (he : sim.ens = .grand) (sched : Nat → GTrial)
    (ivs : List Int) (lg : Option Nat) (a b : Nat) (s : RunLoop.Sim State)
    (hbd : Boundary sim (validate sim s.st))
    (hok : GHistoryOK sim (slice sched s.stepCount a) (validate sim s.st)) :
    RunLoop.run (mmCfgG sim sched ivs lg .fixed) b (RunLoop.run (mmCfgG sim sched ivs lg .fixed) a s)
      = RunLoop.run (mmCfgG sim sched ivs lg .fixed) (a + b) s :=
  RunLoop.split_run_upto _ rfl (mm_stable_upto_grand sim he sched ivs lg .fixed (s.stepCount + a)) a b s
    (Nat.le_refl _) (PG_mk sim sched _ a _ hbd hok)

theorem mm_split_run_grand_min (sim : Sim) (he : sim.ens = .grand) (sched : Nat → GTrial)
    (ivs : List Int) (lg : Option Nat) (a b : Nat) (s : RunLoop.Sim State)
    (hbd : Boundary sim s.st) (hok : GHistoryOK sim (slice sched s.stepCount a) s.st) :
    RunLoop.run (mmCfgG sim sched ivs lg .fixed) b (RunLoop.run (mmCfgG sim sched ivs lg .fixed) a s)
      = RunLoop.run (mmCfgG sim sched ivs lg .fixed) (a + b) s :=
  RunLoop.split_run_upto _ rfl (mm_stable_upto_grand sim he sched ivs lg .fixed (s.stepCount + a)) a b s
    (Nat.le_refl _) (PG_start sim sched _ a s.st hbd hok)

/-- **mm_split_run_grand** (grand-canonical driver; fixed loop): from a trial boundary, with an admissible schedule of
    displacement-type trials, insertions and deletions for the `a + b` steps, `run a; run b ≡ run (a+b)` for all
    `a, b ≥ 0` — equality of the whole simulation object. -/
theorem mm_split_run_grand (sim : Sim) (he : sim.ens = .grand) (sched : Nat → GTrial)
    (ivs : List Int) (lg : Option Nat) (a b : Nat) (s : RunLoop.Sim State)
    (hbd : Boundary sim s.st) (hok : GHistoryOK sim (slice sched s.stepCount (a + b)) s.st) :
    RunLoop.run (mmCfgG sim sched ivs lg .fixed) b (RunLoop.run (mmCfgG sim sched ivs lg .fixed) a s)
      = RunLoop.run (mmCfgG sim sched ivs lg .fixed) (a + b) s := by
  rw [slice_add] at hok
  exact mm_split_run_grand_min sim he sched ivs lg a b s hbd (gHistoryOK_append sim _ _ _ hok).1

theorem mm_split_run_grand_fields (sim : Sim) (he : sim.ens = .grand) (sched : Nat → GTrial)
    (ivs : List Int) (lg : Option Nat) (a b : Nat) (s : RunLoop.Sim State)
    (hbd : Boundary sim s.st) (hok : GHistoryOK sim (slice sched s.stepCount (a + b)) s.st) :
    let cfg := mmCfgG sim sched ivs lg .fixed
    let split := RunLoop.run cfg b (RunLoop.run cfg a s)
    let whole := RunLoop.run cfg (a + b) s
    split.st.atoms = whole.st.atoms ∧ split.st.heap = whole.st.heap ∧ split.st.ctx = whole.st.ctx ∧
    split.st.inp = whole.st.inp ∧ split.stepCount = whole.stepCount ∧ split.stepCount = s.stepCount + (a + b) ∧
    split.performed = whole.performed ∧ split.trace = whole.trace ∧
    whole.st = runG sim (slice sched s.stepCount (a + b)) s.st := by
  intro cfg split whole
  have h : split = whole := mm_split_run_grand sim he sched ivs lg a b s hbd hok
  have hst : whole.st = runG sim (slice sched s.stepCount (a + b)) s.st := by
    show (RunLoop.run (mmCfgG sim sched ivs lg .fixed) (a + b) s).st = _
    rw [mm_run_st_grand, validate_of_boundary sim s.st hbd]
  refine ⟨by rw [h], by rw [h], by rw [h], by rw [h], by rw [h], ?_, by rw [h], by rw [h], hst⟩
  rw [h]; exact RunLoop.run_stepCount _ _ _

theorem mm_split_irun_grand (sim : Sim) (he : sim.ens = .grand) (sched : Nat → GTrial)
    (ivs : List Int) (lg : Option Nat) (c : Bool) (a b : Nat) (s : RunLoop.Sim State)
    (hbd : Boundary sim s.st) (hok : GHistoryOK sim (slice sched s.stepCount a) s.st) :
    RunLoop.irunWith (mmCfgG sim sched ivs lg .fixed) c b (RunLoop.irunWith (mmCfgG sim sched ivs lg .fixed) c a s)
      = RunLoop.irunWith (mmCfgG sim sched ivs lg .fixed) c (a + b) s :=
  RunLoop.split_irun_upto _ rfl (mm_stable_upto_grand sim he sched ivs lg .fixed (s.stepCount + a)) c a b s
    (Nat.le_refl _) (PG_start sim sched _ a s.st hbd hok)

theorem mm_split_many_grand (sim : Sim) (he : sim.ens = .grand) (sched : Nat → GTrial)
    (ivs : List Int) (lg : Option Nat) (n : Nat) (segs : List Nat) (s : RunLoop.Sim State)
    (hbd : Boundary sim s.st) (hok : GHistoryOK sim (slice sched s.stepCount (n + segs.sum)) s.st) :
    RunLoop.runs (mmCfgG sim sched ivs lg .fixed) (n :: segs) s
      = RunLoop.run (mmCfgG sim sched ivs lg .fixed) (n + segs.sum) s :=
  RunLoop.split_many_upto _ rfl (mm_stable_upto_grand sim he sched ivs lg .fixed (s.stepCount + (n + segs.sum))) n segs s
    (Nat.le_refl _) (PG_start sim sched _ _ s.st hbd hok)

theorem mm_split_run_coded_partial_grand (sim : Sim) (he : sim.ens = .grand) (sched : Nat → GTrial)
    (ivs : List Int) (lg : Option Nat) (v : Variant) (a b : Nat) (s : RunLoop.Sim State)
    (hbd : Boundary sim s.st) (hok : GHistoryOK sim (slice sched s.stepCount a) s.st) (h : 0 < a ∨ 0 < s.stepCount) :
    RunLoop.run (mmCfgG sim sched ivs lg v) b (RunLoop.run (mmCfgG sim sched ivs lg v) a s)
      = RunLoop.run (mmCfgG sim sched ivs lg v) (a + b) s :=
  RunLoop.split_run_coded_partial_upto _ (mm_stable_upto_grand sim he sched ivs lg v (s.stepCount + a)) a b s
    (Nat.le_refl _) (PG_start sim sched _ a s.st hbd hok) h

theorem mm_split_run_forever_grand (sim : Sim) (he : sim.ens = .grand) (sched : Nat → GTrial)
    (ivs : List Int) (lg : Option Nat) (s : RunLoop.Sim State) (h : AdmissibleG sim sched s.stepCount s.st) (a b : Nat) :
    RunLoop.run (mmCfgG sim sched ivs lg .fixed) b (RunLoop.run (mmCfgG sim sched ivs lg .fixed) a s)
      = RunLoop.run (mmCfgG sim sched ivs lg .fixed) (a + b) s :=
  RunLoop.split_run_on _ rfl (mm_stable_on_grand sim he sched ivs lg .fixed) a b s
    (by show AdmissibleG sim sched s.stepCount (validate sim s.st); rw [validate_of_boundary sim s.st h.1]; exact h)

/-! ## 3. non-vacuity -/

/-- a trial that is admissible in every state: the empty plain composite -/
def idleA : ATrial := ⟨.pos (.plain []), true, {}⟩

/-- canonical driver: the history `c7APre ++ c7APost` of QProps/C07m.lean (accepted composite trial, rejected composite
    trial, accepted bare move), then idle -/
def c15Sched (k : Nat) : ATrial := (c7APre ++ c7APost).getD k idleA

/-- a logger every step, an observer every 2 steps, one that fires once after step 3 -/
def c15Cfg : Cfg State := mmCfg exSim c15Sched [1, 2, -3] (some 0) .fixed

theorem c15_slice : slice c15Sched 0 (1 + 2) = c7APre ++ c7APost := rfl

theorem c15_historyOK : AHistoryOK exSim (slice c15Sched (RunLoop.fresh exState0).stepCount (1 + 2))
    (RunLoop.fresh exState0).st := c7A_historyOK

/-- `mm_split_run` instantiated: `run 1; run 2 ≡ run 3` on the canonical example -/
theorem c15_split : RunLoop.run c15Cfg 2 (RunLoop.run c15Cfg 1 (RunLoop.fresh exState0))
    = RunLoop.run c15Cfg (1 + 2) (RunLoop.fresh exState0) :=
  mm_split_run exSim (by decide) (by decide) c15Sched [1, 2, -3] (some 0) 1 2 (RunLoop.fresh exState0)
    exState0_boundary c15_historyOK

-- the run does change the atoms, in both segments, and the observers fire
example : (RunLoop.run c15Cfg 3 (RunLoop.fresh exState0)).st.atoms ≠ exState0.atoms := by decide
example : (RunLoop.run c15Cfg 1 (RunLoop.fresh exState0)).st.atoms ≠ exState0.atoms ∧
    (RunLoop.run c15Cfg 2 (RunLoop.run c15Cfg 1 (RunLoop.fresh exState0))).st.atoms
      ≠ (RunLoop.run c15Cfg 1 (RunLoop.fresh exState0)).st.atoms := by decide
example : (RunLoop.run c15Cfg 2 (RunLoop.run c15Cfg 1 (RunLoop.fresh exState0))).st.atoms.rows.map (·.pos)
    = [(0,3,0), (4,0,7), (4,0,0)] := by decide
example : RunLoop.callsOf 0 (RunLoop.run c15Cfg 2 (RunLoop.run c15Cfg 1 (RunLoop.fresh exState0))).trace = [0, 1, 2, 3] ∧
    RunLoop.callsOf 1 (RunLoop.run c15Cfg 2 (RunLoop.run c15Cfg 1 (RunLoop.fresh exState0))).trace = [0, 2] ∧
    RunLoop.callsOf 2 (RunLoop.run c15Cfg 2 (RunLoop.run c15Cfg 1 (RunLoop.fresh exState0))).trace = [3] ∧
    (RunLoop.run c15Cfg 2 (RunLoop.run c15Cfg 1 (RunLoop.fresh exState0))).performed = 3 := by decide
-- the whole objects are equal, computed independently of the theorem
example : RunLoop.run c15Cfg 2 (RunLoop.run c15Cfg 1 (RunLoop.fresh exState0))
    = RunLoop.run c15Cfg 3 (RunLoop.fresh exState0) := by decide

-- the user shifts the atoms before the run: `validate_simulation()` is not a no-op at the start, and the split still holds
def c15Edited : RunLoop.Sim State :=
  { RunLoop.fresh exState0 with st := userEdit exState0 [(0,0,1), (2,0,1), (4,0,1)] none }

example : validate exSim c15Edited.st ≠ c15Edited.st := by decide

theorem c15_split_after_edit : RunLoop.run c15Cfg 2 (RunLoop.run c15Cfg 1 c15Edited)
    = RunLoop.run c15Cfg (1 + 2) c15Edited :=
  mm_split_run_after_edit exSim (by decide) (by decide) c15Sched [1, 2, -3] (some 0) 1 2 (RunLoop.fresh exState0)
    [(0,0,1), (2,0,1), (4,0,1)] none exState0_boundary (by
      have e : c15Sched 0 = ⟨.pos (.compDisp [0, 0]), true,
          { draws := [1, 0], ops := [(1,1,1), (2,0,0), (0,3,0)], checks := [false, true, true] }⟩ := rfl
      show AHistoryOK exSim [c15Sched 0] _
      rw [e]
      simp only [AHistoryOK, AKindOK, PosTree]
      decide)

example : (RunLoop.run c15Cfg 3 c15Edited).st.atoms.rows.map (·.pos) = [(0,3,1), (4,0,8), (4,0,1)] := by decide

theorem aHistoryOK_app (sim : Sim) (pre post : List ATrial) (s : State) (h1 : AHistoryOK sim pre s)
    (h2 : AHistoryOK sim post (runA sim pre s)) : AHistoryOK sim (pre ++ post) s := by
  induction pre generalizing s with
  | nil => exact h2
  | cons t pre ih => exact ⟨h1.1, ih _ h1.2 h2⟩

/-- the idle tail makes the schedule admissible for ever -/
theorem c15_admissible : AdmissibleA exSim c15Sched 0 exState0 := by
  refine ⟨exState0_boundary, ?_⟩
  have idle : ∀ n k x, 3 ≤ k → AHistoryOK exSim (slice c15Sched k n) x := by
    intro n
    induction n with
    | zero => intro k x _; trivial
    | succ n ih =>
      intro k x hk
      have hs : c15Sched k = idleA := by
        unfold c15Sched
        rw [List.getD_eq_getElem?_getD, List.getElem?_eq_none (by simp [c7APre, c7APost]; omega)]
        rfl
      refine ⟨?_, ih _ _ (by omega)⟩
      rw [hs]
      exact ⟨fun r hr => by simp [Tree.refs] at hr, fun r hr => by cases hr⟩
  intro n
  have h3 := c7A_historyOK
  rcases Nat.lt_or_ge n 3 with hn | hn
  · have e : 3 = n + (3 - n) := by omega
    have : AHistoryOK exSim (slice c15Sched 0 (n + (3 - n))) exState0 := by rw [← e]; exact h3
    rw [slice_add] at this
    exact (aHistoryOK_append exSim _ _ _ this).1
  · have e : n = 3 + (n - 3) := by omega
    rw [e, slice_add]
    exact aHistoryOK_app exSim _ _ _ h3 (idle _ _ _ (by omega))

example (a b : Nat) : RunLoop.run c15Cfg b (RunLoop.run c15Cfg a (RunLoop.fresh exState0))
    = RunLoop.run c15Cfg (a + b) (RunLoop.fresh exState0) :=
  mm_split_run_forever exSim (by decide) (by decide) c15Sched [1, 2, -3] (some 0) (RunLoop.fresh exState0)
    c15_admissible a b

/-- a trial of the grand-canonical schedule beyond the scripted ones -/
def idleG : GTrial := ⟨.pos (.plain []), true, {}⟩

/-- grand-canonical driver: the history `c7Pre ++ c7Post` of QProps/C07m.lean (accepted displacement, failed composite
    displacement | accepted insertion, rejected deletion, accepted composite displacement, accepted deletion) -/
def c15SchedG (k : Nat) : GTrial := (c7Pre ++ c7Post).getD k idleG

def c15CfgG : Cfg State := mmCfgG c7Sim c15SchedG [1, 2, -3] (some 0) .fixed

theorem c15_historyOK_grand : GHistoryOK c7Sim (slice c15SchedG (RunLoop.fresh c7G0).stepCount (2 + 4))
    (RunLoop.fresh c7G0).st := c7_historyOK

/-- `mm_split_run_grand` instantiated: `run 2; run 4 ≡ run 6` on the grand-canonical example -/
theorem c15_split_grand : RunLoop.run c15CfgG 4 (RunLoop.run c15CfgG 2 (RunLoop.fresh c7G0))
    = RunLoop.run c15CfgG (2 + 4) (RunLoop.fresh c7G0) :=
  mm_split_run_grand c7Sim rfl c15SchedG [1, 2, -3] (some 0) 2 4 (RunLoop.fresh c7G0) c7G0_boundary c15_historyOK_grand

/-- … and `run 1; run 2 ≡ run 3` (only the first three trials need to be admissible) -/
theorem c15_split_grand_12 : RunLoop.run c15CfgG 2 (RunLoop.run c15CfgG 1 (RunLoop.fresh c7G0))
    = RunLoop.run c15CfgG (1 + 2) (RunLoop.fresh c7G0) := by
  have h : GHistoryOK c7Sim (slice c15SchedG 0 (3 + 3)) c7G0 := c7_historyOK
  rw [slice_add] at h
  exact mm_split_run_grand c7Sim rfl c15SchedG [1, 2, -3] (some 0) 1 2 (RunLoop.fresh c7G0) c7G0_boundary
    (gHistoryOK_append c7Sim _ _ _ h).1

-- atoms change: 2 atoms → (run 2) 2 atoms, moved → (run 4) 3 atoms; the particle counter follows
example : (RunLoop.run c15CfgG 2 (RunLoop.fresh c7G0)).st.atoms ≠ c7G0.atoms ∧
    (RunLoop.run c15CfgG 4 (RunLoop.run c15CfgG 2 (RunLoop.fresh c7G0))).st.atoms
      ≠ (RunLoop.run c15CfgG 2 (RunLoop.fresh c7G0)).st.atoms ∧
    (RunLoop.run c15CfgG 4 (RunLoop.run c15CfgG 2 (RunLoop.fresh c7G0))).st.atoms.rows.length = 3 ∧
    (RunLoop.run c15CfgG 3 (RunLoop.fresh c7G0)).st.atoms.rows.length = 4 ∧
    (RunLoop.run c15CfgG 6 (RunLoop.fresh c7G0)).stepCount = 6 := by decide

end MM
