import QProofs.CalcAlias
import QProps.C04h
/-!
# C04 — cached result ARRAYS are never those of another configuration

`Calc.lean` proves the claim for the energy, a value. For arrays (`forces`, per-atom energies, stress) the question is
also WHO OWNS THEM: ASE's `EMT` hands out its internal buffer and overwrites it at the next calculation.

* `ainv_trial_of` — with results remembered by value (`detach_results`, the repaired behaviour), after any trial of any
  driver (same three restoration facts as `einv_trial_of`), accepted, rejected or failed, and for a calculator that
  returns fresh arrays or writes in place: `atoms.get_forces()` is the from-scratch force array of the current atoms,
  and what the context remembers is an array of its own holding exactly that.
* `forces_history` — the same at every position of any history of displacement-type, cell and Hamiltonian trials.
* `forces_stale_when_aliased` — the pinned behaviour (`last_results = calc.results`) with an in-place calculator:
  a two-trial history (accept, reject) after which `get_forces()` returns the forces of the REJECTED configuration
  (the genuine defect repaired by the commit "remember calculator results by value"; replayed on the real code by
  `seeded/C04-results-alias`).
-/
namespace MC
open MM

structure AInv (s : AState) : Prop where
  einv : EInv s.cs
  ref : ∃ r, s.x.ref = some r ∧ deref s.x.buf r = forcesOf s.cs.m.atoms
  last : s.x.lastRef = some (.own (forcesOf s.cs.m.atoms))

/-- what the user reads between trials -/
theorem aForces_of_ainv (inplace : Bool) (s : AState) (h : AInv s) :
    aForces inplace s = some (forcesOf s.cs.m.atoms) := by
  obtain ⟨⟨r', hr', hd'⟩, _⟩ :=
    aliasAfter_spec inplace s.cs.cal s.cs.m.atoms s.cs.m.atoms s.x (Or.inr ⟨h.einv.fresh, h.ref⟩)
  unfold aForces
  simp only [hr', Option.map_some, hd']

/-- the run starts with consistent arrays: a calculator without results, or one whose arrays belong to its cache -/
theorem ainv_validate (inplace : Bool) (sim : Sim) (s : AState) (hv : Valid s.cs.cal)
    (h : s.cs.cal.results = none ∨
      ∃ a0, Fresh s.cs.cal a0 ∧ ∃ r, s.x.ref = some r ∧ deref s.x.buf r = forcesOf a0) :
    AInv (avalidate true inplace sim s) := by
  have hE := einv_validate sim s.cs hv
  have hm : (cvalidate sim s.cs).m = validate sim s.cs.m := rfl
  have hspec : (∃ r', (aliasAfter inplace s.cs.cal (validate sim s.cs.m).atoms s.x).ref = some r' ∧
      deref (aliasAfter inplace s.cs.cal (validate sim s.cs.m).atoms s.x).buf r' = forcesOf (validate sim s.cs.m).atoms) := by
    rcases h with h | ⟨a0, hf, hr⟩
    · exact (aliasAfter_spec inplace s.cs.cal (validate sim s.cs.m).atoms _ s.x (Or.inl h)).1
    · exact (aliasAfter_spec inplace s.cs.cal a0 _ s.x (Or.inr ⟨hf, hr⟩)).1
  obtain ⟨r', hr', hd'⟩ := hspec
  refine ⟨hE, ?_, ?_⟩
  · refine ⟨.own (forcesOf (validate sim s.cs.m).atoms), ?_, rfl⟩
    simp only [avalidate, hr', Option.map_some, detach_true, hd']
  · simp only [avalidate, hr', Option.map_some, detach_true, hd']
    rfl

/-- the state right after the trial (before the logger's read) -/
theorem atrial_mid (inplace : Bool) (sim : Sim) (t : Tree) (v : Bool) (s : AState) (h : AInv s)
    (hfail : (callTree t s.cs.m).1 = false → (callTree t s.cs.m).2.atoms = s.cs.m.atoms)
    (hrej : (callTree t s.cs.m).1 = true → (revertState sim (callTree t s.cs.m).2).atoms = s.cs.m.atoms)
    (hrc : (callTree t s.cs.m).1 = true → ∀ c : CalcS, Fresh c (callTree t s.cs.m).2.atoms →
            Fresh (revertCalc sim.ens c (some (energy s.cs.m.atoms)) s.cs.m.atoms) s.cs.m.atoms) :
    let A := (atrial true inplace sim t v s).2
    Fresh A.cs.cal A.cs.m.atoms ∧ (∃ r, A.x.ref = some r ∧ deref A.x.buf r = forcesOf A.cs.m.atoms) ∧
    A.x.lastRef = some (.own (forcesOf A.cs.m.atoms)) := by
  obtain ⟨heinv, href, hlast⟩ := h
  unfold atrial ctrial
  rcases hct : callTree t s.cs.m with ⟨ok, s1⟩
  rw [hct] at hfail hrej hrc
  simp only [] at hfail hrej hrc ⊢
  cases ok with
  | false =>
    simp only [Bool.false_eq_true, if_false]
    have ha : s1.atoms = s.cs.m.atoms := hfail rfl
    refine ⟨fresh_congr _ _ _ ha heinv.fresh, ?_, ?_⟩
    · show ∃ r, s.x.ref = some r ∧ deref s.x.buf r = forcesOf s1.atoms
      rw [ha]; exact href
    · show s.x.lastRef = some (.own (forcesOf s1.atoms))
      rw [ha]; exact hlast
  | true =>
    have hv0 : Valid s.cs.cal := fresh_valid _ _ heinv.fresh
    obtain ⟨_, f1, v1, _, _⟩ := getEnergy_spec s.cs.cal s1.atoms hv0
    obtain ⟨⟨r1, hr1, hd1⟩, hl1⟩ :=
      aliasAfter_spec inplace s.cs.cal s.cs.m.atoms s1.atoms s.x (Or.inr ⟨heinv.fresh, href⟩)
    cases v with
    | true =>
      simp only [if_true]
      obtain ⟨_, f2, _, _, _⟩ := getEnergy_spec (getEnergy s.cs.cal s1.atoms).2 s1.atoms v1
      obtain ⟨⟨r2, hr2, hd2⟩, _⟩ :=
        aliasAfter_spec inplace (getEnergy s.cs.cal s1.atoms).2 s1.atoms s1.atoms
          (aliasAfter inplace s.cs.cal s1.atoms s.x) (Or.inr ⟨f1, r1, hr1, hd1⟩)
      have hat : (saveState sim s1).atoms = s1.atoms := saveState_atoms sim s1
      refine ⟨fresh_congr _ _ _ hat f2, ?_, ?_⟩
      · refine ⟨.own (forcesOf s1.atoms), ?_, ?_⟩
        · simp only [hr2, Option.map_some, detach_true, hd2]
        · show forcesOf s1.atoms = forcesOf (saveState sim s1).atoms
          rw [hat]
      · show _ = some (FRef.own (forcesOf (saveState sim s1).atoms))
        simp only [hr2, Option.map_some, detach_true, hd2, hat]
    | false =>
      simp only [if_true, Bool.false_eq_true, if_false]
      have hat : (revertState sim s1).atoms = s.cs.m.atoms := hrej rfl
      have hrc' : Fresh (revertCalc sim.ens (getEnergy s.cs.cal s1.atoms).2 s.cs.lastResults (revertState sim s1).atoms)
          (revertState sim s1).atoms := by
        rw [hat, heinv.lastR]
        exact hrc rfl _ f1
      refine ⟨hrc', ?_, ?_⟩
      · refine ⟨.own (forcesOf s.cs.m.atoms), ?_, ?_⟩
        · show (aliasAfter inplace s.cs.cal s1.atoms s.x).lastRef = _
          rw [hl1]; exact hlast
        · show forcesOf s.cs.m.atoms = forcesOf (revertState sim s1).atoms
          rw [hat]
      · show (aliasAfter inplace s.cs.cal s1.atoms s.x).lastRef = some (.own (forcesOf (revertState sim s1).atoms))
        rw [hl1, hat]; exact hlast

/-- **ainv_trial_of** -/
theorem ainv_trial_of (inplace : Bool) (sim : Sim) (t : Tree) (v : Bool) (s : AState) (h : AInv s)
    (hfail : (callTree t s.cs.m).1 = false → (callTree t s.cs.m).2.atoms = s.cs.m.atoms)
    (hrej : (callTree t s.cs.m).1 = true → (revertState sim (callTree t s.cs.m).2).atoms = s.cs.m.atoms)
    (hrc : (callTree t s.cs.m).1 = true → ∀ c : CalcS, Fresh c (callTree t s.cs.m).2.atoms →
            Fresh (revertCalc sim.ens c (some (energy s.cs.m.atoms)) s.cs.m.atoms) s.cs.m.atoms) :
    let s' := alogRead inplace (atrial true inplace sim t v s).2
    AInv s' ∧ aForces inplace s' = some (forcesOf s'.cs.m.atoms) ∧ s'.cs = (logRead (ctrial sim t v s.cs).2).2 := by
  intro s'
  suffices hs : AInv s' ∧ s'.cs = (logRead (ctrial sim t v s.cs).2).2 from
    ⟨hs.1, aForces_of_ainv inplace s' hs.1, hs.2⟩
  have hE := (einv_trial_of sim t v s.cs h.einv hfail hrej hrc).1
  obtain ⟨m1, m2, m3⟩ := atrial_mid inplace sim t v s h hfail hrej hrc
  have hcs : s'.cs = (logRead (ctrial sim t v s.cs).2).2 := by
    show (logRead (atrial true inplace sim t v s).2.cs).2 = _
    congr 2
    unfold atrial
    rcases callTree t s.cs.m with ⟨ok, s1⟩
    cases ok <;> cases v <;> rfl
  obtain ⟨a1, a2⟩ := aliasAfter_spec inplace (atrial true inplace sim t v s).2.cs.cal
    (atrial true inplace sim t v s).2.cs.m.atoms (atrial true inplace sim t v s).2.cs.m.atoms
    (atrial true inplace sim t v s).2.x (Or.inr ⟨m1, m2⟩)
  refine ⟨⟨by rw [hcs]; exact hE, a1, ?_⟩, hcs⟩
  show (aliasAfter inplace _ _ (atrial true inplace sim t v s).2.x).lastRef = _
  rw [a2]; exact m3

/-! ### histories -/

/-- one trial, the logger's read, and what `get_forces()` then returns -/
def fstep (inplace : Bool) (sim : Sim) (t : ATrial) (s : AState) : (Outcome × Option (List V3)) × AState :=
  let r := atrial true inplace sim t.tree t.verdict { s with cs := withInp s.cs t.inp }
  let s' := alogRead inplace r.2
  ((r.1, aForces inplace s'), s')

def runF (inplace : Bool) (sim : Sim) : List ATrial → AState → AState
  | [], s => s
  | t :: ts, s => runF inplace sim ts (fstep inplace sim t s).2

def AllForcesFresh (inplace : Bool) (sim : Sim) : List ATrial → AState → Prop
  | [], _ => True
  | t :: ts, s =>
    (fstep inplace sim t s).1.2 = some (forcesOf (fstep inplace sim t s).2.cs.m.atoms) ∧
    AllForcesFresh inplace sim ts (fstep inplace sim t s).2

theorem fstep_spec (inplace : Bool) (sim : Sim)
    (he : sim.ens = .canonical ∨ sim.ens = .hamiltonian ∨ sim.ens = .isobaric)
    (t : ATrial) (s : AState) (hinv : Inv sim.ens s.cs.m) (h : AInv s) (hok : AKindOK sim s.cs.m t.kind) :
    AInv (fstep inplace sim t s).2 ∧
    (fstep inplace sim t s).1.2 = some (forcesOf (fstep inplace sim t s).2.cs.m.atoms) ∧
    (fstep inplace sim t s).2.cs = (cstep sim t s.cs).2 := by
  have hinv' : Inv sim.ens (withInp s.cs t.inp).m := ⟨hinv.1, hinv.2, hinv.3, hinv.4, hinv.5⟩
  have h' : AInv { s with cs := withInp s.cs t.inp } := ⟨⟨h.einv.1, h.einv.2, h.einv.3⟩, h.ref, h.last⟩
  have hok' : AKindOK sim (withInp s.cs t.inp).m t.kind := by
    cases hk : t.kind with
    | pos tr => rw [hk] at hok; exact hok
    | cell r => rw [hk] at hok; exact hok
    | ham r => rw [hk] at hok; exact hok
  obtain ⟨h1, h2, h3⟩ := trial_hyps_A sim he t.kind (withInp s.cs t.inp).m hinv' hok'
  have htree : ATrial.tree { kind := t.kind, verdict := true, inp := (withInp s.cs t.inp).m.inp } = t.tree := rfl
  simp only [htree] at h1 h2 h3
  exact ainv_trial_of inplace sim t.tree t.verdict { s with cs := withInp s.cs t.inp } h' h1 h2 h3

/-- **forces_history**: at every position of any history the force array the user reads is the from-scratch force
    array of the current atoms — also when the calculator recycles one buffer for all its results -/
theorem forces_history (inplace : Bool) (sim : Sim)
    (he : sim.ens = .canonical ∨ sim.ens = .hamiltonian ∨ sim.ens = .isobaric)
    (ts : List ATrial) (s : AState) (hinv : Inv sim.ens s.cs.m) (h : AInv s) (hok : AHistoryOK sim ts s.cs.m) :
    AInv (runF inplace sim ts s) ∧ AllForcesFresh inplace sim ts s := by
  have hb : sim.ens ≠ .base := by rcases he with h | h | h <;> rw [h] <;> simp
  induction ts generalizing s with
  | nil => exact ⟨h, trivial⟩
  | cons t ts ih =>
    obtain ⟨hk, hrest⟩ := hok
    obtain ⟨g1, g2, g3⟩ := fstep_spec inplace sim he t s hinv h hk
    have hm : (fstep inplace sim t s).2.cs.m = (astep sim t s.cs.m).2 := by rw [g3]; exact cstep_m sim t s.cs
    have hinv2 : Inv sim.ens (fstep inplace sim t s).2.cs.m := by
      rw [hm]; exact (astep_spec sim hb t s.cs.m hinv hk).1
    have hrest2 : AHistoryOK sim ts (fstep inplace sim t s).2.cs.m := by rw [hm]; exact hrest
    obtain ⟨i1, i2⟩ := ih _ hinv2 g1 hrest2
    exact ⟨i1, g2, i2⟩

/-! ### the pinned behaviour: results remembered by reference -/

def a4State (fixed : Bool) : AState :=
  avalidate fixed true c4Sim
    { cs := { m := { atoms := { rows := [⟨(1,0,0), (0,0,0), [29]⟩, ⟨(2,0,0), (0,0,0), [29]⟩], cell := (9,9,9), fixed := none },
                     heap := [{ kind := .disp, labels := [0, 1] }], ctx := { lastPos := [(1,0,0), (2,0,0)] },
                     inp := { draws := [1], ops := [(1,1,1)], checks := [true] } },
              cal := { style := .caching } },
      x := {} }

/-- one rejected displacement of atom 1 by (1,1,1) with an in-place calculator -/
def a4After (fixed : Bool) : AState := alogRead true (atrial fixed true c4Sim (.leaf 0) false (a4State fixed)).2

/-- **forces_stale_when_aliased**: with `last_results = calc.results` (by reference) and a calculator that writes its
    arrays in place, one rejected trial is enough: the atoms are back at (1,0,0), (2,0,0) but `get_forces()` returns the
    forces of the rejected configuration (2,0,0) ↦ (3,1,1). With results remembered by value it returns the right ones. -/
theorem forces_stale_when_aliased :
    (a4After false).cs.m.atoms = (a4State false).cs.m.atoms ∧
    aForces true (a4After false) = some [(-2, 0, 0), (-6, -2, -2)] ∧
    forcesOf (a4After false).cs.m.atoms = [(-2, 0, 0), (-4, 0, 0)] ∧
    aForces true (a4After true) = some [(-2, 0, 0), (-4, 0, 0)] := by decide

example : AInv (a4State true) :=
  ainv_validate true c4Sim _ (by intro e he; cases he) (Or.inl rfl)

/-! ### grand-canonical histories -/

/-- the three restoration facts for the trial kinds of a `GTrial` history (displacement-type tree, single exchange) -/
theorem trial_hyps_G (sim : Sim) (he : sim.ens = .grand) (t : GTrial) (s : State) (h : GInv sim s)
    (hok : match t.kind with
           | .pos tr => (∀ r ∈ tr.refs, r < s.heap.length) ∧ PosTree s tr
           | .exch r => (s.obj r).kind = .exch ∧ r ∈ tableRefs sim ∧ r < s.heap.length) :
    ((callTree t.tree s).1 = false → (callTree t.tree s).2.atoms = s.atoms) ∧
    ((callTree t.tree s).1 = true → (revertState sim (callTree t.tree s).2).atoms = s.atoms) ∧
    ((callTree t.tree s).1 = true → ∀ c : CalcS, Fresh c (callTree t.tree s).2.atoms →
            Fresh (revertCalc sim.ens c (some (energy s.atoms)) s.atoms) s.atoms) := by
  have hb : sim.ens ≠ .base := by rw [he]; simp
  have hrcG : ∀ c : CalcS, Fresh (revertCalc sim.ens c (some (energy s.atoms)) s.atoms) s.atoms := by
    intro c; rw [he]; exact revertCalc_fresh_grand c s.atoms
  unfold GTrial.tree
  cases hk : t.kind with
  | pos tr =>
    rw [hk] at hok
    have hinv : Inv sim.ens s := by
      refine ⟨fun _ => h.invg.lastPos, ?_, ?_, h.invg.noAdded, h.invg.noDeleted⟩
      · intro hx; rw [he] at hx; cases hx
      · intro hx; rw [he] at hx; cases hx
    refine ⟨callTree_fail tr s hok.1 hok.2, ?_, fun _ c _ => hrcG c⟩
    intro hok'
    have := (reject_restores sim tr s hb hinv hok.1 hok.2 hok').2
    simpa [trial, hok'] using this
  | exch r =>
    rw [hk] at hok
    have hrl : (s.obj r).labels.length = s.atoms.rows.length :=
      h.aligned r hok.2.1 hok.2.2 (by simp [labelBearing, hok.1])
    have hnew := toAddOf_ne_nil (s.obj r) s.ctx h.templ
    have hna := exch_not_accepted_restores sim he r s h.invg hok.1 hrl hnew
    refine ⟨?_, ?_, fun _ c _ => hrcG c⟩
    · intro hf
      simp only [trial, hf, Bool.false_eq_true, if_false] at hna
      exact hna
    · intro hok'
      simp only [trial, hok', if_true, Bool.false_eq_true, if_false] at hna
      exact hna

def fstepG (inplace : Bool) (sim : Sim) (t : GTrial) (s : AState) : (Outcome × Option (List V3)) × AState :=
  let r := atrial true inplace sim t.tree t.verdict { s with cs := withInp s.cs t.inp }
  let s' := alogRead inplace r.2
  ((r.1, aForces inplace s'), s')

def runFG (inplace : Bool) (sim : Sim) : List GTrial → AState → AState
  | [], s => s
  | t :: ts, s => runFG inplace sim ts (fstepG inplace sim t s).2

def AllForcesFreshG (inplace : Bool) (sim : Sim) : List GTrial → AState → Prop
  | [], _ => True
  | t :: ts, s =>
    (fstepG inplace sim t s).1.2 = some (forcesOf (fstepG inplace sim t s).2.cs.m.atoms) ∧
    AllForcesFreshG inplace sim ts (fstepG inplace sim t s).2

/-- **forces_history_grand**: the same over grand-canonical histories of displacement-type trials, insertions and
    deletions: after every trial `get_forces()` is the from-scratch force array of the current atoms (whose number
    changes along the history) -/
theorem forces_history_grand (inplace : Bool) (sim : Sim) (he : sim.ens = .grand) (ts : List GTrial) (s : AState)
    (hg : GInv sim s.cs.m) (h : AInv s) (hok : GHistoryOK sim ts s.cs.m) :
    AInv (runFG inplace sim ts s) ∧ AllForcesFreshG inplace sim ts s := by
  induction ts generalizing s with
  | nil => exact ⟨h, trivial⟩
  | cons t ts ih =>
    obtain ⟨hk, hrest⟩ := hok
    have hg' : GInv sim (withInp s.cs t.inp).m :=
      ⟨⟨hg.invg.1, hg.invg.2, hg.invg.3, hg.invg.4, hg.invg.5, hg.invg.6, hg.invg.7⟩, hg.delta0, hg.aligned, hg.templ⟩
    have h' : AInv { s with cs := withInp s.cs t.inp } := ⟨⟨h.einv.1, h.einv.2, h.einv.3⟩, h.ref, h.last⟩
    obtain ⟨h1, h2, h3⟩ := trial_hyps_G sim he t (withInp s.cs t.inp).m hg' hk
    obtain ⟨g1, g2, g3⟩ := ainv_trial_of inplace sim t.tree t.verdict { s with cs := withInp s.cs t.inp } h' h1 h2 h3
    have hcs : (fstepG inplace sim t s).2.cs = (cstepG sim t s.cs).2 := g3
    have hm : (fstepG inplace sim t s).2.cs.m = (gstep sim t s.cs.m).2 := by rw [hcs]; exact cstepG_m sim t s.cs
    have hg2 : GInv sim (fstepG inplace sim t s).2.cs.m := by
      rw [hm]; exact (gstep_spec sim he t s.cs.m hg hk).1
    have hrest2 : GHistoryOK sim ts (fstepG inplace sim t s).2.cs.m := by rw [hm]; exact hrest
    obtain ⟨i1, i2⟩ := ih _ hg2 g1 hrest2
    exact ⟨i1, g2, i2⟩

end MC
