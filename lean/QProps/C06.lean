import QProofs.Seed
/-!
# C06 — same seed, same trajectory   (partial by design)

Model: `QModel/Seed.lean` — `effectiveSeedRaw` is `seed or PCG64().random_raw()` of the pinned tree,
`effectiveSeed` is `seed if seed is not None else PCG64().random_raw()` after `harness/patches/C06-seed-zero.diff`;
`run : Config → Stream → List Event` is `MonteCarlo.step` iterated over the M-machine (`QModel/Machine.lean`), every
random value popped from the `Stream` argument.

What is proved: (1) the seed the driver keeps is the seed it was given, for every non-negative integer including 0
(false of the pinned tree at 0: negation by witness); (2) the trajectory, the move history, the accept/reject history,
the log text and the final state are functions of (configuration, stream) — no state of any global generator enters;
(3) the part of "different seeds give different trajectories" that is logic: two streams that agree until a
displacement trial and differ in a draw that trial consumes give different trajectories.

**Not verified** (the reason C06 is `partial`): that numpy's `SeedSequence`/`PCG64` map different seeds to different
streams. With `gen : Nat → Stream` standing for "the stream of `Generator(PCG64(seed))`" the full clause reads

    theorem different_seeds_differ (cfg : Config) (n m : Nat) (h : n ≠ m) : run cfg (gen n) ≠ run cfg (gen m)

and is a statement about `gen` (it is false for a constant `gen`, see `different_seeds_need_generator`, and for a
configuration that consumes no randomness, see `no_draws_no_difference`); numpy's bit generator is not modelled.
The harness checks it empirically only (`seed-ignored:<driver>` if two seeds give bit-identical trajectories).
-/
namespace Seed
open MM

/-! ## (1) the seed -/

/-- **seed_honoured**: an integer seed — any, including 0 — is the seed of the simulation, whatever the entropy
    source would have produced -/
theorem seed_honoured : ∀ (n fresh : Nat), effectiveSeed (some n) fresh = n := fun _ _ => rfl

/-- no seed: a fresh one from the entropy source -/
theorem seed_none_fresh (fresh : Nat) : effectiveSeed none fresh = fresh := rfl

/-- the same holds of the pinned code -/
theorem seed_none_fresh_raw (fresh : Nat) : effectiveSeedRaw none fresh = fresh := rfl

/-- the pinned code agrees with the fixed code on every seed but 0 -/
theorem raw_agrees_nonzero (n fresh : Nat) (h : n ≠ 0) : effectiveSeedRaw (some n) fresh = effectiveSeed (some n) fresh := by
  rw [effectiveSeedRaw_some]; simp [h, effectiveSeed]

/-- **negation witness for the pinned code**: seed 0 is replaced by whatever the entropy source produced -/
theorem seed_zero_replaced_raw (fresh : Nat) : effectiveSeedRaw (some 0) fresh = fresh := rfl

/-- … so `seed_honoured` is false of the pinned code -/
theorem seed_honoured_raw_false : ¬ ∀ (n fresh : Nat), effectiveSeedRaw (some n) fresh = n :=
  fun h => absurd (h 0 1) (by decide)

/-- two constructions with the same integer seed get the same seed, whatever the entropy source does -/
theorem same_seed_same_effective (n f1 f2 : Nat) : effectiveSeed (some n) f1 = effectiveSeed (some n) f2 := rfl

/-- … false of the pinned code: two `Canonical(atoms, seed=0)` differ as soon as the entropy differs -/
theorem same_seed_same_effective_raw_false : ¬ ∀ (n f1 f2 : Nat), effectiveSeedRaw (some n) f1 = effectiveSeedRaw (some n) f2 :=
  fun h => absurd (h 0 1 2) (by decide)

/-- `from_dict(to_dict())` keeps the seed: every seed, every entropy (the saved `_seed` may be 0) -/
theorem restored_seed (seed : Option Nat) (fresh fresh' : Nat) :
    restoredSeed effectiveSeed seed fresh fresh' = effectiveSeed seed fresh := rfl

/-- with the pinned constructor the round trip keeps every seed except a (fresh) seed 0 -/
theorem restored_seed_raw_partial (seed : Option Nat) (fresh fresh' : Nat) (h : effectiveSeedRaw seed fresh ≠ 0) :
    restoredSeed effectiveSeedRaw seed fresh fresh' = effectiveSeedRaw seed fresh := by
  simp only [restoredSeed]; rw [effectiveSeedRaw_some]; simp [h]

/-! ## (2) the run is a function of configuration and stream -/

/-- **run_deterministic**: in two worlds with the same configuration and the same stream — and *any* two states of
    the global generators — the trajectory, the move history, the accept/reject history and the log text (for any
    formatter) are equal. It is a function: the content is that `run` has no other argument; the double-run
    correspondence (`harness/props/c06.py`) is what ties the real drivers to this shape. -/
theorem run_deterministic {G : Type} (w1 w2 : World G) (hc : w1.cfg = w2.cfg) (hs : w1.stream = w2.stream) :
    runIn w1 = runIn w2 ∧
    moveHistory (runIn w1) = moveHistory (runIn w2) ∧
    acceptHistory (runIn w1) = acceptHistory (runIn w2) ∧
    (∀ fmt, logText fmt (runIn w1) = logText fmt (runIn w2)) ∧
    finalState w1.cfg w1.stream = finalState w2.cfg w2.stream := by
  obtain ⟨c1, s1, g1⟩ := w1
  obtain ⟨c2, s2, g2⟩ := w2
  simp only at hc hs
  subst hc hs
  exact ⟨rfl, rfl, rfl, fun _ => rfl, rfl⟩

/-- the same against the M-machine itself: equal simulation, equal table entry, equal verdict, equal state
    (inputs included) ⇒ equal outcome and equal state after `MM.trial` -/
theorem trial_deterministic (sim sim' : Sim) (t t' : Tree) (v v' : Bool) (s s' : State)
    (h1 : sim = sim') (h2 : t = t') (h3 : v = v') (h4 : s = s') : trial sim t v s = trial sim' t' v' s' := by
  subst h1 h2 h3 h4; rfl

/-- one step of `run` *is* one `MM.trial` whose verdict is the acceptance rule applied to the next draw of the stream
    (so every theorem about `MM.trial` — C03, C05, C11 — speaks about the steps of `run`) -/
theorem step_is_trial (cfg : Config) (e : Entry) (s0 : State) :
    let r := callTree e.tree s0
    let v := cfg.accept r.2.inp.draw.1 s0.atoms r.2.atoms
    let t := trial cfg.sim e.tree v s0
    (tryEntry cfg e s0).1 = { moved := some (e.name, t.1), atoms := t.2.atoms } ∧
    (tryEntry cfg e s0).2 = { t.2 with inp := if r.1 then r.2.inp.draw.2 else r.2.inp } :=
  tryEntry_trial cfg e s0

/-- **same seed, same trajectory**: two simulations constructed with the same integer seed `n` (0 included) and the
    same configuration, with whatever entropy `f1`, `f2` the constructor could have drawn, whatever bit generator
    `gen`, and whatever global state, have the same trajectory -/
theorem same_seed_same_trajectory {G : Type} (gen : Nat → Stream) (cfg : Config) (n f1 f2 : Nat) (g1 g2 : G) :
    runIn ⟨cfg, gen (effectiveSeed (some n) f1), g1⟩ = runIn ⟨cfg, gen (effectiveSeed (some n) f2), g2⟩ := rfl

/-! ## (3) different streams -/

/-- **different_streams_differ_partial** — the only part of "different seeds give different trajectories" that is
    logic. Two streams `a`, `b`; after `k` steps the two simulations are in the same state except for what is left of
    their streams (the streams agreed on everything consumed so far; for `k = 0` this is `initState_same`). Step `k+1` tries, in both, the table entry `e`,
    a single displacement move `r` without pre-selection that has something to move, at least one attempt and a first
    `check_move` verdict "fine". The streams differ in a draw this trial consumes: either the label draws pick
    different labels (`.inl`: and the operation result under `a` is not the zero vector), or they pick the same label
    and the operation results differ (`.inr`); in both cases a row `i` carrying the label picked under `a` exists and
    is not pinned by a constraint the move respects. The trial is accepted under `a` (a rejected trial restores the
    atoms: two rejected trials leave identical trajectories and differ only in the generator state).
    Then the two trajectories differ.

    Missing for the full clause (see the header): `gen n` and `gen m` differing at such a draw for `n ≠ m`. -/
theorem different_streams_differ_partial (cfg : Config) (a b : Stream) (k m : Nat)
    (hk : cfg.steps = k + (m + 1)) (e : Entry) (r i : Nat)
    (hsame : SameButStream (runFrom cfg k (initState cfg a)).2 (runFrom cfg k (initState cfg b)).2)
    (hsa : selectEntry cfg.sim.table (runFrom cfg k (initState cfg a)).2 = (some e, sa))
    (hsb : selectEntry cfg.sim.table (runFrom cfg k (initState cfg b)).2 = (some e, sb))
    (htree : e.tree = .leaf r) (hkind : (sa.obj r).kind = .disp)
    (hpre : (sa.obj r).toDisplace = none)
    (hatt : (sa.obj r).maxAttempts ≠ 0)
    (hck : sa.inp.check.1 = true)
    (hrow : i < sa.atoms.rows.length)
    (hlab : (sa.obj r).labels[i]? = some (dispLabel r sa))
    (hfree : ((sa.obj r).applyConstraints && isFixed sa.atoms i) = false)
    (hdiff : (dispLabel r sa ≠ dispLabel r sb ∧ dispOp r sa ≠ V3.zero) ∨
             (dispLabel r sa = dispLabel r sb ∧ dispOp r sa ≠ dispOp r sb))
    (hacc : (step cfg (runFrom cfg k (initState cfg a)).2).1.moved = some (e.name, .accepted)) :
    run cfg a ≠ run cfg b := by
  apply run_ne_of_step_ne cfg a b k m hk
  generalize (runFrom cfg k (initState cfg a)).2 = ta at hsame hsa hacc ⊢
  generalize (runFrom cfg k (initState cfg b)).2 = tb at hsame hsb ⊢
  -- the states after selection still agree on everything but the stream
  have hsa2 : sa = (selectEntry cfg.sim.table ta).2 := by rw [hsa]
  have hsb2 : sb = (selectEntry cfg.sim.table tb).2 := by rw [hsb]
  have hs : SameButStream sa sb := by
    rw [hsa2, hsb2]
    exact (selectEntry_same _ ta).trans (hsame.trans (selectEntry_same _ tb).symm)
  have hobj : sb.obj r = sa.obj r := (hs.obj r).symm
  have hu : (uniqueLabels (sa.obj r).labels).isEmpty = false := by
    have hm : dispLabel r sa ∈ uniqueLabels (sa.obj r).labels := by
      by_cases hneg : 0 ≤ dispLabel r sa
      · exact (uniqueLabels_mem _ _).2 ⟨List.mem_of_getElem? hlab, hneg⟩
      · -- a negative label is never offered: `choice` on the empty list returns the default 0
        exfalso
        have hempty : uniqueLabels (sa.obj r).labels = [] := by
          cases hul : uniqueLabels (sa.obj r).labels with
          | nil => rfl
          | cons x xs =>
            have := choice_mem (uniqueLabels (sa.obj r).labels) (0 : Int) sa.inp (by rw [hul]; simp)
            exact absurd ((uniqueLabels_mem _ _).1 this).2 hneg
        apply hneg
        simp [dispLabel, hempty, choice]
    cases hl : uniqueLabels (sa.obj r).labels with
    | nil => rw [hl] at hm; cases hm
    | cons x xs => rfl
  have hckb : sb.inp.check.1 = true := by
    have h := hs.2.2.2
    unfold Inputs.check at hck ⊢
    rw [← h]
    cases hc : sa.inp.checks with
    | nil => rfl
    | cons c cs => rw [hc] at hck; exact hck
  -- both moves succeed at the first attempt
  have hA := dispCall_first_attempt r sa hpre hu hatt hck
  have hB := dispCall_first_attempt r sb (by rw [hobj]; exact hpre) (by rw [hobj]; exact hu)
    (by rw [hobj]; exact hatt) hckb
  rw [hobj, ← hs.1] at hB
  -- … and leave different atoms
  have hi : i ∈ whereEq (sa.obj r).labels (dispLabel r sa) := (whereEq_mem _ _ _).2 hlab
  have hne : (dispCall r sa).2.atoms ≠ (dispCall r sb).2.atoms := by
    rw [hA.2, hB.2]
    rcases hdiff with ⟨hl, hd⟩ | ⟨hl, hd⟩
    · refine applyDisp_ne_of_sel _ _ _ _ _ _ i hi ?_ hrow hfree hd
      intro hmem
      have := (whereEq_mem _ _ _).1 hmem
      rw [hlab] at this
      exact hl (Option.some.inj this)
    · rw [← hl]
      exact applyDisp_ne_of_op _ _ _ _ _ i hi hrow hfree hd
  -- the two events
  have hcallA : callTree e.tree sa = dispCall r sa := by simp only [htree, callTree, leafCall, hkind]
  have hcallB : callTree e.tree sb = dispCall r sb := by
    have : (sb.obj r).kind = .disp := by rw [hobj]; exact hkind
    simp only [htree, callTree, leafCall, this]
  intro heq
  simp only [step, hsa, hsb] at heq hacc
  simp only [tryEntry, hcallA, hcallB, hA.1, hB.1, if_true] at heq hacc
  by_cases hva : cfg.accept (dispCall r sa).2.inp.draw.1 sa.atoms (dispCall r sa).2.atoms = true
  · by_cases hvb : cfg.accept (dispCall r sb).2.inp.draw.1 sb.atoms (dispCall r sb).2.atoms = true
    · simp only [hva, hvb, if_true, saveState_atoms, Event.mk.injEq, true_and] at heq
      exact hne heq
    · simp [hva, hvb] at heq
  · simp [hva] at hacc

/-- the clause about seeds is not logic: for a generator that ignores its seed, all seeds give the same trajectory -/
theorem different_seeds_need_generator (cfg : Config) : ∃ gen : Nat → Stream, ∀ n m, run cfg (gen n) = run cfg (gen m) :=
  ⟨fun _ => {}, fun _ _ => rfl⟩

/-- … nor does it hold for every configuration: a simulation with an empty move table consumes no randomness and
    has one trajectory for all streams -/
theorem no_draws_no_difference (cfg : Config) (htab : cfg.sim.table = []) (a b : Stream) : run cfg a = run cfg b := by
  have hstep : ∀ s, step cfg s = ({ moved := none, atoms := s.atoms }, s) := by
    intro s; simp [step, selectEntry, htab]
  have hrun : ∀ n (s t : State), s.atoms = t.atoms → (runFrom cfg n s).1 = (runFrom cfg n t).1 := by
    intro n
    induction n with
    | zero => intros; rfl
    | succ j ih =>
      intro s t hst
      simp only [runFrom, hstep, hst, List.cons.injEq, true_and]
      exact ih s t hst
  apply hrun
  simp only [initState, validate]
  cases cfg.sim.ens <;> rfl

/-! ## non-vacuity -/

/-- a two-atom canonical simulation with one displacement move over labels `[0, 1]`, accepting iff `u < 500` -/
def demoCfg : Config :=
  { sim := { ens := .canonical, table := [{ name := "d", oid := 0, tree := .leaf 0 }] },
    atoms := { rows := [{ pos := (0, 0, 0), mom := (0, 0, 0), aux := [29] }, { pos := (5, 0, 0), mom := (0, 0, 0), aux := [29] }],
               cell := (10, 10, 10), fixed := none },
    heap := [{ kind := .disp, labels := [0, 1] }],
    accept := fun u _ _ => decide (u < 500),
    steps := 2 }

/-- draws per step: selection, label choice, criterion number; ops: one vector per step -/
def demoA : Stream := { draws := [0, 0, 100, 0, 1, 900], ops := [(1, 0, 0), (0, 2, 0)] }
/-- differs from `demoA` in the first operation result only -/
def demoB : Stream := { draws := [0, 0, 100, 0, 1, 900], ops := [(3, 0, 0), (0, 2, 0)] }
/-- differs from `demoA` in the first label draw only -/
def demoC : Stream := { draws := [0, 1, 100, 0, 1, 900], ops := [(1, 0, 0), (0, 2, 0)] }

example : effectiveSeed (some 0) 12345 = 0 ∧ effectiveSeedRaw (some 0) 12345 = 12345 ∧
    effectiveSeedRaw (some 7) 12345 = 7 ∧ effectiveSeed none 12345 = 12345 := by decide

example : moveHistory (run demoCfg demoA) = [some ("d", .accepted), some ("d", .rejected)] := by decide
example : positions (finalState demoCfg demoA).atoms.rows = [(1, 0, 0), (5, 0, 0)] := by decide
example : run demoCfg demoA ≠ run demoCfg demoB := by decide
example : run demoCfg demoA ≠ run demoCfg demoC := by decide

/-- the hypotheses of `different_streams_differ_partial` are satisfiable (operation results differ at step 1) -/
example : run demoCfg demoA ≠ run demoCfg demoB :=
  different_streams_differ_partial demoCfg demoA demoB 0 1 rfl
    { name := "d", oid := 0, tree := .leaf 0 } 0 0
    (sa := (selectEntry demoCfg.sim.table (initState demoCfg demoA)).2)
    (sb := (selectEntry demoCfg.sim.table (initState demoCfg demoB)).2)
    (initState_same _ _ _) rfl rfl rfl rfl rfl (by decide) (by decide) (by decide) (by decide) (by decide)
    (Or.inr ⟨by decide, by decide⟩) (by decide)

/-- … and with label draws that differ -/
example : run demoCfg demoA ≠ run demoCfg demoC :=
  different_streams_differ_partial demoCfg demoA demoC 0 1 rfl
    { name := "d", oid := 0, tree := .leaf 0 } 0 0
    (sa := (selectEntry demoCfg.sim.table (initState demoCfg demoA)).2)
    (sb := (selectEntry demoCfg.sim.table (initState demoCfg demoC)).2)
    ⟨rfl, rfl, rfl, rfl⟩ rfl rfl rfl rfl rfl (by decide) (by decide) (by decide) (by decide) (by decide)
    (Or.inl ⟨by decide, by decide⟩) (by decide)

end Seed
