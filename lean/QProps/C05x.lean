import QProofs.MachineCompExchAcc
import QProps.C05h
/-!
# C05x — an ACCEPTED composite exchange trial keeps the grand-canonical bookkeeping invariant

Model: QModel/Machine.lean (`compExchCall`, `compExchAddLoop`, `compExchDelLoop`, `saveState`, `notifyRefs`, `ctxSave`).
Setting: the grand-canonical driver, a composite exchange tree `.compExch rs b` whose members share one labelling `L`
with one label per atom (the hypothesis of `compExch_deletion_not_accepted_restores`), starting from `GInv sim s`.
All theorems hold for every script of draws / operation results / `check_move` verdicts.

* `ginv_trial_compExch` — every outcome (accepted insertion or deletion, rejection, failure) re-establishes `GInv`:
  every label-bearing object of the table has one label per atom, nothing is pending, `delta = 0`, the constraint
  indices are valid, the reference positions are current;
* `nexch_compExch` — the particle counter moves by `compExchChange`: plus the number of members whose insertion
  succeeded (`compExchInserted`), minus the number of DISTINCT labels whose atoms were removed (`removedLabels`),
  and by 0 when the trial is not accepted; `nexch_compExch_delta` — the same through `ctx.delta` after the call;
* `compExch_insertion_atoms`, `compExch_deletion_atoms`, `compExch_rows_single` — what the accepted trial does to the
  atoms, and `rows.length' = rows.length + change` for single-atom templates and particles;
* `compExch_not_accepted_atoms` — a trial that is not accepted leaves the atoms as they were;
* `compExch_trial_heap`, `compMembers_trial` — what the trial does to the label arrays (one `on_atoms_changed(added,
  removed)` for every label-bearing object of the table), and: members sharing labelling AND configured label still do
  after any outcome, so the hypotheses reproduce themselves (`shared_labelling_needs_equal_defaults`: not otherwise);
* `gc_mixed_history_x` — histories mixing displacement-type trials, single and composite insertions / deletions:
  `GInv` after every trial, counter = initial value + net change, every non-accepted trial restored the atoms;
* `counter_drifts_after_composite_insertion` — consequence of the recorded finding `composite_insertion_shares_label`.

The membership hypotheses of the brief (`kind = .exch`, `r ∈ tableRefs sim`, `r < heap.length`) are not needed by any
proof of the single-trial theorems: the shared labelling is all that is used, so they are stated without them
(`ginv_trial_compExch_members` restates `ginv_trial_compExch` with them for reference). They are used by
`compMembers_trial` / `gc_mixed_history_x` (`CompMembers`).
-/
namespace MM

/-! ### re-establishing `GInv` -/

theorem aligned_of_static (sim : Sim) (s s1 : State) (hal : LabelsAligned sim s) (hheap : HeapStatic s.heap s1.heap)
    (hlen : s1.atoms.rows.length = s.atoms.rows.length) : LabelsAligned sim s1 := by
  intro r' hr' hlt hlb
  have hst := hheap.2 r'
  have hk : (s1.obj r').kind = (s.obj r').kind := hst.1
  have hl : (s1.obj r').labels = (s.obj r').labels := hst.2.1
  rw [hl, hlen]
  exact hal r' hr' (by rw [← hheap.1]; exact hlt) (by rw [← hk]; exact hlb)

/-- a state with the atoms of `s`, no label touched and a clean context satisfies the invariant again -/
theorem ginv_of_failed (sim : Sim) (s s1 : State) (h : GInv sim s) (hheap : HeapStatic s.heap s1.heap)
    (hat : s1.atoms = s.atoms) (hlp : s1.ctx.lastPos = s.ctx.lastPos) (ha : s1.ctx.addedIdx = [])
    (hd : s1.ctx.deletedIdx = []) (hda : s1.ctx.deletedAtoms = []) (hsv : s1.ctx.savedFixed = none)
    (hde : s1.ctx.delta = 0) (htm : s1.ctx.template = s.ctx.template) (hsz : s1.ctx.addedSizes = []) : GInv sim s1 :=
  ⟨⟨by rw [hlp, hat]; exact h.invg.lastPos, ha, hd, hda, hsv, by rw [hat]; exact h.invg.fixedOK, hsz⟩, hde,
   aligned_of_static sim s s1 h.aligned hheap (by rw [hat]), by rw [htm]; exact h.templ⟩

/-- `revert_state` that restores the atoms re-establishes the invariant -/
theorem ginv_of_revert (sim : Sim) (he : sim.ens = .grand) (s s1 : State) (h : GInv sim s)
    (hheap : HeapStatic s.heap s1.heap) (hat : (revertState sim s1).atoms = s.atoms)
    (hlp : s1.ctx.lastPos = s.ctx.lastPos) (htm : s1.ctx.template = s.ctx.template) :
    GInv sim (revertState sim s1) := by
  have hheapR : (revertState sim s1).heap = s1.heap := revertState_shape sim s1
  apply ginv_of_failed sim s _ h (by rw [hheapR]; exact hheap) hat
  all_goals simp [revertState, he, hlp, htm]

/-- `save_state` after a call that touched no label, left valid constraints and recorded exactly the rows it added and
    removed (`removed` duplicate-free and in range) re-establishes the invariant -/
theorem ginv_of_save (sim : Sim) (he : sim.ens = .grand) (s s1 : State) (h : GInv sim s)
    (hheap : HeapStatic s.heap s1.heap) (hfx : FixedOK s1.atoms) (htm : s1.ctx.template = s.ctx.template)
    (hnd : s1.ctx.deletedIdx.Nodup)
    (hv : ∀ i ∈ s1.ctx.deletedIdx, i < s.atoms.rows.length + s1.ctx.addedIdx.length)
    (hlen : s1.atoms.rows.length + s1.ctx.deletedIdx.length = s.atoms.rows.length + s1.ctx.addedIdx.length) :
    GInv sim (saveState sim s1) := by
  have hsa : (saveState sim s1).atoms = s1.atoms := by simp [saveState, he, ctxSave]
  have hsh : (saveState sim s1).heap =
      notifyParts (tableRefs sim) s1.ctx.addedSizes s1.ctx.addedIdx s1.ctx.deletedIdx s1.heap := by
    simp [saveState, he, ctxSave, tableRefs]
  refine ⟨⟨by simp [saveState, he, ctxSave], by simp [saveState, he, ctxSave], by simp [saveState, he, ctxSave],
           by simp [saveState, he, ctxSave], by simp [saveState, he, ctxSave], by rw [hsa]; exact hfx,
           by simp [saveState, he, ctxSave]⟩,
          by simp [saveState, he, ctxSave], ?_, by simp [saveState, he, ctxSave, htm]; exact h.templ⟩
  intro r' hr' hlt hlb
  have hnd' : (tableRefs sim).Nodup := nodup_eraseDups' _
  have hlen' : (saveState sim s1).heap.length = s1.heap.length := by
    rw [hsh]; exact (notifyParts_shape _ _ _ _ _).1
  have hlt1 : r' < s1.heap.length := by rw [← hlen']; exact hlt
  have hlt0 : r' < s.heap.length := by rw [← hheap.1]; exact hlt1
  have hst := hheap.2 r'
  have hk1 : (s1.heap.getD r' { kind := .user }).kind = (s.obj r').kind := hst.1
  have hl1 : (s1.heap.getD r' { kind := .user }).labels = (s.obj r').labels := hst.2.1
  have hobj : (saveState sim s1).obj r' =
      (notifyParts (tableRefs sim) s1.ctx.addedSizes s1.ctx.addedIdx s1.ctx.deletedIdx s1.heap).getD r'
        { kind := .user } := by
    simp [State.obj, hsh]
  have hlb1 : labelBearing (s1.heap.getD r' { kind := .user }).kind = true := by
    rw [hobj, notifyParts_kind] at hlb; exact hlb
  have hlb0 : labelBearing (s.obj r').kind = true := by rw [← hk1]; exact hlb1
  have hal0 := h.aligned r' hr' hlt0 hlb0
  have := notifyParts_aligned (tableRefs sim) s1.ctx.addedSizes s1.ctx.addedIdx s1.ctx.deletedIdx s1.heap
    s.atoms.rows.length hnd' hnd hv
    r' hr' hlt1 hlb1 (by rw [hl1]; exact hal0)
  rw [hobj, hsa]
  omega

/-! ### the trial -/

theorem trial_eq (sim : Sim) (t : Tree) (v : Bool) (s : State) :
    trial sim t v s =
      if (callTree t s).1 then
        (if v then (.accepted, saveState sim (callTree t s).2) else (.rejected, revertState sim (callTree t s).2))
      else (.failed, (callTree t s).2) := by
  simp only [trial]

theorem trial_accepted_iff (sim : Sim) (t : Tree) (v : Bool) (s : State) :
    (trial sim t v s).1 = .accepted ↔ v = true ∧ (callTree t s).1 = true := by
  rw [trial_eq]
  cases (callTree t s).1 <;> cases v <;> simp

theorem addInv_fields (a0 : AtomsS) (c0 : Ctx) (s : State) (K : Nat) (h : AddInv a0 c0 s K) :
    s.ctx.lastPos = c0.lastPos ∧ s.ctx.deletedIdx = c0.deletedIdx ∧ s.ctx.deletedAtoms = c0.deletedAtoms ∧
    s.ctx.savedFixed = c0.savedFixed ∧ s.ctx.template = c0.template ∧ s.ctx.nExch = c0.nExch := by
  have hc := h.core
  refine ⟨?_, ?_, ?_, ?_, ?_, ?_⟩
  · have := congrArg Ctx.lastPos hc; simpa [ctxCore] using this
  · have := congrArg Ctx.deletedIdx hc; simpa [ctxCore] using this
  · have := congrArg Ctx.deletedAtoms hc; simpa [ctxCore] using this
  · have := congrArg Ctx.savedFixed hc; simpa [ctxCore] using this
  · have := congrArg Ctx.template hc; simpa [ctxCore] using this
  · have := congrArg Ctx.nExch hc; simpa [ctxCore] using this

theorem deleteIdx_lengthG {α : Type} (l : List α) (idx : List Nat) (hn : idx.Nodup) (hv : ∀ i ∈ idx, i < l.length) :
    (deleteIdx l idx).length + idx.length = l.length := by
  have := deleteFrom_length idx hn l 0 (by simpa using hv)
  have hf : (idx.filter (fun i => decide (0 ≤ i))) = idx := by simp
  rw [hf] at this; exact this

/-! ### what the trial changes: readable quantities -/

/-- the DISTINCT labels (of the shared labelling `L`) carried by the atoms `idx` -/
def removedLabels (L : List Int) (idx : List Nat) : List Int := (idx.map (fun i => L.getD i 0)).eraseDups

/-- change of the number of exchangeable particles an accepted composite trial makes: plus the number of members whose
    insertion succeeded, or minus the number of distinct labels whose atoms are removed -/
def compExchChange (rs : List Nat) (b : Nat) (s : State) (L : List Int) : Int :=
  if s.inp.draw.1 < b then (compExchInserted rs s : Int)
  else - ((removedLabels L (compExchDelIdx rs s)).length : Int)

/-- everything the proofs below need about the composite call, in one place -/
structure CompExchCallSpec (sim : Sim) (rs : List Nat) (b : Nat) (s : State) (L : List Int) (res : Bool × State) :
    Prop where
  heap : HeapStatic s.heap res.2.heap
  lastPos : res.2.ctx.lastPos = s.ctx.lastPos
  template : res.2.ctx.template = s.ctx.template
  nExch : res.2.ctx.nExch = s.ctx.nExch
  delta : res.2.ctx.delta = compExchChange rs b s L
  failed : res.1 = false → GInv sim res.2 ∧ res.2.atoms = s.atoms ∧ compExchChange rs b s L = 0
  rejected : res.1 = true → (revertState sim res.2).atoms = s.atoms
  accepted : res.1 = true → GInv sim (saveState sim res.2)

theorem saveFixed_clean (c : Ctx) (a : AtomsS) (h : c.savedFixed = none) :
    saveFixed c a = { c with savedFixed := some a.fixed } := by
  simp [saveFixed, h]

theorem compExch_call_spec (sim : Sim) (he : sim.ens = .grand) (rs : List Nat) (b : Nat) (s : State) (L : List Int)
    (h : GInv sim s) (hL : ∀ r ∈ rs, (s.obj r).labels = L) (hlen : L.length = s.atoms.rows.length) :
    CompExchCallSpec sim rs b s L (callTree (.compExch rs b) s) := by
  by_cases hadd : s.inp.draw.1 < b
  · -- composite insertion
    obtain ⟨K', hK, hle, hzero, hdelta, hheap, hok, _⟩ := compExch_insertion_call rs b s h.invg h.templ hadd
    have hrest := compExch_insertion_not_accepted_restores sim he rs b s h.invg hadd
    rw [trial_eq] at hrest
    obtain ⟨f1, f2, f3, f4, f5, f6⟩ := addInv_fields _ _ _ _ hK
    have hch : compExchChange rs b s L = (compExchInserted rs s : Int) := by simp [compExchChange, hadd]
    generalize callTree (.compExch rs b) s = res at *
    refine ⟨hheap, f1, f5, f6, by rw [hdelta, h.delta0, hch]; simp, ?_, ?_, ?_⟩
    · intro hf
      have hn : compExchInserted rs s = 0 := by
        cases hc : compExchInserted rs s with
        | zero => rfl
        | succ n => have := hok.2 (by omega); rw [hf] at this; cases this
      have hK0 := hzero hn
      subst hK0
      have hat : res.2.atoms = s.atoms := atoms_of_addInv_zero _ _ _ hK
      refine ⟨ginv_of_failed sim s res.2 h hheap hat f1 ?_ ?_ ?_ ?_ ?_ f5 ?_, hat, by rw [hch, hn]; rfl⟩
      · have := hK.added; simpa using this
      · rw [f2]; exact h.invg.noDeleted
      · rw [f3]; exact h.invg.noDeletedAtoms
      · rw [f4]; exact h.invg.noSaved
      · rw [hdelta, h.delta0, hn]; rfl
      · rw [hK.sizes0 rfl]; exact h.invg.noSizes
    · intro ht
      simpa [ht] using hrest
    · intro ht
      apply ginv_of_save sim he s res.2 h hheap (fixedOK_of_addInv _ _ _ _ hK h.invg.fixedOK) f5
      · rw [f2, h.invg.noDeleted]; exact List.nodup_nil
      · rw [f2, h.invg.noDeleted]; intro i hi; cases hi
      · rw [f2, h.invg.noDeleted, hK.added, hK.len]; simp
  · -- composite deletion
    obtain ⟨hD, hheap, hok, hnil, hcons⟩ := compExch_deletion_call rs b s L hL hadd
    have hrest := compExch_deletion_not_accepted_restores sim he rs b s h.invg L hL hlen hadd
    rw [trial_eq] at hrest
    have hch : compExchChange rs b s L = - ((compExchDelLabels rs s).length : Int) := by
      unfold compExchChange removedLabels
      rw [if_neg hadd, hD.distinct]
    have hvalid : ∀ i ∈ compExchDelIdx rs s, i < s.atoms.rows.length := by
      intro i hi; rw [← hlen]; exact hD.valid i hi
    have hsf := saveFixed_clean s.ctx s.atoms h.invg.noSaved
    generalize callTree (.compExch rs b) s = res at *
    have hheapS : HeapStatic s.heap res.2.heap := hheap
    by_cases hx : compExchDelIdx rs s = []
    · obtain ⟨hat, hctx⟩ := hnil hx
      have hlabs : compExchDelLabels rs s = [] := hD.idx_nil_iff.1 hx
      have hokf : res.1 = false := by rw [hok, hx]; rfl
      refine ⟨hheapS, by rw [hctx], by rw [hctx], by rw [hctx], by rw [hctx, h.delta0, hch, hlabs]; rfl, ?_, ?_, ?_⟩
      · intro _
        refine ⟨ginv_of_failed sim s res.2 h hheapS hat (by rw [hctx]) (by rw [hctx]; exact h.invg.noAdded)
          (by rw [hctx]; exact h.invg.noDeleted) (by rw [hctx]; exact h.invg.noDeletedAtoms)
          (by rw [hctx]; exact h.invg.noSaved) (by rw [hctx]; exact h.delta0) (by rw [hctx])
          (by rw [hctx]; exact h.invg.noSizes), hat,
          by rw [hch, hlabs]; rfl⟩
      · intro ht; rw [hokf] at ht; cases ht
      · intro ht; rw [hokf] at ht; cases ht
    · obtain ⟨hat, hctx⟩ := hcons hx
      rw [hsf] at hctx
      have hokt : res.1 = true := by
        rw [hok]; cases hc : compExchDelIdx rs s with
        | nil => exact absurd hc hx
        | cons a as => rfl
      refine ⟨hheapS, by rw [hctx], by rw [hctx], by rw [hctx], by rw [hctx, hch]; simp [h.delta0], ?_, ?_, ?_⟩
      · intro hf; rw [hokt] at hf; cases hf
      · intro _
        simpa [hokt] using hrest
      · intro _
        apply ginv_of_save sim he s res.2 h hheapS
        · rw [hat]; exact fixedOK_delete s.atoms _ h.invg.fixedOK hD.idxNodup hvalid
        · rw [hctx]
        · rw [hctx]; exact hD.idxNodup
        · rw [hctx]; intro i hi; have := hvalid i hi; simp only [] at hi ⊢; omega
        · rw [hctx, hat]
          simp only [AtomsS.delete, h.invg.noAdded, List.length_nil, Nat.add_zero]
          exact deleteIdx_lengthG s.atoms.rows _ hD.idxNodup hvalid

/-! ### the theorems -/

/-- **ginv_trial_compExch**: every outcome of a composite exchange trial — accepted composite insertion, accepted
    composite deletion, rejection, failure — re-establishes the grand-canonical bookkeeping invariant: every
    label-bearing object of the table has exactly one label per atom, nothing is pending (`addedIdx = []`,
    `deletedIdx = []`, `deletedAtoms = []`, `savedFixed = none`, `delta = 0`), the constraint indices are valid, the
    reference positions are those of the atoms and the template is non-empty. -/
theorem ginv_trial_compExch (sim : Sim) (he : sim.ens = .grand) (rs : List Nat) (b : Nat) (v : Bool) (s : State)
    (L : List Int) (h : GInv sim s) (hL : ∀ r ∈ rs, (s.obj r).labels = L)
    (hlen : L.length = s.atoms.rows.length) :
    GInv sim (trial sim (.compExch rs b) v s).2 := by
  have sp := compExch_call_spec sim he rs b s L h hL hlen
  rw [trial_eq]
  cases hok : (callTree (.compExch rs b) s).1 with
  | false => simp only [Bool.false_eq_true, if_false]; exact (sp.failed hok).1
  | true =>
    cases v with
    | false =>
      simp only [if_true, Bool.false_eq_true, if_false]
      exact ginv_of_revert sim he s _ h sp.heap (sp.rejected hok) sp.lastPos sp.template
    | true => simp only [if_true]; exact sp.accepted hok

/-- the statement of the brief, with the (unused) membership hypotheses spelled out -/
theorem ginv_trial_compExch_members (sim : Sim) (he : sim.ens = .grand) (rs : List Nat) (b : Nat) (v : Bool)
    (s : State) (L : List Int) (h : GInv sim s)
    (_hm : ∀ r ∈ rs, (s.obj r).kind = .exch ∧ r ∈ tableRefs sim ∧ r < s.heap.length)
    (hL : ∀ r ∈ rs, (s.obj r).labels = L) (hlen : L.length = s.atoms.rows.length) :
    GInv sim (trial sim (.compExch rs b) v s).2 ∧
    LabelsAligned sim (trial sim (.compExch rs b) v s).2 ∧
    (trial sim (.compExch rs b) v s).2.ctx.addedIdx = [] ∧ (trial sim (.compExch rs b) v s).2.ctx.deletedIdx = [] ∧
    (trial sim (.compExch rs b) v s).2.ctx.delta = 0 ∧ FixedOK (trial sim (.compExch rs b) v s).2.atoms :=
  have g := ginv_trial_compExch sim he rs b v s L h hL hlen
  ⟨g, g.aligned, g.invg.noAdded, g.invg.noDeleted, g.delta0, g.invg.fixedOK⟩

/-- the model's own bookkeeping: `particle_delta` after the composite call IS the change `compExchChange`
    (0 for a failed call) -/
theorem compExch_call_delta (sim : Sim) (he : sim.ens = .grand) (rs : List Nat) (b : Nat) (s : State) (L : List Int)
    (h : GInv sim s) (hL : ∀ r ∈ rs, (s.obj r).labels = L) (hlen : L.length = s.atoms.rows.length) :
    (callTree (.compExch rs b) s).2.ctx.delta = compExchChange rs b s L ∧
    ((callTree (.compExch rs b) s).1 = false → compExchChange rs b s L = 0) :=
  have sp := compExch_call_spec sim he rs b s L h hL hlen
  ⟨sp.delta, fun hf => (sp.failed hf).2.2⟩

/-- **nexch_compExch**: the particle counter after the trial is the counter before, plus the number of members whose
    insertion succeeded (accepted composite insertion), minus the number of distinct labels whose atoms were removed
    (accepted composite deletion); a trial that is not accepted does not move it. -/
theorem nexch_compExch (sim : Sim) (he : sim.ens = .grand) (rs : List Nat) (b : Nat) (v : Bool) (s : State)
    (L : List Int) (h : GInv sim s) (hL : ∀ r ∈ rs, (s.obj r).labels = L)
    (hlen : L.length = s.atoms.rows.length) :
    (trial sim (.compExch rs b) v s).2.ctx.nExch =
      s.ctx.nExch + (if (trial sim (.compExch rs b) v s).1 = .accepted then compExchChange rs b s L else 0) := by
  have sp := compExch_call_spec sim he rs b s L h hL hlen
  rw [trial_eq]
  cases hok : (callTree (.compExch rs b) s).1 with
  | false => simp [sp.nExch]
  | true =>
    cases v with
    | false => simp [revertState, he, sp.nExch]
    | true => simp [saveState, he, ctxSave, sp.nExch, sp.delta]

/-- the same through the model's bookkeeping field: an accepted trial moves the counter by `ctx.delta` after the call -/
theorem nexch_compExch_delta (sim : Sim) (he : sim.ens = .grand) (rs : List Nat) (b : Nat) (s : State)
    (L : List Int) (h : GInv sim s) (hL : ∀ r ∈ rs, (s.obj r).labels = L)
    (hlen : L.length = s.atoms.rows.length)
    (hacc : (trial sim (.compExch rs b) true s).1 = .accepted) :
    (trial sim (.compExch rs b) true s).2.ctx.nExch = s.ctx.nExch + (callTree (.compExch rs b) s).2.ctx.delta := by
  have sp := compExch_call_spec sim he rs b s L h hL hlen
  have hok := ((trial_accepted_iff sim _ true s).1 hacc).2
  rw [trial_eq]
  simp only [hok, if_true]
  simp [saveState, he, ctxSave, sp.nExch]

/-- **a trial that is not accepted leaves the atoms exactly as they were** (rows, cell, constraints) -/
theorem compExch_not_accepted_atoms (sim : Sim) (he : sim.ens = .grand) (rs : List Nat) (b : Nat) (v : Bool)
    (s : State) (L : List Int) (h : GInv sim s) (hL : ∀ r ∈ rs, (s.obj r).labels = L)
    (hlen : L.length = s.atoms.rows.length) (hna : (trial sim (.compExch rs b) v s).1 ≠ .accepted) :
    (trial sim (.compExch rs b) v s).2.atoms = s.atoms := by
  have sp := compExch_call_spec sim he rs b s L h hL hlen
  rw [trial_eq] at hna ⊢
  cases hok : (callTree (.compExch rs b) s).1 with
  | false => simp only [Bool.false_eq_true, if_false]; exact (sp.failed hok).2.1
  | true =>
    cases v with
    | false => simp only [if_true, Bool.false_eq_true, if_false]; exact sp.rejected hok
    | true => simp [hok] at hna

/-- **accepted composite insertion, the atoms**: the old rows are an untouched prefix, cell and constraints are kept,
    at least one member succeeded, every successful member appended at least one row, and with particles of `k` atoms
    (`k` = size of the template and of every member's pre-selected `to_add_atoms`) exactly `k` rows per successful
    member were appended. -/
theorem compExch_insertion_atoms (sim : Sim) (he : sim.ens = .grand) (rs : List Nat) (b : Nat) (s : State)
    (h : GInv sim s) (hadd : s.inp.draw.1 < b) (hacc : (trial sim (.compExch rs b) true s).1 = .accepted) :
    let s' := (trial sim (.compExch rs b) true s).2
    0 < compExchInserted rs s ∧
    s'.atoms.rows.take s.atoms.rows.length = s.atoms.rows ∧ s'.atoms.cell = s.atoms.cell ∧
    s'.atoms.fixed = s.atoms.fixed ∧
    s.atoms.rows.length + compExchInserted rs s ≤ s'.atoms.rows.length ∧
    (∀ k, s.ctx.template.length = k → (∀ r ∈ rs, (toAddOf (s.obj r) s.ctx).length = k) →
      s'.atoms.rows.length = s.atoms.rows.length + k * compExchInserted rs s) := by
  obtain ⟨K', hK, hle, _, _, _, hok, huni⟩ := compExch_insertion_call rs b s h.invg h.templ hadd
  have hokt := ((trial_accepted_iff sim _ true s).1 hacc).2
  have hsa : (trial sim (.compExch rs b) true s).2.atoms = (callTree (.compExch rs b) s).2.atoms := by
    rw [trial_eq]; simp [hokt, saveState, he, ctxSave]
  simp only [hsa]
  refine ⟨hok.1 hokt, hK.take, hK.cell, hK.fixed, by rw [hK.len]; omega, ?_⟩
  intro k hk hall
  rw [hK.len, huni k hk hall]

/-- **accepted composite deletion, the atoms**: the atoms removed are `compExchDelIdx` (non-empty, pairwise distinct),
    an atom is removed iff its label is one of the `removedLabels` — whole particles go —, and the number of rows drops
    by the number of removed atoms, which is at least the number of removed particles. -/
theorem compExch_deletion_atoms (sim : Sim) (he : sim.ens = .grand) (rs : List Nat) (b : Nat) (s : State)
    (L : List Int) (hL : ∀ r ∈ rs, (s.obj r).labels = L) (hlen : L.length = s.atoms.rows.length)
    (hdel : ¬ s.inp.draw.1 < b) (hacc : (trial sim (.compExch rs b) true s).1 = .accepted) :
    let s' := (trial sim (.compExch rs b) true s).2
    let idx := compExchDelIdx rs s
    s'.atoms = s.atoms.delete idx ∧ idx ≠ [] ∧ idx.Nodup ∧
    (∀ i, i ∈ idx ↔ ∃ l ∈ removedLabels L idx, L[i]? = some l) ∧
    (∀ l ∈ removedLabels L idx, l ∈ L ∧ 0 ≤ l) ∧
    s'.atoms.rows.length + idx.length = s.atoms.rows.length ∧
    0 < (removedLabels L idx).length ∧ (removedLabels L idx).length ≤ idx.length ∧
    ((∀ l, (whereEq L l).length ≤ 1) → idx.length = (removedLabels L idx).length) := by
  obtain ⟨hD, _, hok, _, hcons⟩ := compExch_deletion_call rs b s L hL hdel
  have hokt := ((trial_accepted_iff sim _ true s).1 hacc).2
  have hsa : (trial sim (.compExch rs b) true s).2.atoms = (callTree (.compExch rs b) s).2.atoms := by
    rw [trial_eq]; simp [hokt, saveState, he, ctxSave]
  have hx : compExchDelIdx rs s ≠ [] := by
    intro hx; rw [hok, hx] at hokt; cases hokt
  have hvalid : ∀ i ∈ compExchDelIdx rs s, i < s.atoms.rows.length := by
    intro i hi; rw [← hlen]; exact hD.valid i hi
  have hmemR : ∀ x, x ∈ removedLabels L (compExchDelIdx rs s) ↔ x ∈ compExchDelLabels rs s := by
    intro x; unfold removedLabels; rw [List.mem_eraseDups]; exact hD.labels_of_idx x
  have hlenR : (removedLabels L (compExchDelIdx rs s)).length = (compExchDelLabels rs s).length := hD.distinct
  simp only [hsa, (hcons hx).1]
  refine ⟨trivial, hx, hD.idxNodup, ?_, ?_, ?_, ?_, ?_, ?_⟩
  · intro i
    rw [hD.mem i]
    constructor
    · rintro ⟨l, hl, hg⟩; exact ⟨l, (hmemR l).2 hl, hg⟩
    · rintro ⟨l, hl, hg⟩; exact ⟨l, (hmemR l).1 hl, hg⟩
  · intro l hl; exact hD.inUse l ((hmemR l).1 hl)
  · simp only [AtomsS.delete]; exact deleteIdx_lengthG s.atoms.rows _ hD.idxNodup hvalid
  · rw [hlenR]
    cases hc : compExchDelLabels rs s with
    | nil => exact absurd (hD.idx_nil_iff.2 hc) hx
    | cons a as => simp
  · rw [hlenR]; exact hD.length_le
  · intro h1
    rw [hlenR]
    apply hD.length_eq
    intro l hl
    obtain ⟨i, _, hg⟩ := hD.label_has_atom l hl
    have hpos : 0 < (whereEq L l).length :=
      List.length_pos_iff.mpr (List.ne_nil_of_mem ((whereEq_mem L l i).2 hg))
    have := h1 l
    omega

/-- **single-atom particles**: with a one-atom template (and one-atom pre-selections) and labels each carried by at
    most one atom, the number of atoms after ANY composite exchange trial is the number before plus the change of the
    counter — `rows.length' = rows.length + (nExch' − nExch)`. -/
theorem compExch_rows_single (sim : Sim) (he : sim.ens = .grand) (rs : List Nat) (b : Nat) (v : Bool) (s : State)
    (L : List Int) (h : GInv sim s) (hL : ∀ r ∈ rs, (s.obj r).labels = L)
    (hlen : L.length = s.atoms.rows.length) (ht1 : s.ctx.template.length = 1)
    (hadd1 : ∀ r ∈ rs, (toAddOf (s.obj r) s.ctx).length = 1) (hL1 : ∀ l, (whereEq L l).length ≤ 1) :
    ((trial sim (.compExch rs b) v s).2.atoms.rows.length : Int) =
      s.atoms.rows.length + ((trial sim (.compExch rs b) v s).2.ctx.nExch - s.ctx.nExch) := by
  rw [nexch_compExch sim he rs b v s L h hL hlen]
  by_cases hacc : (trial sim (.compExch rs b) v s).1 = .accepted
  · have hv : v = true := ((trial_accepted_iff sim _ v s).1 hacc).1
    subst hv
    simp only [hacc, if_true]
    by_cases hadd : s.inp.draw.1 < b
    · obtain ⟨_, _, _, _, _, hrows⟩ := compExch_insertion_atoms sim he rs b s h hadd hacc
      rw [hrows 1 ht1 hadd1]
      simp only [compExchChange, hadd, if_true]
      push_cast
      omega
    · obtain ⟨_, _, _, _, _, hrows, _, _, hsingle⟩ := compExch_deletion_atoms sim he rs b s L hL hlen hadd hacc
      have := hsingle hL1
      simp only [compExchChange, hadd, if_false]
      omega
  · rw [compExch_not_accepted_atoms sim he rs b v s L h hL hlen hacc]
    simp only [hacc, if_false]
    omega

theorem ginv_of_inp (sim : Sim) (s : State) (i : Inputs) (h : GInv sim s) : GInv sim ({ s with inp := i } : State) :=
  ⟨⟨h.invg.1, h.invg.2, h.invg.3, h.invg.4, h.invg.5, h.invg.6, h.invg.7⟩, h.delta0, h.aligned, h.templ⟩

/-! ### the label arrays after the trial; the hypotheses reproduce themselves -/

theorem onAtomsChangedObj_labels_congr (m m' : MoveObj) (a r : List Nat) (hl : m'.labels = m.labels)
    (hd : m'.defaultLabel = m.defaultLabel) :
    (onAtomsChangedObj m' a r).labels = (onAtomsChangedObj m a r).labels := by
  simp [onAtomsChangedObj, hl, hd]

/-- **what the trial does to the move objects**: number, kinds and configured labels are kept; the notifications
    `on_atoms_changed(added, removed)` of the trial — ONE PER INSERTED PARTICLE, the removed rows in the last one — are applied
    to the label array of every label-bearing object of the table (the same for all of them; none when the trial is not
    accepted), every other label array is untouched. -/
theorem compExch_trial_heap (sim : Sim) (he : sim.ens = .grand) (rs : List Nat) (b : Nat) (v : Bool) (s : State)
    (L : List Int) (h : GInv sim s) (hL : ∀ r ∈ rs, (s.obj r).labels = L)
    (hlen : L.length = s.atoms.rows.length) :
    ∃ sizes added removed : List Nat,
      (trial sim (.compExch rs b) v s).2.heap.length = s.heap.length ∧
      ∀ r, ((trial sim (.compExch rs b) v s).2.obj r).kind = (s.obj r).kind ∧
        ((trial sim (.compExch rs b) v s).2.obj r).defaultLabel = (s.obj r).defaultLabel ∧
        ((trial sim (.compExch rs b) v s).2.obj r).labels =
          if r ∈ tableRefs sim ∧ r < s.heap.length ∧ labelBearing (s.obj r).kind = true
          then (onPartsObj (s.obj r) sizes added removed).labels else (s.obj r).labels := by
  have sp := compExch_call_spec sim he rs b s L h hL hlen
  rw [trial_eq]
  generalize callTree (.compExch rs b) s = res at sp ⊢
  have static : ∀ s1 : State, HeapStatic s.heap s1.heap →
      ∃ sizes added removed : List Nat, s1.heap.length = s.heap.length ∧
        ∀ r, (s1.obj r).kind = (s.obj r).kind ∧ (s1.obj r).defaultLabel = (s.obj r).defaultLabel ∧
          (s1.obj r).labels =
            if r ∈ tableRefs sim ∧ r < s.heap.length ∧ labelBearing (s.obj r).kind = true
            then (onPartsObj (s.obj r) sizes added removed).labels else (s.obj r).labels := by
    intro s1 hs
    refine ⟨[], [], [], hs.1, fun r => ⟨(hs.2 r).1, (hs.2 r).2.2, ?_⟩⟩
    rw [onPartsObj_nil, ite_self]
    exact (hs.2 r).2.1
  cases hok : res.1 with
  | false => simp only [Bool.false_eq_true, if_false]; exact static _ sp.heap
  | true =>
    cases v with
    | false =>
      simp only [if_true, Bool.false_eq_true, if_false]
      exact static _ (by rw [revertState_shape]; exact sp.heap)
    | true =>
      simp only [if_true]
      have hsh : (saveState sim res.2).heap =
          notifyParts (tableRefs sim) res.2.ctx.addedSizes res.2.ctx.addedIdx res.2.ctx.deletedIdx res.2.heap := by
        simp [saveState, he, ctxSave, tableRefs]
      have hnd : (tableRefs sim).Nodup := nodup_eraseDups' _
      refine ⟨res.2.ctx.addedSizes, res.2.ctx.addedIdx, res.2.ctx.deletedIdx, ?_, fun r => ?_⟩
      · rw [hsh]; exact ((notifyParts_shape _ _ _ _ _).1).trans sp.heap.1
      · have hobj : (saveState sim res.2).obj r =
            (notifyParts (tableRefs sim) res.2.ctx.addedSizes res.2.ctx.addedIdx res.2.ctx.deletedIdx res.2.heap).getD r
              { kind := .user } := by simp [State.obj, hsh]
        have hst := sp.heap.2 r
        have hk : (res.2.heap.getD r { kind := .user }).kind = (s.obj r).kind := hst.1
        have hl : (res.2.heap.getD r { kind := .user }).labels = (s.obj r).labels := hst.2.1
        have hdl : (res.2.heap.getD r { kind := .user }).defaultLabel = (s.obj r).defaultLabel := hst.2.2
        rw [hobj, notifyParts_spec _ _ _ _ _ hnd r, sp.heap.1, hk]
        by_cases hc : r ∈ tableRefs sim ∧ r < s.heap.length ∧ labelBearing (s.obj r).kind = true
        · rw [if_pos hc, if_pos hc]
          exact ⟨(onPartsObj_static _ _ _ _).1.trans hk, (onPartsObj_static _ _ _ _).2.trans hdl,
            onPartsObj_labels_congr _ _ _ _ _ hl hdl⟩
        · rw [if_neg hc, if_neg hc]
          exact ⟨hk, hdl, hl⟩

/-- **composite_insertion_labels** — "the atoms of one inserted particle share one label and distinct particles have distinct
    labels", for composite moves: after an ACCEPTED composite insertion every label-bearing move of the table without a
    configured label has its old labels followed by `n₁` times `fresh`, `n₂` times `fresh + 1`, … for the particles the trial
    inserted (sizes `n₁ … n_k`, all positive, at least one), `fresh` being the move's next free label. -/
theorem composite_insertion_labels (sim : Sim) (he : sim.ens = .grand) (rs : List Nat) (b : Nat) (s : State)
    (h : GInv sim s) (hadd : s.inp.draw.1 < b) (hacc : (trial sim (.compExch rs b) true s).1 = .accepted)
    (r : Nat) (hr : r ∈ tableRefs sim) (hlt : r < s.heap.length) (hlb : labelBearing (s.obj r).kind = true)
    (hd : (s.obj r).defaultLabel = none) :
    ∃ sizes : List Nat, sizes ≠ [] ∧ (∀ n ∈ sizes, 0 < n) ∧
      ((trial sim (.compExch rs b) true s).2.obj r).labels
        = (s.obj r).labels ++ partLabels (newLabel (s.obj r).labels none) sizes := by
  obtain ⟨K', hK, hle, _, _, hheap, hok, _⟩ := compExch_insertion_call rs b s h.invg h.templ hadd
  obtain ⟨_, f2, _, _, _, _⟩ := addInv_fields _ _ _ _ hK
  have hcall : (callTree (.compExch rs b) s).1 = true := ((trial_accepted_iff sim _ true s).1 hacc).2
  have htr : (trial sim (.compExch rs b) true s).2 = saveState sim (callTree (.compExch rs b) s).2 := by
    rw [trial_eq, hcall]; rfl
  rw [htr]
  have hins : 0 < compExchInserted rs s := hok.1 hcall
  generalize callTree (.compExch rs b) s = res at *
  have hsum : res.2.ctx.addedSizes.sum = res.2.ctx.addedIdx.length := by
    rw [hK.sizesSum, h.invg.noSizes, hK.added]; simp
  have hpos : ∀ n ∈ res.2.ctx.addedSizes, 0 < n := by
    intro n hn
    rcases hK.sizesPos n hn with h1 | h1
    · rw [h.invg.noSizes] at h1; cases h1
    · exact h1
  have hne : res.2.ctx.addedSizes ≠ [] := by
    intro hnil
    have : res.2.ctx.addedSizes.sum = 0 := by rw [hnil]; rfl
    rw [hK.sizesSum, h.invg.noSizes] at this
    simp at this
    omega
  have hdel : res.2.ctx.deletedIdx = [] := by rw [f2]; exact h.invg.noDeleted
  have hsh : (saveState sim res.2).heap =
      notifyParts (tableRefs sim) res.2.ctx.addedSizes res.2.ctx.addedIdx [] res.2.heap := by
    simp [saveState, he, ctxSave, tableRefs, hdel]
  have hnd : (tableRefs sim).Nodup := nodup_eraseDups' _
  have hst := hheap.2 r
  have hk1 : (res.2.heap.getD r { kind := .user }).kind = (s.obj r).kind := hst.1
  have hl1 : (res.2.heap.getD r { kind := .user }).labels = (s.obj r).labels := hst.2.1
  have hd1 : (res.2.heap.getD r { kind := .user }).defaultLabel = (s.obj r).defaultLabel := hst.2.2
  refine ⟨res.2.ctx.addedSizes, hne, hpos, ?_⟩
  have hobj : (saveState sim res.2).obj r =
      (notifyParts (tableRefs sim) res.2.ctx.addedSizes res.2.ctx.addedIdx [] res.2.heap).getD r { kind := .user } := by
    simp [State.obj, hsh]
  rw [hobj, notifyParts_spec _ _ _ _ _ hnd r, hheap.1, hk1]
  simp only [hr, hlt, hlb, and_self, if_true]
  rw [onPartsObj_insert_labels _ (by rw [hd1, hd]) _ _ hne hpos hsum, hl1]

/-- the members of a composite exchange move: exchange moves of the table that share one labelling and one
    configured label -/
structure CompMembers (sim : Sim) (s : State) (rs : List Nat) : Prop where
  member : ∀ r ∈ rs, (s.obj r).kind = .exch ∧ r ∈ tableRefs sim ∧ r < s.heap.length
  shared : ∀ r ∈ rs, ∀ r' ∈ rs, (s.obj r').labels = (s.obj r).labels ∧
    (s.obj r').defaultLabel = (s.obj r).defaultLabel

/-- the labelling the members share (any array of the right length when there is no member) -/
def sharedLabels (rs : List Nat) (s : State) : List Int :=
  match rs with
  | [] => List.replicate s.atoms.rows.length 0
  | r :: _ => (s.obj r).labels

/-- under `GInv`, `CompMembers` gives the hypotheses of the theorems above -/
theorem compMembers_shared (sim : Sim) (s : State) (rs : List Nat) (h : GInv sim s) (hm : CompMembers sim s rs) :
    (∀ r ∈ rs, (s.obj r).labels = sharedLabels rs s) ∧ (sharedLabels rs s).length = s.atoms.rows.length := by
  cases rs with
  | nil => simp [sharedLabels]
  | cons r0 rs =>
    refine ⟨fun r hr => (hm.shared r0 (by simp) r hr).1, ?_⟩
    obtain ⟨hk, ht, hl⟩ := hm.member r0 (by simp)
    exact h.aligned r0 ht hl (by simp [labelBearing, hk])

/-- **the hypotheses reproduce themselves**: after ANY outcome of a composite exchange trial, members (of this or of any
    other composite of the table) that shared labelling and configured label still do — so the trial can be repeated. -/
theorem compMembers_trial (sim : Sim) (he : sim.ens = .grand) (rs : List Nat) (b : Nat) (v : Bool) (s : State)
    (L : List Int) (h : GInv sim s) (hL : ∀ r ∈ rs, (s.obj r).labels = L)
    (hlen : L.length = s.atoms.rows.length) (rs' : List Nat) (hm : CompMembers sim s rs') :
    CompMembers sim (trial sim (.compExch rs b) v s).2 rs' := by
  obtain ⟨sizes, added, removed, hlenH, hobj⟩ := compExch_trial_heap sim he rs b v s L h hL hlen
  have hcond : ∀ r ∈ rs', r ∈ tableRefs sim ∧ r < s.heap.length ∧ labelBearing (s.obj r).kind = true := by
    intro r hr
    obtain ⟨hk, ht, hl⟩ := hm.member r hr
    exact ⟨ht, hl, by simp [labelBearing, hk]⟩
  refine ⟨?_, ?_⟩
  · intro r hr
    obtain ⟨hk, ht, hl⟩ := hm.member r hr
    exact ⟨by rw [(hobj r).1]; exact hk, ht, by rw [hlenH]; exact hl⟩
  · intro r hr r' hr'
    obtain ⟨hsl, hsd⟩ := hm.shared r hr r' hr'
    rw [(hobj r).2.2, (hobj r').2.2, if_pos (hcond r hr), if_pos (hcond r' hr'), (hobj r).2.1, (hobj r').2.1]
    exact ⟨onPartsObj_labels_congr _ _ _ _ _ hsl hsd, hsd⟩

/-! ### mixed grand-canonical histories with composite exchange trials -/

inductive YKind
  | pos (t : Tree)                        -- displacement-type tree
  | exch (r : Nat)                        -- a bare exchange move
  | compExch (rs : List Nat) (b : Nat)    -- a composite exchange move

structure YTrial where
  kind : YKind
  verdict : Bool
  inp : Inputs

def YTrial.tree (t : YTrial) : Tree :=
  match t.kind with
  | .pos tr => tr
  | .exch r => .leaf r
  | .compExch rs b => .compExch rs b

def ystep (sim : Sim) (t : YTrial) (s : State) : Outcome × State :=
  trial sim t.tree t.verdict { s with inp := t.inp }

def runY (sim : Sim) : List YTrial → State → State
  | [], s => s
  | t :: ts, s => runY sim ts (ystep sim t s).2

/-- the change of the particle number one trial makes, read off the atoms / the selection, not off the counter -/
def stepChangeY (sim : Sim) (t : YTrial) (s : State) : Int :=
  match t.kind with
  | .compExch rs b =>
    if (ystep sim t s).1 = .accepted then compExchChange rs b { s with inp := t.inp } (sharedLabels rs s) else 0
  | _ => counterStep s (ystep sim t s).2

def netChangeY (sim : Sim) : List YTrial → State → Int
  | [], _ => 0
  | t :: ts, s => stepChangeY sim t s + netChangeY sim ts (ystep sim t s).2

/-- well-formedness of the scheduled trials, checked as the history unfolds -/
def YHistoryOK (sim : Sim) : List YTrial → State → Prop
  | [], _ => True
  | t :: ts, s =>
    (match t.kind with
     | .pos tr => (∀ r ∈ tr.refs, r < s.heap.length) ∧ PosTree s tr
     | .exch r => (s.obj r).kind = .exch ∧ r ∈ tableRefs sim ∧ r < s.heap.length
     | .compExch rs _ => CompMembers sim s rs) ∧
    YHistoryOK sim ts (ystep sim t s).2

def AllRestoredY (sim : Sim) : List YTrial → State → Prop
  | [], _ => True
  | t :: ts, s =>
    ((ystep sim t s).1 ≠ .accepted → (ystep sim t s).2.atoms = s.atoms) ∧ AllRestoredY sim ts (ystep sim t s).2

theorem ystep_spec (sim : Sim) (he : sim.ens = .grand) (t : YTrial) (s : State) (h : GInv sim s)
    (hok : match t.kind with
           | .pos tr => (∀ r ∈ tr.refs, r < s.heap.length) ∧ PosTree s tr
           | .exch r => (s.obj r).kind = .exch ∧ r ∈ tableRefs sim ∧ r < s.heap.length
           | .compExch rs _ => CompMembers sim s rs) :
    GInv sim (ystep sim t s).2 ∧ (ystep sim t s).2.ctx.nExch = s.ctx.nExch + stepChangeY sim t s ∧
    ((ystep sim t s).1 ≠ .accepted → (ystep sim t s).2.atoms = s.atoms) := by
  cases hk : t.kind with
  | pos tr =>
    rw [hk] at hok
    have := gstep_spec sim he ⟨.pos tr, t.verdict, t.inp⟩ s h hok
    simpa [ystep, YTrial.tree, stepChangeY, hk, gstep, GTrial.tree] using this
  | exch r =>
    rw [hk] at hok
    have := gstep_spec sim he ⟨.exch r, t.verdict, t.inp⟩ s h hok
    simpa [ystep, YTrial.tree, stepChangeY, hk, gstep, GTrial.tree] using this
  | compExch rs b =>
    rw [hk] at hok
    have h' := ginv_of_inp sim s t.inp h
    have hm' : CompMembers sim ({ s with inp := t.inp } : State) rs := ⟨hok.member, hok.shared⟩
    obtain ⟨hL, hlen⟩ := compMembers_shared sim _ rs h' hm'
    have hsl : sharedLabels rs ({ s with inp := t.inp } : State) = sharedLabels rs s := by
      cases rs <;> rfl
    rw [hsl] at hL hlen
    have g1 := ginv_trial_compExch sim he rs b t.verdict _ _ h' hL hlen
    have g2 := nexch_compExch sim he rs b t.verdict _ _ h' hL hlen
    have g3 := compExch_not_accepted_atoms sim he rs b t.verdict _ _ h' hL hlen
    simp only [ystep, YTrial.tree, stepChangeY, hk]
    exact ⟨g1, g2, g3⟩

/-- **gc_mixed_history_x**: along ANY history of displacement-type trials, single insertions / deletions and composite
    insertions / deletions — accepted, rejected or failed — the bookkeeping invariant holds after every trial, the
    particle counter is its initial value plus the net change of the particle number, and every trial that is not
    accepted left the atoms exactly as they were. -/
theorem gc_mixed_history_x (sim : Sim) (he : sim.ens = .grand) (ts : List YTrial) (s : State) (h : GInv sim s)
    (hok : YHistoryOK sim ts s) :
    GInv sim (runY sim ts s) ∧ (runY sim ts s).ctx.nExch = s.ctx.nExch + netChangeY sim ts s ∧
    AllRestoredY sim ts s := by
  induction ts generalizing s with
  | nil => exact ⟨h, by simp [runY, netChangeY], trivial⟩
  | cons t ts ih =>
    obtain ⟨hk, hrest⟩ := hok
    obtain ⟨g1, g2, g3⟩ := ystep_spec sim he t s h hk
    obtain ⟨i1, i2, i3⟩ := ih _ g1 hrest
    refine ⟨i1, ?_, g3, i3⟩
    simp only [runY, netChangeY]
    rw [i2, g2]; omega

/-! ### non-vacuity: a concrete accepted composite deletion and insertion -/

/-- table: one composite exchange move over the exchange objects 0 and 1, and a displacement move (object 2) -/
def c5xSim : Sim := { ens := .grand, table := [{ name := "xx", oid := 0, tree := .compExch [0, 1] 500 },
                                               { name := "d", oid := 1, tree := .leaf 2 }] }

/-- three one-atom particles (labels 0, 1, 2 for both exchange members), the last atom fixed -/
def c5xState (inp : Inputs) : State :=
  { atoms := { rows := [⟨(0,0,0), (0,0,0), [29]⟩, ⟨(2,0,0), (0,0,0), [29]⟩, ⟨(4,0,0), (0,0,0), [29]⟩],
               cell := (9,9,9), fixed := some [2] },
    heap := [{ kind := .exch, labels := [0, 1, 2] }, { kind := .exch, labels := [0, 1, 2] },
             { kind := .disp, labels := [7, 7, -1] }],
    ctx := { lastPos := [(0,0,0), (2,0,0), (4,0,0)], template := [⟨(1,1,1), (0,0,0), [1]⟩], nExch := 3 },
    inp := inp }

theorem c5x_ginv (inp : Inputs) : GInv c5xSim (c5xState inp) := by
  have h0 : GInv c5xSim (c5xState {}) := by
    refine ⟨⟨rfl, rfl, rfl, rfl, rfl, ?_, rfl⟩, rfl, ?_, ?_⟩
    · simp [FixedOK, c5xState]
    · unfold LabelsAligned; decide
    · simp [c5xState]
  exact ginv_of_inp c5xSim (c5xState {}) inp h0

/-- the hypotheses of the theorems hold for the members 0 and 1 -/
theorem c5x_members (inp : Inputs) :
    (∀ r ∈ [0, 1], ((c5xState inp).obj r).kind = .exch ∧ r ∈ tableRefs c5xSim ∧ r < (c5xState inp).heap.length) ∧
    (∀ r ∈ [0, 1], ((c5xState inp).obj r).labels = [0, 1, 2]) ∧
    ([0, 1, 2] : List Int).length = (c5xState inp).atoms.rows.length := by
  have h0 : (∀ r ∈ [0, 1], ((c5xState {}).obj r).kind = .exch ∧ r ∈ tableRefs c5xSim ∧
        r < (c5xState {}).heap.length) ∧
      (∀ r ∈ [0, 1], ((c5xState {}).obj r).labels = [0, 1, 2]) ∧
      ([0, 1, 2] : List Int).length = (c5xState {}).atoms.rows.length := by decide
  exact h0

/-- draw 999 ≥ 500: deletion; member 0 picks label 0, member 1 picks label 1 -/
def c5xDel : State := c5xState { draws := [999, 0, 0] }
/-- draw 0 < 500: insertion; both members insert one particle, no veto -/
def c5xIns : State := c5xState { draws := [0], ops := [(1,2,3), (3,2,1)], checks := [true, true] }

-- accepted composite deletion: two particles (labels 0 and 1, atoms 0 and 1) go, one atom is left, every label array
-- of the table follows, the fixed atom is renumbered, the counter goes 3 → 1
example : ¬ c5xDel.inp.draw.1 < 500 ∧
    (trial c5xSim (.compExch [0, 1] 500) true c5xDel).1 = .accepted ∧
    compExchDelIdx [0, 1] c5xDel = [0, 1] ∧ removedLabels [0, 1, 2] (compExchDelIdx [0, 1] c5xDel) = [0, 1] ∧
    compExchChange [0, 1] 500 c5xDel [0, 1, 2] = -2 ∧
    (trial c5xSim (.compExch [0, 1] 500) true c5xDel).2.atoms =
      { rows := [⟨(4,0,0), (0,0,0), [29]⟩], cell := (9,9,9), fixed := some [0] } ∧
    ((trial c5xSim (.compExch [0, 1] 500) true c5xDel).2.heap.map (·.labels)) = [[2], [2], [-1]] ∧
    (trial c5xSim (.compExch [0, 1] 500) true c5xDel).2.ctx.nExch = 1 ∧
    (trial c5xSim (.compExch [0, 1] 500) true c5xDel).2.ctx.delta = 0 := by decide

-- accepted composite insertion: two particles come, five atoms, every label array of the table has five labels
-- (one new label per particle: the driver notifies once per inserted particle), counter 3 → 5
example : c5xIns.inp.draw.1 < 500 ∧
    (trial c5xSim (.compExch [0, 1] 500) true c5xIns).1 = .accepted ∧
    compExchInserted [0, 1] c5xIns = 2 ∧ compExchChange [0, 1] 500 c5xIns [0, 1, 2] = 2 ∧
    (trial c5xSim (.compExch [0, 1] 500) true c5xIns).2.atoms.rows.length = 5 ∧
    ((trial c5xSim (.compExch [0, 1] 500) true c5xIns).2.heap.map (·.labels)) =
      [[0, 1, 2, 3, 4], [0, 1, 2, 3, 4], [7, 7, -1, 8, 9]] ∧
    (trial c5xSim (.compExch [0, 1] 500) true c5xIns).2.ctx.nExch = 5 ∧
    (trial c5xSim (.compExch [0, 1] 500) true c5xIns).2.ctx.delta = 0 := by decide

-- `composite_insertion_labels` on that trial: its hypotheses are met, and the sizes it speaks of are 1 and 1
example : ∃ sizes : List Nat, sizes ≠ [] ∧ (∀ n ∈ sizes, 0 < n) ∧
    ((trial c5xSim (.compExch [0, 1] 500) true c5xIns).2.obj 0).labels
      = (c5xIns.obj 0).labels ++ partLabels (newLabel (c5xIns.obj 0).labels none) sizes :=
  composite_insertion_labels c5xSim rfl [0, 1] 500 c5xIns (c5x_ginv _) (by decide) (by decide) 0 (by decide) (by decide)
    (by decide) (by decide)
example : partLabels 3 [1, 1] = [3, 4] ∧ partLabels 3 [2, 1, 3] = [3, 3, 4, 5, 5, 5] := by decide

-- the general theorems instantiated on the two concrete trials
example : GInv c5xSim (trial c5xSim (.compExch [0, 1] 500) true c5xDel).2 :=
  ginv_trial_compExch c5xSim rfl [0, 1] 500 true c5xDel [0, 1, 2] (c5x_ginv _) (c5x_members _).2.1 (c5x_members _).2.2
example : GInv c5xSim (trial c5xSim (.compExch [0, 1] 500) true c5xIns).2 :=
  ginv_trial_compExch c5xSim rfl [0, 1] 500 true c5xIns [0, 1, 2] (c5x_ginv _) (c5x_members _).2.1 (c5x_members _).2.2

instance (sim : Sim) (s : State) (rs : List Nat) : Decidable (CompMembers sim s rs) :=
  decidable_of_iff
    ((∀ r ∈ rs, (s.obj r).kind = .exch ∧ r ∈ tableRefs sim ∧ r < s.heap.length) ∧
     (∀ r ∈ rs, ∀ r' ∈ rs, (s.obj r').labels = (s.obj r).labels ∧ (s.obj r').defaultLabel = (s.obj r).defaultLabel))
    ⟨fun h => ⟨h.1, h.2⟩, fun h => ⟨h.member, h.shared⟩⟩

-- a four-trial history: accepted composite deletion (−2), rejected composite insertion, accepted composite insertion
-- (+2), accepted single deletion (−1): counter 3 → 1 → 1 → 3 → 2, two atoms left, all label arrays aligned
def c5xHistory : List YTrial :=
  [⟨.compExch [0, 1] 500, true, { draws := [999, 0, 0] }⟩,
   ⟨.compExch [0, 1] 500, false, { draws := [0], ops := [(1,2,3)], checks := [true] }⟩,
   ⟨.compExch [0, 1] 500, true, { draws := [0], ops := [(1,2,3), (3,2,1)], checks := [true, true] }⟩,
   ⟨.exch 0, true, { draws := [999, 0] }⟩]

example : YHistoryOK c5xSim c5xHistory (c5xState {}) := by
  simp only [c5xHistory, YHistoryOK]
  decide

example : netChangeY c5xSim c5xHistory (c5xState {}) = -1 ∧
    (runY c5xSim c5xHistory (c5xState {})).ctx.nExch = 2 ∧
    ((runY c5xSim c5xHistory (c5xState {})).heap.map (·.labels)) = [[3, 4], [3, 4], [0, 1]] ∧
    (runY c5xSim c5xHistory (c5xState {})).atoms.rows.length = 2 := by decide

/-! ### limits of the hypotheses (concrete witnesses) -/

def c5ySim : Sim := { ens := .grand, table := [{ name := "xx", oid := 0, tree := .compExch [0, 1] 500 }] }
def c5yState (dflt : Option Int) (inp : Inputs) : State :=
  { atoms := { rows := [⟨(0,0,0), (0,0,0), [29]⟩, ⟨(2,0,0), (0,0,0), [29]⟩], cell := (9,9,9), fixed := none },
    heap := [{ kind := .exch, labels := [0, 1] }, { kind := .exch, labels := [0, 1], defaultLabel := dflt }],
    ctx := { lastPos := [(0,0,0), (2,0,0)], template := [⟨(1,1,1), (0,0,0), [1]⟩], nExch := 2 },
    inp := inp }

/-- `compMembers_trial` needs the members to share the configured label: with `default_label` `None` for one member
    and `0` for the other, an accepted composite insertion leaves the two members with DIFFERENT label arrays (both
    still aligned with the atoms), so the shared-labelling hypothesis does not hold for the next composite trial. -/
theorem shared_labelling_needs_equal_defaults :
    ((trial c5ySim (.compExch [0, 1] 500) true
        (c5yState (some 0) { draws := [0], ops := [(1,2,3), (3,2,1)], checks := [true, true] })).2.heap.map (·.labels))
      = [[0, 1, 2, 3], [0, 1, 0, 0]] := by decide

/-- the counter follows the atoms through a composite insertion (it used to drift: `composite_insertion_shares_label_pinned`):
    the accepted composite insertion of two one-atom particles moves the counter 2 → 4 (4 atoms, labels 0 1 2 3), and the next
    accepted single deletion takes ONE atom away and moves the counter to 3 — with 3 atoms left. -/
theorem counter_follows_after_composite_insertion :
    let s1 := (trial c5ySim (.compExch [0, 1] 500) true
        (c5yState none { draws := [0], ops := [(1,2,3), (3,2,1)], checks := [true, true] })).2
    let s2 := (trial c5ySim (.leaf 0) true { s1 with inp := { draws := [999, 2] } }).2
    (s1.atoms.rows.length, s1.ctx.nExch) = (4, 4) ∧ (s1.obj 0).labels = [0, 1, 2, 3] ∧
    (s2.atoms.rows.length, s2.ctx.nExch) = (3, 3) ∧ (s2.obj 0).labels = [0, 1, 3] := by decide

end MM

