import QProofs.Serial
import QGen.Classes
/-!
# C07 — Restarting from any saved step continues the same trajectory

`save` = what the restart observer writes (ASE `write_json(file, obj=simulation)` → `simulation.todict()`,
which for the classes of the table is `to_dict()`: `restart_file_is_to_dict`); `load` = `read_json` →
`Cls.from_dict(data)` → re-attach a fresh calculator.  A simulation state is the serialised object tree of the
driver (settings, context state, generator state, step counter, atoms, the move table with all nested moves,
operations and criteria) plus the documented transients (one-shot preselections, `move_history`, observers,
the calculator), which `≈` ignores.  The class specs are regenerated from the live package on every run.

The step function is abstract: the theorems hold for every deterministic `step` that reads the state only
through the serialised projection (which is what the correspondence suite of the check tests on the real
drivers, move by move, at every restart point).
-/
namespace C07
open Ser

variable {V T O : Type}

/-- **The specs of the package are well-formed** (full view: also the run-time state kept on the context). -/
theorem specs_wf : ∀ c ∈ QGen.classes, wf QGen.registry c = true := by decide +kernel

/-- **The restart file is `to_dict()`.** For every driver class of the table the dictionary reached through
    `todict` (the attribute ASE's encoder looks up) has exactly the keys of `to_dict()` of the *actual* class.
    (With `todict = to_dict` bound in `MonteCarlo` this is false for every subclass: see the witness below.) -/
theorem restart_file_is_to_dict : ∀ c ∈ QGen.classes, c.kind = .driver → restartFileIsToDict c = true := by
  decide +kernel

/-- **load ∘ save.** Loading what was saved gives the same state up to the documented transients. -/
theorem load_save_equiv (reg : Reg) (scale : V → V) (dflt : Spec → Setting → V) (fresh : T)
    (s : Sim V T) (h : Obj.conf reg s.obj = true) :
    ∃ s', load reg scale dflt fresh (save s) = some s' ∧ s'.equiv s := by
  refine ⟨⟨s.obj, fresh⟩, ?_, rfl⟩
  simp [load, save, roundtrip_obj reg scale dflt s.obj h]

/-- `step` and the per-step output read the state only through the serialised projection -/
def Factors (step : Sim V T → Sim V T) (out : Sim V T → O) : Prop :=
  (∃ f : Obj V → Obj V, ∀ s, (step s).obj = f s.obj) ∧ (∃ g : Obj V → O, ∀ s, out s = g s.obj)

/-- **≈ is a bisimulation** for such a step. -/
theorem equiv_bisim (step : Sim V T → Sim V T) (out : Sim V T → O) (hf : Factors step out)
    (a b : Sim V T) (h : a.equiv b) : (step a).equiv (step b) ∧ out (step a) = out (step b) := by
  obtain ⟨⟨f, hf1⟩, ⟨g, hg⟩⟩ := hf
  have h1 : (step a).obj = (step b).obj := by rw [hf1, hf1]; exact congrArg f h
  exact ⟨h1, by rw [hg, hg, h1]⟩

theorem equiv_run (step : Sim V T → Sim V T) (out : Sim V T → O) (hf : Factors step out) :
    ∀ (n : Nat) (a b : Sim V T), a.equiv b → traceN step out n a = traceN step out n b
  | 0, _, _, _ => rfl
  | n + 1, a, b, h => by
    have hb := equiv_bisim step out hf a b h
    simp only [traceN, hb.2, equiv_run step out hf n (step a) (step b) hb.1]

theorem trace_split (step : Sim V T → Sim V T) (out : Sim V T → O) :
    ∀ (k m : Nat) (s : Sim V T),
      traceN step out (k + m) s = traceN step out k s ++ traceN step out m (runN step k s)
  | 0, m, s => by simp [traceN, runN]
  | k + 1, m, s => by
    have : k + 1 + m = (k + m) + 1 := by omega
    rw [this]
    simp only [traceN, runN, trace_split step out k m (step s), List.cons_append]

theorem trace_length (step : Sim V T → Sim V T) (out : Sim V T → O) :
    ∀ (k : Nat) (s : Sim V T), (traceN step out k s).length = k
  | 0, _ => rfl
  | k + 1, s => by simp [traceN, trace_length step out k (step s)]

/-- **Restart continues.** For every restart point `k ≤ n`: the state loaded from the file written after
    step `k`, run for the remaining `n − k` steps, produces exactly the steps `k+1 … n` of the uninterrupted
    run (atoms, energies, history, labels, counters: whatever `out` observes). -/
theorem restart_continues (reg : Reg) (scale : V → V) (dflt : Spec → Setting → V) (fresh : T)
    (step : Sim V T → Sim V T) (out : Sim V T → O) (hf : Factors step out)
    (s : Sim V T) (k n : Nat) (hk : k ≤ n) (hconf : Obj.conf reg (runN step k s).obj = true) :
    ∃ s', load reg scale dflt fresh (save (runN step k s)) = some s' ∧
      traceN step out (n - k) s' = (traceN step out n s).drop k := by
  obtain ⟨s', hl, he⟩ := load_save_equiv reg scale dflt fresh (runN step k s) hconf
  refine ⟨s', hl, ?_⟩
  have hn : n = k + (n - k) := by omega
  rw [equiv_run step out hf (n - k) s' (runN step k s) he]
  conv => rhs; rw [hn, trace_split step out k (n - k) s]
  rw [List.drop_left' (trace_length step out k s)]

/-! ## non-vacuity and witnesses -/

example : ∃ c ∈ QGen.classes, c.kind = .driver := by decide +kernel

/-- a counter-like driver spec; `step` increments the (serialised) step counter, `out` reads it -/
def drv : Spec :=
  { name := "Canonical", kind := .driver, registered := ["Canonical"], protos := [.driver], impl := .monteCarlo,
    ctorAccepts := ["atoms", "temperature", "seed"], ctorRequired := [],
    settings := [⟨"atoms", "atoms", false, true, .id, true, [(.top, "atoms")]⟩,
                 ⟨"rng_state", "_rng", false, false, .id, true, [(.top, "rng_state")]⟩,
                 ⟨"step_count", "step_count", false, false, .id, true, [(.attributes, "step_count")]⟩,
                 ⟨"temperature", "temperature", true, true, .id, true, [(.context, "temperature"), (.kwargs, "temperature")]⟩],
    slots := [], extraKwargs := [], openAttrs := true, settable := [],
    mro := [⟨"Canonical", true, none, [(.kwargs, "temperature"), (.kwargs, "seed")]⟩,
            ⟨"MonteCarlo", true, some .dynamic, [(.kwargs, "seed")]⟩] }
def drvReg : Reg := regOf [drv]
def stepD (s : Sim Nat Nat) : Sim Nat Nat :=
  match s.obj with
  | .mk c [a, r, n, t] k => ⟨.mk c [a, r + 7, n + 1, t] k, s.transient + 1⟩
  | _ => s
def outD (s : Sim Nat Nat) : List Nat := s.obj.vals
def s0 : Sim Nat Nat := ⟨.mk drv [1, 2, 0, 300] .nil, 99⟩

example : Obj.conf drvReg s0.obj = true := by decide
example : Factors stepD outD :=
  ⟨⟨fun o => match o with | .mk c [a, r, n, t] k => .mk c [a, r + 7, n + 1, t] k | o => o,
     fun s => by cases s with | mk o t => cases o with | mk c v k =>
       match v with
       | [] | [_] | [_, _] | [_, _, _] | _ :: _ :: _ :: _ :: _ :: _ => rfl
       | [_, _, _, _] => rfl⟩,
   ⟨fun o => o.vals, fun _ => rfl⟩⟩
/-- restarting after step 2 of 5 reproduces steps 3–5 -/
example : ((load drvReg (· + 0) (fun _ _ => 0) 0 (save (runN stepD 2 s0))).map (traceN stepD outD 3))
    = some ((traceN stepD outD 5 s0).drop 2) := by decide

/-- the alias `todict = to_dict` in the body of `MonteCarlo` is bound to `MonteCarlo.to_dict`: the file of a
    `Canonical` simulation lacks what `Canonical.to_dict` adds (the defect repaired by the C07 fix) -/
def drvAlias : Spec := { drv with mro :=
  [⟨"Canonical", true, none, [(.kwargs, "temperature"), (.kwargs, "seed")]⟩,
   ⟨"MonteCarlo", true, some (.aliasOf "MonteCarlo"), [(.kwargs, "seed")]⟩] }
example : restartFileIsToDict drv = true := by decide
example : restartFileIsToDict drvAlias = false ∧ keysViaTodict drvAlias = some [(.kwargs, "seed")] := by decide
/-- a driver without any `todict` (ForceBias before the fix): the encoder has nothing to call -/
example : keysViaTodict { drv with mro := [⟨"ForceBias", true, none, []⟩] } = none := by decide

end C07
