import QProofs.VerletKE
/-!
# C14 (with C02, C03) — the kinetic energy that enters the acceptance test when Hamiltonian moves sit inside a composite

Model: `QModel/Verlet.lean` (`attemptDisplacement`, `memberCall`, `compositeCall`, `hamTrial`,
`criteriaEnergyDifference`), carrier `ℝ`.  A `CompositeMove` calls every member in order on the context the previous
one left (`ham * 2`, `ham + ham`, a displacement move before or after a Hamiltonian one, a member whose `check_move`
vetoes every attempt).  `HamiltonianCanonicalCriteria` exponentiates
`E_pot + E_kin − last_potential_energy − last_kinetic_energy`.

* `reference_established`, `reference_between_trials` — between trials `last_kinetic_energy` is the kinetic energy of the
  momenta the atoms carry (constructor, `save_state`, `revert_state`, `validate_simulation`, failed trials);
* `ke_reference_carried` — what one Hamiltonian member leaves there when it is entered with any reference;
* `composite_energy_change` — the energy difference of the acceptance test is the sum of the members' own total-energy
  changes (each: `H` after its trajectory − `H` before, `H` before = potential energy + kinetic energy of the momenta the
  member drew); for every potential-energy function, force field, integrator settings, draws, verdicts, list of members;
* `vetoed_member_leaves_reference` — a member that fails leaves positions, momenta and the reference as it found them;
* `pinned_second_member_overwrites_reference`, `pinned_vetoed_member_leaks` — the code as pinned (`attemptDisplacementPinned`)
  on concrete instances: the acceptance test saw `−3/2` for a composite whose total-energy change is `0`, and judged
  a displacement against the kinetic energy `1/2` of momenta that had been abandoned.
-/
namespace Verlet
open VecFn

variable {n : ℕ}

/-! ## the reference between trials -/

/-- `context.last_kinetic_energy` is the kinetic energy of the momenta the atoms carry -/
def KineticReferenceCurrent (m : Col n ℝ) (c : HCtx n ℝ) : Prop := c.lastKE = ekin m c.p

/-- **reference_established**: a context just constructed, `save_state`, `revert_state` and
    `HamiltonianCanonical.validate_simulation` each leave a current kinetic reference (whatever it was before) -/
theorem reference_established (m : Col n ℝ) (q p lastQ lastP : Arr n ℝ) (c : HCtx n ℝ) :
    KineticReferenceCurrent m (HCtx.fresh m q p) ∧ KineticReferenceCurrent m (c.saveState m) ∧
    KineticReferenceCurrent m (c.revertState m lastQ lastP) ∧ KineticReferenceCurrent m (c.validate m) :=
  ⟨rfl, rfl, rfl, rfl⟩

/-- **reference_between_trials**: a whole trial — the composite is called; accepted → `save_state`, rejected →
    `revert_state`, failed → neither — started with a current reference ends with a current reference.  Hence the
    hypothesis of `ke_reference_fresh` and of `composite_energy_change` holds at the start of every trial of every
    run. -/
theorem reference_between_trials (m : Col n ℝ) (ms : List (Member n ℝ)) (accept : Bool) (lastQ lastP : Arr n ℝ)
    (c : HCtx n ℝ) (href : KineticReferenceCurrent m c) :
    KineticReferenceCurrent m (hamTrial m ms accept lastQ lastP c) := by
  simp only [hamTrial]
  cases h : (compositeCall ms c).1 with
  | true => cases accept <;> exact rfl
  | false =>
    obtain ⟨_, hp, hk⟩ := compositeCall_failed ms c h
    simp only [Bool.false_eq_true, if_false]
    unfold KineticReferenceCurrent at href ⊢
    rw [hk, hp, href]

/-! ## one member -/

/-- **ke_reference_carried**: a successful call (attempt `j` = the first not vetoed) entered with *any* reference leaves
    `last_kinetic_energy = (reference − kinetic energy at entry) + kinetic energy of the momenta drawn in attempt j`:
    only the member's own share of the reference is replaced. -/
theorem ke_reference_carried (g : HCfg n ℝ) (maxAttempts : ℕ) (zs : List (Arr n ℝ)) (checks : List Bool)
    (c c' : HCtx n ℝ) (h : attemptDisplacement g true maxAttempts zs checks c = (true, c')) :
    ∃ j, firstPass checks maxAttempts = some j ∧
      c'.lastKE = (c.lastKE - ekin g.m c.p) + ekin g.m (g.draw c.q (zs.getD j Arr.zero)) ∧
      (⟨c'.q, c'.p⟩ : St n ℝ) = g.run ⟨c.q, g.draw c.q (zs.getD j Arr.zero)⟩ := by
  cases hj : firstPass checks maxAttempts with
  | none =>
    have := (attemptDisplacement_none g true maxAttempts zs checks c hj).1
    rw [h] at this
    exact absurd this (by simp)
  | some j =>
    obtain ⟨_, hk, hst⟩ := attemptDisplacement_pass g maxAttempts zs checks c j hj
    rw [h] at hk hst
    exact ⟨j, rfl, hk, hst⟩

/-- **vetoed_member_leaves_reference**: a call in which every attempt is vetoed (with or without momentum sampling)
    leaves `last_kinetic_energy`, positions and momenta exactly as it found them: nothing of the abandoned draws
    remains. -/
theorem vetoed_member_leaves_reference (g : HCfg n ℝ) (sample : Bool) (maxAttempts : ℕ) (zs : List (Arr n ℝ))
    (checks : List Bool) (c c' : HCtx n ℝ)
    (h : attemptDisplacement g sample maxAttempts zs checks c = (false, c')) :
    c'.lastKE = c.lastKE ∧ c'.q = c.q ∧ c'.p = c.p := by
  obtain ⟨hq, hp, hk⟩ :=
    attemptLoop_failed g sample ⟨c.q, c.p⟩ c.lastKE (ekin g.m c.p) maxAttempts zs checks c c' rfl rfl rfl h
  exact ⟨hk, hq, hp⟩

/-- the same for any member of a composite, and for a composite none of whose members succeeded -/
theorem failed_member_leaves_reference (mem : Member n ℝ) (c : HCtx n ℝ) (h : (memberCall mem c).1 = false) :
    (memberCall mem c).2.lastKE = c.lastKE ∧ (memberCall mem c).2.q = c.q ∧ (memberCall mem c).2.p = c.p :=
  let r := memberCall_failed mem c h
  ⟨r.2.2, r.1, r.2.1⟩

/-! ## the composite -/

/-- **composite_energy_change**: for every list of members called in sequence (each Hamiltonian member: draw,
    integrate, possibly vetoed and restored, up to `max_attempts` times; each displacement member: new positions or
    failure), every potential-energy function `pe`, entered with a current kinetic reference and
    `last_potential_energy = pe(positions)`: the energy difference `HamiltonianCanonicalCriteria` exponentiates equals
    the sum of the members' own total-energy changes `compositeDeltaH` (`QProofs/VerletKE.lean`: for a successful
    Hamiltonian member `(pe q' + KE p') − (pe q + KE p_drawn)` along its own trajectory, for a displacement member
    `pe q' − pe q`, for a failed member `0`). -/
theorem composite_energy_change (pe : Arr n ℝ → ℝ) (m : Col n ℝ) (ms : List (Member n ℝ))
    (hm : ∀ mem ∈ ms, mem.massesAre m) (c : HCtx n ℝ) (href : KineticReferenceCurrent m c) :
    criteriaEnergyDifference pe m (pe c.q) (compositeCall ms c).2 = compositeDeltaH pe ms c := by
  have h := composite_bookkeeping pe m ms hm c
  unfold KineticReferenceCurrent at href
  unfold criteriaEnergyDifference
  rw [href] at h
  linarith

/-- the general form: entered with any reference, the test is off by exactly the error of that reference -/
theorem composite_energy_change_any_reference (pe : Arr n ℝ → ℝ) (m : Col n ℝ) (ms : List (Member n ℝ))
    (hm : ∀ mem ∈ ms, mem.massesAre m) (c : HCtx n ℝ) :
    criteriaEnergyDifference pe m (pe c.q) (compositeCall ms c).2
      = compositeDeltaH pe ms c + (ekin m c.p - c.lastKE) := by
  have h := composite_bookkeeping pe m ms hm c
  unfold criteriaEnergyDifference
  linarith

/-- two Hamiltonian members, both successful in their first attempt (`ham * 2`, `ham + ham`), spelled out: the
    test sees `ΔH₁ + ΔH₂` with `ΔHᵢ = H(after trajectory i) − (pe + KE of the momenta drawn by member i)` -/
theorem two_members_energy_change (pe : Arr n ℝ → ℝ) (g₁ g₂ : HCfg n ℝ) (hm : g₂.m = g₁.m) (k₁ k₂ : ℕ)
    (z₁ z₂ : Arr n ℝ) (c : HCtx n ℝ) (href : KineticReferenceCurrent g₁.m c) :
    let s₁ := g₁.run ⟨c.q, g₁.draw c.q z₁⟩
    let s₂ := g₂.run ⟨s₁.q, g₂.draw s₁.q z₂⟩
    criteriaEnergyDifference pe g₁.m (pe c.q)
        (compositeCall [.ham g₁ (k₁ + 1) [z₁] [], .ham g₂ (k₂ + 1) [z₂] []] c).2
      = ((pe s₁.q + ekin g₁.m s₁.p) - (pe c.q + ekin g₁.m (g₁.draw c.q z₁)))
        + ((pe s₂.q + ekin g₁.m s₂.p) - (pe s₁.q + ekin g₁.m (g₂.draw s₁.q z₂))) := by
  intro s₁ s₂
  rw [composite_energy_change pe g₁.m _ (by
    intro mem hmem
    simp only [List.mem_cons, List.mem_nil_iff, or_false] at hmem
    rcases hmem with rfl | rfl
    · exact rfl
    · exact hm) c href]
  have h1 : firstPass [] (k₁ + 1) = some 0 := rfl
  have h2 : firstPass [] (k₂ + 1) = some 0 := rfl
  obtain ⟨_, _, hst⟩ := attemptDisplacement_pass g₁ (k₁ + 1) [z₁] [] c 0 h1
  obtain ⟨hq, _⟩ := St.mk_eq_iff hst
  simp only [compositeDeltaH, memberDeltaH, h1, h2, memberCall, hq, hm, List.getD_cons_zero, add_zero]
  rfl

/-! ## the code as pinned: concrete witnesses

One atom of mass 1 in the constant force field `F = (1, 0, 0)` (`pe q = −q_x`), `dt = 1`, one velocity-Verlet step
(which integrates a constant force exactly: every trajectory conserves `pe + KE`), `kT = 1`, no constraint. -/

/-- the integrator and refresh settings of the witnesses -/
noncomputable def gW : HCfg 1 ℝ :=
  ⟨Cons.none, false, fun _ _ k => if k = 0 then 1 else 0, fun _ => 1, 1, 1, 1, 3, false⟩

/-- `pe q = −F·q` -/
def peW (q : Arr 1 ℝ) : ℝ := -(q 0 0)

/-- unit vector along x, used as normal draw and as displacement -/
def ex : Arr 1 ℝ := fun _ k => if k = 0 then 1 else 0

theorem gW_draw (q z : Arr 1 ℝ) : gW.draw q z = z := by
  funext i k
  simp [gW, HCfg.draw, maxwellBoltzmann_none, mbScale_not_forced, mbDraw_real]

theorem gW_run (s : St 1 ℝ) :
    gW.run s = ⟨fun i k => s.q i k + (s.p i k + 1 / 2 * (if k = 0 then 1 else 0)),
                fun i k => s.p i k + (if k = 0 then 1 else 0)⟩ := by
  have h : gW.run s = (Phi gW.F gW.m gW.dt)^[1] s :=
    integrate_none false gW.F gW.m gW.dt (by intro i; simp [gW]) (by simp [gW]) 1 s
  rw [h]
  apply St.ext'
  · funext i k; simp [Phi, gW]
  · funext i k; simp [Phi, gW]; split_ifs <;> ring

theorem ekin_one (p : Arr 1 ℝ) : ekin (fun _ => (1 : ℝ)) p = 1 / 2 * (p 0 0 ^ 2 + p 0 1 ^ 2 + p 0 2 ^ 2) := by
  simp [ekin, sumAll_real, Fin.sum_univ_three]
  ring

/-- the start of the witnesses: a context just constructed for an atom at rest at the origin -/
noncomputable def cW : HCtx 1 ℝ := HCtx.fresh gW.m Arr.zero Arr.zero

/-- **pinned_second_member_overwrites_reference** (`ham * 2`, draws `z₁ = (1,0,0)`, `z₂ = 0`, no veto): both
    members' trajectories conserve the total energy exactly (`ΔH₁ = ΔH₂ = 0`), the repaired code hands the acceptance
    test `0`, the pinned code `−3/2` — the second member replaced the reference by the kinetic energy of its own draw
    and the change `KE(p₁') − KE(p₁) = 3/2` of the first trajectory dropped out. -/
theorem pinned_second_member_overwrites_reference :
    memberDeltaH peW (.ham gW 1 [ex] []) cW = 0 ∧
    memberDeltaH peW (.ham gW 1 [Arr.zero] []) (memberCall (.ham gW 1 [ex] []) cW).2 = 0 ∧
    criteriaEnergyDifference peW gW.m (peW cW.q)
      (compositeCall [.ham gW 1 [ex] [], .ham gW 1 [Arr.zero] []] cW).2 = 0 ∧
    criteriaEnergyDifference peW gW.m (peW cW.q)
      (compositeCallPinned [.ham gW 1 [ex] [], .ham gW 1 [Arr.zero] []] cW).2 = -(3 / 2) := by
  have hm : (gW.m : Col 1 ℝ) = fun _ => 1 := rfl
  refine ⟨?_, ?_, ?_, ?_⟩
  · simp [memberDeltaH, firstPass, gW_draw, gW_run, hm, ekin_one, peW, cW, HCtx.fresh, ex, Arr.zero]
    norm_num
  · simp [memberDeltaH, firstPass, memberCall, attemptDisplacement, attemptLoop, HCfg.get_drawT, gW_draw, gW_run,
      hm, ekin_one, peW, cW, HCtx.fresh, ex, Arr.zero]
  · simp [criteriaEnergyDifference, compositeCall, memberCall, attemptDisplacement, attemptLoop, HCfg.get_drawT,
      gW_draw, gW_run, hm, ekin_one, peW, cW, HCtx.fresh, ex, Arr.zero]
    norm_num
  · simp [criteriaEnergyDifference, compositeCallPinned, memberCallPinned, attemptDisplacementPinned,
      attemptLoopPinned, HCfg.get_drawT, gW_draw, gW_run, hm, ekin_one, peW, cW, HCtx.fresh, ex, Arr.zero]
    norm_num

/-- **pinned_vetoed_member_leaks** (a displacement member that moves the atom to `(1,0,0)`, then a Hamiltonian member
    whose only attempt — draw `(1,0,0)` — is vetoed): the pinned code restores positions and momenta of the failed
    member but keeps the kinetic energy `1/2` of the abandoned draw as reference, and the acceptance test sees
    `−3/2` for a trial whose energy change is `−1`; the repaired code leaves the reference at `0` and hands over
    `−1`. -/
theorem pinned_vetoed_member_leaks :
    (compositeCallPinned [.disp (some ex), .ham gW 1 [ex] [false]] cW).1 = true ∧
    (compositeCallPinned [.disp (some ex), .ham gW 1 [ex] [false]] cW).2.p = cW.p ∧
    (compositeCallPinned [.disp (some ex), .ham gW 1 [ex] [false]] cW).2.lastKE = 1 / 2 ∧
    criteriaEnergyDifference peW gW.m (peW cW.q)
      (compositeCallPinned [.disp (some ex), .ham gW 1 [ex] [false]] cW).2 = -(3 / 2) ∧
    compositeDeltaH peW [.disp (some ex), .ham gW 1 [ex] [false]] cW = -1 ∧
    (compositeCall [.disp (some ex), .ham gW 1 [ex] [false]] cW).2.lastKE = 0 ∧
    criteriaEnergyDifference peW gW.m (peW cW.q)
      (compositeCall [.disp (some ex), .ham gW 1 [ex] [false]] cW).2 = -1 := by
  have hm : (gW.m : Col 1 ℝ) = fun _ => 1 := rfl
  refine ⟨?_, ?_, ?_, ?_, ?_, ?_, ?_⟩
  · simp [compositeCallPinned, memberCallPinned]
  · simp [compositeCallPinned, memberCallPinned, attemptDisplacementPinned, attemptLoopPinned]
  · simp [compositeCallPinned, memberCallPinned, attemptDisplacementPinned, attemptLoopPinned, HCfg.get_drawT,
      gW_draw, hm, ekin_one, ex]
  · simp [criteriaEnergyDifference, compositeCallPinned, memberCallPinned, attemptDisplacementPinned,
      attemptLoopPinned, HCfg.get_drawT, gW_draw, hm, ekin_one, peW, cW, HCtx.fresh, ex, Arr.zero]
    norm_num
  · simp [compositeDeltaH, memberDeltaH, firstPass, peW, cW, HCtx.fresh, ex, Arr.zero]
  · simp [compositeCall, memberCall, attemptDisplacement, attemptLoop, hm, ekin_one, cW, HCtx.fresh, Arr.zero]
  · simp [criteriaEnergyDifference, compositeCall, memberCall, attemptDisplacement, attemptLoop, hm, ekin_one,
      peW, cW, HCtx.fresh, ex, Arr.zero]

/-- non-vacuity of `composite_energy_change`: the hypotheses hold for the first witness and its composite succeeds -/
example : KineticReferenceCurrent gW.m cW ∧ (∀ mem ∈ [Member.ham gW 1 [ex] [], .ham gW 1 [Arr.zero] []], mem.massesAre gW.m) ∧
    (compositeCall [.ham gW 1 [ex] [], .ham gW 1 [Arr.zero] []] cW).1 = true := by
  refine ⟨rfl, ?_, ?_⟩
  · intro mem h
    simp only [List.mem_cons, List.mem_nil_iff, or_false] at h
    rcases h with rfl | rfl <;> exact rfl
  · simp [compositeCall, memberCall, attemptDisplacement, attemptLoop]

end Verlet
