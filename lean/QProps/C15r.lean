import QModel.ResultsDict
/-!
# C15 — what an observer asked for between two runs does not change what a later rejection restores

`run(a); run(b)` calls `validate_simulation()` once more than `run(a + b)`. On the results-dictionary machine (RDict,
"forces" standing for any property a calculator computes only on request — stress for most first-principles codes): at a run
boundary (`Boundary`: the remembered results describe the current configuration, the calculator's dictionary may hold more)
the repaired `validate_simulation` is the IDENTITY (`runStart_keeps`), so the state after `ops₁; runStart; ops₂` is the state
after `ops₁; ops₂` (`split_invisible`); `Boundary` holds after every accepted trial, after every rejected trial, and is kept by
every request an observer can make (`boundary_save`, `boundary_revert`, `boundary_request`). The code before the repair
re-remembered the results at every run start, including what a logger had asked for after the last trial: witness
`pinned_split_visible` — the dictionary restored by the next rejection then carries the extra entry in the split run only,
and so does the trajectory frame written from it.
-/
namespace RDict

variable (F : Nat → Nat)

/-- the state between two trials: the remembered results belong to the current configuration, which is also the remembered
    one; the calculator's results belong to it too and contain at least what was remembered, with the same values -/
structure Boundary (s : St) : Prop where
  notShared : s.shared = false
  cfgSame : s.lastCfg = s.cur
  describes : ∃ l c, s.last = some l ∧ s.cres = some c ∧ l.cfg = s.cur ∧ c.cfg = s.cur ∧
    (∀ r, l.forces = some r → ∃ r', c.forces = some r' ∧ deref s r' = deref s r)

theorem stillDescribes_of_boundary (s : St) (h : Boundary s) : stillDescribes s = true := by
  obtain ⟨l, c, hl, hc, hlc, hcc, hf⟩ := h.describes
  unfold stillDescribes
  rw [hl, hc]
  simp only [Bool.and_eq_true, beq_iff_eq]
  refine ⟨by rw [hlc, hcc], ?_⟩
  cases hlf : l.forces with
  | none => rfl
  | some r =>
    obtain ⟨r', hr', hd⟩ := hf r hlf
    simp [hr', hd]

theorem ensure_of_boundary (fl : Flags) (s : St) (h : Boundary s) : ensure F fl false s = s := by
  obtain ⟨l, c, _, hc, _, hcc, _⟩ := h.describes
  unfold ensure
  rw [hc]
  simp [hcc]

/-- **runStart_keeps**: at a run boundary the repaired `validate_simulation` changes nothing -/
theorem runStart_keeps (fl : Flags) (s : St) (h : Boundary s) : runStart F fl true s = s := by
  unfold runStart
  simp only [ensure_of_boundary F fl s h, stillDescribes_of_boundary s h, Bool.and_self, if_true]
  have := h.cfgSame
  cases s
  simp_all

/-- **split_invisible**: a run boundary inserted between two trials is invisible — whole machine state -/
theorem split_invisible (fl : Flags) (ops1 ops2 : List Op) (s : St) (h : Boundary (run F fl ops1 s)) :
    run F fl ops2 (runStart F fl true (run F fl ops1 s)) = run F fl (ops1 ++ ops2) s := by
  rw [runStart_keeps F fl _ h]
  simp [run, List.foldl_append]

/-- an accepted trial ends in a boundary (repaired flags: results copied, dictionary of its own) -/
theorem boundary_save (fl : Flags) (hfix : fl.fixed = true) (hsep : fl.sep = true) (s : St) :
    Boundary (step F fl s .save) := by
  simp only [step]
  generalize hs1 : ensure F fl false s = s1
  have hc : ∃ d, s1.cres = some d ∧ d.cfg = s1.cur := by
    rw [← hs1]
    unfold ensure
    cases hcr : s.cres with
    | none => simp [newCalc]; split <;> simp
    | some d =>
      simp only []
      split
      · rename_i hcfg
        split
        · simp [complete]; exact hcfg
        · exact ⟨d, hcr, hcfg⟩
      · simp [newCalc]; split <;> simp
  obtain ⟨d, hd, hdc⟩ := hc
  rw [hd]
  refine ⟨by simp [hsep], rfl, ?_⟩
  refine ⟨detachD fl s1 d, detachD fl s1 d, rfl, rfl, ?_, ?_, ?_⟩
  · simp [detachD, hfix, hdc]
  · simp [detachD, hfix, hdc]
  · intro r hr; exact ⟨r, hr, rfl⟩

/-- a rejected trial ends in a boundary, provided the remembered results belong to the remembered configuration -/
theorem boundary_revert (fl : Flags) (hsep : fl.sep = true) (s : St) (l : Dict) (hl : s.last = some l)
    (hcfg : l.cfg = s.lastCfg) : Boundary (step F fl s .revert) := by
  simp only [step]
  refine ⟨by simp [hsep], rfl, ?_⟩
  exact ⟨l, l, hl, hl, hcfg, hcfg, fun r hr => ⟨r, hr, rfl⟩⟩

/-- whatever an observer asks the calculator for at a boundary (energy, or a property computed on request) keeps it a
    boundary: the calculator's dictionary grows, the remembered one is not touched -/
theorem boundary_request (fl : Flags) (want : Bool) (s : St) (h : Boundary s)
    (hown : ∀ l r, s.last = some l → l.forces = some r → ∃ v, r = .own v) : Boundary (ensure F fl want s) := by
  obtain ⟨l, c, hl, hc, hlc, hcc, hf⟩ := h.describes
  unfold ensure
  rw [hc]
  simp only [hcc, if_true]
  split
  · rename_i hw
    have hnone : c.forces = none := by
      simp only [Bool.and_eq_true, Option.isNone_iff_eq_none] at hw; exact hw.2
    refine ⟨by simp [complete, h.notShared], by simp [complete, h.cfgSame], ?_⟩
    refine ⟨l, { c with forces := some (freshRef F fl s).1 }, ?_, ?_, hlc, hcc, ?_⟩
    · simp [complete, h.notShared, hl]
    · simp [complete]
    · intro r hr
      obtain ⟨r', hr', _⟩ := hf r hr
      rw [hnone] at hr'; cases hr'
  · exact h

/-! ### the code before the repair: the split is visible -/

def lazyFixed : Flags := { lazy := true, inplace := false, fixed := true, sep := true }

/-- a trial accepted in configuration 1, the logger asks for the lazily computed property, then a trial to configuration 2
    that is rejected — with and without a run boundary after the logger -/
def afterLogger : St := run (fun k => 10 * k) lazyFixed [.move 1, .save, .forces] { cur := 0 }

/-- **pinned_split_visible**: with the run boundary the rejection restores a dictionary that carries the property the logger
    had asked for; without it (one run) it does not. The repaired boundary makes no difference. -/
theorem pinned_split_visible :
    let F := fun k => 10 * k
    let split := run F lazyFixed [.move 2, .revert] (runStart F lazyFixed false afterLogger)
    let whole := run F lazyFixed [.move 2, .revert] afterLogger
    let repaired := run F lazyFixed [.move 2, .revert] (runStart F lazyFixed true afterLogger)
    (split.cres.bind (·.forces)).isSome = true ∧ (whole.cres.bind (·.forces)).isSome = false ∧ repaired = whole := by
  decide

example : Boundary afterLogger := by
  refine ⟨by decide, by decide, ?_⟩
  exact ⟨⟨1, none⟩, ⟨1, some (.own 10)⟩, by decide, by decide, rfl, rfl, fun r hr => by cases hr⟩

end RDict
