import QProofs.LogTable

/-!
# C16 (log part): "the log holds its header plus one complete … line per call"

Theorems about the logger's field table (`QModel/LogTable.lean`: `add_field`, `remove_fields`, `create_header`,
`__call__`, `get_auto_header_format`), for every table, every format made of literal text and `{:[align][width]s|d}`
placeholders, and every value:

* `row_is_one_line`, `header_is_one_line` — what one call (one `write_header`) hands to `write` is ONE line: it ends with the
  only newline it contains, provided no literal text, name or string value carries one (integers never do);
* `header_and_row_same_columns` — the header and every row have one cell per field of the table, in the table's order;
* `cell_aligned`, `columns_aligned`, `header_row_same_length` — with the automatic header format and explicit widths that
  the names and values fit into, every header cell is exactly as wide as the cell below it, so the columns line up;
* `add_field_keys`, `add_field_present`, `add_field_count`, `remove_fields_spec`, `remove_fields_order` — the table is
  Python's dictionary: a used key is replaced in place, a new one goes to the end, removal filters and keeps the order.

The bytes-level part (one `write`, one `flush`, crash points) is `QProps/C16.lean` on `QModel/Files.lean`.
-/

namespace LogT

/-! ### one line per call -/

theorem rowCells_noNL (t : Table) (vs : List Vals) (rs : List Str) (hs : ∀ f ∈ t, SegsNoNL f.strFormat)
    (hv : ∀ v ∈ vs, ∀ x ∈ v, ValNoNL x) (h : rowCells t vs = .ok rs) : ∀ c ∈ rs, '\n' ∉ c := by
  induction t generalizing vs rs with
  | nil => simp [rowCells] at h; subst h; simp
  | cons f r ih =>
    simp only [rowCells] at h
    split at h
    · cases h
    · rename_i c hc
      obtain ⟨o, h1, rfl⟩ := map_ok h
      have hhead : ∀ x ∈ vs.headD [], ValNoNL x := by
        cases vs with
        | nil => simp
        | cons v vs' => simpa using hv v (List.mem_cons_self ..)
      have htail : ∀ v ∈ vs.tail, ∀ x ∈ v, ValNoNL x := fun v hv' => hv v (List.mem_of_mem_tail hv')
      intro c' hc'
      rcases List.mem_cons.mp hc' with rfl | hc'
      · exact fmt_noNL _ _ _ (hs f (List.mem_cons_self ..)) hhead hc
      · exact ih vs.tail o (fun g hg => hs g (List.mem_cons_of_mem _ hg)) htail h1 c' hc'

/-- **row_is_one_line**: what `Logger.__call__` writes is one complete line -/
theorem row_is_one_line (t : Table) (vs : List Vals) (R : Str) (hs : ∀ f ∈ t, SegsNoNL f.strFormat)
    (hv : ∀ v ∈ vs, ∀ x ∈ v, ValNoNL x) (h : rowLine t vs = .ok R) :
    ∃ body, R = body ++ ['\n'] ∧ '\n' ∉ body := by
  obtain ⟨rs, h1, rfl⟩ := map_ok h
  exact ⟨joinBlank rs, rfl, joinBlank_noNL rs (rowCells_noNL t vs rs hs hv h1)⟩

theorem hdrArgs_noNL (f : Field) (a : List Val) (hn : ∀ n ∈ f.key.names, '\n' ∉ n) (h : hdrArgs f = .ok a) :
    ∀ v ∈ a, ValNoNL v := by
  unfold hdrArgs at h
  split at h
  · cases h
    intro v hv
    simp only [List.mem_map, List.mem_append, List.mem_replicate] at hv
    obtain ⟨s, hs, rfl⟩ := hv
    rcases hs with hs | ⟨_, rfl⟩
    · exact hn s hs
    · simp [ValNoNL]
  · split at h
    · split at h
      · cases h; simp
      · cases h
    · cases h
      intro v hv
      simp only [List.mem_map] at hv
      obtain ⟨s, hs, rfl⟩ := hv
      exact hn s hs

/-- **header_is_one_line**: what `write_header` writes is one complete line -/
theorem header_is_one_line (t : Table) (H : Str)
    (hs : ∀ f ∈ t, SegsNoNL f.headerFormat ∧ ∀ n ∈ f.key.names, '\n' ∉ n) (h : headerLine t = .ok H) :
    ∃ body, H = body ++ ['\n'] ∧ '\n' ∉ body := by
  obtain ⟨cs, h1, rfl⟩ := map_ok h
  refine ⟨joinBlank cs, rfl, joinBlank_noNL cs ?_⟩
  have hall := mapE_ok_forall headerCell t cs h1
  clear h h1
  induction hall with
  | nil => simp
  | @cons f c t' cs' hfc _ ih =>
    intro c' hc'
    rcases List.mem_cons.mp hc' with rfl | hc'
    · unfold headerCell at hfc
      split at hfc
      · cases hfc
      · rename_i a ha
        exact fmt_noNL _ _ _ (hs f (List.mem_cons_self ..)).1
          (hdrArgs_noNL f a (hs f (List.mem_cons_self ..)).2 ha) hfc
    · exact ih (fun g hg => hs g (List.mem_cons_of_mem _ hg)) c' hc'

/-! ### as many cells as fields -/

/-- **header_and_row_same_columns**: header and rows have one cell per field -/
theorem header_and_row_same_columns (t : Table) (vs : List Vals) (hs rs : List Str)
    (hh : headerCells t = .ok hs) (hr : rowCells t vs = .ok rs) : hs.length = t.length ∧ rs.length = t.length :=
  ⟨mapE_ok_length headerCell t hs hh, rowCells_ok_length t vs rs hr⟩

/-! ### the columns line up -/

/-- the header format is the automatic one, the widths are explicit, names and values fit -/
def Aligned (f : Field) (v : Vals) : Prop :=
  f.headerFormat = autoHeader f.strFormat ∧ FitsArgs f.strFormat v ∧ ∃ a, hdrArgs f = .ok a ∧ FitsArgs f.headerFormat a

/-- **cell_aligned**: a header cell is exactly as wide as the cell below it -/
theorem cell_aligned (f : Field) (v : Vals) (h r : Str) (ha : Aligned f v) (hh : headerCell f = .ok h)
    (hr : rowCell f v = .ok r) : h.length = r.length := by
  obtain ⟨hauto, hfr, a, hargs, hfa⟩ := ha
  unfold headerCell at hh
  rw [hargs] at hh
  rw [fmt_length _ _ _ hfa hh, fmt_length _ _ _ hfr hr, hauto,
    totalWidth_autoHeader _ (widths_of_fits _ _ hfr)]

def AllAligned : Table → List Vals → Prop
  | [], _ => True
  | f :: r, vs => Aligned f (vs.headD []) ∧ AllAligned r vs.tail

/-- **columns_aligned**: cell by cell the header is as wide as the row -/
theorem columns_aligned (t : Table) (vs : List Vals) (hs rs : List Str) (ha : AllAligned t vs)
    (hh : headerCells t = .ok hs) (hr : rowCells t vs = .ok rs) : hs.map List.length = rs.map List.length := by
  induction t generalizing vs hs rs with
  | nil =>
    simp [headerCells, mapE] at hh
    simp [rowCells] at hr
    subst hh; subst hr; rfl
  | cons f r ih =>
    obtain ⟨haf, har⟩ := ha
    simp only [headerCells, mapE] at hh
    simp only [rowCells] at hr
    split at hh
    · cases hh
    · rename_i ch hch
      split at hr
      · cases hr
      · rename_i cr hcr
        obtain ⟨hs', hh1, rfl⟩ := map_ok hh
        obtain ⟨rs', hr1, rfl⟩ := map_ok hr
        simp only [List.map_cons, List.cons.injEq]
        exact ⟨cell_aligned f _ ch cr haf hch hcr, ih vs.tail hs' rs' har hh1 hr1⟩

/-- **header_row_same_length**: the header line is exactly as long as every row -/
theorem header_row_same_length (t : Table) (vs : List Vals) (H R : Str) (ha : AllAligned t vs)
    (hh : headerLine t = .ok H) (hr : rowLine t vs = .ok R) : H.length = R.length := by
  obtain ⟨hs, hh1, rfl⟩ := map_ok hh
  obtain ⟨rs, hr1, rfl⟩ := map_ok hr
  have hc := columns_aligned t vs hs rs ha hh1 hr1
  have hl : hs.length = rs.length := by
    rw [(header_and_row_same_columns t vs hs rs hh1 hr1).1, (header_and_row_same_columns t vs hs rs hh1 hr1).2]
  simp [joinBlank_length, hc, hl]

/-! ### the table is a dictionary -/

/-- **add_field_keys**: a used key keeps its place, a new key goes to the end -/
theorem add_field_keys (t : Table) (key : Key) (sf : List Seg) (hf : Option (List Seg)) (arr : Bool) :
    (addField t key sf hf arr).map (·.key)
      = if key ∈ t.map (·.key) then t.map (·.key) else t.map (·.key) ++ [key] :=
  upsert_keys _ t

/-- **add_field_present**: afterwards the table holds the field as given -/
theorem add_field_present (t : Table) (key : Key) (sf : List Seg) (hf : Option (List Seg)) (arr : Bool) :
    mkField key sf hf arr ∈ addField t key sf hf arr :=
  upsert_mem _ t

/-- **add_field_count**: no key twice, ever -/
theorem add_field_count (t : Table) (key : Key) (sf : List Seg) (hf : Option (List Seg)) (arr : Bool)
    (h : (t.map (·.key)).Nodup) : ((addField t key sf hf arr).map (·.key)).Nodup :=
  upsert_nodup _ t h

/-- **remove_fields_spec**: exactly the fields none of whose names contains the pattern stay -/
theorem remove_fields_spec (t : Table) (p : Str) (f : Field) :
    f ∈ removeFields t p ↔ f ∈ t ∧ ∀ n ∈ f.key.names, containsStr p n = false := by
  simp [removeFields, List.mem_filter]

/-- **remove_fields_order**: the remaining fields keep their order -/
theorem remove_fields_order (t : Table) (p : Str) : (removeFields t p).Sublist t :=
  List.filter_sublist

/-! ### non-vacuity: the table `add_mc_fields` builds, and a stress field -/

def exTable : Table :=
  addField (addField (addField (addField []
    ⟨false, ["Class".toList]⟩ [.hole ⟨some .left, some 24, .str⟩] none false)
    ⟨false, ["Step".toList]⟩ [.hole ⟨some .right, some 12, .int⟩] none false)
    ⟨true, ["Sxx".toList, "Syy".toList]⟩ [.hole ⟨some .right, some 6, .int⟩, .hole ⟨some .right, some 6, .int⟩] none true)
    ⟨false, ["Step".toList]⟩ [.hole ⟨some .right, some 8, .int⟩] none false

def exVals : List Vals := [[.str "Canonical".toList], [.int (-42)], [.int 7, .int 1000]]

example : exTable.map (·.key.names.map String.ofList) = [["Class"], ["Step"], ["Sxx", "Syy"]] := by decide
/-- header `"Class                        Step    Sxx   Syy\n"` -/
example : headerLine exTable = .ok
    ['C', 'l', 'a', 's', 's', ' ', ' ', ' ', ' ', ' ', ' ', ' ', ' ', ' ', ' ', ' ', ' ', ' ', ' ', ' ', ' ', ' ', ' ', ' ', ' ', ' ', ' ', ' ', ' ', 'S', 't', 'e', 'p', ' ', ' ', ' ', ' ', 'S', 'x', 'x', ' ', ' ', ' ', 'S', 'y', 'y', '\n'] := by
  decide +kernel
/-- row `"Canonical                     -42      7  1000\n"` -/
example : rowLine exTable exVals = .ok
    ['C', 'a', 'n', 'o', 'n', 'i', 'c', 'a', 'l', ' ', ' ', ' ', ' ', ' ', ' ', ' ', ' ', ' ', ' ', ' ', ' ', ' ', ' ', ' ', ' ', ' ', ' ', ' ', ' ', ' ', '-', '4', '2', ' ', ' ', ' ', ' ', ' ', ' ', '7', ' ', ' ', '1', '0', '0', '0', '\n'] := by
  decide +kernel
example : AllAligned exTable exVals := by
  refine ⟨⟨rfl, ⟨⟨24, rfl, by decide +kernel⟩, trivial⟩, _, rfl, ⟨⟨24, rfl, by decide +kernel⟩, trivial⟩⟩,
    ⟨rfl, ⟨⟨8, rfl, by decide +kernel⟩, trivial⟩, _, rfl, ⟨⟨8, rfl, by decide +kernel⟩, trivial⟩⟩,
    ⟨rfl, ⟨⟨6, rfl, by decide +kernel⟩, ⟨6, rfl, by decide +kernel⟩, trivial⟩, _, rfl, ⟨⟨6, rfl, by decide +kernel⟩, ⟨6, rfl, by decide +kernel⟩, trivial⟩⟩,
    trivial⟩
/-- without an explicit width the header cell is 10 wide whatever the value is: the hypothesis of `cell_aligned` is needed -/
example : (headerCell (mkField ⟨false, ["E".toList]⟩ [.hole ⟨none, none, .int⟩] none false)).toOption.map List.length = some 10
    ∧ (rowCell (mkField ⟨false, ["E".toList]⟩ [.hole ⟨none, none, .int⟩] none false) [.int 5]).toOption.map List.length = some 1 := by
  decide +kernel
/-- a non-array field named by a tuple cannot be headed: `"{:>10s}".format(("a", "b"))` raises TypeError -/
example : headerCell (mkField ⟨true, ["a".toList, "b".toList]⟩ [.hole ⟨none, some 4, .int⟩] none false) = .error .type_ := by
  decide
example : removeFields exTable "te".toList = exTable.take 1 ++ exTable.drop 2 := by decide +kernel

end LogT
