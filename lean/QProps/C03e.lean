import QProps.C03x
import QProofs.MachinePersist
/-!
# C03 — the point the grand-canonical theorems exclude: nothing to insert

`GInv` asks for a non-empty exchange template (`templ`), because an inserted particle must consist of at least one atom
for the counter and label theorems to make sense. That hypothesis was forced by the proofs; running the real code AT the
excluded point (the default `GrandCanonical(exchange_atoms=None)`, or an empty `to_add_atoms`) showed a genuine defect:
`np.arange(len(atoms))[-0:]` selects EVERY atom, so the "new" atoms were the whole system and a vetoed or rejected
insertion deleted them all. Repaired by commit 9809729 ("an insertion with nothing to insert is not a move"); the model
follows the repaired code, and the two theorems below cover the excluded point from both sides.
-/
namespace MM

/-- **empty_insertion_is_no_move** (repaired code): with nothing to insert the move fails at once; atoms, context and
    the scripted inputs are untouched (no operation, no `check_move` call), whatever else the state holds. -/
theorem empty_insertion_is_no_move (r : Nat) (s : State) (h : toAddOf (s.obj r) s.ctx = []) :
    (attemptAddition r s).1 = [] ∧ (attemptAddition r s).2.atoms = s.atoms ∧
    (attemptAddition r s).2.ctx = s.ctx ∧ (attemptAddition r s).2.inp = s.inp ∧
    (exchAdd r s).1 = false ∧ (exchAdd r s).2.atoms = s.atoms ∧ (exchAdd r s).2.ctx = s.ctx := by
  have ha : attemptAddition r s = ([], s.setObj r { s.obj r with toAdd := some [] }) := by
    unfold attemptAddition
    simp [h]
  refine ⟨by rw [ha], by rw [ha]; rfl, by rw [ha]; rfl, by rw [ha]; rfl, ?_, ?_, ?_⟩ <;>
    simp [exchAdd, ha, clearExch, State.setObj]

/-- the pinned `attempt_addition`: `_moving_indices = np.arange(len(atoms))[-len(to_add_atoms):]` -/
def attemptAdditionPinned (r : Nat) (s : State) : List Nat × State :=
  let new := toAddOf (s.obj r) s.ctx
  let n := s.atoms.rows.length + new.length
  let moving := if new.isEmpty then List.range n else addMoving new s.atoms.rows.length     -- `[-0:]` = everything
  let s1 : State := { (addStart r s) with ctx := { (addStart r s).ctx with moving := moving } }
  let res := attemptDisplacement { s.obj r with toAdd := some new } s1
  if res.1 then (moving, res.2)
  else ([], { res.2 with atoms := res.2.atoms.delete moving })

def e3State : State :=
  { atoms := { rows := [⟨(1,0,0), (0,0,0), [29]⟩, ⟨(2,0,0), (0,0,0), [29]⟩], cell := (9,9,9), fixed := none },
    heap := [{ kind := .exch, labels := [0, 1], bias := 1000 }],
    ctx := { lastPos := [(1,0,0), (2,0,0)], template := [] },
    inp := { draws := [0], ops := [(1,1,1)], checks := [false] } }

/-- **pinned_empty_insertion_deletes_everything**: the witness of the repaired defect — a vetoed insertion of
    nothing removes both atoms of a two-atom system under the pinned index arithmetic, none under the repaired one. -/
theorem pinned_empty_insertion_deletes_everything :
    toAddOf (e3State.obj 0) e3State.ctx = [] ∧
    (attemptAdditionPinned 0 e3State).2.atoms.rows = [] ∧
    (attemptAddition 0 e3State).2.atoms.rows.length = 2 := by decide

/-!
# C03 — pre-selections on members of a `CompositeExchangeMove` do not leak out of the trial

"Nothing from the abandoned trial (… pre-selected targets) leaks into the next move." A one-shot pre-selection
(`to_delete_label`, `to_add_atoms`) placed on a MEMBER of a `CompositeExchangeMove` was neither used nor cleared by the
deletion branch of the pinned `CompositeExchangeMove.__call__`, and the insertion branch cleared only `to_add_atoms`:
after the composite trial — accepted, rejected or failed — the pre-selection was still on the member and was consumed by
the member's next stand-alone trial (the same object under another table name). Repaired: both branches clear both
attributes of every member on every exit path; the model (`compExchAddLoop`, `compExchDelLoop`) follows the repaired
code, the pinned loops are kept below for the witness.
-/

/-- **compExch_clears_preselections**: after `CompositeExchangeMove.__call__` every member carries neither
    `to_add_atoms` nor `to_delete_label` — whichever branch was drawn, whether the call succeeded or not, and whatever
    the heap, the atoms, the context and the script held at entry (a reference outside the heap reads as the default
    object, which carries none either). -/
theorem compExch_clears_preselections (rs : List Nat) (bias : Nat) (s : State) :
    ∀ r ∈ rs, ((compExchCall rs bias s).2.obj r).toAdd = none ∧ ((compExchCall rs bias s).2.obj r).toDelete = none :=
  (compExchCall_cleared rs bias s).on

/-- … and it touches nothing else among the transient fields: objects that are not members are exactly what they were,
    `to_displace_labels` is what it was on every object, the heap keeps its size. -/
theorem compExch_clears_members_only (rs : List Nat) (bias : Nat) (s : State) :
    (compExchCall rs bias s).2.heap.length = s.heap.length ∧
    (∀ r, r ∉ rs → (compExchCall rs bias s).2.obj r = s.obj r) ∧
    (∀ r, ((compExchCall rs bias s).2.obj r).toDisplace = (s.obj r).toDisplace) :=
  ⟨(compExchCall_cleared rs bias s).len, (compExchCall_cleared rs bias s).off, (compExchCall_cleared rs bias s).disp⟩

/-- **trial_compExch_clears_preselections**: after one whole trial of a composite exchange entry — accepted, rejected
    or failed, under any driver — no member carries `to_add_atoms` or `to_delete_label`. No hypothesis on the state at
    entry: the pre-selections may be present on any member (or on all of them). -/
theorem trial_compExch_clears_preselections (sim : Sim) (rs : List Nat) (b : Nat) (v : Bool) (s : State) :
    ∀ r ∈ rs, ((trial sim (.compExch rs b) v s).2.obj r).toAdd = none ∧
              ((trial sim (.compExch rs b) v s).2.obj r).toDelete = none := by
  intro r hr
  obtain ⟨h1, h2⟩ := trial_transient sim (.compExch rs b) v s r
  rw [h1, h2]
  exact compExch_clears_preselections rs b s r hr

/-- **trial_compExch_noPresel**: `trial_noPresel` for a composite exchange entry WITH pre-selections on its members at
    entry: if nothing is pending on the objects outside the composite (and no member carries a `to_displace_labels`,
    which an exchange move never reads or resets), nothing at all is pending after the trial, whatever its outcome. -/
theorem trial_compExch_noPresel (sim : Sim) (rs : List Nat) (b : Nat) (v : Bool) (s : State)
    (hoff : ∀ r, r ∉ rs → Idle (s.obj r)) (hdisp : ∀ r ∈ rs, (s.obj r).toDisplace = none) :
    NoPresel (trial sim (.compExch rs b) v s).2 := by
  have h : NoPresel (callTree (.compExch rs b) s).2 :=
    noPresel_of_cleared (compExchCall_cleared rs b s) hoff hdisp
  have e : trial sim (.compExch rs b) v s =
      if (callTree (.compExch rs b) s).1 then
        (if v then (.accepted, saveState sim (callTree (.compExch rs b) s).2)
         else (.rejected, revertState sim (callTree (.compExch rs b) s).2))
      else (.failed, (callTree (.compExch rs b) s).2) := rfl
  rw [e]
  split
  · split
    · exact saveState_noPresel sim _ h
    · exact revertState_noPresel sim _ h
  · exact h

/-! the pinned `CompositeExchangeMove.__call__`: the insertion loop resets only `to_add_atoms`, the deletion loop
    resets nothing -/

def compExchAddLoopPinned : List Nat → Bool → State → Bool × State
  | [], ok, s => (ok, s)
  | r :: rs, ok, s =>
    let (idx, s1) := attemptAddition r s
    let (ok1, s2) :=
      if idx.isEmpty then (ok, s1)
      else (true, { s1 with ctx := recordAdded s1.ctx idx s1.atoms.rows })
    compExchAddLoopPinned rs ok1 (s2.setObj r { s2.obj r with toAdd := none })

def compExchDelLoopPinned : List Nat → List Int → List Nat → State → List Int × List Nat × State
  | [], labs, idx, s => (labs, idx, s)
  | r :: rs, labs, idx, s =>
    let m := s.obj r
    let cand := setdiff (uniqueLabels m.labels) labs
    if cand.isEmpty then compExchDelLoopPinned rs labs idx s
    else
      let (l, i) := choice cand 0 s.inp
      compExchDelLoopPinned rs (labs ++ [l]) (idx ++ whereEq m.labels l) { s with inp := i }

def compExchCallPinned (rs : List Nat) (bias : Nat) (s : State) : Bool × State :=
  let (d, i) := s.inp.draw
  let s0 := { s with inp := i }
  if d < bias then compExchAddLoopPinned rs false s0
  else
    let (labs, idx, s1) := compExchDelLoopPinned rs [] [] s0
    if idx.isEmpty then (false, s1)
    else
      let c := saveFixed s1.ctx s1.atoms
      (true, { s1 with ctx := { c with deletedIdx := idx,
                                        deletedAtoms := c.deletedAtoms ++ pick s1.atoms.rows idx,
                                        delta := c.delta - (labs.eraseDups.length : Int) },
                       atoms := s1.atoms.delete idx })

/-- three Cu atoms, one exchange move (cell 0, `bias_towards_insert = 0.5`) used twice by the composite `m * 2` AND on
    its own; before a composite trial the user pre-selected on it a label to delete (`toDelete`) or a species to insert
    (`toAdd`) -/
def e4State (toDelete : Option Int) (toAdd : Option (List Row)) (inp : Inputs) : State :=
  { atoms := { rows := [⟨(0,0,0), (0,0,0), [29]⟩, ⟨(2,0,0), (0,0,0), [29]⟩, ⟨(4,0,0), (0,0,0), [29]⟩],
               cell := (9,9,9), fixed := none },
    heap := [{ kind := .exch, labels := [0, 1, 2], bias := 500, toDelete := toDelete, toAdd := toAdd }],
    ctx := { lastPos := [(0,0,0), (2,0,0), (4,0,0)], template := [⟨(1,1,1), (0,0,0), [29]⟩] },
    inp := inp }

def e4Silver : List Row := [⟨(1,1,1), (0,0,0), [47]⟩]

/-- the member's next stand-alone trial after the composite call was REJECTED (`revert_state`), with a first draw
    (0 < 500) that asks for an insertion -/
def e4Next (afterCall : State) : State :=
  (exchCall 0 { revertState gcSim afterCall with inp := { draws := [0], ops := [(1,0,0)], checks := [true] } }).2

/-- **pinned_compExch_keeps_preselection**: the witness of the repaired defect. Under the pinned code a
    `to_delete_label` pre-selected on the member survives a composite DELETION (draw 999 ≥ 500) and a composite
    INSERTION (draw 0 < 500), and a pre-selected `to_add_atoms` survives a composite deletion; under the repaired code
    all three are gone. The leak is consumed: after the rejected composite deletion the member's own next trial, whose
    draw asks for an insertion of the configured Cu, deletes the pre-selected atom instead (pinned: 2 atoms left;
    repaired: 4 atoms, the new one is Cu), resp. inserts the leaked Ag instead of Cu. -/
theorem pinned_compExch_keeps_preselection :
    -- composite deletion, `to_delete_label` pre-selected
    ((compExchCallPinned [0, 0] 500 (e4State (some 1) none { draws := [999, 0, 0] })).2.obj 0).toDelete = some 1 ∧
    ((compExchCall [0, 0] 500 (e4State (some 1) none { draws := [999, 0, 0] })).2.obj 0).toDelete = none ∧
    -- composite insertion, `to_delete_label` pre-selected
    ((compExchCallPinned [0, 0] 500
        (e4State (some 1) none { draws := [0], ops := [(1,0,0), (0,1,0)], checks := [true, true] })).2.obj 0).toDelete
      = some 1 ∧
    ((compExchCall [0, 0] 500
        (e4State (some 1) none { draws := [0], ops := [(1,0,0), (0,1,0)], checks := [true, true] })).2.obj 0).toDelete
      = none ∧
    -- composite deletion, `to_add_atoms` pre-selected
    ((compExchCallPinned [0, 0] 500 (e4State none (some e4Silver) { draws := [999, 0, 0] })).2.obj 0).toAdd
      = some e4Silver ∧
    ((compExchCall [0, 0] 500 (e4State none (some e4Silver) { draws := [999, 0, 0] })).2.obj 0).toAdd = none ∧
    -- the leak is consumed by the member's next stand-alone trial
    (e4Next (compExchCallPinned [0, 0] 500 (e4State (some 1) none { draws := [999, 0, 0] })).2).atoms.rows.length = 2 ∧
    (e4Next (compExchCall [0, 0] 500 (e4State (some 1) none { draws := [999, 0, 0] })).2).atoms.rows.length = 4 ∧
    ((e4Next (compExchCallPinned [0, 0] 500 (e4State none (some e4Silver) { draws := [999, 0, 0] })).2).atoms.rows.map
        (·.aux)) = [[29], [29], [29], [47]] ∧
    ((e4Next (compExchCall [0, 0] 500 (e4State none (some e4Silver) { draws := [999, 0, 0] })).2).atoms.rows.map
        (·.aux)) = [[29], [29], [29], [29]] := by decide

/-! ### a pre-selected deletion target must be eligible like a drawn one -/

/-- **deletion_target_eligible**: whatever way the deletion target was chosen (drawn, or pre-selected by the user through
    `to_delete_label`), the atoms `attempt_deletion` hands over are those of ONE ELIGIBLE label (non-negative and present) —
    or none at all, which makes the move fail -/
theorem deletion_target_eligible (r : Nat) (s : State) :
    (attemptDeletion r s).1 = [] ∨
      ∃ l ∈ uniqueLabels (s.obj r).labels, (attemptDeletion r s).1 = whereEq (s.obj r).labels l := by
  rw [attemptDeletion_eq]
  cases htd : (s.obj r).toDelete with
  | some l =>
    simp only []
    by_cases hc : (uniqueLabels (s.obj r).labels).contains l = true
    · simp only [hc, if_true]
      exact Or.inr ⟨l, by simpa using hc, rfl⟩
    · simp only [hc, Bool.false_eq_true, if_false]
      exact Or.inl (by first | rfl | trivial)
  | none =>
    simp only []
    by_cases hu : (uniqueLabels (s.obj r).labels).isEmpty = true
    · simp only [hu, if_true]; exact Or.inl (by first | rfl | trivial)
    · simp only [hu, Bool.false_eq_true, if_false]
      have hne : uniqueLabels (s.obj r).labels ≠ [] := by intro h; rw [h] at hu; simp at hu
      exact Or.inr ⟨_, choice_mem _ 0 s.inp hne, rfl⟩

/-- **deletion_never_touches_negative**: an atom with a negative (do-not-touch) label is never among the atoms a deletion
    removes, pre-selected target or not -/
theorem deletion_never_touches_negative (r : Nat) (s : State) (i : Nat) (x : Int)
    (hx : (s.obj r).labels[i]? = some x) (hneg : x < 0) : i ∉ (attemptDeletion r s).1 := by
  rcases deletion_target_eligible r s with h | ⟨l, hl, h⟩
  · rw [h]; simp
  · rw [h]
    intro hi
    have := (whereEq_mem _ _ _).1 hi
    rw [hx] at this
    have hl0 := ((uniqueLabels_mem _ _).1 hl).2
    cases this; omega

/-- the code before the repair used a pre-selected label unchecked: `to_delete_label = -1` removed every atom labelled −1
    (three substrate atoms as "one particle") -/
def attemptDeletionPinned (r : Nat) (s : State) : List Nat × State :=
  match (s.obj r).toDelete with
  | some l => (whereEq (s.obj r).labels l, s)
  | none => attemptDeletion r s

theorem pinned_preselected_negative_deleted :
    let s : State := { atoms := { rows := [⟨(0,0,0), (0,0,0), [29]⟩, ⟨(1,0,0), (0,0,0), [29]⟩, ⟨(2,0,0), (0,0,0), [47]⟩],
                                  cell := (9,9,9), fixed := none },
                       heap := [{ kind := .exch, labels := [-1, -1, 0], toDelete := some (-1) }], ctx := {}, inp := {} }
    (attemptDeletionPinned 0 s).1 = [0, 1] ∧ (attemptDeletion 0 s).1 = [] := by decide

end MM
