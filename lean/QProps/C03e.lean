import QProps.C03x
/-!
# C03 — the point the grand-canonical theorems exclude: nothing to insert

`GInv` asks for a non-empty exchange template (`templ`), because an inserted particle must consist of at least one atom
for the counter and label theorems to make sense. That hypothesis was forced by the proofs; running the real code AT the
excluded point (the default `GrandCanonical(exchange_atoms=None)`, or an empty `to_add_atoms`) showed a genuine defect:
`np.arange(len(atoms))[-0:]` selects EVERY atom, so the "new" atoms were the whole system and a vetoed or rejected
insertion deleted them all. Repaired by commit 9809729 ("an insertion with nothing to insert is not a move"); the model
follows the repaired code, and the two theorems below cover the excluded point from both sides.
-/
namespace MM

/-- **empty_insertion_is_no_move** (repaired code): with nothing to insert the move fails at once; atoms, context and
    the scripted inputs are untouched (no operation, no `check_move` call), whatever else the state holds. -/
theorem empty_insertion_is_no_move (r : Nat) (s : State) (h : toAddOf (s.obj r) s.ctx = []) :
    (attemptAddition r s).1 = [] ∧ (attemptAddition r s).2.atoms = s.atoms ∧
    (attemptAddition r s).2.ctx = s.ctx ∧ (attemptAddition r s).2.inp = s.inp ∧
    (exchAdd r s).1 = false ∧ (exchAdd r s).2.atoms = s.atoms ∧ (exchAdd r s).2.ctx = s.ctx := by
  have ha : attemptAddition r s = ([], s.setObj r { s.obj r with toAdd := some [] }) := by
    unfold attemptAddition
    simp [h]
  refine ⟨by rw [ha], by rw [ha]; rfl, by rw [ha]; rfl, by rw [ha]; rfl, ?_, ?_, ?_⟩ <;>
    simp [exchAdd, ha, clearExch, State.setObj]

/-- the pinned `attempt_addition`: `_moving_indices = np.arange(len(atoms))[-len(to_add_atoms):]` -/
def attemptAdditionPinned (r : Nat) (s : State) : List Nat × State :=
  let new := toAddOf (s.obj r) s.ctx
  let n := s.atoms.rows.length + new.length
  let moving := if new.isEmpty then List.range n else addMoving new s.atoms.rows.length     -- `[-0:]` = everything
  let s1 : State := { (addStart r s) with ctx := { (addStart r s).ctx with moving := moving } }
  let res := attemptDisplacement { s.obj r with toAdd := some new } s1
  if res.1 then (moving, res.2)
  else ([], { res.2 with atoms := res.2.atoms.delete moving })

def e3State : State :=
  { atoms := { rows := [⟨(1,0,0), (0,0,0), [29]⟩, ⟨(2,0,0), (0,0,0), [29]⟩], cell := (9,9,9), fixed := none },
    heap := [{ kind := .exch, labels := [0, 1], bias := 1000 }],
    ctx := { lastPos := [(1,0,0), (2,0,0)], template := [] },
    inp := { draws := [0], ops := [(1,1,1)], checks := [false] } }

/-- **pinned_empty_insertion_deletes_everything**: the witness of the repaired defect — a vetoed insertion of
    nothing removes both atoms of a two-atom system under the pinned index arithmetic, none under the repaired one. -/
theorem pinned_empty_insertion_deletes_everything :
    toAddOf (e3State.obj 0) e3State.ctx = [] ∧
    (attemptAdditionPinned 0 e3State).2.atoms.rows = [] ∧
    (attemptAddition 0 e3State).2.atoms.rows.length = 2 := by decide

end MM
