import QProofs.MachineCount
/-!
# C11 — a displacement move moves only the chosen particle

Statements are about `MM.dispCall` / `MM.compDispCall` (models of `DisplacementMove.__call__` and
`CompositeDisplacementMove.__call__`), for **all** label arrays, operation results, scripts and retry budgets.
-/
namespace MM

/-- **disp_changes_only_selected**: on success exactly the atoms sharing the selected label are touched: every
    other row (position included) is unchanged; the cell, the constraints and the atom count are unchanged; every row
    with the selected label that no constraint pins moves by the one operation result `d`. On failure nothing changes. -/
theorem disp_changes_only_selected (r : Nat) (s : State) (hr : r < s.heap.length) :
    let ok := (dispCall r s).1
    let s' := (dispCall r s).2
    s'.atoms.cell = s.atoms.cell ∧ s'.atoms.fixed = s.atoms.fixed ∧
    s'.atoms.rows.length = s.atoms.rows.length ∧
    (ok = false → s'.atoms = s.atoms) ∧
    (ok = true → ∃ l d, (s'.obj r).displaced = some l ∧
        (∀ i : Nat, (s.obj r).labels[i]? ≠ some l → s'.atoms.rows[i]? = s.atoms.rows[i]?) ∧
        (∀ (i : Nat) (row : Row), (s.obj r).labels[i]? = some l → s.atoms.rows[i]? = some row →
            ((s.obj r).applyConstraints && isFixed s.atoms i) = false →
            s'.atoms.rows[i]? = some { row with pos := V3.add row.pos d })) := by
  have h := dispCall_spec r s hr
  have hk := dispCall_keeps r s hr
  refine ⟨hk.pos.1, hk.pos.2.1, ?_, fun hf => (h.fail_atoms hf).1, ?_⟩
  · have := congrArg List.length hk.pos.2.2
    simpa using this
  · intro hok
    obtain ⟨l, d, hd, hdis, _⟩ := h.ok_atoms hok
    refine ⟨l, d, hdis, ?_, ?_⟩
    · intro i hi
      rw [hd]
      exact applyDisp_untouched _ _ _ _ i (fun hm => hi ((whereEq_mem _ _ _).1 hm))
    · intro i row hi hrow hfix
      rw [hd]
      exact applyDisp_moved _ _ _ _ i row ((whereEq_mem _ _ _).2 hi) hfix hrow

/-- **negative_never_moved**: atoms with a negative label are never displaced — whether the target is drawn by the move
    itself (the draw is taken from the non-negative labels only) or PRE-SELECTED by the user (a pre-selected label that is
    not eligible makes the move fail). No hypothesis on how the target was chosen. -/
theorem negative_never_moved (r : Nat) (s : State) (hr : r < s.heap.length) (i : Nat) (x : Int)
    (hx : (s.obj r).labels[i]? = some x) (hneg : x < 0) :
    (dispCall r s).2.atoms.rows[i]? = s.atoms.rows[i]? := by
  have h := dispCall_spec r s hr
  cases hok : (dispCall r s).1 with
  | false => rw [(h.fail_atoms hok).1]
  | true =>
    obtain ⟨l, d, hd, hdis, _⟩ := h.ok_atoms hok
    obtain ⟨l', hdis', hmem⟩ := dispCall_ok_mem r s hr hok
    have hll : l' = l := by rw [hdis] at hdis'; exact (Option.some.inj hdis').symm
    subst hll
    have hl := ((uniqueLabels_mem _ _).1 hmem).2
    rw [hd]
    apply applyDisp_untouched
    intro hm
    have := (whereEq_mem _ _ _).1 hm
    rw [hx] at this
    cases this; omega

/-- **disp_no_candidate_fails**: with no eligible particle the move reports failure and changes nothing, pre-selected
    target or not -/
theorem disp_no_candidate_fails (r : Nat) (s : State) (hr : r < s.heap.length)
    (hnone : ∀ x ∈ (s.obj r).labels, x < 0) :
    (dispCall r s).1 = false ∧ (dispCall r s).2.atoms = s.atoms := by
  have hu : uniqueLabels (s.obj r).labels = [] := by
    apply List.eq_nil_iff_forall_not_mem.mpr
    intro x hx
    have := (uniqueLabels_mem _ _).1 hx
    have := hnone x this.1
    omega
  have hf : (dispCall r s).1 = false := by
    cases hok : (dispCall r s).1 with
    | false => rfl
    | true =>
      obtain ⟨l, _, hmem⟩ := dispCall_ok_mem r s hr hok
      rw [hu] at hmem; cases hmem
  exact ⟨hf, ((dispCall_spec r s hr).fail_atoms hf).1⟩

/-- **preselected_ineligible_fails**: a pre-selected label that no atom carries, or a negative one, is not a target: the
    move reports failure, moves nothing and forgets the pre-selection -/
theorem preselected_ineligible_fails (r : Nat) (s : State) (hr : r < s.heap.length) (l : Int)
    (hpre : (s.obj r).toDisplace = some l) (hl : l ∉ uniqueLabels (s.obj r).labels) :
    (dispCall r s).1 = false ∧ (dispCall r s).2.atoms = s.atoms ∧ ((dispCall r s).2.obj r).toDisplace = none := by
  have hsp := dispCall_spec r s hr
  have hf : (dispCall r s).1 = false := by
    cases hok : (dispCall r s).1 with
    | false => rfl
    | true =>
      obtain ⟨l', d, _, hdis, hsel⟩ := hsp.ok_atoms hok
      obtain ⟨l'', hdis', hmem⟩ := dispCall_ok_mem r s hr hok
      rcases hsel with hp | ⟨hnone, _⟩
      · rw [hpre] at hp
        have : l'' = l := by
          rw [hdis] at hdis'; have := Option.some.inj hdis'; have := Option.some.inj hp; omega
        subst this; exact absurd hmem hl
      · rw [hpre] at hnone; cases hnone
  exact ⟨hf, (hsp.fail_atoms hf).1, hsp.presel_cleared⟩

/-- before the repair a pre-selected NEGATIVE label was displaced like any other (`np.where(labels == -1)`): the pinned
    `__call__` on a two-atom system whose second atom is frozen (label −1) moves exactly that atom -/
def dispCallPinned (r : Nat) (s : State) : Bool × State :=
  match (s.obj r).toDisplace with
  | some _ => dispCore r (s.obj r) s
  | none => dispCall r s

/-- a fixed atom is never displaced when constraints are applied (used by C12) -/
theorem disp_fixed_stays (r : Nat) (s : State) (hr : r < s.heap.length)
    (hc : (s.obj r).applyConstraints = true) (i : Nat) (hf : isFixed s.atoms i = true) :
    (dispCall r s).2.atoms.rows[i]? = s.atoms.rows[i]? := by
  have h := dispCall_spec r s hr
  cases hok : (dispCall r s).1 with
  | false => rw [(h.fail_atoms hok).1]
  | true =>
    obtain ⟨l, d, hd, _, _⟩ := h.ok_atoms hok
    rw [hd, hc]
    exact applyDisp_fixed _ _ _ i hf

/-! ### composites -/

/-- **composite_no_repeat**: the labels a composite displacement records as displaced are pairwise distinct -/
theorem composite_no_repeat (rs : List Nat) (acc : List (Option Int)) (s : State)
    (hrs : ∀ r ∈ rs, r < s.heap.length) (hacc : (acc.filterMap id).Nodup) :
    ((compDispLoop rs acc s).1.filterMap id).Nodup := by
  induction rs generalizing acc s with
  | nil => simpa [compDispLoop] using hacc
  | cons r rs ih =>
    have hr : r < s.heap.length := hrs r (by simp)
    simp only [compDispLoop]
    split
    · apply ih
      · intro r' h'; simp only [State.setObj, List.length_set]; exact hrs r' (by simp [h'])
      · simpa using hacc
    · rename_i hcand
      have hne : setdiff (uniqueLabels (s.obj r).labels) (acc.filterMap id) ≠ [] := by
        intro h; rw [h] at hcand; simp at hcand
      have hmem := choice_mem _ 0 s.inp hne
      rcases hch : choice (setdiff (uniqueLabels (s.obj r).labels) (acc.filterMap id)) 0 s.inp with ⟨l, i⟩
      rw [hch] at hmem
      simp only []
      generalize hs1 : (({ s with inp := i } : State).setObj r { s.obj r with toDisplace := some l }) = s1
      have hlen1 : s1.heap.length = s.heap.length := by rw [← hs1]; simp [State.setObj]
      have hr1 : r < s1.heap.length := by rw [hlen1]; exact hr
      have hobj1 : (s1.obj r).toDisplace = some l := by
        rw [← hs1]; rw [obj_setObj _ _ _ (by simpa using hr)]
      have hsp := dispCall_spec r s1 hr1
      rcases hdc : dispCall r s1 with ⟨ok, s2⟩
      rw [hdc] at hsp
      simp only []
      apply ih
      · intro r' h'; rw [hsp.heap_len, hlen1]; exact hrs r' (by simp [h'])
      · cases ok with
        | false => simpa using hacc
        | true =>
          obtain ⟨l', d, _, hdis, hsel⟩ := hsp.ok_atoms rfl
          have hl' : l' = l := by
            rcases hsel with hp | ⟨hn, _⟩
            · rw [hobj1] at hp; cases hp; rfl
            · rw [hobj1] at hn; cases hn
          subst hl'
          simp only [if_true, hdis, List.filterMap_append, List.filterMap_cons, id, List.filterMap_nil]
          rw [List.nodup_append]
          refine ⟨hacc, by simp, ?_⟩
          intro a ha b hb
          simp at hb; subst hb
          intro hab; subst hab
          simp only [setdiff, List.mem_filter] at hmem
          have := hmem.2
          simp at this
          have ha' : some a ∈ acc := by simpa using ha
          exact this ha' 

/-- **composite_reports_count**: the composite succeeds exactly when it moved at least one particle, and the number
    it reports is the number of recorded (pairwise distinct) labels -/
theorem composite_reports_count (rs : List Nat) (s : State) :
    (compDispCall rs s).1 = decide (((compDispCall rs s).2.1.filterMap id).length > 0) := by
  rfl

/-- **composite_count**: when the geometric check never vetoes and the members share one labelling `L`, a composite of
    `n` displacement moves displaces `n` particles, or else every eligible particle: together with
    `composite_no_repeat` (pairwise distinct labels, all taken from the eligible ones) it moves exactly
    `min(n, eligible)` particles. -/
theorem composite_count (L : List Int) (rs : List Nat) (s : State)
    (hrs : ∀ r ∈ rs, r < s.heap.length) (hL : ∀ r ∈ rs, (s.obj r).labels = L)
    (hm : ∀ r ∈ rs, 0 < (s.obj r).maxAttempts) (hnv : NoVeto s.inp) :
    ((compDispCall rs s).2.1.filterMap id).length = rs.length ∨
    setdiff (uniqueLabels L) ((compDispCall rs s).2.1.filterMap id) = [] := by
  have := compDispLoop_count_noVeto L rs [] s hrs hL hm hnv
  simpa [compDispCall] using this

/-! ### non-vacuity -/

def exState : State :=
  { atoms := { rows := [⟨(0,0,0), (0,0,0), [29]⟩, ⟨(2,0,0), (0,0,0), [29]⟩, ⟨(4,0,0), (0,0,0), [8]⟩],
               cell := (9,9,9), fixed := some [2] },
    heap := [{ kind := .disp, labels := [5, -1, 5], maxAttempts := 2 }],
    ctx := {}, inp := { draws := [0], ops := [(1,1,1), (2,0,0)], checks := [false, true] } }

example : (dispCall 0 exState).1 = true ∧
    (dispCall 0 exState).2.atoms.rows.map (·.pos) = [(2,0,0), (2,0,0), (4,0,0)] := by decide

/-- the same state with the frozen atom's label −1 (resp. a label nobody carries) pre-selected -/
def exPreNeg : State := exState.setObj 0 { exState.obj 0 with toDisplace := some (-1) }
def exPreMissing : State := exState.setObj 0 { exState.obj 0 with toDisplace := some 7 }

/-- the move as repaired: fails and moves nothing … -/
example : (dispCall 0 exPreNeg).1 = false ∧ (dispCall 0 exPreNeg).2.atoms = exPreNeg.atoms ∧
    (dispCall 0 exPreMissing).1 = false ∧ (dispCall 0 exPreMissing).2.atoms = exPreMissing.atoms := by decide

/-- … **pinned_preselected_negative_moves**: the pinned `__call__` displaced the atom labelled −1 and reported
    success, and reported success for a label nobody carries (nothing moved: "no particle is eligible" yet no failure) -/
theorem pinned_preselected_negative_moves :
    (dispCallPinned 0 exPreNeg).1 = true ∧
    (dispCallPinned 0 exPreNeg).2.atoms.rows.map (·.pos) = [(0,0,0), (4,0,0), (4,0,0)] ∧
    (dispCallPinned 0 exPreMissing).1 = true ∧ (dispCallPinned 0 exPreMissing).2.atoms = exPreMissing.atoms := by decide

example : (-1 : Int) ∉ uniqueLabels (exPreNeg.obj 0).labels ∧ (exPreNeg.obj 0).toDisplace = some (-1) := by decide

end MM
