import QModel.ResultsDict
/-!
# C04 — the remembered results never turn into those of another configuration (dictionary level)

`RDict` (`QModel/ResultsDict.lean`) models `calc.results` and `context.last_results` as objects. With both repairs in
place (`fixed`: arrays copied when remembered; `sep`: the remembered results are a dictionary of their own, also when
handed back) the invariant below survives EVERY operation in ANY order — moves of the atoms, energy and force requests
by the driver, an integrator, a logger or the user, acceptances and rejections — for every force function `F`, lazy or
eager, in-place or fresh-array calculators; hence `get_forces()` always returns the forces of the atoms as they are.
The two witnesses show that each repair is needed.
-/
namespace RDict
variable (F : Nat → Nat)

structure Inv (s : St) : Prop where
  /-- whatever `calc.results` holds is right for the configuration it was computed for -/
  cres : ∀ d, s.cres = some d → ∀ r, d.forces = some r → deref s r = F d.cfg
  /-- the remembered results belong to the remembered configuration and own their arrays -/
  last : ∀ d, s.last = some d → d.cfg = s.lastCfg ∧ ∀ r, d.forces = some r → r = .own (F d.cfg)
  unshared : s.shared = false

theorem inv_init (c : Nat) : Inv F ({ cur := c } : St) := by
  refine ⟨?_, ?_, rfl⟩
  · intro d h; cases h
  · intro d h; cases h

theorem freshRef_deref (fl : Flags) (s s' : St) (hb : s'.buf = (freshRef F fl s).2) :
    deref s' (freshRef F fl s).1 = F s.cur := by
  unfold freshRef at hb ⊢
  by_cases hi : fl.inplace = true
  · simp only [hi, if_true] at hb ⊢
    simp [deref, hb]
  · simp only [hi, Bool.false_eq_true, if_false] at hb ⊢
    simp [deref]

/-- the remembered results own their arrays: their meaning does not depend on the state -/
theorem last_own (s s' : St) (h : Inv F s) (hl : s'.last = s.last) (hc : s'.lastCfg = s.lastCfg) :
    ∀ d, s'.last = some d → d.cfg = s'.lastCfg ∧ ∀ r, d.forces = some r → r = .own (F d.cfg) := by
  intro d hd
  rw [hl] at hd
  rw [hc]
  exact h.last d hd

theorem newCalc_spec (fl : Flags) (want : Bool) (s : St) (h : Inv F s) :
    Inv F (newCalc F fl want s) ∧ (newCalc F fl want s).cur = s.cur ∧ (newCalc F fl want s).lastCfg = s.lastCfg ∧
    (newCalc F fl want s).last = s.last ∧
    ∃ d, (newCalc F fl want s).cres = some d ∧ d.cfg = s.cur ∧ (want = true → d.forces.isSome = true) := by
  unfold newCalc
  by_cases hw : (want || !fl.lazy) = true
  · simp only [hw, if_true]
    refine ⟨⟨?_, last_own F s _ h rfl rfl, rfl⟩, by first | rfl | trivial, by first | rfl | trivial,
      by first | rfl | trivial, _, rfl, rfl, fun _ => rfl⟩
    intro d hd r hr
    simp only [Option.some.injEq] at hd
    subst hd
    simp only [Option.some.injEq] at hr
    subst hr
    exact freshRef_deref F fl s _ rfl
  · simp only [hw, Bool.false_eq_true, if_false]
    refine ⟨⟨?_, last_own F s _ h rfl rfl, rfl⟩, by first | rfl | trivial, by first | rfl | trivial,
      by first | rfl | trivial, _, rfl, rfl, ?_⟩
    · intro d hd r hr
      simp only [Option.some.injEq] at hd
      subst hd
      cases hr
    · intro hw'; rw [hw'] at hw; simp at hw

theorem complete_spec (fl : Flags) (s : St) (d : Dict) (h : Inv F s) (hd : s.cres = some d) (hcfg : d.cfg = s.cur) :
    Inv F (complete F fl s d) ∧ (complete F fl s d).cur = s.cur ∧ (complete F fl s d).lastCfg = s.lastCfg ∧
    (complete F fl s d).last = s.last ∧
    ∃ d', (complete F fl s d).cres = some d' ∧ d'.cfg = s.cur ∧ d'.forces.isSome = true := by
  have hsh := h.unshared
  have hlast : (complete F fl s d).last = s.last := by simp [complete, hsh]
  refine ⟨⟨?_, last_own F s _ h hlast rfl, hsh⟩, rfl, rfl, hlast, _, rfl, hcfg, rfl⟩
  intro d' hd' r hr
  simp only [complete, Option.some.injEq] at hd'
  subst hd'
  simp only [Option.some.injEq] at hr
  subst hr
  rw [hcfg]
  exact freshRef_deref F fl s _ rfl

/-- after a request the results belong to the current configuration; with `want` they contain forces -/
theorem ensure_spec (fl : Flags) (want : Bool) (s : St) (h : Inv F s) :
    Inv F (ensure F fl want s) ∧ (ensure F fl want s).cur = s.cur ∧ (ensure F fl want s).lastCfg = s.lastCfg ∧
    (ensure F fl want s).last = s.last ∧
    ∃ d, (ensure F fl want s).cres = some d ∧ d.cfg = s.cur ∧ (want = true → d.forces.isSome = true) := by
  unfold ensure
  cases hc : s.cres with
  | none => exact newCalc_spec F fl want s h
  | some d0 =>
    simp only []
    by_cases hcfg : d0.cfg = s.cur
    · simp only [hcfg, if_true]
      by_cases hcomp : (want && d0.forces.isNone) = true
      · simp only [hcomp, if_true]
        obtain ⟨a, b, c, e, d', hd', hc', hf'⟩ := complete_spec F fl s d0 h hc hcfg
        exact ⟨a, b, c, e, d', hd', hc', fun _ => hf'⟩
      · simp only [hcomp, Bool.false_eq_true, if_false]
        refine ⟨h, by first | rfl | trivial, by first | rfl | trivial, by first | rfl | trivial, d0, hc, hcfg, ?_⟩
        intro hw
        rw [hw] at hcomp
        cases hfo : d0.forces with
        | none => rw [hfo] at hcomp; simp at hcomp
        | some r => rfl
    · simp only [hcfg, if_false]
      exact newCalc_spec F fl want s h

/-- **inv_step**: with both repairs the invariant survives every operation -/
theorem inv_step (fl : Flags) (hf : fl.fixed = true) (hs : fl.sep = true) (s : St) (op : Op) (h : Inv F s) :
    Inv F (step F fl s op) := by
  cases op with
  | move k => exact ⟨h.cres, h.last, h.unshared⟩
  | energy => exact (ensure_spec F fl false s h).1
  | forces => exact (ensure_spec F fl true s h).1
  | save =>
    obtain ⟨hi, hcur, _, _, d, hd, hcfg, _⟩ := ensure_spec F fl false s h
    simp only [step, hd]
    refine ⟨?_, ?_, by simp [hs]⟩
    · intro d' hd' r hr
      simp only [Option.some.injEq] at hd'
      subst hd'
      simp only [detachD, hf, if_true, Option.map_eq_some_iff] at hr
      obtain ⟨r0, hr0, rfl⟩ := hr
      have hcf : (detachD fl (ensure F fl false s) d).cfg = d.cfg := by simp [detachD, hf]
      rw [hcf]
      exact hi.cres d hd r0 hr0
    · intro d' hd'
      simp only [Option.some.injEq] at hd'
      subst hd'
      refine ⟨by simp [detachD, hf, hcfg, hcur], ?_⟩
      intro r hr
      simp only [detachD, hf, if_true, Option.map_eq_some_iff] at hr
      obtain ⟨r0, hr0, rfl⟩ := hr
      have := hi.cres d hd r0 hr0
      simp only [detachD, hf, if_true]
      rw [this]
  | revert =>
    simp only [step]
    refine ⟨?_, h.last, by simp [hs]⟩
    intro d hd r hr
    obtain ⟨_, hown⟩ := h.last d hd
    rw [hown r hr]; rfl

theorem inv_run (fl : Flags) (hf : fl.fixed = true) (hs : fl.sep = true) (ops : List Op) (s : St) (h : Inv F s) :
    Inv F (run F fl ops s) := by
  induction ops generalizing s with
  | nil => exact h
  | cons op ops ih => exact ih _ (inv_step F fl hf hs s op h)

/-- **forces_never_stale**: after ANY sequence of operations from a fresh simulation, `atoms.get_forces()` returns the
    forces of the atoms as they are — for every force function, calculator style and history. -/
theorem forces_never_stale (fl : Flags) (hf : fl.fixed = true) (hs : fl.sep = true) (c : Nat) (ops : List Op) :
    readForces F fl (run F fl ops { cur := c }) = some (F (run F fl ops { cur := c }).cur) := by
  have h := inv_run F fl hf hs ops _ (inv_init F c)
  obtain ⟨hi, hcur, _, _, d, hd, hcfg, hw⟩ := ensure_spec F fl true _ h
  unfold readForces
  simp only [hd]
  have hsome := hw rfl
  cases hfr : d.forces with
  | none => rw [hfr] at hsome; cases hsome
  | some r =>
    simp only [Option.map_some]
    rw [hi.cres d hd r hfr, hcfg]

/-! ### each repair is needed -/

def exF : Nat → Nat := fun k => k + 10

/-- in-place calculator, results remembered by reference (before 699d475): accept at 0, trial at 1, reject -/
theorem stale_without_copy :
    readForces exF ⟨false, true, false, true⟩
      (run exF ⟨false, true, false, true⟩ [.energy, .save, .move 1, .energy, .revert] { cur := 0 }) = some (exF 1) := by
  decide

/-- copies, but ONE dictionary (before d9c45b0), lazy in-place calculator: accept at 0 on an energy-only result, the
    integrator asks for forces at 0 (completing the shared dictionary), integrates to 1, the trial is rejected -/
theorem stale_with_shared_dictionary :
    readForces exF ⟨true, true, true, false⟩
      (run exF ⟨true, true, true, false⟩ [.energy, .save, .forces, .move 1, .forces, .energy, .revert] { cur := 0 })
      = some (exF 1) := by
  decide

/-- … and the same histories with both repairs -/
example : readForces exF ⟨true, true, true, true⟩
      (run exF ⟨true, true, true, true⟩ [.energy, .save, .forces, .move 1, .forces, .energy, .revert] { cur := 0 })
      = some (exF 0) := by decide

end RDict
