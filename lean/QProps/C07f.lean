import QProofs.FBDriverToy
/-!
# C07 (force-bias drivers) — restarting `ForceBias` / `AdaptiveForceBias` from any saved step continues the same trajectory

QProps/C07.lean proves `restart_continues` for an ABSTRACT `step` under the hypothesis `C07.Factors step out`: the step and
the per-step output read the simulation only through what the restart file stores. `C07.Sim V T` is the serialised object
tree of the class specs, which cannot be instantiated with the numeric state of the force-bias machine, so the ANALOGUE is
proved directly on the driver machine of QModel/FBDriver.lean, with `FBD.persist` in the role of `save`/`load`
(what `from_dict(decode(encode(to_dict())))` + a fresh calculator rebuilds) and `RunLoop.run` in the role of `runN`:

* `fbd_factors` — the analogue of `C07.Factors` for ONE STEP OF A RUN (`validate_simulation(); step()`): persisted part
  and observable view after the step are functions of the persisted part before it. For `ForceBias` the bare `step()`
  factors as well (`fb_step_factors`); for `AdaptiveForceBias` the bare `step()` does NOT (`afb_step_does_not_factor`:
  `update_delta` reads `calc.results`, which no restart file stores) — `validate_simulation()` is what repairs it.
* `restart_continues_fb` — for all `n`, `k ≤ n`, from any simulation object: `run k`, restart, `run (n-k)` ends in the
  same persisted state (positions, momenta, masses, delta, generator state, settings), the same `step_count` and
  `max_steps`, and produces the same per-step outputs as `run n`, for both classes. `restart_continues_fb_fields` spells
  the fields out.
* `afb_restart_breaks_without_validate` — computed witness: on the loop without the adaptive class's
  `validate_simulation` the first step after the restart uses the fallback variance and the trajectory leaves the
  uninterrupted one.
-/
namespace FBD
variable {α : Type} [Num α] [FB.Ops α] [∀ a b : α, Decidable (a < b)]

/-! ## the analogue of `C07.Factors` -/

/-- **fbd_factors**: one step of a run (`validate_simulation()` then `step()`) reads the simulation only through what the
    restart file stores: there are functions `f`, `g` of the persisted part giving the persisted part and the
    observable view after the step. -/
theorem fbd_factors (env : Env α) (k : Nat) :
    (∃ f : St α → St α, ∀ x, persist (step env k (validate x)) = f (persist x)) ∧
    (∃ g : St α → View α, ∀ x, view (step env k (validate x)) = g (persist x)) := by
  have key : ∀ x : St α, Rel (validate x) (validate (persist x)) := fun x => rel_validate x (persist x) rfl
  exact ⟨⟨fun p => persist (step env k (validate p)), fun x => (step_congr env k _ _ (key x)).1⟩,
         ⟨fun p => view (step env k (validate p)), fun x => (step_congr env k _ _ (key x)).2.1⟩⟩

/-- for `ForceBias` the bare `step()` factors (nothing but `get_forces()`, which checks the state, reads the calculator) -/
theorem fb_step_factors (env : Env α) (k : Nat) :
    (∃ f : St α → St α, ∀ x, x.adaptive = false → persist (step env k x) = f (persist x)) ∧
    (∃ g : St α → View α, ∀ x, x.adaptive = false → view (step env k x) = g (persist x)) := by
  have key : ∀ x : St α, x.adaptive = false → Rel x (persist x) := fun x ha =>
    ⟨rfl, fun h => by rw [ha] at h; cases h⟩
  exact ⟨⟨fun p => persist (step env k p), fun x ha => (step_congr env k _ _ (key x ha)).1⟩,
         ⟨fun p => view (step env k p), fun x ha => (step_congr env k _ _ (key x ha)).2.1⟩⟩

/-! ## restart continues -/

/-- the state reached by `run k`, restart, `run m` and the state reached by `run (k + m)` are related (same persisted
    part, same cache where it matters) -/
theorem restart_rel (env : Env α) (ivs : List Int) (lg : Option Nat) (v : RunLoop.Variant) (k m : Nat)
    (s : RunLoop.Sim (St α)) :
    Rel (RunLoop.run (cfg env ivs lg v) m (restart (RunLoop.run (cfg env ivs lg v) k s))).st
        (RunLoop.run (cfg env ivs lg v) (k + m) s).st := by
  rw [RunLoop.run_prefix (cfg env ivs lg v) k (k + m) (by omega) s, RunLoop.run_st (cfg env ivs lg v) m]
  have e1 : (restart (RunLoop.run (cfg env ivs lg v) k s)).stepCount = s.stepCount + k := RunLoop.run_stepCount _ _ _
  have e2 : k + m - k = m := by omega
  rw [e1, e2]
  exact stepsFrom_rel env ivs lg v _ _ _ _ (rel_validate_persist _ (run_fresh env ivs lg v k s))

theorem restart_continues_aux (env : Env α) (ivs : List Int) (lg : Option Nat) (v : RunLoop.Variant)
    (s : RunLoop.Sim (St α)) (k m : Nat) (c : RunLoop.Cfg (St α)) (hc : c = cfg env ivs lg v) :
    persist (RunLoop.run c m (restart (RunLoop.run c k s))).st = persist (RunLoop.run c (k + m) s).st ∧
    (RunLoop.run c m (restart (RunLoop.run c k s))).stepCount = (RunLoop.run c (k + m) s).stepCount ∧
    (RunLoop.run c m (restart (RunLoop.run c k s))).maxSteps = (RunLoop.run c (k + m) s).maxSteps ∧
    outputs c m (restart (RunLoop.run c k s)) = (outputs c (k + m) s).drop k ∧
    (0 < m → view (RunLoop.run c m (restart (RunLoop.run c k s))).st = view (RunLoop.run c (k + m) s).st ∧
      (RunLoop.run c m (restart (RunLoop.run c k s))).st.cache = (RunLoop.run c (k + m) s).st.cache) := by
  subst hc
  have hcount : (restart (RunLoop.run (cfg env ivs lg v) k s)).stepCount = s.stepCount + k :=
    RunLoop.run_stepCount _ _ _
  have hview : ∀ j, view (RunLoop.run (cfg env ivs lg v) (j + 1) (restart (RunLoop.run (cfg env ivs lg v) k s))).st
        = view (RunLoop.run (cfg env ivs lg v) (k + (j + 1)) s).st ∧
      (RunLoop.run (cfg env ivs lg v) (j + 1) (restart (RunLoop.run (cfg env ivs lg v) k s))).st.cache
        = (RunLoop.run (cfg env ivs lg v) (k + (j + 1)) s).st.cache := by
    intro j
    have hr := restart_rel env ivs lg v k j s
    have e1 := RunLoop.run_succ_st (cfg env ivs lg v) j (restart (RunLoop.run (cfg env ivs lg v) k s))
    have e2 := RunLoop.run_succ_st (cfg env ivs lg v) (k + j) s
    have e3 : (restart (RunLoop.run (cfg env ivs lg v) k s)).stepCount + j = s.stepCount + (k + j) := by
      rw [hcount]; omega
    rw [e3] at e1
    have e4 : k + (j + 1) = k + j + 1 := by omega
    rw [e4, e1, e2]
    exact (step_congr env (s.stepCount + (k + j)) _ _ hr).2
  refine ⟨(restart_rel env ivs lg v k m s).1, ?_, ?_, ?_, ?_⟩
  · rw [RunLoop.run_stepCount, RunLoop.run_stepCount, hcount]; omega
  · rw [RunLoop.run_maxSteps, RunLoop.run_maxSteps, hcount]; omega
  · apply List.ext_getElem
    · simp [outputs]
    · intro i h1 h2
      simp only [outputs, List.getElem_map, List.getElem_range, List.getElem_drop]
      rw [(hview i).1, Nat.add_assoc]
  · intro hm
    obtain ⟨j, rfl⟩ : ∃ j, m = j + 1 := ⟨m - 1, by omega⟩
    exact hview j

/-- **restart_continues_fb** (`ForceBias` and `AdaptiveForceBias`, either variant of the loop, any observers): for every
    simulation object `s`, every `n` and every restart point `k ≤ n`: running `k` steps, writing the restart dictionary,
    rebuilding the simulation from it with a FRESH calculator and running the remaining `n - k` steps
    1. ends in the same persisted state as the uninterrupted `run n` (atoms with positions, momenta and masses, generator
       state, temperature, delta, `masses_scaling_power`, `shaped_masses`, adaptive settings, the fuel flag),
    2. with the same `step_count` and `max_steps`,
    3. produces, step by step, the same observable outputs (positions, momenta, delta, generator state, gamma, zeta)
       as the steps `k+1 … n` of the uninterrupted run,
    4. and, when at least one step follows the restart, ends with the same view and the same calculator cache. -/
theorem restart_continues_fb (env : Env α) (ivs : List Int) (lg : Option Nat) (v : RunLoop.Variant)
    (s : RunLoop.Sim (St α)) (k n : Nat) (hk : k ≤ n) :
    let c := cfg env ivs lg v
    let straight := RunLoop.run c n s
    let resumed := RunLoop.run c (n - k) (restart (RunLoop.run c k s))
    persist resumed.st = persist straight.st ∧
    resumed.stepCount = straight.stepCount ∧ resumed.maxSteps = straight.maxSteps ∧
    outputs c (n - k) (restart (RunLoop.run c k s)) = (outputs c n s).drop k ∧
    (k < n → view resumed.st = view straight.st ∧ resumed.st.cache = straight.st.cache) := by
  obtain ⟨m, rfl⟩ : ∃ m, n = k + m := ⟨n - k, by omega⟩
  have e : k + m - k = m := by omega
  simp only [e]
  have h := restart_continues_aux env ivs lg v s k m _ rfl
  exact ⟨h.1, h.2.1, h.2.2.1, h.2.2.2.1, fun hlt => h.2.2.2.2 (by omega)⟩

/-- `restart_continues_fb` field by field -/
theorem restart_continues_fb_fields (env : Env α) (ivs : List Int) (lg : Option Nat) (v : RunLoop.Variant)
    (s : RunLoop.Sim (St α)) (k n : Nat) (hk : k ≤ n) :
    let c := cfg env ivs lg v
    let straight := (RunLoop.run c n s).st
    let resumed := (RunLoop.run c (n - k) (restart (RunLoop.run c k s))).st
    resumed.positions = straight.positions ∧ resumed.momenta = straight.momenta ∧ resumed.delta = straight.delta ∧
    resumed.rngPos = straight.rngPos ∧ resumed.masses = straight.masses ∧ resumed.powers = straight.powers ∧
    resumed.kT = straight.kT ∧ resumed.adaptive = straight.adaptive ∧ resumed.minDelta = straight.minDelta ∧
    resumed.maxDelta = straight.maxDelta ∧ resumed.refVar = straight.refVar ∧ resumed.fn = straight.fn ∧
    resumed.natoms = straight.natoms ∧ resumed.diverged = straight.diverged :=
  persist_fields (restart_continues_fb env ivs lg v s k n hk).1

/-- several restarts: a restart at every one of the points `k₁`, `k₁+k₂`, … changes nothing either (two of them shown;
    any number follows by induction from `restart_continues_fb` because the theorem starts from ANY object) -/
theorem restart_twice_fb (env : Env α) (ivs : List Int) (lg : Option Nat) (v : RunLoop.Variant)
    (s : RunLoop.Sim (St α)) (a b m : Nat) :
    let c := cfg env ivs lg v
    persist (RunLoop.run c m (restart (RunLoop.run c b (restart (RunLoop.run c a s))))).st
      = persist (RunLoop.run c (a + b + m) s).st := by
  intro c
  have h1 := (restart_continues_fb env ivs lg v (restart (RunLoop.run c a s)) b (b + m) (by omega)).1
  have h2 := (restart_continues_fb env ivs lg v s a (a + (b + m)) (by omega)).1
  have e1 : b + m - b = m := by omega
  have e2 : a + (b + m) - a = b + m := by omega
  simp only [e1, e2] at h1 h2
  rw [h1, h2, Nat.add_assoc]

/-! ## non-vacuity and witnesses (carrier `Rat`, QProofs/FBDriverToy.lean) -/
namespace Toy
open RunLoop (run fresh)

/-- `restart_continues_fb` instantiated: restart after step 1 of 3, both classes -/
example (ad : Bool) : persist (run c (3 - 1) (restart (run c 1 (fresh (st0 ad))))).st = persist (run c 3 (fresh (st0 ad))).st :=
  (restart_continues_fb env [1, 2] (some 0) .fixed (fresh (st0 ad)) 1 3 (by omega)).1

-- computed independently of the theorem, every restart point of a 3-step run, both classes; the outputs are not trivial
example : ∀ k ∈ [0, 1, 2, 3], ∀ ad ∈ [true, false],
    persist (run c (3 - k) (restart (run c k (fresh (st0 ad))))).st = persist (run c 3 (fresh (st0 ad))).st ∧
    (run c (3 - k) (restart (run c k (fresh (st0 ad))))).stepCount = 3 ∧
    outputs c (3 - k) (restart (run c k (fresh (st0 ad)))) = (outputs c 3 (fresh (st0 ad))).drop k := by decide +kernel
example : (outputs c 3 (fresh (st0 true))).map (·.rngPos) = [8, 14, 20] ∧
    ((outputs c 3 (fresh (st0 true))).map (·.positions)).Nodup ∧
    ((outputs c 3 (fresh (st0 true))).map (·.delta)).Nodup ∧
    (outputs c 3 (fresh (st0 false))).map (·.delta) = [[1/2, 1/2, 1/2], [1/2, 1/2, 1/2], [1/2, 1/2, 1/2]] := by
  decide +kernel
/-- the restarted object is a different one: no calculator results, transients at their constructor values -/
example : (restart (run c 1 (fresh (st0 true)))).st ≠ (run c 1 (fresh (st0 true))).st ∧
    (restart (run c 1 (fresh (st0 true)))).st.cache = none := by decide +kernel

/-- **afb_step_does_not_factor**: the bare `AdaptiveForceBias.step()` does not factor through the persisted part — two
    objects with the same restart dictionary (one holds calculator results, the rebuilt one does not) take different
    steps. This is the negation of the `C07.Factors`-style hypothesis for the bare step. -/
theorem afb_step_does_not_factor :
    ¬ ∃ f : St Rat → St Rat, ∀ x, persist (step env 0 x) = f (persist x) := by
  rintro ⟨f, hf⟩
  have h1 := hf (validate (st0 true))
  have h2 := hf (st0 true)
  have e : persist (validate (st0 true)) = persist (st0 true) := persist_validate _
  rw [e] at h1
  have : persist (step env 0 (validate (st0 true))) = persist (step env 0 (st0 true)) := by rw [h1, h2]
  revert this
  decide +kernel

/-- **afb_restart_breaks_without_validate**: on the loop without the adaptive class's `validate_simulation`, restarting
    after step 1 of 2 gives another delta for step 2 (the fallback: midpoint on every coordinate), other positions and
    other momenta than the uninterrupted run — `restart_continues_fb` is false there. -/
theorem afb_restart_breaks_without_validate :
    let cOld : RunLoop.Cfg (St Rat) := cfgNoValidate env [1, 2] (some 0) .fixed
    (run cOld 1 (restart (run cOld 1 (fresh (st0 true))))).st.delta = deltaFallback (st0 true) ∧
    deltaFallback (st0 true) = [11/20, 11/20, 11/20] ∧
    (run cOld 2 (fresh (st0 true))).st.delta ≠ [11/20, 11/20, 11/20] ∧
    (run cOld 1 (restart (run cOld 1 (fresh (st0 true))))).st.positions ≠ (run cOld 2 (fresh (st0 true))).st.positions ∧
    persist (run cOld 1 (restart (run cOld 1 (fresh (st0 true))))).st ≠ persist (run cOld 2 (fresh (st0 true))).st := by
  decide +kernel

/-- the same restart on a `ForceBias` object needs no `validate_simulation` -/
example :
    let cOld : RunLoop.Cfg (St Rat) := cfgNoValidate env [1, 2] (some 0) .fixed
    persist (run cOld 1 (restart (run cOld 1 (fresh (st0 false))))).st = persist (run cOld 2 (fresh (st0 false))).st := by
  decide +kernel

end Toy
end FBD
