import QProps.C07m
import QGen.Classes
/-!
# C07 — what `MM.persist` keeps is what the package's `to_dict()` writes

`QProps/C07m.lean` proves that the M-machine's future depends only on `MM.persist s` (atoms, generator stream, per move
object `labels` / `defaultLabel` / `maxAttempts` / `applyConstraints` / `scaleAtoms` / `bias`, per context `lastPos`,
`lastCell`, `lastMom`, `nExch`, `template`). This file ties that list to the code: for every field kept by `persist`,
the class table regenerated from the live package on every run (`QGen.classes`, `harness/gen_classes.py`: built from the
real `to_dict()` output of probe objects, differential in every setting) contains the corresponding setting with a
non-empty list of dictionary paths at which `to_dict()` emits it. A `to_dict` that stops writing one of them changes the
regenerated table and this theorem no longer checks (and C08's round trips find the concrete object).
-/
namespace C07t
open Ser

/-- M-machine field ↦ (class of the package, name of the setting) -/
def persisted : List (String × String × String) :=
  [ ("MoveObj.labels", "DisplacementMove", "labels"), ("MoveObj.labels", "ExchangeMove", "labels"),
    ("MoveObj.defaultLabel", "DisplacementMove", "default_label"), ("MoveObj.defaultLabel", "ExchangeMove", "default_label"),
    ("MoveObj.maxAttempts", "DisplacementMove", "max_attempts"), ("MoveObj.maxAttempts", "ExchangeMove", "max_attempts"),
    ("MoveObj.maxAttempts", "CellMove", "max_attempts"), ("MoveObj.maxAttempts", "HamiltonianDisplacementMove", "max_attempts"),
    ("MoveObj.applyConstraints", "DisplacementMove", "apply_constraints"),
    ("MoveObj.applyConstraints", "ExchangeMove", "apply_constraints"),
    ("MoveObj.applyConstraints", "CellMove", "apply_constraints"),
    ("MoveObj.scaleAtoms", "CellMove", "scale_atoms"),
    ("MoveObj.bias", "ExchangeMove", "bias_towards_insert"),
    ("Ctx.lastPos", "Canonical", "last_positions"), ("Ctx.lastPos", "HamiltonianCanonical", "last_positions"),
    ("Ctx.lastPos", "Isobaric", "last_positions"), ("Ctx.lastPos", "Isotension", "last_positions"),
    ("Ctx.lastPos", "GrandCanonical", "last_positions"),
    ("Ctx.lastCell", "Isobaric", "last_cell"), ("Ctx.lastCell", "Isotension", "last_cell"),
    ("Ctx.lastMom", "HamiltonianCanonical", "last_momenta"),
    ("Ctx.nExch", "GrandCanonical", "number_of_exchange_particles"),
    ("Ctx.template", "GrandCanonical", "exchange_atoms"),
    ("State.inp (generator state)", "Canonical", "rng_state"), ("State.inp (generator state)", "GrandCanonical", "rng_state"),
    ("State.inp (generator state)", "HamiltonianCanonical", "rng_state"), ("State.inp (generator state)", "Isobaric", "rng_state"),
    ("State.inp (generator state)", "Isotension", "rng_state") ]

/-- `to_dict()` of class `cls` emits the setting `name` somewhere -/
def emitted (cls name : String) : Bool :=
  QGen.classes.any (fun c => c.name == cls && c.settings.any (fun s => s.name == name && !s.emit.isEmpty))

/-- **persisted_fields_emitted**: every field `MM.persist` keeps is written by the real `to_dict()` of the class that
    owns it (table regenerated from the live package on every run). -/
theorem persisted_fields_emitted : ∀ e ∈ persisted, emitted e.2.1 e.2.2 = true := by
  decide +kernel

/-- non-vacuity of the test itself: a setting that no class has is reported as not emitted -/
example : emitted "DisplacementMove" "no_such_setting" = false := by decide +kernel

end C07t
