import QProofs.Files
/-!
# C16 — output files are well-formed after every write and after a crash at any point

Model: `QModel/Files.lean` — the buffered-file machine (disk / pending buffer / position / `O_APPEND`) and the
op protocols of `Logger`, `TrajectoryObserver`, `RestartObserver`. All theorems quantify over every byte type,
every record content (any number of lines / frames / documents of any length, growing or shrinking), every
initial file opened in mode `'a'` or `'w'` (`Clean f d`: nothing buffered, disk = `d`, next write at the end;
`clean_open_a`, `clean_open_w`), every cut of the op sequence (`pre <+: ops`: the process dies after the ops in
`pre`) and every disk image the crash may leave (`img ∈ crashCuts`: any prefix of the user-space buffer may have
reached the OS). The number of completed observer calls at a cut is `nFlush pre` (each call ends with its one
`flush`).

"Loadable" for the restart file is modelled as "the image is one of the completed documents"; that a strict
prefix of a JSON document does not load is ASE/JSON behaviour checked by the oracle on the real files.
-/
namespace Files
variable {β : Type} [Inhabited β]

/-! ## log -/

/-- **log_after_call**: after `k ≥ 1` completed calls the disk holds the old content, the header and the `k`
    lines, and nothing is buffered. -/
theorem log_after_call (f : File β) (d h l : List β) (rest : List (List β)) (hc : Clean f d) :
    Clean (run (logOps h (l :: rest)) f) (d ++ h ++ (l :: rest).flatten) := by
  rw [logOps_cons]
  have := trajOps_clean ([h, l] :: rest.map (fun x => [x])) f d hc
  rw [bytes_cons, bytes_singletons] at this
  simpa [List.append_assoc] using this

/-- after `write_header` alone (no row yet) the header is still in the buffer: nothing is on disk, nothing of
    an earlier file is touched -/
theorem log_header_only (f : File β) (d h : List β) (hc : Clean f d) :
    (run (logOps h []) f).disk = d ∧ (run (logOps h []) f).pending = h := by
  simp [logOps, step, hc.pend, hc.disk]

/-- **log_crash_prefix**: cut the op sequence anywhere and take any crash image. With `k` completed calls the
    image is the old content, the header and the first `k` lines — untouched — followed by a prefix of line
    `k+1` (for `k = 0`: the old content followed by a prefix of header + first line). -/
theorem log_crash_prefix (f : File β) (d h : List β) (lines : List (List β)) (hc : Clean f d)
    (pre : List (Op β)) (hpre : pre <+: logOps h lines) (img : List β) (himg : img ∈ crashCuts (run pre f)) :
    ∃ p, (nFlush pre = 0 → img = d ++ p ∧ p <+: h ++ lines.headD []) ∧
         (∀ j, nFlush pre = j + 1 → img = d ++ h ++ (lines.take (j + 1)).flatten ++ p ∧ p <+: lines.getD (j + 1) []) := by
  cases lines with
  | nil =>
    -- only the header has been handed to `write`
    have hp : pre = [] ∨ pre = [Op.write h] := by
      rcases pre with _ | ⟨o, r⟩
      · exact Or.inl rfl
      · have : o = Op.write h ∧ r <+: [] := by simpa [logOps, List.cons_prefix_cons] using hpre
        right; rw [this.1, List.prefix_nil.mp this.2]
    rcases hp with rfl | rfl
    · have := (crashCuts_clean f d hc img).mp (by simpa using himg)
      exact ⟨[], fun _ => by simp [this], fun j hj => by simp at hj⟩
    · have ht : Tail (run [Op.write h] f) := hc.tail
      obtain ⟨j, _, rfl⟩ := (mem_crashCuts _ ht img).mp himg
      refine ⟨h.take j, fun _ => ?_, fun j hj => by simp [nFlush, isFlush] at hj⟩
      simp [step, hc.pend, hc.disk, List.take_prefix]
  | cons l rest =>
    rw [logOps_cons] at hpre
    obtain ⟨p, hp, rfl⟩ := trajOps_cut _ f d hc pre hpre img himg
    refine ⟨p, fun h0 => ?_, fun j hj => ?_⟩
    · rw [h0] at hp ⊢; simpa [bytes] using hp
    · rw [hj] at hp ⊢
      rw [List.getD_cons_succ, getD_singletons] at hp
      rw [List.take_succ_cons, bytes_cons, ← List.map_take, bytes_singletons, List.take_succ_cons,
        List.getD_cons_succ]
      exact ⟨by simp [List.append_assoc], hp⟩

/-! ## trajectory -/

/-- **traj_after_call**: after the calls the disk holds the old content followed by every frame, in order,
    nothing buffered. -/
theorem traj_after_call (f : File β) (d : List β) (frames : List (List (List β))) (hc : Clean f d) :
    Clean (run (trajOps frames) f) (d ++ bytes frames) := trajOps_clean frames f d hc

/-- **traj_crash_prefix**: at every cut, every crash image is the old content and the `k` completed frames —
    all earlier bytes untouched — followed by a prefix of frame `k+1`. -/
theorem traj_crash_prefix (f : File β) (d : List β) (frames : List (List (List β))) (hc : Clean f d)
    (pre : List (Op β)) (hpre : pre <+: trajOps frames) (img : List β) (himg : img ∈ crashCuts (run pre f)) :
    ∃ p, p <+: (frames.getD (nFlush pre) []).flatten ∧ img = d ++ bytes (frames.take (nFlush pre)) ++ p :=
  trajOps_cut frames f d hc pre hpre img himg

/-! ## restart -/

/-- **restart_after_call**: after a completed call the disk is exactly the latest document — whatever the
    file held before, also when the new document is shorter than its predecessor — and nothing is buffered. -/
theorem restart_after_call (f : File β) (d : List β) (docs : List (List (List β))) (doc : List (List β))
    (hc : Clean f d) : Clean (run (restartOps (docs ++ [doc])) f) doc.flatten := by
  have := restartOps_clean (docs ++ [doc]) f d hc
  simpa [latest] using this

/-- the op sequence of `n` restart calls contains exactly `n` flushes: `nFlush pre` counts completed calls -/
theorem restart_completed_calls (docs : List (List (List β))) (pre : List (Op β)) (hpre : pre <+: restartOps docs) :
    nFlush pre ≤ docs.length := by
  have := nFlush_prefix_le pre _ hpre
  rwa [nFlush_restartOps] at this

/-- **restart_crash_loadable_partial**: once one document has been completed, every crash image taken at a cut
    *outside the rewrite window* (not between a `truncate` and the `flush` that ends the same call) is exactly
    the latest completed document. -/
theorem restart_crash_loadable_partial (f : File β) (d : List β) (docs : List (List (List β))) (hc : Clean f d)
    (pre : List (Op β)) (hpre : pre <+: restartOps docs) (hk : 1 ≤ nFlush pre) (hw : inWindow pre = false)
    (img : List β) (himg : img ∈ crashCuts (run pre f)) :
    ∃ doc ∈ docs, img = doc.flatten ∧ docs[nFlush pre - 1]? = some doc := by
  have hle := restart_completed_calls docs pre hpre
  obtain ⟨ha, _⟩ := restartOps_cut docs f d hc pre hpre img himg
  have := ha hw
  obtain ⟨j, hj⟩ : ∃ j, nFlush pre = j + 1 := ⟨nFlush pre - 1, by omega⟩
  rw [hj] at this hle ⊢
  have hlt : j < docs.length := by omega
  refine ⟨docs[j], List.getElem_mem hlt, ?_, by simp [hlt]⟩
  simpa [latest, List.getD, hlt] using this

/-- inside the rewrite window the image is a prefix of the *new* document (possibly empty): the previous
    document is gone and the new one is not complete -/
theorem restart_crash_window (f : File β) (d : List β) (docs : List (List (List β))) (hc : Clean f d)
    (pre : List (Op β)) (hpre : pre <+: restartOps docs) (hw : inWindow pre = true)
    (img : List β) (himg : img ∈ crashCuts (run pre f)) :
    img <+: (docs.getD (nFlush pre) []).flatten :=
  (restartOps_cut docs f d hc pre hpre img himg).2 hw

/-- **reopened_files_keep_content**: a new simulation that opens its files in mode `'a'` finds them as the previous run
    left them, and until its own first observer call a crash leaves exactly that content — in particular the previous
    run's restart document stays loadable; in mode `'w'` the files start empty. -/
theorem reopened_files_keep_content (existing : List β) :
    Clean (openFile .a existing) existing ∧ crashCuts (openFile .a existing) = [existing] ∧
    Clean (openFile .w existing) ([] : List β) ∧ crashCuts (openFile .w existing) = [([] : List β)] := by
  refine ⟨clean_open_a existing, ?_, clean_open_w existing, ?_⟩ <;>
    simp [crashCuts, openFile, landing, writeAt]

/-- **restart_crash_loadable is false for the coded protocol.** Full statement that fails:
    `∀ f d docs pre img, Clean f d → pre <+: restartOps docs → 1 ≤ nFlush pre → img ∈ crashCuts (run pre f) →
       ∃ doc ∈ docs, img = doc.flatten`.
    Witness (mode `'w'` and mode `'a'` alike): documents `[1]` then `[2]`, the process dies right after the second
    call's `truncate()`: the file is empty. -/
theorem restart_crash_loadable_false :
    ¬ ∀ (f : File Nat) (d : List Nat) (docs : List (List (List Nat))) (pre : List (Op Nat)) (img : List Nat),
        Clean f d → pre <+: restartOps docs → 1 ≤ nFlush pre → img ∈ crashCuts (run pre f) →
        ∃ doc ∈ docs, img = doc.flatten := by
  intro h
  have := h (openFile .a []) [] [[[1]], [[2]]] (restartCall [[1]] ++ [Op.seek 0, Op.truncate]) []
    (clean_open_a []) (by decide) (by decide) (by decide)
  revert this
  decide

/-- the same witness in mode `'w'`, and a cut in the middle of the new document's writes -/
example : ([] : List Nat) ∈ crashCuts (run (restartCall [[1]] ++ [Op.seek 0, Op.truncate]) (openFile .w [])) := by decide
example : [2] ∈ crashCuts (run (restartCall [[1, 1, 1]] ++ [Op.seek 0, Op.truncate, Op.write [2, 2]]) (openFile .a [9])) := by
  decide

/-! ### a call that fails (no crash: `to_dict()` or the encoder raises)

Before the repair the observer had already done `seek(0); truncate()` when the document was being produced: a failing call
ended there — not a crash, the process goes on — and the file was EMPTY from then on (`failed_call_pinned_empties`). Now the
document is produced first; a failing call performs no file operation at all (`failed_call_keeps_restart_point`). -/

/-- the ops a FAILED call performs: `pinned` — the code before the repair — had truncated already -/
def failedRestartCall (pinned : Bool) : List (Op β) := if pinned then [.seek 0, .truncate] else []

/-- **failed_call_keeps_restart_point**: after any number of completed calls, a call that fails leaves the file exactly
    as the last completed call left it (disk = that document, nothing buffered), and so does any number of failing calls -/
theorem failed_call_keeps_restart_point (f : File β) (d : List β) (docs : List (List (List β))) (doc : List (List β))
    (hc : Clean f d) (k : Nat) :
    Clean (run ((List.replicate k (failedRestartCall false)).flatten) (run (restartOps (docs ++ [doc])) f)) doc.flatten := by
  have h := restart_after_call f d docs doc hc
  have : (List.replicate k (failedRestartCall (β := β) false)).flatten = [] := by
    induction k with
    | zero => rfl
    | succ k ih => simp [List.replicate_succ, failedRestartCall, ih]
  rw [this]
  exact h

/-- the code before the repair: one failing call after a completed one, and the restart point is gone although nothing
    crashed — the visible file is empty -/
theorem failed_call_pinned_empties :
    crashCuts (run (restartCall [[1, 2, 3]] ++ failedRestartCall true) (openFile .a ([] : List Nat))) = [[]] ∧
    crashCuts (run (restartCall [[1, 2, 3]] ++ failedRestartCall false) (openFile .a ([] : List Nat))) = [[1, 2, 3]] := by
  decide

/-! ## protocol recognisers used by the correspondence run -/

theorem isFrameCall_iff (ops : List (Op β)) : isFrameCall ops = true ↔ ∃ w ws, ops = frameCall (w :: ws) :=
  ⟨isFrameCall_sound ops, fun ⟨w, ws, h⟩ => h ▸ isFrameCall_frameCall w ws⟩

theorem isRestartCall_iff (ops : List (Op β)) : isRestartCall ops = true ↔ ∃ w ws, ops = restartCall (w :: ws) := by
  constructor
  · intro h
    match ops, h with
    | Op.seek 0 :: Op.truncate :: rest, h =>
      obtain ⟨w, ws, hw⟩ := isFrameCall_sound rest (by simpa [isRestartCall] using h)
      exact ⟨w, ws, by rw [hw]; rfl⟩
  · rintro ⟨w, ws, rfl⟩
    show isFrameCall (frameCall (w :: ws)) = true
    exact isFrameCall_frameCall w ws

/-! ## which files an observer takes (`TextObserver.file = value`) -/

/-- **restart_links_only_seekable**: the observer that rewrites its file in place (`accept_stream = False`) never holds
    a handed-over object that says it cannot seek — the `seek(0); truncate()` of its protocol is always available -/
theorem restart_links_only_seekable (a : FileArg) (h : link false a = .linked) : a.seekable = true ∧ a.closed = false := by
  unfold link at h
  cases hk : a.kind <;> simp only [hk] at h <;> try cases h
  split at h
  · split at h
    · cases h
    · split at h
      · cases h
      · rename_i hc hs
        refine ⟨?_, by simpa using hc⟩
        simpa using hs
  · cases h

/-- **never_links_closed**: no observer links a closed file -/
theorem never_links_closed (acc : Bool) (a : FileArg) (h : link acc a = .linked) : a.closed = false := by
  unfold link at h
  cases hk : a.kind <;> simp only [hk] at h <;> try cases h
  split at h
  · split at h
    · cases h
    · rename_i hc
      simpa using hc
  · cases h

/-- **names_are_opened**: a name (string or path) is always opened by the observer itself, in its own mode -/
theorem names_are_opened (acc : Bool) (a : FileArg) (h : a.kind ≠ .other) : link acc a = .opened := by
  unfold link
  cases hk : a.kind <;> simp_all

/-- **stream_observers_take_any_open_file**: a logger or trajectory observer links every open file-like object -/
theorem stream_observers_take_any_open_file (a : FileArg) (hk : a.kind = .other)
    (hf : a.hasRead = true ∨ a.hasWrite = true ∨ a.isIOBase = true) (hc : a.closed = false) : link true a = .linked := by
  unfold link
  rcases hf with hf | hf | hf <;> simp [hk, hf, hc]

/-- what decides is `seekable()` when the object has it, the mere presence of `seek` otherwise -/
theorem restart_refuses_iff (a : FileArg) (hk : a.kind = .other)
    (hf : a.hasRead = true ∨ a.hasWrite = true ∨ a.isIOBase = true) (hc : a.closed = false) :
    link false a = .notSeekable ↔ a.seekable = false := by
  unfold link
  rcases hf with hf | hf | hf <;> cases hs : a.seekable <;> simp [hk, hf, hc, hs]

example : link false ⟨.other, false, true, false, false, some false, true⟩ = .notSeekable ∧
          link false ⟨.other, false, true, false, false, none, true⟩ = .linked ∧
          link true ⟨.other, false, true, false, false, some false, false⟩ = .linked ∧
          link true ⟨.other, true, true, true, true, some true, true⟩ = .closedFile ∧
          link true ⟨.other, false, false, false, false, none, true⟩ = .typeError ∧
          link false ⟨.str, false, false, false, false, none, false⟩ = .opened := by decide

/-! ## non-vacuity -/

example : Clean (openFile .a [7, 7]) [7, 7] ∧ Clean (openFile .w ([7, 7] : List Nat)) [] := ⟨clean_open_a _, clean_open_w _⟩
example : (run (logOps [0] [[1], [2, 2]]) (openFile .a [7])).disk = [7, 0, 1, 2, 2] := by decide
example : crashCuts (run [Op.write [0], Op.write [1], Op.flush, Op.write [2, 2]] (openFile .w ([] : List Nat)))
    = [[0, 1], [0, 1, 2], [0, 1, 2, 2]] := by decide
example : (run (trajOps [[[1], [2]], [[3]]]) (openFile .w ([] : List Nat))).disk = [1, 2, 3] := by decide
example : (run (restartOps [[[1, 1, 1]], [[2]]]) (openFile .a [9, 9])).disk = [2] ∧
          (run (restartOps [[[1, 1, 1]], [[2]]]) (openFile .w ([] : List Nat))).disk = [2] := by decide
example : inWindow (restartCall [[1]] ++ [Op.seek 0, Op.truncate] : List (Op Nat)) = true ∧
          inWindow (restartCall [[1]] ++ [Op.seek 0] : List (Op Nat)) = false ∧
          nFlush (restartCall [[1]] ++ [Op.seek 0] : List (Op Nat)) = 1 := by decide
example : isRestartCall ([Op.seek 0, Op.truncate, Op.write [1], Op.flush] : List (Op Nat)) = true ∧
          isRestartCall ([Op.seek 0, Op.write [1], Op.flush] : List (Op Nat)) = false ∧
          isFrameCall ([Op.write [1], Op.write [2], Op.flush] : List (Op Nat)) = true ∧
          isFrameCall ([Op.flush] : List (Op Nat)) = false := by decide

end Files
