import QModel.ArrayNames

/-!
# C03 (array names): a trial that is taken back leaves the system with the per-atom arrays it had

For every system, every species (with any per-atom arrays of its own), every sequence of insertions of one trial:

* `vetoed_insertion_keeps_arrays` — a placement that fails leaves the names as they were;
* `rejected_trial_restores_arrays` — after `revert_state` the names are those from before the trial, whatever was inserted,
  in the original order;
* `accepted_trial_keeps_new_arrays` — an accepted insertion keeps what the species brought (the new atoms carry it);
* `pinned_rejected_trial_keeps_foreign_array` — the code before the repair.
-/
namespace ArrN

theorem dropOthers_extend (sys species : List String) : dropOthers (extend sys species) sys = sys := by
  unfold dropOthers extend
  rw [List.filter_append]
  have h1 : sys.filter (fun n => sys.contains n) = sys := by
    apply List.filter_eq_self.mpr
    intro a ha
    simpa using ha
  have h2 : (species.filter (fun n => !sys.contains n)).filter (fun n => sys.contains n) = [] := by
    apply List.filter_eq_nil_iff.mpr
    intro a ha
    have := (List.mem_filter.mp ha).2
    simpa using this
  rw [h1, h2, List.append_nil]

/-- **vetoed_insertion_keeps_arrays** -/
theorem vetoed_insertion_keeps_arrays (s : St) (species : List String) :
    (attemptAddition s species false).2 = s ∧ (attemptAddition s species false).1 = false := by
  unfold attemptAddition
  simp only [Bool.false_eq_true, if_false, and_true]
  rw [dropOthers_extend]

theorem mem_extend {sys species : List String} {n : String} (h : n ∈ sys) : n ∈ extend sys species :=
  List.mem_append_left _ h

/-- what is kept of the system's own names is everything: they all survive every `extend` -/
theorem dropOthers_of_prefix (keep extra : List String) (hx : ∀ n ∈ extra, n ∉ keep) :
    dropOthers (keep ++ extra) keep = keep := by
  unfold dropOthers
  rw [List.filter_append]
  have h1 : keep.filter (fun n => keep.contains n) = keep := by
    apply List.filter_eq_self.mpr
    intro a ha
    simpa using ha
  have h2 : extra.filter (fun n => keep.contains n) = [] := by
    apply List.filter_eq_nil_iff.mpr
    intro a ha
    simpa using hx a ha
  rw [h1, h2, List.append_nil]

/-- invariant of the insertions of one trial: the names are those from before the trial followed by foreign ones, and the
    context remembers exactly the names from before as soon as something was inserted -/
structure During (sys0 : List String) (s : St) : Prop where
  shape : ∃ extra, s.sys = sys0 ++ extra ∧ ∀ n ∈ extra, n ∉ sys0
  saved : s.saved = none ∨ s.saved = some sys0
  clean : s.saved = none → s.sys = sys0

theorem during_step (sys0 : List String) (s : St) (sp : List String) (ok : Bool) (h : During sys0 s) :
    During sys0 (attemptAddition s sp ok).2 := by
  cases ok with
  | false => rw [(vetoed_insertion_keeps_arrays s sp).1]; exact h
  | true =>
    obtain ⟨extra, hs, hx⟩ := h.shape
    unfold attemptAddition
    simp only [if_true]
    refine ⟨⟨extra ++ sp.filter (fun n => !s.sys.contains n), ?_, ?_⟩, ?_, ?_⟩
    · simp [extend, hs, List.append_assoc]
    · intro n hn
      rcases List.mem_append.mp hn with h1 | h1
      · exact hx n h1
      · have := (List.mem_filter.mp h1).2
        intro hin
        have : n ∈ s.sys := by rw [hs]; exact List.mem_append_left _ hin
        simp_all
    · rcases h.saved with h0 | h0
      · right; simp only [h0]; rw [h.clean h0]
      · right; simp only [h0]
    · intro hn
      rcases h.saved with h0 | h0 <;> simp [h0] at hn

theorem during_insertions (sys0 : List String) (s : St) (l : List (List String × Bool)) (h : During sys0 s) :
    During sys0 (insertions s l) := by
  induction l generalizing s with
  | nil => exact h
  | cons a r ih => exact ih _ (during_step sys0 s a.1 a.2 h)

/-- **rejected_trial_restores_arrays**: whatever one trial inserted (several particles, any species, vetoed placements in
    between), `revert_state` leaves the system with exactly the arrays it had, in their order, and nothing remembered -/
theorem rejected_trial_restores_arrays (sys0 : List String) (l : List (List String × Bool)) :
    revert (insertions { sys := sys0 } l) = { sys := sys0 } := by
  have h := during_insertions sys0 { sys := sys0 } l ⟨⟨[], by simp, by simp⟩, .inl rfl, fun _ => rfl⟩
  obtain ⟨extra, hs, hx⟩ := h.shape
  unfold revert
  rcases h.saved with h0 | h0
  · rw [h0]; simp only []; rw [h.clean h0]
  · rw [h0]; simp only []
    rw [hs, dropOthers_of_prefix sys0 extra hx]

/-- **accepted_trial_keeps_new_arrays**: `save_state` keeps the arrays the species brought and forgets the remembered names -/
theorem accepted_trial_keeps_new_arrays (sys0 : List String) (l : List (List String × Bool)) :
    (save (insertions { sys := sys0 } l)).sys = (insertions { sys := sys0 } l).sys ∧
    (save (insertions { sys := sys0 } l)).saved = none := ⟨rfl, rfl⟩

/-- witness of the repaired defect: O2 with `initial_magmoms` into a system without it, rejected -/
theorem pinned_rejected_trial_keeps_foreign_array :
    (revertPinned (attemptAdditionPinned { sys := ["numbers", "positions"] } ["numbers", "positions", "initial_magmoms"] true).2).sys
      = ["numbers", "positions", "initial_magmoms"] ∧
    revert (attemptAddition { sys := ["numbers", "positions"] } ["numbers", "positions", "initial_magmoms"] true).2
      = { sys := ["numbers", "positions"] } := by decide

example : (insertions { sys := ["numbers", "positions", "tags"] }
      [(["numbers", "positions", "initial_magmoms"], true), (["numbers", "positions", "initial_charges", "tags"], false),
       (["numbers", "positions", "momenta"], true)]).sys
    = ["numbers", "positions", "tags", "initial_magmoms", "momenta"] := by decide

end ArrN
