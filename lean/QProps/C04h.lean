import QProps.C04
import QProps.C03g
import QProps.C05h
import QProofs.MachineCompExch
/-!
# C04 — energy bookkeeping over whole histories

`energy_history`: over any history of displacement-type trees, bare cell moves (isobaric/isotension driver) and bare
Hamiltonian moves (Hamiltonian driver), with any verdicts, any scripted draws and any calculator style, the energy the
logger reads after EVERY trial is the from-scratch energy of the atoms as they are after that trial, and the driver's
reference energy (`last_potential_energy`, `last_results`) is that same value — not only after one trial from a good
state but at every position of the history.
-/
namespace MC
open MM

theorem ctrial_m (sim : Sim) (t : Tree) (v : Bool) (cs : CState) :
    (ctrial sim t v cs).2.m = (trial sim t v cs.m).2 ∧ (ctrial sim t v cs).1 = (trial sim t v cs.m).1 := by
  unfold ctrial trial
  rcases callTree t cs.m with ⟨ok, s1⟩
  cases ok <;> cases v <;> simp

theorem logRead_m (cs : CState) : (logRead cs).2.m = cs.m := rfl

def withInp (cs : CState) (inp : Inputs) : CState := { cs with m := { cs.m with inp := inp } }

/-- one trial followed by the logger's read: (outcome, logged energy), new state -/
def cstep (sim : Sim) (t : ATrial) (cs : CState) : (Outcome × Int) × CState :=
  let r := ctrial sim t.tree t.verdict (withInp cs t.inp)
  let l := logRead r.2
  ((r.1, l.1), l.2)

def runC (sim : Sim) : List ATrial → CState → CState
  | [], cs => cs
  | t :: ts, cs => runC sim ts (cstep sim t cs).2

/-- after every trial of the history the logged energy is the from-scratch energy of the atoms at that moment -/
def AllLoggedFresh (sim : Sim) : List ATrial → CState → Prop
  | [], _ => True
  | t :: ts, cs =>
    ((cstep sim t cs).1.2 = energy (cstep sim t cs).2.m.atoms ∧
     (cstep sim t cs).2.lastE = energy (cstep sim t cs).2.m.atoms) ∧ AllLoggedFresh sim ts (cstep sim t cs).2

theorem cstep_m (sim : Sim) (t : ATrial) (cs : CState) : (cstep sim t cs).2.m = (astep sim t cs.m).2 := by
  unfold cstep astep
  simp only [logRead_m]
  exact (ctrial_m sim t.tree t.verdict (withInp cs t.inp)).1

theorem cstep_spec (sim : Sim) (he : sim.ens = .canonical ∨ sim.ens = .hamiltonian ∨ sim.ens = .isobaric)
    (t : ATrial) (cs : CState) (hinv : Inv sim.ens cs.m) (heinv : EInv cs) (hok : AKindOK sim cs.m t.kind) :
    EInv (cstep sim t cs).2 ∧ (cstep sim t cs).1.2 = energy (cstep sim t cs).2.m.atoms := by
  have hinv' : Inv sim.ens (withInp cs t.inp).m := ⟨hinv.1, hinv.2, hinv.3, hinv.4, hinv.5⟩
  have heinv' : EInv (withInp cs t.inp) := ⟨heinv.1, heinv.2, heinv.3⟩
  unfold cstep ATrial.tree
  cases hk : t.kind with
  | pos tr =>
    rw [hk] at hok
    exact einv_trial_pos_any sim he tr t.verdict (withInp cs t.inp) hinv' heinv' hok.1 hok.2
  | cell r =>
    rw [hk] at hok
    exact einv_trial_cell sim hok.1 r t.verdict (withInp cs t.inp) hinv' heinv' hok.2
  | ham r =>
    rw [hk] at hok
    exact einv_trial_ham sim hok.1 r t.verdict (withInp cs t.inp) hinv' heinv' hok.2

/-- **energy_history** -/
theorem energy_history (sim : Sim) (he : sim.ens = .canonical ∨ sim.ens = .hamiltonian ∨ sim.ens = .isobaric)
    (ts : List ATrial) (cs : CState) (hinv : Inv sim.ens cs.m) (heinv : EInv cs) (hok : AHistoryOK sim ts cs.m) :
    EInv (runC sim ts cs) ∧ AllLoggedFresh sim ts cs := by
  have hb : sim.ens ≠ .base := by rcases he with h | h | h <;> rw [h] <;> simp
  induction ts generalizing cs with
  | nil => exact ⟨heinv, trivial⟩
  | cons t ts ih =>
    obtain ⟨hk, hrest⟩ := hok
    obtain ⟨g1, g2⟩ := cstep_spec sim he t cs hinv heinv hk
    have hm := cstep_m sim t cs
    have hinv2 : Inv sim.ens (cstep sim t cs).2.m := by
      rw [hm]; exact (astep_spec sim hb t cs.m hinv hk).1
    have hrest2 : AHistoryOK sim ts (cstep sim t cs).2.m := by rw [hm]; exact hrest
    obtain ⟨i1, i2⟩ := ih _ hinv2 g1 hrest2
    exact ⟨i1, ⟨g2, g1.lastE⟩, i2⟩

end MC

/-! ### grand-canonical histories: displacement-type trees interleaved with insertions and deletions -/
namespace MC
open MM

def cstepG (sim : Sim) (t : GTrial) (cs : CState) : (Outcome × Int) × CState :=
  let r := ctrial sim t.tree t.verdict (withInp cs t.inp)
  let l := logRead r.2
  ((r.1, l.1), l.2)

def runCG (sim : Sim) : List GTrial → CState → CState
  | [], cs => cs
  | t :: ts, cs => runCG sim ts (cstepG sim t cs).2

def AllLoggedFreshG (sim : Sim) : List GTrial → CState → Prop
  | [], _ => True
  | t :: ts, cs =>
    ((cstepG sim t cs).1.2 = energy (cstepG sim t cs).2.m.atoms ∧
     (cstepG sim t cs).2.lastE = energy (cstepG sim t cs).2.m.atoms) ∧ AllLoggedFreshG sim ts (cstepG sim t cs).2

theorem cstepG_m (sim : Sim) (t : GTrial) (cs : CState) : (cstepG sim t cs).2.m = (gstep sim t cs.m).2 := by
  unfold cstepG gstep
  simp only [logRead_m]
  exact (ctrial_m sim t.tree t.verdict (withInp cs t.inp)).1

theorem cstepG_spec (sim : Sim) (he : sim.ens = .grand) (t : GTrial) (cs : CState) (h : GInv sim cs.m)
    (heinv : EInv cs)
    (hok : match t.kind with
           | .pos tr => (∀ r ∈ tr.refs, r < cs.m.heap.length) ∧ PosTree cs.m tr
           | .exch r => (cs.m.obj r).kind = .exch ∧ r ∈ tableRefs sim ∧ r < cs.m.heap.length) :
    EInv (cstepG sim t cs).2 ∧ (cstepG sim t cs).1.2 = energy (cstepG sim t cs).2.m.atoms := by
  have h' : GInv sim (withInp cs t.inp).m :=
    ⟨⟨h.invg.1, h.invg.2, h.invg.3, h.invg.4, h.invg.5, h.invg.6, h.invg.7⟩, h.delta0, h.aligned, h.templ⟩
  have heinv' : EInv (withInp cs t.inp) := ⟨heinv.1, heinv.2, heinv.3⟩
  unfold cstepG GTrial.tree
  cases hk : t.kind with
  | pos tr =>
    rw [hk] at hok
    have hinv : Inv sim.ens (withInp cs t.inp).m := by
      refine ⟨fun _ => h'.invg.lastPos, ?_, ?_, h'.invg.noAdded, h'.invg.noDeleted⟩
      · intro hx; rw [he] at hx; cases hx
      · intro hx; rw [he] at hx; cases hx
    exact einv_trial_grand_pos sim he tr t.verdict (withInp cs t.inp) hinv heinv' hok.1 hok.2
  | exch r =>
    rw [hk] at hok
    have hrl : (cs.m.obj r).labels.length = cs.m.atoms.rows.length :=
      h.aligned r hok.2.1 hok.2.2 (by simp [labelBearing, hok.1])
    have hnew := toAddOf_ne_nil (cs.m.obj r) cs.m.ctx h.templ
    exact einv_trial_exchange sim he r t.verdict (withInp cs t.inp) h'.invg heinv' hok.1 hrl hnew

/-- **energy_history_grand** -/
theorem energy_history_grand (sim : Sim) (he : sim.ens = .grand) (ts : List GTrial) (cs : CState)
    (h : GInv sim cs.m) (heinv : EInv cs) (hok : GHistoryOK sim ts cs.m) :
    EInv (runCG sim ts cs) ∧ AllLoggedFreshG sim ts cs := by
  induction ts generalizing cs with
  | nil => exact ⟨heinv, trivial⟩
  | cons t ts ih =>
    obtain ⟨hk, hrest⟩ := hok
    obtain ⟨g1, g2⟩ := cstepG_spec sim he t cs h heinv hk
    have hm := cstepG_m sim t cs
    have h2 : GInv sim (cstepG sim t cs).2.m := by
      rw [hm]; exact (gstep_spec sim he t cs.m h hk).1
    have hrest2 : GHistoryOK sim ts (cstepG sim t cs).2.m := by rw [hm]; exact hrest
    obtain ⟨i1, i2⟩ := ih _ h2 g1 hrest2
    exact ⟨i1, ⟨g2, g1.lastE⟩, i2⟩

end MC

/-! ### evaluation counts: one evaluation per trial that reaches its criteria, none for a failed one -/
namespace MC
open MM

theorem getEnergy_changed (c : CalcS) (a : AtomsS) (hch : (changes c.snap a).1 = true) :
    (getEnergy c a).2.evals = c.evals + 1 := by
  unfold getEnergy
  by_cases hs : c.style = .stateless
  · simp [hs]
  · simp [hs, hch]

theorem getEnergy_style (c : CalcS) (a : AtomsS) : (getEnergy c a).2.style = c.style := by
  unfold getEnergy
  simp only []
  generalize (if c.style = .stateless then (true, true) else changes c.snap a) = ch
  cases h1 : ch.1
  · simp only [Bool.false_eq_true, if_false]
    cases c.results <;> rfl
  · simp only [if_true]

theorem revertCalc_evals (ens : Ensemble) (c : CalcS) (lr : Option Int) (a : AtomsS) :
    (revertCalc ens c lr a).evals = c.evals ∧ (revertCalc ens c lr a).style = c.style := by
  cases ens <;> simp [revertCalc]

/-- what a trial costs, for ANY driver and any tree whose failure/rejection restores the atoms (same hypotheses as
    `einv_trial_of`), with a calculator that caches results (plain caching or per-atom state) -/
theorem evals_trial_of (sim : Sim) (t : Tree) (v : Bool) (cs : CState) (heinv : EInv cs)
    (hns : cs.cal.style ≠ .stateless)
    (hfail : (callTree t cs.m).1 = false → (callTree t cs.m).2.atoms = cs.m.atoms)
    (hrej : (callTree t cs.m).1 = true → (revertState sim (callTree t cs.m).2).atoms = cs.m.atoms)
    (hrc : (callTree t cs.m).1 = true → ∀ c : CalcS, Fresh c (callTree t cs.m).2.atoms →
            Fresh (revertCalc sim.ens c (some (energy cs.m.atoms)) cs.m.atoms) cs.m.atoms) :
    let cs' := (logRead (ctrial sim t v cs).2).2
    cs'.cal.evals ≤ cs.cal.evals + 1 ∧
    ((ctrial sim t v cs).1 = .failed → cs'.cal.evals = cs.cal.evals) ∧
    ((ctrial sim t v cs).1 ≠ .failed → (changes cs.cal.snap (callTree t cs.m).2.atoms).1 = true →
        cs'.cal.evals = cs.cal.evals + 1) := by
  unfold ctrial
  rcases hct : callTree t cs.m with ⟨ok, s1⟩
  rw [hct] at hfail hrej hrc
  simp only [] at hfail hrej hrc ⊢
  cases ok with
  | false =>
    simp only [Bool.false_eq_true, if_false]
    have hf : Fresh cs.cal s1.atoms := fresh_congr _ _ _ (hfail rfl) heinv.fresh
    have := (getEnergy_free cs.cal s1.atoms hns hf).1
    simp only [logRead, this]
    refine ⟨Nat.le_succ _, ?_, ?_⟩
    · first | (intro _; rfl) | (intro _; trivial) | trivial
    · intro h; exact absurd rfl h
  | true =>
    have hv0 : Valid cs.cal := fresh_valid _ _ heinv.fresh
    obtain ⟨_, f1, v1, e1, st1⟩ := getEnergy_spec cs.cal s1.atoms hv0
    have hns1 : (getEnergy cs.cal s1.atoms).2.style ≠ .stateless := by rw [st1]; exact hns
    cases v with
    | true =>
      simp only [if_true]
      have h2 := (getEnergy_free _ s1.atoms hns1 f1).1
      have f2' : Fresh (getEnergy cs.cal s1.atoms).2 (saveState sim s1).atoms :=
        fresh_congr _ _ _ (saveState_atoms sim s1) f1
      have h3 := (getEnergy_free _ (saveState sim s1).atoms hns1 f2').1
      simp only [logRead, h2, h3]
      exact ⟨e1, (fun h => by cases h), fun _ hch => getEnergy_changed _ _ hch⟩
    | false =>
      simp only [if_true, Bool.false_eq_true, if_false]
      have hat : (revertState sim s1).atoms = cs.m.atoms := hrej rfl
      have hrc' : Fresh (revertCalc sim.ens (getEnergy cs.cal s1.atoms).2 cs.lastResults (revertState sim s1).atoms)
          (revertState sim s1).atoms := by
        rw [hat, heinv.lastR]
        exact hrc rfl _ f1
      have hre := revertCalc_evals sim.ens (getEnergy cs.cal s1.atoms).2 cs.lastResults (revertState sim s1).atoms
      have hsr : (revertCalc sim.ens (getEnergy cs.cal s1.atoms).2 cs.lastResults (revertState sim s1).atoms).style
          ≠ .stateless := by rw [hre.2]; exact hns1
      have h3 := (getEnergy_free _ (revertState sim s1).atoms hsr hrc').1
      simp only [logRead, h3, hre.1]
      exact ⟨e1, (fun h => by cases h), fun _ hch => getEnergy_changed _ _ hch⟩

/-- the three restoration facts `einv_trial_of`/`evals_trial_of` need, for every kind of trial of an `ATrial` history -/
theorem trial_hyps_A (sim : Sim) (he : sim.ens = .canonical ∨ sim.ens = .hamiltonian ∨ sim.ens = .isobaric)
    (k : TKind) (s : State) (hinv : Inv sim.ens s) (hok : AKindOK sim s k) :
    let t := (ATrial.tree { kind := k, verdict := true, inp := s.inp })
    ((callTree t s).1 = false → (callTree t s).2.atoms = s.atoms) ∧
    ((callTree t s).1 = true → (revertState sim (callTree t s).2).atoms = s.atoms) ∧
    ((callTree t s).1 = true → ∀ c : CalcS, Fresh c (callTree t s).2.atoms →
            Fresh (revertCalc sim.ens c (some (energy s.atoms)) s.atoms) s.atoms) := by
  have hb : sim.ens ≠ .base := by rcases he with h | h | h <;> rw [h] <;> simp
  cases k with
  | pos tr =>
    simp only [ATrial.tree]
    obtain ⟨hrs, ht⟩ := hok
    have hk := callTree_keeps tr s hrs ht
    refine ⟨callTree_fail tr s hrs ht, ?_, ?_⟩
    · intro hok'
      have := (reject_restores sim tr s hb hinv hrs ht hok').2
      simpa [trial, hok'] using this
    · intro _ c hfc
      rcases he with h | h | h
      · rw [h]; exact revertCalc_fresh_aux .canonical (Or.inl rfl) c _ _ hk.pos.auxOnly hfc
      · rw [h]; exact revertCalc_fresh_aux .hamiltonian (Or.inr rfl) c _ _ hk.pos.auxOnly hfc
      · rw [h]; exact revertCalc_fresh_strip c _ _ hk.pos.stripOnly hfc
  | cell r =>
    simp only [ATrial.tree]
    obtain ⟨hiso, hk⟩ := hok
    have hspec := cellCall_spec r s
    have hcall : callTree (.leaf r) s = cellCall r s := by simp [callTree, leafCall, hk]
    refine ⟨?_, ?_, ?_⟩
    · intro hf
      have := fail_restores_cell sim r true s hk hf
      simpa [trial, hf] using this
    · intro hok'
      have := reject_restores_cell sim r s hiso hinv hk hok'
      simpa [trial, hok'] using this
    · intro hok' c hfc
      rw [hiso]
      apply revertCalc_fresh_strip c s.atoms _ _ hfc
      rw [hcall] at hok' ⊢
      rcases hspec.2.2 with ⟨hx, _⟩ | ⟨_, f, hf⟩
      · rw [hok'] at hx; cases hx
      · rw [hf]; exact deform_strip _ _ _
  | ham r =>
    simp only [ATrial.tree]
    obtain ⟨hham, hk⟩ := hok
    have hspec := hamCall_spec r s
    have hcall : callTree (.leaf r) s = hamCall r s := by simp [callTree, leafCall, hk]
    refine ⟨?_, ?_, ?_⟩
    · intro hf
      have := fail_restores_ham sim r true s hk hf
      simpa [trial, hf] using this
    · intro hok'
      have := reject_restores_ham sim r s hham hinv hk hok'
      simpa [trial, hok'] using this
    · intro hok' c hfc
      apply revertCalc_fresh_aux sim.ens (Or.inr hham) c s.atoms _ _ hfc
      rw [hcall] at hok' ⊢
      rcases hspec.2.2 with ⟨hx, _⟩ | ⟨_, haux⟩
      · rw [hok'] at hx; cases hx
      · exact haux

def reached (o : Outcome) : Nat := if o = .failed then 0 else 1

def countReached (sim : Sim) : List ATrial → CState → Nat
  | [], _ => 0
  | t :: ts, cs => reached (cstep sim t cs).1.1 + countReached sim ts (cstep sim t cs).2

theorem cstep_evals (sim : Sim) (he : sim.ens = .canonical ∨ sim.ens = .hamiltonian ∨ sim.ens = .isobaric)
    (t : ATrial) (cs : CState) (hinv : Inv sim.ens cs.m) (heinv : EInv cs) (hns : cs.cal.style ≠ .stateless)
    (hok : AKindOK sim cs.m t.kind) :
    (cstep sim t cs).2.cal.evals ≤ cs.cal.evals + reached (cstep sim t cs).1.1 ∧
    (cstep sim t cs).2.cal.style = cs.cal.style := by
  have hinv' : Inv sim.ens (withInp cs t.inp).m := ⟨hinv.1, hinv.2, hinv.3, hinv.4, hinv.5⟩
  have heinv' : EInv (withInp cs t.inp) := ⟨heinv.1, heinv.2, heinv.3⟩
  have hok' : AKindOK sim (withInp cs t.inp).m t.kind := by
    cases hk : t.kind with
    | pos tr => rw [hk] at hok; exact hok
    | cell r => rw [hk] at hok; exact hok
    | ham r => rw [hk] at hok; exact hok
  obtain ⟨h1, h2, h3⟩ := trial_hyps_A sim he t.kind (withInp cs t.inp).m hinv' hok'
  have htree : ATrial.tree { kind := t.kind, verdict := true, inp := (withInp cs t.inp).m.inp } = t.tree := rfl
  simp only [htree] at h1 h2 h3
  obtain ⟨g1, g2, _⟩ := evals_trial_of sim t.tree t.verdict (withInp cs t.inp) heinv' hns h1 h2 h3
  constructor
  · show (logRead (ctrial sim t.tree t.verdict (withInp cs t.inp)).2).2.cal.evals
        ≤ cs.cal.evals + reached (ctrial sim t.tree t.verdict (withInp cs t.inp)).1
    unfold reached
    split
    · rename_i hf; rw [g2 hf]; exact Nat.le_refl _
    · exact g1
  · show (logRead (ctrial sim t.tree t.verdict (withInp cs t.inp)).2).2.cal.style = cs.cal.style
    -- the style never changes
    unfold ctrial logRead
    rcases callTree t.tree (withInp cs t.inp).m with ⟨ok, s1⟩
    have gs := getEnergy_style
    cases ok <;> cases t.verdict <;> simp [gs, (revertCalc_evals _ _ _ _).2, withInp]

/-- **evals_history**: with a result-caching calculator, a whole history costs at most one evaluation per trial that
    reached its criteria; failed trials, rejections and the logger's reads cost nothing -/
theorem evals_history (sim : Sim) (he : sim.ens = .canonical ∨ sim.ens = .hamiltonian ∨ sim.ens = .isobaric)
    (ts : List ATrial) (cs : CState) (hinv : Inv sim.ens cs.m) (heinv : EInv cs)
    (hns : cs.cal.style ≠ .stateless) (hok : AHistoryOK sim ts cs.m) :
    (runC sim ts cs).cal.evals ≤ cs.cal.evals + countReached sim ts cs := by
  have hb : sim.ens ≠ .base := by rcases he with h | h | h <;> rw [h] <;> simp
  induction ts generalizing cs with
  | nil => exact Nat.le_refl _
  | cons t ts ih =>
    obtain ⟨hk, hrest⟩ := hok
    obtain ⟨g1, _⟩ := cstep_spec sim he t cs hinv heinv hk
    obtain ⟨e1, e2⟩ := cstep_evals sim he t cs hinv heinv hns hk
    have hm := cstep_m sim t cs
    have hinv2 : Inv sim.ens (cstep sim t cs).2.m := by
      rw [hm]; exact (astep_spec sim hb t cs.m hinv hk).1
    have hrest2 : AHistoryOK sim ts (cstep sim t cs).2.m := by rw [hm]; exact hrest
    have := ih _ hinv2 g1 (by rw [e2]; exact hns) hrest2
    simp only [runC, countReached]
    omega

/-! ### composite exchange moves (`a + b`, `m * n` over exchange moves) -/

/-- **einv_trial (grand canonical, CompositeExchangeMove)**: after a composite insertion or deletion trial — accepted,
    rejected or failed — and the logger's read, reported and reference energy are those of the current atoms; for the
    deletion direction the members share one labelling (what `+`/`*` on one labelling give) -/
theorem einv_trial_composite_exchange (sim : Sim) (he : sim.ens = .grand) (rs : List Nat) (b : Nat) (v : Bool)
    (cs : CState) (hinv : InvG cs.m) (heinv : EInv cs)
    (hdir : cs.m.inp.draw.1 < b ∨
      (¬ cs.m.inp.draw.1 < b ∧ ∃ L : List Int, (∀ r ∈ rs, (cs.m.obj r).labels = L) ∧ L.length = cs.m.atoms.rows.length)) :
    let cs' := (logRead (ctrial sim (.compExch rs b) v cs).2).2
    EInv cs' ∧ (logRead (ctrial sim (.compExch rs b) v cs).2).1 = energy cs'.m.atoms := by
  have hna : (trial sim (.compExch rs b) false cs.m).2.atoms = cs.m.atoms := by
    rcases hdir with h | ⟨h, L, hL, hlen⟩
    · exact compExch_insertion_not_accepted_restores sim he rs b cs.m hinv h
    · exact compExch_deletion_not_accepted_restores sim he rs b cs.m hinv L hL hlen h
  apply einv_trial_grand_of sim he (.compExch rs b) v cs heinv
  · intro hf
    simp only [trial, hf, Bool.false_eq_true, if_false] at hna
    exact hna
  · intro hok
    simp only [trial, hok, if_true, Bool.false_eq_true, if_false] at hna
    exact hna

end MC
