import QProps.C04
import QProps.C03g
import QProps.C05h
/-!
# C04 — energy bookkeeping over whole histories

`energy_history`: over any history of displacement-type trees, bare cell moves (isobaric/isotension driver) and bare
Hamiltonian moves (Hamiltonian driver), with any verdicts, any scripted draws and any calculator style, the energy the
logger reads after EVERY trial is the from-scratch energy of the atoms as they are after that trial, and the driver's
reference energy (`last_potential_energy`, `last_results`) is that same value — not only after one trial from a good
state but at every position of the history.
-/
namespace MC
open MM

theorem ctrial_m (sim : Sim) (t : Tree) (v : Bool) (cs : CState) :
    (ctrial sim t v cs).2.m = (trial sim t v cs.m).2 ∧ (ctrial sim t v cs).1 = (trial sim t v cs.m).1 := by
  unfold ctrial trial
  rcases callTree t cs.m with ⟨ok, s1⟩
  cases ok <;> cases v <;> simp

theorem logRead_m (cs : CState) : (logRead cs).2.m = cs.m := rfl

def withInp (cs : CState) (inp : Inputs) : CState := { cs with m := { cs.m with inp := inp } }

/-- one trial followed by the logger's read: (outcome, logged energy), new state -/
def cstep (sim : Sim) (t : ATrial) (cs : CState) : (Outcome × Int) × CState :=
  let r := ctrial sim t.tree t.verdict (withInp cs t.inp)
  let l := logRead r.2
  ((r.1, l.1), l.2)

def runC (sim : Sim) : List ATrial → CState → CState
  | [], cs => cs
  | t :: ts, cs => runC sim ts (cstep sim t cs).2

/-- after every trial of the history the logged energy is the from-scratch energy of the atoms at that moment -/
def AllLoggedFresh (sim : Sim) : List ATrial → CState → Prop
  | [], _ => True
  | t :: ts, cs =>
    ((cstep sim t cs).1.2 = energy (cstep sim t cs).2.m.atoms ∧
     (cstep sim t cs).2.lastE = energy (cstep sim t cs).2.m.atoms) ∧ AllLoggedFresh sim ts (cstep sim t cs).2

theorem cstep_m (sim : Sim) (t : ATrial) (cs : CState) : (cstep sim t cs).2.m = (astep sim t cs.m).2 := by
  unfold cstep astep
  simp only [logRead_m]
  exact (ctrial_m sim t.tree t.verdict (withInp cs t.inp)).1

theorem cstep_spec (sim : Sim) (he : sim.ens = .canonical ∨ sim.ens = .hamiltonian ∨ sim.ens = .isobaric)
    (t : ATrial) (cs : CState) (hinv : Inv sim.ens cs.m) (heinv : EInv cs) (hok : AKindOK sim cs.m t.kind) :
    EInv (cstep sim t cs).2 ∧ (cstep sim t cs).1.2 = energy (cstep sim t cs).2.m.atoms := by
  have hinv' : Inv sim.ens (withInp cs t.inp).m := ⟨hinv.1, hinv.2, hinv.3, hinv.4, hinv.5⟩
  have heinv' : EInv (withInp cs t.inp) := ⟨heinv.1, heinv.2, heinv.3⟩
  unfold cstep ATrial.tree
  cases hk : t.kind with
  | pos tr =>
    rw [hk] at hok
    exact einv_trial_pos_any sim he tr t.verdict (withInp cs t.inp) hinv' heinv' hok.1 hok.2
  | cell r =>
    rw [hk] at hok
    exact einv_trial_cell sim hok.1 r t.verdict (withInp cs t.inp) hinv' heinv' hok.2
  | ham r =>
    rw [hk] at hok
    exact einv_trial_ham sim hok.1 r t.verdict (withInp cs t.inp) hinv' heinv' hok.2

/-- **energy_history** -/
theorem energy_history (sim : Sim) (he : sim.ens = .canonical ∨ sim.ens = .hamiltonian ∨ sim.ens = .isobaric)
    (ts : List ATrial) (cs : CState) (hinv : Inv sim.ens cs.m) (heinv : EInv cs) (hok : AHistoryOK sim ts cs.m) :
    EInv (runC sim ts cs) ∧ AllLoggedFresh sim ts cs := by
  have hb : sim.ens ≠ .base := by rcases he with h | h | h <;> rw [h] <;> simp
  induction ts generalizing cs with
  | nil => exact ⟨heinv, trivial⟩
  | cons t ts ih =>
    obtain ⟨hk, hrest⟩ := hok
    obtain ⟨g1, g2⟩ := cstep_spec sim he t cs hinv heinv hk
    have hm := cstep_m sim t cs
    have hinv2 : Inv sim.ens (cstep sim t cs).2.m := by
      rw [hm]; exact (astep_spec sim hb t cs.m hinv hk).1
    have hrest2 : AHistoryOK sim ts (cstep sim t cs).2.m := by rw [hm]; exact hrest
    obtain ⟨i1, i2⟩ := ih _ hinv2 g1 hrest2
    exact ⟨i1, ⟨g2, g1.lastE⟩, i2⟩

end MC

/-! ### grand-canonical histories: displacement-type trees interleaved with insertions and deletions -/
namespace MC
open MM

def cstepG (sim : Sim) (t : GTrial) (cs : CState) : (Outcome × Int) × CState :=
  let r := ctrial sim t.tree t.verdict (withInp cs t.inp)
  let l := logRead r.2
  ((r.1, l.1), l.2)

def runCG (sim : Sim) : List GTrial → CState → CState
  | [], cs => cs
  | t :: ts, cs => runCG sim ts (cstepG sim t cs).2

def AllLoggedFreshG (sim : Sim) : List GTrial → CState → Prop
  | [], _ => True
  | t :: ts, cs =>
    ((cstepG sim t cs).1.2 = energy (cstepG sim t cs).2.m.atoms ∧
     (cstepG sim t cs).2.lastE = energy (cstepG sim t cs).2.m.atoms) ∧ AllLoggedFreshG sim ts (cstepG sim t cs).2

theorem cstepG_m (sim : Sim) (t : GTrial) (cs : CState) : (cstepG sim t cs).2.m = (gstep sim t cs.m).2 := by
  unfold cstepG gstep
  simp only [logRead_m]
  exact (ctrial_m sim t.tree t.verdict (withInp cs t.inp)).1

theorem cstepG_spec (sim : Sim) (he : sim.ens = .grand) (t : GTrial) (cs : CState) (h : GInv sim cs.m)
    (heinv : EInv cs)
    (hok : match t.kind with
           | .pos tr => (∀ r ∈ tr.refs, r < cs.m.heap.length) ∧ PosTree cs.m tr
           | .exch r => (cs.m.obj r).kind = .exch ∧ r ∈ tableRefs sim ∧ r < cs.m.heap.length) :
    EInv (cstepG sim t cs).2 ∧ (cstepG sim t cs).1.2 = energy (cstepG sim t cs).2.m.atoms := by
  have h' : GInv sim (withInp cs t.inp).m :=
    ⟨⟨h.invg.1, h.invg.2, h.invg.3, h.invg.4, h.invg.5, h.invg.6⟩, h.delta0, h.aligned, h.templ⟩
  have heinv' : EInv (withInp cs t.inp) := ⟨heinv.1, heinv.2, heinv.3⟩
  unfold cstepG GTrial.tree
  cases hk : t.kind with
  | pos tr =>
    rw [hk] at hok
    have hinv : Inv sim.ens (withInp cs t.inp).m := by
      refine ⟨fun _ => h'.invg.lastPos, ?_, ?_, h'.invg.noAdded, h'.invg.noDeleted⟩
      · intro hx; rw [he] at hx; cases hx
      · intro hx; rw [he] at hx; cases hx
    exact einv_trial_grand_pos sim he tr t.verdict (withInp cs t.inp) hinv heinv' hok.1 hok.2
  | exch r =>
    rw [hk] at hok
    have hrl : (cs.m.obj r).labels.length = cs.m.atoms.rows.length :=
      h.aligned r hok.2.1 hok.2.2 (by simp [labelBearing, hok.1])
    have hnew := toAddOf_ne_nil (cs.m.obj r) cs.m.ctx h.templ
    exact einv_trial_exchange sim he r t.verdict (withInp cs t.inp) h'.invg heinv' hok.1 hrl hnew

/-- **energy_history_grand** -/
theorem energy_history_grand (sim : Sim) (he : sim.ens = .grand) (ts : List GTrial) (cs : CState)
    (h : GInv sim cs.m) (heinv : EInv cs) (hok : GHistoryOK sim ts cs.m) :
    EInv (runCG sim ts cs) ∧ AllLoggedFreshG sim ts cs := by
  induction ts generalizing cs with
  | nil => exact ⟨heinv, trivial⟩
  | cons t ts ih =>
    obtain ⟨hk, hrest⟩ := hok
    obtain ⟨g1, g2⟩ := cstepG_spec sim he t cs h heinv hk
    have hm := cstepG_m sim t cs
    have h2 : GInv sim (cstepG sim t cs).2.m := by
      rw [hm]; exact (gstep_spec sim he t cs.m h hk).1
    have hrest2 : GHistoryOK sim ts (cstepG sim t cs).2.m := by rw [hm]; exact hrest
    obtain ⟨i1, i2⟩ := ih _ h2 g1 hrest2
    exact ⟨i1, ⟨g2, g1.lastE⟩, i2⟩

end MC
