import QProps.C19
import QProofs.Graph
/-!
# C19g — molecule search from the bonded pairs on: the connected components are computed by the model

`QProps/C19.lean` proves the labelling part of `search_molecules` for a component list `comps` that is an INPUT with
the assumption `IsPartition comps n`. Here the component list is `componentsOf n pairs` (`QModel/Graph.lean`: networkx's
enumeration loop over `0..n-1`, reachability by `n` rounds of neighbour expansion), `pairs` being the bonded pairs
(ASE's neighbour list, in one or both directions, repetitions / `i = i` / out-of-range entries allowed), and
"connected" is `Conn n pairs = Relation.ReflTransGen (Adj n pairs)` with
`Adj n pairs i j := i < n ∧ j < n ∧ ((i, j) ∈ pairs ∨ (j, i) ∈ pairs)`.

* `componentsOf_partition` — the assumption of `QProps/C19.lean` holds for the computed list;
* `componentsOf_conn`      — two nodes share a listed component iff they are connected;
* `componentsOf_order`     — the `k`-th component contains the smallest node outside the earlier ones (networkx's order);
  `componentsOf_min_increasing` — hence the minima strictly increase; `componentsOf_sorted` — each one ascending;
* `searchG_total`, `searchG_label`, `searchG_default_kept`, `searchG_same_label_iff` — the property, no component input:
  the size that is filtered is `Set.ncard {k | Conn n pairs i k}`, the number of nodes connected to `i`
  (`class_ncard`, `class_length`, `componentsOf_find` say it is the length of the listed component of `i`).
-/
namespace RI

/-! ## the computed list is the partition into connected components, in networkx's order -/

/-- **componentsOf_partition**: the hypothesis of `search_total / search_default_kept / search_label /
    search_same_label_iff` holds for the components the model computes. -/
theorem componentsOf_partition (n : Nat) (pairs : List (Nat × Nat)) : IsPartition (componentsOf n pairs) n :=
  ⟨fun i hi => componentsOf_cover i hi, fun c hc i hi => componentsOf_bound c hc i hi, componentsOf_disjoint,
   fun c hc => componentsOf_nodup c hc⟩

/-- **componentsOf_conn**: two nodes lie in one listed component exactly when they are connected through bonded
    neighbours (`j < n` is not needed: it follows from either side). -/
theorem componentsOf_conn (n : Nat) (pairs : List (Nat × Nat)) (i j : Nat) (hi : i < n) :
    (∃ c ∈ componentsOf n pairs, i ∈ c ∧ j ∈ c) ↔ Conn n pairs i j := by
  constructor
  · rintro ⟨c, hc, hic, hjc⟩
    rw [componentsOf_eq_reach c hc i hic] at hjc
    exact (mem_reach i hi j).1 hjc
  · intro h
    exact ⟨reach n pairs i, reach_mem_componentsOf i hi, self_mem_reach i hi, (mem_reach i hi j).2 h⟩

/-- **componentsOf_order** (networkx's enumeration order): the `k`-th listed component contains the smallest node that
    is in none of the components listed before it. -/
theorem componentsOf_order (n : Nat) (pairs : List (Nat × Nat)) (k : Nat) (c : List Nat)
    (hk : (componentsOf n pairs)[k]? = some c) :
    ∃ m ∈ c, (∀ c' ∈ (componentsOf n pairs).take k, m ∉ c') ∧
      ∀ j, j < n → (∀ c' ∈ (componentsOf n pairs).take k, j ∉ c') → m ≤ j := by
  unfold componentsOf at hk ⊢
  rw [List.range_eq_range'] at hk ⊢
  obtain ⟨m, hm, _, h1, h2⟩ := compsFrom_order n 0 (by omega) [] seenClosed_nil (fun j hj => by omega) k c hk
  exact ⟨m, hm, h1, fun j hj hjt => h2 j hj List.not_mem_nil hjt⟩

/-- different positions of the list hold disjoint components -/
theorem componentsOf_disjoint_idx (n : Nat) (pairs : List (Nat × Nat)) (a b : Nat) (ca cb : List Nat)
    (ha : (componentsOf n pairs)[a]? = some ca) (hb : (componentsOf n pairs)[b]? = some cb) (hab : a ≠ b)
    (j : Nat) (hja : j ∈ ca) : j ∉ cb := by
  have hp := List.pairwise_iff_getElem.1 (componentsOf_disjoint (n := n) (pairs := pairs))
  obtain ⟨hal, rfl⟩ := List.getElem?_eq_some_iff.1 ha
  obtain ⟨hbl, rfl⟩ := List.getElem?_eq_some_iff.1 hb
  rcases Nat.lt_or_gt_of_ne hab with h | h
  · exact hp a b hal hbl h j hja
  · exact fun hjb => hp b a hbl hal h j hjb hja

/-- **componentsOf_min_increasing**: the smallest members of the listed components strictly increase — the minimum
    of an earlier component is below every member of a later one. -/
theorem componentsOf_min_increasing (n : Nat) (pairs : List (Nat × Nat)) (k1 k2 : Nat) (c1 c2 : List Nat)
    (h1 : (componentsOf n pairs)[k1]? = some c1) (h2 : (componentsOf n pairs)[k2]? = some c2) (hlt : k1 < k2) :
    ∃ m ∈ c1, (∀ x ∈ c1, m ≤ x) ∧ ∀ x ∈ c2, m < x := by
  obtain ⟨m, hm, _, hmin⟩ := componentsOf_order n pairs k1 c1 h1
  have earlier : ∀ (k : Nat) (c : List Nat), (componentsOf n pairs)[k]? = some c → k1 ≤ k → ∀ x ∈ c,
      ∀ c' ∈ (componentsOf n pairs).take k1, x ∉ c' := by
    intro k c hk hle x hx c' hc' hxc'
    obtain ⟨k', hk'len, hk'⟩ := List.getElem_of_mem hc'
    rw [List.length_take] at hk'len
    rw [List.getElem_take] at hk'
    have hk'' : (componentsOf n pairs)[k']? = some c' := by
      rw [List.getElem?_eq_some_iff]; exact ⟨by omega, hk'⟩
    exact componentsOf_disjoint_idx n pairs k' k c' c hk'' hk (by omega) x hxc' hx
  refine ⟨m, hm, fun x hx => ?_, fun x hx => ?_⟩
  · exact hmin x (componentsOf_bound c1 (List.mem_of_getElem? h1) x hx) (earlier k1 c1 h1 (Nat.le_refl _) x hx)
  · have hle := hmin x (componentsOf_bound c2 (List.mem_of_getElem? h2) x hx) (earlier k2 c2 h2 (by omega) x hx)
    have hne : m ≠ x := fun e => componentsOf_disjoint_idx n pairs k1 k2 c1 c2 h1 h2 (by omega) m hm (e ▸ hx)
    omega

/-- the listed component of `i` (first one containing `i`) is `reach n pairs i`, whose members are the nodes
    connected to `i` (`mem_reach`) -/
theorem componentsOf_find (n : Nat) (pairs : List (Nat × Nat)) (i : Nat) (hi : i < n) :
    (componentsOf n pairs).find? (fun c => decide (i ∈ c)) = some (reach n pairs i) := by
  cases h : (componentsOf n pairs).find? (fun c => decide (i ∈ c)) with
  | none =>
    obtain ⟨c, hc, hic⟩ := componentsOf_cover (pairs := pairs) i hi
    have := List.find?_eq_none.1 h c hc
    simp [hic] at this
  | some c =>
    have hmem := List.mem_of_find?_eq_some h
    have hic : i ∈ c := by simpa using List.find?_some h
    rw [componentsOf_eq_reach c hmem i hic]

/-! ## the property, with the components computed -/

/-- `required_size[0] <= size <= required_size[1]` for a size (`admitted r c` is `admittedSize r c.length`) -/
def admittedSize (r : Int × Int) (s : Nat) : Prop := r.1 ≤ (s : Int) ∧ (s : Int) ≤ r.2

theorem admitted_iff_size (r : Int × Int) (c : List Nat) : admitted r c ↔ admittedSize r c.length := Iff.rfl

/-- the size of the listed component of `i` is the number of nodes connected to `i` -/
theorem component_size (n : Nat) (pairs : List (Nat × Nat)) (c : List Nat) (hc : c ∈ componentsOf n pairs)
    (i : Nat) (hic : i ∈ c) : c.length = Set.ncard {k | Conn n pairs i k} := by
  rw [componentsOf_eq_reach c hc i hic, class_ncard i (componentsOf_bound c hc i hic)]

/-- **searchG_total**: from the bonded pairs on, `search_molecules` (fixed default handling) raises nothing and
    returns one label per atom — for EVERY pair list (any direction, repetition, self pairs, out-of-range entries). -/
theorem searchG_total (n : Nat) (pairs : List (Nat × Nat)) (req : ReqSize) (default : Option (List Int))
    (hl : ∀ d, default = some d → d.length = n) :
    ∃ out, searchMoleculesG n pairs req default = .ok out ∧ out.length = n :=
  search_total n (componentsOf n pairs) req default (componentsOf_partition n pairs) hl

/-- **searchG_label**: an atom of the `k`-th listed component gets the label `k` when the size is admitted
    (with `componentsOf_order` this fixes which number every molecule gets). -/
theorem searchG_label (n : Nat) (pairs : List (Nat × Nat)) (req : ReqSize) (default : Option (List Int))
    (out : List Int) (hl : ∀ d, default = some d → d.length = n)
    (h : searchMoleculesG n pairs req default = .ok out)
    (i k : Nat) (c : List Nat) (hk : (componentsOf n pairs)[k]? = some c) (hic : i ∈ c)
    (ha : admittedSize (sizeRange n req) (Set.ncard {k | Conn n pairs i k})) :
    out[i]? = some (k : Int) := by
  refine search_label n _ req default out (componentsOf_partition n pairs) hl h i k c hk hic ?_
  rw [admitted_iff_size, component_size n pairs c (List.mem_of_getElem? hk) i hic]
  exact ha

/-- **searchG_default_kept**: an atom whose number of connected nodes is not admitted keeps `default[i]`
    (`-1` without a default array), for ANY default array. -/
theorem searchG_default_kept (n : Nat) (pairs : List (Nat × Nat)) (req : ReqSize) (default : Option (List Int))
    (out : List Int) (hl : ∀ d, default = some d → d.length = n)
    (h : searchMoleculesG n pairs req default = .ok out)
    (i : Nat) (hi : i < n) (hna : ¬ admittedSize (sizeRange n req) (Set.ncard {k | Conn n pairs i k})) :
    out[i]? = (startArray n default)[i]? := by
  obtain ⟨c, hc, hic⟩ := componentsOf_cover (pairs := pairs) i hi
  refine search_default_kept n _ req default out (componentsOf_partition n pairs) hl h i hi c hc hic ?_
  rw [admitted_iff_size, component_size n pairs c hc i hic]
  exact hna

/-- **searchG_same_label_iff**: two atoms carry the same non-negative label exactly when they are connected through
    bonded neighbours and the number of atoms connected to them is admitted by `required_size`.
    Hypothesis `hneg` as in `search_same_label_iff` (it cannot be dropped, `label_collision`): the default entries of
    the atoms whose molecule is NOT admitted are negative (`-1` without a default array: `searchG_same_label_iff_none`). -/
theorem searchG_same_label_iff (n : Nat) (pairs : List (Nat × Nat)) (req : ReqSize) (default : Option (List Int))
    (out : List Int) (hl : ∀ d, default = some d → d.length = n)
    (h : searchMoleculesG n pairs req default = .ok out)
    (hneg : ∀ a, a < n → ¬ admittedSize (sizeRange n req) (Set.ncard {k | Conn n pairs a k}) →
      ∀ v, (startArray n default)[a]? = some v → v < 0)
    (i j : Nat) (hi : i < n) (hj : j < n) :
    (∃ v, out[i]? = some v ∧ out[j]? = some v ∧ 0 ≤ v) ↔
      Conn n pairs i j ∧ admittedSize (sizeRange n req) (Set.ncard {k | Conn n pairs i k}) := by
  have hp := componentsOf_partition n pairs
  rw [search_same_label_iff n (componentsOf n pairs) req default out hp hl h
    (fun a c hc hac hna v hv => hneg a (hp.bound c hc a hac)
      (by rwa [admitted_iff_size, component_size n pairs c hc a hac] at hna) v hv) i j hi hj]
  constructor
  · rintro ⟨c, hc, ha, hic, hjc⟩
    refine ⟨(componentsOf_conn n pairs i j hi).1 ⟨c, hc, hic, hjc⟩, ?_⟩
    rwa [admitted_iff_size, component_size n pairs c hc i hic] at ha
  · rintro ⟨hconn, ha⟩
    obtain ⟨c, hc, hic, hjc⟩ := (componentsOf_conn n pairs i j hi).2 hconn
    refine ⟨c, hc, ?_, hic, hjc⟩
    rwa [admitted_iff_size, component_size n pairs c hc i hic]

/-- without a default array (`-1` everywhere) the side condition holds by itself -/
theorem searchG_same_label_iff_none (n : Nat) (pairs : List (Nat × Nat)) (req : ReqSize) (out : List Int)
    (h : searchMoleculesG n pairs req none = .ok out) (i j : Nat) (hi : i < n) (hj : j < n) :
    (∃ v, out[i]? = some v ∧ out[j]? = some v ∧ 0 ≤ v) ↔
      Conn n pairs i j ∧ admittedSize (sizeRange n req) (Set.ncard {k | Conn n pairs i k}) := by
  refine searchG_same_label_iff n pairs req none out (fun d hd => by cases hd) h ?_ i j hi hj
  intro a ha _ v hv
  simp only [startArray, List.getElem?_replicate, ha, if_true, Option.some.injEq] at hv
  omega

/-! ## non-vacuity -/

/-- six nodes: the chain `0 - 1 - 2` (pairs given in mixed directions), the isolated node `3`, the bond `4 - 5` given in
    both directions and repeated, a self pair and two out-of-range entries -/
def exPairs : List (Nat × Nat) := [(2, 1), (0, 1), (4, 5), (5, 4), (4, 5), (3, 3), (7, 0), (3, 6)]

example : componentsOf 6 exPairs = [[0, 1, 2], [3], [4, 5]] := by decide
example : reach 6 exPairs 2 = [0, 1, 2] ∧ reach 6 exPairs 3 = [3] := by decide
example : searchMoleculesG 6 exPairs (.exact 2) none = .ok [-1, -1, -1, -1, 2, 2] := by decide
example : searchMoleculesG 6 exPairs .all none = .ok [0, 0, 0, 1, 2, 2] := by decide
example : searchMoleculesG 6 exPairs (.between 2 3) (some [-5, -5, -5, 9, -5, -5]) = .ok [0, 0, 0, 9, 2, 2] := by decide
example : searchMoleculesG 6 exPairs (.exact 1) (some [7]) = .error "IndexError" := by decide
/-- networkx's order is by smallest member, whatever the order of the pairs -/
example : componentsOf 5 [(4, 1), (3, 0)] = [[0, 3], [1, 4], [2]] := by decide
example : componentsOf 0 [(0, 0)] = [] ∧ componentsOf 3 [] = [[0], [1], [2]] := by decide
/-- `Conn` is inhabited beyond reflexivity, and fails across components -/
example : Conn 6 exPairs 0 2 ∧ ¬ Conn 6 exPairs 2 3 ∧ ¬ Conn 6 exPairs 0 7 := by
  refine ⟨(componentsOf_conn 6 exPairs 0 2 (by omega)).1 (by decide), fun h => ?_, fun h => ?_⟩
  · exact absurd ((componentsOf_conn 6 exPairs 2 3 (by omega)).2 h) (by decide)
  · exact absurd (h.lt (by omega)) (by omega)
/-- the hypotheses of `searchG_same_label_iff` are satisfiable with a default array, and its two sides are inhabited -/
example : ∃ v, ([-1, -1, -1, -1, 2, 2] : List Int)[4]? = some v ∧ ([-1, -1, -1, -1, 2, 2] : List Int)[5]? = some v ∧ 0 ≤ v :=
  ⟨2, by decide⟩
example : Set.ncard {k | Conn 6 exPairs 4 k} = 2 := by
  rw [class_ncard 4 (by omega)]; decide

end RI
