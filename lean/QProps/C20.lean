import QModel.Protocol
import Mathlib.Data.List.Nodup
/-!
# C20 — drivers use custom moves and criteria only through the documented protocol

`Proto20.trialTrace` can mention nothing but the protocol methods (the event type has no other constructor), so every
trace of the model is within the protocol by construction. The theorems state the shape of the trace; the tie
(harness/props/c20.py) compares it with what a strict proxy around a bare user object records on the real drivers.
-/
namespace Proto20

/-- **trace_step**: a trial starts with `call`; `evaluate` follows iff the result was truthy; a falsy result records
    the trial as not attempted and nothing else happens. -/
theorem trace_step (ens : Ens) (table : List Nat) (t : TrialIn) :
    (trialTrace ens table t).head? = some (Ev.call t.move) ∧
    (Ev.evaluate t.criteria ∈ trialTrace ens table t ↔ t.truthy = true) ∧
    (t.truthy = false → trialTrace ens table t = [Ev.call t.move] ∧ historyEntry t = none) ∧
    (t.truthy = true → historyEntry t = some t.accepted) := by
  refine ⟨by simp [trialTrace], ?_, ?_, ?_⟩
  · cases ht : t.truthy <;> cases ha : t.accepted <;> cases ens <;> simp [trialTrace, ht, ha] <;>
      (try split) <;> simp
  · intro h; simp [trialTrace, historyEntry, h]
  · intro h; simp [historyEntry, h]

/-- **notify_atoms**: in the grand-canonical driver, after every accepted trial every distinct move of the table
    receives exactly one `on_atoms_changed` with the trial's indices; without acceptance none does. -/
theorem notify_atoms (table : List Nat) (t : TrialIn) (hn : table.Nodup) (u : Nat) (hu : u ∈ table) :
    ((trialTrace .grand table t).count (Ev.atomsChanged u t.added t.removed) =
      if t.truthy && t.accepted then 1 else 0) ∧
    (∀ a r, Ev.atomsChanged u a r ∈ trialTrace .grand table t → a = t.added ∧ r = t.removed) := by
  have hnd : (table.map (fun u => Ev.atomsChanged u t.added t.removed)).Nodup :=
    List.Nodup.map (fun a b h => by cases h; rfl) hn
  have hmem : Ev.atomsChanged u t.added t.removed ∈ table.map (fun u => Ev.atomsChanged u t.added t.removed) :=
    List.mem_map.mpr ⟨u, hu, rfl⟩
  constructor
  · cases ht : t.truthy <;> cases ha : t.accepted <;> simp [trialTrace, ht, ha]
    exact List.count_eq_one_of_mem hnd hmem
  · intro a r h
    cases ht : t.truthy <;> cases hacc : t.accepted <;> simp [trialTrace, ht, hacc] at h
    exact ⟨h.2.1.symm, h.2.2.symm⟩

/-- **notify_cell**: in the isobaric and isotension drivers every distinct move receives exactly one
    `on_cell_changed` after an accepted trial that changed the cell, and none otherwise. -/
theorem notify_cell (ens : Ens) (he : ens = .isobaric ∨ ens = .isotension) (table : List Nat) (t : TrialIn)
    (hn : table.Nodup) (u : Nat) (hu : u ∈ table) :
    (trialTrace ens table t).count (Ev.cellChanged u) =
      if t.truthy && t.accepted && t.cellChanged then 1 else 0 := by
  have hnd : (table.map Ev.cellChanged).Nodup := List.Nodup.map (fun a b h => by cases h; rfl) hn
  rcases he with rfl | rfl <;>
    cases ht : t.truthy <;> cases ha : t.accepted <;> cases hc : t.cellChanged <;>
    simp [trialTrace, ht, ha, hc] <;>
    exact List.count_eq_one_of_mem hnd (List.mem_map.mpr ⟨u, hu, rfl⟩)

/-- no notification reaches a user object in the drivers that change neither atom count nor cell -/
theorem no_notification_elsewhere (ens : Ens) (he : ens = .base ∨ ens = .canonical ∨ ens = .hamiltonian)
    (table : List Nat) (t : TrialIn) :
    ∀ e ∈ trialTrace ens table t, e = Ev.call t.move ∨ e = Ev.evaluate t.criteria := by
  intro e h
  rcases he with rfl | rfl | rfl <;>
    cases ht : t.truthy <;> cases ha : t.accepted <;> simp [trialTrace, ht, ha] at h <;>
    (first | exact Or.inl h | (rcases h with h | h <;> simp [h]))

example : trialTrace .grand [3, 5] ⟨3, 0, true, true, [4], [], false⟩ =
    [Ev.call 3, Ev.evaluate 0, Ev.atomsChanged 3 [4] [], Ev.atomsChanged 5 [4] []] := by decide

end Proto20
