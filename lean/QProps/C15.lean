import QProofs.RunLoop
/-!
# C15 — observers fire on schedule and splitting a run does not change it

Model: `QModel/RunLoop.lean` (`Driver.irun`, `call_observers`, `MonteCarlo.run/srun`, eager and lazy `step`).
All theorems quantify over every observer list, every interval, every number of steps, every simulation
state type `σ`, every deterministic `stepFn` and `validate`, both driver kinds and (where stated) both
variants of the loop. `Variant.coded` is the loop of the pinned tree, `Variant.fixed` the loop after
`harness/patches/C15-step0-once.diff`.

The only hypothesis on the abstract simulation is `ValidateStable`: `validate_simulation` is a no-op on a
state it has already validated and on every state reached from such a state by steps (it only refreshes
caches: `context.last_positions = atoms.get_positions()`, `context.last_results = atoms.calc.results`). It is
needed for — and only for — the split theorems; the correspondence run checks its consequence on the real
drivers (atoms after a split run are bitwise those of the unsplit run).
-/
namespace RunLoop
variable {σ : Type}

/-! ## the schedule -/

/-- **positive_interval_calls**: over a fresh run of `N` steps (any entry point, any consumer, either variant)
    the observer at position `j` with interval `n > 0` is called at step 0 and after every step whose number
    is a multiple of `n`, in increasing order, once each — as an equality of call logs. -/
theorem positive_interval_calls (cfg : Cfg σ) (c : Bool) (j n N : Nat) (st : σ)
    (hj : j < cfg.intervals.length) (hiv : cfg.intervals[j] = (n : Int)) (hn : 0 < n) :
    callsOf j (irunWith cfg c N (fresh st)).trace = (List.range (N + 1)).filter (fun k => decide (k % n = 0)) := by
  rw [callsOf_irun_fresh]
  have : cfg.intervals.getD j 0 = (n : Int) := by simp [List.getD, hj, hiv]
  rw [this]
  congr 1; funext k; exact fires_pos n k hn

/-- the call log of `positive_interval_calls` as a set: `{0} ∪ {k | 1 ≤ k ≤ N, n ∣ k}`, each element once -/
theorem positive_interval_set (n N : Nat) :
    (∀ k, k ∈ (List.range (N + 1)).filter (fun k => decide (k % n = 0)) ↔ (k = 0 ∨ (1 ≤ k ∧ k ≤ N ∧ n ∣ k))) ∧
    ((List.range (N + 1)).filter (fun k => decide (k % n = 0))).Nodup := by
  refine ⟨fun k => ?_, List.Nodup.sublist List.filter_sublist List.nodup_range⟩
  rw [filter_range_mod, Nat.dvd_iff_mod_eq_zero]
  constructor
  · rintro ⟨h1, h2⟩
    by_cases hk : k = 0
    · exact Or.inl hk
    · exact Or.inr ⟨by omega, h1, h2⟩
  · rintro (h | ⟨_, h2, h3⟩)
    · subst h; exact ⟨by omega, Nat.zero_mod n⟩
    · exact ⟨h2, h3⟩

/-- **negative_interval_once**: an observer with interval `−n` is called exactly once, after step `n`
    (and not at all when the run is shorter than `n` steps). -/
theorem negative_interval_once (cfg : Cfg σ) (c : Bool) (j n N : Nat) (st : σ)
    (hj : j < cfg.intervals.length) (hiv : cfg.intervals[j] = -(n : Int)) (hn : 0 < n) :
    callsOf j (irunWith cfg c N (fresh st)).trace = if n ≤ N then [n] else [] := by
  rw [callsOf_irun_fresh]
  have : cfg.intervals.getD j 0 = -(n : Int) := by simp [List.getD, hj, hiv]
  rw [this, ← filter_range_eq]
  congr 1; funext k; exact fires_neg n k hn

/-- an observer with interval 0 is never called (and `% 0` is never evaluated) -/
theorem zero_interval_never (cfg : Cfg σ) (c : Bool) (j N : Nat) (st : σ)
    (hj : j < cfg.intervals.length) (hiv : cfg.intervals[j] = 0) :
    callsOf j (irunWith cfg c N (fresh st)).trace = [] := by
  rw [callsOf_irun_fresh]
  have : cfg.intervals.getD j 0 = 0 := by simp [List.getD, hj, hiv]
  rw [this]; simp

/-- the observers are swept in attach order: within one `call_observers` the calls are sorted by position -/
theorem sweep_in_attach_order (k : Nat) (st : σ) (i : Nat) (ivs : List Int) :
    ((callFrom k st i ivs).map (·.1)).Pairwise (· < ·) ∧ ∀ e ∈ callFrom k st i ivs, i ≤ e.1 := by
  induction ivs generalizing i with
  | nil => simp [callFrom]
  | cons iv rest ih =>
    obtain ⟨h1, h2⟩ := ih (i + 1)
    by_cases hf : fires iv k = true
    · simp only [callFrom, hf, if_true, List.singleton_append, List.map_cons, List.pairwise_cons, List.mem_cons]
      refine ⟨⟨?_, h1⟩, ?_⟩
      · intro a ha
        obtain ⟨e, he, rfl⟩ := List.mem_map.mp ha
        have := h2 e he
        show i < e.1
        omega
      · rintro e (rfl | he)
        · exact Nat.le_refl _
        · have := h2 e he; omega
    · simp only [callFrom, hf]
      exact ⟨h1, fun e he => by have := h2 e he; omega⟩

/-! ## the header -/

/-- **header_once_before_rows** (one run, either variant): the default logger's events over a fresh run are
    the header followed by rows only. -/
theorem header_once_single (cfg : Cfg σ) (c : Bool) (i N : Nat) (st : σ) (hl : cfg.logger = some i) :
    ∃ rows, evsOf i (irunWith cfg c N (fresh st)).trace = Ev.header :: rows ∧ ∀ e ∈ rows, e ≠ Ev.header := by
  obtain ⟨t, ht, hr⟩ := irun_fresh_trace cfg c N st
  refine ⟨evsOf i t, ?_, evsOf_rowsOnly i t hr⟩
  rw [ht, hl]
  simp [evsOf]

/-- an observer that is not the default logger never receives a header -/
theorem no_header_elsewhere (cfg : Cfg σ) (c : Bool) (j N : Nat) (st : σ) (hl : cfg.logger ≠ some j) :
    ∀ e ∈ evsOf j (irunWith cfg c N (fresh st)).trace, e ≠ Ev.header := by
  obtain ⟨t, ht, hr⟩ := irun_fresh_trace cfg c N st
  rw [ht, evsOf_append]
  intro e he
  rcases List.mem_append.mp he with h1 | h1
  · cases h : cfg.logger with
    | none => simp [h, evsOf] at h1
    | some i =>
      have : i ≠ j := fun e => hl (by rw [h, e])
      simp [h, evsOf, this] at h1
  · exact evsOf_rowsOnly j t hr e h1

/-! ## splitting a run -/

/-- **split_run** (fixed loop): `run a; run b ≡ run (a+b)` for all `a, b ≥ 0`, from every simulation object
    (fresh or continued) — equality of the whole object: simulation state, `step_count`, `max_steps`, number of
    executed steps and the complete observer trace (hence every observer's call log and file). -/
theorem split_run (cfg : Cfg σ) (hv : cfg.variant = .fixed) (hs : ValidateStable cfg) (a b : Nat) (s : Sim σ) :
    run cfg b (run cfg a s) = run cfg (a + b) s := by
  unfold run
  cases cfg.kind <;> exact irunWith_split cfg hs _ a b s (Or.inl (past_stepZero_fixed cfg _ hv))

/-- the same for any consumer of `irun`/`srun` -/
theorem split_irun (cfg : Cfg σ) (hv : cfg.variant = .fixed) (hs : ValidateStable cfg) (c : Bool) (a b : Nat)
    (s : Sim σ) : irunWith cfg c b (irunWith cfg c a s) = irunWith cfg c (a + b) s :=
  irunWith_split cfg hs c a b s (Or.inl (past_stepZero_fixed cfg _ hv))

/-- **split_run_coded_partial**: the loop of the pinned tree splits correctly exactly when the step-0 block
    cannot be re-entered: the first segment is non-empty or the simulation is already past step 0. -/
theorem split_run_coded_partial (cfg : Cfg σ) (hs : ValidateStable cfg) (a b : Nat) (s : Sim σ)
    (h : 0 < a ∨ 0 < s.stepCount) :
    run cfg b (run cfg a s) = run cfg (a + b) s := by
  have key : ∀ c, irunWith cfg c b (irunWith cfg c a s) = irunWith cfg c (a + b) s := by
    intro c
    cases hv : cfg.variant with
    | fixed => exact irunWith_split cfg hs c a b s (Or.inl (past_stepZero_fixed cfg _ hv))
    | coded =>
      rcases h with h | h
      · exact irunWith_split cfg hs c a b s (Or.inr ⟨h, hv⟩)
      · exact irunWith_split cfg hs c a b s (Or.inl (past_stepZero_coded cfg _ (by
          simp [setMax, validateSim]; omega)))
  unfold run
  cases cfg.kind <;> exact key _

/-- a concrete simulation: state = number of steps executed, one logger with interval 1 -/
def demo (v : Variant) (k : Kind) : Cfg Nat :=
  { intervals := [1], logger := some 0, kind := k, variant := v, validate := id, stepFn := fun _ x => x + 1 }

theorem demo_stable (v : Variant) (k : Kind) : ValidateStable (demo v k) := ⟨fun _ => rfl, fun _ _ _ => rfl⟩

/-- **split_run is false for the loop of the pinned tree** (witness `run(0); run(1)` from a fresh simulation:
    the header and the step-0 row are written twice). Full statement that fails:
    `∀ cfg (hs : ValidateStable cfg) a b s, run cfg b (run cfg a s) = run cfg (a + b) s`. -/
theorem split_run_coded_false :
    ¬ ∀ (cfg : Cfg Nat) (_ : ValidateStable cfg) (a b : Nat) (s : Sim Nat),
        (run cfg b (run cfg a s)).trace = (run cfg (a + b) s).trace := by
  intro h
  have := h (demo .coded .lazy) (demo_stable _ _) 0 1 (fresh 0)
  revert this
  decide

/-- what the coded loop writes for `run(0); run(1)`: header, row 0, header, row 0, row 1 -/
example : evsOf 0 (run (demo .coded .lazy) 1 (run (demo .coded .lazy) 0 (fresh 0))).trace
    = [.header, .call 0 0, .header, .call 0 0, .call 1 1] := by decide
/-- … and the fixed loop: header, row 0, row 1 -/
example : evsOf 0 (run (demo .fixed .lazy) 1 (run (demo .fixed .lazy) 0 (fresh 0))).trace
    = [.header, .call 0 0, .call 1 1] := by decide

/-- **split_many** (fixed loop): any non-empty list of segment lengths, zeros included, is one run of their sum. -/
theorem split_many (cfg : Cfg σ) (hv : cfg.variant = .fixed) (hs : ValidateStable cfg) (n : Nat) (segs : List Nat)
    (s : Sim σ) : runs cfg (n :: segs) s = run cfg (n + segs.sum) s := by
  induction segs generalizing n s with
  | nil => simp [runs]
  | cons m rest ih =>
    have := ih m (run cfg n s)
    simp only [runs] at this ⊢
    rw [this, split_run cfg hv hs, List.sum_cons]

/-- **header_once_before_rows** (fixed loop, any splitting of the run): the default logger's events are the
    header, once, followed by rows only. -/
theorem header_once_before_rows (cfg : Cfg σ) (hv : cfg.variant = .fixed) (hs : ValidateStable cfg)
    (i n : Nat) (segs : List Nat) (st : σ) (hl : cfg.logger = some i) :
    ∃ rows, evsOf i (runs cfg (n :: segs) (fresh st)).trace = Ev.header :: rows ∧ ∀ e ∈ rows, e ≠ Ev.header := by
  rw [split_many cfg hv hs]
  unfold run
  cases cfg.kind <;> exact header_once_single cfg _ i _ st hl

/-- files: whatever an observer renders from its invocations, the split run writes the same bytes -/
theorem split_run_files {β : Type} (cfg : Cfg σ) (hv : cfg.variant = .fixed) (hs : ValidateStable cfg)
    (render : Ev σ → List β) (i n : Nat) (segs : List Nat) (s : Sim σ) :
    fileOf render i (runs cfg (n :: segs) s) = fileOf render i (run cfg (n + segs.sum) s) := by
  rw [split_many cfg hv hs]

/-! ## the three entry points -/

/-- **entry_points_agree**: on a Monte-Carlo (lazy) driver `run n`, `srun n` fully iterated and `irun n` fully
    iterated with every yielded generator exhausted are the same function; on a force-bias (eager) driver `run n`
    equals `irun n` whatever the caller does with the yielded values. -/
theorem entry_points_agree (cfg : Cfg σ) (n : Nat) (s : Sim σ) :
    (cfg.kind = .lazy → run cfg n s = srun cfg n s ∧ srun cfg n s = irunFull cfg n s) ∧
    (cfg.kind = .eager → ∀ c, run cfg n s = irunWith cfg c n s) := by
  refine ⟨fun h => ⟨by simp [run, srun, h], rfl⟩, fun h c => ?_⟩
  simp only [run, h]
  rw [irunWith_eager cfg h false, irunWith_eager cfg h c]

/-- **exact_steps**: every entry point, fully iterated, executes exactly the requested number of step bodies
    and advances `step_count` by exactly that number. -/
theorem exact_steps (cfg : Cfg σ) (n : Nat) (s : Sim σ) :
    (run cfg n s).performed = s.performed + n ∧ (run cfg n s).stepCount = s.stepCount + n ∧
    (srun cfg n s).performed = s.performed + n ∧ (srun cfg n s).stepCount = s.stepCount + n ∧
    (irunFull cfg n s).performed = s.performed + n ∧ (irunFull cfg n s).stepCount = s.stepCount + n := by
  have key : ∀ c, (cfg.kind = .eager ∨ c = true) →
      (irunWith cfg c n s).performed = s.performed + n ∧ (irunWith cfg c n s).stepCount = s.stepCount + n := by
    intro c hc
    rw [irunWith_eq]
    exact ⟨by rw [iter_performed cfg c n _ hc]; simp [setMax, validateSim], by simp [setMax, validateSim]⟩
  have hrun : (run cfg n s).performed = s.performed + n ∧ (run cfg n s).stepCount = s.stepCount + n := by
    unfold run
    cases hk : cfg.kind
    · exact key false (Or.inl hk)
    · exact key true (Or.inr rfl)
  exact ⟨hrun.1, hrun.2, (key true (Or.inr rfl)).1, (key true (Or.inr rfl)).2,
    (key true (Or.inr rfl)).1, (key true (Or.inr rfl)).2⟩

/-- why "fully iterated" matters: a caller that iterates `irun` on a Monte-Carlo driver without exhausting the
    yielded step generators advances `step_count` and fires the observers but performs no step at all. -/
theorem irun_unconsumed_no_steps (cfg : Cfg σ) (h : cfg.kind = .lazy) (n : Nat) (s : Sim σ) :
    (irunWith cfg false n s).performed = s.performed ∧ (irunWith cfg false n s).st = cfg.validate s.st ∧
    (irunWith cfg false n s).stepCount = s.stepCount + n := by
  rw [irunWith_eq]
  obtain ⟨h1, h2⟩ := iter_unconsumed cfg n (stepZero cfg (setMax (s.stepCount + n) (validateSim cfg s))) h
  exact ⟨by rw [h1]; simp [setMax, validateSim], by rw [h2]; simp [setMax, validateSim], by simp [setMax, validateSim]⟩

/-! ## non-vacuity -/

example : callsOf 0 (run (demo .fixed .lazy) 3 (fresh 0)).trace = [0, 1, 2, 3] := by decide
example : callsOf 1 (run { demo .fixed .eager with intervals := [1, 3, -2, 0] } 7 (fresh 0)).trace = [0, 3, 6] := by decide
example : callsOf 2 (run { demo .fixed .eager with intervals := [1, 3, -2, 0] } 7 (fresh 0)).trace = [2] := by decide
example : callsOf 2 (run { demo .fixed .eager with intervals := [1, 3, -2, 0] } 1 (fresh 0)).trace = [] := by decide
example : callsOf 3 (run { demo .fixed .eager with intervals := [1, 3, -2, 0] } 7 (fresh 0)).trace = [] := by decide
example : (runs (demo .fixed .lazy) [0, 2, 0, 1] (fresh 0)) = run (demo .fixed .lazy) 3 (fresh 0) := by decide
example : (run (demo .fixed .lazy) 4 (fresh 0)).st = 4 ∧ (irunWith (demo .fixed .lazy) false 4 (fresh 0)).st = 0 := by decide
example : ∃ cfg : Cfg Nat, cfg.variant = .fixed ∧ ValidateStable cfg := ⟨demo .fixed .lazy, rfl, demo_stable _ _⟩

end RunLoop
