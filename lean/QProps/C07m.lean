import QProofs.MachinePersist
import QProps.C03g
import QProps.C05h
/-!
# C07 (M-machine) — the future of a simulation depends only on what a restart file stores

Model: QModel/Machine.lean.  `persist s` (QProofs/MachinePersist.lean) is the state `from_dict` rebuilds from the file
`to_dict` wrote at a trial boundary: atoms, generator (`inp`), per move object class / `labels` / `default_label` /
`max_attempts` / `apply_constraints` / `scale_atoms` / `bias_towards_insert`, per context `last_positions` /
`last_cell` / `last_momenta` / `number_of_exchange_particles` / `exchange_atoms` are kept; the transient fields
(`to_displace_labels`, `displaced_labels`, `to_delete_label`, `to_add_atoms`; `_moving_indices`, `_added_*`,
`_deleted_*`, `particle_delta`, saved constraints) are back at their constructor defaults.

Results (every script of draws / operation results / `check_move` verdicts, every label array, every tree):

* `trial_persist` — at a trial boundary (`Boundary sim s`: the driver's between-trials invariant — `Inv` for the
  canonical / Hamiltonian / isobaric drivers, `GInv` for the grand-canonical one — and no user pre-selection pending)
  the trial run from the restarted state has the same outcome, the same atoms and an equivalent final state;
  `trial_persist_min` is the same with the weakest hypotheses the proof needs, and for EVERY tree.
* `restart_continues_mm` / `restart_continues_mm_grand` — for every history accepted by `AHistoryOK` / `GHistoryOK`:
  trial by trial the same outcomes and the same atoms, equivalent final states, the restarted run is itself
  well-formed, and both runs end at a boundary again.
* `restart_anywhere_mm` / `restart_anywhere_mm_grand` — the same when the restart happens after ANY prefix of the history
  (the boundary condition is preserved by every trial: `boundary_astep`, `boundary_gstep`, `trial_noPresel`).
* `validate_persist` — `validate_simulation()`, which `run()` of the restarted simulation calls first, changes nothing
  at a boundary.
* no transient field is live at a reachable boundary: `displaced`, `moving`, `addedAtoms` are dead unconditionally
  (`trial_congr`); the other transient fields are at their defaults already (`persist_changes_dead_only`).
  The two hypotheses are necessary: `preselection_is_not_stored`, `inv_alone_not_enough_grand` (witnesses by `decide`).
-/
namespace MM

/-! ## the boundary condition -/

/-- the between-trials condition of the driver: its invariant, and no user pre-selection pending -/
structure Boundary (sim : Sim) (s : State) : Prop where
  noPresel : NoPresel s
  grand : sim.ens = .grand → GInv sim s
  other : sim.ens ≠ .grand → Inv sim.ens s

theorem GInv.ctxClean {sim : Sim} {s : State} (h : GInv sim s) : CtxClean s.ctx :=
  ⟨h.invg.noAdded, h.invg.noSizes, h.invg.noDeleted, h.invg.noDeletedAtoms, h.delta0, h.invg.noSaved⟩

/-- **at a boundary `persist` changes dead fields only**: the restarted state and the running one agree on everything
    but `displaced_labels`, `_moving_indices`, `_added_atoms` (and, outside the grand-canonical driver, the exchange
    book-keeping nobody reads there) -/
theorem persist_changes_dead_only (sim : Sim) (s : State) (hp : NoPresel s) (hc : sim.ens = .grand → CtxClean s.ctx) :
    Rel (decide (sim.ens = .grand)) (persist s) s :=
  rel_persist _ s hp (fun h => hc (of_decide_eq_true h))

theorem hg_decide (sim : Sim) : decide (sim.ens = .grand) = false → sim.ens ≠ .grand :=
  fun h => of_decide_eq_false h

/-! ## 1. one trial -/

/-- **trial_persist**, weakest hypotheses, every tree (exchange members and composites included): no pre-selection
    pending, and — for the grand-canonical driver only — empty exchange book-keeping. -/
theorem trial_persist_min (sim : Sim) (t : Tree) (v : Bool) (s : State) (hp : NoPresel s)
    (hc : sim.ens = .grand → CtxClean s.ctx) :
    (trial sim t v (persist s)).1 = (trial sim t v s).1 ∧
    (trial sim t v (persist s)).2.atoms = (trial sim t v s).2.atoms ∧
    Eqv (trial sim t v (persist s)).2 (trial sim t v s).2 := by
  obtain ⟨h1, h2⟩ := trial_congr sim (hg_decide sim) t v (persist_changes_dead_only sim s hp hc)
  exact ⟨h1, h2.atoms, h2.eqv⟩

/-- **trial_persist**: at a trial boundary the trial run from the restarted state has the same outcome, the same atoms
    and an equivalent final state. -/
theorem trial_persist (sim : Sim) (t : Tree) (v : Bool) (s : State) (hb : Boundary sim s) :
    (trial sim t v (persist s)).1 = (trial sim t v s).1 ∧
    (trial sim t v (persist s)).2.atoms = (trial sim t v s).2.atoms ∧
    Eqv (trial sim t v (persist s)).2 (trial sim t v s).2 :=
  trial_persist_min sim t v s hb.noPresel (fun he => (hb.grand he).ctxClean)

/-- the restarted state is itself a boundary state (so C03 / C05 apply to the restarted run as well) -/
theorem obj_persist (s : State) (r : Nat) : (persist s).obj r = persistObj (s.obj r) := by
  simp only [State.obj, persist, List.getD_eq_getElem?_getD, List.getElem?_map]
  cases s.heap[r]? <;> rfl

theorem noPresel_persist (s : State) : NoPresel (persist s) := by
  intro m hm
  simp only [persist, List.mem_map] at hm
  obtain ⟨m0, _, rfl⟩ := hm
  exact ⟨rfl, rfl, rfl⟩

theorem inv_persist {ens : Ensemble} {s : State} (h : Inv ens s) : Inv ens (persist s) :=
  ⟨h.lastPos, h.lastCell, h.lastMom, rfl, rfl⟩

theorem ginv_persist {sim : Sim} {s : State} (h : GInv sim s) : GInv sim (persist s) := by
  refine ⟨⟨h.invg.lastPos, rfl, rfl, rfl, rfl, h.invg.fixedOK, rfl⟩, rfl, ?_, h.templ⟩
  intro r hr hlt hlb
  rw [obj_persist] at hlb ⊢
  have hlt' : r < s.heap.length := by simpa [persist] using hlt
  exact h.aligned r hr hlt' hlb

theorem boundary_persist {sim : Sim} {s : State} (h : Boundary sim s) : Boundary sim (persist s) :=
  ⟨noPresel_persist s, fun he => ginv_persist (h.grand he), fun he => inv_persist (h.other he)⟩

/-- `run()` of the restarted simulation starts with `validate_simulation()`: at a boundary it changes nothing, neither
    in the running state nor in the restarted one, so every theorem below is also about `validate sim (persist s)`. -/
theorem validate_of_boundary (sim : Sim) (s : State) (h : Boundary sim s) : validate sim s = s := by
  unfold validate
  cases he : sim.ens with
  | base => rfl
  | canonical =>
    have hi := h.other (by rw [he]; simp)
    have h1 := hi.lastPos (by rw [he]; simp)
    simp only []
    rw [← h1]
  | hamiltonian =>
    have hi := h.other (by rw [he]; simp)
    have h1 := hi.lastPos (by rw [he]; simp)
    have h2 := hi.lastMom he
    simp only []
    rw [← h1, ← h2]
  | isobaric =>
    have hi := h.other (by rw [he]; simp)
    have h1 := hi.lastPos (by rw [he]; simp)
    have h2 := hi.lastCell he
    simp only []
    rw [← h1, ← h2]
  | grand =>
    have h1 := (h.grand he).invg.lastPos
    simp only []
    rw [← h1]

theorem validate_persist (sim : Sim) (s : State) (h : Boundary sim s) : validate sim (persist s) = persist s :=
  validate_of_boundary sim (persist s) (boundary_persist h)

/-! ## 2. histories (canonical / Hamiltonian / isobaric drivers) -/

/-- trial by trial: same outcome, same atoms -/
def SameRunA (sim : Sim) : List ATrial → State → State → Prop
  | [], _, _ => True
  | t :: ts, s, s' =>
    (astep sim t s).1 = (astep sim t s').1 ∧ (astep sim t s).2.atoms = (astep sim t s').2.atoms ∧
    SameRunA sim ts (astep sim t s).2 (astep sim t s').2

theorem sameRunA_of_rel {g : Bool} (sim : Sim) (hg : g = false → sim.ens ≠ .grand) (ts : List ATrial) {s s' : State}
    (h : Rel g s s') : SameRunA sim ts s s' ∧ Rel g (runA sim ts s) (runA sim ts s') := by
  induction ts generalizing s s' with
  | nil => exact ⟨trivial, h⟩
  | cons t ts ih =>
    obtain ⟨h1, h2⟩ := trial_congr sim hg t.tree t.verdict (h.withInp t.inp)
    obtain ⟨i1, i2⟩ := ih h2
    exact ⟨⟨h1, h2.atoms, i1⟩, i2⟩

theorem posTree_rel {g : Bool} {s s' : State} (h : Rel g s s') (t : Tree) (ht : PosTree s t) : PosTree s' t := by
  cases t with
  | leaf r => simp only [PosTree] at ht ⊢; rw [← eObj_kind (h.obj r)]; exact ht
  | compDisp rs => trivial
  | plain rs => intro r hr; rw [← eObj_kind (h.obj r)]; exact ht r hr
  | compExch rs b => exact ht

theorem aKindOK_rel {g : Bool} (sim : Sim) {s s' : State} (h : Rel g s s') (k : TKind) (hk : AKindOK sim s k) :
    AKindOK sim s' k := by
  cases k with
  | pos tr => exact ⟨fun r hr => by rw [← h.heap_len]; exact hk.1 r hr, posTree_rel h tr hk.2⟩
  | cell r => exact ⟨hk.1, by rw [← eObj_kind (h.obj r)]; exact hk.2⟩
  | ham r => exact ⟨hk.1, by rw [← eObj_kind (h.obj r)]; exact hk.2⟩

theorem aHistoryOK_rel {g : Bool} (sim : Sim) (hg : g = false → sim.ens ≠ .grand) (ts : List ATrial) {s s' : State}
    (h : Rel g s s') (hok : AHistoryOK sim ts s) : AHistoryOK sim ts s' := by
  induction ts generalizing s s' with
  | nil => trivial
  | cons t ts ih =>
    exact ⟨aKindOK_rel sim h t.kind hok.1,
      ih (trial_congr sim hg t.tree t.verdict (h.withInp t.inp)).2 hok.2⟩

/-- the boundary condition is re-established by every trial of a well-formed history -/
theorem boundary_astep (sim : Sim) (hb : sim.ens ≠ .base) (hng : sim.ens ≠ .grand) (t : ATrial) (s : State)
    (h : Boundary sim s) (hok : AKindOK sim s t.kind) : Boundary sim (astep sim t s).2 := by
  refine ⟨?_, fun he => absurd he hng, fun _ => (astep_spec sim hb t s (h.other hng) hok).1⟩
  exact trial_noPresel sim t.tree t.verdict { s with inp := t.inp } h.noPresel

theorem boundary_runA (sim : Sim) (hb : sim.ens ≠ .base) (hng : sim.ens ≠ .grand) (ts : List ATrial) (s : State)
    (h : Boundary sim s) (hok : AHistoryOK sim ts s) : Boundary sim (runA sim ts s) := by
  induction ts generalizing s with
  | nil => exact h
  | cons t ts ih => exact ih _ (boundary_astep sim hb hng t s h hok.1) hok.2

/-- **restart_continues_mm** (canonical / Hamiltonian / isobaric-isotension drivers): for every history of
    displacement-type trees, bare cell moves and bare Hamiltonian moves, running it from the restarted state gives,
    trial by trial, the same outcomes and the same atoms as the uninterrupted run, and equivalent final states; the
    restarted run is well-formed too, and both runs end at a boundary. -/
theorem restart_continues_mm (sim : Sim) (hb : sim.ens ≠ .base) (hng : sim.ens ≠ .grand) (ts : List ATrial) (s : State)
    (h : Boundary sim s) (hok : AHistoryOK sim ts s) :
    SameRunA sim ts (persist s) s ∧ Eqv (runA sim ts (persist s)) (runA sim ts s) ∧
    AHistoryOK sim ts (persist s) ∧ Boundary sim (runA sim ts (persist s)) ∧ Boundary sim (runA sim ts s) := by
  have hrel := persist_changes_dead_only sim s h.noPresel (fun he => absurd he hng)
  obtain ⟨h1, h2⟩ := sameRunA_of_rel sim (hg_decide sim) ts hrel
  have hok' := aHistoryOK_rel sim (hg_decide sim) ts hrel.symm hok
  exact ⟨h1, h2.eqv, hok', boundary_runA sim hb hng ts _ (boundary_persist h) hok', boundary_runA sim hb hng ts s h hok⟩

/-- the part of `restart_continues_mm` that needs no invariant and no well-formedness at all: ANY history of ANY trees
    in a driver other than the grand-canonical one, from any state without a pending pre-selection -/
theorem restart_continues_any (sim : Sim) (hng : sim.ens ≠ .grand) (ts : List ATrial) (s : State) (hp : NoPresel s) :
    SameRunA sim ts (persist s) s ∧ Eqv (runA sim ts (persist s)) (runA sim ts s) := by
  obtain ⟨h1, h2⟩ := sameRunA_of_rel sim (hg_decide sim) ts
    (persist_changes_dead_only sim s hp (fun he => absurd he hng))
  exact ⟨h1, h2.eqv⟩

theorem aHistoryOK_append (sim : Sim) (pre post : List ATrial) (s : State) (h : AHistoryOK sim (pre ++ post) s) :
    AHistoryOK sim pre s ∧ AHistoryOK sim post (runA sim pre s) := by
  induction pre generalizing s with
  | nil => exact ⟨trivial, h⟩
  | cons t pre ih =>
    obtain ⟨i1, i2⟩ := ih _ h.2
    exact ⟨⟨h.1, i1⟩, i2⟩

/-- **restart_anywhere_mm**: the restart may happen after any prefix of the history -/
theorem restart_anywhere_mm (sim : Sim) (hb : sim.ens ≠ .base) (hng : sim.ens ≠ .grand) (pre post : List ATrial)
    (s : State) (h : Boundary sim s) (hok : AHistoryOK sim (pre ++ post) s) :
    let s1 := runA sim pre s
    SameRunA sim post (persist s1) s1 ∧ Eqv (runA sim post (persist s1)) (runA sim post s1) := by
  intro s1
  obtain ⟨o1, o2⟩ := aHistoryOK_append sim pre post s hok
  have h1 : Boundary sim s1 := boundary_runA sim hb hng pre s h o1
  obtain ⟨r1, r2, _⟩ := restart_continues_mm sim hb hng post s1 h1 o2
  exact ⟨r1, r2⟩

/-! ## 2'. histories of the grand-canonical driver (displacement-type trials, insertions, deletions) -/

def SameRunG (sim : Sim) : List GTrial → State → State → Prop
  | [], _, _ => True
  | t :: ts, s, s' =>
    (gstep sim t s).1 = (gstep sim t s').1 ∧ (gstep sim t s).2.atoms = (gstep sim t s').2.atoms ∧
    SameRunG sim ts (gstep sim t s).2 (gstep sim t s').2

theorem sameRunG_of_rel {g : Bool} (sim : Sim) (hg : g = false → sim.ens ≠ .grand) (ts : List GTrial) {s s' : State}
    (h : Rel g s s') : SameRunG sim ts s s' ∧ Rel g (runG sim ts s) (runG sim ts s') := by
  induction ts generalizing s s' with
  | nil => exact ⟨trivial, h⟩
  | cons t ts ih =>
    obtain ⟨h1, h2⟩ := trial_congr sim hg t.tree t.verdict (h.withInp t.inp)
    obtain ⟨i1, i2⟩ := ih h2
    exact ⟨⟨h1, h2.atoms, i1⟩, i2⟩

/-- well-formedness of one scheduled grand-canonical trial -/
def GKindOK (sim : Sim) (s : State) : GTrialKind → Prop
  | .pos tr => (∀ r ∈ tr.refs, r < s.heap.length) ∧ PosTree s tr
  | .exch r => (s.obj r).kind = .exch ∧ r ∈ tableRefs sim ∧ r < s.heap.length

theorem gHistoryOK_cons (sim : Sim) (t : GTrial) (ts : List GTrial) (s : State) :
    GHistoryOK sim (t :: ts) s ↔ GKindOK sim s t.kind ∧ GHistoryOK sim ts (gstep sim t s).2 := by
  simp only [GHistoryOK, GKindOK]
  cases t.kind <;> exact Iff.rfl

theorem gKindOK_rel {g : Bool} (sim : Sim) {s s' : State} (h : Rel g s s') (k : GTrialKind) (hk : GKindOK sim s k) :
    GKindOK sim s' k := by
  cases k with
  | pos tr => exact ⟨fun r hr => by rw [← h.heap_len]; exact hk.1 r hr, posTree_rel h tr hk.2⟩
  | exch r => exact ⟨by rw [← eObj_kind (h.obj r)]; exact hk.1, hk.2.1, by rw [← h.heap_len]; exact hk.2.2⟩

theorem gHistoryOK_rel {g : Bool} (sim : Sim) (hg : g = false → sim.ens ≠ .grand) (ts : List GTrial) {s s' : State}
    (h : Rel g s s') (hok : GHistoryOK sim ts s) : GHistoryOK sim ts s' := by
  induction ts generalizing s s' with
  | nil => trivial
  | cons t ts ih =>
    rw [gHistoryOK_cons] at hok ⊢
    exact ⟨gKindOK_rel sim h t.kind hok.1,
      ih (trial_congr sim hg t.tree t.verdict (h.withInp t.inp)).2 hok.2⟩

theorem gstep_spec' (sim : Sim) (he : sim.ens = .grand) (t : GTrial) (s : State) (h : GInv sim s)
    (hok : GKindOK sim s t.kind) : GInv sim (gstep sim t s).2 := by
  refine (gstep_spec sim he t s h ?_).1
  unfold GKindOK at hok
  cases hk : t.kind <;> rw [hk] at hok <;> exact hok

theorem boundary_gstep (sim : Sim) (he : sim.ens = .grand) (t : GTrial) (s : State) (h : Boundary sim s)
    (hok : GKindOK sim s t.kind) : Boundary sim (gstep sim t s).2 :=
  ⟨trial_noPresel sim t.tree t.verdict { s with inp := t.inp } h.noPresel,
   fun _ => gstep_spec' sim he t s (h.grand he) hok, fun hne => absurd he hne⟩

theorem boundary_runG (sim : Sim) (he : sim.ens = .grand) (ts : List GTrial) (s : State) (h : Boundary sim s)
    (hok : GHistoryOK sim ts s) : Boundary sim (runG sim ts s) := by
  induction ts generalizing s with
  | nil => exact h
  | cons t ts ih =>
    rw [gHistoryOK_cons] at hok
    exact ih _ (boundary_gstep sim he t s h hok.1) hok.2

/-- **restart_continues_mm_grand**: the grand-canonical driver, any mixed history of displacement-type trials,
    insertions and deletions. -/
theorem restart_continues_mm_grand (sim : Sim) (he : sim.ens = .grand) (ts : List GTrial) (s : State)
    (h : Boundary sim s) (hok : GHistoryOK sim ts s) :
    SameRunG sim ts (persist s) s ∧ Eqv (runG sim ts (persist s)) (runG sim ts s) ∧
    GHistoryOK sim ts (persist s) ∧ Boundary sim (runG sim ts (persist s)) ∧ Boundary sim (runG sim ts s) := by
  have hrel := persist_changes_dead_only sim s h.noPresel (fun _ => (h.grand he).ctxClean)
  obtain ⟨h1, h2⟩ := sameRunG_of_rel sim (hg_decide sim) ts hrel
  have hok' := gHistoryOK_rel sim (hg_decide sim) ts hrel.symm hok
  exact ⟨h1, h2.eqv, hok', boundary_runG sim he ts _ (boundary_persist h) hok', boundary_runG sim he ts s h hok⟩

/-- any history of any trees (composite exchange moves and plain composites included) from a state without pending
    pre-selection and with empty exchange book-keeping -/
theorem restart_continues_any_grand (sim : Sim) (ts : List GTrial) (s : State) (hp : NoPresel s)
    (hc : CtxClean s.ctx) :
    SameRunG sim ts (persist s) s ∧ Eqv (runG sim ts (persist s)) (runG sim ts s) := by
  obtain ⟨h1, h2⟩ := sameRunG_of_rel sim (hg_decide sim) ts (persist_changes_dead_only sim s hp (fun _ => hc))
  exact ⟨h1, h2.eqv⟩

theorem gHistoryOK_append (sim : Sim) (pre post : List GTrial) (s : State) (h : GHistoryOK sim (pre ++ post) s) :
    GHistoryOK sim pre s ∧ GHistoryOK sim post (runG sim pre s) := by
  induction pre generalizing s with
  | nil => exact ⟨trivial, h⟩
  | cons t pre ih =>
    have h' : GHistoryOK sim (t :: (pre ++ post)) s := h
    rw [gHistoryOK_cons] at h'
    obtain ⟨i1, i2⟩ := ih _ h'.2
    exact ⟨(gHistoryOK_cons sim t pre s).mpr ⟨h'.1, i1⟩, i2⟩

/-- **restart_anywhere_mm_grand** -/
theorem restart_anywhere_mm_grand (sim : Sim) (he : sim.ens = .grand) (pre post : List GTrial) (s : State)
    (h : Boundary sim s) (hok : GHistoryOK sim (pre ++ post) s) :
    let s1 := runG sim pre s
    SameRunG sim post (persist s1) s1 ∧ Eqv (runG sim post (persist s1)) (runG sim post s1) := by
  intro s1
  obtain ⟨o1, o2⟩ := gHistoryOK_append sim pre post s hok
  have h1 : Boundary sim s1 := boundary_runG sim he pre s h o1
  obtain ⟨r1, r2, _⟩ := restart_continues_mm_grand sim he post s1 h1 o2
  exact ⟨r1, r2⟩

/-! ## 3. the two hypotheses are necessary (witnesses), and nothing else is live -/

/-- `to_displace_labels` is not stored: a pre-selection made by the user before the file is written is lost by the
    restart, and the next trial moves another particle. (A user action, not something a trial leaves behind:
    `trial_noPresel`.) -/
theorem preselection_is_not_stored :
    ∃ (sim : Sim) (s : State), sim.ens = .canonical ∧ Inv sim.ens s ∧
      (trial sim (.leaf 0) true (persist s)).2.atoms ≠ (trial sim (.leaf 0) true s).2.atoms := by
  refine ⟨{ ens := .canonical, table := [{ name := "a", oid := 0, tree := .leaf 0 }] },
    { atoms := { rows := [⟨(0,0,0), (0,0,0), [29]⟩, ⟨(2,0,0), (0,0,0), [29]⟩], cell := (9,9,9), fixed := none },
      heap := [{ kind := .disp, labels := [0, 1], toDisplace := some 1 }],
      ctx := { lastPos := [(0,0,0), (2,0,0)] },
      inp := { draws := [0], ops := [(1,1,1)], checks := [true] } }, rfl, ?_, ?_⟩
  · exact ⟨by decide, by decide, by decide, by decide, by decide⟩
  · decide

/-- in the grand-canonical driver `particle_delta` is read by `save_state`: the C03 invariant `Inv` alone (which does
    not say `particle_delta = 0`) would not do, hence `GInv` in `Boundary`. The witness is NOT a reachable boundary state
    (`GInv.delta0` holds at every boundary: `gc_mixed_history`). -/
theorem inv_alone_not_enough_grand :
    ∃ (sim : Sim) (s : State), sim.ens = .grand ∧ Inv sim.ens s ∧ NoPresel s ∧ PosTree s (.leaf 0) ∧
      (trial sim (.leaf 0) true (persist s)).2.ctx.nExch ≠ (trial sim (.leaf 0) true s).2.ctx.nExch := by
  refine ⟨{ ens := .grand, table := [{ name := "a", oid := 0, tree := .leaf 0 }] },
    { atoms := { rows := [⟨(0,0,0), (0,0,0), [29]⟩, ⟨(2,0,0), (0,0,0), [29]⟩], cell := (9,9,9), fixed := none },
      heap := [{ kind := .disp, labels := [0, 1] }],
      ctx := { lastPos := [(0,0,0), (2,0,0)], delta := 1 },
      inp := { draws := [0], ops := [(1,1,1)], checks := [true] } }, rfl, ?_, ?_, ?_, ?_⟩
  · exact ⟨by decide, by decide, by decide, by decide, by decide⟩
  · decide
  · simp only [PosTree]; decide
  · decide

/-! ## 4. non-vacuity -/

/-- canonical driver, after an accepted composite displacement trial (`exState0`, QProps/C03.lean) and with a fresh
    script: `displaced_labels` and `_moving_indices` are left over -/
def c7State : State :=
  { (trial exSim (.compDisp [0, 0]) true exState0).2 with
      inp := { draws := [1, 0], ops := [(1,0,0), (0,1,0), (0,0,1)], checks := [true, false, true] } }

example : c7State.heap.map (·.displaced) = [some 0] ∧ c7State.ctx.moving = [0] := by decide

example : Boundary exSim c7State :=
  ⟨by decide, fun he => absurd he (by decide), fun _ => ⟨by decide, by decide, by decide, by decide, by decide⟩⟩

-- the restart does change the state …
example : persist c7State ≠ c7State := by decide
-- … yet the next trial has the same outcome and the same (changed) atoms, and the final states are stored identically
example :
    (trial exSim (.compDisp [0, 0]) true (persist c7State)).1 = .accepted ∧
    (trial exSim (.compDisp [0, 0]) true c7State).1 = .accepted ∧
    (trial exSim (.compDisp [0, 0]) true (persist c7State)).2.atoms = (trial exSim (.compDisp [0, 0]) true c7State).2.atoms ∧
    (trial exSim (.compDisp [0, 0]) true c7State).2.atoms ≠ c7State.atoms ∧
    persist (trial exSim (.compDisp [0, 0]) true (persist c7State)).2 = persist (trial exSim (.compDisp [0, 0]) true c7State).2 := by
  decide

/-- a canonical history on `exSim` / `exState0`: accepted composite trial | rejected composite trial, accepted bare move -/
def c7APre : List ATrial :=
  [⟨.pos (.compDisp [0, 0]), true, { draws := [1, 0], ops := [(1,1,1), (2,0,0), (0,3,0)], checks := [false, true, true] }⟩]
def c7APost : List ATrial :=
  [⟨.pos (.compDisp [0, 0]), false, { draws := [0, 0], ops := [(1,0,0), (0,1,0)], checks := [true, true] }⟩,
   ⟨.pos (.leaf 0), true, { draws := [1], ops := [(0,0,7)], checks := [true] }⟩]

theorem exState0_boundary : Boundary exSim exState0 :=
  ⟨by decide, fun he => absurd he (by decide), fun _ => ⟨by decide, by decide, by decide, by decide, by decide⟩⟩

theorem c7A_historyOK : AHistoryOK exSim (c7APre ++ c7APost) exState0 := by
  simp only [c7APre, c7APost, List.cons_append, List.nil_append, AHistoryOK, AKindOK, PosTree]
  decide

-- the hypotheses of `restart_anywhere_mm` are satisfiable; leftovers are present at the restart point
example : persist (runA exSim c7APre exState0) ≠ runA exSim c7APre exState0 := by decide
example : SameRunA exSim c7APost (persist (runA exSim c7APre exState0)) (runA exSim c7APre exState0) ∧
    Eqv (runA exSim c7APost (persist (runA exSim c7APre exState0))) (runA exSim c7APost (runA exSim c7APre exState0)) :=
  restart_anywhere_mm exSim (by decide) (by decide) c7APre c7APost exState0 exState0_boundary c7A_historyOK

/-- a grand-canonical simulation: one exchange move, two displacement moves -/
def c7Sim : Sim := { ens := .grand, table := [{ name := "x", oid := 0, tree := .leaf 0 },
                                              { name := "d", oid := 1, tree := .leaf 1 },
                                              { name := "e", oid := 2, tree := .compDisp [2, 2] }] }
def c7G0 : State :=
  { atoms := { rows := [⟨(0,0,0), (0,0,0), [29]⟩, ⟨(2,0,0), (0,0,0), [29]⟩], cell := (9,9,9), fixed := some [1] },
    heap := [{ kind := .exch, labels := [0, 1] },
             { kind := .disp, labels := [4, -1] },
             { kind := .disp, labels := [0, 1], maxAttempts := 2 }],
    ctx := { lastPos := [(0,0,0), (2,0,0)], template := [⟨(1,1,1), (0,0,0), [1]⟩, ⟨(1,1,2), (0,0,0), [1]⟩], nExch := 2 },
    inp := {} }

/-- an accepted displacement by move 1, then a failed composite displacement by move 2 (every attempt vetoed):
    `displaced_labels = 4` is left on move 1 and `_moving_indices = [0]` in the context -/
def c7Pre : List GTrial :=
  [⟨.pos (.leaf 1), true, { draws := [0], ops := [(1,0,0)], checks := [true] }⟩,
   ⟨.pos (.compDisp [2, 2]), true, { draws := [0, 0], ops := [(5,5,5), (6,6,6), (7,7,7), (8,8,8)],
                                     checks := [false, false, false, false] }⟩]

/-- accepted insertion, rejected deletion, accepted composite displacement, accepted deletion -/
def c7Post : List GTrial :=
  [⟨.exch 0, true, { draws := [0], ops := [(1,2,3)], checks := [true] }⟩,
   ⟨.exch 0, false, { draws := [999, 1] }⟩,
   ⟨.pos (.compDisp [2, 2]), true, { draws := [0, 0], ops := [(1,0,0), (0,1,0)], checks := [true, true] }⟩,
   ⟨.exch 0, true, { draws := [999, 0] }⟩]

def c7G : State := runG c7Sim c7Pre c7G0

example : c7G.heap.map (·.displaced) = [none, some 4, none] ∧ c7G.ctx.moving = [0] ∧ persist c7G ≠ c7G := by decide

theorem c7G0_boundary : Boundary c7Sim c7G0 := by
  refine ⟨by decide, fun _ => ⟨?_, by decide, ?_, by decide⟩, fun hne => absurd rfl hne⟩
  · constructor <;> simp [c7G0, positions, FixedOK]
  · unfold LabelsAligned; decide

theorem c7_historyOK : GHistoryOK c7Sim (c7Pre ++ c7Post) c7G0 := by
  simp only [c7Pre, c7Post, List.cons_append, List.nil_append, GHistoryOK, PosTree]
  decide

-- the hypotheses of `restart_anywhere_mm_grand` are satisfiable, with leftovers present at the restart point
example : SameRunG c7Sim c7Post (persist c7G) c7G ∧ Eqv (runG c7Sim c7Post (persist c7G)) (runG c7Sim c7Post c7G) :=
  restart_anywhere_mm_grand c7Sim rfl c7Pre c7Post c7G0 c7G0_boundary c7_historyOK

-- and, computed independently: same outcomes, same atom counts 2 → 4 → 4 → 4 → 3, final states that DIFFER
-- (move 1 still remembers `displaced_labels = 4` in the uninterrupted run) but are stored identically
example :
    (gstep c7Sim c7Post[0] (persist c7G)).1 = .accepted ∧ (gstep c7Sim c7Post[0] c7G).1 = .accepted ∧
    (gstep c7Sim c7Post[0] (persist c7G)).2.atoms = (gstep c7Sim c7Post[0] c7G).2.atoms ∧
    (gstep c7Sim c7Post[0] c7G).2.atoms.rows.length = 4 ∧
    (runG c7Sim c7Post (persist c7G)).atoms = (runG c7Sim c7Post c7G).atoms ∧
    (runG c7Sim c7Post c7G).atoms.rows.length = 3 ∧
    (runG c7Sim c7Post c7G).ctx.nExch = 2 ∧
    runG c7Sim c7Post (persist c7G) ≠ runG c7Sim c7Post c7G ∧
    persist (runG c7Sim c7Post (persist c7G)) = persist (runG c7Sim c7Post c7G) := by
  decide

end MM
