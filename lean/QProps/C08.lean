import QProofs.Serial
import QGen.Classes
import QGen.Imports
/-!
# C08 — Every shipped component survives serialization with its full configuration

The quantifier "every concrete serializable class found by introspection of the package" is the table
`QGen.classes`, regenerated from the live package on every run (`harness/gen_classes.py`); the theorems over
the table are re-checked by kernel evaluation (`decide +kernel`), and lifted to **all** objects — all parameter
values, all nestings of composites — by `roundtrip_of_wf`, proved once by induction on the object tree.
The quantifier "whichever public module a fresh interpreter imports first" is `QGen.publicModules` over the
regenerated import graph.  The model mirrors the package *with* the `fix:` commits of C08/C07 applied.
-/
namespace C08
open Ser

/-- the simulation-level settings named by the property text, by setting name -/
def simLevel : List String :=
  ["temperature", "pressure", "external_stress", "chemical_potential", "number_of_exchange_particles",
   "accessible_volume", "exchange_atoms", "max_cycles", "seed", "rng_state", "step_count"]

/-- the C08 view of the table: constructor parameters, tunables, simulation-level settings -/
def table : List Spec := QGen.classes.map Spec.simView
def reg : Reg := regOf table

/-- **Round trip.** For a well-typed object tree over well-formed specs (`Obj.conf`: every class in the tree
    is `wf`, every child sits in a slot whose lookup protocol its class satisfies), for *all* values of all
    parameters and tunables and *all* nestings: rebuilding the dictionary by registered name succeeds, gives
    the same class, the same value for every parameter and tunable, and serializing again gives the identical
    dictionary. -/
theorem roundtrip_of_wf {V : Type} (reg : Reg) (scale : V → V) (dflt : Spec → Setting → V)
    (o : Obj V) (h : Obj.conf reg o = true) :
    ∃ o', fromDict reg scale dflt (toDict o) = .ok o' ∧ o'.spec = o.spec ∧
      (∀ i, o'.get i = o.get i) ∧ o'.kids = o.kids ∧ toDict o' = toDict o :=
  ⟨o, roundtrip_obj reg scale dflt o h, rfl, fun _ => rfl, rfl, rfl⟩

/-- **Every class of the package is well-formed** (C08 view): registered under its class name, every
    parameter / tunable emitted at a key path from which `from_dict` restores it, the constructor accepts
    exactly the emitted keywords, children are rebuilt under a protocol their kind satisfies.
    Regenerated table ⇒ re-proved against what the source says now. -/
theorem all_specs_wf : ∀ c ∈ table, wf reg c = true := by decide +kernel

/-- consequently: every object built from the shipped classes round-trips (the well-formedness part of
    `Obj.conf` is discharged by the table) -/
theorem roundtrip_shipped {V : Type} (scale : V → V) (dflt : Spec → Setting → V) (o : Obj V)
    (h : Obj.conf reg o = true) : fromDict reg scale dflt (toDict o) = .ok o :=
  roundtrip_obj reg scale dflt o h

/-- **Simulation-level settings.** Every driver carries seed, generator state and step counter; every
    simulation-level setting a driver has is emitted at a place its `from_dict` reads; and each of the eleven
    settings of the property text occurs in some driver of the table (the clause is not vacuous). -/
theorem settings_preserved :
    (∀ c ∈ table, c.kind = .driver →
      (∀ n ∈ ["seed", "rng_state", "step_count"], ∃ s ∈ c.settings, s.name = n) ∧
      (∀ s ∈ c.settings, s.name ∈ simLevel → s.emit ≠ [] ∧ ∀ pl ∈ s.emit, placeOk c s pl = true)) ∧
    (∀ n ∈ simLevel, ∃ c ∈ table, c.kind = .driver ∧ ∃ s ∈ c.settings, s.name = n) := by
  decide +kernel

/-- **Import order.** A fresh interpreter may import any public module of the package first. -/
theorem imports_ok :
    ∀ m ∈ QGen.publicModules, PyImp.importFirst QGen.graph (QGen.chainOf m) = .ok () := by
  decide +kernel

/-- the module id of `quansino.mc` (what a reader of a restart file imports) -/
def mcModule : Nat := QGen.moduleNames.idxOf "quansino.mc"

/-- registered names of the shipped classes that `get_class` would NOT find after a fresh interpreter imported the
    public module `m` first and then `quansino.mc` -/
def registryMissing (m : Nat) : List String :=
  let regd := (PyImp.registeredAfter QGen.graph QGen.registers (QGen.chainOf m) [QGen.chainOf mcModule]).map
    (fun i => QGen.registeredNames.getD i "")
  (QGen.classes.flatMap (·.registered)).filter (fun n => !regd.contains n)

/-- **Registry.** Whichever public module a fresh interpreter imports first, once it has imported `quansino.mc` every
    shipped class can be rebuilt by its registered name: the registration statements of all sub-packages have run. -/
theorem registry_complete : ∀ m ∈ QGen.publicModules, registryMissing m = [] := by
  decide +kernel

/-! ## non-vacuity -/

example : (QGen.classes.flatMap (·.registered)).length ≥ 20 ∧ mcModule < QGen.moduleNames.length := by decide +kernel

/-- the table is not empty and has classes of every kind -/
example : ∀ k ∈ [Kind.operation, .integrator, .criteria, .move, .storage, .driver],
    ∃ c ∈ table, c.kind = k := by decide +kernel
example : QGen.publicModules ≠ [] := by decide

/-- hand-written specs in the shape of the package's classes (independent of the generated table) -/
def ball : Spec :=
  { name := "Ball", kind := .operation, registered := ["Ball"], protos := [.operation], impl := .plain,
    ctorAccepts := ["step_size"], ctorRequired := [],
    settings := [⟨"step_size", "step_size", false, true, .id, true, [(.kwargs, "step_size")]⟩],
    slots := [], extraKwargs := [], openAttrs := false, settable := ["step_size"], mro := [] }
/-- a `Verlet` whose `to_dict` emits nothing but the name (the class before the fix) -/
def verletBare : Spec :=
  { name := "Verlet", kind := .integrator, registered := ["Verlet"], protos := [.integrator], impl := .plain,
    ctorAccepts := ["dt", "max_steps"], ctorRequired := [],
    settings := [⟨"dt", "dt", false, true, .mulFs, true, []⟩, ⟨"max_steps", "max_steps", false, true, .id, true, []⟩],
    slots := [], extraKwargs := [], openAttrs := true, settable := [], mro := [] }
def move : Spec :=
  { name := "DisplacementMove", kind := .move, registered := ["DisplacementMove"], protos := [.move], impl := .baseMove,
    ctorAccepts := ["labels", "operation", "apply_constraints"], ctorRequired := ["labels"],
    settings := [⟨"labels", "labels", false, true, .id, true, [(.kwargs, "labels")]⟩,
                 ⟨"max_attempts", "max_attempts", false, false, .id, true, [(.attributes, "max_attempts")]⟩],
    slots := [⟨"operation", .single, some .kwargs, true, [.operation, .integrator], some .operation⟩],
    extraKwargs := [], openAttrs := false, settable := ["labels", "max_attempts", "operation"], mro := [] }
def demoReg : Reg := regOf [ball, verletBare, move]

def demoObj : Obj Nat := .mk move [7, 8] (.cons "operation" "" (.mk ball [3] .nil) .nil)

example : Obj.conf demoReg demoObj = true := by decide
/-- the hypotheses of `roundtrip_of_wf` are satisfiable, and the conclusion is what evaluation gives -/
example : (fromDict demoReg (· + 1000) (fun _ _ => 0) (toDict demoObj)).toOption.map (·.vals) = some [7, 8] := by
  decide
/-- the check has teeth: the bare `Verlet` is not well-formed, and its round trip loses both parameters
    (they come back as the constructor defaults) -/
example : wf demoReg verletBare = false := by decide
example : (fromDict demoReg (· + 1000) (fun _ _ => 0) (toDict (Obj.mk verletBare [5, 6] .nil))).toOption.map (·.vals)
    = some [0, 0] := by decide
/-- an unregistered class is refused by name -/
example : (match fromDict (regOf [ball]) (· + 1000) (fun _ _ => (0 : Nat)) (toDict demoObj) with
    | .error (.unregistered n) => n == "DisplacementMove" | _ => false) = true := by decide
/-- a criteria offered where an operation is expected is refused by the typed lookup -/
example : (match fromDict demoReg (· + 1000) (fun _ _ => (0 : Nat))
      (toDict (Obj.mk move [7, 8] (.cons "operation" "" (.mk move [1, 2] .nil) .nil))) with
    | .error (.protoMismatch _ _ _) => true | _ => false) = true := by decide

/-- the import model distinguishes: a two-module cycle through `from … import` fails when entered at one end -/
def cyc : PyImp.Graph :=
  [⟨none, []⟩,                                                     -- 0: pkg
   ⟨some (0, 1), [.fromImp [0, 2] (some 2) [(11, none, 11)], .bind 10]⟩,   -- 1: pkg.a  `from pkg.b import Y; X = …`
   ⟨some (0, 2), [.fromImp [0, 1] (some 1) [(10, none, 10)], .bind 11]⟩]   -- 2: pkg.b  `from pkg.a import X; Y = …`
example : PyImp.importFirst cyc [0, 1] = .error (.importError 2 10 1) := by decide
example : PyImp.importFirst cyc [0] = .ok () := by decide

end C08
