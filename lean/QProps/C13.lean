import QProofs.FBMC
/-!
# C13 — force-bias steps are bounded and follow the published force-biased density

Model: `QModel/FBMC.lean` (`FB.gamma`, `FB.denominator`, `FB.trialProb`, `FB.P`, `FB.loop`, `FB.step`), carrier `ℝ`.
`γ = clip(F δ / 2kT)`; `P γ ζ` is the trial probability exactly as coded (sign-split form, division where the
stored denominator is non-zero, else 1); the rejection loop draws `ζ ~ U[-1,1)` and `u ~ U[0,1)` from a script
and accepts when `P γ ζ > u`.
-/
namespace FB
open Real intervalIntegral

/-- **P_eq_BalNeyts**: for `γ ≠ 0` the coded expression is the published piecewise density. -/
theorem P_eq_BalNeyts {γ : ℝ} (hγ : γ ≠ 0) (ζ : ℝ) :
    P γ ζ =
      if 0 < ζ then (exp γ - exp (γ * (2 * ζ - 1))) / (exp γ - exp (-γ))
      else if ζ < 0 then (exp (γ * (2 * ζ + 1)) - exp (-γ)) / (exp γ - exp (-γ))
      else 0 := by
  rw [P_eq_BalNeyts' hγ]; rfl

/-- **P_nonneg**: the trial probability is a probability on the sampled range … -/
theorem P_nonneg {γ ζ : ℝ} (hγ : γ ≠ 0) (h1 : -1 ≤ ζ) (h2 : ζ ≤ 1) : 0 ≤ P γ ζ := by
  rw [P_eq_BalNeyts' hγ]; exact BalNeyts_nonneg hγ h1 h2

/-- **P_le_one**: … and the envelope 1 of the rejection sampler is valid (for every `ζ`). -/
theorem P_le_one {γ : ℝ} (hγ : γ ≠ 0) (ζ : ℝ) : P γ ζ ≤ 1 := by
  rw [P_eq_BalNeyts' hγ]; exact BalNeyts_le_one hγ ζ

/-- **P_integral_one**: the coded density is normalised on `[-1,1]`, for every `γ ≠ 0` however large. -/
theorem P_integral_one {γ : ℝ} (hγ : γ ≠ 0) : ∫ ζ in (-1:ℝ)..1, P γ ζ = 1 := by
  simp_rw [P_eq_BalNeyts' hγ]; exact BalNeyts_integral_one hγ

/-- **accept_half**: a round (`ζ` uniform on `[-1,1]`, density `1/2`; envelope 1) accepts a coordinate with
    probability exactly `1/2`, whatever the force: `P(rounds > k) = 2^{-k}` per coordinate. -/
theorem accept_half {γ : ℝ} (hγ : γ ≠ 0) : ∫ ζ in (-1:ℝ)..1, P γ ζ * (1 / 2) = 1 / 2 := by
  rw [integral_mul_const, P_integral_one hγ, one_mul]

/-- **P_favours_force**: a displacement along the force is at least as probable as the opposite one. -/
theorem P_favours_force {γ ζ : ℝ} (hγ : 0 < γ) (h0 : 0 ≤ ζ) (h1 : ζ ≤ 1) : P γ (-ζ) ≤ P γ ζ := by
  rw [P_eq_BalNeyts' hγ.ne', P_eq_BalNeyts' hγ.ne']; exact BalNeyts_favours hγ h0 h1

/-- the same for a force in the negative direction -/
theorem P_favours_force_neg {γ ζ : ℝ} (hγ : γ < 0) (h0 : 0 ≤ ζ) (h1 : ζ ≤ 1) : P γ ζ ≤ P γ (-ζ) := by
  rw [P_eq_BalNeyts' hγ.ne, P_eq_BalNeyts' hγ.ne, ← BalNeyts_symm γ ζ, ← BalNeyts_symm γ (-ζ), neg_neg]
  exact BalNeyts_favours (by linarith) h0 h1

/-- **mean_zeta**: the mean reduced displacement is `(coth γ - 1/γ)/2`: odd in `γ`, the quantitative form of
    "displacement along the force is favoured, increasingly with |F|δ/2kT".
    (`mean_zeta_increasing`, `mean_zeta_odd` below.) -/
theorem mean_zeta {γ : ℝ} (hγ : γ ≠ 0) :
    ∫ ζ in (-1:ℝ)..1, ζ * P γ ζ = (cosh γ / sinh γ - 1 / γ) / 2 := by
  simp_rw [P_eq_BalNeyts' hγ]; exact BalNeyts_mean hγ

/-- **mean_zeta_increasing**: the mean displacement along the force grows strictly with `γ = |F|δ/2kT`. -/
theorem mean_zeta_increasing {γ₁ γ₂ : ℝ} (h1 : 0 < γ₁) (h : γ₁ < γ₂) :
    ∫ ζ in (-1:ℝ)..1, ζ * P γ₁ ζ < ∫ ζ in (-1:ℝ)..1, ζ * P γ₂ ζ := by
  rw [mean_zeta h1.ne', mean_zeta (h1.trans h).ne']
  have := langevin_strictMonoOn (Set.mem_Ioi.mpr h1) (Set.mem_Ioi.mpr (h1.trans h)) h
  simp only at this
  linarith

/-- reversing the force reverses the mean displacement -/
theorem mean_zeta_odd {γ : ℝ} (hγ : γ ≠ 0) :
    ∫ ζ in (-1:ℝ)..1, ζ * P (-γ) ζ = -∫ ζ in (-1:ℝ)..1, ζ * P γ ζ := by
  rw [mean_zeta hγ, mean_zeta (neg_ne_zero.mpr hγ), cosh_neg, sinh_neg]
  field_simp
  ring

/-- **gamma_zero_uniform**: at `γ = 0` (exactly zero force) the stored denominator vanishes and the model, like
    `np.divide(..., where=denominator != 0, out=ones)`, returns 1: `ζ` is uniform on `[-1,1)` — symmetric and
    bounded. -/
theorem gamma_zero_uniform (ζ : ℝ) : P 0 ζ = 1 := by
  unfold P; rw [trialProb_real, denominator_real]; simp

/-- more generally, wherever the stored denominator is zero the trial probability is 1 -/
theorem trialProb_den_zero (γ ζ : ℝ) : trialProb γ 0 ζ = 1 := by
  rw [trialProb_real]; simp

/-- **gamma_clipped**: `|γ| ≤ 709.782712` for all forces, `δ`, temperatures (also `kT = 0`), and `γ` is
    `F δ / 2kT` whenever that is within the clip. -/
theorem gamma_clipped (F δ kT : ℝ) : |gamma F δ kT| ≤ 709782712 / 1000000 := by
  have := abs_gamma_le F δ kT
  rwa [gammaMax_real] at this

theorem gamma_value {F δ kT : ℝ} (h : |F * δ / (2 * kT)| ≤ 709782712 / 1000000) :
    gamma F δ kT = F * δ / (2 * kT) := by
  apply gamma_unclipped; rwa [gammaMax_real]

/-- **disp_bound**: the Cartesian displacement applied to the positions (through `set_momenta`/`get_momenta`)
    is at most `δ (m_min/m)^p` in magnitude … -/
theorem disp_bound {ζ δ mmin m p : ℝ} (hζ : |ζ| ≤ 1) (hδ : 0 < δ) (hmin : 0 < mmin) (hm : mmin ≤ m) :
    |corrected m (displacement ζ δ mmin m p)| ≤ δ * (mmin / m) ^ p := by
  rw [corrected_real (lt_of_lt_of_le hmin hm).ne']
  exact abs_displacement_le hζ hδ hmin hm

/-- … hence at most `δ` for a non-negative mass-scaling power. -/
theorem disp_le_delta {ζ δ mmin m p : ℝ} (hζ : |ζ| ≤ 1) (hδ : 0 < δ) (hmin : 0 < mmin) (hm : mmin ≤ m)
    (hp : 0 ≤ p) : |corrected m (displacement ζ δ mmin m p)| ≤ δ := by
  calc |corrected m (displacement ζ δ mmin m p)| ≤ δ * (mmin / m) ^ p := disp_bound hζ hδ hmin hm
    _ ≤ δ * 1 := by gcongr; exact massRatio_pow_le_one hmin hm hp
    _ = δ := mul_one δ

section anycarrier
variable {α : Type} [Num α] [Ops α]

/-- **loop_terminates**: for any script `d` and any state of the loop in which every coordinate gets an accepted
    pair at some round, the loop returns (for all sufficiently large fuel, with one and the same answer), all
    coordinates accepted. `traj d n s` is the state after `n` redraw rounds in the exact draw order of the code
    (all unconverged `ζ` in array order, then all their `u`). Holds for every carrier, `Float` included. -/
theorem loop_terminates (d : Nat → α) (s : Nat × List (Coord α))
    (h : ∀ i, i < s.2.length → ∃ n, AccAt (traj d n s).2 i) :
    ∃ fuel out, (∀ extra, loop d (fuel + extra) 0 s.1 s.2 = some out) ∧ ∀ c ∈ out.1, acc c = true := by
  obtain ⟨N, hN⟩ := exists_all_acc d s h s.2.length (Nat.le_refl _)
  have hall : ∀ c ∈ (traj d N s).2, acc c = true :=
    all_acc_of_accAt _ (fun i hi => hN i (by rwa [traj_length] at hi))
  obtain ⟨out, ho⟩ := loop_of_traj d N s 0 hall
  refine ⟨N + 1, out, fun extra => loop_fuel_mono d _ _ _ _ out ho extra, ?_⟩
  exact (loop_sound (fun _ => True) d (fun _ => trivial) _ _ _ _ out (fun _ _ => trivial) ho).1

/-- the same for a whole step -/
theorem step_terminates (d : Nat → α) (kT : α) (ps : List (Par α)) (s : Sys α)
    (h : ∀ i, i < ps.length → ∃ n, AccAt (traj d n (initState d kT ps)).2 i) :
    ∃ fuel o, step d fuel kT ps s = some o := by
  obtain ⟨fuel, out, ho, _⟩ := loop_terminates d (initState d kT ps) (by rwa [initState_length])
  obtain ⟨o, h2⟩ := step_of_loop d fuel kT ps s out (by simpa using ho 0)
  exact ⟨fuel, o, h2⟩

/-- **loop_zeta_from_script**: the accepted `ζ` of every coordinate is one of the numbers the generator returned
    (any property `Q` of all script entries holds for all accepted `ζ`) and was accepted against its own `u`. -/
theorem loop_zeta_from_script (Q : α → Prop) (d : Nat → α) (hd : ∀ j, Q (d j)) (fuel : Nat) (kT : α)
    (ps : List (Par α)) (s : Sys α) (o : StepOut α) (h : step d fuel kT ps s = some o) :
    ∀ z ∈ o.zetas, Q z := by
  obtain ⟨cs, rounds, used, hl, hz, -⟩ := step_eq_some d fuel kT ps s o h
  have h0 : ∀ c ∈ (initState d kT ps).2, Q c.zeta := initCoords_inv Q d hd _ _ _
  have := (loop_sound Q d hd fuel 0 _ _ _ h0 hl).2
  intro z hzm
  rw [hz] at hzm
  obtain ⟨c, hc, e⟩ := List.mem_map.mp hzm
  rw [← e]; exact this c hc

/-- **one_position_update**: a step is a single function of the system state; it performs exactly one
    `set_positions` (the calls on `Atoms` are, in order: `get_forces, get_positions, set_momenta, get_momenta,
    set_positions, get_potential_energy`) and leaves `step_count` to the driver. -/
theorem one_position_update (d : Nat → α) (fuel : Nat) (kT : α) (ps : List (Par α)) (s : Sys α) (o : StepOut α)
    (h : step d fuel kT ps s = some o) :
    (∃ new, o.sys.trace = s.trace ++ new ∧ new.count Effect.setPositions = 1) ∧
      o.sys.stepCount = s.stepCount := by
  obtain ⟨cs, rounds, used, -, -, -, -, -, hsc, htr⟩ := step_eq_some d fuel kT ps s o h
  exact ⟨⟨_, htr, by decide⟩, hsc⟩

end anycarrier

/-- **step_zeta_bounded**: with `uniform(-1,1)` values in `[-1,1]`, every accepted `ζ` of a step is in `[-1,1]`, and
    every `γ` of the step is clipped. -/
theorem step_zeta_bounded (d : Nat → ℝ) (hd : ∀ j, |d j| ≤ 1) (fuel : Nat) (kT : ℝ) (ps : List (Par ℝ)) (s : Sys ℝ)
    (o : StepOut ℝ) (h : step d fuel kT ps s = some o) :
    (∀ z ∈ o.zetas, |z| ≤ 1) ∧ ∀ g ∈ o.gammas, |g| ≤ 709782712 / 1000000 := by
  refine ⟨loop_zeta_from_script (fun z => |z| ≤ 1) d hd fuel kT ps s o h, ?_⟩
  obtain ⟨cs, rounds, used, -, -, hg, -⟩ := step_eq_some d fuel kT ps s o h
  intro g hgm
  rw [hg] at hgm
  obtain ⟨q, -, e⟩ := List.mem_map.mp hgm
  rw [← e]; exact gamma_clipped _ _ _

/-- **step_disp_bounded**: the bound on the whole step: for positive masses and `δ`, every coordinate of the new
    positions differs from the old one by at most `δ_i (m_min/m_i)^{p_i}` (and by at most `δ_i` when `p_i ≥ 0`). -/
theorem step_disp_bounded (d : Nat → ℝ) (hd : ∀ j, |d j| ≤ 1) (fuel : Nat) (kT : ℝ) (ps : List (Par ℝ)) (s : Sys ℝ)
    (o : StepOut ℝ) (h : step d fuel kT ps s = some o)
    (hpos : ∀ q ∈ ps, 0 < q.mass ∧ 0 < q.delta)
    (i : Nat) (q : Par ℝ) (x : ℝ) (hq : ps[i]? = some q) (hx : s.positions[i]? = some x) :
    ∃ x', o.sys.positions[i]? = some x' ∧ |x' - x| ≤ q.delta * (massMin ps / q.mass) ^ q.power ∧
      (0 ≤ q.power → |x' - x| ≤ q.delta) := by
  have hzb := (step_zeta_bounded d hd fuel kT ps s o h).1
  obtain ⟨cs, rounds, used, hl, hz, -, hp, -⟩ := step_eq_some d fuel kT ps s o h
  have hlen : cs.length = ps.length := by
    have := loop_length d fuel 0 _ _ _ hl
    simpa [initState_length] using this
  have hi : i < ps.length := by
    rcases Nat.lt_or_ge i ps.length with h' | h'
    · exact h'
    · rw [List.getElem?_eq_none h'] at hq; cases hq
  have hiz : i < (cs.map (·.zeta)).length := by simpa [hlen] using hi
  have hzi : (cs.map (·.zeta))[i]? = some ((cs.map (·.zeta))[i]) := List.getElem?_eq_getElem hiz
  have hqm : q ∈ ps := List.mem_of_getElem? hq
  have hmin := massMin_pos ps (fun q hq => (hpos q hq).1)
  have hle := massMin_le ps q hqm
  have hzabs : |(cs.map (·.zeta))[i]| ≤ 1 := hzb _ (by rw [hz]; exact List.getElem_mem hiz)
  refine ⟨_, by rw [hp]; exact moved_getElem _ ps _ _ i q _ x hq hzi hx, ?_, ?_⟩
  · rw [add_sub_cancel_left]; exact disp_bound hzabs (hpos q hqm).2 hmin hle
  · intro hp0; rw [add_sub_cancel_left]; exact disp_le_delta hzabs (hpos q hqm).2 hmin hle hp0

/-! ### non-vacuity -/

example : P (1 : ℝ) (1/2) = (exp 1 - 1) / (exp 1 - exp (-1)) := by
  rw [P_eq_BalNeyts one_ne_zero]; norm_num
example : P (1 : ℝ) (-1/2) = (1 - exp (-1)) / (exp 1 - exp (-1)) := by
  rw [P_eq_BalNeyts one_ne_zero]; norm_num
example : P (1 : ℝ) 0 = 0 := by
  rw [P_eq_BalNeyts one_ne_zero]; norm_num
example : ∃ γ : ℝ, γ ≠ 0 ∧ (∫ ζ in (-1:ℝ)..1, P γ ζ) = 1 := ⟨1, one_ne_zero, P_integral_one one_ne_zero⟩
example : ∃ γ ζ : ℝ, 0 < γ ∧ 0 ≤ ζ ∧ ζ ≤ 1 ∧ P γ (-ζ) ≤ P γ ζ :=
  ⟨1, 1/2, one_pos, by norm_num, by norm_num, P_favours_force one_pos (by norm_num) (by norm_num)⟩
/-- the clip is reached: a huge force gives exactly the bound -/
example : gamma (1e12 : ℝ) 1 1 = 709782712 / 1000000 := by
  unfold gamma; rw [clip_real, gammaMax_real]; norm_num
/-- and a small one is not clipped -/
example : gamma (2 : ℝ) 1 1 = 1 := by
  rw [gamma_value] <;> norm_num
/-- the bound of `disp_bound` is attained (`ζ = 1`, equal masses) -/
example : |corrected (2 : ℝ) (displacement 1 3 2 2 (1/4))| = 3 * ((2 : ℝ) / 2) ^ ((1 : ℝ) / 4) := by
  rw [corrected_real two_ne_zero, displacement_real]; norm_num
/-- a script whose first pair is rejected and second accepted (γ = 0: P = 1 > u unless u ≥ 1): the loop needs one
    further round and returns the second `ζ` -/
example :
    (loop (fun j => ([0.3, 1, 0.7, 0.5] : List ℝ).getD j 0) 5 0 2
        [{ gamma := 0, den := 0, zeta := 0.3, u := 1 }]).map (fun o => (o.1.map (·.zeta), o.2)) =
      some ([0.7], 1, 4) := by
  simp [loop, nUnconv, acc, trialProb_real, redraw]
  norm_num

end FB
