import QProofs.Sched
import Mathlib.Order.Interval.Set.Defs
/-!
# C09 — Move scheduling honours interval, probability and minimum count

Model: `QModel/Sched.lean` (`MonteCarlo.add_move`, `yield_moves`, `step` of `src/quansino/mc/core.py`) on the random
oracle `QModel/Rng.lean`.  All theorems quantify over **every** move table (any number of moves, any names), every
cycle count, every step number and every script of draws (= every seed).  Hypotheses are the property's quantifier,
each theorem taking only the part it needs:

* intervals ≥ 1 — only for totality (`yield_total`); an interval 0 is `ZeroDivisionError` (`yield_zero_interval`);
* weights ≥ 0, not all zero among the due moves — for `zero_weight_never_free`, `free_slot_measure`, `yield_total`;
  all-zero weights make numpy's `choice` raise `ValueError` (`yield_all_zero_weights_raises`): outside the quantifier;
* Σ minimum counts ≤ cycles — for `yield_total` (otherwise numpy refuses the sample: `yield_overcommitted_raises`);
  it is what `add_move` maintains (`addMove_inv`);
* draws `0 ≤ u < 1` — the oracle assumption on `Generator.random()`.

`Nodup` of the forced slots (numpy's `replace=False`) is a hypothesis of `yield_min_count_of_distinct_slots` and a
proved property of the scripted rule in `yield_min_count`.
-/
namespace Sched
open Rng (Script)

variable {ν : Type}

/-! ### unpacking the three entry points -/

theorem yieldTrace_ok {t : Table ν} {c step : Nat} {s : Script} {tr : List (Slot ν)} {s' : Script}
    (h : yieldTrace t c step s = .ok (tr, s')) :
    ∃ out, run t c step (noop (ν := ν)) s = .ok (out, s') ∧ tr = out.map (·.1) := by
  unfold yieldTrace at h
  cases hr : run t c step (noop (ν := ν)) s with
  | error e => rw [hr] at h; cases h
  | ok p =>
    obtain ⟨out, s2⟩ := p
    simp only [hr, Except.ok.injEq, Prod.mk.injEq] at h
    obtain ⟨rfl, rfl⟩ := h
    exact ⟨out, rfl, rfl⟩

theorem yieldMoves_ok {t : Table ν} {c step : Nat} {s : Script} {names : List ν} {s' : Script}
    (h : yieldMoves t c step s = .ok (names, s')) :
    ∃ tr, yieldTrace t c step s = .ok (tr, s') ∧ names = tr.map (·.entry.name) := by
  unfold yieldMoves at h
  cases hr : yieldTrace t c step s with
  | error e => rw [hr] at h; cases h
  | ok p =>
    obtain ⟨tr, s2⟩ := p
    simp only [hr, Except.ok.injEq, Prod.mk.injEq] at h
    obtain ⟨rfl, rfl⟩ := h
    exact ⟨tr, rfl, rfl⟩

theorem step_ok {t : Table ν} {c n : Nat} {exec : ν → Script → Except Err (Option Bool × Script)} {s : Script}
    {hist : List (ν × Option Bool)} {s' : Script} (h : step t c n exec s = .ok (hist, s')) :
    ∃ out, run t c n exec s = .ok (out, s') ∧ hist = out.map (fun x => (x.1.entry.name, x.2)) := by
  unfold step at h
  cases hr : run t c n exec s with
  | error e => rw [hr] at h; cases h
  | ok p =>
    obtain ⟨out, s2⟩ := p
    simp only [hr, Except.ok.injEq, Prod.mk.injEq] at h
    obtain ⟨rfl, rfl⟩ := h
    exact ⟨out, rfl, rfl⟩

/-! ### "each step attempts exactly the configured number of cycles (none when no move is due)" -/

/-- **yield_length**: nothing due ⇒ nothing yielded; otherwise exactly `maxCycles` names. -/
theorem yield_length (t : Table ν) (c step : Nat) (s : Script) (names : List ν) (s' : Script)
    (h : yieldMoves t c step s = .ok (names, s')) :
    (dueList t step = [] → names = []) ∧ (dueList t step ≠ [] → names.length = c) := by
  obtain ⟨tr, h1, rfl⟩ := yieldMoves_ok h
  obtain ⟨out, h2, rfl⟩ := yieldTrace_ok h1
  obtain ⟨ha, hb⟩ := run_length t c step noop noop_consumes s out s' h2
  exact ⟨fun hd => by simp [ha hd], fun hd => by simp [hb hd]⟩

/-- **step_history_length**: `MonteCarlo.step` leaves exactly `maxCycles` entries in `move_history` when something
    is due and none otherwise, whatever the moves and criteria do (they may consume draws of the same stream,
    between the scheduler's own draws). -/
theorem step_history_length (t : Table ν) (c n : Nat) (exec : ν → Script → Except Err (Option Bool × Script))
    (hexec : Consumes exec) (s : Script) (hist : List (ν × Option Bool)) (s' : Script)
    (h : step t c n exec s = .ok (hist, s')) :
    (dueList t n = [] → hist = []) ∧ (dueList t n ≠ [] → hist.length = c) := by
  obtain ⟨out, h2, rfl⟩ := step_ok h
  obtain ⟨ha, hb⟩ := run_length t c n exec hexec s out s' h2
  exact ⟨fun hd => by simp [ha hd], fun hd => by simp [hb hd]⟩

/-! ### "a move is attempted only on steps that are multiples of its interval" -/

/-- **yield_due**: every yielded name is the name of a table entry whose interval divides the step number. -/
theorem yield_due (t : Table ν) (c step : Nat) (s : Script) (names : List ν) (s' : Script)
    (h : yieldMoves t c step s = .ok (names, s')) :
    ∀ nm ∈ names, ∃ e ∈ t, e.name = nm ∧ step % e.interval = 0 := by
  obtain ⟨tr, h1, rfl⟩ := yieldMoves_ok h
  obtain ⟨out, h2, rfl⟩ := yieldTrace_ok h1
  intro nm hnm
  simp only [List.map_map, List.mem_map, Function.comp] at hnm
  obtain ⟨o, ho, rfl⟩ := hnm
  obtain ⟨hm, hd⟩ := run_due t c step noop noop_consumes s out s' h2 o ho
  exact ⟨o.1.entry, hm, rfl, hd⟩

/-- the same for the names recorded by `step` -/
theorem step_due (t : Table ν) (c n : Nat) (exec : ν → Script → Except Err (Option Bool × Script))
    (hexec : Consumes exec) (s : Script) (hist : List (ν × Option Bool)) (s' : Script)
    (h : step t c n exec s = .ok (hist, s')) :
    ∀ x ∈ hist, ∃ e ∈ t, e.name = x.1 ∧ n % e.interval = 0 := by
  obtain ⟨out, h2, rfl⟩ := step_ok h
  intro x hx
  simp only [List.mem_map] at hx
  obtain ⟨o, ho, rfl⟩ := hx
  obtain ⟨hm, hd⟩ := run_due t c n exec hexec s out s' h2 o ho
  exact ⟨o.1.entry, hm, rfl, hd⟩

/-! ### "every due move is attempted at least its minimum count in that step" -/

/-- **yield_min_count_of_distinct_slots** (oracle form): whatever indices `rng.choice(arange(maxCycles),
    size=len(forced), replace=False)` returns — as long as they are pairwise distinct and below `maxCycles`, which is
    the assumption on numpy's `replace=False` — every due entry occupies at least `minCount` cycles. -/
theorem yield_min_count_of_distinct_slots [DecidableEq ν] {β : Type} (d : Table ν) (c : Nat) (slots : List Nat)
    (k : ν → Script → Except Err (β × Script)) (hk : Consumes k) (s : Script)
    (out : List (Slot ν × β)) (s' : Script) (h : fillWith d c slots k s = .ok (out, s'))
    (hnd : slots.Nodup) (hlt : ∀ i ∈ slots, i < c) :
    ∀ e ∈ d, e.minCount ≤ (out.map (·.1.entry.name)).count e.name := by
  intro e he
  have := fillWith_min_count d c slots k hk s out s' h hnd hlt (fun x => decide (x.name = e.name)) e he (by simp)
  rw [List.count_eq_countP, List.countP_map]
  rw [List.countP_map] at this
  refine Nat.le_trans this (Nat.le_of_eq ?_)
  apply List.countP_congr; intro x _; simp

/-- **yield_min_count**: each due move occurs at least `minimum_count` times among the yielded names. -/
theorem yield_min_count [DecidableEq ν] (t : Table ν) (c step : Nat) (s : Script) (names : List ν) (s' : Script)
    (h : yieldMoves t c step s = .ok (names, s')) :
    ∀ e ∈ t, step % e.interval = 0 → e.minCount ≤ names.count e.name := by
  obtain ⟨tr, h1, rfl⟩ := yieldMoves_ok h
  obtain ⟨out, h2, rfl⟩ := yieldTrace_ok h1
  intro e he hdue
  have := run_min_count t c step noop noop_consumes s out s' h2 (fun x => decide (x.name = e.name)) e he hdue
    (by simp)
  rw [List.count_eq_countP, List.map_map, List.countP_map]
  rw [List.countP_map] at this
  refine Nat.le_trans this (Nat.le_of_eq ?_)
  apply List.countP_congr; intro x _; simp

/-- the same for the moves actually run by `step` -/
theorem step_min_count [DecidableEq ν] (t : Table ν) (c n : Nat)
    (exec : ν → Script → Except Err (Option Bool × Script)) (hexec : Consumes exec) (s : Script)
    (hist : List (ν × Option Bool)) (s' : Script) (h : step t c n exec s = .ok (hist, s')) :
    ∀ e ∈ t, n % e.interval = 0 → e.minCount ≤ (hist.map (·.1)).count e.name := by
  obtain ⟨out, h2, rfl⟩ := step_ok h
  intro e he hdue
  have := run_min_count t c n exec hexec s out s' h2 (fun x => decide (x.name = e.name)) e he hdue (by simp)
  rw [List.count_eq_countP, List.map_map, List.countP_map]
  rw [List.countP_map] at this
  refine Nat.le_trans this (Nat.le_of_eq ?_)
  apply List.countP_congr; intro x _; simp

/-! ### "the remaining slots are filled … with probability proportional to the due moves' weights, so a weight-zero
      move is never chosen freely" -/

/-- **zero_weight_never_free**: a cycle that is not a forced slot never holds a weight-0 move. -/
theorem zero_weight_never_free (t : Table ν) (c step : Nat) (s : Script) (tr : List (Slot ν)) (s' : Script)
    (h : yieldTrace t c step s = .ok (tr, s'))
    (hw : ∀ e ∈ t, 0 ≤ e.weight) (hS : 0 < ((dueList t step).map (·.weight)).sum) (hu : ∀ u ∈ s, 0 ≤ u) :
    ∀ sl ∈ tr, sl.free = true → 0 < sl.entry.weight := by
  obtain ⟨out, h2, rfl⟩ := yieldTrace_ok h
  intro sl hsl hfree
  simp only [List.mem_map] at hsl
  obtain ⟨o, ho, rfl⟩ := hsl
  exact run_zero_weight t c step noop noop_consumes s out s' h2 hw hS hu o ho hfree

/-- the number of forced cycles is exactly the sum of the due minimum counts, so a weight-0 move occurs exactly
    `minCount` times when names are unique — the form in which the clause is observable on the real code -/
theorem forced_cycles_count (t : Table ν) (c step : Nat) (s : Script) (tr : List (Slot ν)) (s' : Script)
    (h : yieldTrace t c step s = .ok (tr, s')) (hd : dueList t step ≠ []) :
    (tr.filter (fun sl => !sl.free)).length = minSum (dueList t step) := by
  obtain ⟨out, h2, rfl⟩ := yieldTrace_ok h
  have := run_forced_count t c step noop noop_consumes s out s' h2 hd
  rw [List.filter_map, List.length_map]; exact this

/-- **free_slot_measure**: for weights `ws ≥ 0` with `Σ ws > 0`, the draws `u ∈ [0,1)` for which the free-slot
    choice returns index `i` form the half-open interval `[Σ_{j<i} w_j / Σw, Σ_{j≤i} w_j / Σw)`, whose length is
    `w_i / Σw`.  (Under the oracle assumption that the draws are independent and uniform on `[0,1)`, index `i` is
    therefore chosen with probability `w_i / Σw`, independently for every free cycle — see
    `free_slots_independent_draws`.) -/
theorem free_slot_measure (ws : List Rat) (i : Nat) (hw : ∀ w ∈ ws, 0 ≤ w) (hS : 0 < ws.sum) (hi : i < ws.length) :
    {u : Rat | 0 ≤ u ∧ u < 1 ∧ Rng.choicePIdx ws u = .ok i}
        = Set.Ico ((ws.take i).sum / ws.sum) ((ws.take (i + 1)).sum / ws.sum) ∧
      (ws.take (i + 1)).sum / ws.sum - (ws.take i).sum / ws.sum = ws[i] / ws.sum ∧
      0 ≤ (ws.take i).sum / ws.sum ∧ (ws.take (i + 1)).sum / ws.sum ≤ 1 := by
  have hlo : 0 ≤ (ws.take i).sum / ws.sum := div_nonneg (Rng.take_sum_nonneg ws hw i) hS.le
  have hhi : (ws.take (i + 1)).sum / ws.sum ≤ 1 := by
    rw [div_le_one hS]
    have h1 : ws.sum = (ws.take (i + 1)).sum + (ws.drop (i + 1)).sum := by
      rw [← List.sum_append, List.take_append_drop]
    have h2 : 0 ≤ (ws.drop (i + 1)).sum :=
      List.sum_nonneg (fun p h => hw p (List.mem_of_mem_drop h))
    linarith
  refine ⟨?_, Rng.choiceP_interval_length ws i hi, hlo, hhi⟩
  ext u
  simp only [Set.mem_ofPred_eq, Set.mem_Ico]
  constructor
  · rintro ⟨h0, _, h2⟩
    exact (Rng.choicePIdx_eq_iff ws u i hw hS h0 hi).mp h2
  · rintro ⟨h1, h2⟩
    have h0 : 0 ≤ u := le_trans hlo h1
    exact ⟨h0, lt_of_lt_of_le h2 hhi, (Rng.choicePIdx_eq_iff ws u i hw hS h0 hi).mpr ⟨h1, h2⟩⟩

/-- **free_slots_independent_draws**: in `list(mc.yield_moves())` the script splits as
    `sampling draws ++ free draws ++ rest`; there is exactly one free draw per free cycle, in order, and the move in
    the `j`-th free cycle is the weighted choice made from the `j`-th free draw alone.  Distinct cycles use distinct
    stream elements; their independence is the oracle assumption on the generator. -/
theorem free_slots_independent_draws (t : Table ν) (c step : Nat) (s : Script) (tr : List (Slot ν)) (s' : Script)
    (h : yieldTrace t c step s = .ok (tr, s')) (hd : dueList t step ≠ []) :
    ∃ pre free : Script, s = pre ++ free ++ s' ∧ pre.length = minSum (dueList t step) ∧
      List.Forall₂
        (fun u sl => ∃ i, Rng.choicePIdx ((dueList t step).map (·.weight)) u = .ok i ∧
          (dueList t step)[i]? = some sl.entry)
        free (tr.filter (·.free)) := by
  obtain ⟨out, h2, rfl⟩ := yieldTrace_ok h
  rcases run_ok_cases t c step noop s out s' h2 with ⟨h1, _, _⟩ | ⟨_, slots, s1, hs, hf⟩
  · exact absurd h1 hd
  · obtain ⟨_, _, _, pre, hp, hpl⟩ := Rng.sampleNoRepl_spec _ _ _ _ _ hs
    unfold fillWith at hf
    split at hf
    · cases hf
    · obtain ⟨pre2, hp2, hall⟩ := fillM_noop_draws _ _ _ _ _ _ hf
      refine ⟨pre, pre2, by rw [hp, hp2, List.append_assoc], by rw [hpl, forced_length], ?_⟩
      rw [List.filter_map]
      exact List.forall₂_map_right_iff.mpr hall

/-! ### totality: under the property's quantifier `yield_moves` does not raise, and what happens outside it -/

/-- **yield_total**: for a table with intervals ≥ 1, weights ≥ 0 not all zero among the due moves and due minimum
    counts summing to ≤ cycles, and draws in `[0,1)`, the scheduler succeeds and consumes exactly `maxCycles` draws
    (none when nothing is due). -/
theorem yield_total (t : Table ν) (c step : Nat) (s : Script)
    (hint : ∀ e ∈ t, 1 ≤ e.interval) (hw : ∀ e ∈ t, 0 ≤ e.weight)
    (hS : dueList t step ≠ [] → 0 < ((dueList t step).map (·.weight)).sum)
    (hmin : minSum (dueList t step) ≤ c) (hu : ∀ u ∈ s, 0 ≤ u ∧ u < 1) (hlen : c ≤ s.length) :
    ∃ names s', yieldMoves t c step s = .ok (names, s') ∧
      (dueList t step ≠ [] → s.length = s'.length + c) ∧ (dueList t step = [] → s' = s) := by
  obtain ⟨out, s', h⟩ := run_noop_ok t c step s hint hw hS hmin hu hlen
  refine ⟨(out.map (·.1)).map (·.entry.name), s', by simp [yieldMoves, yieldTrace, h], ?_, ?_⟩
  · exact run_noop_consumed t c step s out s' h
  · intro hd
    rcases run_ok_cases t c step noop s out s' h with ⟨_, _, h3⟩ | ⟨h1, _⟩
    · exact h3
    · exact absurd hd h1

/-! ### the default number of cycles -/

/-- **default_cycles_pos**: left at its default, the number of cycles is the number of atoms and never zero -/
theorem default_cycles_pos (n : Nat) : 0 < defaultCycles none n ∧ (0 < n → defaultCycles none n = n) := by
  simp only [defaultCycles]
  omega

/-- an explicit number of cycles is taken as given -/
theorem default_cycles_given (c n : Nat) : defaultCycles (some c) n = c := rfl

/-- **default_step_attempts_a_move**: with the default number of cycles, a step in which some move is due attempts at
    least one — for every system, the empty box of a grand-canonical run included -/
theorem default_step_attempts_a_move (t : Table ν) (n step : Nat) (s : Script) (names : List ν) (s' : Script)
    (h : yieldMoves t (defaultCycles none n) step s = .ok (names, s')) (hd : dueList t step ≠ []) :
    names ≠ [] := by
  have hl := (yield_length t _ step s names s' h).2 hd
  have hp := (default_cycles_pos n).1
  intro hn
  rw [hn] at hl
  simp at hl
  omega

/-- pinned (before the repair): starting from the empty box nothing is ever attempted, whatever is registered -/
theorem default_cycles_pinned_empty_box (t : Table ν) (step : Nat) (s : Script) (names : List ν) (s' : Script)
    (h : yieldMoves t (defaultCyclesPinned none 0) step s = .ok (names, s')) : names = [] := by
  rcases Classical.em (dueList t step = []) with hd | hd
  · exact (yield_length t _ step s names s' h).1 hd
  · have hl := (yield_length t _ step s names s' h).2 hd
    simpa [defaultCyclesPinned] using hl

/-- **weights_of_any_numeric_type**: with the array built as floats (the repaired line) the normalisation goes through
    whatever way the weights were written (`probability=1`, `1.0`, mixed) -/
theorem weights_of_any_numeric_type (ws : List PyNum) : normaliseOK true ws = true := rfl

/-- before the repair a due set whose weights were ALL written as integers raised at its first free slot -/
theorem integer_weights_raised_pinned (ws : List PyNum) (hne : ws ≠ []) (hall : ∀ w ∈ ws, w = .int) :
    normaliseOK false ws = false := by
  cases ws with
  | nil => exact absurd rfl hne
  | cons w ws =>
    simp only [normaliseOK, inplaceTrueDivOK, arrayIsFloat, Bool.false_or, List.isEmpty_cons, List.any_eq_true,
      Bool.or_eq_false_iff, true_and]
    simp only [Bool.eq_false_iff, ne_eq, List.any_eq_true, not_exists, not_and]
    intro x hx hxf
    have := hall x hx
    rw [this] at hxf
    cases hxf

/-- … and one float among them was enough to hide it (why the package's own tests, which pass `probability=1` next to
    default `1.0` weights, never saw it) -/
example : normaliseOK false [.int, .float] = true ∧ normaliseOK false [.int, .int] = false := by decide

/-- Σ of *all* minimum counts ≤ cycles (the `add_move` invariant) gives the hypothesis of `yield_total` at every step -/
theorem due_min_le_of_inv (t : Table ν) (c step : Nat) (h : minSum t ≤ c) : minSum (dueList t step) ≤ c :=
  Nat.le_trans (minSum_dueList_le t step) h

/-- an interval 0 is `ZeroDivisionError` at every step (outside the quantifier: intervals ≥ 1) -/
theorem yield_zero_interval (t : Table ν) (c step : Nat) (s : Script) (e : Entry ν) (he : e ∈ t)
    (h0 : e.interval = 0) : yieldMoves t c step s = .error .zeroDivision := by
  simp [yieldMoves, yieldTrace, run_zero_interval t c step noop s e he h0]

/-- more forced moves than cycles: numpy refuses the sample (outside the quantifier; excluded by `addMove_inv`) -/
theorem yield_overcommitted_raises (t : Table ν) (c step : Nat) (s : Script)
    (hint : ∀ e ∈ t, e.interval ≠ 0) (hd : dueList t step ≠ []) (h : c < minSum (dueList t step)) :
    yieldMoves t c step s = .error (.rng .sampleTooLarge) := by
  have h0 : t.any (fun e => e.interval == 0) = false := by
    rw [List.any_eq_false]; intro e he; simpa using hint e he
  have hd' : (dueList t step).isEmpty = false := by
    cases hh : dueList t step with
    | nil => exact absurd hh hd
    | cons _ _ => rfl
  have hs := Rng.sampleNoRepl_too_large c (forced (dueList t step)).length s (by rw [forced_length]; exact h)
  simp [yieldMoves, yieldTrace, run, h0, hd', hs]

/-- all due weights zero (sum 0) and at least one free cycle first: `0/0 = nan`, numpy's `choice` raises `ValueError`.
    This is outside the property's quantifier ("weights not all zero among due moves"); concrete witness. -/
theorem yield_all_zero_weights_raises :
    yieldMoves [(⟨0, 1, 0, 0⟩ : Entry Nat), ⟨1, 1, 0, 0⟩] 2 0 [1/2, 1/2] = .error (.rng .probNaN) := by
  decide +kernel

/-! ### "Adding a move whose minimum count would over-commit the cycles is refused" -/

/-- **addMove_refuses_overcommit**: if the current minimum counts plus the new one exceed the cycles, `add_move`
    raises and (see `addMoves`) the table is left unchanged.  In particular a single move with
    `minimum_count > max_cycles` is always refused. -/
theorem addMove_refuses_overcommit [DecidableEq ν] (t : Table ν) (c : Nat) (e : Entry ν) (crit : Bool)
    (h : c < minSum t + e.minCount) : addMove t c e crit = .error .overcommit := by
  unfold addMove; rw [if_pos h]

theorem addMove_refuses_single [DecidableEq ν] (t : Table ν) (c : Nat) (e : Entry ν) (crit : Bool)
    (h : c < e.minCount) : addMove t c e crit = .error .overcommit :=
  addMove_refuses_overcommit t c e crit (by omega)

/-- a move that fits next to **all** current moves (and has a criteria) is accepted — exact characterisation -/
theorem addMove_accepts_iff [DecidableEq ν] (t : Table ν) (c : Nat) (e : Entry ν) (crit : Bool) :
    (∃ t', addMove t c e crit = .ok t') ↔ minSum t + e.minCount ≤ c ∧ crit = true :=
  addMove_ok_iff t c e crit

/-- **addMove_inv** (one call): a successful `add_move` keeps `Σ minimum_count ≤ max_cycles`.  Precisely:
    a new name adds its count; replacing a name exchanges the old count for the new one.  Because the guard counted the
    old count as well, the new sum is ≤ `max_cycles - old count`: the guard is conservative when a move is replaced
    (`addMove_replace_conservative`), never unsafe. -/
theorem addMove_inv_step [DecidableEq ν] (t t' : Table ν) (c : Nat) (e : Entry ν) (crit : Bool)
    (h : addMove t c e crit = .ok t') :
    minSum t' ≤ c ∧
    ((∀ x ∈ t, x.name ≠ e.name) → minSum t' = minSum t + e.minCount) ∧
    (∀ old, t.find? (fun x => decide (x.name = e.name)) = some old →
        minSum t' + old.minCount = minSum t + e.minCount ∧ minSum t' + old.minCount ≤ c) := by
  obtain ⟨rfl, hle⟩ := addMove_ok_inv t t' c e crit h
  have hg : minSum t + e.minCount ≤ c := ((addMove_ok_iff t c e crit).mp ⟨_, h⟩).1
  refine ⟨hle, fun hn => minSum_upsert_new e t hn, fun old ho => ?_⟩
  have := minSum_upsert_replace e t old ho
  exact ⟨this, by omega⟩

/-- **addMove_inv**: after any sequence of `add_move` calls (refused ones raise and change nothing) starting from
    the empty table, `Σ minimum_count ≤ max_cycles`, names are unique, and therefore (`due_min_le_of_inv`) the
    forced moves fit into the cycles at every step. -/
theorem addMove_inv [DecidableEq ν] (c : Nat) (ops : List (Entry ν × Bool)) :
    minSum (addMoves c [] ops) ≤ c ∧ ((addMoves c [] ops).map (·.name)).Nodup ∧
      ∀ step, minSum (dueList (addMoves c [] ops) step) ≤ c := by
  have h := addMoves_inv c ops ([] : Table ν) (by simp [minSum])
  exact ⟨h, addMoves_nodup c ops [] (by simp), fun step => due_min_le_of_inv _ c step h⟩

/-- the guard is conservative on replacement: with 4 cycles and move 0 holding 3 of them, replacing move 0 by a
    version that needs 2 is refused (3 + 2 > 4) although the resulting table would need only 2.  The property asks
    only that over-committing additions are refused, so this is not a violation; it is recorded here so that the
    model's behaviour is explicit. -/
theorem addMove_replace_conservative :
    addMove [(⟨0, 1, 1, 3⟩ : Entry Nat)] 4 ⟨0, 1, 1, 2⟩ true = .error .overcommit ∧
    minSum (upsert (⟨0, 1, 1, 2⟩ : Entry Nat) [⟨0, 1, 1, 3⟩]) ≤ 4 := by
  decide

/-! ### non-vacuity: the hypotheses are satisfiable and the conclusions are not trivially true -/

/-- table: move 0 (every step, weight 1, twice), move 1 (every 2nd step, weight 0, once), move 2 (every 3rd step,
    weight 3); 5 cycles — the table of the probe run on the real code -/
def exTable : Table Nat := [⟨0, 1, 1, 2⟩, ⟨1, 2, 0, 1⟩, ⟨2, 3, 3, 0⟩]
def exScript : Script := [1/10, 7/10, 3/10, 9/10, 1/2, 1/4, 3/4]

example : yieldMoves exTable 5 0 exScript = .ok ([0, 1, 2, 0, 2], [1/4, 3/4]) := by decide +kernel
example : yieldMoves exTable 5 1 exScript = .ok ([0, 0, 0, 0, 0], [1/4, 3/4]) := by decide +kernel
example : (yieldTrace exTable 5 0 exScript).toOption.map (fun r => r.1.map (·.free))
    = some [false, false, true, false, true] := by decide +kernel
example : yieldMoves ([⟨0, 2, 1, 0⟩] : Table Nat) 5 1 exScript = .ok ([], exScript) := by decide +kernel
example : dueList exTable 0 ≠ [] ∧ minSum exTable ≤ 5 ∧
    0 < ((dueList exTable 0).map (·.weight)).sum ∧ (∀ u ∈ exScript, 0 ≤ u ∧ u < 1) := by decide +kernel
example : Rng.choicePIdx [1, 0, 3] (1/4) = .ok 2 ∧ Rng.choicePIdx [1, 0, 3] (249/1000) = .ok 0 := by decide +kernel
example : addMoves 5 ([] : Table Nat) [(⟨0, 1, 1, 2⟩, true), (⟨1, 2, 0, 1⟩, true), (⟨2, 3, 3, 3⟩, true)]
    = [⟨0, 1, 1, 2⟩, ⟨1, 2, 0, 1⟩] := by decide +kernel
/-- `step` with a consumer that takes one draw per move (interleaved with the scheduler's own draws) -/
def exExec : Nat → Script → Except Err (Option Bool × Script) := fun _ s =>
  match s with
  | [] => .error .move
  | u :: r => .ok (some (decide (u < 1 / 2)), r)
example : step exTable 5 0 exExec (exScript ++ [1/8, 7/8, 3/8, 5/8])
    = .ok ([(0, some false), (1, some false), (2, some false), (0, some true), (2, some true)], [5/8]) := by
  decide +kernel
example : Consumes exExec := by
  intro nm s b s' h
  cases s with
  | nil => cases h
  | cons u r => simp only [exExec, Except.ok.injEq, Prod.mk.injEq] at h; rw [← h.2]; exact List.suffix_cons _ _

end Sched
