import QProofs.Metropolis
import QProofs.Averages
import QProofs.Criteria
import QProps.C02
import QProps.C10
import QProps.C03
import QProps.C03x
import Mathlib.MeasureTheory.Measure.Lebesgue.Basic
/-!
# C01 — ensembles reproduce exact averages of solvable systems   (partial by nature)

Full-strength statement of the property (NOT a theorem here, and not provable about any executable model):

  "Long simulations reproduce the exact equilibrium statistics of analytically solvable systems: canonical runs of
   harmonically bound particles have mean potential energy (3N/2)kT, a rigid dipole in a uniform field has mean
   orientation coth(x) − 1/x; isobaric runs of an ideal gas have mean volume (N+1)kT/P; grand-canonical runs of an
   ideal gas have a Poisson particle number of mean V·exp(μ/kT)/Λ³ with uniform positions and orientations — for
   every seed and every shipped proposal."

That is a statement about the limit of an infinite Markov chain driven by a pseudo-random generator.  What is
proved is its logical core:

A. **Reversibility.**  A symmetric proposal with the acceptance `min(1, π y / π x)` (and the Hastings form for
   asymmetric proposal densities) satisfies detailed balance; on a finite state space detailed balance and "the
   rejected mass stays at `x`" make `π` stationary, for one trial and for any number of trials
   (`metropolis_detailed_balance`, `hastings_detailed_balance`, `detailed_balance_stationary`, `stationary_forever`).
B. **The acceptance exponents of the code are the log-ratios of the textbook target densities**
   (`canonical_ratio`, `hamiltonian_ratio`, `isobaric_ratio`, `gc_ratio`, `gc_pair_inverse`, `gc_detailed_balance`,
   `gc_detailed_balance_density`, `gc_poisson_ratio`) — about the *same* definitions `Crit.*Exponent`, `Crit.gcPrefactor`
   that C02 ties to `criteria.py`; and the acceptance *probability* of `_metropolis` under a uniform draw is
   `min(1, exp e)` (`accept_probability`).
C. **Wire-up** (`*_chain_stationary`): a finite-state chain whose proposal matrix is symmetric, whose acceptance is the
   model's criteria and whose rejected trials stay put keeps the textbook density stationary.  The hypothesis
   "`q` symmetric" is what `Ops.ball_symm`, `Ops.box_symm`, `Ops.sphere_symm`, `Ops.rotation_symm`,
   `Ops.translation_uniform`, `Ops.deform_symm` (C10) establish for the shipped operations; "rejected mass on the
   diagonal" is what `MM.reject_restores`, `MM.reject_restores_cell`, `MM.reject_restores_ham`,
   `MM.reject_restores_exchange` (C03) establish for the drivers.  **Lean cannot identify the Python chain (a chain on
   a continuous space driven by PCG64) with a kernel on a `Fintype`**; the identification is the modelling step, tied
   to the code by the correspondences of C02, C10, C03 and by the detailed-balance residual measured on the real
   code in `harness/props/c01.py`.  `cited_theorems_exist` makes the build fail if one of the cited theorems
   disappears.
D. **Closed-form averages of the target densities** (`gamma_mean` ⇒ `npt_mean_volume`; `dipole_mean`;
   `harmonic_mean_1d`, `equipartition_1d`, `harmonic_energy_nd` ⇒ `harmonic_energy_3N`; `poisson_of_ratio`, `gc_ideal_gas_poisson`,
   `poisson_mean`, `poisson_second_factorial_moment`).

**Not verified** (named, DESIGN §6 C01): irreducibility and aperiodicity of the chains; convergence of a finite run
and the size of its statistical error; the quality of PCG64; Haar-uniformity of the normalised Gaussian quaternion
(`Ops.rotation_symm` needs only evenness) and hence the uniformity of `cos θ` used as the reference measure of
`dipole_mean`; IEEE rounding.  The fixed-seed ensemble runs of `harness/props/c01.py` corroborate these, they do not
prove them.
-/

namespace Metro
open Real MeasureTheory Finset

/-! ## A. reversibility -/

/-- **metropolis_detailed_balance**: `q` symmetric, `a x y = min 1 (w y / w x)`, `w > 0` ⊢ the flows `x → y` and
    `y → x` are equal (any state type, finite or not) -/
theorem metropolis_detailed_balance {S : Type*} (w : S → ℝ) (q : S → S → ℝ) (hq : ∀ x y, q x y = q y x)
    (hw : ∀ x, 0 < w x) (x y : S) :
    w x * q x y * min 1 (w y / w x) = w y * q y x * min 1 (w x / w y) :=
  metropolis_flow_symm w q hq hw x y

/-- **hastings_detailed_balance**: asymmetric proposal densities `g x y ≥ 0` (zero allowed) with
    `a x y = min 1 (w y · g y x / (w x · g x y))` -/
theorem hastings_detailed_balance {S : Type*} (w : S → ℝ) (g : S → S → ℝ) (hw : ∀ x, 0 < w x)
    (hg : ∀ x y, 0 ≤ g x y) (x y : S) :
    w x * g x y * min 1 (w y * g y x / (w x * g x y))
      = w y * g y x * min 1 (w x * g x y / (w y * g y x)) :=
  hastings_flow_symm w g hw hg x y

/-- **detailed_balance_stationary**: on a `Fintype`, for the kernel `K x y = q x y · a x y` (`x ≠ y`),
    `K x x = 1 − Σ_{z≠x} q x z · a x z` (rejected mass on the diagonal), detailed balance ⊢ `Σ_x w x · K x y = w y` -/
theorem detailed_balance_stationary {S : Type*} [Fintype S] [DecidableEq S] (w : S → ℝ) (q a : S → S → ℝ)
    (hdb : ∀ x y, w x * (q x y * a x y) = w y * (q y x * a y x)) (y : S) :
    ∑ x, w x * K q a x y = w y :=
  stationary_of_detailed_balance w q a hdb y

/-- the kernel is what its docstring says -/
theorem kernel_entries {S : Type*} [Fintype S] [DecidableEq S] (q a : S → S → ℝ) (x y : S) :
    (x ≠ y → K q a x y = q x y * a x y) ∧ K q a x x = 1 - ∑ z ∈ univ.erase x, q x z * a x z :=
  ⟨fun h => K_ne q a h, K_self q a x⟩

/-- … it is a Markov matrix: rows sum to one, entries are non-negative for a (sub-)stochastic proposal and
    acceptance probabilities in `[0,1]` -/
theorem kernel_markov {S : Type*} [Fintype S] [DecidableEq S] (q a : S → S → ℝ) (hq0 : ∀ x y, 0 ≤ q x y)
    (hq1 : ∀ x, ∑ y, q x y ≤ 1) (ha0 : ∀ x y, 0 ≤ a x y) (ha1 : ∀ x y, a x y ≤ 1) (x : S) :
    ∑ y, K q a x y = 1 ∧ ∀ y, 0 ≤ K q a x y :=
  ⟨K_row_sum q a x, fun y => K_nonneg q a hq0 hq1 ha0 ha1 x y⟩

/-- **stationary_forever**: under detailed balance `w` is reproduced by any number of trials, and the kernel is
    reversible (`w x K x y = w y K y x`) -/
theorem stationary_forever {S : Type*} [Fintype S] [DecidableEq S] (w : S → ℝ) (q a : S → S → ℝ)
    (hdb : ∀ x y, w x * (q x y * a x y) = w y * (q y x * a y x)) :
    (∀ n : ℕ, (pushK (K q a))^[n] w = w) ∧ ∀ x y, w x * K q a x y = w y * K q a y x :=
  ⟨stationary_iterate (K q a) w (stationary_of_detailed_balance w q a hdb), K_reversible w q a hdb⟩

/-- Metropolis and Hastings kernels on a `Fintype` keep any positive weight function stationary -/
theorem metropolis_hastings_stationary {S : Type*} [Fintype S] [DecidableEq S] (w : S → ℝ) (hw : ∀ x, 0 < w x) (y : S) :
    (∀ q : S → S → ℝ, (∀ x y, q x y = q y x) → ∑ x, w x * K q (fun x y => min 1 (w y / w x)) x y = w y)
    ∧ (∀ g : S → S → ℝ, (∀ x y, 0 ≤ g x y) →
        ∑ x, w x * K g (fun x y => min 1 (w y * g y x / (w x * g x y))) x y = w y) := by
  constructor
  · intro q hq
    refine detailed_balance_stationary w q _ (fun x y => ?_) y
    rw [← mul_assoc, ← mul_assoc]
    exact metropolis_detailed_balance w q hq hw x y
  · intro g hg
    refine detailed_balance_stationary w g _ (fun x y => ?_) y
    rw [← mul_assoc, ← mul_assoc]
    exact hastings_detailed_balance w g hw hg x y

/-- the same two facts about the **executable** model `Metro.kernel` / `Metro.push` (QModel/Metropolis.lean) at ℝ -/
theorem model_metropolis_hastings_stationary (n : ℕ) (w : ℕ → ℝ) (hw : ∀ x, 0 < w x) {y : ℕ} (hy : y < n) :
    (∀ q : ℕ → ℕ → ℝ, (∀ x y, q x y = q y x) → push n (kernel n q (accMetropolis w)) w y = w y)
    ∧ (∀ g : ℕ → ℕ → ℝ, (∀ x y, 0 ≤ g x y) → push n (kernel n g (accHastings w g)) w y = w y) :=
  ⟨fun q hq => model_metropolis_stationary n w q hw hq hy, fun g hg => model_hastings_stationary n w g hw hg hy⟩

/-- **accept_probability**: when `context.rng.random()` is uniform on `[0,1)`, `_metropolis(rng, e)` accepts with
    probability `min(1, exp e)` — the Lebesgue measure of the accepting draws -/
theorem accept_probability (e : ℝ) :
    volume {u : ℝ | 0 ≤ u ∧ u < 1 ∧ Crit.acceptFixed u e = true} = ENNReal.ofReal (min 1 (Real.exp e)) := by
  have hset : {u : ℝ | 0 ≤ u ∧ u < 1 ∧ Crit.acceptFixed u e = true} = Set.Ico 0 (min 1 (Real.exp e)) := by
    ext u
    rw [Set.mem_Ico]
    constructor
    · rintro ⟨h0, h1, h⟩
      exact ⟨h0, (Crit.acceptFixed_iff_min u e h1).mp h⟩
    · rintro ⟨h0, h⟩
      have h1 : u < 1 := lt_of_lt_of_le h (min_le_left _ _)
      exact ⟨h0, h1, (Crit.acceptFixed_iff_min u e h1).mpr h⟩
  rw [hset, Real.volume_Ico, sub_zero]

/-! ## B. the exponents of the code are log-ratios of the textbook densities -/

/-- Boltzmann weight `exp(−E/kT)` -/
noncomputable def boltz (kT E : ℝ) : ℝ := Real.exp (-E / kT)

theorem boltz_pos (kT E : ℝ) : 0 < boltz kT E := Real.exp_pos _

/-- **canonical_ratio**: `exp(canonical exponent) = π_NVT(y) / π_NVT(x)` with `π_NVT ∝ exp(−E/kT)` -/
theorem canonical_ratio (Ex Ey kT : ℝ) :
    Real.exp (Crit.canonicalExponent (Ey - Ex) kT) = boltz kT Ey / boltz kT Ex := by
  unfold boltz
  rw [Crit.canonicalExponent_real, ← Real.exp_sub]
  congr 1; ring

/-- the same through the context / trial records that `CanonicalCriteria.evaluate` reads -/
theorem canonical_ratio_ctx (k : Crit.Consts ℝ) (c : Crit.Ctx ℝ) (t : Crit.Trial ℝ) :
    Real.exp (Crit.canonicalExp k c t)
      = boltz (c.temperature * k.kB) t.energy / boltz (c.temperature * k.kB) c.lastPotentialEnergy :=
  canonical_ratio _ _ _

/-- **hamiltonian_ratio**: the Hamiltonian criteria uses the change of the *total* energy
    `H = E_pot + E_kin`: `exp(exponent) = e^{−H(trial)/kT} / e^{−H(last)/kT}` -/
theorem hamiltonian_ratio (k : Crit.Consts ℝ) (c : Crit.Ctx ℝ) (t : Crit.Trial ℝ) :
    Real.exp (Crit.hamiltonianExp k c t)
      = boltz (c.temperature * k.kB) t.energy
        / boltz (c.temperature * k.kB) (c.lastPotentialEnergy + c.lastKineticEnergy) := by
  unfold Crit.hamiltonianExp
  rw [sub_sub]
  exact canonical_ratio _ _ _

/-- the isobaric target density **in `ln V`**: `ρ(ln V) ∝ V^(N+1) · exp(−(E + P V)/kT)` -/
noncomputable def rhoNPT (N : ℕ) (P kT V E : ℝ) : ℝ := V ^ (N + 1) * Real.exp (-(E + P * V) / kT)

theorem rhoNPT_pos (N : ℕ) (P kT V E : ℝ) (hV : 0 < V) : 0 < rhoNPT N P kT V E :=
  mul_pos (pow_pos hV _) (Real.exp_pos _)

/-- change of variables `dV = V d(ln V)`: the density in `ln V` is `V` times the density
    `V^N e^{−(E+PV)/kT}` in `V` (scaled particle coordinates) -/
theorem rhoNPT_change_of_variables (N : ℕ) (P kT V E : ℝ) :
    rhoNPT N P kT V E = V * (V ^ N * Real.exp (-(E + P * V) / kT)) := by
  unfold rhoNPT; ring

/-- **isobaric_ratio**: the model's ratio `exp(−(dE + P dV)/kT)·(V'/V)^(N+1)` is `ρ(ln V') / ρ(ln V)` -/
theorem isobaric_ratio (N : ℕ) (P kT Vx Vy Ex Ey : ℝ) (hVx : 0 < Vx) (hVy : 0 < Vy) :
    Real.exp (Crit.isobaricExponent (Ey - Ex) P Vy Vx kT N) = rhoNPT N P kT Vy Ey / rhoNPT N P kT Vx Ex := by
  rw [Crit.isobaricExponent_real, Crit.exp_add_mul_log _ _ _ (div_pos hVy hVx)]
  unfold rhoNPT
  have e : -(Ey - Ex + P * (Vy - Vx)) / kT = -(Ey + P * Vy) / kT - -(Ex + P * Vx) / kT := by ring
  rw [e, Real.exp_sub, div_pow]
  have h1 : Vx ^ (N + 1) ≠ 0 := pow_ne_zero _ hVx.ne'
  have h2 : Real.exp (-(Ex + P * Vx) / kT) ≠ 0 := (Real.exp_pos _).ne'
  field_simp

/-- the same through the records that `IsobaricCriteria.evaluate` reads (`N = len(atoms)`) -/
theorem isobaric_ratio_ctx (k : Crit.Consts ℝ) (c : Crit.Ctx ℝ) (t : Crit.Trial ℝ)
    (hV : 0 < c.lastVolume) (hV' : 0 < t.volume) :
    Real.exp (Crit.isobaricExp k c t)
      = rhoNPT t.natoms c.pressure (c.temperature * k.kB) t.volume t.energy
        / rhoNPT t.natoms c.pressure (c.temperature * k.kB) c.lastVolume c.lastPotentialEnergy :=
  isobaric_ratio _ _ _ _ _ _ _ hV hV'

/-- the volume proposal of `IsotropicDeformation` is a symmetric step in `ln V`: the deformation gradient is
    `e^x·1` with `x = U(−m, m)`, so `V' = e^{3x}·V`, and the reparametrisation `u ↦ 1 − u` of the draw (which
    preserves its law, `Ops.deform_symm`) turns `x` into `−x` -/
theorem isobaric_logvolume_step_symm (m u : ℝ) :
    (Matrix.of (Ops.iso m Ops.allTrue u)).det = Real.exp (3 * Ops.uniform (-m) m u)
    ∧ Ops.uniform (-m) m (Ops.flip u) = -Ops.uniform (-m) m u := by
  refine ⟨?_, Ops.uniform_flip m u⟩
  rw [(Ops.iso_scalar_identity m u).1, Matrix.det_smul, Matrix.det_one, mul_one, Fintype.card_fin,
    ← Real.exp_nat_mul]
  norm_num

/-- grand-canonical weight of the particle number (scaled, labelled coordinates):
    `π(N) ∝ V^N e^{(μN − E)/kT} / (Λ^{3N} N!)` -/
noncomputable def piGC (V lam mu kT : ℝ) (N : ℕ) (E : ℝ) : ℝ :=
  V ^ N * Real.exp ((mu * N - E) / kT) / (lam ^ (3 * N) * (N.factorial : ℝ))

/-- grand-canonical density of an (unordered) `N`-particle configuration w.r.t. Lebesgue measure `dr^N`:
    `ρ(N, r^N) ∝ e^{(μN − E)/kT} / Λ^{3N}` — `piGC` is this density in scaled coordinates divided by `N!` -/
noncomputable def rhoGC (lam mu kT : ℝ) (N : ℕ) (E : ℝ) : ℝ := Real.exp ((mu * N - E) / kT) / lam ^ (3 * N)

/-- acceptance ratio of the code for an insertion `N → N+1` with energy change `dE` -/
noncomputable def Ains (V lam mu kT : ℝ) (N : ℕ) (dE : ℝ) : ℝ :=
  Crit.gcPrefactor V lam N 1 * Real.exp (Crit.gcExponential dE mu kT 1)

/-- acceptance ratio of the code for a deletion `N → N−1` with energy change `dE` -/
noncomputable def Adel (V lam mu kT : ℝ) (N : ℕ) (dE : ℝ) : ℝ :=
  Crit.gcPrefactor V lam N (-1) * Real.exp (Crit.gcExponential dE mu kT (-1))

theorem Ains_closed (V lam mu kT : ℝ) (N : ℕ) (dE : ℝ) :
    Ains V lam mu kT N dE = V / (lam ^ 3 * ((N : ℝ) + 1)) * Real.exp ((mu - dE) / kT) := by
  unfold Ains; rw [Crit.gcPrefactor_insert, Crit.gcExponential_real]; simp

theorem Adel_closed (V lam mu kT : ℝ) (N : ℕ) (dE : ℝ) :
    Adel V lam mu kT N dE = lam ^ 3 * (N : ℝ) / V * Real.exp ((-mu - dE) / kT) := by
  unfold Adel; rw [Crit.gcPrefactor_delete, Crit.gcExponential_real]; simp

theorem piGC_pos (V lam mu kT : ℝ) (hV : 0 < V) (hl : 0 < lam) (N : ℕ) (E : ℝ) : 0 < piGC V lam mu kT N E := by
  unfold piGC
  have : 0 < (N.factorial : ℝ) := by exact_mod_cast Nat.factorial_pos N
  positivity

/-- **gc_pair_inverse**: `A_ins(N) · A_del(N+1) = 1` for the same pair of configurations (opposite energy change) -/
theorem gc_pair_inverse (V lam mu kT : ℝ) (hV : V ≠ 0) (hl : lam ≠ 0) (N : ℕ) (dE : ℝ) :
    Ains V lam mu kT N dE * Adel V lam mu kT (N + 1) (-dE) = 1 := by
  rw [Ains_closed, Adel_closed]
  have hN : ((N : ℝ) + 1) ≠ 0 := by positivity
  have he : Real.exp ((mu - dE) / kT) * Real.exp ((-mu - -dE) / kT) = 1 := by
    rw [← Real.exp_add]; rw [show (mu - dE) / kT + (-mu - -dE) / kT = 0 by ring]; exact Real.exp_zero
  push_cast
  calc V / (lam ^ 3 * ((N : ℝ) + 1)) * Real.exp ((mu - dE) / kT)
        * (lam ^ 3 * ((N : ℝ) + 1) / V * Real.exp ((-mu - -dE) / kT))
      = (V / (lam ^ 3 * ((N : ℝ) + 1)) * (lam ^ 3 * ((N : ℝ) + 1) / V))
        * (Real.exp ((mu - dE) / kT) * Real.exp ((-mu - -dE) / kT)) := by ring
    _ = 1 := by rw [he, mul_one]; field_simp

/-- **gc_ratio**: the insertion ratio of the code is `π(N+1) / π(N)` -/
theorem gc_ratio (V lam mu kT : ℝ) (hV : 0 < V) (hl : 0 < lam) (N : ℕ) (E E' : ℝ) :
    piGC V lam mu kT (N + 1) E' = piGC V lam mu kT N E * Ains V lam mu kT N (E' - E) := by
  rw [Ains_closed]
  unfold piGC
  have he : Real.exp ((mu * ((N + 1 : ℕ) : ℝ) - E') / kT)
      = Real.exp ((mu * (N : ℝ) - E) / kT) * Real.exp ((mu - (E' - E)) / kT) := by
    rw [← Real.exp_add]; congr 1; push_cast; ring
  have hf : ((N.factorial : ℕ) : ℝ) ≠ 0 := by exact_mod_cast Nat.factorial_ne_zero N
  have hN : ((N : ℝ) + 1) ≠ 0 := by positivity
  rw [he, Nat.factorial_succ, show 3 * (N + 1) = 3 * N + 3 by ring, pow_succ V N, pow_add lam (3 * N) 3]
  push_cast
  field_simp

/-- **gc_detailed_balance** (particle-number / scaled-coordinate form, proposals symmetric):
    `π(N)·min(1, A_ins) = π(N+1)·min(1, A_del)` for `π(N) ∝ V^N e^{(μN−E)/kT}/(Λ^{3N} N!)` -/
theorem gc_detailed_balance (V lam mu kT : ℝ) (hV : 0 < V) (hl : 0 < lam) (N : ℕ) (E E' : ℝ) :
    piGC V lam mu kT N E * min 1 (Ains V lam mu kT N (E' - E))
      = piGC V lam mu kT (N + 1) E' * min 1 (Adel V lam mu kT (N + 1) (E - E')) := by
  have ha := piGC_pos V lam mu kT hV hl N E
  have hb := piGC_pos V lam mu kT hV hl (N + 1) E'
  have hr := gc_ratio V lam mu kT hV hl N E E'
  have h1 : Ains V lam mu kT N (E' - E) = piGC V lam mu kT (N + 1) E' / piGC V lam mu kT N E := by
    rw [hr]; field_simp
  have hinv := gc_pair_inverse V lam mu kT hV.ne' hl.ne' N (E' - E)
  rw [neg_sub] at hinv
  have hAi : Ains V lam mu kT N (E' - E) ≠ 0 := by
    intro h0; rw [h0, zero_mul] at hinv; exact zero_ne_one hinv
  have h2 : Adel V lam mu kT (N + 1) (E - E') = piGC V lam mu kT N E / piGC V lam mu kT (N + 1) E' := by
    have : Adel V lam mu kT (N + 1) (E - E') = 1 / Ains V lam mu kT N (E' - E) := by
      field_simp; linarith
    rw [this, h1]; field_simp
  rw [h1, h2]
  exact min_ratio_swap _ _ ha hb

/-- **gc_detailed_balance_density** (configuration-density form with the proposal densities of the code): insertion
    = uniform position in `V` (density `1/V`), deletion = one of the `N+1` particles (probability `1/(N+1)`), both
    chosen with probability ½ (`bias_towards_insert = 0.5`, cancels):
    `ρ(N)·(1/V)·min(1, A_ins) = ρ(N+1)·(1/(N+1))·min(1, A_del)` for `ρ(N, r^N) ∝ e^{(μN−E)/kT}/Λ^{3N}`.
    (With `π(N)` in place of `ρ(N)` the identity is FALSE — `gc_mixed_form_false`; DESIGN §6 writes the mixed form.) -/
theorem gc_detailed_balance_density (V lam mu kT : ℝ) (hV : 0 < V) (hl : 0 < lam) (N : ℕ) (E E' : ℝ) :
    rhoGC lam mu kT N E * (1 / V) * min 1 (Ains V lam mu kT N (E' - E))
      = rhoGC lam mu kT (N + 1) E' * (1 / ((N : ℝ) + 1)) * min 1 (Adel V lam mu kT (N + 1) (E - E')) := by
  have h := gc_detailed_balance V lam mu kT hV hl N E E'
  have hf : (0 : ℝ) < (N.factorial : ℝ) := by exact_mod_cast Nat.factorial_pos N
  have hN : (0 : ℝ) < (N : ℝ) + 1 := by positivity
  have e1 : rhoGC lam mu kT N E * (1 / V) = piGC V lam mu kT N E * ((N.factorial : ℝ) / V ^ (N + 1)) := by
    unfold rhoGC piGC; rw [pow_succ]; field_simp
  have e2 : rhoGC lam mu kT (N + 1) E' * (1 / ((N : ℝ) + 1))
      = piGC V lam mu kT (N + 1) E' * ((N.factorial : ℝ) / V ^ (N + 1)) := by
    unfold rhoGC piGC; rw [Nat.factorial_succ]; push_cast; field_simp
  rw [e1, e2, mul_right_comm, h, mul_right_comm]

/-- the mixed form (weights with `V^N/N!` *and* the densities `1/V`, `1/(N+1)`) double-counts: witness
    `V = 2, Λ = 1, μ = 0, kT = 1, N = 0, E = E' = 0` gives `1/2 ≠ 1` -/
theorem gc_mixed_form_false :
    ¬ ∀ (V lam mu kT : ℝ) (N : ℕ) (E E' : ℝ), 0 < V → 0 < lam →
        piGC V lam mu kT N E * (1 / V) * min 1 (Ains V lam mu kT N (E' - E))
          = piGC V lam mu kT (N + 1) E' * (1 / ((N : ℝ) + 1)) * min 1 (Adel V lam mu kT (N + 1) (E - E')) := by
  intro h
  have h0 := h 2 1 0 1 0 0 0 (by norm_num) (by norm_num)
  rw [Ains_closed, Adel_closed] at h0
  unfold piGC at h0
  norm_num at h0

/-- **gc_poisson_ratio**: for `E ≡ 0`, `π(N+1) / π(N) = λ / (N+1)` with `λ = V e^{μ/kT} / Λ³` -/
theorem gc_poisson_ratio (V lam mu kT : ℝ) (hV : 0 < V) (hl : 0 < lam) (N : ℕ) :
    piGC V lam mu kT (N + 1) 0 * ((N : ℝ) + 1) = (V * Real.exp (mu / kT) / lam ^ 3) * piGC V lam mu kT N 0 := by
  rw [gc_ratio V lam mu kT hV hl N 0 0, Ains_closed]
  have hN : ((N : ℝ) + 1) ≠ 0 := by positivity
  simp only [sub_zero]
  field_simp

/-! ## C. wire-up: finite-state chains built from the model's criteria keep the textbook densities -/

/-- the theorems of C10 and C03 that discharge the hypotheses "`q` symmetric" and "a rejected trial stays at `x`"
    exist under these names (the build breaks if one of them is removed or renamed) -/
theorem cited_theorems_exist : True := by
  have _ := @Ops.ball_symm
  have _ := @Ops.box_symm
  have _ := @Ops.sphere_symm
  have _ := @Ops.rotation_symm
  have _ := @Ops.translation_uniform
  have _ := @Ops.deform_symm
  have _ := @MM.reject_restores
  have _ := @MM.reject_restores_cell
  have _ := @MM.reject_restores_ham
  have _ := @MM.reject_restores_exchange
  have _ := @Crit.accept_iff_min
  trivial

/-- **canonical_chain_stationary** (Canonical + `DisplacementMove` with Ball / Box / Sphere / Rotation /
    TranslationRotation / a composite of them).
    Hypotheses and where they come from:
    * `hq` — the proposal is symmetric: `Ops.ball_symm`, `Ops.box_symm`, `Ops.sphere_symm` (the negated displacement
      has the same density), `Ops.rotation_symm` (the inverse rotation has the same density), `Ops.translation_uniform`
      (the new centroid is uniform whatever the old one was); a sum of independent symmetric displacements is symmetric;
      the moved particle is chosen uniformly among the labels (C11/C05);
    * the acceptance entry is the *model's* exponent `Crit.canonicalExponent`, tied to `criteria.py` by C02, with
      acceptance probability `min 1 (exp ·)` by `accept_probability`;
    * the diagonal of `K` holds the rejected mass: `MM.reject_restores` (the atoms are bit-for-bit what they were).
    Conclusion: the Boltzmann weights are stationary.  With `E` := total energy `H` and `q` := momentum refresh +
    reversible volume-preserving integrator (C14) this is also the Hamiltonian move (`hamiltonian_ratio`). -/
theorem canonical_chain_stationary {S : Type*} [Fintype S] [DecidableEq S] (E : S → ℝ) (kT : ℝ)
    (q : S → S → ℝ) (hq : ∀ x y, q x y = q y x) (y : S) :
    ∑ x, boltz kT (E x) * K q (fun x y => min 1 (Real.exp (Crit.canonicalExponent (E y - E x) kT))) x y
      = boltz kT (E y) := by
  refine detailed_balance_stationary _ q _ (fun x y => ?_) y
  simp only [canonical_ratio]
  rw [← mul_assoc, ← mul_assoc]
  exact metropolis_detailed_balance (fun x => boltz kT (E x)) q hq (fun x => boltz_pos kT (E x)) x y

/-- **isobaric_chain_stationary** (Isobaric + `CellMove(IsotropicDeformation)`, `scale_atoms=True`).
    `hq` — the proposal is symmetric in `ln V`: `isobaric_logvolume_step_symm` / `Ops.deform_symm`;
    rejected mass on the diagonal: `MM.reject_restores_cell`.  Conclusion: `ρ(ln V) ∝ V^(N+1) e^{−(E+PV)/kT}` is
    stationary, i.e. `V^N e^{−(E+PV)/kT}` as a density in `V` (`rhoNPT_change_of_variables`). -/
theorem isobaric_chain_stationary {S : Type*} [Fintype S] [DecidableEq S] (N : ℕ) (P kT : ℝ) (V E : S → ℝ)
    (hV : ∀ x, 0 < V x) (q : S → S → ℝ) (hq : ∀ x y, q x y = q y x) (y : S) :
    ∑ x, rhoNPT N P kT (V x) (E x)
        * K q (fun x y => min 1 (Real.exp (Crit.isobaricExponent (E y - E x) P (V y) (V x) kT N))) x y
      = rhoNPT N P kT (V y) (E y) := by
  refine detailed_balance_stationary _ q _ (fun x y => ?_) y
  simp only [isobaric_ratio N P kT _ _ _ _ (hV _) (hV _)]
  rw [← mul_assoc, ← mul_assoc]
  exact metropolis_detailed_balance (fun x => rhoNPT N P kT (V x) (E x)) q hq
    (fun x => rhoNPT_pos N P kT _ _ (hV x)) x y

/-- the acceptance function of the grand-canonical chain on a finite skeleton: the code's insertion ratio when the
    proposed state has one particle more, its deletion ratio when it has one less -/
noncomputable def accGC (V lam mu kT : ℝ) {S : Type*} (N : S → ℕ) (E : S → ℝ) (x y : S) : ℝ :=
  if N y = N x + 1 then min 1 (Ains V lam mu kT (N x) (E y - E x))
  else if N x = N y + 1 then min 1 (Adel V lam mu kT (N x) (E y - E x))
  else 0

/-- **gc_chain_stationary** (GrandCanonical + `ExchangeMove`, unbiased insertion/deletion).
    `hq` — in scaled, labelled coordinates the proposal is symmetric: insertion = uniform point
    (`Ops.translation_uniform`) × label slot `1/(N+1)`, deletion = uniform label `1/(N+1)`, each with probability ½;
    rejected mass on the diagonal: `MM.reject_restores_exchange`.  Conclusion: `π(N) ∝ V^N e^{(μN−E)/kT}/(Λ^{3N} N!)`
    is stationary. -/
theorem gc_chain_stationary {S : Type*} [Fintype S] [DecidableEq S] (V lam mu kT : ℝ) (hV : 0 < V) (hl : 0 < lam)
    (N : S → ℕ) (E : S → ℝ) (q : S → S → ℝ) (hq : ∀ x y, q x y = q y x) (y : S) :
    ∑ x, piGC V lam mu kT (N x) (E x) * K q (accGC V lam mu kT N E) x y = piGC V lam mu kT (N y) (E y) := by
  refine detailed_balance_stationary _ q _ (fun x y => ?_) y
  rw [hq y x]
  have key : ∀ x y : S, N y = N x + 1 →
      piGC V lam mu kT (N x) (E x) * accGC V lam mu kT N E x y
        = piGC V lam mu kT (N y) (E y) * accGC V lam mu kT N E y x := by
    intro x y h
    have h' : ¬ N x = N y + 1 := by omega
    unfold accGC
    rw [if_pos h, if_neg h', if_pos h, h]
    exact gc_detailed_balance V lam mu kT hV hl (N x) (E x) (E y)
  by_cases h1 : N y = N x + 1
  · have := key x y h1
    calc _ = q x y * (piGC V lam mu kT (N x) (E x) * accGC V lam mu kT N E x y) := by ring
      _ = _ := by rw [this]; ring
  · by_cases h2 : N x = N y + 1
    · have := key y x h2
      calc _ = q x y * (piGC V lam mu kT (N x) (E x) * accGC V lam mu kT N E x y) := by ring
        _ = _ := by rw [← this]; ring
    · unfold accGC; simp [h1, h2]

/-! ## D. closed-form averages of the target densities -/

/-- **gamma_mean**: `∫₀^∞ V·V^N e^{−rV} dV / ∫₀^∞ V^N e^{−rV} dV = (N+1)/r` -/
theorem gamma_mean (N : ℕ) (r : ℝ) (hr : 0 < r) :
    (∫ V in Set.Ioi (0:ℝ), V * (V ^ N * Real.exp (-(r * V)))) / (∫ V in Set.Ioi (0:ℝ), V ^ N * Real.exp (-(r * V)))
      = ((N : ℝ) + 1) / r :=
  gamma_ratio N r hr

/-- **npt_mean_volume**: the ideal gas (`E ≡ 0`) in the isobaric ensemble, density `V^N e^{−PV/kT}` in `V`
    (`rhoNPT_change_of_variables`), has `⟨V⟩ = (N+1)·kT/P` -/
theorem npt_mean_volume (N : ℕ) (P kT : ℝ) (hP : 0 < P) (hkT : 0 < kT) :
    (∫ V in Set.Ioi (0:ℝ), V * (V ^ N * Real.exp (-(0 + P * V) / kT)))
        / (∫ V in Set.Ioi (0:ℝ), V ^ N * Real.exp (-(0 + P * V) / kT))
      = ((N : ℝ) + 1) * kT / P := by
  have e : ∀ V : ℝ, -(0 + P * V) / kT = -(P / kT * V) := fun V => by ring
  simp only [e]
  rw [gamma_ratio N (P / kT) (div_pos hP hkT)]
  field_simp

/-- **dipole_mean**: with `c = cos θ` uniform on `[−1, 1]` as reference measure and weight `e^{x c}`
    (`E = −p·E_field·cos θ`, `x = p·E_field/kT`): `⟨cos θ⟩ = coth x − 1/x` -/
theorem dipole_mean (x : ℝ) (hx : x ≠ 0) :
    (∫ c in (-1:ℝ)..1, c * Real.exp (x * c)) / (∫ c in (-1:ℝ)..1, Real.exp (x * c))
      = Real.cosh x / Real.sinh x - 1 / x :=
  dipole_ratio x hx

/-- **harmonic_mean_1d**: `∫ x² e^{−a x²} / ∫ e^{−a x²} = 1/(2a)` -/
theorem harmonic_mean_1d (a : ℝ) (ha : 0 < a) :
    (∫ x : ℝ, x ^ 2 * Real.exp (-a * x ^ 2)) / (∫ x : ℝ, Real.exp (-a * x ^ 2)) = 1 / (2 * a) :=
  gaussian_moment_ratio a ha

/-- ½kT per quadratic degree of freedom: `E = ½ k x²`, weight `e^{−E/kT}` ⊢ `⟨E⟩ = kT/2` -/
theorem equipartition_1d (k kT : ℝ) (hk : 0 < k) (hkT : 0 < kT) :
    (∫ x : ℝ, (k / 2 * x ^ 2) * Real.exp (-(k / 2 * x ^ 2) / kT)) / (∫ x : ℝ, Real.exp (-(k / 2 * x ^ 2) / kT))
      = kT / 2 := by
  have ha : 0 < k / (2 * kT) := by positivity
  have e : ∀ x : ℝ, -(k / 2 * x ^ 2) / kT = -(k / (2 * kT)) * x ^ 2 := fun x => by field_simp
  simp only [e, mul_assoc]
  rw [integral_const_mul, mul_div_assoc, gaussian_moment_ratio _ ha]
  field_simp

/-- **harmonic_energy_nd**: for the Boltzmann weight of `E(x) = Σ_i ½ k x_i²` over any finite set `ι` of
    coordinates, `⟨E⟩ = card ι · kT/2` -/
theorem harmonic_energy_nd {ι : Type*} [Fintype ι] [DecidableEq ι] (k kT : ℝ) (hk : 0 < k) (hkT : 0 < kT) :
    (∫ x : ι → ℝ, (∑ j, k / 2 * x j ^ 2) * Real.exp (-(∑ i, k / 2 * x i ^ 2) / kT))
        / (∫ x : ι → ℝ, Real.exp (-(∑ i, k / 2 * x i ^ 2) / kT))
      = (Fintype.card ι : ℝ) * kT / 2 := by
  have ha : 0 < k / (2 * kT) := by positivity
  have hw : ∀ x : ι → ℝ, Real.exp (-(∑ i, k / 2 * x i ^ 2) / kT) = ∏ i, Real.exp (-(k / (2 * kT)) * x i ^ 2) := by
    intro x
    rw [← Real.exp_sum]
    congr 1
    rw [neg_div, sum_div, ← sum_neg_distrib]
    exact sum_congr rfl (fun i _ => by field_simp)
  have hs : ∀ x : ι → ℝ, (∑ j, k / 2 * x j ^ 2) = k / 2 * ∑ j, x j ^ 2 := fun x => by rw [mul_sum]
  simp only [hw]
  simp only [hs, mul_assoc]
  rw [integral_const_mul, mul_div_assoc, gaussian_moment_ratio_nd _ ha]
  field_simp

/-- **harmonic_energy_3N**: `N` harmonically bound particles in three dimensions: `⟨E_pot⟩ = (3N/2)·kT` -/
theorem harmonic_energy_3N (N : ℕ) (k kT : ℝ) (hk : 0 < k) (hkT : 0 < kT) :
    (∫ x : Fin N × Fin 3 → ℝ, (∑ j, k / 2 * x j ^ 2) * Real.exp (-(∑ i, k / 2 * x i ^ 2) / kT))
        / (∫ x : Fin N × Fin 3 → ℝ, Real.exp (-(∑ i, k / 2 * x i ^ 2) / kT))
      = 3 * (N : ℝ) / 2 * kT := by
  rw [harmonic_energy_nd k kT hk hkT]
  simp only [Fintype.card_prod, Fintype.card_fin]
  push_cast
  ring

/-- **poisson_of_ratio**: a probability mass function on ℕ with `p(N+1)·(N+1) = λ·p(N)` is Poisson(λ) -/
theorem poisson_of_ratio (p : ℕ → ℝ) (lam : ℝ) (h : ∀ N, p (N + 1) * ((N : ℝ) + 1) = lam * p N)
    (hsum : HasSum p 1) (N : ℕ) : p N = Real.exp (-lam) * lam ^ N / (N.factorial : ℝ) :=
  poisson_of_ratio_aux p lam h hsum N

/-- **gc_ideal_gas_poisson**: the normalised grand-canonical weights of the ideal gas are Poisson with
    `λ = V e^{μ/kT}/Λ³` -/
theorem gc_ideal_gas_poisson (V lam mu kT : ℝ) (hV : 0 < V) (hl : 0 < lam) (c : ℝ) (p : ℕ → ℝ)
    (hp : ∀ N, p N = c * piGC V lam mu kT N 0) (hsum : HasSum p 1) (N : ℕ) :
    p N = Real.exp (-(V * Real.exp (mu / kT) / lam ^ 3)) * (V * Real.exp (mu / kT) / lam ^ 3) ^ N
          / (N.factorial : ℝ) := by
  refine poisson_of_ratio_aux p _ (fun n => ?_) hsum N
  rw [hp, hp, mul_assoc, gc_poisson_ratio V lam mu kT hV hl n]
  ring

/-- Poisson(λ) is a probability mass function of mean `λ` … -/
theorem poisson_mean (lam : ℝ) :
    HasSum (fun N : ℕ => Real.exp (-lam) * lam ^ N / (N.factorial : ℝ)) 1
    ∧ HasSum (fun N : ℕ => (N : ℝ) * (Real.exp (-lam) * lam ^ N / (N.factorial : ℝ))) lam :=
  ⟨poisson_hasSum_one lam, poisson_mean_hasSum lam⟩

/-- … and `E[N(N−1)] = λ²`, so the variance `E[N(N−1)] + E[N] − E[N]²` equals the mean -/
theorem poisson_second_factorial_moment (lam : ℝ) :
    HasSum (fun N : ℕ => (N : ℝ) * ((N : ℝ) - 1) * (Real.exp (-lam) * lam ^ N / (N.factorial : ℝ))) (lam ^ 2)
    ∧ lam ^ 2 + lam - lam ^ 2 = lam :=
  ⟨poisson_factorial_moment2 lam, by ring⟩

/-! ## non-vacuity -/

/-- two states of energies 0 and 1 at `kT = 1`, proposal "go to the other state": the kernel is
    `[[1 − e⁻¹, e⁻¹], [1, 0]]` and the Boltzmann weights `(1, e⁻¹)` are stationary -/
example : ∑ x : Fin 2, boltz 1 (![0, 1] x)
      * K (fun x y => if x = y then 0 else 1)
          (fun x y => min 1 (Real.exp (Crit.canonicalExponent (![0, 1] y - ![0, 1] x) 1))) x 1
    = boltz 1 1 :=
  canonical_chain_stationary ![0, 1] 1 _ (fun x y => by by_cases h : x = y <;> simp [h, eq_comm]) 1
example : (if true then (2 : ℝ) else 1) * (1 / 2) * min 1 ((if false then (2 : ℝ) else 1) / (if true then (2 : ℝ) else 1))
    = (if false then (2 : ℝ) else 1) * (1 / 2) * min 1 ((if true then (2 : ℝ) else 1) / (if false then (2 : ℝ) else 1)) :=
  metropolis_detailed_balance (S := Bool) (fun b => if b then 2 else 1) (fun _ _ => 1 / 2) (fun _ _ => rfl)
    (fun b => by cases b <;> norm_num) true false
example : (1 : ℝ) * (1 / 2) * min 1 (2 / 1) = 2 * (1 / 2) * min 1 (1 / 2) := by norm_num
example : volume {u : ℝ | 0 ≤ u ∧ u < 1 ∧ Crit.acceptFixed u 5 = true} = 1 := by
  rw [accept_probability, min_eq_left (Real.one_le_exp (by norm_num))]; simp
example : Real.exp (Crit.canonicalExponent ((3 : ℝ) - 1) 2) = boltz 2 3 / boltz 2 1 := canonical_ratio 1 3 2
example : Real.exp (Crit.isobaricExponent ((0 : ℝ) - 0) 1 2 1 1 3) = rhoNPT 3 1 1 2 0 / rhoNPT 3 1 1 1 0 :=
  isobaric_ratio 3 1 1 1 2 0 0 (by norm_num) (by norm_num)
example : rhoNPT 3 1 1 2 0 = 16 * Real.exp (-2) := by unfold rhoNPT; norm_num
example : Ains 2 1 0 1 0 0 = 2 := by rw [Ains_closed]; norm_num
example : Adel 2 1 0 1 1 0 = 1 / 2 := by rw [Adel_closed]; norm_num
example : Ains 2 1 0 1 0 0 * Adel 2 1 0 1 (0 + 1) (-0) = 1 := gc_pair_inverse 2 1 0 1 (by norm_num) (by norm_num) 0 0
example : piGC 2 1 0 1 0 0 * min 1 (Ains 2 1 0 1 0 (0 - 0)) = piGC 2 1 0 1 (0 + 1) 0 * min 1 (Adel 2 1 0 1 (0 + 1) (0 - 0)) :=
  gc_detailed_balance 2 1 0 1 (by norm_num) (by norm_num) 0 0 0
example : (∫ V in Set.Ioi (0:ℝ), V * (V ^ 7 * Real.exp (-(0 + 2 * V) / 4)))
    / (∫ V in Set.Ioi (0:ℝ), V ^ 7 * Real.exp (-(0 + 2 * V) / 4)) = 16 := by
  rw [npt_mean_volume 7 2 4 (by norm_num) (by norm_num)]; norm_num
example : (∫ c in (-1:ℝ)..1, c * Real.exp (2 * c)) / (∫ c in (-1:ℝ)..1, Real.exp (2 * c))
    = Real.cosh 2 / Real.sinh 2 - 1 / 2 := dipole_mean 2 (by norm_num)
example : (∫ x : Fin 5 × Fin 3 → ℝ, (∑ j, (2 : ℝ) / 2 * x j ^ 2) * Real.exp (-(∑ i, (2 : ℝ) / 2 * x i ^ 2) / 3))
    / (∫ x : Fin 5 × Fin 3 → ℝ, Real.exp (-(∑ i, (2 : ℝ) / 2 * x i ^ 2) / 3)) = 3 * ((5 : ℕ) : ℝ) / 2 * 3 :=
  harmonic_energy_3N 5 2 3 (by norm_num) (by norm_num)
/-- Poisson(λ) itself satisfies the hypotheses of `poisson_of_ratio` -/
example (lam : ℝ) (N : ℕ) :
    (fun N : ℕ => Real.exp (-lam) * lam ^ N / (N.factorial : ℝ)) (N + 1) * ((N : ℝ) + 1)
      = lam * (fun N : ℕ => Real.exp (-lam) * lam ^ N / (N.factorial : ℝ)) N := by
  have hf : ((N.factorial : ℕ) : ℝ) ≠ 0 := by exact_mod_cast Nat.factorial_ne_zero N
  have hN : ((N : ℝ) + 1) ≠ 0 := by positivity
  simp only [Nat.factorial_succ]
  push_cast
  field_simp
  ring

end Metro
