import QProofs.Criteria
import QProofs.CriteriaLog
/-!
# C02 — acceptance decisions equal the textbook Metropolis rule

Model: `QModel/Criteria.lean` (M-criteria), the code of `mc/criteria.py` after the two C02 fixes
(`harness/patches/C02-overflow.diff`, `harness/patches/C02-isotension-hydrostatic.diff`) and the third one
(the grand-canonical prefactor accumulated as its logarithm: `gc_log_form`, `gc_evaluate_total`, witness
`gc_product_form_overflows`).  All theorems are over `ℝ`
and quantify over every energy, volume, cell, stress tensor, chemical potential, particle number and every
uniform number `u ∈ [0,1)`.  `k : Consts ℝ` are ASE's unit constants, `c : Ctx ℝ` the context (reference
state + control parameters), `t : Trial ℝ` what the criteria reads from the trial configuration.
Hypotheses that a statement does not need (e.g. `T > 0` for the shape of the canonical rule) are not
assumed, which makes the statement stronger than the property text.

Not verified here: IEEE rounding of the exponent (the correspondence compares decisions a relative 1e-6
away from the threshold).  The strain measure of the isotension criteria is the one the code computes
(`strainM`, see `strainM_eq`: `½((h·h₀⁻¹)ᵀ − 1)`, not the Lagrangian strain) — the property text does not
pin it (DESIGN §7 row 2b).
-/
namespace Crit
open Real

/-! ## the decision rule -/

/-- **accept_iff_min**: `_metropolis` accepts exactly when `u < min(1, exp e)` -/
theorem accept_iff_min (u e : ℝ) (hu : u < 1) : acceptFixed u e = true ↔ u < min 1 (Real.exp e) :=
  acceptFixed_iff_min u e hu

/-- **favourable_accepted**: an arbitrarily favourable trial (`e ≥ 0`, however large) is accepted, for every `u` -/
theorem favourable_accepted (u e : ℝ) (he : 0 ≤ e) : acceptFixed u e = true := by
  rw [acceptFixed_true_iff]; exact Or.inl he

/-- **evaluate_total**: with `math.exp` modelled as the partial function `pyExp` (OverflowError above
    709.782712893384) the fixed rule never raises, for every exponent and every `u`, and returns `acceptFixed` -/
theorem evaluate_total (u e : ℝ) : acceptFixedE u e = .ok (acceptFixed u e) := by
  unfold acceptFixedE acceptFixed
  simp only [Num.real_zero, Num.real_exp]
  by_cases h : (0 : ℝ) ≤ e
  · rw [if_pos h, if_pos h]
  · have h' : e ≤ expMax := le_of_lt (lt_trans (lt_of_not_ge h) expMax_pos)
    rw [if_neg h, if_neg h, pyExp_ok_of_le e h']

/-- the code before the fix raises on every exponent above 709.782712893384 … -/
theorem raw_overflows (u e : ℝ) (h : expMax < e) : acceptRaw u e = .error .overflow := by
  unfold acceptRaw; rw [pyExp_error_of_gt e h]

/-- … so "favourable trials are accepted and never raise" is FALSE of the unfixed rule: negation by the
    witness `dE = −1 eV`, `T = 1 K` (exponent `1/kB ≈ 11604`), `u = 0.5` -/
theorem raw_not_total :
    ¬ ∀ (u dE kT : ℝ), 0 ≤ u → u < 1 → dE ≤ 0 → 0 < kT → acceptRaw u (canonicalExponent dE kT) = .ok true := by
  intro h
  have h1 := h (1 / 2) (-1) (8617333262 / 100000000000000) (by norm_num) (by norm_num) (by norm_num) (by norm_num)
  have h2 : expMax < canonicalExponent (-1 : ℝ) (8617333262 / 100000000000000) := by
    rw [expMax_real, canonicalExponent_real]; norm_num
  rw [raw_overflows _ _ h2] at h1
  cases h1

/-- **fixed_agrees_when_no_overflow**: wherever the old code did not raise it took the same decision -/
theorem fixed_agrees_when_no_overflow (u e : ℝ) (hu : u < 1) (he : e ≤ expMax) :
    acceptRaw u e = .ok (acceptFixed u e) := by
  unfold acceptRaw acceptFixed
  rw [pyExp_ok_of_le e he]
  simp only [Num.real_zero, Num.real_exp]
  by_cases h : (0 : ℝ) ≤ e
  · have : u < Real.exp e := lt_of_lt_of_le hu (Real.one_le_exp h)
    rw [if_pos h]; simp [this]
  · rw [if_neg h]

/-! ## canonical and Hamiltonian -/

/-- **canonical_textbook**: accepted iff `u < min(1, exp(−dE/kT))`, `dE = E(trial) − E(last accepted)` -/
theorem canonical_textbook (k : Consts ℝ) (c : Ctx ℝ) (t : Trial ℝ) (u : ℝ) (hu : u < 1) :
    canonicalEvaluate k c t u = true
      ↔ u < min 1 (Real.exp (-(t.energy - c.lastPotentialEnergy) / (k.kB * c.temperature))) := by
  unfold canonicalEvaluate canonicalExp
  rw [accept_iff_min _ _ hu, canonicalExponent_real, mul_comm]

/-- **hamiltonian_textbook**: the same with the change of the *total* energy
    `E_tot(trial) − E_pot(last) − E_kin(last)` -/
theorem hamiltonian_textbook (k : Consts ℝ) (c : Ctx ℝ) (t : Trial ℝ) (u : ℝ) (hu : u < 1) :
    hamiltonianEvaluate k c t u = true
      ↔ u < min 1 (Real.exp (-(t.energy - (c.lastPotentialEnergy + c.lastKineticEnergy))
                                / (k.kB * c.temperature))) := by
  unfold hamiltonianEvaluate hamiltonianExp
  rw [accept_iff_min _ _ hu, canonicalExponent_real, mul_comm, sub_sub]

/-! ## isobaric and isotension -/

/-- **isobaric_textbook**: accepted iff `u < min(1, exp(−(dE + P·ΔV)/kT)·(V'/V)^(N+1))` -/
theorem isobaric_textbook (k : Consts ℝ) (c : Ctx ℝ) (t : Trial ℝ) (u : ℝ) (hu : u < 1)
    (hV : 0 < c.lastVolume) (hV' : 0 < t.volume) :
    isobaricEvaluate k c t u = true
      ↔ u < min 1 (Real.exp (-((t.energy - c.lastPotentialEnergy) + c.pressure * (t.volume - c.lastVolume))
                                / (k.kB * c.temperature))
                    * (t.volume / c.lastVolume) ^ (t.natoms + 1)) := by
  unfold isobaricEvaluate isobaricExp
  rw [accept_iff_min _ _ hu, isobaricExponent_real, exp_add_mul_log _ _ _ (div_pos hV' hV), mul_comm k.kB]

/-- **isotension_textbook**: the isobaric ratio with the external-stress work `V₀·tr((S − P·1)·ε)` added,
    `ε = strainM cell lastCell` the strain matrix the code computes -/
theorem isotension_textbook (k : Consts ℝ) (c : Ctx ℝ) (t : Trial ℝ) (u : ℝ) (hu : u < 1)
    (hV : 0 < c.lastVolume) (hV' : 0 < t.volume) (hcell : Mat3.det c.lastCell ≠ 0) :
    isotensionEvaluate k c t u = true
      ↔ u < min 1 (Real.exp (-((t.energy - c.lastPotentialEnergy) + c.pressure * (t.volume - c.lastVolume)
                                  + c.lastVolume * Matrix.trace
                                      ((c.externalStress.toM - c.pressure • (1 : Matrix (Fin 3) (Fin 3) ℝ))
                                        * strainM t.cell.toM c.lastCell.toM))
                                / (k.kB * c.temperature))
                    * (t.volume / c.lastVolume) ^ (t.natoms + 1)) := by
  unfold isotensionEvaluate isotensionExp
  rw [accept_iff_min _ _ hu, isotensionExponent_real, exp_add_mul_log _ _ _ (div_pos hV' hV),
    isotensionElastic_toM, codedStrain_toM _ _ hcell, mul_comm k.kB, ← add_assoc]

/-- **isotension_hydrostatic**: for a purely hydrostatic stress `S = P·1` the isotension criteria *is* the
    isobaric criteria — same exponent, same decision for every `u`, every cell (sheared or not), every strain -/
theorem isotension_hydrostatic (k : Consts ℝ) (c : Ctx ℝ) (t : Trial ℝ)
    (hS : c.externalStress = Mat3.smul c.pressure Mat3.eye) :
    isotensionExp k c t = isobaricExp k c t ∧ ∀ u, isotensionEvaluate k c t u = isobaricEvaluate k c t u := by
  have e : isotensionExp k c t = isobaricExp k c t := by
    unfold isotensionExp isobaricExp isotensionExponent isobaricExponent
    rw [hS, isotensionElastic_hydrostatic]
  exact ⟨e, fun u => by unfold isotensionEvaluate isobaricEvaluate; rw [e]⟩

/-- the code before the fix (`external_stress - pressure`, scalar broadcast) does NOT have that property:
    witness `P = 1`, `S = 1`, a strain with one off-diagonal entry -/
theorem unfixed_hydrostatic_differs :
    ¬ ∀ (P Vn Vo : ℝ) (strain : Mat3 ℝ),
        isotensionElasticUnfixed P Vn Vo (Mat3.smul P Mat3.eye) strain = P * (Vn - Vo) := by
  intro h
  have := h 1 1 1 ⟨0, 1, 0, 0, 0, 0, 0, 0, 0⟩
  simp [isotensionElasticUnfixed, Mat3.trace, Mat3.mul, Mat3.subScalar, Mat3.smul, Mat3.eye] at this

/-! ## grand canonical -/

/-- **gc_prefactor_closed**: the two `for` loops give `N!/(N+δ)!` for every integer `δ` with `N + δ ≥ 0` -/
theorem gc_prefactor_closed (N : ℕ) (δ : ℤ) (h : 0 ≤ (N : ℤ) + δ) :
    (factorialTerm N δ : ℝ) = (N.factorial : ℝ) / ((((N : ℤ) + δ).toNat).factorial : ℝ) :=
  factorialTerm_closed N δ h

/-- **debroglie_def**: the coded wavelength is `h/√(2π·m·kT)` in Å (`m = mass·10⁻³/N_A` kg, `kT = kB·T·e` J) -/
theorem debroglie_def (k : Consts ℝ) (mass T : ℝ) (hh : 0 ≤ k.hplanck) :
    deBroglie k mass T
      = k.hplanck / Real.sqrt (2 * Real.pi * (mass * (1 / 1000) / k.nav) * (k.kB * T * k.e)) * 10000000000 := by
  rw [deBroglie_real, Real.sqrt_div (sq_nonneg _), Real.sqrt_sq hh]
  congr 3
  ring

/-- **gc_log_form**: the code accumulates the prefactor as a logarithm; for positive volume, temperature, mass and
    constants its decision is the decision of the product form `V^δ·N!/(N+δ)!·Λ^(−3δ)`, for every `δ`, `N`, `μ`, energy, `u` -/
theorem gc_log_form (k : Consts ℝ) (c : Ctx ℝ) (t : Trial ℝ) (u : ℝ) (hp : GcPos k c) :
    gcEvaluate k c t u = gcEvaluateProd k c t u := gcEvaluate_eq_prod k c t u hp

/-- the grand-canonical decision for any `δ`: `u < min(1, V^δ·fact·Λ^(−3δ)·exp((δμ − dE)/kT))` -/
theorem gc_general (k : Consts ℝ) (c : Ctx ℝ) (t : Trial ℝ) (u : ℝ) (hu0 : 0 ≤ u) (hu1 : u < 1) (hp : GcPos k c) :
    gcEvaluate k c t u = true
      ↔ u < min 1 (c.accessibleVolume ^ c.particleDelta * factorialTerm c.nExchange c.particleDelta
                    * (deBroglie k c.exchangeMass c.temperature) ^ (-3 * c.particleDelta)
                    * Real.exp (((c.particleDelta : ℝ) * c.chemicalPotential - (t.energy - c.lastPotentialEnergy))
                                / (k.kB * c.temperature))) := by
  rw [gc_log_form k c t u hp]
  unfold gcEvaluateProd
  rw [gcAcceptFixed_iff _ _ _ hu0 hu1]
  unfold gcPref gcExpo gcPrefactor
  rw [ipow_real, ipow_real, gcExponential_real, mul_comm k.kB]

/-- **gc_insert_textbook** (`δ = +1`): accepted iff `u < min(1, V/(Λ³(N+1))·exp((μ − dE)/kT))` -/
theorem gc_insert_textbook (k : Consts ℝ) (c : Ctx ℝ) (t : Trial ℝ) (u : ℝ) (hu0 : 0 ≤ u) (hu1 : u < 1)
    (hp : GcPos k c) (hδ : c.particleDelta = 1) :
    gcEvaluate k c t u = true
      ↔ u < min 1 (c.accessibleVolume
                      / ((deBroglie k c.exchangeMass c.temperature) ^ 3 * ((c.nExchange : ℝ) + 1))
                    * Real.exp ((c.chemicalPotential - (t.energy - c.lastPotentialEnergy))
                                / (k.kB * c.temperature))) := by
  rw [gc_log_form k c t u hp]
  unfold gcEvaluateProd
  rw [gcAcceptFixed_iff _ _ _ hu0 hu1]
  unfold gcPref gcExpo
  rw [hδ, gcPrefactor_insert, gcExponential_real, mul_comm k.kB]
  simp

/-- **gc_delete_textbook** (`δ = −1`): accepted iff `u < min(1, Λ³N/V·exp((−μ − dE)/kT))`; in particular a deletion
    from an empty reservoir (`N = 0`) is never accepted -/
theorem gc_delete_textbook (k : Consts ℝ) (c : Ctx ℝ) (t : Trial ℝ) (u : ℝ) (hu0 : 0 ≤ u) (hu1 : u < 1)
    (hp : GcPos k c) (hδ : c.particleDelta = -1) :
    gcEvaluate k c t u = true
      ↔ u < min 1 ((deBroglie k c.exchangeMass c.temperature) ^ 3 * (c.nExchange : ℝ) / c.accessibleVolume
                    * Real.exp ((-c.chemicalPotential - (t.energy - c.lastPotentialEnergy))
                                / (k.kB * c.temperature))) := by
  rw [gc_log_form k c t u hp]
  unfold gcEvaluateProd
  rw [gcAcceptFixed_iff _ _ _ hu0 hu1]
  unfold gcPref gcExpo
  rw [hδ, gcPrefactor_delete, gcExponential_real, mul_comm k.kB]
  simp

/-- **evaluate_total** for the grand-canonical rule: for positive volume, temperature, mass and constants none of the
    `math.log` calls and no `math.exp` can raise, for every `δ`, `N`, `μ`, energy and `u` — the code contains no `**` on
    the trial data any more -/
theorem gc_evaluate_total (k : Consts ℝ) (c : Ctx ℝ) (t : Trial ℝ) (u : ℝ) (hp : GcPos k c) :
    gcEvaluateE k c t u = .ok (gcEvaluate k c t u) := by
  have hp' := Real.pi_pos
  have hq : 0 < Num.npow k.hplanck 2 / (Num.two * Num.pi * c.exchangeMass * k.kB / k.nav * milli * k.e) := by
    have h1 := hp.h; have h2 := hp.kB; have h3 := hp.nav; have h4 := hp.e; have h5 := hp.mass
    simp only [Num.real_npow, Num.real_two, Num.real_pi, milli_real]
    positivity
  have hmass : ¬ ¬ (Num.zero : ℝ) < c.exchangeMass := by simpa using hp.mass
  unfold gcEvaluateE gcEvaluate
  rw [if_neg hmass, if_neg hmass, pyLog_ok _ hp.V, pyLog_ok _ hp.T, pyLog_ok _ hq]
  cases gcLogPref k c with
  | none => rfl
  | some lp => exact evaluate_total u _

/-- the product form (the code before this repair, first repair included) as Python executes it: `x ** k` raises
    `OverflowError` when the power leaves the double range — for `Λ**(-3δ)` that happens at perfectly finite log A -/
noncomputable def gcProdPrefactorE (V lam : ℝ) (N : ℕ) (δ : ℤ) : Except PyErr ℝ :=
  match pyIPow V δ, pyIPow lam (-3 * δ) with
  | .ok v, .ok l => .ok (v * factorialTerm N δ * l)
  | .error e, _ => .error e
  | _, .error e => .error e

/-- **gc_product_form_overflows**: whenever `Λ^(−3δ)` exceeds the largest double the product form raised, whatever the
    exponential (which could have brought the ratio back to any size) — the defect the log form repairs -/
theorem gc_product_form_overflows (V lam : ℝ) (N : ℕ) (δ : ℤ) (hV : V ^ δ ≤ floatMax) (h : floatMax < lam ^ (-3 * δ)) :
    gcProdPrefactorE V lam N δ = .error .overflow := by
  unfold gcProdPrefactorE
  rw [pyIPow_error_of_gt lam _ h]
  unfold pyIPow
  rw [ipow_real, if_neg (not_lt.mpr hV)]

/-- the grand-canonical rule before the first fix raised whenever `exponential > 709.78…`, even when the prefactor
    makes the ratio tiny (a trial that must be *rejected* with high probability raised instead) -/
theorem gc_raw_overflows (u pref expo : ℝ) (h : expMax < expo) : gcAcceptRaw u pref expo = .error .overflow := by
  unfold gcAcceptRaw; rw [pyExp_error_of_gt expo h]

/-- removing more particles than the reservoir holds is never accepted (no positivity needed) -/
theorem gc_overdelete_rejected (k : Consts ℝ) (c : Ctx ℝ) (t : Trial ℝ) (u : ℝ)
    (h : (c.nExchange : ℤ) + c.particleDelta < 0) : gcEvaluate k c t u = false := by
  unfold gcEvaluate gcLogPref
  rw [gcLogPrefactor_none _ _ _ _ h]
  split <;> rfl

/-- **gc_no_species_rejected**: with no exchange species configured (`GrandCanonical`'s default: mass 0) no exchange trial is
    ever accepted, and nothing raises — for every carrier, by the branch the code takes. Before the repair the wavelength of a
    massless particle was `inf`, `log_prefactor = +inf` for a deletion, and EVERY deletion was accepted (the hypothesis
    `GcPos.mass` of the textbook theorems had excluded the point; over the reals Lean's `x / 0 = 0` hid it) -/
theorem gc_no_species_rejected {α : Type} [Num α] [DecidableRel (α := α) (· < ·)] [DecidableRel (α := α) (· ≤ ·)]
    (k : Consts α) (c : Ctx α) (t : Trial α) (u : α) (h : ¬ (Num.zero : α) < c.exchangeMass) :
    gcEvaluate k c t u = false ∧ gcEvaluateE k c t u = .ok false := by
  unfold gcEvaluate gcEvaluateE
  simp [h]

/-! ## parameters changed on the simulation object apply to the next trial -/

/-- **setter_next_trial** (temperature; every criteria reads `context.temperature`) -/
theorem setter_next_trial_temperature (k : Consts ℝ) (c : Ctx ℝ) (t : Trial ℝ) (u T' : ℝ) (hu : u < 1) :
    canonicalEvaluate k (c.setTemperature T') t u = true
      ↔ u < min 1 (Real.exp (-(t.energy - c.lastPotentialEnergy) / (k.kB * T'))) :=
  canonical_textbook k (c.setTemperature T') t u hu

/-- **setter_next_trial** (pressure) -/
theorem setter_next_trial_pressure (k : Consts ℝ) (c : Ctx ℝ) (t : Trial ℝ) (u P' : ℝ) (hu : u < 1)
    (hV : 0 < c.lastVolume) (hV' : 0 < t.volume) :
    isobaricEvaluate k (c.setPressure P') t u = true
      ↔ u < min 1 (Real.exp (-((t.energy - c.lastPotentialEnergy) + P' * (t.volume - c.lastVolume))
                                / (k.kB * c.temperature))
                    * (t.volume / c.lastVolume) ^ (t.natoms + 1)) :=
  isobaric_textbook k (c.setPressure P') t u hu hV hV'

/-- **setter_next_trial** (external stress) -/
theorem setter_next_trial_external_stress (k : Consts ℝ) (c : Ctx ℝ) (t : Trial ℝ) (u : ℝ) (S' : Mat3 ℝ)
    (hu : u < 1) (hV : 0 < c.lastVolume) (hV' : 0 < t.volume) (hcell : Mat3.det c.lastCell ≠ 0) :
    isotensionEvaluate k (c.setExternalStress S') t u = true
      ↔ u < min 1 (Real.exp (-((t.energy - c.lastPotentialEnergy) + c.pressure * (t.volume - c.lastVolume)
                                  + c.lastVolume * Matrix.trace
                                      ((S'.toM - c.pressure • (1 : Matrix (Fin 3) (Fin 3) ℝ))
                                        * strainM t.cell.toM c.lastCell.toM))
                                / (k.kB * c.temperature))
                    * (t.volume / c.lastVolume) ^ (t.natoms + 1)) :=
  isotension_textbook k (c.setExternalStress S') t u hu hV hV' hcell

/-- **setter_next_trial** (chemical potential, insertion) -/
theorem setter_next_trial_chemical_potential (k : Consts ℝ) (c : Ctx ℝ) (t : Trial ℝ) (u mu' : ℝ)
    (hu0 : 0 ≤ u) (hu1 : u < 1) (hp : GcPos k c) (hδ : c.particleDelta = 1) :
    gcEvaluate k (c.setChemicalPotential mu') t u = true
      ↔ u < min 1 (c.accessibleVolume
                      / ((deBroglie k c.exchangeMass c.temperature) ^ 3 * ((c.nExchange : ℝ) + 1))
                    * Real.exp ((mu' - (t.energy - c.lastPotentialEnergy)) / (k.kB * c.temperature))) :=
  gc_insert_textbook k (c.setChemicalPotential mu') t u hu0 hu1 ⟨hp.h, hp.kB, hp.nav, hp.e, hp.mass, hp.T, hp.V⟩ hδ

/-- a setter changes the one field it names and nothing else the criteria reads -/
theorem setter_frame (c : Ctx ℝ) (T P mu V : ℝ) (S : Mat3 ℝ) (N : ℕ) :
    (c.setTemperature T).temperature = T ∧ (c.setPressure P).pressure = P
    ∧ (c.setExternalStress S).externalStress = S ∧ (c.setChemicalPotential mu).chemicalPotential = mu
    ∧ (c.setAccessibleVolume V).accessibleVolume = V ∧ (c.setNExchange N).nExchange = N
    ∧ (c.setTemperature T).lastPotentialEnergy = c.lastPotentialEnergy
    ∧ (c.setPressure P).temperature = c.temperature
    ∧ (c.setExternalStress S).pressure = c.pressure
    ∧ (c.setChemicalPotential mu).temperature = c.temperature :=
  ⟨rfl, rfl, rfl, rfl, rfl, rfl, rfl, rfl, rfl, rfl⟩

/-! ## non-vacuity: a sheared cell, N = 3, dE = −2 eV, T = 1 K (exponent ≈ 23 000 ≫ 709) -/

/-- ASE's constants (CODATA 2014 values, as rationals) -/
noncomputable def kEx : Consts ℝ := ⟨8.617330337217213e-05, 6.62607004e-34, 6.022140857e+23, 1.6021766208e-19⟩

/-- a sheared reference cell and a sheared trial cell -/
noncomputable def cEx : Ctx ℝ :=
  { temperature := 1, lastPotentialEnergy := 0, lastKineticEnergy := 0, pressure := 1 / 10,
    externalStress := Mat3.smul (1 / 10) Mat3.eye,
    lastCell := ⟨4, 0, 0, 1, 4, 0, 0, 1 / 2, 4⟩, lastVolume := 64,
    chemicalPotential := -1 / 10, accessibleVolume := 64, exchangeMass := 40, nExchange := 3, particleDelta := 1 }

noncomputable def tEx : Trial ℝ := { energy := -2, cell := ⟨4, 0, 0, 1, 4, 0, 1 / 2, 1 / 2, 4⟩, volume := 64, natoms := 3 }

theorem ex_exponent_large : expMax < canonicalExp kEx cEx tEx := by
  simp only [canonicalExp, canonicalExponent_real, expMax_real, kEx, cEx, tEx]
  norm_num

/-- the hypotheses of the textbook theorems are satisfiable and the trial is accepted, at an exponent where
    the unfixed code raised -/
example : canonicalEvaluate kEx cEx tEx (1 / 2) = true ∧ acceptRaw (1 / 2) (canonicalExp kEx cEx tEx) = .error .overflow :=
  ⟨favourable_accepted _ _ (le_of_lt (lt_trans expMax_pos ex_exponent_large)), raw_overflows _ _ ex_exponent_large⟩

example : (canonicalEvaluate kEx cEx tEx (1 / 2) = true
    ↔ (1 / 2 : ℝ) < min 1 (Real.exp (-(tEx.energy - cEx.lastPotentialEnergy) / (kEx.kB * cEx.temperature)))) :=
  canonical_textbook kEx cEx tEx _ (by norm_num)

example :=
  hamiltonian_textbook kEx cEx tEx (1 / 2) (by norm_num)

example : Mat3.det cEx.lastCell ≠ 0 ∧ 0 < cEx.lastVolume ∧ 0 < tEx.volume := by
  simp only [cEx, tEx, Mat3.det]; norm_num

example :=
  isobaric_textbook kEx cEx tEx (1 / 2) (by norm_num) (by simp only [cEx]; norm_num) (by simp only [tEx]; norm_num)

example :=
  isotension_textbook kEx cEx tEx (1 / 2) (by norm_num) (by simp only [cEx]; norm_num)
    (by simp only [tEx]; norm_num) (by simp only [cEx, Mat3.det]; norm_num)

example : ∀ u, isotensionEvaluate kEx cEx tEx u = isobaricEvaluate kEx cEx tEx u :=
  (isotension_hydrostatic kEx cEx tEx rfl).2

example : (factorialTerm 3 (-2) : ℝ) = 6 ∧ (factorialTerm 3 2 : ℝ) = 1 / 20 := by
  constructor
  · rw [gc_prefactor_closed 3 (-2) (by norm_num)]
    have : (((3 : ℕ) : ℤ) + (-2)).toNat = 1 := rfl
    rw [this]; norm_num [Nat.factorial]
  · rw [gc_prefactor_closed 3 2 (by norm_num)]
    have : (((3 : ℕ) : ℤ) + 2).toNat = 5 := rfl
    rw [this]; norm_num [Nat.factorial]

/-- the positivity hypotheses are satisfiable (ASE's constants, argon, 1 K, 64 Å³) -/
theorem exPos : GcPos kEx cEx :=
  ⟨by simp only [kEx]; norm_num, by simp only [kEx]; norm_num, by simp only [kEx]; norm_num, by simp only [kEx]; norm_num,
   by simp only [cEx]; norm_num, by simp only [cEx]; norm_num, by simp only [cEx]; norm_num⟩

theorem exPos' : GcPos kEx { cEx with particleDelta := -1 } :=
  ⟨exPos.h, exPos.kB, exPos.nav, exPos.e, exPos.mass, exPos.T, exPos.V⟩

example :=
  gc_insert_textbook kEx cEx tEx (1 / 2) (by norm_num) (by norm_num) exPos rfl

example :=
  gc_delete_textbook kEx { cEx with particleDelta := -1 } tEx (1 / 2) (by norm_num) (by norm_num) exPos' rfl

example : gcEvaluateE kEx cEx tEx (1 / 2) = .ok (gcEvaluate kEx cEx tEx (1 / 2)) := gc_evaluate_total _ _ _ _ exPos

theorem floatMax_gt_one : (1 : ℝ) < floatMax := by
  rw [floatMax_real]
  have h1 : (1 : ℝ) ≤ 2 ^ 1023 := one_le_pow₀ (by norm_num)
  have h2 : (1 : ℝ) < 2 - 1 / 2 ^ 52 := by norm_num
  calc (1 : ℝ) < (2 - 1 / 2 ^ 52) * 1 := by linarith
    _ ≤ (2 - 1 / 2 ^ 52) * 2 ^ 1023 := mul_le_mul_of_nonneg_left h1 (by linarith)

/-- the product form raised for an insertion at a wavelength of `1/floatMax` Å (a very high temperature): `Λ⁻³ = floatMax³`,
    although `V·Λ⁻³/(N+1)·exp((μ − dE)/kT)` can be any size -/
example : gcProdPrefactorE 1 (1 / floatMax) 3 1 = .error .overflow := by
  have h := floatMax_gt_one
  have hpos : (0 : ℝ) < floatMax := by linarith
  apply gc_product_form_overflows
  · simpa using h.le
  · have e : ((1 / floatMax : ℝ)) ^ (-3 * (1 : ℤ)) = floatMax ^ 3 := by
      rw [show (-3 * (1 : ℤ)) = -((3 : ℕ) : ℤ) by norm_num, zpow_neg, zpow_natCast, one_div, inv_pow, inv_inv]
    rw [e]
    nlinarith [mul_pos hpos hpos]

example : gcEvaluate kEx { cEx with particleDelta := -5 } tEx (1 / 2) = false :=
  gc_overdelete_rejected _ _ _ _ (by simp [cEx])

example : 0 < deBroglie kEx 40 1 :=
  deBroglie_pos kEx 40 1 (by simp only [kEx]; norm_num) (by simp only [kEx]; norm_num)
    (by simp only [kEx]; norm_num) (by simp only [kEx]; norm_num) (by norm_num) (by norm_num)

example : acceptFixedE (1 / 2 : ℝ) (canonicalExp kEx cEx tEx) = .ok true := by
  rw [evaluate_total]
  exact congrArg _ (favourable_accepted _ _ (le_of_lt (lt_trans expMax_pos ex_exponent_large)))

example : acceptRaw (1 / 2 : ℝ) (-3 : ℝ) = .ok (acceptFixed (1 / 2 : ℝ) (-3 : ℝ)) :=
  fixed_agrees_when_no_overflow (1 / 2 : ℝ) (-3 : ℝ) (by norm_num)
    (le_of_lt (lt_trans (by norm_num : (-3 : ℝ) < 0) expMax_pos))

end Crit
