import QProofs.Adaptive
/-!
# C18 — the adaptive force-bias step length stays in range and shrinks with uncertainty

Model: `QModel/Adaptive.lean` (`AFB.update`, `AFB.adapted`, `AFB.adaptedList`, `AFB.forcesVariationCoef`,
`AFB.energyVariationCoef`, `AFB.updateDelta`), instantiated at `ℝ`. Every theorem holds for **both** update
functions (`u : UpdateFn` is universally quantified), for all `min_delta ≤ max_delta`, all reference variances
`> 0` and all variances `≥ 0` (unbounded real quantifiers).

Not covered by the theorems (named in DESIGN §6 C18): IEEE rounding at the anchors. A coordinate on which every
committee member predicts exactly zero force has variation coefficient `0/0` (`zero_force_coordinate` below):
`0` in `ℝ` (Mathlib's `x / 0 = 0`), `nan` in Python and in the `Float` instance; the property text quantifies
over *finite* committee variances, so that input is outside the property.
-/
namespace AFB
open Filter Topology

/-- the midpoint `(min_delta + max_delta) / 2` -/
noncomputable def midpoint (dmin dmax : ℝ) : ℝ := (dmin + dmax) / 2

/-- no committee data for the scheme in use: `atoms.calc is None` (`AttributeError`) or the key is missing from
    `calc.results` (`KeyError`) -/
def NoCommittee {α : Type} (s : Scheme) : Option (Results α) → Prop
  | none => True
  | some r =>
    match s with
    | .forces => r.forcesComm = none
    | .energy => r.energies = none

/-! ## scalar variance -/

/-- **update_range**: both update functions map non-negative variances into `(0, 1]` -/
theorem update_range (u : UpdateFn) (ref v : ℝ) (hr : 0 < ref) (hv : 0 ≤ v) :
    0 < update u ref v ∧ update u ref v ≤ 1 :=
  ⟨update_pos u ref v, update_le_one u hr hv⟩

/-- **delta_range**: the adapted delta lies in `[min_delta, max_delta]` -/
theorem delta_range (u : UpdateFn) (dmin dmax ref v : ℝ) (hm : dmin ≤ dmax) (hr : 0 < ref) (hv : 0 ≤ v) :
    dmin ≤ adapted u dmin dmax ref v ∧ adapted u dmin dmax ref v ≤ dmax := by
  obtain ⟨h0, h1⟩ := update_range u ref v hr hv
  rw [adapted_real]
  have hd : 0 ≤ dmax - dmin := by linarith
  constructor
  · nlinarith [mul_nonneg hd h0.le]
  · nlinarith [mul_le_mul_of_nonneg_left h1 hd]

/-- with a non-degenerate range the lower end is never reached at a finite variance -/
theorem delta_gt_min (u : UpdateFn) (dmin dmax ref v : ℝ) (hm : dmin < dmax) :
    dmin < adapted u dmin dmax ref v := by
  rw [adapted_real]
  have := mul_pos (by linarith : 0 < dmax - dmin) (update_pos u ref v)
  linarith

/-- **delta_at_zero**: zero variance gives `max_delta` -/
theorem delta_at_zero (u : UpdateFn) (dmin dmax ref : ℝ) : adapted u dmin dmax ref 0 = dmax := by
  rw [adapted_real, update_zero]; ring

/-- **delta_at_ref**: the reference variance gives the midpoint
    (`tanh(atanh ½) = ½` — `tanh_half_log_three`; `exp(-log 2) = ½` — `exp_neg_log_two`) -/
theorem delta_at_ref (u : UpdateFn) (dmin dmax ref : ℝ) (hr : ref ≠ 0) :
    adapted u dmin dmax ref ref = midpoint dmin dmax := by
  rw [adapted_real, update_ref u hr, midpoint]; ring

/-- **delta_antitone**: the adapted delta never increases when the variance increases -/
theorem delta_antitone (u : UpdateFn) (dmin dmax ref : ℝ) (hm : dmin ≤ dmax) (hr : 0 < ref) :
    Antitone (adapted u dmin dmax ref) := by
  intro v w h
  rw [adapted_real, adapted_real]
  have := mul_le_mul_of_nonneg_left (update_antitone u hr h) (by linarith : 0 ≤ dmax - dmin)
  linarith

/-- with a non-degenerate range it strictly decreases -/
theorem delta_strictAnti (u : UpdateFn) (dmin dmax ref : ℝ) (hm : dmin < dmax) (hr : 0 < ref) :
    StrictAnti (adapted u dmin dmax ref) := by
  intro v w h
  rw [adapted_real, adapted_real]
  have := mul_lt_mul_of_pos_left (update_strictAnti u hr h) (by linarith : 0 < dmax - dmin)
  linarith

/-- **delta_tendsto_min**: the adapted delta tends to `min_delta` as the variance grows without bound -/
theorem delta_tendsto_min (u : UpdateFn) (dmin dmax ref : ℝ) (hr : 0 < ref) :
    Tendsto (adapted u dmin dmax ref) atTop (𝓝 dmin) := by
  have h : Tendsto (fun v => dmin + (dmax - dmin) * update u ref v) atTop (𝓝 (dmin + (dmax - dmin) * 0)) :=
    tendsto_const_nhds.add (tendsto_const_nhds.mul (update_tendsto u hr))
  rw [mul_zero, add_zero] at h
  exact h

/-! ## per-coordinate variance (the `forces` scheme): pointwise application -/

/-- the per-coordinate delta is the scalar rule applied to each coordinate -/
theorem coordwise_get (u : UpdateFn) (dmin dmax ref : ℝ) (vs : List ℝ) (i : ℕ) :
    (adaptedList u dmin dmax ref vs)[i]? = (vs[i]?).map (adapted u dmin dmax ref) := by
  simp [adaptedList]

theorem coordwise_length (u : UpdateFn) (dmin dmax ref : ℝ) (vs : List ℝ) :
    (adaptedList u dmin dmax ref vs).length = vs.length := by
  simp [adaptedList]

/-- **delta_range**, per coordinate -/
theorem coordwise_range (u : UpdateFn) (dmin dmax ref : ℝ) (vs : List ℝ) (hm : dmin ≤ dmax) (hr : 0 < ref)
    (hv : ∀ v ∈ vs, 0 ≤ v) : ∀ d ∈ adaptedList u dmin dmax ref vs, dmin ≤ d ∧ d ≤ dmax := by
  intro d hd
  obtain ⟨v, hvm, rfl⟩ := List.mem_map.mp hd
  exact delta_range u dmin dmax ref v hm hr (hv v hvm)

/-- **delta_at_zero** / **delta_at_ref**, per coordinate -/
theorem coordwise_at_zero (u : UpdateFn) (dmin dmax ref : ℝ) (n : ℕ) :
    adaptedList u dmin dmax ref (List.replicate n 0) = List.replicate n dmax := by
  simp [adaptedList, delta_at_zero]

theorem coordwise_at_ref (u : UpdateFn) (dmin dmax ref : ℝ) (hr : ref ≠ 0) (n : ℕ) :
    adaptedList u dmin dmax ref (List.replicate n ref) = List.replicate n (midpoint dmin dmax) := by
  simp [adaptedList, delta_at_ref u dmin dmax ref hr]

/-- **delta_antitone**, per coordinate: if no coordinate's variance decreases, no coordinate's delta increases -/
theorem coordwise_antitone (u : UpdateFn) (dmin dmax ref : ℝ) (hm : dmin ≤ dmax) (hr : 0 < ref)
    (vs ws : List ℝ) (h : List.Forall₂ (· ≤ ·) vs ws) :
    List.Forall₂ (· ≥ ·) (adaptedList u dmin dmax ref vs) (adaptedList u dmin dmax ref ws) := by
  induction h with
  | nil => exact List.Forall₂.nil
  | cons hab _ ih => exact List.Forall₂.cons (delta_antitone u dmin dmax ref hm hr hab) ih

/-- **delta_tendsto_min**, per coordinate: coordinate `i` of the delta array, as a function of coordinate `i`'s
    variance (all other coordinates arbitrary and fixed), tends to `min_delta` -/
theorem coordwise_tendsto_min (u : UpdateFn) (dmin dmax ref : ℝ) (hr : 0 < ref) (pre post : List ℝ) :
    Tendsto (fun v => (adaptedList u dmin dmax ref (pre ++ v :: post))[pre.length]?.getD 0) atTop (𝓝 dmin) := by
  have e : (fun v => (adaptedList u dmin dmax ref (pre ++ v :: post))[pre.length]?.getD 0)
      = adapted u dmin dmax ref := by
    funext v; simp [adaptedList]
  rw [e]; exact delta_tendsto_min u dmin dmax ref hr

/-! ## what the getters return meets the hypotheses; `update_delta` end to end -/

/-- the variation coefficient returned by either getter is non-negative in every entry, for **any** calculator
    state (any committee size, any committee data, data or no data) -/
theorem variationCoef_nonneg [∀ a b : ℝ, Decidable (a < b)] (cfg : Config ℝ) (hr : 0 ≤ cfg.ref) (natoms : ℕ)
    (clc : Option (Results ℝ)) : (variationCoef cfg natoms clc).All (fun v => 0 ≤ v) := by
  unfold variationCoef
  split
  · exact forcesVariationCoef_nonneg cfg.ref hr natoms clc
  · exact energyVariationCoef_nonneg cfg.ref hr natoms clc

/-- what the energy getter computes from committee energies `es`: their population standard deviation
    (`ddof = 0`; numpy's pairwise summation order is immaterial over `ℝ`) divided by the number of atoms -/
theorem energy_coef_eq (ref : ℝ) (natoms : ℕ) (r : Results ℝ) (es : List ℝ) (h : r.energies = some es) :
    energyVariationCoef ref natoms (some r) =
      Real.sqrt ((es.map (fun x => (x - es.sum / (es.length : ℝ)) * (x - es.sum / (es.length : ℝ)))).sum
        / (es.length : ℝ)) / (natoms : ℝ) := by
  simp [energyVariationCoef, h, std1_real]

/-- what the forces getter computes on one coordinate from the members' values `col`: population standard
    deviation over the mean absolute value -/
theorem forces_coef_eq [∀ a b : ℝ, Decidable (a < b)] (col : List ℝ) :
    coefOfColumn col =
      Real.sqrt ((col.map (fun x => (x - col.sum / (col.length : ℝ)) * (x - col.sum / (col.length : ℝ)))).sum
        / (col.length : ℝ)) / ((col.map (fun x => |x|)).sum / (col.length : ℝ)) := by
  rw [coefOfColumn_eq_raw, coefOfColumnRaw, std_real, meanAbs_real, mean_real]

/-- **zero_force_coordinate_max_delta**: on a coordinate where every committee member gives exactly zero force the
    coefficient is 0 — by the branch the code takes, for every carrier (no appeal to `0/0`) -/
theorem zero_force_coefficient {α : Type} [Num α] [∀ a b : α, Decidable (a < b)] (col : List α)
    (h : ¬ (Num.zero : α) < meanAbs col) : coefOfColumn col = Num.zero := by
  unfold coefOfColumn; rw [if_neg h]

/-- a force coordinate's denominator `mean|F|` is zero exactly when every member predicts zero force there, and
    then the numerator is zero too: the raw quotient is `0.0/0.0 = nan` in Python (never `±inf`) — the code before the
    repair; the guarded quotient gives 0 -/
theorem zero_force_coordinate [∀ a b : ℝ, Decidable (a < b)] (col : List ℝ) (hl : col ≠ []) :
    (meanAbs col = 0 ↔ ∀ x ∈ col, x = 0) ∧ (meanAbs col = 0 → std col = 0) :=
  ⟨meanAbs_eq_zero_iff col hl, std_eq_zero_of_meanAbs_eq_zero col⟩

/-- **update_delta_range**: after `update_delta()` every entry of `delta` lies in `[min_delta, max_delta]`,
    whatever the calculator holds -/
theorem update_delta_range [∀ a b : ℝ, Decidable (a < b)] (cfg : Config ℝ) (hm : cfg.minDelta ≤ cfg.maxDelta)
    (hr : 0 < cfg.ref) (natoms : ℕ) (clc : Option (Results ℝ)) :
    (updateDelta cfg natoms clc).2.All (fun d => cfg.minDelta ≤ d ∧ d ≤ cfg.maxDelta) := by
  have hnn := variationCoef_nonneg cfg hr.le natoms clc
  simp only [updateDelta, deltaOf]
  cases hvc : variationCoef cfg natoms clc with
  | scalar x =>
    rw [hvc] at hnn
    exact delta_range cfg.fn _ _ _ x hm hr hnn
  | array xs =>
    rw [hvc] at hnn
    exact coordwise_range cfg.fn _ _ _ xs hm hr hnn

/-- `update_delta()` applies the scalar rule to every entry of the variation coefficient it stored -/
theorem update_delta_pointwise [∀ a b : ℝ, Decidable (a < b)] (cfg : Config ℝ) (natoms : ℕ)
    (clc : Option (Results ℝ)) :
    (updateDelta cfg natoms clc).2 =
      (updateDelta cfg natoms clc).1.map (adapted cfg.fn cfg.minDelta cfg.maxDelta cfg.ref) := rfl

/-- **fallback_is_ref**: without committee data the reference variance is used (scalar for the energy scheme,
    an `(N, 3)` array for the forces scheme), hence `delta` is the midpoint -/
theorem fallback_is_ref [∀ a b : ℝ, Decidable (a < b)] (cfg : Config ℝ) (hr : cfg.ref ≠ 0) (natoms : ℕ)
    (clc : Option (Results ℝ)) (h : NoCommittee cfg.scheme clc) :
    updateDelta cfg natoms clc =
      match cfg.scheme with
      | .forces => (.array (List.replicate (3 * natoms) cfg.ref),
                    .array (List.replicate (3 * natoms) (midpoint cfg.minDelta cfg.maxDelta)))
      | .energy => (.scalar cfg.ref, .scalar (midpoint cfg.minDelta cfg.maxDelta)) := by
  have hmid := delta_at_ref cfg.fn cfg.minDelta cfg.maxDelta cfg.ref hr
  cases hs : cfg.scheme with
  | forces =>
    have hv : forcesVariationCoef cfg.ref natoms clc = List.replicate (3 * natoms) cfg.ref := by
      cases clc with
      | none => rfl
      | some r =>
        have : r.forcesComm = none := by simpa [NoCommittee, hs] using h
        simp [forcesVariationCoef, this]
    simp [updateDelta, variationCoef, deltaOf, Value.map, hs, hv, hmid]
  | energy =>
    have hv : energyVariationCoef cfg.ref natoms clc = cfg.ref := by
      cases clc with
      | none => rfl
      | some r =>
        have : r.energies = none := by simpa [NoCommittee, hs] using h
        simp [energyVariationCoef, this]
    simp [updateDelta, variationCoef, deltaOf, Value.map, hs, hv, hmid]

/-! ## non-vacuity: the hypotheses are satisfiable and the conclusions are not degenerate -/

example : (1 : ℝ) / 10 ≤ adapted .tanh (1 / 10 : ℝ) (3 / 10) (1 / 10) (1 / 4) ∧
    adapted .tanh (1 / 10 : ℝ) (3 / 10) (1 / 10) (1 / 4) ≤ 3 / 10 :=
  delta_range .tanh _ _ _ _ (by norm_num) (by norm_num) (by norm_num)

example : adapted .exp (1 / 10 : ℝ) (3 / 10) (1 / 10) (1 / 10) = 1 / 5 := by
  rw [delta_at_ref .exp _ _ _ (by norm_num), midpoint]; norm_num

example : adapted .tanh (1 / 10 : ℝ) (3 / 10) (1 / 10) 0 = 3 / 10 := delta_at_zero _ _ _ _

example : adapted .exp (0 : ℝ) 1 1 2 < adapted .exp (0 : ℝ) 1 1 1 :=
  delta_strictAnti .exp 0 1 1 (by norm_num) (by norm_num) (by norm_num)

/-- twice the reference variance: `exp` gives a quarter of the range, `tanh` a fifth (`1 - tanh(log 3) = 1/5`) -/
example : adapted .exp (0 : ℝ) 1 1 2 = 1 / 4 := by
  rw [adapted_real]
  show (0 : ℝ) + (1 - 0) * expUpdate 1 2 = 1 / 4
  rw [expUpdate_eq]
  have : -(2 / 1 * Real.log 2) = Real.log (1 / 4) := by
    rw [show (1 : ℝ) / 4 = (2 ^ 2)⁻¹ by norm_num, Real.log_inv, Real.log_pow]; push_cast; ring
  rw [this, Real.exp_log (by norm_num)]; norm_num

/-- a concrete committee: two members predicting 1 and 3 on a coordinate → std 1, mean|F| 2, coefficient ½ -/
example : coefOfColumn ([1, 3] : List ℝ) = 1 / 2 := by
  have hm : mean ([1, 3] : List ℝ) = 2 := by rw [mean_real]; norm_num
  rw [coefOfColumn_eq_raw, coefOfColumnRaw, std_real, meanAbs_real, hm]
  norm_num

/-- the fallback hypothesis is satisfiable in both ways -/
example : NoCommittee (α := ℝ) .forces none := trivial
example : NoCommittee (α := ℝ) .energy (some { forcesComm := some [[1]], energies := none }) := rfl

end AFB
