import QProps.C03
/-!
# C03 — histories that also contain cell moves (isobaric / isotension) and Hamiltonian moves

`history_restores_any`: at every position of any history made of displacement-type trees, bare cell moves (isobaric
driver) and bare Hamiltonian moves (Hamiltonian driver), a trial that is not accepted leaves the atoms — positions,
cell, momenta, every column, constraints — exactly as they were.
-/
namespace MM

inductive TKind
  | pos (t : Tree)
  | cell (r : Nat)
  | ham (r : Nat)

structure ATrial where
  kind : TKind
  verdict : Bool
  inp : Inputs

def ATrial.tree (t : ATrial) : Tree :=
  match t.kind with
  | .pos tr => tr
  | .cell r => .leaf r
  | .ham r => .leaf r

def astep (sim : Sim) (t : ATrial) (s : State) : Outcome × State :=
  trial sim t.tree t.verdict { s with inp := t.inp }

def runA (sim : Sim) : List ATrial → State → State
  | [], s => s
  | t :: ts, s => runA sim ts (astep sim t s).2

def AKindOK (sim : Sim) (s : State) : TKind → Prop
  | .pos tr => (∀ r ∈ tr.refs, r < s.heap.length) ∧ PosTree s tr
  | .cell r => sim.ens = .isobaric ∧ (s.obj r).kind = .cell
  | .ham r => sim.ens = .hamiltonian ∧ (s.obj r).kind = .ham

def AHistoryOK (sim : Sim) : List ATrial → State → Prop
  | [], _ => True
  | t :: ts, s => AKindOK sim s t.kind ∧ AHistoryOK sim ts (astep sim t s).2

def AllRestoredA (sim : Sim) : List ATrial → State → Prop
  | [], _ => True
  | t :: ts, s =>
    ((astep sim t s).1 ≠ .accepted → (astep sim t s).2.atoms = s.atoms) ∧ AllRestoredA sim ts (astep sim t s).2

theorem inv_trial_cell (sim : Sim) (he : sim.ens = .isobaric) (r : Nat) (v : Bool) (s : State)
    (hinv : Inv sim.ens s) (hk : (s.obj r).kind = .cell) :
    Inv sim.ens (trial sim (.leaf r) v s).2 ∧
    ((trial sim (.leaf r) v s).1 ≠ .accepted → (trial sim (.leaf r) v s).2.atoms = s.atoms) := by
  have hspec := cellCall_spec r s
  have hfail := fail_restores_cell sim r v s hk
  have hrej := reject_restores_cell sim r s he hinv hk
  simp only [trial, callTree, leafCall, hk] at hfail hrej ⊢
  rcases hc : cellCall r s with ⟨ok, s1⟩
  rw [hc] at hspec hfail hrej
  obtain ⟨_, hctx, _⟩ := hspec
  simp only [] at hctx hfail hrej ⊢
  cases ok with
  | false =>
    simp only [Bool.false_eq_true, if_false] at hfail ⊢
    have ha := hfail (by first | rfl | trivial)
    refine ⟨⟨?_, ?_, ?_, ?_, ?_⟩, fun _ => ha⟩
    · intro hx; rw [hctx, ha]; exact hinv.lastPos hx
    · intro hx; rw [hctx, ha]; exact hinv.lastCell hx
    · intro hx; rw [he] at hx; cases hx
    · rw [hctx]; exact hinv.noAdded
    · rw [hctx]; exact hinv.noDeleted
  | true =>
    cases v with
    | false =>
      simp only [if_true, Bool.false_eq_true, if_false] at hrej ⊢
      have hat := hrej (by first | rfl | trivial)
      refine ⟨⟨?_, ?_, (fun hx => by rw [he] at hx; cases hx), ?_, ?_⟩, fun _ => hat⟩
      · intro hx; rw [hat]; simp only [revertState, he, hctx]; exact hinv.lastPos hx
      · intro hx; rw [hat]; simp only [revertState, he, hctx]; exact hinv.lastCell hx
      · simp only [revertState, he, hctx]; exact hinv.noAdded
      · simp only [revertState, he, hctx]; exact hinv.noDeleted
    | true =>
      simp only [if_true]
      refine ⟨⟨?_, ?_, (fun hx => by rw [he] at hx; cases hx), ?_, ?_⟩, fun hx => absurd rfl hx⟩
      · intro _; simp [saveState, he, ctxSave]
      · intro _; simp [saveState, he, ctxSave]
      · simp only [saveState, he, ctxSave, hctx]; exact hinv.noAdded
      · simp only [saveState, he, ctxSave, hctx]; exact hinv.noDeleted

theorem inv_trial_ham (sim : Sim) (he : sim.ens = .hamiltonian) (r : Nat) (v : Bool) (s : State)
    (hinv : Inv sim.ens s) (hk : (s.obj r).kind = .ham) :
    Inv sim.ens (trial sim (.leaf r) v s).2 ∧
    ((trial sim (.leaf r) v s).1 ≠ .accepted → (trial sim (.leaf r) v s).2.atoms = s.atoms) := by
  have hspec := hamCall_spec r s
  have hfail := fail_restores_ham sim r v s hk
  have hrej := reject_restores_ham sim r s he hinv hk
  simp only [trial, callTree, leafCall, hk] at hfail hrej ⊢
  rcases hc : hamCall r s with ⟨ok, s1⟩
  rw [hc] at hspec hfail hrej
  obtain ⟨_, hctx, _⟩ := hspec
  simp only [] at hctx hfail hrej ⊢
  cases ok with
  | false =>
    simp only [Bool.false_eq_true, if_false] at hfail ⊢
    have ha := hfail (by first | rfl | trivial)
    refine ⟨⟨?_, ?_, ?_, ?_, ?_⟩, fun _ => ha⟩
    · intro hx; rw [hctx, ha]; exact hinv.lastPos hx
    · intro hx; rw [he] at hx; cases hx
    · intro hx; rw [hctx, ha]; exact hinv.lastMom hx
    · rw [hctx]; exact hinv.noAdded
    · rw [hctx]; exact hinv.noDeleted
  | true =>
    cases v with
    | false =>
      simp only [if_true, Bool.false_eq_true, if_false] at hrej ⊢
      have hat := hrej (by first | rfl | trivial)
      refine ⟨⟨?_, (fun hx => by rw [he] at hx; cases hx), ?_, ?_, ?_⟩, fun _ => hat⟩
      · intro hx; rw [hat]; simp only [revertState, he, hctx]; exact hinv.lastPos hx
      · intro hx; rw [hat]; simp only [revertState, he, hctx]; exact hinv.lastMom hx
      · simp only [revertState, he, hctx]; exact hinv.noAdded
      · simp only [revertState, he, hctx]; exact hinv.noDeleted
    | true =>
      simp only [if_true]
      refine ⟨⟨?_, (fun hx => by rw [he] at hx; cases hx), ?_, ?_, ?_⟩, fun hx => absurd rfl hx⟩
      · intro _; simp [saveState, he, ctxSave]
      · intro _; simp [saveState, he, ctxSave]
      · simp only [saveState, he, ctxSave, hctx]; exact hinv.noAdded
      · simp only [saveState, he, ctxSave, hctx]; exact hinv.noDeleted

theorem astep_spec (sim : Sim) (hb : sim.ens ≠ .base) (t : ATrial) (s : State) (hinv : Inv sim.ens s)
    (hok : AKindOK sim s t.kind) :
    Inv sim.ens (astep sim t s).2 ∧ ((astep sim t s).1 ≠ .accepted → (astep sim t s).2.atoms = s.atoms) := by
  have hinv' : Inv sim.ens ({ s with inp := t.inp } : State) := ⟨hinv.1, hinv.2, hinv.3, hinv.4, hinv.5⟩
  unfold astep ATrial.tree
  cases hk : t.kind with
  | pos tr =>
    rw [hk] at hok
    refine ⟨inv_trial sim tr t.verdict { s with inp := t.inp } hb hinv' hok.1 hok.2, ?_⟩
    intro hna
    show (trial sim tr t.verdict { s with inp := t.inp }).2.atoms = s.atoms
    have hna' : (trial sim tr t.verdict { s with inp := t.inp }).1 ≠ .accepted := hna
    cases hc : (callTree tr { s with inp := t.inp }).1 with
    | false => exact (fail_restores sim tr t.verdict { s with inp := t.inp } hok.1 hok.2 hc).2.1
    | true =>
      cases hv : t.verdict with
      | false => exact (reject_restores sim tr { s with inp := t.inp } hb hinv' hok.1 hok.2 hc).2
      | true =>
        exfalso; apply hna'
        unfold trial
        rcases hct : callTree tr { s with inp := t.inp } with ⟨ok, s1⟩
        rw [hct] at hc; simp only [] at hc; subst hc
        simp [hv]
  | cell r =>
    rw [hk] at hok
    exact inv_trial_cell sim hok.1 r t.verdict { s with inp := t.inp } hinv' hok.2
  | ham r =>
    rw [hk] at hok
    exact inv_trial_ham sim hok.1 r t.verdict { s with inp := t.inp } hinv' hok.2

/-- **history_restores_any** -/
theorem history_restores_any (sim : Sim) (hb : sim.ens ≠ .base) (ts : List ATrial) (s : State)
    (hinv : Inv sim.ens s) (hok : AHistoryOK sim ts s) :
    Inv sim.ens (runA sim ts s) ∧ AllRestoredA sim ts s := by
  induction ts generalizing s with
  | nil => exact ⟨hinv, trivial⟩
  | cons t ts ih =>
    obtain ⟨hk, hrest⟩ := hok
    obtain ⟨g1, g2⟩ := astep_spec sim hb t s hinv hk
    obtain ⟨i1, i2⟩ := ih _ g1 hrest
    exact ⟨i1, g2, i2⟩

/-! ### histories that span several `run()` calls, with the user editing the atoms in between -/

inductive Event
  | trial (t : ATrial)
  | newRun (pos : List V3) (cell : Option V3)

def estep (sim : Sim) : Event → State → State
  | .trial t, s => (astep sim t s).2
  | .newRun p c, s => newRun sim s p c

def runE (sim : Sim) : List Event → State → State
  | [], s => s
  | e :: es, s => runE sim es (estep sim e s)

def EHistoryOK (sim : Sim) : List Event → State → Prop
  | [], _ => True
  | e :: es, s =>
    (match e with
     | .trial t => AKindOK sim s t.kind
     | .newRun _ _ => True) ∧ EHistoryOK sim es (estep sim e s)

/-- every trial of the history that is not accepted leaves the atoms as they were just before it — in particular as
    the user left them when the trial is the first of a new run -/
def AllRestoredE (sim : Sim) : List Event → State → Prop
  | [], _ => True
  | e :: es, s =>
    (match e with
     | .trial t => (astep sim t s).1 ≠ .accepted → (astep sim t s).2.atoms = s.atoms
     | .newRun p c => (newRun sim s p c).atoms = (userEdit s p c).atoms) ∧
    AllRestoredE sim es (estep sim e s)

theorem inv_newRun (sim : Sim) (s : State) (p : List V3) (c : Option V3) (h : Inv sim.ens s) :
    Inv sim.ens (newRun sim s p c) := by
  unfold newRun
  exact inv_validate sim (userEdit s p c) h.noAdded h.noDeleted

theorem newRun_atoms (sim : Sim) (s : State) (p : List V3) (c : Option V3) :
    (newRun sim s p c).atoms = (userEdit s p c).atoms := by
  unfold newRun validate
  cases sim.ens <;> rfl

/-- **history_restores_runs** -/
theorem history_restores_runs (sim : Sim) (hb : sim.ens ≠ .base) (es : List Event) (s : State)
    (hinv : Inv sim.ens s) (hok : EHistoryOK sim es s) :
    Inv sim.ens (runE sim es s) ∧ AllRestoredE sim es s := by
  induction es generalizing s with
  | nil => exact ⟨hinv, trivial⟩
  | cons e es ih =>
    obtain ⟨hk, hrest⟩ := hok
    cases e with
    | trial t =>
      obtain ⟨g1, g2⟩ := astep_spec sim hb t s hinv hk
      obtain ⟨i1, i2⟩ := ih _ g1 hrest
      exact ⟨i1, g2, i2⟩
    | newRun p c =>
      obtain ⟨i1, i2⟩ := ih _ (inv_newRun sim s p c hinv) hrest
      exact ⟨i1, newRun_atoms sim s p c, i2⟩

/-- the same when the user also sets new momenta between the runs (Hamiltonian driver): the next run starts from them -/
theorem inv_newRunM (sim : Sim) (s : State) (p m : List V3) (c : Option V3) (h : Inv sim.ens s) :
    Inv sim.ens (newRunM sim s p m c) := by
  have hctx : (userEditM s p m c).ctx = s.ctx := by
    unfold userEditM userEdit
    simp only []
    split <;> (split <;> rfl)
  unfold newRunM
  apply inv_validate
  · rw [hctx]; exact h.noAdded
  · rw [hctx]; exact h.noDeleted

end MM
