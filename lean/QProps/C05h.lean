import QProps.C05
import QProps.C03
/-!
# C03 + C05 over mixed grand-canonical histories

A grand-canonical history interleaves displacement-type trials (bare displacement moves, composite displacement moves,
plain composites of displacement / user moves) with insertions and deletions. `gc_mixed_history` states, for every
such history, every script and every verdict sequence:

* the bookkeeping invariant `GInv` (labels of every move of the table aligned with the atoms, constraint indices valid,
  nothing pending, reference positions current) holds after every trial;
* the particle counter is its initial value plus the net number of accepted insertions minus deletions;
* at EVERY position of the history a trial that is not accepted leaves the atoms exactly as they were (C03).
-/
namespace MM

theorem onAtomsChangedObj_nil (m : MoveObj) : onAtomsChangedObj m [] [] = m := by
  simp [onAtomsChangedObj]

theorem notifyRefs_nil (rs : List Nat) (h : List MoveObj) : notifyRefs rs [] [] h = h := by
  induction rs generalizing h with
  | nil => rfl
  | cons r rs ih =>
    simp only [notifyRefs, onAtomsChangedObj_nil]
    split
    · have : h.set r (h.getD r { kind := .user }) = h := by
        by_cases hlt : r < h.length
        · apply List.ext_getElem?
          intro i
          by_cases hi : r = i
          · subst hi; simp [List.getElem?_set, hlt, List.getD_eq_getElem?_getD]
          · simp [List.getElem?_set, hi]
        · exact List.set_eq_of_length_le (by omega)
      rw [this]; exact ih h
    · exact ih h

/-- a displacement-type trial in the grand-canonical driver keeps the bookkeeping invariant, does not touch the
    counter, and restores the atoms unless it is accepted -/
theorem ginv_trial_pos (sim : Sim) (he : sim.ens = .grand) (t : Tree) (v : Bool) (s : State) (h : GInv sim s)
    (hrs : ∀ r ∈ t.refs, r < s.heap.length) (ht : PosTree s t) :
    GInv sim (trial sim t v s).2 ∧ (trial sim t v s).2.ctx.nExch = s.ctx.nExch ∧
    (trial sim t v s).2.atoms.rows.length = s.atoms.rows.length ∧
    ((trial sim t v s).1 ≠ .accepted → (trial sim t v s).2.atoms = s.atoms) := by
  have hb : sim.ens ≠ .base := by rw [he]; simp
  have hinv : Inv sim.ens s := by
    refine ⟨fun _ => h.invg.lastPos, ?_, ?_, h.invg.noAdded, h.invg.noDeleted⟩
    · intro hx; rw [he] at hx; cases hx
    · intro hx; rw [he] at hx; cases hx
  have hk := callTree_keeps t s hrs ht
  have hfail := callTree_fail t s hrs ht
  have hrej := reject_restores sim t s hb hinv hrs ht
  unfold trial at hrej ⊢
  rcases hct : callTree t s with ⟨ok, s1⟩
  rw [hct] at hk hfail hrej
  simp only [] at hk hfail hrej ⊢
  have hcore := hk.ctx
  have f_lp : s1.ctx.lastPos = s.ctx.lastPos := by have := congrArg Ctx.lastPos hcore; simpa [ctxCore] using this
  have f_ad : s1.ctx.addedIdx = [] := by
    have := congrArg Ctx.addedIdx hcore; simp only [ctxCore] at this; rw [this, h.invg.noAdded]
  have f_dl : s1.ctx.deletedIdx = [] := by
    have := congrArg Ctx.deletedIdx hcore; simp only [ctxCore] at this; rw [this, h.invg.noDeleted]
  have f_da : s1.ctx.deletedAtoms = [] := by
    have := congrArg Ctx.deletedAtoms hcore; simp only [ctxCore] at this; rw [this, h.invg.noDeletedAtoms]
  have f_sv : s1.ctx.savedFixed = none := by
    have := congrArg Ctx.savedFixed hcore; simp only [ctxCore] at this; rw [this, h.invg.noSaved]
  have f_de : s1.ctx.delta = 0 := by
    have := congrArg Ctx.delta hcore; simp only [ctxCore] at this; rw [this, h.delta0]
  have f_sz : s1.ctx.addedSizes = [] := by
    have := congrArg Ctx.addedSizes hcore; simp only [ctxCore] at this; rw [this, h.invg.noSizes]
  have f_tm : s1.ctx.template = s.ctx.template := by have := congrArg Ctx.template hcore; simpa [ctxCore] using this
  have f_nx : s1.ctx.nExch = s.ctx.nExch := by have := congrArg Ctx.nExch hcore; simpa [ctxCore] using this
  have hlen : s1.atoms.rows.length = s.atoms.rows.length := by
    have := congrArg List.length hk.pos.2.2; simpa using this
  have hfx1 : FixedOK s1.atoms := by
    have := h.invg.fixedOK
    unfold FixedOK at this ⊢
    rw [hk.pos.2.1, hlen]; exact this
  have halign1 : ∀ r' ∈ tableRefs sim, r' < s1.heap.length → labelBearing (s1.obj r').kind = true →
      (s1.obj r').labels.length = s1.atoms.rows.length := by
    intro r' hr' hlt hlb
    rw [hk.labels r', hlen]
    exact h.aligned r' hr' (by rw [← hk.heap_len]; exact hlt) (by rw [← hk.kinds r']; exact hlb)
  cases ok with
  | false =>
    simp only [Bool.false_eq_true, if_false]
    have ha := hfail rfl
    exact ⟨⟨⟨by rw [f_lp, ha]; exact h.invg.lastPos, f_ad, f_dl, f_da, f_sv, hfx1, f_sz⟩, f_de, halign1,
            by rw [f_tm]; exact h.templ⟩, f_nx, hlen, fun _ => ha⟩
  | true =>
    cases v with
    | false =>
      simp only [if_true, Bool.false_eq_true, if_false] at hrej ⊢
      have hat : (revertState sim s1).atoms = s.atoms := (hrej (by first | rfl | trivial)).2
      have hheapR : (revertState sim s1).heap = s1.heap := revertState_shape sim s1
      refine ⟨⟨⟨?_, by simp [revertState, he], by simp [revertState, he], by simp [revertState, he],
                by simp [revertState, he], by rw [hat]; exact h.invg.fixedOK, by simp [revertState, he]⟩,
               by simp [revertState, he], ?_, by simp [revertState, he, f_tm]; exact h.templ⟩,
              by simp [revertState, he, f_nx], by rw [hat], fun _ => hat⟩
      · rw [hat]
        have : (revertState sim s1).ctx.lastPos = s1.ctx.lastPos := by simp [revertState, he]
        rw [this, f_lp]; exact h.invg.lastPos
      · intro r' hr' hlt hlb
        have hobj : (revertState sim s1).obj r' = s1.obj r' := by simp [State.obj, hheapR]
        rw [hobj] at hlb ⊢
        rw [hat, ← hlen]
        exact halign1 r' hr' (by rw [← hheapR]; exact hlt) hlb
    | true =>
      simp only [if_true]
      have hsaveheap : (saveState sim s1).heap = s1.heap := by
        simp [saveState, he, ctxSave, f_ad, f_dl, f_sz, notifyParts_nil, notifyRefs_nil]
      have hsa : (saveState sim s1).atoms = s1.atoms := by simp [saveState, he, ctxSave]
      refine ⟨⟨⟨by simp [saveState, he, ctxSave], by simp [saveState, he, ctxSave], by simp [saveState, he, ctxSave],
                by simp [saveState, he, ctxSave], by simp [saveState, he, ctxSave], by rw [hsa]; exact hfx1,
                by simp [saveState, he, ctxSave]⟩,
               by simp [saveState, he, ctxSave], ?_, by simp [saveState, he, ctxSave, f_tm]; exact h.templ⟩,
              by simp [saveState, he, ctxSave, f_nx, f_de], by rw [hsa]; exact hlen, fun hx => absurd rfl hx⟩
      intro r' hr' hlt hlb
      have hobj : (saveState sim s1).obj r' = s1.obj r' := by simp [State.obj, hsaveheap]
      rw [hobj] at hlb ⊢
      rw [hsa]
      exact halign1 r' hr' (by rw [← hsaveheap]; exact hlt) hlb

/-- one trial of a mixed grand-canonical history -/
inductive GTrialKind
  | pos (t : Tree)      -- displacement-type tree
  | exch (r : Nat)      -- a bare exchange move

structure GTrial where
  kind : GTrialKind
  verdict : Bool
  inp : Inputs

def GTrial.tree (t : GTrial) : Tree :=
  match t.kind with
  | .pos tr => tr
  | .exch r => .leaf r

def gstep (sim : Sim) (t : GTrial) (s : State) : Outcome × State :=
  trial sim t.tree t.verdict { s with inp := t.inp }

def runG (sim : Sim) : List GTrial → State → State
  | [], s => s
  | t :: ts, s => runG sim ts (gstep sim t s).2

def netChangeG (sim : Sim) : List GTrial → State → Int
  | [], _ => 0
  | t :: ts, s => counterStep s (gstep sim t s).2 + netChangeG sim ts (gstep sim t s).2

/-- well-formedness of the scheduled trials, checked as the history unfolds -/
def GHistoryOK (sim : Sim) : List GTrial → State → Prop
  | [], _ => True
  | t :: ts, s =>
    (match t.kind with
     | .pos tr => (∀ r ∈ tr.refs, r < s.heap.length) ∧ PosTree s tr
     | .exch r => (s.obj r).kind = .exch ∧ r ∈ tableRefs sim ∧ r < s.heap.length) ∧
    GHistoryOK sim ts (gstep sim t s).2

/-- every non-accepted trial of the history restored the atoms -/
def AllRestored (sim : Sim) : List GTrial → State → Prop
  | [], _ => True
  | t :: ts, s =>
    ((gstep sim t s).1 ≠ .accepted → (gstep sim t s).2.atoms = s.atoms) ∧ AllRestored sim ts (gstep sim t s).2

theorem gstep_spec (sim : Sim) (he : sim.ens = .grand) (t : GTrial) (s : State) (h : GInv sim s)
    (hok : match t.kind with
           | .pos tr => (∀ r ∈ tr.refs, r < s.heap.length) ∧ PosTree s tr
           | .exch r => (s.obj r).kind = .exch ∧ r ∈ tableRefs sim ∧ r < s.heap.length) :
    GInv sim (gstep sim t s).2 ∧ (gstep sim t s).2.ctx.nExch = s.ctx.nExch + counterStep s (gstep sim t s).2 ∧
    ((gstep sim t s).1 ≠ .accepted → (gstep sim t s).2.atoms = s.atoms) := by
  have h' : GInv sim ({ s with inp := t.inp } : State) :=
    ⟨⟨h.invg.1, h.invg.2, h.invg.3, h.invg.4, h.invg.5, h.invg.6, h.invg.7⟩, h.delta0, h.aligned, h.templ⟩
  unfold gstep GTrial.tree
  cases hk : t.kind with
  | pos tr =>
    rw [hk] at hok
    obtain ⟨g1, g2, g3, g4⟩ := ginv_trial_pos sim he tr t.verdict { s with inp := t.inp } h' hok.1 hok.2
    refine ⟨g1, ?_, g4⟩
    have : counterStep s (trial sim tr t.verdict { s with inp := t.inp }).2 = 0 := by
      simp only [counterStep]
      have : (trial sim tr t.verdict { s with inp := t.inp }).2.atoms.rows.length = s.atoms.rows.length := g3
      simp [this]
    rw [g2, this]; simp
  | exch r =>
    rw [hk] at hok
    have hrl : (s.obj r).labels.length = s.atoms.rows.length :=
      h.aligned r hok.2.1 hok.2.2 (by simp [labelBearing, hok.1])
    obtain ⟨g1, g2⟩ := ginv_trial sim he r t.verdict { s with inp := t.inp } h' hok.1 hrl
    refine ⟨g1, g2, ?_⟩
    intro hna
    have hnew := toAddOf_ne_nil (s.obj r) s.ctx h.templ
    have hrest := exch_not_accepted_restores sim he r { s with inp := t.inp } h'.invg hok.1 hrl hnew
    -- a trial that is not accepted behaves as with verdict `false`
    show (trial sim (.leaf r) t.verdict { s with inp := t.inp }).2.atoms = s.atoms
    have hna' : (trial sim (.leaf r) t.verdict { s with inp := t.inp }).1 ≠ .accepted := hna
    cases hv : t.verdict with
    | false => exact hrest
    | true =>
      rw [hv] at hna'
      simp only [trial] at hna' hrest ⊢
      rcases hct : callTree (.leaf r) { s with inp := t.inp } with ⟨ok, s1⟩
      rw [hct] at hna' hrest
      cases ok with
      | false => simpa using hrest
      | true => simp at hna'

/-- **gc_mixed_history** -/
theorem gc_mixed_history (sim : Sim) (he : sim.ens = .grand) (ts : List GTrial) (s : State) (h : GInv sim s)
    (hok : GHistoryOK sim ts s) :
    GInv sim (runG sim ts s) ∧ (runG sim ts s).ctx.nExch = s.ctx.nExch + netChangeG sim ts s ∧
    AllRestored sim ts s := by
  induction ts generalizing s with
  | nil => exact ⟨h, by simp [runG, netChangeG], trivial⟩
  | cons t ts ih =>
    obtain ⟨hk, hrest⟩ := hok
    obtain ⟨g1, g2, g3⟩ := gstep_spec sim he t s h hk
    obtain ⟨i1, i2, i3⟩ := ih _ g1 hrest
    refine ⟨i1, ?_, g3, i3⟩
    simp only [runG, netChangeG]
    rw [i2, g2]; omega

end MM
