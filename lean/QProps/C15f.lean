import QProofs.FBDriverToy
import QProps.C15m
/-!
# C15 / C18 (force-bias drivers) — splitting a run does not change it, and every step adapts to the configuration it starts from

QProps/C15.lean proves `run a; run b ≡ run (a+b)` for an abstract simulation under the hypothesis `ValidateStable`.
Here the hypothesis is DISCHARGED for `ForceBias` and `AdaptiveForceBias`: `RunLoop.Cfg` is instantiated with the driver
machine of QModel/FBDriver.lean (`FBD.validate`, `FBD.step`, kind `.eager`), which owns atoms, generator state and a
calculator with a cache. All theorems hold for every carrier `α`, every environment (calculator functions, generator
stream, loop fuel), every state of the simulation object (any cache content: fresh calculator, results of another
configuration, …; either class), every observer list, every number of steps.

* `fbd_cache_fresh`  — after `validate_simulation()` (adaptive class) and after every `step()` the calculator results
  belong to the current positions.
* `fbd_stable` ⇒ `fbd_split_run`, `fbd_split_many`, `fbd_split_run_coded_partial` — no hypothesis left. A run that starts
  with stale results validates once at its start in the split and in the unsplit execution alike; the second segment's
  `validate_simulation()` is a no-op.
* `afb_delta_current` — the delta every step of every run uses is
  `min_delta + (max_delta - min_delta) * update(std/mean|·| of committee(positions at the start of that step))`;
  instances for a run right after a user edit, after a restart, after attaching a used calculator.
* `afb_delta_stale_without_validate`, `afb_delta_fallback_without_validate` — with `validate_simulation` = identity (the
  tree before "fix: a run always starts with calculator results for the current configuration") the first step after
  an edit uses the committee of the OLD configuration, and the first step after a restart the fallback variance;
  computed witnesses on which that differs from the delta of the current configuration.
-/
namespace FBD
variable {α : Type} [Num α] [FB.Ops α] [∀ a b : α, Decidable (a < b)]

/-! ## the calculator results are those of the current configuration -/

/-- **fbd_cache_fresh**: after `validate_simulation()` of the adaptive class, after every `step()` of either class, and
    hence at the end of every `run(n)`, `calc.results` belongs to the current positions. -/
theorem fbd_cache_fresh (env : Env α) (ivs : List Int) (lg : Option Nat) (v : RunLoop.Variant) :
    (∀ s : St α, s.adaptive = true → (validate s).cache = some (validate s).positions) ∧
    (∀ (k : Nat) (s : St α), (step env k s).cache = some (step env k s).positions) ∧
    (∀ (n : Nat) (s : RunLoop.Sim (St α)), 0 < n ∨ s.st.adaptive = true →
      (RunLoop.run (cfg env ivs lg v) n s).st.cache = some (RunLoop.run (cfg env ivs lg v) n s).st.positions) := by
  refine ⟨validate_cache, step_cache env, fun n s h => ?_⟩
  rcases h with h | h
  · obtain ⟨m, rfl⟩ : ∃ m, n = m + 1 := ⟨n - 1, by omega⟩
    rw [RunLoop.run_succ_st (cfg env ivs lg v) m s]
    exact step_cache env (s.stepCount + m) _
  · exact run_fresh env ivs lg v n s (by rw [run_adaptive]; exact h)

/-! ## splitting a run -/

/-- **fbd_stable**: the hypothesis of the split theorems holds, with the invariant `Fresh` -/
theorem fbd_stable (env : Env α) (ivs : List Int) (lg : Option Nat) (v : RunLoop.Variant) :
    RunLoop.ValidateStableOn (cfg env ivs lg v) (fun _ x => Fresh x) :=
  ⟨fun _ x h => validate_of_fresh x h, fun k x _ => fresh_step env k x⟩

/-- **fbd_split_run** (`ForceBias` and `AdaptiveForceBias`, fixed loop): `run a; run b ≡ run (a+b)` for all `a, b ≥ 0`
    from ANY simulation object — equality of the whole object: positions, momenta, delta, generator state, calculator
    cache, `step_count`, `max_steps`, `_started`, number of executed steps and the complete observer trace (which records
    the simulation state at every observer call). -/
theorem fbd_split_run (env : Env α) (ivs : List Int) (lg : Option Nat) (a b : Nat) (s : RunLoop.Sim (St α)) :
    RunLoop.run (cfg env ivs lg .fixed) b (RunLoop.run (cfg env ivs lg .fixed) a s)
      = RunLoop.run (cfg env ivs lg .fixed) (a + b) s :=
  RunLoop.split_run_on _ rfl (fbd_stable env ivs lg .fixed) a b s (fresh_validate s.st)

/-- **fbd_split_many**: any non-empty list of segment lengths, zeros included, is one run of their sum -/
theorem fbd_split_many (env : Env α) (ivs : List Int) (lg : Option Nat) (n : Nat) (segs : List Nat)
    (s : RunLoop.Sim (St α)) :
    RunLoop.runs (cfg env ivs lg .fixed) (n :: segs) s = RunLoop.run (cfg env ivs lg .fixed) (n + segs.sum) s :=
  RunLoop.split_many_on _ rfl (fbd_stable env ivs lg .fixed) n segs s (fresh_validate s.st)

/-- any consumer of `irun` -/
theorem fbd_split_irun (env : Env α) (ivs : List Int) (lg : Option Nat) (c : Bool) (a b : Nat)
    (s : RunLoop.Sim (St α)) :
    RunLoop.irunWith (cfg env ivs lg .fixed) c b (RunLoop.irunWith (cfg env ivs lg .fixed) c a s)
      = RunLoop.irunWith (cfg env ivs lg .fixed) c (a + b) s :=
  RunLoop.split_irun_on _ rfl (fbd_stable env ivs lg .fixed) c a b s (fresh_validate s.st)

/-- either variant of the loop: correct when the step-0 block cannot be re-entered -/
theorem fbd_split_run_coded_partial (env : Env α) (ivs : List Int) (lg : Option Nat) (v : RunLoop.Variant) (a b : Nat)
    (s : RunLoop.Sim (St α)) (h : 0 < a ∨ 0 < s.stepCount) :
    RunLoop.run (cfg env ivs lg v) b (RunLoop.run (cfg env ivs lg v) a s) = RunLoop.run (cfg env ivs lg v) (a + b) s :=
  RunLoop.split_run_coded_partial_on _ (fbd_stable env ivs lg v) a b s (fresh_validate s.st) h

/-- the user moves the atoms / sets momenta between two `run()` calls: the next `run a; run b` is `run (a+b)` — here
    `validate_simulation()` of the adaptive class is NOT a no-op at the start of the first run (instance of
    `fbd_split_run`, stated for the record) -/
theorem fbd_split_run_after_edit (env : Env α) (ivs : List Int) (lg : Option Nat) (a b : Nat) (s : RunLoop.Sim (St α))
    (p m : List α) :
    RunLoop.run (cfg env ivs lg .fixed) b (RunLoop.run (cfg env ivs lg .fixed) a { s with st := userEdit s.st p m })
      = RunLoop.run (cfg env ivs lg .fixed) (a + b) { s with st := userEdit s.st p m } :=
  fbd_split_run env ivs lg a b _

/-- without the adaptive class's `validate_simulation` the split theorem still holds (the stale read happens in the
    split and in the unsplit execution alike): what the repair changed is WHICH delta the first step uses, see below -/
theorem fbd_split_run_noValidate (env : Env α) (ivs : List Int) (lg : Option Nat) (a b : Nat) (s : RunLoop.Sim (St α)) :
    RunLoop.run (cfgNoValidate env ivs lg .fixed) b (RunLoop.run (cfgNoValidate env ivs lg .fixed) a s)
      = RunLoop.run (cfgNoValidate env ivs lg .fixed) (a + b) s :=
  RunLoop.split_run_on (P := fun _ _ => True) _ rfl ⟨fun _ _ _ => rfl, fun _ _ _ => trivial⟩ a b s trivial

/-! ## every step adapts to the configuration it starts from -/

/-- the state step `j+1` of a run of `n > j` steps starts from is the state `run j` ends in -/
theorem fbd_run_prefix (env : Env α) (ivs : List Int) (lg : Option Nat) (v : RunLoop.Variant) (j n : Nat) (hj : j ≤ n)
    (s : RunLoop.Sim (St α)) :
    (RunLoop.run (cfg env ivs lg v) n s).st
      = RunLoop.stepsFrom (cfg env ivs lg v) (s.stepCount + j) (n - j) (RunLoop.run (cfg env ivs lg v) j s).st :=
  RunLoop.run_prefix _ j n hj s

/-- **afb_delta_current**: in every run of an `AdaptiveForceBias` object, from ANY state of the object (stale calculator
    results, no results, atoms just edited, just restarted), the delta used by step `j+1` is computed from the committee
    of the positions that step starts from (`before.positions`), by the formula `deltaFor` = `deltaFor_formula`:
    entry by entry `min_delta + (max_delta - min_delta) * update(std(col)/mean|col|)`. -/
theorem afb_delta_current (env : Env α) (ivs : List Int) (lg : Option Nat) (v : RunLoop.Variant)
    (s : RunLoop.Sim (St α)) (ha : s.st.adaptive = true) (j : Nat) :
    let before := (RunLoop.run (cfg env ivs lg v) j s).st
    let after := (RunLoop.run (cfg env ivs lg v) (j + 1) s).st
    after = step env (s.stepCount + j) before ∧
    after.delta = deltaFor env before before.positions ∧
    after.delta = (AFB.columns (env.committee before.positions)).map (fun col =>
      before.minDelta + (before.maxDelta - before.minDelta) * AFB.update before.fn before.refVar (AFB.coefOfColumn col)) := by
  intro before after
  have h1 : after = step env (s.stepCount + j) before := RunLoop.run_succ_st _ j s
  have hb : before.adaptive = true := by rw [run_adaptive]; exact ha
  have hf : before.cache = some before.positions := run_fresh env ivs lg v j s hb
  have h2 : after.delta = deltaFor env before before.positions := by
    rw [h1]; exact step_delta_some env _ before hb _ hf
  exact ⟨h1, h2, by rw [h2, deltaFor_formula]⟩

/-- the first step of a run: the committee of the positions the run starts from, whatever the calculator holds -/
theorem afb_delta_first_step (env : Env α) (ivs : List Int) (lg : Option Nat) (v : RunLoop.Variant)
    (s : RunLoop.Sim (St α)) (ha : s.st.adaptive = true) :
    (RunLoop.run (cfg env ivs lg v) 1 s).st.delta = deltaFor env s.st s.st.positions := by
  have h := (afb_delta_current env ivs lg v s ha 0).2.1
  have e : (RunLoop.run (cfg env ivs lg v) 0 s).st = validate s.st := by
    rw [RunLoop.run_st]; rfl
  rw [e] at h
  rw [h, validate_positions]
  unfold validate
  split <;> rfl

/-- the first step of a run after the user has moved the atoms to `p`: the committee of `p` -/
theorem afb_delta_current_after_edit (env : Env α) (ivs : List Int) (lg : Option Nat) (v : RunLoop.Variant)
    (s : RunLoop.Sim (St α)) (ha : s.st.adaptive = true) (p m : List α) :
    (RunLoop.run (cfg env ivs lg v) 1 { s with st := userEdit s.st p m }).st.delta = deltaFor env s.st p :=
  afb_delta_first_step env ivs lg v { s with st := userEdit s.st p m } ha

/-- the first step after a restart (fresh calculator, no results): the committee of the restored positions, not the
    fallback variance -/
theorem afb_delta_current_after_restart (env : Env α) (ivs : List Int) (lg : Option Nat) (v : RunLoop.Variant)
    (s : RunLoop.Sim (St α)) (ha : s.st.adaptive = true) :
    (RunLoop.run (cfg env ivs lg v) 1 (restart s)).st.delta = deltaFor env s.st s.st.positions :=
  afb_delta_first_step env ivs lg v (restart s) ha

/-- the first step after attaching a calculator that holds the results of configuration `c'` (or none): still the
    committee of the current positions -/
theorem afb_delta_current_after_attach (env : Env α) (ivs : List Int) (lg : Option Nat) (v : RunLoop.Variant)
    (s : RunLoop.Sim (St α)) (ha : s.st.adaptive = true) (c' : Option (List α)) :
    (RunLoop.run (cfg env ivs lg v) 1 { s with st := attachCalc s.st c' }).st.delta
      = deltaFor env s.st s.st.positions :=
  afb_delta_first_step env ivs lg v { s with st := attachCalc s.st c' } ha

/-- a `ForceBias` object never changes its delta -/
theorem fb_delta_constant (env : Env α) (ivs : List Int) (lg : Option Nat) (v : RunLoop.Variant)
    (s : RunLoop.Sim (St α)) (ha : s.st.adaptive = false) (n : Nat) :
    (RunLoop.run (cfg env ivs lg v) n s).st.delta = s.st.delta := by
  induction n with
  | zero =>
    rw [RunLoop.run_st]
    show (validate s.st).delta = _
    unfold validate
    split <;> rfl
  | succ n ih =>
    rw [RunLoop.run_succ_st]
    show (step env (s.stepCount + n) _).delta = _
    rw [step_delta_plain env _ _ (by rw [run_adaptive]; exact ha), ih]

/-! ## what happened before the repair -/

/-- **afb_delta_stale_without_validate** (general form): with `validate_simulation` = identity, the first step of a run
    after the user has moved the atoms uses the committee of the configuration the calculator saw last -/
theorem afb_delta_stale_without_validate (env : Env α) (ivs : List Int) (lg : Option Nat) (v : RunLoop.Variant)
    (s : RunLoop.Sim (St α)) (ha : s.st.adaptive = true) (old : List α) (hc : s.st.cache = some old) (p m : List α) :
    (RunLoop.run (cfgNoValidate env ivs lg v) 1 { s with st := userEdit s.st p m }).st.delta = deltaFor env s.st old := by
  rw [RunLoop.run_st]
  simp only [RunLoop.stepsFrom]
  exact step_delta_some env s.stepCount (userEdit s.st p m) ha old hc

/-- **afb_delta_fallback_without_validate** (general form): with `validate_simulation` = identity, the first step after a
    restart uses the fallback `reference_variance` on every coordinate -/
theorem afb_delta_fallback_without_validate (env : Env α) (ivs : List Int) (lg : Option Nat) (v : RunLoop.Variant)
    (s : RunLoop.Sim (St α)) (ha : s.st.adaptive = true) :
    (RunLoop.run (cfgNoValidate env ivs lg v) 1 (restart s)).st.delta = deltaFallback s.st := by
  rw [RunLoop.run_st]
  simp only [RunLoop.stepsFrom]
  exact step_delta_none env s.stepCount (persist s.st) ha rfl

/-! ## non-vacuity and computed witnesses (carrier `Rat`, QProofs/FBDriverToy.lean) -/
namespace Toy
open RunLoop (run runs fresh)

/-- `fbd_split_run` instantiated on both classes -/
example (ad : Bool) : run c 2 (run c 1 (fresh (st0 ad))) = run c (1 + 2) (fresh (st0 ad)) :=
  fbd_split_run env [1, 2] (some 0) 1 2 _

-- computed independently of the theorem; the run moves the atoms in both segments, consumes the generator (step 1
-- needs a second round), adapts delta, and the observers fire
example : run c 2 (run c 1 (fresh (st0 true))) = run c 3 (fresh (st0 true)) := by decide +kernel
example : runs c [0, 2, 0, 1] (fresh (st0 false)) = run c 3 (fresh (st0 false)) := by decide +kernel
example : (run c 1 (fresh (st0 true))).st.positions = [91/40, 577/200, 141/200] ∧
    (run c 1 (fresh (st0 true))).st.rngPos = 8 ∧
    (run c 1 (fresh (st0 true))).st.delta = [11/20, 23/50, 41/50] ∧
    (run c 3 (fresh (st0 true))).st.positions ≠ (run c 1 (fresh (st0 true))).st.positions ∧
    (run c 3 (fresh (st0 true))).st.delta ≠ (run c 1 (fresh (st0 true))).st.delta ∧
    (run c 3 (fresh (st0 true))).st.rngPos = 20 ∧ (run c 3 (fresh (st0 true))).st.diverged = false ∧
    RunLoop.callsOf 0 (run c 3 (fresh (st0 true))).trace = [0, 1, 2, 3] ∧
    RunLoop.callsOf 1 (run c 3 (fresh (st0 true))).trace = [0, 2] := by decide +kernel

/-- `fbd_cache_fresh`: the start state has no results, the validated one and every later one has those of its positions -/
example : (st0 true).cache = none ∧ (validate (st0 true)).cache = some [2, 3, 1/2] ∧
    (run c 2 (fresh (st0 false))).st.cache = some (run c 2 (fresh (st0 false))).st.positions ∧
    (run c 0 (fresh (st0 false))).st.cache = none := by decide +kernel

/-- the split holds after a user edit, where `validate_simulation()` is not a no-op -/
def edited : RunLoop.Sim (St Rat) := { run c 1 (fresh (st0 true)) with st := userEdit (run c 1 (fresh (st0 true))).st moved [0, 0, 0] }
example : validate edited.st ≠ edited.st := by decide +kernel
example : run c 1 (run c 1 edited) = run c 2 edited := by decide +kernel

/-- `afb_delta_current` after the edit: the delta of the first step is that of the configuration the atoms were moved to -/
example : (run c 1 edited).st.delta = deltaFor env edited.st moved ∧
    deltaFor env edited.st moved = [23/50, 41/50, 11/20] := by decide +kernel

/-- **afb_delta_stale_without_validate** (witness): the same history on the loop without the adaptive class's
    `validate_simulation`: the first step after the edit uses the committee of the configuration the previous run ended in,
    which gives a different delta (and from there a different trajectory) -/
def cOld : RunLoop.Cfg (St Rat) := cfgNoValidate env [1, 2] (some 0) .fixed
def editedOld : RunLoop.Sim (St Rat) :=
  { run cOld 1 (fresh (st0 true)) with st := userEdit (run cOld 1 (fresh (st0 true))).st moved [0, 0, 0] }

theorem afb_delta_stale_witness :
    editedOld.st.positions = moved ∧
    (run cOld 1 editedOld).st.delta = deltaFor env editedOld.st (run cOld 1 (fresh (st0 true))).st.positions ∧
    (run cOld 1 editedOld).st.delta ≠ deltaFor env editedOld.st moved ∧
    (run cOld 1 editedOld).st.positions ≠ (run c 1 editedOld).st.positions := by
  decide +kernel

/-- **afb_delta_fallback_without_validate** (witness): after a restart the old loop uses the fallback variance (delta =
    the midpoint everywhere), the repaired one the committee of the restored configuration -/
theorem afb_delta_fallback_witness :
    (run cOld 1 (restart (run cOld 1 (fresh (st0 true))))).st.delta = [11/20, 11/20, 11/20] ∧
    (run c 1 (restart (run c 1 (fresh (st0 true))))).st.delta
      = deltaFor env (st0 true) (run c 1 (fresh (st0 true))).st.positions ∧
    (run c 1 (restart (run c 1 (fresh (st0 true))))).st.delta ≠ [11/20, 11/20, 11/20] := by
  decide +kernel

/-- the fuel flag: a generator that never produces an acceptable number leaves `diverged` set, atoms and generator alone,
    and the split theorem holds all the same -/
example : (run (cfg envStuck [1] none .fixed) 2 (fresh (st0 true))).st.diverged = true ∧
    (run (cfg envStuck [1] none .fixed) 2 (fresh (st0 true))).st.positions = (st0 true).positions ∧
    (run (cfg envStuck [1] none .fixed) 2 (fresh (st0 true))).st.rngPos = 0 := by decide +kernel

end Toy
end FBD
