import QProofs.MachineStatic
/-!
# C03 — a rejected or failed trial leaves the system exactly as it was

`MM.trial sim t v s` is one iteration of `MonteCarlo.step` for table entry `t` with criteria verdict `v`
(model: QModel/Machine.lean).  The theorems hold for **every** script of draws, operation results and
`check_move` verdicts, every label array, every set of per-atom columns (`Row.aux`), every constraint list.

Scope of this file (what is proved at full strength / what is partial):

* `fail_restores`, `reject_restores_*`, `inv_trial`, `history_restores`: all trees whose elements are
  displacement / user moves (`PosTree`: a bare move, a `CompositeDisplacementMove`, a plain composite), in the
  canonical, Hamiltonian, isobaric/isotension and grand-canonical drivers; bare cell moves (isobaric) and bare
  Hamiltonian moves.
* exchange moves: QProps/C03x.lean.
* A plain `CompositeMove` holding two exchange moves, or an exchange move followed by a label-bearing move, is NOT
  restored by the code (known finding, DESIGN §7 #5); the negation is proved by witness in QProps/C03x.lean.
-/
namespace MM

/-- what `validate_simulation`, `save_state` and `revert_state` establish between trials -/
structure Inv (ens : Ensemble) (s : State) : Prop where
  lastPos : ens ≠ .base → s.ctx.lastPos = positions s.atoms.rows
  lastCell : ens = .isobaric → s.ctx.lastCell = s.atoms.cell
  lastMom : ens = .hamiltonian → s.ctx.lastMom = momenta s.atoms.rows
  noAdded : s.ctx.addedIdx = []
  noDeleted : s.ctx.deletedIdx = []

theorem inv_validate (sim : Sim) (s : State) (h1 : s.ctx.addedIdx = []) (h2 : s.ctx.deletedIdx = []) :
    Inv sim.ens (validate sim s) := by
  cases he : sim.ens <;> constructor <;> simp_all [validate]

/-- **fail_restores**: a trial that cannot be completed (no eligible particle, or every attempt vetoed) leaves the
    atoms — count, order, positions, cell, momenta, every other column, constraints — exactly as they were, in
    every driver; nothing is saved or reverted. -/
theorem fail_restores (sim : Sim) (t : Tree) (v : Bool) (s : State)
    (hrs : ∀ r ∈ t.refs, r < s.heap.length) (ht : PosTree s t) (hf : (callTree t s).1 = false) :
    (trial sim t v s).1 = .failed ∧ (trial sim t v s).2.atoms = s.atoms ∧
    ctxCore (trial sim t v s).2.ctx = ctxCore s.ctx := by
  have hk := callTree_keeps t s hrs ht
  have ha := callTree_fail t s hrs ht hf
  unfold trial
  rcases hct : callTree t s with ⟨ok, s1⟩
  rw [hct] at hk ha hf
  simp only [] at hf
  subst hf
  exact ⟨rfl, ha, hk.ctx⟩

theorem fail_restores_cell (sim : Sim) (r : Nat) (v : Bool) (s : State) (hk : (s.obj r).kind = .cell)
    (hf : (callTree (.leaf r) s).1 = false) : (trial sim (.leaf r) v s).2.atoms = s.atoms := by
  have h := cellCall_spec r s
  simp only [trial, callTree, leafCall, hk] at hf ⊢
  rw [hf]
  rcases h.2.2 with ⟨_, ha⟩ | ⟨ht, _⟩
  · exact ha
  · rw [hf] at ht; cases ht

theorem fail_restores_ham (sim : Sim) (r : Nat) (v : Bool) (s : State) (hk : (s.obj r).kind = .ham)
    (hf : (callTree (.leaf r) s).1 = false) : (trial sim (.leaf r) v s).2.atoms = s.atoms := by
  have h := hamCall_spec r s
  simp only [trial, callTree, leafCall, hk] at hf ⊢
  rw [hf]
  rcases h.2.2 with ⟨_, ha⟩ | ⟨ht, _⟩
  · exact ha
  · rw [hf] at ht; cases ht

/-- the part of `revertState` every non-base ensemble shares, for a trial that inserted and deleted nothing -/
theorem revert_posOnly (sim : Sim) (s s1 : State) (hb : sim.ens ≠ .base) (hinv : Inv sim.ens s)
    (hctx : ctxCore s1.ctx = ctxCore s.ctx) (hpos : PosOnly s.atoms s1.atoms) :
    (revertState sim s1).atoms = s.atoms := by
  have hlp : s1.ctx.lastPos = positions s.atoms.rows := by
    have := congrArg Ctx.lastPos hctx; simp only [ctxCore] at this; rw [this, hinv.lastPos hb]
  have hlc : s1.ctx.lastCell = s.ctx.lastCell := by
    have := congrArg Ctx.lastCell hctx; simpa [ctxCore] using this
  have hlm : s1.ctx.lastMom = s.ctx.lastMom := by
    have := congrArg Ctx.lastMom hctx; simpa [ctxCore] using this
  have hadd : s1.ctx.addedIdx = [] := by
    have := congrArg Ctx.addedIdx hctx; simp only [ctxCore] at this; rw [this, hinv.noAdded]
  have hdel : s1.ctx.deletedIdx = [] := by
    have := congrArg Ctx.deletedIdx hctx; simp only [ctxCore] at this; rw [this, hinv.noDeleted]
  unfold revertState
  cases he : sim.ens with
  | base => exact absurd he hb
  | canonical =>
    simp only [hlp]
    exact posOnly_restore _ _ hpos
  | hamiltonian =>
    simp only [hlp, hlm, hinv.lastMom he]
    exact auxOnly_restore _ _ hpos.auxOnly
  | isobaric =>
    simp only [hlp, hlc, hinv.lastCell he]
    exact stripOnly_restore _ _ hpos.stripOnly
  | grand =>
    simp only [hadd, hdel, List.isEmpty_nil, if_true, hlp]
    have := posOnly_restore _ _ hpos
    cases hs1 : s1.atoms; cases hs : s.atoms
    simp_all

/-- **reject_restores**: if the criteria rejects a trial of a displacement-type tree, the driver's `revert_state`
    returns the atoms bit for bit to what they were before the trial — in the canonical, Hamiltonian,
    isobaric/isotension and grand-canonical drivers alike. -/
theorem reject_restores (sim : Sim) (t : Tree) (s : State) (hb : sim.ens ≠ .base) (hinv : Inv sim.ens s)
    (hrs : ∀ r ∈ t.refs, r < s.heap.length) (ht : PosTree s t) (hok : (callTree t s).1 = true) :
    (trial sim t false s).1 = .rejected ∧ (trial sim t false s).2.atoms = s.atoms := by
  have hk := callTree_keeps t s hrs ht
  unfold trial
  rcases hct : callTree t s with ⟨ok, s1⟩
  rw [hct] at hk hok
  simp only [] at hok
  subst hok
  simp only [if_true, Bool.false_eq_true, if_false]
  refine ⟨?_, revert_posOnly sim s s1 hb hinv hk.ctx hk.pos⟩
  first | trivial | rfl

/-- rejected cell move in the isobaric / isotension driver: positions **and cell** restored -/
theorem reject_restores_cell (sim : Sim) (r : Nat) (s : State) (he : sim.ens = .isobaric) (hinv : Inv sim.ens s)
    (hk : (s.obj r).kind = .cell) (hok : (callTree (.leaf r) s).1 = true) :
    (trial sim (.leaf r) false s).2.atoms = s.atoms := by
  have h := cellCall_spec r s
  simp only [trial, callTree, leafCall, hk] at hok ⊢
  rw [hok]
  simp only [if_true, Bool.false_eq_true, if_false, revertState, he]
  obtain ⟨f, hf⟩ : ∃ f, (cellCall r s).2.atoms = deform s.atoms f (s.obj r).scaleAtoms := by
    rcases h.2.2 with ⟨hc, _⟩ | ⟨_, hx⟩
    · rw [hok] at hc; cases hc
    · exact hx
  rw [h.2.1, hinv.lastPos (by rw [he]; simp), hinv.lastCell he]
  have := stripOnly_restore s.atoms _ (deform_strip s.atoms f (s.obj r).scaleAtoms)
  rw [← hf] at this
  exact this

/-- rejected Hamiltonian move: positions **and momenta** restored -/
theorem reject_restores_ham (sim : Sim) (r : Nat) (s : State) (he : sim.ens = .hamiltonian) (hinv : Inv sim.ens s)
    (hk : (s.obj r).kind = .ham) (hok : (callTree (.leaf r) s).1 = true) :
    (trial sim (.leaf r) false s).2.atoms = s.atoms := by
  have h := hamCall_spec r s
  simp only [trial, callTree, leafCall, hk] at hok ⊢
  rw [hok]
  simp only [if_true, Bool.false_eq_true, if_false, revertState, he]
  have haux : AuxOnly s.atoms (hamCall r s).2.atoms := by
    rcases h.2.2 with ⟨hc, _⟩ | ⟨_, hx⟩
    · rw [hok] at hc; cases hc
    · exact hx
  rw [h.2.1, hinv.lastPos (by rw [he]; simp), hinv.lastMom he]
  exact auxOnly_restore _ _ haux

theorem revert_ctx (sim : Sim) (s1 : State) (hadd : s1.ctx.addedIdx = []) (hdel : s1.ctx.deletedIdx = []) :
    (revertState sim s1).ctx.lastPos = s1.ctx.lastPos ∧ (revertState sim s1).ctx.lastCell = s1.ctx.lastCell ∧
    (revertState sim s1).ctx.lastMom = s1.ctx.lastMom ∧ (revertState sim s1).ctx.addedIdx = [] ∧
    (revertState sim s1).ctx.deletedIdx = [] := by
  unfold revertState
  cases sim.ens <;> simp [hadd, hdel]

/-- the invariant is re-established by every outcome of a trial (accepted, rejected, failed) -/
theorem inv_trial (sim : Sim) (t : Tree) (v : Bool) (s : State) (hb : sim.ens ≠ .base) (hinv : Inv sim.ens s)
    (hrs : ∀ r ∈ t.refs, r < s.heap.length) (ht : PosTree s t) :
    Inv sim.ens (trial sim t v s).2 := by
  have hk := callTree_keeps t s hrs ht
  have hfail := callTree_fail t s hrs ht
  unfold trial
  rcases hct : callTree t s with ⟨ok, s1⟩
  rw [hct] at hk hfail
  simp only [] at hfail ⊢
  have hadd : s1.ctx.addedIdx = [] := by
    have := congrArg Ctx.addedIdx hk.ctx; simp only [ctxCore] at this; rw [this, hinv.noAdded]
  have hdel : s1.ctx.deletedIdx = [] := by
    have := congrArg Ctx.deletedIdx hk.ctx; simp only [ctxCore] at this; rw [this, hinv.noDeleted]
  have hlp : s1.ctx.lastPos = s.ctx.lastPos := by
    have := congrArg Ctx.lastPos hk.ctx; simpa [ctxCore] using this
  have hlc : s1.ctx.lastCell = s.ctx.lastCell := by
    have := congrArg Ctx.lastCell hk.ctx; simpa [ctxCore] using this
  have hlm : s1.ctx.lastMom = s.ctx.lastMom := by
    have := congrArg Ctx.lastMom hk.ctx; simpa [ctxCore] using this
  cases ok with
  | false =>
    simp only [Bool.false_eq_true, if_false]
    have ha := hfail rfl
    constructor
    · intro h; rw [hlp, ha]; exact hinv.lastPos h
    · intro h; rw [hlc, ha]; exact hinv.lastCell h
    · intro h; rw [hlm, ha]; exact hinv.lastMom h
    · exact hadd
    · exact hdel
  | true =>
    cases v with
    | false =>
      simp only [if_true, Bool.false_eq_true, if_false]
      have hat := revert_posOnly sim s s1 hb hinv hk.ctx hk.pos
      obtain ⟨c1, c2, c3, c4, c5⟩ := revert_ctx sim s1 hadd hdel
      constructor
      · intro h; rw [c1, hat, hlp]; exact hinv.lastPos h
      · intro h; rw [c2, hat, hlc]; exact hinv.lastCell h
      · intro h; rw [c3, hat, hlm]; exact hinv.lastMom h
      · exact c4
      · exact c5
    | true =>
      simp only [if_true]
      cases he : sim.ens with
      | base => exact absurd he hb
      | canonical => constructor <;> simp_all [saveState, ctxSave]
      | hamiltonian => constructor <;> simp_all [saveState, ctxSave]
      | isobaric =>
        constructor <;> simp_all [saveState, ctxSave]
      | grand => constructor <;> simp_all [saveState, ctxSave]

/-! ### histories: the statement at every position of any accept / reject / fail history -/

/-- one scheduled trial: which table entry, the criteria verdict, and the external inputs it consumes -/
structure TrialSpec where
  tree : Tree
  verdict : Bool
  inp : Inputs

def runTrial (sim : Sim) (tr : TrialSpec) (s : State) : Outcome × State :=
  trial sim tr.tree tr.verdict { s with inp := tr.inp }

def runHistory (sim : Sim) : List TrialSpec → State → State
  | [], s => s
  | tr :: trs, s => runHistory sim trs (runTrial sim tr s).2

/-- all trees of the history are displacement-type trees over valid references -/
def HistoryOK (s : State) (trs : List TrialSpec) : Prop :=
  ∀ tr ∈ trs, (∀ r ∈ tr.tree.refs, r < s.heap.length) ∧ PosTree s tr.tree

theorem historyOK_step (sim : Sim) (tr : TrialSpec) (trs : List TrialSpec) (s : State)
    (h : HistoryOK s (tr :: trs)) : HistoryOK (runTrial sim tr s).2 trs := by
  have htr := h tr (by simp)
  have hsh : SameShape s.heap (runTrial sim tr s).2.heap :=
    trial_shape sim tr.tree tr.verdict { s with inp := tr.inp } htr.1 htr.2
  intro tr' hmem
  have h' := h tr' (by simp [hmem])
  exact ⟨fun r hr => by rw [hsh.1]; exact h'.1 r hr,
         posTree_of_shape s _ _ hsh h'.2⟩

/-- **history_restores**: at every position of any history of accepted, rejected and failed trials, a trial that
    is not accepted leaves the atoms exactly as they were before it. -/
theorem history_restores (sim : Sim) (hb : sim.ens ≠ .base) (pre : List TrialSpec) (tr : TrialSpec)
    (s0 : State) (hinv : Inv sim.ens s0) (hok : HistoryOK s0 (pre ++ [tr])) :
    let s := runHistory sim pre s0
    (runTrial sim tr s).1 ≠ .accepted → (runTrial sim tr s).2.atoms = s.atoms := by
  induction pre generalizing s0 with
  | nil =>
    intro s hna
    have htr := hok tr (by simp)
    show (runTrial sim tr s0).2.atoms = s0.atoms
    have hna : (runTrial sim tr s0).1 ≠ .accepted := hna
    have hinv' : Inv sim.ens { s0 with inp := tr.inp } := ⟨hinv.1, hinv.2, hinv.3, hinv.4, hinv.5⟩
    unfold runTrial at hna ⊢
    cases hc : (callTree tr.tree { s0 with inp := tr.inp }).1 with
    | false => exact (fail_restores sim tr.tree tr.verdict { s0 with inp := tr.inp } htr.1 htr.2 hc).2.1
    | true =>
      cases hv : tr.verdict with
      | false => exact (reject_restores sim tr.tree { s0 with inp := tr.inp } hb hinv' htr.1 htr.2 hc).2
      | true =>
        exfalso; apply hna
        unfold trial
        rcases hct : callTree tr.tree { s0 with inp := tr.inp } with ⟨ok, s1⟩
        rw [hct] at hc; simp only [] at hc; subst hc
        simp [hv]
  | cons p pre ih =>
    intro s hna
    have hp := hok p (by simp)
    have hinv' : Inv sim.ens { s0 with inp := p.inp } := ⟨hinv.1, hinv.2, hinv.3, hinv.4, hinv.5⟩
    have hinv1 : Inv sim.ens (runTrial sim p s0).2 :=
      inv_trial sim p.tree p.verdict { s0 with inp := p.inp } hb hinv' hp.1 hp.2
    exact ih (runTrial sim p s0).2 hinv1 (historyOK_step sim p (pre ++ [tr]) s0 hok) hna

/-! ### non-vacuity: a concrete rejected composite trial under FixAtoms -/

def exSim : Sim := { ens := .canonical, table := [{ name := "a", oid := 0, tree := .compDisp [0, 0] }] }
def exState0 : State :=
  { atoms := { rows := [⟨(0,0,0), (1,0,0), [29, 7]⟩, ⟨(2,0,0), (0,1,0), [29, 8]⟩, ⟨(4,0,0), (0,0,1), [8, 9]⟩],
               cell := (9,9,9), fixed := some [2] },
    heap := [{ kind := .disp, labels := [0, 1, 2], maxAttempts := 2 }],
    ctx := { lastPos := [(0,0,0), (2,0,0), (4,0,0)] },
    inp := { draws := [1, 0], ops := [(1,1,1), (2,0,0), (0,3,0)], checks := [false, true, true] } }

example : Inv exSim.ens exState0 := by constructor <;> simp [exSim, exState0, positions]
example : (callTree (.compDisp [0, 0]) exState0).1 = true ∧
    (callTree (.compDisp [0, 0]) exState0).2.atoms ≠ exState0.atoms ∧
    (trial exSim (.compDisp [0, 0]) false exState0).2.atoms = exState0.atoms := by decide

end MM
