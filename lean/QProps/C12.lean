import QProofs.FixRot
/-!
# C12 — constraints on the atoms are respected

Theorems about `QModel/Constraints.lean` and `QModel/FixRot.lean` at the carrier `ℝ`.  A *history* is any
list of trials — displacement moves (single or composite, any operation: the translation arrays are
arbitrary, any `check_move` verdicts, any `max_attempts`, accepted or rejected), Hamiltonian moves (any force
field, `dt`, step count, draws, verdicts, accepted or rejected) and force-bias steps (any displacement array,
i.e. any delta, temperature and random numbers) — of unbounded length, for any number of atoms.
Constraint application is enabled (`apply = true`), as in the property text.
-/
namespace Constr
open VecFn Verlet Finset

variable {n : ℕ}

/-- **fixatoms_never_move**: with `FixAtoms`, after any history every fixed atom is exactly where it was
    (`s.lastQ` = `context.last_positions`, which the drivers initialise with the atoms' positions). -/
theorem fixatoms_never_move (fixed : Fin n → Bool) (F : Arr n ℝ → Arr n ℝ) (m : Col n ℝ)
    (h : List (Trial n ℝ)) (s : Sys n ℝ) (hlast : ∀ i, fixed i = true → s.lastQ i = s.q i)
    (i : Fin n) (hi : fixed i = true) :
    (runHistory (fixAtoms fixed) true F m h s).q i = s.q i := by
  have h2 : fixedRows fixed s.lastQ = fixedRows fixed s.q := by
    funext j k
    cases hj : fixed j
    · simp [fixedRows, hj]
    · simp [fixedRows, hj, hlast j hj]
  have := (runHistory_J (fixedRows fixed) (fixAtoms fixed) (fixAtoms_pins fixed) F m
    (fixedRows fixed s.q) h s rfl h2).1
  funext k
  have hk := congrFun (congrFun this i) k
  simpa [fixedRows, hi] using hk

/-- non-vacuity: an accepted displacement of both atoms moves the free atom and not the fixed one -/
example (F : Arr 2 ℝ → Arr 2 ℝ) (m : Col 2 ℝ) (s : Sys 2 ℝ) :
    let s' := runHistory (fixAtoms (fun i => decide (i = 0))) true F m
      [.disp [⟨[fun _ _ => 1], [], 1⟩] true] s
    s'.q 0 0 = s.q 0 0 ∧ s'.q 1 0 = s.q 1 0 + 1 := by
  simp [runHistory, runTrial, dispComposite, dispAttempt, dispLoop, setPositions, fixAtoms]

/-- **fixcom_never_drifts**: with `FixCom`, after any history the mass-weighted centre is where it was. -/
theorem fixcom_never_drifts (F : Arr n ℝ → Arr n ℝ) (m : Col n ℝ) (hm : ∀ i, 0 < m i) (hn : 0 < n)
    (h : List (Trial n ℝ)) (s : Sys n ℝ) (hlast : com m s.lastQ = com m s.q) :
    com m (runHistory (fixCom m) true F m h s).q = com m s.q := by
  have hM : (∑ i, m i) ≠ 0 := by
    have : Nonempty (Fin n) := ⟨⟨0, hn⟩⟩
    exact (Finset.sum_pos (fun i _ => hm i) Finset.univ_nonempty).ne'
  exact (runHistory_J (com m) (fixCom m) (fixCom_pins m hM) F m (com m s.q) h s rfl hlast).1

/-- non-vacuity: a force-bias step under `FixCom` still moves atoms (two unit masses, displacement of atom 0
    by `2` along `x`: the atoms move by `+1` and `−1`) -/
example (F : Arr 2 ℝ → Arr 2 ℝ) (s : Sys 2 ℝ) :
    let s' := runHistory (fixCom (fun _ => 1)) true F (fun _ => 1)
      [.fb (fun i k => if i = 0 ∧ k = 0 then 2 else 0) (fun _ _ => 1)] s
    s'.q 0 0 = s.q 0 0 + 1 ∧ s'.q 1 0 = s.q 1 0 - 1 := by
  simp [runHistory, runTrial, setPositions, setMomenta, fixCom, com, sumFin_real, Fin.sum_univ_two]
  constructor <;> ring

/-- **fixrot_zero_angular**: if the inertia tensor about the centre of mass is invertible, the momenta left
    by `FixRot.adjust_momenta` have zero total angular momentum about the centre of mass:
    `Σ rᵢ × (pᵢ − mᵢ ω × rᵢ) = 0` (Mathlib's `crossProduct`). -/
theorem fixrot_zero_angular (m : Col n ℝ) (q p : Arr n ℝ) (hdet : det3 (inertia m (toCom m q)) ≠ 0) :
    ∑ i, crossProduct (toCom m q i) (fixRotAdjust m q p i) = 0 := by
  set r := toCom m q with hr
  have hw : mulVec3 (inertia m r) (omega m r p) = angularMomentum r p := mulVec3_inv3 _ hdet _
  funext k
  rw [Finset.sum_apply]
  simp only [← cross_eq_crossProduct]
  have hsplit : ∀ i, cross (r i) (fixRotAdjust m q p i) k
      = cross (r i) (p i) k - cross (r i) (fun a => cross (omega m r p).get (r i) a * m i) k := by
    intro i
    fin_cases k <;> simp only [cross_zero, cross_one, cross_two, fixRotAdjust_apply, Fin.zero_eta,
      Fin.mk_one, Fin.reduceFinMk, ← hr] <;> ring
  simp only [hsplit, Finset.sum_sub_distrib, sum_cross_cross, hw, angularMomentum_real]
  simp

/-- the same in the model's own terms: the angular momentum the code would compute afterwards is zero -/
theorem fixrot_zero_angular_model (m : Col n ℝ) (q p : Arr n ℝ) (hdet : det3 (inertia m (toCom m q)) ≠ 0) :
    angularMomentum (toCom m q) (fixRotAdjust m q p) = ⟨0, 0, 0⟩ := by
  have key : ∀ k, (angularMomentum (toCom m q) (fixRotAdjust m q p)).get k = 0 := by
    intro k
    have := congrFun (fixrot_zero_angular m q p hdet) k
    rw [Finset.sum_apply] at this
    rw [angularMomentum_real]
    simpa [← cross_eq_crossProduct] using this
  exact V3.ext' (key 0) (key 1) (key 2)

/-- **fixrot_zero_angular** at the strength of the property text: masses `> 0` and positions that are not
    all on one line through the centre of mass ("non-collinear") suffice. -/
theorem fixrot_zero_angular_of_noncollinear (m : Col n ℝ) (q p : Arr n ℝ) (hm : ∀ i, 0 < m i)
    (hnc : ¬ Collinear3 (toCom m q)) :
    ∑ i, crossProduct (toCom m q i) (fixRotAdjust m q p i) = 0 :=
  fixrot_zero_angular m q p (inertia_det_ne_zero m _ hm hnc)

/-- **fixrot_keeps_linear**: the total linear momentum is unchanged, `Σ (pᵢ − mᵢ ω × rᵢ) = Σ pᵢ`
    (uses `Σ mᵢ rᵢ = 0` about the centre of mass; needs only `Σ m ≠ 0`). -/
theorem fixrot_keeps_linear (m : Col n ℝ) (q p : Arr n ℝ) (hM : (∑ i, m i) ≠ 0) :
    ∑ i, fixRotAdjust m q p i = ∑ i, p i := by
  funext k
  simp only [Finset.sum_apply, fixRotAdjust_apply, Finset.sum_sub_distrib]
  have h0 := toCom_centered m q hM 0
  have h1 := toCom_centered m q hM 1
  have h2 := toCom_centered m q hM 2
  set w := (omega m (toCom m q) p).get
  have hz : ∑ i, cross w (toCom m q i) k * m i = 0 := by
    fin_cases k
    · have : ∑ i, cross w (toCom m q i) 0 * m i
          = w 1 * ∑ i, m i * toCom m q i 2 - w 2 * ∑ i, m i * toCom m q i 1 := by
        simp only [cross_zero, Finset.mul_sum, ← Finset.sum_sub_distrib]
        exact Finset.sum_congr rfl (fun i _ => by ring)
      simpa [h1, h2] using this
    · have : ∑ i, cross w (toCom m q i) 1 * m i
          = w 2 * ∑ i, m i * toCom m q i 0 - w 0 * ∑ i, m i * toCom m q i 2 := by
        simp only [cross_one, Finset.mul_sum, ← Finset.sum_sub_distrib]
        exact Finset.sum_congr rfl (fun i _ => by ring)
      simpa [h0, h2] using this
    · have : ∑ i, cross w (toCom m q i) 2 * m i
          = w 0 * ∑ i, m i * toCom m q i 1 - w 1 * ∑ i, m i * toCom m q i 0 := by
        simp only [cross_two, Finset.mul_sum, ← Finset.sum_sub_distrib]
        exact Finset.sum_congr rfl (fun i _ => by ring)
      simpa [h0, h1] using this
  rw [hz, sub_zero]

/-- non-vacuity: three unit masses at `(1,0,0)`, `(0,1,0)`, `(−1,−1,0)` (centre of mass at the origin) are
    not collinear, so the hypotheses of `fixrot_zero_angular_of_noncollinear` are satisfiable -/
example : ¬ Collinear3 (toCom (fun _ : Fin 3 => (1 : ℝ))
    (fun i k => if i = 0 then (if k = 0 then 1 else 0) else if i = 1 then (if k = 1 then 1 else 0)
      else (if k = 2 then 0 else -1))) := by
  rintro ⟨u, hu, h⟩
  apply hu
  have e0 := h 0
  have e1 := h 1
  have a1 := congrFun e0 1
  have a2 := congrFun e0 2
  have b2 := congrFun e1 2
  simp [cross_one, cross_two, toCom_real, Fin.sum_univ_three] at a1 a2 b2
  funext k
  fin_cases k <;> simp <;> linarith

end Constr
