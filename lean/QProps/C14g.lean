import QProofs.VerletEnergy
import Mathlib.Analysis.SpecialFunctions.Trigonometric.Deriv
/-!
# C14g — the energy error of velocity Verlet over a fixed time is `O(dt²)` for every `C³` potential

Closes the clause of C14 left open by `energy_error_quadratic_partial` (harmonic wells only):
*"the total-energy error of a trajectory over a fixed time shrinks quadratically with the time step"*.

Setting.  `Verlet.integrate Cons.none apply F m dt steps` is the coded integrator (`QModel/Verlet.lean`) over `ℝ`
without constraints (`= (Phi F m dt)^[steps]`, `integrate_none`); the energy is
`atoms.get_kinetic_energy() + V(q)` (`ekin m p + V q`).

A. one degree of freedom (`phi1`, `H1 = p²/2m + v(q)`), `v` three times differentiable at the points of a convex
   set `S` (derivatives `v1, v2, v3` given point-wise by `HasDerivAt`), `|v''| ≤ L2`, `|v'''| ≤ L3` on `S`:
* `verlet1_energy_local` — one step: `|H(Φ s) − H(s)| ≤ |dt|³ · Cerr m L2 L3 P G τ` for `|dt| ≤ τ`, `|p| ≤ P`,
  `|v'(q)| ≤ G`, with the explicit constant
  `Cerr m L2 L3 P G τ = 5/12·L3·B³ + L2·B·(2G + τ·L2·B)/(8m)`, `B = (P + τG/2)/m`  (`Cerr_eq`).
* `verlet1_energy_error_quadratic` — `N` steps: `≤ N·|dt|³·Cerr`, and `≤ T·Cerr·dt²` if `N|dt| ≤ T`.

B. the coded integrator, `n` atoms, separable potential `V(q) = Σ_{i,a} v_{i,a}(q_{i,a})` (`sepPot`, `sepForce`,
   `sepEnergy`):
* `verlet_phi_coordinate` — the project's `Phi` with a component-wise force is `phi1` in every coordinate.
* `verlet_energy_error_quadratic` — `|ΔE| ≤ steps·|dt|³·Σ_i 3·Cerr m_i L2 L3 P G τ`, and `≤ T·(Σ…)·dt²`.
* `verlet_energy_error_quadratic_contDiff` — for *every* family of `C³` functions (`ContDiff ℝ 3`) and every box
  `|q| ≤ R`, `|p| ≤ P` there is a constant `C` with `|ΔE| ≤ C·T·dt²` for all trajectories staying in the box.
* instances: `verlet1_cos_local`, `verlet_cos_energy_error_quadratic` (cosine potential, no hypothesis on the
  trajectory left), `verlet_quartic_energy_error_quadratic` (the model's `quarticForce`).

C. the coded integrator, `n` atoms, arbitrary (non-separable) potential `V : ℝ^{n×3} → ℝ`:
* `verlet_energy_error_quadratic_general` — `V` is `C³` at the points of a convex set `S`, `‖D²V‖ ≤ L2`,
  `‖D³V‖ ≤ L3` there, `F = −∇V`: `|ΔE| ≤ steps·|dt|³·Cgen μ m L2 L3 P G τ`, and `≤ T·Cgen·dt²` (`Cgen_eq`).
* `verlet_energy_error_quadratic_general_contDiff` — for *every* `ContDiff ℝ 3 V`, `F = −∇V`, and every box there
  is `C` with `|ΔE| ≤ C·T·dt²` for all trajectories staying in the box.

Hypothesis kept in all global statements: the trajectory stays in a bounded region (it is not derived from
energy conservation; every finite trajectory stays in *some* box, last `example`).
-/
namespace Verlet
open VecFn Finset Energy

variable {n : ℕ}

/-! ## one degree of freedom -/

/-- **verlet1_energy_local** (local error, one degree of freedom).  `v` has derivatives `v1, v2, v3` at the
    points of the convex set `S`, `|v2| ≤ L2`, `|v3| ≤ L3` on `S`; one velocity-Verlet step `phi1` with force
    `−v1`, mass `m > 0`, `|dt| ≤ τ`, from a state `s = (q, p)` with `q, q' ∈ S`, `|p| ≤ P`, `|v1 q| ≤ G`
    changes the energy `H1 = p²/2m + v(q)` by at most `|dt|³ · Cerr m L2 L3 P G τ`. -/
theorem verlet1_energy_local {S : Set ℝ} (hS : Convex ℝ S) (v v1 v2 v3 : ℝ → ℝ) (L2 L3 : ℝ)
    (hd0 : ∀ x ∈ S, HasDerivAt v (v1 x) x) (hd1 : ∀ x ∈ S, HasDerivAt v1 (v2 x) x)
    (hd2 : ∀ x ∈ S, HasDerivAt v2 (v3 x) x)
    (hb2 : ∀ x ∈ S, |v2 x| ≤ L2) (hb3 : ∀ x ∈ S, |v3 x| ≤ L3)
    (m dt τ P G : ℝ) (hm : 0 < m) (hdt : |dt| ≤ τ) (s : ℝ × ℝ)
    (hq : s.1 ∈ S) (hq' : (phi1 (fun x => -v1 x) m dt s).1 ∈ S) (hp : |s.2| ≤ P) (hG : |v1 s.1| ≤ G) :
    |H1 v m (phi1 (fun x => -v1 x) m dt s) - H1 v m s| ≤ |dt| ^ 3 * Cerr m L2 L3 P G τ :=
  phi1_energy_local hS ⟨hd0, hd1, hd2, hb2, hb3⟩ hm hdt s hq hq' hp hG

/-- the constant, spelled out -/
theorem Cerr_eq (m L2 L3 P G τ : ℝ) :
    Cerr m L2 L3 P G τ = 5 / 12 * L3 * ((P + τ * G / 2) / m) ^ 3
      + L2 * ((P + τ * G / 2) / m) * (2 * G + τ * L2 * ((P + τ * G / 2) / m)) / (8 * m) := rfl

/-- **verlet1_energy_error_quadratic** (global error, one degree of freedom): along `N` steps that stay in
    `S` with `|p_k| ≤ P`, `|v1 q_k| ≤ G` the energy error is at most `N·|dt|³·Cerr`; hence at most
    `T·Cerr·dt²` when `N·|dt| ≤ T`. -/
theorem verlet1_energy_error_quadratic {S : Set ℝ} (hS : Convex ℝ S) (v v1 v2 v3 : ℝ → ℝ) (L2 L3 : ℝ)
    (hd0 : ∀ x ∈ S, HasDerivAt v (v1 x) x) (hd1 : ∀ x ∈ S, HasDerivAt v1 (v2 x) x)
    (hd2 : ∀ x ∈ S, HasDerivAt v2 (v3 x) x)
    (hb2 : ∀ x ∈ S, |v2 x| ≤ L2) (hb3 : ∀ x ∈ S, |v3 x| ≤ L3)
    (m dt τ P G : ℝ) (hm : 0 < m) (hdt : |dt| ≤ τ) (N : ℕ) (s : ℝ × ℝ)
    (htraj : ∀ k ≤ N, ((phi1 (fun x => -v1 x) m dt)^[k] s).1 ∈ S ∧
      |((phi1 (fun x => -v1 x) m dt)^[k] s).2| ≤ P ∧ |v1 ((phi1 (fun x => -v1 x) m dt)^[k] s).1| ≤ G) :
    |H1 v m ((phi1 (fun x => -v1 x) m dt)^[N] s) - H1 v m s| ≤ N * |dt| ^ 3 * Cerr m L2 L3 P G τ
    ∧ ∀ T : ℝ, N * |dt| ≤ T →
      |H1 v m ((phi1 (fun x => -v1 x) m dt)^[N] s) - H1 v m s| ≤ T * Cerr m L2 L3 P G τ * dt ^ 2 := by
  have h1 := phi1_energy_global hS ⟨hd0, hd1, hd2, hb2, hb3⟩ hm hdt s N (fun k hk => (htraj k hk).1)
    (fun k hk => (htraj k hk.le).2.1) (fun k hk => (htraj k hk.le).2.2)
  have h0 := htraj 0 (Nat.zero_le N)
  have hC : 0 ≤ Cerr m L2 L3 P G τ :=
    Cerr_nonneg hm (le_trans (abs_nonneg _) (hb2 _ h0.1)) (le_trans (abs_nonneg _) (hb3 _ h0.1))
      (le_trans (abs_nonneg _) h0.2.1) (le_trans (abs_nonneg _) h0.2.2) (le_trans (abs_nonneg _) hdt)
  refine ⟨by rw [mul_assoc]; exact h1, fun T hT => le_trans h1 ?_⟩
  calc (N : ℝ) * (|dt| ^ 3 * Cerr m L2 L3 P G τ)
      = (N * |dt|) * (Cerr m L2 L3 P G τ * dt ^ 2) := by rw [← sq_abs dt]; ring
    _ ≤ T * (Cerr m L2 L3 P G τ * dt ^ 2) :=
        mul_le_mul_of_nonneg_right hT (mul_nonneg hC (sq_nonneg dt))
    _ = T * Cerr m L2 L3 P G τ * dt ^ 2 := by ring

/-- **verlet1_energy_local_contDiff**: the local error in the form of the brief — `v` three times continuously
    differentiable with `|v''| ≤ L2`, `|v'''| ≤ L3` everywhere, `F = −v'`, `|dt| ≤ 1`:
    `|H(q',p') − H(q,p)| ≤ |dt|³ · C(m, L2, L3, |p|, |F(q)|)`, `C = Cerr · · · · · 1`. -/
theorem verlet1_energy_local_contDiff (v : ℝ → ℝ) (hv : ContDiff ℝ 3 v) (L2 L3 : ℝ)
    (hb2 : ∀ x, |deriv (deriv v) x| ≤ L2) (hb3 : ∀ x, |deriv (deriv (deriv v)) x| ≤ L3)
    (m dt : ℝ) (hm : 0 < m) (hdt : |dt| ≤ 1) (s : ℝ × ℝ) :
    |H1 v m (phi1 (fun x => -deriv v x) m dt s) - H1 v m s|
      ≤ |dt| ^ 3 * Cerr m L2 L3 |s.2| |-deriv v s.1| 1 := by
  obtain ⟨c0, c1, c2, -⟩ := contDiff_three_chain hv
  exact verlet1_energy_local convex_univ v (deriv v) (deriv (deriv v)) (deriv (deriv (deriv v))) L2 L3
    (fun x _ => c0 x) (fun x _ => c1 x) (fun x _ => c2 x) (fun x _ => hb2 x) (fun x _ => hb3 x)
    m dt 1 |s.2| |-deriv v s.1| hm hdt s (Set.mem_univ _) (Set.mem_univ _) le_rfl
    (by rw [abs_neg])

/-- **verlet1_energy_error_quadratic_contDiff**: the global error in the form of the brief — if along the first
    `N` steps `|p_k| ≤ P` and `|F(q_k)| ≤ G`, then `|H(s_N) − H(s_0)| ≤ N·|dt|³·C(m,L2,L3,P,G)`, hence
    `≤ T·C·dt²` for `N·|dt| ≤ T`. -/
theorem verlet1_energy_error_quadratic_contDiff (v : ℝ → ℝ) (hv : ContDiff ℝ 3 v) (L2 L3 : ℝ)
    (hb2 : ∀ x, |deriv (deriv v) x| ≤ L2) (hb3 : ∀ x, |deriv (deriv (deriv v)) x| ≤ L3)
    (m dt P G : ℝ) (hm : 0 < m) (hdt : |dt| ≤ 1) (N : ℕ) (s : ℝ × ℝ)
    (htraj : ∀ k ≤ N, |((phi1 (fun x => -deriv v x) m dt)^[k] s).2| ≤ P ∧
      |-deriv v ((phi1 (fun x => -deriv v x) m dt)^[k] s).1| ≤ G) :
    |H1 v m ((phi1 (fun x => -deriv v x) m dt)^[N] s) - H1 v m s| ≤ N * |dt| ^ 3 * Cerr m L2 L3 P G 1
    ∧ ∀ T : ℝ, N * |dt| ≤ T →
      |H1 v m ((phi1 (fun x => -deriv v x) m dt)^[N] s) - H1 v m s| ≤ T * Cerr m L2 L3 P G 1 * dt ^ 2 := by
  obtain ⟨c0, c1, c2, -⟩ := contDiff_three_chain hv
  exact verlet1_energy_error_quadratic convex_univ v (deriv v) (deriv (deriv v))
    (deriv (deriv (deriv v))) L2 L3
    (fun x _ => c0 x) (fun x _ => c1 x) (fun x _ => c2 x) (fun x _ => hb2 x) (fun x _ => hb3 x)
    m dt 1 P G hm hdt N s
    (fun k hk => ⟨Set.mem_univ _, (htraj k hk).1, by rw [← abs_neg]; exact (htraj k hk).2⟩)

/-! ## the coded integrator, separable potentials -/

/-- **verlet_phi_coordinate**: the project's velocity-Verlet map `Phi` with a component-wise force
    `F(q)_{i,a} = −v1_{i,a}(q_{i,a})` acts on the coordinate `(i,a)` exactly as the one-degree-of-freedom map
    `phi1` with force `−v1_{i,a}` and mass `m_i` — also after any number of steps. -/
theorem verlet_phi_coordinate (v1 : Fin n → Fin 3 → ℝ → ℝ) (m : Col n ℝ) (dt : ℝ) (k : ℕ) (s : St n ℝ)
    (i : Fin n) (a : Fin 3) :
    (((Phi (sepForce v1) m dt)^[k] s).q i a, ((Phi (sepForce v1) m dt)^[k] s).p i a)
      = (phi1 (fun x => -v1 i a x) (m i) dt)^[k] (s.q i a, s.p i a) :=
  Phi_sep_iter_coord v1 m dt k s i a

/-- the energy is the sum of the one-degree-of-freedom energies -/
theorem sepEnergy_eq (v : Fin n → Fin 3 → ℝ → ℝ) (m : Col n ℝ) (s : St n ℝ) :
    sepEnergy v m s = ∑ i, ∑ a, (s.p i a ^ 2 / (2 * m i) + v i a (s.q i a)) :=
  sepEnergy_eq_sum v m s

/-- **verlet_energy_error_quadratic**.  `Verlet.integrate` without constraints (both values of
    `apply_constraints`), `n` atoms, masses `> 0`, `dt ≠ 0`, `|dt| ≤ τ`; separable potential with
    `|v''| ≤ L2`, `|v'''| ≤ L3` on the convex set `S`.  If during the first `steps` steps every coordinate stays
    in `S`, every momentum component is `≤ P` and every force component `≤ G` in absolute value, then

    `|E(s_steps) − E(s_0)| ≤ steps · |dt|³ · Σ_i 3·Cerr m_i L2 L3 P G τ`,

    and therefore `≤ T · (Σ_i 3·Cerr …) · dt²` whenever `steps·|dt| ≤ T`: over a fixed time the energy error
    is `O(dt²)`, with an explicit constant. -/
theorem verlet_energy_error_quadratic (apply : Bool) {S : Set ℝ} (hS : Convex ℝ S)
    (v v1 v2 v3 : Fin n → Fin 3 → ℝ → ℝ) (L2 L3 : ℝ)
    (hd0 : ∀ i a, ∀ x ∈ S, HasDerivAt (v i a) (v1 i a x) x)
    (hd1 : ∀ i a, ∀ x ∈ S, HasDerivAt (v1 i a) (v2 i a x) x)
    (hd2 : ∀ i a, ∀ x ∈ S, HasDerivAt (v2 i a) (v3 i a x) x)
    (hb2 : ∀ i a, ∀ x ∈ S, |v2 i a x| ≤ L2) (hb3 : ∀ i a, ∀ x ∈ S, |v3 i a x| ≤ L3)
    (m : Col n ℝ) (hm : ∀ i, 0 < m i) (dt τ : ℝ) (hdt0 : dt ≠ 0) (hdt : |dt| ≤ τ)
    (P G : ℝ) (steps : ℕ) (s : St n ℝ)
    (htraj : ∀ k ≤ steps, ∀ i a,
      (integrate Cons.none apply (sepForce v1) m dt k s).q i a ∈ S ∧
      |(integrate Cons.none apply (sepForce v1) m dt k s).p i a| ≤ P ∧
      |sepForce v1 (integrate Cons.none apply (sepForce v1) m dt k s).q i a| ≤ G) :
    |sepEnergy v m (integrate Cons.none apply (sepForce v1) m dt steps s) - sepEnergy v m s|
        ≤ steps * |dt| ^ 3 * ∑ i, 3 * Cerr (m i) L2 L3 P G τ
    ∧ ∀ T : ℝ, steps * |dt| ≤ T →
      |sepEnergy v m (integrate Cons.none apply (sepForce v1) m dt steps s) - sepEnergy v m s|
        ≤ T * (∑ i, 3 * Cerr (m i) L2 L3 P G τ) * dt ^ 2 := by
  have hm' : ∀ i, m i ≠ 0 := fun i => (hm i).ne'
  simp only [integrate_none apply _ m dt hm' hdt0] at htraj ⊢
  have h1 := Phi_sep_energy_global (S := fun _ _ => S) (fun _ _ => hS) (L2 := fun _ _ => L2)
    (L3 := fun _ _ => L3) (fun i a => ⟨hd0 i a, hd1 i a, hd2 i a, hb2 i a, hb3 i a⟩) hm hdt s steps
    (fun k hk i a => (htraj k hk i a).1) (fun k hk i a => (htraj k hk.le i a).2.1)
    (fun k hk i a => (htraj k hk.le i a).2.2)
  have e3 : ∀ i, ∑ _a : Fin 3, Cerr (m i) L2 L3 P G τ = 3 * Cerr (m i) L2 L3 P G τ := by
    intro i
    simp [Finset.sum_const]
  simp only [e3] at h1
  have hC : 0 ≤ ∑ i, 3 * Cerr (m i) L2 L3 P G τ := by
    refine Finset.sum_nonneg (fun i _ => ?_)
    have h0 := htraj 0 (Nat.zero_le steps) i 0
    have := Cerr_nonneg (hm i) (le_trans (abs_nonneg _) (hb2 i 0 _ h0.1))
      (le_trans (abs_nonneg _) (hb3 i 0 _ h0.1)) (le_trans (abs_nonneg _) h0.2.1)
      (le_trans (abs_nonneg _) h0.2.2) (le_trans (abs_nonneg _) hdt)
    linarith
  refine ⟨by rw [mul_assoc]; exact h1, fun T hT => le_trans h1 ?_⟩
  calc (steps : ℝ) * (|dt| ^ 3 * ∑ i, 3 * Cerr (m i) L2 L3 P G τ)
      = (steps * |dt|) * ((∑ i, 3 * Cerr (m i) L2 L3 P G τ) * dt ^ 2) := by rw [← sq_abs dt]; ring
    _ ≤ T * ((∑ i, 3 * Cerr (m i) L2 L3 P G τ) * dt ^ 2) :=
        mul_le_mul_of_nonneg_right hT (mul_nonneg hC (sq_nonneg dt))
    _ = T * (∑ i, 3 * Cerr (m i) L2 L3 P G τ) * dt ^ 2 := by ring

/-! ## every `C³` potential -/

/-- **verlet_energy_error_quadratic_contDiff**.  For *every* family of three times continuously
    differentiable potentials `v_{i,a}` (`ContDiff ℝ 3`, nothing else), force `−v'`, masses `> 0`, and every
    box `|q_{i,a}| ≤ R`, `|p_{i,a}| ≤ P`, there is a constant `C` such that every trajectory of the coded
    integrator (any `dt ≠ 0` with `|dt| ≤ 1`, any number of steps, any start) that stays in the box has
    `|E(s_steps) − E(s_0)| ≤ C · T · dt²` whenever `steps·|dt| ≤ T`. -/
theorem verlet_energy_error_quadratic_contDiff (v : Fin n → Fin 3 → ℝ → ℝ)
    (hv : ∀ i a, ContDiff ℝ 3 (v i a)) (m : Col n ℝ) (hm : ∀ i, 0 < m i) (R P : ℝ) :
    ∃ C : ℝ, 0 ≤ C ∧ ∀ (apply : Bool) (dt : ℝ) (steps : ℕ) (s : St n ℝ) (T : ℝ),
      dt ≠ 0 → |dt| ≤ 1 → steps * |dt| ≤ T →
      (∀ k ≤ steps, ∀ i a,
        |(integrate Cons.none apply (sepForce (fun i a => deriv (v i a))) m dt k s).q i a| ≤ R ∧
        |(integrate Cons.none apply (sepForce (fun i a => deriv (v i a))) m dt k s).p i a| ≤ P) →
      |sepEnergy v m (integrate Cons.none apply (sepForce (fun i a => deriv (v i a))) m dt steps s)
        - sepEnergy v m s| ≤ C * T * dt ^ 2 := by
  obtain ⟨L2, L3, G, hL2, hL3, hG0, hsm, hG⟩ := exists_bounds_of_contDiff hv R
  refine ⟨∑ i, 3 * Cerr (m i) L2 L3 |P| G 1, ?_, ?_⟩
  · refine Finset.sum_nonneg (fun i _ => ?_)
    have := Cerr_nonneg (hm i) hL2 hL3 (abs_nonneg P) hG0 zero_le_one
    linarith
  · intro apply dt steps s T hdt0 hdt hT htraj
    have h := (verlet_energy_error_quadratic apply (convex_Icc (-R) R) v (fun i a => deriv (v i a))
      (fun i a => deriv (deriv (v i a))) (fun i a => deriv (deriv (deriv (v i a)))) L2 L3
      (fun i a => (hsm i a).d0) (fun i a => (hsm i a).d1) (fun i a => (hsm i a).d2)
      (fun i a => (hsm i a).b2) (fun i a => (hsm i a).b3) m hm dt 1 hdt0 hdt |P| G steps s
      (fun k hk i a => by
        obtain ⟨h1, h2⟩ := htraj k hk i a
        have hmem := abs_le.1 h1
        refine ⟨⟨hmem.1, hmem.2⟩, le_trans h2 (le_abs_self P), ?_⟩
        simp only [sepForce, abs_neg]
        exact hG i a _ ⟨hmem.1, hmem.2⟩)).2 T hT
    calc _ ≤ T * (∑ i, 3 * Cerr (m i) L2 L3 |P| G 1) * dt ^ 2 := h
      _ = (∑ i, 3 * Cerr (m i) L2 L3 |P| G 1) * T * dt ^ 2 := by ring

/-! ## instance: the cosine potential (`L2 = L3 = G = 1` globally) -/

/-- one step for `v = cos` (force `sin`): no hypothesis on the state is left -/
theorem verlet1_cos_local (m dt : ℝ) (hm : 0 < m) (hdt : |dt| ≤ 1) (s : ℝ × ℝ) :
    |H1 Real.cos m (phi1 Real.sin m dt s) - H1 Real.cos m s| ≤ |dt| ^ 3 * Cerr m 1 1 |s.2| 1 1 := by
  have h := verlet1_energy_local convex_univ Real.cos (fun x => -Real.sin x) (fun x => -Real.cos x)
    Real.sin 1 1
    (fun x _ => Real.hasDerivAt_cos x) (fun x _ => (Real.hasDerivAt_sin x).neg)
    (fun x _ => ((Real.hasDerivAt_cos x).neg).congr_deriv (neg_neg _))
    (fun x _ => by rw [abs_neg]; exact Real.abs_cos_le_one x) (fun x _ => Real.abs_sin_le_one x)
    m dt 1 |s.2| 1 hm hdt s (Set.mem_univ _) (Set.mem_univ _) le_rfl
    (by rw [abs_neg]; exact Real.abs_sin_le_one _)
  have e : (fun x => - -Real.sin x) = Real.sin := by funext x; exact neg_neg _
  rwa [e] at h

/-- **verlet_cos_energy_error_quadratic**: `n` atoms in the potential `Σ cos(q_{i,a})`, the coded
    integrator, `|dt| ≤ 1`, any start with `|p_{i,a}| ≤ P0`, any number of steps with `steps·|dt| ≤ T`:
    `|E(s_steps) − E(s_0)| ≤ T · (Σ_i 3·Cerr m_i 1 1 (P0 + T) 1 1) · dt²` — no hypothesis on the
    trajectory is left (the momenta grow by at most `|dt|` per step because `|sin| ≤ 1`). -/
theorem verlet_cos_energy_error_quadratic (apply : Bool) (m : Col n ℝ) (hm : ∀ i, 0 < m i) (dt : ℝ)
    (hdt0 : dt ≠ 0) (hdt : |dt| ≤ 1) (P0 : ℝ) (steps : ℕ) (s : St n ℝ) (hP0 : ∀ i a, |s.p i a| ≤ P0)
    (T : ℝ) (hT : steps * |dt| ≤ T) :
    |sepEnergy (fun _ _ => Real.cos) m
        (integrate Cons.none apply (sepForce (fun _ _ x => -Real.sin x)) m dt steps s)
      - sepEnergy (fun _ _ => Real.cos) m s| ≤ T * (∑ i, 3 * Cerr (m i) 1 1 (P0 + T) 1 1) * dt ^ 2 := by
  have hm' : ∀ i, m i ≠ 0 := fun i => (hm i).ne'
  have hT0 : 0 ≤ T := le_trans (by positivity) hT
  have hmom : ∀ k ≤ steps, ∀ i a,
      |(integrate Cons.none apply (sepForce (fun _ _ x => -Real.sin x)) m dt k s).p i a|
        ≤ P0 + steps * |dt| := by
    intro k hk i a
    rw [integrate_none apply _ m dt hm' hdt0]
    have e := congrArg Prod.snd (Phi_sep_iter_coord (fun _ _ x => -Real.sin x) m dt k s i a)
    simp only [coord] at e
    rw [e]
    have hb := phi1_momentum_bound (f := fun x => - -Real.sin x) (G := 1)
      (fun x => by rw [abs_neg, abs_neg]; exact Real.abs_sin_le_one x) (m i) dt (s.q i a, s.p i a) k
    have hk' : (k : ℝ) * |dt| ≤ steps * |dt| :=
      mul_le_mul_of_nonneg_right (by exact_mod_cast hk) (abs_nonneg _)
    have := hP0 i a
    simp only [mul_one] at hb
    linarith
  have h := (verlet_energy_error_quadratic apply convex_univ (fun _ _ => Real.cos)
    (fun _ _ x => -Real.sin x) (fun _ _ x => -Real.cos x) (fun _ _ => Real.sin) 1 1
    (fun _ _ x _ => Real.hasDerivAt_cos x) (fun _ _ x _ => (Real.hasDerivAt_sin x).neg)
    (fun _ _ x _ => ((Real.hasDerivAt_cos x).neg).congr_deriv (neg_neg _))
    (fun _ _ x _ => by rw [abs_neg]; exact Real.abs_cos_le_one x)
    (fun _ _ x _ => Real.abs_sin_le_one x) m hm dt 1 hdt0 hdt (P0 + steps * |dt|) 1 steps s
    (fun k hk i a => ⟨Set.mem_univ _, hmom k hk i a, by
      simp only [sepForce, abs_neg]; exact Real.abs_sin_le_one _⟩)).2 T hT
  refine le_trans h ?_
  have hsum : (∑ i, 3 * Cerr (m i) 1 1 (P0 + steps * |dt|) 1 1)
      ≤ ∑ i, 3 * Cerr (m i) 1 1 (P0 + T) 1 1 := by
    refine Finset.sum_le_sum (fun i _ => ?_)
    have hP00 : 0 ≤ P0 := le_trans (abs_nonneg _) (hP0 i 0)
    have := Cerr_mono_P (hm i) zero_le_one zero_le_one
      (add_nonneg hP00 (by positivity) : (0 : ℝ) ≤ P0 + steps * |dt|)
      (by linarith : P0 + steps * |dt| ≤ P0 + T) zero_le_one zero_le_one
    linarith
  exact mul_le_mul_of_nonneg_right (mul_le_mul_of_nonneg_left hsum hT0) (sq_nonneg dt)

/-- non-vacuity of the trajectory hypothesis of `verlet_energy_error_quadratic`: for the cosine potential
    every finite trajectory satisfies it with `S = univ`, `G = 1` and some `P` -/
example (apply : Bool) (m : Col n ℝ) (dt : ℝ) (steps : ℕ) (s : St n ℝ) :
    ∃ P, ∀ k ≤ steps, ∀ i a,
      (integrate Cons.none apply (sepForce (fun _ _ x => -Real.sin x)) m dt k s).q i a ∈ (Set.univ : Set ℝ) ∧
      |(integrate Cons.none apply (sepForce (fun _ _ x => -Real.sin x)) m dt k s).p i a| ≤ P ∧
      |sepForce (fun _ _ x => -Real.sin x)
        (integrate Cons.none apply (sepForce (fun _ _ x => -Real.sin x)) m dt k s).q i a| ≤ 1 := by
  obtain ⟨P, hP⟩ := exists_traj_bound
    (fun k => (integrate Cons.none apply (sepForce (fun _ _ x => -Real.sin x)) m dt k s).p) steps
  exact ⟨P, fun k hk i a => ⟨Set.mem_univ _, hP k hk i a, by
    simp only [sepForce, abs_neg]; exact Real.abs_sin_le_one _⟩⟩

/-- the bound is not trivially `0 ≤ 0`: one step of the pendulum from `(q, p) = (π/2, 0)`, `m = dt = 1`, changes
    the energy (by `cos(π/2 + 1/2) = −sin(1/2) < 0` in the potential, `(1/2 + cos(1/2)/2)²/2` in the kinetic part) -/
example : (phi1 Real.sin 1 1 (Real.pi / 2, 0)).1 = Real.pi / 2 + 1 / 2 := by
  simp [phi1]

/-! ## instance: the model's quartic wells `quarticForce k g ctr` -/

/-- **verlet_quartic_energy_error_quadratic**: the model's component-wise quartic wells
    (`F = −kᵢ x − gᵢ x³`, `x = q − ctr`; energy `Σ ½ kᵢ x² + ¼ gᵢ x⁴` plus kinetic energy).  If during the first
    `steps` steps every coordinate stays within `R` of its centre, `|p| ≤ P`, `|F| ≤ G`, then
    `|E(s_steps) − E(s_0)| ≤ steps·|dt|³·Σ_i 3·Cerr m_i (|kᵢ| + 3|gᵢ|R²) (6|gᵢ|R) P G τ`. -/
theorem verlet_quartic_energy_error_quadratic (apply : Bool) (k g : Col n ℝ) (ctr : Arr n ℝ)
    (m : Col n ℝ) (hm : ∀ i, 0 < m i) (dt τ : ℝ) (hdt0 : dt ≠ 0) (hdt : |dt| ≤ τ)
    (R P G : ℝ) (steps : ℕ) (s : St n ℝ)
    (htraj : ∀ j ≤ steps, ∀ i a,
      |(integrate Cons.none apply (quarticForce k g ctr) m dt j s).q i a - ctr i a| ≤ R ∧
      |(integrate Cons.none apply (quarticForce k g ctr) m dt j s).p i a| ≤ P ∧
      |quarticForce k g ctr (integrate Cons.none apply (quarticForce k g ctr) m dt j s).q i a| ≤ G) :
    |sepEnergy (quarticV k g ctr) m (integrate Cons.none apply (quarticForce k g ctr) m dt steps s)
        - sepEnergy (quarticV k g ctr) m s|
      ≤ steps * |dt| ^ 3 * ∑ i, 3 * Cerr (m i) (|k i| + 3 * |g i| * R ^ 2) (6 * |g i| * R) P G τ := by
  have hm' : ∀ i, m i ≠ 0 := fun i => (hm i).ne'
  rw [quarticForce_eq_sepForce] at htraj ⊢
  simp only [integrate_none apply _ m dt hm' hdt0] at htraj ⊢
  have h1 := Phi_sep_energy_global (S := fun i a => Set.Icc (ctr i a - R) (ctr i a + R))
    (fun i a => convex_Icc _ _) (v := quarticV k g ctr) (v1 := quarticV1 k g ctr)
    (v2 := fun i a y => k i + 3 * g i * (y - ctr i a) ^ 2) (v3 := fun i a y => 6 * g i * (y - ctr i a))
    (L2 := fun i _ => |k i| + 3 * |g i| * R ^ 2) (L3 := fun i _ => 6 * |g i| * R)
    (fun i a => quartic_smoothOn (k i) (g i) (ctr i a) R) hm hdt s steps
    (fun j hj i a => by
      have := abs_le.1 (htraj j hj i a).1
      exact ⟨by linarith [this.1], by linarith [this.2]⟩)
    (fun j hj i a => (htraj j hj.le i a).2.1) (fun j hj i a => (htraj j hj.le i a).2.2)
  have e3 : ∀ i, ∑ _a : Fin 3, Cerr (m i) (|k i| + 3 * |g i| * R ^ 2) (6 * |g i| * R) P G τ
      = 3 * Cerr (m i) (|k i| + 3 * |g i| * R ^ 2) (6 * |g i| * R) P G τ := by
    intro i
    simp [Finset.sum_const]
  simp only [e3] at h1
  rw [mul_assoc]
  exact h1

/-! ## general (non-separable) potentials -/

/-- the constant for general potentials, spelled out (`μ` = lower bound of the masses) -/
theorem Cgen_eq (μ : ℝ) (m : Col n ℝ) (L2 L3 P G τ : ℝ) :
    Cgen μ m L2 L3 P G τ = 5 / 12 * L3 * ((P + τ * G / 2) / μ) ^ 3
      + ∑ i, 3 * (L2 * ((P + τ * G / 2) / μ) * (2 * G + τ * L2 * ((P + τ * G / 2) / μ)) / (8 * m i)) :=
  rfl

/-- **verlet_energy_error_quadratic_general**.  Arbitrary (non-separable) potential `V : ℝ^{n×3} → ℝ` that is
    `C³` at the points of a convex set `S` with `‖D²V‖ ≤ L2`, `‖D³V‖ ≤ L3` there (operator norms of the
    Fréchet derivatives w.r.t. the sup norm), force `F = −∇V` on `S` (`DV(x)[h] = −Σ F(x)_{i,a} h_{i,a}`), masses
    `≥ μ > 0`, the coded integrator without constraints, `dt ≠ 0`, `|dt| ≤ τ`.  If during the first `steps`
    steps the configuration stays in `S`, `|p_{i,a}| ≤ P` and `|F_{i,a}| ≤ G`, then

    `|E(s_steps) − E(s_0)| ≤ steps·|dt|³·Cgen μ m L2 L3 P G τ`  and  `≤ T·Cgen·dt²` if `steps·|dt| ≤ T`,

    `E = atoms.get_kinetic_energy() + V(q)`. -/
theorem verlet_energy_error_quadratic_general (apply : Bool) {S : Set (Arr n ℝ)} (hS : Convex ℝ S)
    (V : Arr n ℝ → ℝ) (F : Arr n ℝ → Arr n ℝ) (L2 L3 : ℝ)
    (hV : ∀ x ∈ S, ContDiffAt ℝ 3 V x)
    (hF : ∀ x ∈ S, ∀ h : Arr n ℝ, fderiv ℝ V x h = -∑ i, ∑ a, F x i a * h i a)
    (hb2 : ∀ x ∈ S, ‖iteratedFDeriv ℝ 2 V x‖ ≤ L2) (hb3 : ∀ x ∈ S, ‖iteratedFDeriv ℝ 3 V x‖ ≤ L3)
    (m : Col n ℝ) (μ : ℝ) (hμ : 0 < μ) (hm : ∀ i, μ ≤ m i) (dt τ : ℝ) (hdt0 : dt ≠ 0) (hdt : |dt| ≤ τ)
    (P G : ℝ) (hP0 : 0 ≤ P) (hG0 : 0 ≤ G) (steps : ℕ) (s : St n ℝ)
    (htraj : ∀ k ≤ steps, (integrate Cons.none apply F m dt k s).q ∈ S ∧
      ∀ i a, |(integrate Cons.none apply F m dt k s).p i a| ≤ P ∧
        |F (integrate Cons.none apply F m dt k s).q i a| ≤ G) :
    |genEnergy V m (integrate Cons.none apply F m dt steps s) - genEnergy V m s|
        ≤ steps * |dt| ^ 3 * Cgen μ m L2 L3 P G τ
    ∧ ∀ T : ℝ, steps * |dt| ≤ T →
      |genEnergy V m (integrate Cons.none apply F m dt steps s) - genEnergy V m s|
        ≤ T * Cgen μ m L2 L3 P G τ * dt ^ 2 := by
  have hmpos : ∀ i, 0 < m i := fun i => lt_of_lt_of_le hμ (hm i)
  have hm' : ∀ i, m i ≠ 0 := fun i => (hmpos i).ne'
  simp only [integrate_none apply _ m dt hm' hdt0] at htraj ⊢
  have h0 := (htraj 0 (Nat.zero_le steps)).1
  have hL2 : 0 ≤ L2 := le_trans (norm_nonneg _) (hb2 _ h0)
  have hL3 : 0 ≤ L3 := le_trans (norm_nonneg _) (hb3 _ h0)
  have h1 := Phi_energy_global (lineSmooth_of_contDiffAt hS hV hF hb2 hb3) hL2 hμ hm hP0 hG0 hdt s steps
    (fun k hk => (htraj k hk).1) (fun k hk i a => ((htraj k hk.le).2 i a).1)
    (fun k hk i a => ((htraj k hk.le).2 i a).2)
  have hC : 0 ≤ Cgen μ m L2 L3 P G τ :=
    Cgen_nonneg hμ hmpos hL2 hL3 hP0 hG0 (le_trans (abs_nonneg _) hdt)
  refine ⟨by rw [mul_assoc]; exact h1, fun T hT => le_trans h1 ?_⟩
  calc (steps : ℝ) * (|dt| ^ 3 * Cgen μ m L2 L3 P G τ)
      = (steps * |dt|) * (Cgen μ m L2 L3 P G τ * dt ^ 2) := by rw [← sq_abs dt]; ring
    _ ≤ T * (Cgen μ m L2 L3 P G τ * dt ^ 2) :=
        mul_le_mul_of_nonneg_right hT (mul_nonneg hC (sq_nonneg dt))
    _ = T * Cgen μ m L2 L3 P G τ * dt ^ 2 := by ring

/-- **verlet_energy_error_quadratic_general_contDiff** — the clause of the property in full generality.
    For *every* three times continuously differentiable potential `V : ℝ^{n×3} → ℝ` (`ContDiff ℝ 3 V`, separable
    or not), force `F = −∇V` (`negGrad V`), masses `> 0` and every box `|q_{i,a}| ≤ R`, `|p_{i,a}| ≤ P` there is
    a constant `C` such that every trajectory of the coded integrator (any `dt ≠ 0`, `|dt| ≤ 1`, any number of
    steps, any start, either value of `apply_constraints`) that stays in the box satisfies
    `|E(s_steps) − E(s_0)| ≤ C · T · dt²` whenever `steps·|dt| ≤ T`. -/
theorem verlet_energy_error_quadratic_general_contDiff (V : Arr n ℝ → ℝ) (hV : ContDiff ℝ 3 V)
    (m : Col n ℝ) (hm : ∀ i, 0 < m i) (R P : ℝ) :
    ∃ C : ℝ, 0 ≤ C ∧ ∀ (apply : Bool) (dt : ℝ) (steps : ℕ) (s : St n ℝ) (T : ℝ),
      dt ≠ 0 → |dt| ≤ 1 → steps * |dt| ≤ T →
      (∀ k ≤ steps, ∀ i a,
        |(integrate Cons.none apply (negGrad V) m dt k s).q i a| ≤ R ∧
        |(integrate Cons.none apply (negGrad V) m dt k s).p i a| ≤ P) →
      |genEnergy V m (integrate Cons.none apply (negGrad V) m dt steps s) - genEnergy V m s|
        ≤ C * T * dt ^ 2 := by
  obtain ⟨μ, hμ, hmμ⟩ := exists_mass_lower m hm
  obtain ⟨L2, L3, G, hG0, hb2, hb3, hG⟩ := exists_bounds_of_contDiff_arr hV |R|
  have hmem : ∀ q : Arr n ℝ, (∀ i a, |q i a| ≤ R) → q ∈ Metric.closedBall (0 : Arr n ℝ) |R| := by
    intro q hq
    rw [mem_closedBall_zero_iff]
    exact norm_arr_le (abs_nonneg R) (fun i a => le_trans (hq i a) (le_abs_self R))
  have h0 : (0 : Arr n ℝ) ∈ Metric.closedBall (0 : Arr n ℝ) |R| :=
    Metric.mem_closedBall_self (abs_nonneg R)
  have hL2 : 0 ≤ L2 := le_trans (norm_nonneg _) (hb2 _ h0)
  have hL3 : 0 ≤ L3 := le_trans (norm_nonneg _) (hb3 _ h0)
  refine ⟨Cgen μ m L2 L3 |P| G 1, Cgen_nonneg hμ hm hL2 hL3 (abs_nonneg P) hG0 zero_le_one, ?_⟩
  intro apply dt steps s T hdt0 hdt hT htraj
  have h := (verlet_energy_error_quadratic_general apply (convex_closedBall (0 : Arr n ℝ) |R|) V
    (negGrad V) L2 L3 (fun x _ => hV.contDiffAt) (fun x _ h => fderiv_eq_negGrad V x h) hb2 hb3
    m μ hμ hmμ dt 1 hdt0 hdt |P| G (abs_nonneg P) hG0 steps s
    (fun k hk => by
      have hq := hmem _ (fun i a => (htraj k hk i a).1)
      exact ⟨hq, fun i a => ⟨le_trans (htraj k hk i a).2 (le_abs_self P), hG _ hq i a⟩⟩)).2 T hT
  calc _ ≤ T * Cgen μ m L2 L3 |P| G 1 * dt ^ 2 := h
    _ = Cgen μ m L2 L3 |P| G 1 * T * dt ^ 2 := by ring

/-- a genuinely non-separable instance: two atoms coupled through `V(q) = cos(q₀ₓ − q₁ₓ)` (a torsion-like
    coupling) — `ContDiff ℝ 3`, hence covered by `verlet_energy_error_quadratic_general_contDiff` -/
example : ContDiff ℝ 3 (fun q : Arr 2 ℝ => Real.cos (q 0 0 - q 1 0)) :=
  Real.contDiff_cos.comp ((contDiff_apply_apply ℝ ℝ (0 : Fin 2) (0 : Fin 3)).sub
    (contDiff_apply_apply ℝ ℝ (1 : Fin 2) (0 : Fin 3)))

/-- … and so, for every box, its energy error over a fixed time is `≤ C·T·dt²` -/
example (m : Col 2 ℝ) (hm : ∀ i, 0 < m i) (R P : ℝ) :
    ∃ C : ℝ, 0 ≤ C ∧ ∀ (apply : Bool) (dt : ℝ) (steps : ℕ) (s : St 2 ℝ) (T : ℝ),
      dt ≠ 0 → |dt| ≤ 1 → steps * |dt| ≤ T →
      (∀ k ≤ steps, ∀ i a,
        |(integrate Cons.none apply (negGrad fun q : Arr 2 ℝ => Real.cos (q 0 0 - q 1 0)) m dt k s).q i a| ≤ R ∧
        |(integrate Cons.none apply (negGrad fun q : Arr 2 ℝ => Real.cos (q 0 0 - q 1 0)) m dt k s).p i a| ≤ P) →
      |genEnergy (fun q : Arr 2 ℝ => Real.cos (q 0 0 - q 1 0)) m
          (integrate Cons.none apply (negGrad fun q : Arr 2 ℝ => Real.cos (q 0 0 - q 1 0)) m dt steps s)
        - genEnergy (fun q : Arr 2 ℝ => Real.cos (q 0 0 - q 1 0)) m s| ≤ C * T * dt ^ 2 :=
  verlet_energy_error_quadratic_general_contDiff _
    (Real.contDiff_cos.comp ((contDiff_apply_apply ℝ ℝ (0 : Fin 2) (0 : Fin 3)).sub
      (contDiff_apply_apply ℝ ℝ (1 : Fin 2) (0 : Fin 3)))) m hm R P

/-- every finite trajectory stays in some box, so the trajectory hypothesis can always be met -/
example (apply : Bool) (F : Arr n ℝ → Arr n ℝ) (m : Col n ℝ) (dt : ℝ) (steps : ℕ) (s : St n ℝ) :
    ∃ R P, ∀ k ≤ steps, ∀ i a,
      |(integrate Cons.none apply F m dt k s).q i a| ≤ R ∧
      |(integrate Cons.none apply F m dt k s).p i a| ≤ P := by
  obtain ⟨R, hR⟩ := exists_traj_bound (fun k => (integrate Cons.none apply F m dt k s).q) steps
  obtain ⟨P, hP⟩ := exists_traj_bound (fun k => (integrate Cons.none apply F m dt k s).p) steps
  exact ⟨R, P, fun k hk i a => ⟨hR k hk i a, hP k hk i a⟩⟩

end Verlet
