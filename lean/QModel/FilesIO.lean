import QModel.Files
import QModel.Proto
/-! line-protocol handler of the buffered-file model (C16)

`files <a|w> <existing hex|-> <op>*` with ops `w<hex>` (write), `f` (flush), `s<n>` (seek), `t` (truncate)
→ `ok <tok>*`, one token `keep:add:pend:k:w` per op: after the op the model's disk is the first `keep` bytes
of its previous disk followed by the bytes `add` (hex), `pend` (hex) is the buffer, `k` the number of flushes so
far and `w` (0/1) whether the sequence so far ends inside the restart rewrite window.

`fcall <header|log|frame|restart> <op>*` → `ok true|false`: is the op sequence of one observer call in the
protocol's language? -/
namespace Files

def hexVal (c : Char) : Option Nat :=
  if '0' ≤ c ∧ c ≤ '9' then some (c.toNat - '0'.toNat)
  else if 'a' ≤ c ∧ c ≤ 'f' then some (c.toNat - 'a'.toNat + 10)
  else none

def unhexAux : List Char → List UInt8 → Option (List UInt8)
  | [], acc => some acc.reverse
  | [_], _ => none
  | a :: b :: rest, acc =>
    match hexVal a, hexVal b with
    | some x, some y => unhexAux rest (UInt8.ofNat (16 * x + y) :: acc)
    | _, _ => none

def unhex (s : String) : Option (List UInt8) := unhexAux s.toList []

def hexDigit (n : Nat) : Char := if n < 10 then Char.ofNat (48 + n) else Char.ofNat (87 + n)

def hex (b : List UInt8) : String :=
  String.ofList (b.foldr (fun x acc => hexDigit (x.toNat / 16) :: hexDigit (x.toNat % 16) :: acc) [])

def parseOp (t : String) : Option (Op UInt8) :=
  match t.toList with
  | ['f'] => some .flush
  | ['t'] => some .truncate
  | 's' :: ds => (String.ofList ds).toNat?.map .seek
  | 'w' :: hs => (unhexAux hs []).map .write
  | _ => none

def commonPrefix : List UInt8 → List UInt8 → Nat → Nat
  | a :: as, b :: bs, n => if a == b then commonPrefix as bs (n + 1) else n
  | _, _, n => n

structure Acc where
  f : File UInt8
  k : Nat
  w : Bool
  out : List String

def stepAcc (a : Acc) (op : Op UInt8) : Acc :=
  let g := step a.f op
  let keep := match op with
    | .write _ => a.f.disk.length
    | _ => commonPrefix a.f.disk g.disk 0
  let k := if isFlush op then a.k + 1 else a.k
  let w := windowAfter a.w [op]
  { f := g, k := k, w := w,
    out := s!"{keep}:{hex (g.disk.drop keep)}:{hex g.pending}:{k}:{if w then 1 else 0}" :: a.out }

def handle : List String → String
  | "files" :: mode :: existing :: ops =>
    let m? : Option Mode := match mode with | "a" => some .a | "w" => some .w | _ => none
    let e? := if existing = "-" then some [] else unhex existing
    match m?, e?, ops.mapM parseOp with
    | some m, some e, some ops =>
      let a := ops.foldl stepAcc { f := openFile m e, k := 0, w := false, out := [] }
      -- second token: the disk right after `open` (what `openFile` left of the existing content)
      " ".intercalate ("ok" :: ("open=" ++ hex (openFile m e).disk) :: a.out.reverse)
    | _, _, _ => "bad-op"
  | "fcall" :: kind :: ops =>
    match ops.mapM parseOp with
    | some ops =>
      match kind with
      | "header" => s!"ok {isHeaderCall ops}"
      | "log" => s!"ok {isLogCall ops}"
      | "frame" => s!"ok {isFrameCall ops}"
      | "restart" => s!"ok {isRestartCall ops}"
      | _ => "bad-op"
    | none => "bad-op"
  | ["flink", acc, kind, flags, seekable] =>
    -- flags: five characters 0/1 = hasRead hasWrite isIOBase closed hasSeek; seekable: `-` (no method), `0`, `1`
    let k? : Option ArgKind := match kind with | "str" => some .str | "path" => some .path | "other" => some .other | _ => none
    let s? : Option (Option Bool) := match seekable with | "-" => some none | "0" => some (some false) | "1" => some (some true) | _ => none
    match k?, s?, flags.toList.map (· == '1'), acc with
    | some k, some sk, [r, w, io, cl, hs], "0" | some k, some sk, [r, w, io, cl, hs], "1" =>
      let res := link (acc == "1") ⟨k, r, w, io, cl, sk, hs⟩
      match res with
      | .opened => "ok opened"
      | .linked => "ok linked"
      | .closedFile => "ok ValueError:closed"
      | .notSeekable => "ok ValueError:stream"
      | .typeError => "ok TypeError"
    | _, _, _, _ => "bad-op"
  | _ => "bad-op"

end Files
