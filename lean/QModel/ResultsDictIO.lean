import QModel.ResultsDict
/-! `rdict <lazy 0/1> <inplace 0/1> <ops…>` — the results-dictionary machine with both repairs (`fixed`, `sep`), started
    by `validate_simulation()` (= a `save`) in configuration 0. Ops: `m<k>` move to configuration k, `e` energy request,
    `f` forces request, `s` save_state, `r` revert_state, `v` validate_simulation (a run boundary, repaired code: the
    remembered results are kept while they still describe the calculator's). Answer: for every `f` op whether the returned
    forces are those of the current configuration (`1`/`0`), for every `r` op whether the restored `calc.results` carries a
    forces entry (`K`/`k`), then `ev=<evaluations>`. -/
namespace RDict

def exF : Nat → Nat := fun k => 3 * k + 10

/-- an op of the script: a machine op, or a run boundary -/
def parseOp (w : String) : Option (Option Op) :=
  if w = "e" then some (some .energy) else if w = "f" then some (some .forces) else if w = "s" then some (some .save)
  else if w = "r" then some (some .revert)
  else if w = "v" then some none
  else if w.startsWith "m" then (w.drop 1).toNat?.map (fun k => some (.move k)) else none

def runOut (fl : Flags) : List (Option Op) → St → List String → St × List String
  | [], s, acc => (s, acc.reverse)
  | none :: ops, s, acc => runOut fl ops (runStart exF fl true s) acc
  | some op :: ops, s, acc =>
    let s1 := step exF fl s op
    match op with
    | .forces =>
      let ok : Bool := match s1.cres with
        | some d => decide (d.cfg = s1.cur) && decide (d.forces.map (deref s1) = some (exF s1.cur))
        | none => false
      runOut fl ops s1 ((if ok then "1" else "0") :: acc)
    | .revert => runOut fl ops s1 ((if (s1.cres.bind (·.forces)).isSome then "K" else "k") :: acc)
    | _ => runOut fl ops s1 acc

def handle : List String → String
  | "rdict" :: lazy :: inplace :: ops =>
    match ops.mapM parseOp with
    | some os =>
      let fl : Flags := ⟨lazy = "1", inplace = "1", true, true⟩
      let s0 := step exF fl { cur := 0 } .save
      let (s, out) := runOut fl os s0 []
      s!"ok {if out.isEmpty then "-" else "".intercalate out} ev={s.evals}"
    | none => "bad-op"
  | _ => "bad-op"

end RDict
