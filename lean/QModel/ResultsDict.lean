/-!
# C04 — results dictionaries: who shares what with whom

A small machine for the life cycle of `calc.results` and `context.last_results` as OBJECTS (dictionaries holding
references to arrays), independent of the M-machine: configurations are natural numbers, the force array of
configuration `k` is `F k` for an arbitrary function `F`.

Calculator (ASE protocol): a request for a property in a configuration that differs from the one the results belong to
starts a NEW dictionary (`reset()`); a request for a property missing from the current dictionary COMPLETES that
dictionary in place. Flags of the calculator: `lazy` (forces are only computed when asked for), `inplace` (force arrays
are one recycled buffer). Flags of the driver code: `fixed` (arrays are copied when results are remembered, commit
699d475) and `sep` (the remembered results are a dictionary of their own, also when handed back, commit d9c45b0).
Core Lean only.
-/
namespace RDict

/-- what a `forces` entry refers to -/
inductive Ref
  | buffer            -- the calculator's recycled buffer
  | own (v : Nat)     -- an array nobody else writes to, holding `v`
deriving DecidableEq, Repr

structure Dict where
  cfg : Nat                    -- the configuration the results were computed for (`calc.atoms`)
  forces : Option Ref          -- the `forces` entry, if present
deriving DecidableEq, Repr

structure St where
  cur : Nat                    -- the atoms as they are
  buf : Nat := 0               -- content of the calculator's force buffer
  cres : Option Dict := none   -- `calc.results` (none = empty)
  last : Option Dict := none   -- `context.last_results`
  lastCfg : Nat := 0           -- `context.last_positions` (the configuration a rejection goes back to)
  shared : Bool := false       -- `context.last_results is calc.results`
  evals : Nat := 0
deriving DecidableEq, Repr

structure Flags where
  lazy : Bool
  inplace : Bool
  fixed : Bool
  sep : Bool
deriving DecidableEq, Repr

inductive Op
  | move (k : Nat)        -- the trial changes the atoms to configuration k
  | energy                -- `atoms.get_potential_energy()`
  | forces                -- `atoms.get_forces()` (integrator, logger, user)
  | save                  -- accepted: `context.save_state()`
  | revert                -- rejected: `context.revert_state()` + the driver re-synchronising `calc.atoms`
deriving DecidableEq, Repr

variable (F : Nat → Nat)

def deref (s : St) : Ref → Nat
  | .buffer => s.buf
  | .own v => v

/-- the forces entry a calculation in the current configuration produces -/
def freshRef (fl : Flags) (s : St) : Ref × Nat :=
  if fl.inplace then (.buffer, F s.cur) else (.own (F s.cur), s.buf)

/-- `reset()` + `calculate()`: a NEW results dictionary for the current configuration; `want` = forces requested -/
def newCalc (fl : Flags) (want : Bool) (s : St) : St :=
  if want || !fl.lazy then
    { s with buf := (freshRef F fl s).2, cres := some { cfg := s.cur, forces := some (freshRef F fl s).1 },
             shared := false, evals := s.evals + 1 }
  else
    { s with cres := some { cfg := s.cur, forces := none }, shared := false, evals := s.evals + 1 }

/-- the calculator COMPLETES its current dictionary `d` (same configuration) with the forces entry; if the context's
    remembered results are that very dictionary, they are completed too -/
def complete (fl : Flags) (s : St) (d : Dict) : St :=
  { s with buf := (freshRef F fl s).2, cres := some { d with forces := some (freshRef F fl s).1 },
           last := if s.shared then some { d with forces := some (freshRef F fl s).1 } else s.last }

/-- make sure `calc.results` belongs to the current configuration and, with `want`, contains forces -/
def ensure (fl : Flags) (want : Bool) (s : St) : St :=
  match s.cres with
  | some d =>
    if d.cfg = s.cur then
      if want && d.forces.isNone then complete F fl s d else s
    else newCalc F fl want s
  | none => newCalc F fl want s

def detachD (fl : Flags) (s : St) (d : Dict) : Dict :=
  if fl.fixed then { d with forces := d.forces.map (fun r => .own (deref s r)) } else d

def step (fl : Flags) (s : St) : Op → St
  | .move k => { s with cur := k }
  | .energy => ensure F fl false s
  | .forces => ensure F fl true s
  | .save =>
    let s1 := ensure F fl false s                       -- `last_potential_energy = atoms.get_potential_energy()`
    match s1.cres with
    | some d =>
      let d' := detachD fl s1 d
      { s1 with cres := some d', last := some d', lastCfg := s1.cur, shared := !fl.sep }
    | none => s1
  | .revert =>
    -- positions restored, `calc.results = last_results` (the same object unless `sep`), `calc.atoms` re-synchronised
    { s with cur := s.lastCfg, cres := s.last, shared := !fl.sep && s.last.isSome }

def run (fl : Flags) (ops : List Op) (s : St) : St := ops.foldl (step F fl) s

/-- `still_describes(context.last_results, calc.results)`: every remembered entry is still among the calculator's results
    with the same value (the calculator may hold MORE: a property an observer asked for) -/
def stillDescribes (s : St) : Bool :=
  match s.last, s.cres with
  | some l, some c =>
    l.cfg == c.cfg &&
      (match l.forces with
       | none => true
       | some r => (c.forces.map (deref s)) == some (deref s r))
  | _, _ => false

/-- `validate_simulation()` at the start of a run: the reference energy is asked for, the positions are remembered, and the
    results are remembered — always (`keep = false`, the code before the repair) or only when the remembered ones no longer
    describe the calculator's results (`keep = true`) -/
def runStart (fl : Flags) (keep : Bool) (s : St) : St :=
  let s1 := ensure F fl false s
  if keep && stillDescribes s1 then { s1 with lastCfg := s1.cur }
  else
    match s1.cres with
    | some d =>
      let d' := detachD fl s1 d
      { s1 with cres := some d', last := some d', lastCfg := s1.cur, shared := !fl.sep }
    | none => { s1 with lastCfg := s1.cur }

/-- what `atoms.get_forces()` returns now -/
def readForces (fl : Flags) (s : St) : Option Nat :=
  let s1 := ensure F fl true s
  match s1.cres with
  | some d => d.forces.map (deref s1)
  | none => none

end RDict
