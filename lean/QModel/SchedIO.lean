import QModel.Sched
import QModel.Proto
/-!
Line protocol of the scheduling model and of the random oracle (names are natural numbers; rationals are `num/den`).

* `yield  c step intervals weights mins script`                → `ok names flags consumed` (flag 1 = free slot)
* `step   c step intervals weights mins script ndraws succ`    → `ok names verdicts consumed` (0 False, 1 True, 2 None)
     move `i` consumes `ndraws[i]` draws and succeeds iff `succ[i] = 1`; its criteria consumes one draw `u` and
     accepts iff `u < 1/2`
* `defcycles given n` (`given` = `-` when `max_cycles` is left out)                 → `ok cycles`
* `addmoves c op…` with `op = name:interval:weight:min:crit`    → `ok codes names intervals mins` (0 ok, 1 over-commit, 2 no criteria)
* `rng index u n` | `rng choice n script` | `rng choicep weights script` | `rng sample n k script` | `rng integers lo hi script`
-/
namespace Sched

def parseRat (s : String) : Option Rat :=
  match s.splitOn "/" with
  | [a] => a.toInt?.map (fun n => (n : Rat))
  | [a, b] => do
      let n ← a.toInt?
      let d ← b.toNat?
      if d = 0 then none else some (mkRat n d)
  | _ => none

def ratList (s : String) : Option (List Rat) :=
  if s = "-" then some [] else (s.splitOn ",").mapM parseRat

def showErr : Err → String
  | .zeroDivision => "ZeroDivisionError"
  | .rng .exhausted => "ScriptExhausted"
  | .rng .emptyChoice => "ValueError:empty"
  | .rng .sampleTooLarge => "ValueError:sample-too-large"
  | .rng .probNaN => "ValueError:nan"
  | .rng .probNegative => "ValueError:negative"
  | .rng .indexError => "IndexError"
  | .zipStrict => "ValueError:zip"
  | .overcommit => "ValueError:overcommit"
  | .noCriteria => "ValueError:nocriteria"
  | .move => "MoveError"

def mkTable : List Nat → List Rat → List Nat → Nat → Table Nat
  | i :: is, w :: ws, m :: ms, n => ⟨n, i, w, m⟩ :: mkTable is ws ms (n + 1)
  | _, _, _, _ => []

def parseTable (ints wts mins : String) : Option (Table Nat) := do
  let is ← Proto.natList ints
  let ws ← ratList wts
  let ms ← Proto.natList mins
  if is.length = ws.length ∧ ws.length = ms.length then some (mkTable is ws ms 0) else none

def popN : Nat → Rng.Script → Except Err Rng.Script
  | 0, s => .ok s
  | _ + 1, [] => .error (.rng .exhausted)
  | n + 1, _ :: s => popN n s

/-- the probe move + probe criteria of the `step` correspondence -/
def probeExec (nd succ : List Nat) (name : Nat) (s : Rng.Script) : Except Err (Option Bool × Rng.Script) :=
  match popN (nd.getD name 0) s with
  | .error e => .error e
  | .ok s1 =>
    if succ.getD name 0 = 1 then
      match s1 with
      | [] => .error (.rng .exhausted)
      | u :: s2 => .ok (some (decide (u < 1 / 2)), s2)
    else .ok (none, s1)

def parseOp (s : String) : Option (Entry Nat × Bool) :=
  match s.splitOn ":" with
  | [n, i, w, m, c] => do
      let n ← n.toNat?
      let i ← i.toNat?
      let w ← parseRat w
      let m ← m.toNat?
      some (⟨n, i, w, m⟩, c = "1")
  | _ => none

/-- run the `add_move` calls one after the other, collecting the outcome codes -/
def addMovesCodes (c : Nat) : Table Nat → List (Entry Nat × Bool) → List Nat × Table Nat
  | t, [] => ([], t)
  | t, (e, cr) :: rest =>
    match addMove t c e cr with
    | .ok t' => let (cs, tf) := addMovesCodes c t' rest; (0 :: cs, tf)
    | .error .overcommit => let (cs, tf) := addMovesCodes c t rest; (1 :: cs, tf)
    | .error _ => let (cs, tf) := addMovesCodes c t rest; (2 :: cs, tf)

def handle : List String → String
  | ["yield", c, st, ints, wts, mins, script] =>
    match c.toNat?, st.toNat?, parseTable ints wts mins, ratList script with
    | some c, some st, some t, some s =>
      match yieldTrace t c st s with
      | .error e => s!"err {showErr e}"
      | .ok (l, s') =>
        s!"ok {Proto.showNats (l.map (·.entry.name))} {Proto.showNats (l.map (fun x => if x.free then 1 else 0))} {s.length - s'.length}"
    | _, _, _, _ => "bad-op"
  | ["step", c, st, ints, wts, mins, script, nd, succ] =>
    match c.toNat?, st.toNat?, parseTable ints wts mins, ratList script, Proto.natList nd, Proto.natList succ with
    | some c, some st, some t, some s, some nd, some succ =>
      match step t c st (probeExec nd succ) s with
      | .error e => s!"err {showErr e}"
      | .ok (l, s') =>
        let code : Option Bool → Nat := fun b => match b with | some false => 0 | some true => 1 | none => 2
        s!"ok {Proto.showNats (l.map (·.1))} {Proto.showNats (l.map (fun x => code x.2))} {s.length - s'.length}"
    | _, _, _, _, _, _ => "bad-op"
  | "addmoves" :: c :: ops =>
    match c.toNat?, ops.mapM parseOp with
    | some c, some ops =>
      let (codes, t) := addMovesCodes c [] ops
      s!"ok {Proto.showNats codes} {Proto.showNats (t.map (·.name))} {Proto.showNats (t.map (·.interval))} {Proto.showNats (t.map (·.minCount))}"
    | _, _ => "bad-op"
  | ["rng", "index", u, n] =>
    match parseRat u, n.toNat? with
    | some u, some n => s!"ok {Rng.index u n}"
    | _, _ => "bad-op"
  | ["rng", "choice", n, script] =>
    match n.toNat?, ratList script with
    | some n, some s =>
      match Rng.choice (List.range n) s with
      | .error e => s!"err {showErr (.rng e)}"
      | .ok (i, s') => s!"ok {i} {s.length - s'.length}"
    | _, _ => "bad-op"
  | ["rng", "integers", lo, hi, script] =>
    match lo.toNat?, hi.toNat?, ratList script with
    | some lo, some hi, some s =>
      match Rng.integers lo hi s with
      | .error e => s!"err {showErr (.rng e)}"
      | .ok (i, s') => s!"ok {i} {s.length - s'.length}"
    | _, _, _ => "bad-op"
  | ["rng", "choicep", wts, script] =>
    match ratList wts, ratList script with
    | some ws, some s =>
      match Rng.choiceP (List.range ws.length) ws s with
      | .error e => s!"err {showErr (.rng e)}"
      | .ok (i, s') => s!"ok {i} {s.length - s'.length}"
    | _, _ => "bad-op"
  | ["defcycles", given, n] =>
    match n.toNat? with
    | some n =>
      if given == "-" then s!"ok {defaultCycles none n}"
      else match given.toNat? with
        | some c => s!"ok {defaultCycles (some c) n}"
        | none => "bad-op"
    | none => "bad-op"
  | ["rng", "sample", n, k, script] =>
    match n.toNat?, k.toNat?, ratList script with
    | some n, some k, some s =>
      match Rng.sampleNoRepl n k s with
      | .error e => s!"err {showErr (.rng e)}"
      | .ok (l, s') => s!"ok {Proto.showNats l} {s.length - s'.length}"
    | _, _, _ => "bad-op"
  | _ => "bad-op"

end Sched
