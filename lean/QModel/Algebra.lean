/-!
# C17 — `+` / `*` on moves and operations

Mirrors `moves/core.py: BaseMove.__add__/__mul__`, `moves/composite.py: CompositeMove.__add__/__mul__/__call__`,
`operations/core.py: BaseOperation.__add__/__mul__`, `operations/composite.py: CompositeOperation.__add__/__mul__`.

A leaf is an elementary move object, identified by a number (its Python identity) and carrying a kind.
`composite_move_type` of a leaf is `CompositeDisplacementMove` (displacement), `CompositeExchangeMove`
(exchange) or a `typing` generic alias of plain `CompositeMove` (cell moves, Hamiltonian moves, user moves);
calling the alias builds a plain `CompositeMove`, so the alias is modelled as `plain`.
-/
namespace Alg

inductive Kind | disp | exch | cell | gen
deriving DecidableEq, Repr

inductive CType | plain | cdisp | cexch
deriving DecidableEq, Repr

/-- `leaf.composite_move_type`, up to "what calling it builds". -/
def Kind.cmt : Kind → CType
  | .disp => .cdisp
  | .exch => .cexch
  | .cell => .plain
  | .gen  => .plain

/-- A Python value: an elementary move, or a composite of a given class holding references. -/
inductive Val
  | base (id : Nat)
  | comp (t : CType) (ms : List Nat)
deriving DecidableEq, Repr

inductive Err | badCount
deriving DecidableEq, Repr

/-- Expression trees over leaves, `+` and `* n` (`n` any Python int). -/
inductive Expr
  | leaf (id : Nat)
  | add (a b : Expr)
  | mul (a : Expr) (n : Int)
deriving Repr

def replicateList {α} (l : List α) : Nat → List α
  | 0 => []
  | n+1 => l ++ replicateList l n

/-- `a + b` as Python evaluates it (`a.__add__(b)`). -/
def add (kind : Nat → Kind) : Val → Val → Val
  | .base a, .base b =>
      -- `self.composite_move_type is other.composite_move_type`
      if (kind a).cmt = (kind b).cmt then .comp (kind b).cmt [a, b] else .comp .plain [a, b]
  | .base a, .comp t ms =>
      -- `self.composite_move_type is type(other)`
      if (kind a).cmt = t then .comp (kind a).cmt (a :: ms) else .comp .plain (a :: ms)
  | .comp t ms, .base b =>
      -- `type(self) is other.composite_move_type`
      if t = (kind b).cmt then .comp (kind b).cmt (ms ++ [b]) else .comp .plain (ms ++ [b])
  | .comp t ms, .comp t' ms' =>
      -- `type(self) is type(other)`
      if t = t' then .comp t (ms ++ ms') else .comp .plain (ms ++ ms')

/-- `a * n`: `n` must be an integer ≥ 1. -/
def mul (kind : Nat → Kind) : Val → Int → Except Err Val
  | .base a, n => if n < 1 then .error .badCount else .ok (.comp (kind a).cmt (List.replicate n.toNat a))
  | .comp t ms, n => if n < 1 then .error .badCount else .ok (.comp t (replicateList ms n.toNat))

def eval (kind : Nat → Kind) : Expr → Except Err Val
  | .leaf i => .ok (.base i)
  | .add a b => do
      let va ← eval kind a
      let vb ← eval kind b
      pure (add kind va vb)
  | .mul a n => do
      let va ← eval kind a
      mul kind va n

def Val.elems : Val → List Nat
  | .base a => [a]
  | .comp _ ms => ms

/-- left-to-right leaves with multiplicity -/
def Expr.leaves : Expr → List Nat
  | .leaf i => [i]
  | .add a b => a.leaves ++ b.leaves
  | .mul a n => replicateList a.leaves n.toNat

/-- every repeat count in the expression is ≥ 1 -/
def Expr.wf : Expr → Bool
  | .leaf _ => true
  | .add a b => a.wf && b.wf
  | .mul a n => a.wf && decide (1 ≤ n)

def Expr.isLeaf : Expr → Bool
  | .leaf _ => true
  | _ => false

/-- `CompositeMove.__call__`: `any([move(context) for move in self.moves])` — every element is called
    once, in order (list comprehension, no short circuit); success iff any succeeded. -/
def callPlain (ms : List Nat) (result : Nat → Bool) : List Nat × Bool :=
  (ms.map id, ms.any result)

/-! ## operations: there is only one composite class -/

inductive OVal
  | base (id : Nat)
  | comp (ops : List Nat)
deriving DecidableEq, Repr

def oadd : OVal → OVal → OVal
  | .base a, .base b => .comp [a, b]
  | .base a, .comp os => .comp (a :: os)
  | .comp os, .base b => .comp (os ++ [b])
  | .comp os, .comp os' => .comp (os ++ os')

def omul : OVal → Int → Except Err OVal
  | .base a, n => if n < 1 then .error .badCount else .ok (.comp (List.replicate n.toNat a))
  | .comp os, n => if n < 1 then .error .badCount else .ok (.comp (replicateList os n.toNat))

def oeval : Expr → Except Err OVal
  | .leaf i => .ok (.base i)
  | .add a b => do
      let va ← oeval a
      let vb ← oeval b
      pure (oadd va vb)
  | .mul a n => do
      let va ← oeval a
      omul va n

def OVal.elems : OVal → List Nat
  | .base a => [a]
  | .comp os => os

end Alg
