/-!
# A Metropolis–Hastings kernel on a finite state space (property C01)

`MonteCarlo.step` (`src/quansino/mc/core.py`) is, for every trial,

```
if move(context):                                   -- propose  y ~ q(x, ·)
    if criteria.evaluate(context): save_state()     -- accept with probability a(x, y): the chain is at y
    else:                          revert_state()   -- reject: the chain is back at x  (C03)
```

On a *finite* state space `{0, …, n-1}` with a proposal matrix `q` and an acceptance function `a` this is the
transition matrix `kernel n q a` below: off the diagonal `q x y * a x y`, and all the rejected (and all the
self-proposed) mass on the diagonal.  The definitions are core Lean only and generic over the carrier: they run
over `Rat` (exact, see the examples at the end), over `Float`, and the theorems of `QProofs/Metropolis.lean` are
about the same definitions at `ℝ`.

The real chain lives on a continuous space (positions, cell, particle number); a finite kernel is the
*logical skeleton* of it (DESIGN §6 C01): it carries exactly the facts "proposal symmetric", "acceptance =
min(1, ratio)", "a rejected trial stays where it was", and what follows from them (reversibility, stationarity).
Lean does not identify the Python chain with this kernel; the three facts are tied to the code by the
correspondences of C10, C02 and C03.
-/

namespace Metro

variable {α : Type} [Add α] [Sub α] [Mul α] [Div α] [LT α] [DecidableLT α] [OfNat α 0] [OfNat α 1]

/-- `f 0 + f 1 + … + f (n-1)` -/
def sumTo (n : Nat) (f : Nat → α) : α :=
  match n with
  | 0 => 0
  | k + 1 => sumTo k f + f k

/-- `min(1, r)` as the criteria compute it: `r` when `r < 1`, otherwise `1` -/
def min1 (r : α) : α := if r < 1 then r else 1

/-- Metropolis acceptance for a symmetric proposal: `min(1, w y / w x)` (`w` = unnormalised target weight) -/
def accMetropolis (w : Nat → α) (x y : Nat) : α := min1 (w y / w x)

/-- Metropolis–Hastings acceptance for proposal densities `g x y` = density of proposing `y` from `x`:
    `min(1, w y · g y x / (w x · g x y))` -/
def accHastings (w : Nat → α) (g : Nat → Nat → α) (x y : Nat) : α := min1 (w y * g y x / (w x * g x y))

/-- the probability of leaving `x`: `Σ_{z ≠ x} q x z · a x z` -/
def leave (n : Nat) (q a : Nat → Nat → α) (x : Nat) : α :=
  sumTo n (fun z => if z = x then 0 else q x z * a x z)

/-- the transition matrix of `MonteCarlo.step` for one trial: accepted proposals off the diagonal, everything
    else (rejections — `revert_state` —, failed moves, self-proposals) on the diagonal -/
def kernel (n : Nat) (q a : Nat → Nat → α) (x y : Nat) : α :=
  if x = y then 1 - leave n q a x else q x y * a x y

/-- one trial applied to a distribution `p` over the states: `(p K) y = Σ_x p x · K x y` -/
def push (n : Nat) (K : Nat → Nat → α) (p : Nat → α) (y : Nat) : α := sumTo n (fun x => p x * K x y)

/-- `k` trials -/
def pushN (n : Nat) (K : Nat → Nat → α) (p : Nat → α) : Nat → Nat → α
  | 0 => p
  | k + 1 => push n K (pushN n K p k)

/-- probability flow `x → y` under the weight `w` -/
def flow (w : Nat → α) (q a : Nat → Nat → α) (x y : Nat) : α := w x * (q x y * a x y)

/-- the decision part of one trial when the proposal has produced `y` and `context.rng.random()` returns `u`:
    the chain moves to `y` when `u < a x y` and stays at `x` otherwise -/
def decideTrial (a : Nat → Nat → α) (x y : Nat) (u : α) : Nat := if u < a x y then y else x

/-! ## exact runs over `Rat` (the definitions are executable; these are the non-vacuity checks of the model) -/

section examples

/-- target weights 1 : 2 : 3 on three states -/
def w3 : Nat → Rat := fun i => if i = 0 then 1 else if i = 1 then 2 else 3
/-- symmetric proposal: each of the two other states with probability 1/2 -/
def q3 : Nat → Nat → Rat := fun x y => if x = y then 0 else 1 / 2
/-- an asymmetric proposal (rows sum to 1) for the Hastings rule -/
def g3 : Nat → Nat → Rat := fun x y =>
  if x = y then 0 else if (y = (x + 1) % 3) then 3 / 4 else 1 / 4

/-- the weights are stationary for the Metropolis kernel (exactly, over the rationals) -/
example : (List.range 3).map (push 3 (kernel 3 q3 (accMetropolis w3)) w3) = [1, 2, 3] := by decide +kernel
/-- … and for the Hastings kernel with the asymmetric proposal -/
example : (List.range 3).map (push 3 (kernel 3 g3 (accHastings w3 g3)) w3) = [1, 2, 3] := by decide +kernel
/-- every row of the kernel sums to one -/
example : (List.range 3).map (fun x => sumTo 3 (kernel 3 g3 (accHastings w3 g3) x)) = [1, 1, 1] := by decide +kernel
/-- detailed balance holds pairwise -/
example : flow w3 g3 (accHastings w3 g3) 0 2 = flow w3 g3 (accHastings w3 g3) 2 0 := by decide +kernel
/-- a wrong acceptance (ratio of weights used with the asymmetric proposal) does NOT keep the weights -/
example : (List.range 3).map (push 3 (kernel 3 g3 (accMetropolis w3)) w3) ≠ [1, 2, 3] := by decide +kernel
/-- a uniform distribution is not stationary and moves towards the target -/
example : (List.range 3).map (pushN 3 (kernel 3 q3 (accMetropolis w3)) (fun _ => 12) 1) = [5, 13, 18] := by
  decide +kernel
/-- a rejected trial stays where it was -/
example : decideTrial (accMetropolis w3) 2 0 (1 / 2) = 2 ∧ decideTrial (accMetropolis w3) 2 0 (1 / 4) = 0 := by
  decide +kernel

end examples

end Metro
