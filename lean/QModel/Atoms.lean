/-!
# C19 (and the list core of C03) — per-atom rows: mask delete, indexed pick, scatter re-insert; molecule labels

Mirrors
* ASE `Atoms.__delitem__` (`mask = ones(n); mask[i] = False; a = a[mask]` for every per-atom array),
* ASE `Atoms.__getitem__` with an index list (`a[i]` for every per-atom array, rows in the order of `i`),
* `quansino/utils/atoms.py: reinsert_atoms` (mask scatter of the kept rows + indexed scatter of the re-inserted rows,
  for every array, dtype of the kept array; second loop: arrays only present in the re-inserted atoms),
* `quansino/utils/atoms.py: search_molecules` — the labelling part (`enumerate(connected_components)`, size filter,
  default array), **with the fix `harness/patches/C19-default-array.diff`** (`np.full(n, -1) if default_array is None
  else np.array(default_array)`); the neighbour list and the connected components are an input (`comps`).

The list-level functions `deleteFrom / delete / pick / reinsertFrom / reinsert` are generic in the row type and are the
part other models build on. Core Lean only.
-/
namespace RI
variable {α : Type}

/-! ## list level -/

/-- `a[mask]` with `mask[idx] = False`: keep the positions not in `idx`; `k` is the position of the head. -/
def deleteFrom (idx : List Nat) : Nat → List α → List α
  | _, [] => []
  | k, x :: xs => if k ∈ idx then deleteFrom idx (k+1) xs else x :: deleteFrom idx (k+1) xs

/-- `del atoms[idx]` on one per-atom array. -/
def delete (l : List α) (idx : List Nat) : List α := deleteFrom idx 0 l

/-- `atoms[idx]` on one per-atom array: rows in the order of `idx` (valid indices; others are skipped). -/
def pick (l : List α) (idx : List Nat) : List α := idx.filterMap (fun i => l[i]?)

/-- value found at position `k` after the fancy assignment `new[idx] = taken` (element-wise, in order, so for a
    repeated index the LAST assignment wins — numpy's behaviour); `none` = position not assigned. -/
def scatterGet : List Nat → List α → Nat → Option α
  | i :: is, x :: xs, k =>
    match scatterGet is xs k with
    | some y => some y
    | none => if i = k then some x else none
  | _, _, _ => none

/-- `new[mask] = kept; new[idx] = taken` read off position by position: build `n` rows starting at position `k`;
    a position in `idx` takes the row scattered to it, any other position takes the next kept row.
    (Total function: it stops early when it runs out of rows; `reinsertChecked` has numpy's errors.) -/
def reinsertFrom (idx : List Nat) (taken : List α) : Nat → Nat → List α → List α
  | _, 0, _ => []
  | k, n+1, kept =>
    if k ∈ idx then
      match scatterGet idx taken k with
      | some x => x :: reinsertFrom idx taken (k+1) n kept
      | none => []
    else
      match kept with
      | x :: xs => x :: reinsertFrom idx taken (k+1) n xs
      | [] => []

/-- `reinsert_atoms` on one per-atom array: `len(atoms) + len(new_atoms)` rows. -/
def reinsert (kept taken : List α) (idx : List Nat) : List α :=
  reinsertFrom idx taken 0 (kept.length + taken.length) kept

/-- number of `True` entries of `mask = ones(total); mask[idx] = False` -/
def maskCount (idx : List Nat) (total : Nat) : Nat :=
  ((List.range' 0 total).filter (fun p => decide (p ∉ idx))).length

/-- numpy broadcasting of the assigned value along the first axis: exact length, or a single row repeated -/
def bcast (rows : List α) (k : Nat) : Option (List α) :=
  if rows.length = k then some rows
  else match rows with
    | [x] => some (List.replicate k x)
    | _ => none

/-- `reinsert` with numpy's errors: `mask[idx] = False` (IndexError), `new[mask] = kept` and `new[idx] = taken`
    (ValueError unless the lengths fit or broadcast). -/
def reinsertChecked (kept taken : List α) (idx : List Nat) : Except String (List α) :=
  let total := kept.length + taken.length
  if idx.all (fun i => decide (i < total)) then
    match bcast kept (maskCount idx total) with
    | none => .error "ValueError"
    | some kept' =>
      match bcast taken idx.length with
      | none => .error "ValueError"
      | some taken' => .ok (reinsertFrom idx taken' 0 total kept')
  else .error "IndexError"

/-! ## Python/numpy integer indices (negative = from the end) -/

def normOne (n : Nat) (i : Int) : Option Nat :=
  if 0 ≤ i then (if i.toNat < n then some i.toNat else none)
  else if (-i).toNat ≤ n then some (n - (-i).toNat) else none

/-- all indices normalised into `[0, n)`, `none` = numpy's IndexError -/
def normIdx (n : Nat) : List Int → Option (List Nat)
  | [] => some []
  | i :: is =>
    match normOne n i, normIdx n is with
    | some a, some as => some (a :: as)
    | _, _ => none

/-! ## atoms = named per-atom arrays (`atoms.arrays`, a dict in insertion order) -/

inductive DType | f8 | i8 | b1
deriving DecidableEq, Repr, Inhabited

/-- numpy's cast on assignment, on integer-valued entries: only a cast to bool changes the value. -/
def castVal (src dst : DType) (v : Int) : Int :=
  if src = dst then v else
    match dst with
    | .b1 => if v = 0 then 0 else 1
    | _ => v

/-- one per-atom array: name, dtype, trailing shape `a.shape[1:]`, one (flattened) row per atom -/
structure Col where
  name : String
  dtype : DType
  shape : List Nat
  rows : List (List Int)
deriving DecidableEq, Repr

abbrev Atoms := List Col

/-- `len(atoms)` (ASE: the length of `arrays['positions']`; all arrays have this length) -/
def natoms : Atoms → Nat
  | [] => 0
  | c :: _ => c.rows.length

def findCol (a : Atoms) (name : String) : Option Col := a.find? (fun c => c.name = name)

def width (shape : List Nat) : Nat := shape.foldl (· * ·) 1

/-- `mapM` in `Except`, written out -/
instance exceptDecEq {ε β : Type} [DecidableEq ε] [DecidableEq β] : DecidableEq (Except ε β)
  | .ok a, .ok b => if h : a = b then isTrue (by rw [h]) else isFalse (by intro e; cases e; exact h rfl)
  | .error a, .error b => if h : a = b then isTrue (by rw [h]) else isFalse (by intro e; cases e; exact h rfl)
  | .ok _, .error _ => isFalse (by intro e; cases e)
  | .error _, .ok _ => isFalse (by intro e; cases e)

def mapE {ε β : Type} (f : α → Except ε β) : List α → Except ε (List β)
  | [] => .ok []
  | x :: xs =>
    match f x with
    | .error e => .error e
    | .ok y =>
      match mapE f xs with
      | .error e => .error e
      | .ok ys => .ok (y :: ys)

/-- `del atoms[idx]` (no constraints attached) -/
def delAtoms (a : Atoms) (idx : List Int) : Except String Atoms :=
  match normIdx (natoms a) idx with
  | none => .error "IndexError"
  | some nidx => .ok (a.map fun c => { c with rows := delete c.rows nidx })

/-- `atoms[idx]` -/
def pickAtoms (a : Atoms) (idx : List Int) : Except String Atoms :=
  match normIdx (natoms a) idx with
  | none => .error "IndexError"
  | some nidx => .ok (a.map fun c => { c with rows := pick c.rows nidx })

/-- `array = new_atoms.get_masses() if name == "masses" else new_atoms.arrays.get(name, 0)`; `dm` = what
    `new_atoms.get_masses()` returns when `new_atoms` has no `masses` array (ASE's default masses of its species);
    `none` = the integer `0` of `.get(name, 0)`. -/
def lookupArr (taken : Atoms) (dm : List Int) (name : String) : Option Col :=
  match findCol taken name with
  | some t => some t
  | none =>
    if name = "masses" then some { name := "masses", dtype := .f8, shape := [], rows := dm.map fun m => [m] }
    else none

/-- body of the first loop of `reinsert_atoms` for the array `c` of `atoms` -/
def reinsertCol (taken : Atoms) (total : Nat) (idx : List Int) (dm : List Int) (c : Col) : Except String Col :=
  match lookupArr taken dm c.name with
  | none => .error "AttributeError"     -- `(0).shape`
  | some arr =>
    match normIdx total idx with         -- mask[indices] = False
    | none => .error "IndexError"
    | some nidx =>
      if arr.shape ≠ c.shape then .error "ValueError"    -- model restriction: no broadcasting of trailing axes
      else
        match bcast c.rows (maskCount nidx total) with                                 -- new_array[mask] = atoms.arrays[name]
        | none => .error "ValueError"
        | some keptRows =>
          match bcast (arr.rows.map fun r => r.map (castVal arr.dtype c.dtype)) nidx.length with   -- new_array[indices] = array
          | none => .error "ValueError"
          | some takenRows =>
            .ok { c with shape := arr.shape, rows := reinsertFrom nidx takenRows 0 total keptRows }

/-- body of the second loop: an array only present in the re-inserted atoms is created zero-filled with ITS dtype -/
def addCol (n : Nat) (idx : List Int) (t : Col) : Except String Col :=
  match normIdx n idx with
  | none => .error "IndexError"
  | some nidx =>
    match bcast t.rows nidx.length with
    | none => .error "ValueError"
    | some rows =>
      .ok { t with rows := (List.range' 0 n).map fun k => (scatterGet nidx rows k).getD (List.replicate (width t.shape) 0) }

/-- `reinsert_atoms(atoms, new_atoms, indices)`; the result is the new `atoms.arrays` -/
def reinsertAtoms (kept taken : Atoms) (idx : List Int) (dm : List Int) : Except String Atoms :=
  let total := natoms kept + natoms taken
  match mapE (reinsertCol taken total idx dm) kept with
  | .error e => .error e
  | .ok cols1 =>
    match mapE (addCol (natoms cols1) idx) (taken.filter fun t => (findCol kept t.name).isNone) with
    | .error e => .error e
    | .ok cols2 => .ok (cols1 ++ cols2)

/-! ## molecule labels -/

/-- `required_size`: `None`, an int, or a pair -/
inductive ReqSize | all | exact (k : Int) | between (lo hi : Int)
deriving DecidableEq, Repr

/-- `(0, len(atoms))`, `(k, k)`, or the pair itself -/
def sizeRange (n : Nat) : ReqSize → Int × Int
  | .all => (0, n)
  | .exact k => (k, k)
  | .between lo hi => (lo, hi)

/-- `required_size[0] <= molecule_array.size <= required_size[1]` -/
def admitted (r : Int × Int) (c : List Nat) : Prop := r.1 ≤ (c.length : Int) ∧ (c.length : Int) ≤ r.2

instance (r : Int × Int) (c : List Nat) : Decidable (admitted r c) := by unfold admitted; infer_instance

/-- `molecules[molecule_array] = v` -/
def setAll (arr : List Int) (mol : List Nat) (v : Int) : List Int :=
  arr.zipIdx.map fun (x, i) => if i ∈ mol then v else x

/-- the `for n, mol in enumerate(...)` loop, from enumeration number `n` on -/
def labelFrom (r : Int × Int) : Nat → List (List Nat) → List Int → List Int
  | _, [], arr => arr
  | n, mol :: rest, arr => labelFrom r (n+1) rest (if admitted r mol then setAll arr mol n else arr)

def labelComponents (comps : List (List Nat)) (r : Int × Int) (default : List Int) : List Int :=
  labelFrom r 0 comps default

/-- `search_molecules` after the neighbour list / connected components (`comps`, in networkx's enumeration order),
    with the fixed default handling. `IndexError` when an admitted component does not fit the default array. -/
def searchMolecules (n : Nat) (comps : List (List Nat)) (req : ReqSize) (default : Option (List Int)) :
    Except String (List Int) :=
  let molecules := match default with
    | none => List.replicate n (-1)
    | some d => d
  let r := sizeRange n req
  if comps.all (fun c => decide (admitted r c → ∀ i ∈ c, i < molecules.length)) then
    .ok (labelComponents comps r molecules)
  else .error "IndexError"

end RI
