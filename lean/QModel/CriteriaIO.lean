import QModel.Criteria
import QModel.Proto
/-!
Line protocol of M-criteria (property C02).

```
crit <kind> <consts> <scal> <stress> <lastCell> <nexch> <delta> <trial> <natoms> <cell> <setter> <us>
```
* `kind`    : `can | ham | npt | nst | gc`
* `consts`  : `kB,hplanck,Nav,e`                                            (floats = bit patterns)
* `scal`    : `T,lastPot,lastKin,P,lastVolume,mu,accessibleVolume,exchangeMass`
* `stress`, `lastCell`, `cell` : nine floats, row major
* `nexch`   : natural number, `delta` : integer, `natoms` : natural number
* `trial`   : `energy,volume`
* `setter`  : `-` or `T:<f>` | `P:<f>` | `S:<9 f>` | `mu:<f>` | `V:<f>` | `N:<nat>` — the property setter of the
              simulation object applied to the context before `evaluate`
* `us`      : the uniform numbers at which the decision is wanted (`-` = none)

Answer: `ok <exponent> <prefactor> <logA> <decisions>`; `exponent` is the argument of `exp` (for `gc` the
`exponential`), `prefactor` is 1 except for `gc`, `logA = exponent + log prefactor`, `decisions` is a string of
`1`/`0` (one per `u`, `-` if none).  `crit-raw` answers with the decisions of the code before the overflow fix
(`E` = `OverflowError`).
-/
namespace Crit.IO
open Crit

def mat3 : List Float → Option (Mat3 Float)
  | [a, b, c, d, e, f, g, h, i] => some ⟨a, b, c, d, e, f, g, h, i⟩
  | _ => none

def applySetter (c : Ctx Float) (s : String) : Option (Ctx Float) :=
  if s = "-" then some c else
  match s.splitOn ":" with
  | ["T", v] => (Proto.floatOfBits v).map c.setTemperature
  | ["P", v] => (Proto.floatOfBits v).map c.setPressure
  | ["mu", v] => (Proto.floatOfBits v).map c.setChemicalPotential
  | ["V", v] => (Proto.floatOfBits v).map c.setAccessibleVolume
  | ["N", v] => v.toNat?.map c.setNExchange
  | ["S", v] => (Proto.floatList v).bind mat3 |>.map c.setExternalStress
  | _ => none

structure Parsed where
  k : Consts Float
  c : Ctx Float
  t : Trial Float
  us : List Float

def parse : List String → Option Parsed
  | [consts, scal, stress, lastCell, nexch, delta, trial, natoms, cell, setter, us] => do
    let [kB, h, nav, e] ← Proto.floatList consts | none
    let [T, lastPot, lastKin, P, lastVol, mu, vacc, mass] ← Proto.floatList scal | none
    let S ← (Proto.floatList stress).bind mat3
    let L ← (Proto.floatList lastCell).bind mat3
    let C ← (Proto.floatList cell).bind mat3
    let n ← nexch.toNat?
    let d ← delta.toInt?
    let [E, V] ← Proto.floatList trial | none
    let na ← natoms.toNat?
    let c0 : Ctx Float := ⟨T, lastPot, lastKin, P, S, L, lastVol, mu, vacc, mass, n, d⟩
    let c ← applySetter c0 setter
    let ul ← Proto.floatList us
    pure ⟨⟨kB, h, nav, e⟩, c, ⟨E, C, V, na⟩, ul⟩
  | _ => none

def bits (l : List Bool) : String :=
  if l.isEmpty then "-" else String.ofList (l.map (fun b => if b then '1' else '0'))

def answer (e pref : Float) (ds : List Bool) : String :=
  s!"ok {Proto.bitsOfFloat e} {Proto.bitsOfFloat pref} {Proto.bitsOfFloat (e + Float.log pref)} {bits ds}"

def rawChar : Except PyErr Bool → Char
  | .ok true => '1' | .ok false => '0' | .error _ => 'E'

def handle : List String → String
  | "crit" :: kind :: rest =>
    match parse rest with
    | none => "bad-op"
    | some p =>
      match kind with
      | "can" => answer (canonicalExp p.k p.c p.t) 1.0 (p.us.map (canonicalEvaluate p.k p.c p.t))
      | "ham" => answer (hamiltonianExp p.k p.c p.t) 1.0 (p.us.map (hamiltonianEvaluate p.k p.c p.t))
      | "npt" => answer (isobaricExp p.k p.c p.t) 1.0 (p.us.map (isobaricEvaluate p.k p.c p.t))
      | "nst" => answer (isotensionExp p.k p.c p.t) 1.0 (p.us.map (isotensionEvaluate p.k p.c p.t))
      | "gc" =>
        -- prefactor column: exp(log_prefactor) (0 for -inf); log A = exponential + log_prefactor
        let e := gcExpo p.k p.c p.t
        let lp : Float := if ¬ (0.0 : Float) < p.c.exchangeMass then Float.log 0.0
          else match gcLogPref p.k p.c with | some x => x | none => Float.log 0.0
        s!"ok {Proto.bitsOfFloat e} {Proto.bitsOfFloat (Float.exp lp)} {Proto.bitsOfFloat (e + lp)} {bits (p.us.map (gcEvaluate p.k p.c p.t))}"
      | _ => "bad-op"
  | "crit-raw" :: kind :: rest =>
    match parse rest with
    | none => "bad-op"
    | some p =>
      let go (e : Float) := "ok " ++ String.ofList (p.us.map (fun u => rawChar (acceptRaw u e)))
      match kind with
      | "can" => go (canonicalExp p.k p.c p.t)
      | "ham" => go (hamiltonianExp p.k p.c p.t)
      | "npt" => go (isobaricExp p.k p.c p.t)
      | "nst" => go (isotensionExp p.k p.c p.t)
      | "gc" => "ok " ++ String.ofList (p.us.map (fun u => rawChar (gcAcceptRaw u (gcPref p.k p.c) (gcExpo p.k p.c p.t))))
      | _ => "bad-op"
  | _ => "bad-op"

end Crit.IO
