import QModel.Calc
import QModel.MachineIO
/-! `mc <style> <log 0/1> <ens> A … R …` — the M-machine with the calculator layer; per trial the snapshot plus
    `e=<reported energy> le=<reference energy> ev=<evaluations so far> br=<0/1>` -/
namespace MC
open MM

def styleOf : String → Option CStyle
  | "stateless" => some .stateless | "caching" => some .caching | "peratom" => some .perAtom | _ => none

def runCTrials (sim : Sim) (log : Bool) : List TrialIn → CState → List String → List String
  | [], _, acc => acc.reverse
  | t :: ts, cs, acc =>
    match sim.table.find? (fun e => e.name = t.name) with
    | none => (("unknown-move " ++ t.name) :: acc).reverse
    | some e =>
      let m0 := applyPresel { cs.m with inp := t.inp } t.pre
      let (o, cs1) := ctrial sim e.tree t.verdict { cs with m := m0 }
      let (rep, cs2) := if log then logRead cs1 else ((getEnergy cs1.cal cs1.m.atoms).1, cs1)
      let line := snapshot o cs2.m ++
        s!" e={rep} le={cs2.lastE} ev={cs2.cal.evals} br={if cs2.cal.broken then 1 else 0}"
      runCTrials sim log ts cs2 (line :: acc)

def handle : List String → String
  | "mc" :: style :: log :: ens :: rest =>
    match styleOf style, parseCase ens rest with
    | some st, some (sim, s0, trials) =>
      let cs0 : CState := { m := s0, cal := { style := st } }
      let cs1 := cvalidate sim cs0
      " | ".intercalate (runCTrials sim (log = "1") trials cs1 [])
    | _, _ => "bad-op"
  | _ => "bad-op"

end MC
