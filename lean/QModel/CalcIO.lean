import QModel.CalcAlias
import QModel.MachineIO
/-! `mc <style> <log 0/1> <ens> A … R …` — the M-machine with the calculator layer; per trial the snapshot plus
    `e=<reported energy> le=<reference energy> ev=<evaluations so far> br=<0/1> fk=<checksum of get_forces()>` -/
namespace MC
open MM

/-- (caching style, result arrays written in place) -/
def styleOf : String → Option (CStyle × Bool)
  | "stateless" => some (.stateless, false) | "caching" => some (.caching, false)
  | "peratom" => some (.perAtom, false)
  | "inplace" => some (.caching, true)      -- caches like `caching`; its result ARRAYS live in one buffer
  | "lazy" => some (.caching, true)         -- the same, forces only computed when asked for
  | _ => none

def runCTrials (sim : Sim) (log inplace : Bool) : List TrialIn → AState → List String → List String
  | [], _, acc => acc.reverse
  | t :: ts, s, acc =>
    if t.name = "!run" then
      -- a run boundary: the user's edit, then `validate_simulation()` (positions, reference energy, results)
      let (pos, cell) := runEdit t.inp
      let s1 := avalidate true inplace sim { s with cs := { s.cs with m := userEdit s.cs.m pos cell } }
      let fk := match aForces inplace s1 with
        | some f => toString (forceSum f)
        | none => "none"
      let line := "U" ++ (snapshot .accepted s1.cs.m).drop 1 ++
        s!" e={(getEnergy s1.cs.cal s1.cs.m.atoms).1} le={s1.cs.lastE} ev={s1.cs.cal.evals} br={if s1.cs.cal.broken then 1 else 0} fk={fk}"
      runCTrials sim log inplace ts s1 (line :: acc)
    else
    match sim.table.find? (fun e => e.name = t.name) with
    | none => (("unknown-move " ++ t.name) :: acc).reverse
    | some e =>
      let m0 := applyPresel { s.cs.m with inp := t.inp } t.pre
      let (o, s1) := atrial true inplace sim e.tree t.verdict { s with cs := { s.cs with m := m0 } }
      let rep := (getEnergy s1.cs.cal s1.cs.m.atoms).1
      let s2 := if log then alogRead inplace s1 else s1
      let fk := match aForces inplace s2 with
        | some f => toString (forceSum f)
        | none => "none"
      let line := snapshot o s2.cs.m ++
        s!" e={rep} le={s2.cs.lastE} ev={s2.cs.cal.evals} br={if s2.cs.cal.broken then 1 else 0} fk={fk}"
      runCTrials sim log inplace ts s2 (line :: acc)

def handle : List String → String
  | "mc" :: style :: log :: ens :: rest =>
    match styleOf style, parseCase ens rest with
    | some (st, inplace), some (sim, s0, trials) =>
      let s : AState := { cs := { m := s0, cal := { style := st } }, x := {} }
      let s1 := avalidate true inplace sim s
      " | ".intercalate (runCTrials sim (log = "1") inplace trials s1 [])
    | _, _ => "bad-op"
  | _ => "bad-op"

end MC
