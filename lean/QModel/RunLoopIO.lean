import QModel.RunLoop
import QModel.Proto
/-! line-protocol handler of the run-loop model (C15)

`runloop <coded|fixed> <eager|lazy> <run|srun|irun|irunraw> <logger position|-> <intervals> <segments>`
→ `ok <step_count> <max_steps> <performed> <executed> <trace>`

The simulation state is the list of `step_count` values at which a step body was executed (`executed`);
`trace` lists every observer invocation in execution order as `i:H` (header written by observer `i`) or
`i:k:p` (observer `i` called at `step_count = k` after `p` executed steps). `irunraw` iterates `irun` without
touching the yielded values. -/
namespace RunLoop

def ioCfg (v : Variant) (k : Kind) (logger : Option Nat) (ivs : List Int) : Cfg (List Nat) :=
  { intervals := ivs, logger := logger, kind := k, variant := v, validate := id,
    stepFn := fun k st => st ++ [k] }

def showEv : Nat × Ev (List Nat) → String
  | (i, .header) => s!"{i}:H"
  | (i, .call k st) => s!"{i}:{k}:{st.length}"

def showTrace (tr : List (Nat × Ev (List Nat))) : String :=
  if tr.isEmpty then "-" else ",".intercalate (tr.map showEv)

def entry (cfg : Cfg (List Nat)) : String → Option (Nat → Sim (List Nat) → Sim (List Nat))
  | "run" => some (run cfg)
  | "srun" => some (srun cfg)
  | "irun" => some (irunFull cfg)
  | "irunraw" => some (irunWith cfg false)
  | _ => none

def handle : List String → String
  | ["runloop", v, k, e, lg, ivs, segs] =>
    let v? : Option Variant := match v with | "coded" => some .coded | "fixed" => some .fixed | _ => none
    let k? : Option Kind := match k with | "eager" => some .eager | "lazy" => some .lazy | _ => none
    let lg? : Option (Option Nat) := if lg = "-" then some none else lg.toNat?.map some
    match v?, k?, lg?, Proto.intList ivs, Proto.natList segs with
    | some v, some k, some lg, some ivs, some segs =>
      let cfg := ioCfg v k lg ivs
      match entry cfg e with
      | some f =>
        let s := segs.foldl (fun s n => f n s) (fresh [])
        s!"ok {s.stepCount} {s.maxSteps} {s.performed} {Proto.showNats s.st} {showTrace s.trace}"
      | none => "bad-op"
    | _, _, _, _, _ => "bad-op"
  | _ => "bad-op"

end RunLoop
