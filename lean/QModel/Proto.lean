/-! line-protocol helpers shared by the model driver -/
namespace Proto

def toks (line : String) : List String :=
  (line.trimAscii.toString.splitOn " ").filter (· ≠ "")

def natList (s : String) : Option (List Nat) :=
  if s = "-" then some [] else (s.splitOn ",").mapM String.toNat?

def intList (s : String) : Option (List Int) :=
  if s = "-" then some [] else (s.splitOn ",").mapM String.toInt?

def showNats (l : List Nat) : String :=
  if l.isEmpty then "-" else ",".intercalate (l.map toString)

def showInts (l : List Int) : String :=
  if l.isEmpty then "-" else ",".intercalate (l.map toString)

/-- floats cross the boundary as the decimal value of their 64-bit pattern -/
def floatOfBits (s : String) : Option Float := s.toNat?.map (fun n => Float.ofBits n.toUInt64)
def bitsOfFloat (x : Float) : String := toString x.toBits.toNat

def floatList (s : String) : Option (List Float) :=
  if s = "-" then some [] else (s.splitOn ",").mapM floatOfBits
def showFloats (l : List Float) : String :=
  if l.isEmpty then "-" else ",".intercalate (l.map bitsOfFloat)

end Proto
