import QModel.Machine
/-!
# Seed — the seed a driver ends up with, and a simulation as a function of its stream (C06)

* `mc/driver.py: Driver.__init__`
  ```
  self._seed: Final = seed or PCG64().random_raw()                        # as found (`effectiveSeedRaw`)
  self._seed: Final = seed if seed is not None else PCG64().random_raw()  # as fixed (`effectiveSeed`)
  self._rng = RNG(PCG64(self._seed))
  ```
  `fresh` stands for the value of `PCG64().random_raw()` (operating-system entropy; evaluated lazily by `or`,
  but its value is an input either way).
* `mc/driver.py: Driver.to_dict` (`kwargs["seed"] = self._seed`) and `mc/core.py: MonteCarlo.from_dict`
  (`cls(atoms, **kwargs)`): `restoredSeed`.
* `mc/core.py: MonteCarlo.yield_moves/step` and `mc/driver.py: Driver.irun` over the M-machine
  (`QModel/Machine.lean`): `run : Config → Stream → List Event`. Every random value of a run — which table entry is
  tried, which label a move picks, the insertion/deletion coin, the result of every operation, the uniform number of
  the acceptance test — is popped from the `Stream` argument. Nothing else is an input: numpy's legacy global
  generator and Python's `random` module are not parameters of any function here.
-/
namespace Seed

/-! ## the seed -/

/-- Python truthiness of `int | None`: `None` and `0` are falsy -/
def truthy : Option Nat → Bool
  | some n => n != 0
  | none => false

/-- `seed or fresh` — the code as found -/
def effectiveSeedRaw (seed : Option Nat) (fresh : Nat) : Nat :=
  match seed with
  | some n => if truthy (some n) then n else fresh
  | none => fresh

/-- `seed if seed is not None else fresh` — the code as fixed -/
def effectiveSeed (seed : Option Nat) (fresh : Nat) : Nat :=
  match seed with
  | some n => n
  | none => fresh

/-- `cls.from_dict(mc.to_dict())._seed` for a constructor `ctor`: the saved `_seed` is passed back as `seed=`;
    `fresh'` is the entropy the second construction would draw -/
def restoredSeed (ctor : Option Nat → Nat → Nat) (seed : Option Nat) (fresh fresh' : Nat) : Nat :=
  ctor (some (ctor seed fresh)) fresh'

/-! ## a simulation as a function of its stream -/

/-- everything the simulation's own generator hands out during a run. numpy serves all of it from one PCG64
    stream; the M-machine keeps the integer draws (table selection, label choices, the insertion/deletion coin, the
    criterion's uniform number, all in 1/1000) and the operation results (vectors the operations compute from their
    uniform draws) in two queues. -/
structure Stream where
  draws : List Nat := []
  ops : List MM.V3 := []
deriving Repr, DecidableEq

/-- everything that is *not* random: ensemble and move table, atoms, move objects, context, the verdicts of the
    user's `check_move` hook, the acceptance rule (criterion + calculator: a function of the uniform number drawn for
    it, the atoms before the trial and the atoms after the move), and the number of steps -/
structure Config where
  sim : MM.Sim
  atoms : MM.AtomsS
  heap : List MM.MoveObj
  ctx : MM.Ctx := {}
  checks : List Bool := []
  accept : Nat → MM.AtomsS → MM.AtomsS → Bool
  steps : Nat

/-- what one step leaves behind for an observer: the `move_history` entry (`none` when no move was available) and
    the atoms (positions, momenta, numbers and the other arrays, cell, constraints) after the step -/
structure Event where
  moved : Option (String × MM.Outcome)
  atoms : MM.AtomsS
deriving DecidableEq, Repr

/-- the state `irun` starts from: `validate_simulation()` on the freshly built objects, the stream installed -/
def initState (cfg : Config) (st : Stream) : MM.State :=
  MM.validate cfg.sim
    { atoms := cfg.atoms, heap := cfg.heap, ctx := cfg.ctx,
      inp := { draws := st.draws, ops := st.ops, checks := cfg.checks } }

/-- `yield_moves` for `max_cycles = 1`, every interval 1, no forced move: nothing is yielded (and nothing drawn)
    for an empty table, else one draw selects the entry (`rng.choice(available_moves, p=…)`; scripted convention
    `a[d % len a]`) -/
def selectEntry (table : List MM.Entry) (s : MM.State) : Option MM.Entry × MM.State :=
  match table with
  | [] => (none, s)
  | e :: es =>
    let d := s.inp.draw
    (some ((e :: es).getD (d.1 % (e :: es).length) e), { s with inp := d.2 })

/-- the trial of `MonteCarlo.step` once the entry is known: the move is called; if it succeeded the criterion draws
    its uniform number from the same stream and decides between `save_state()` and `revert_state()` -/
def tryEntry (cfg : Config) (e : MM.Entry) (s0 : MM.State) : Event × MM.State :=
  let r := MM.callTree e.tree s0
  if r.1 then
    let u := r.2.inp.draw
    let s2 : MM.State := { r.2 with inp := u.2 }
    if cfg.accept u.1 s0.atoms r.2.atoms then
      let s3 := MM.saveState cfg.sim s2
      ({ moved := some (e.name, .accepted), atoms := s3.atoms }, s3)
    else
      let s3 := MM.revertState cfg.sim s2
      ({ moved := some (e.name, .rejected), atoms := s3.atoms }, s3)
  else ({ moved := some (e.name, .failed), atoms := r.2.atoms }, r.2)

/-- `MonteCarlo.step` + `call_observers()` -/
def step (cfg : Config) (s : MM.State) : Event × MM.State :=
  match selectEntry cfg.sim.table s with
  | (none, s0) => ({ moved := none, atoms := s0.atoms }, s0)
  | (some e, s0) => tryEntry cfg e s0

/-- `irun(n)` from state `s`: the events in order, and the final state -/
def runFrom (cfg : Config) : Nat → MM.State → List Event × MM.State
  | 0, s => ([], s)
  | n + 1, s =>
    let r := step cfg s
    let rest := runFrom cfg n r.2
    (r.1 :: rest.1, rest.2)

/-- the trajectory of `cfg.steps` steps on stream `st` -/
def run (cfg : Config) (st : Stream) : List Event := (runFrom cfg cfg.steps (initState cfg st)).1

def finalState (cfg : Config) (st : Stream) : MM.State := (runFrom cfg cfg.steps (initState cfg st)).2

/-- `mc.move_history` as seen after each step -/
def moveHistory (t : List Event) : List (Option (String × MM.Outcome)) := t.map (·.moved)

/-- the accept/reject history -/
def acceptHistory (t : List Event) : List (Option MM.Outcome) := t.map (fun e => e.moved.map (·.2))

/-- the log file: one line per step, each a function `fmt` of what the observers can see -/
def logText (fmt : Event → String) (t : List Event) : String := String.join (t.map fmt)

/-- the world a simulation runs in: its configuration, its own stream, and the state `g` of whatever global
    generators exist (numpy's legacy `RandomState`, Python's `random`) -/
structure World (G : Type) where
  cfg : Config
  stream : Stream
  globals : G

/-- a run in a world: the global generators are there, and are not read -/
def runIn {G : Type} (w : World G) : List Event := run w.cfg w.stream

/-- the two states agree on everything except what is left of the generator's stream -/
def SameButStream (s t : MM.State) : Prop :=
  s.atoms = t.atoms ∧ s.heap = t.heap ∧ s.ctx = t.ctx ∧ s.inp.checks = t.inp.checks

end Seed
