import QModel.Num
/-!
# C18 — adaptive force-bias step length (`mc/fbmc.py: AdaptiveForceBias`)

Mirrors `update_delta`, `get_forces_variation_coef`, `get_energy_variation_coef`, `tanh_update`,
`exp_update`. Everything numeric is generic over `[Num α]` (`Float` for the model driver, `ℝ` for the theorems).

numpy arrays are lists: the committee forces `results["forces_comm"]` of shape `(K, N, 3)` are `K` rows of
`3N` flattened coordinates, the committee energies `results["energies"]` of shape `(K,)` are a list of `K`
numbers. `np.std` is the population standard deviation (`ddof = 0`):
`sqrt(sum((a - sum(a)/K)**2)/K)`. The order of the additions is numpy's (checked bit for bit by the
correspondence run): reducing axis 0 of the `(K, N, 3)` array accumulates member after member (`sum`, left
fold); reducing the contiguous 1-D energies uses pairwise summation (`sum1`). Over `ℝ` both are the sum
(`QProofs/Adaptive.lean: sum_real, sum1_real`).

Not modelled: a committee array of the wrong shape or with `K = 0` members (numpy: `nan` + RuntimeWarning),
`len(atoms) = 0`, non-float entries.
-/
namespace AFB
variable {α : Type} [Num α]

/-! ## the two update functions -/

/-- `math.atanh(0.5)` = ½·log 3 -/
def atanhHalf : α := Num.log (Num.ofNat 3) * Num.half

/-- `math.log(2)` -/
def log2 : α := Num.log (Num.ofNat 2)

/-- `tanh_update`: `1 - np.tanh(v / self.reference_variance * math.atanh(0.5))` -/
def tanhUpdate (ref v : α) : α := Num.one - Num.tanh (v / ref * atanhHalf)

/-- `exp_update`: `np.exp(-v / self.reference_variance * math.log(2))` -/
def expUpdate (ref v : α) : α := Num.exp (-v / ref * log2)

inductive UpdateFn | tanh | exp
deriving DecidableEq, Repr

/-- `self.update_functions[self.update_function]` -/
def update : UpdateFn → α → α → α
  | .tanh => tanhUpdate
  | .exp => expUpdate

/-- `self.min_delta + (self.max_delta - self.min_delta) * f` -/
def delta (dmin dmax f : α) : α := dmin + (dmax - dmin) * f

/-- the adapted delta for one (scalar) variation coefficient -/
def adapted (u : UpdateFn) (dmin dmax ref v : α) : α := delta dmin dmax (update u ref v)

/-- the adapted delta for a per-coordinate variation coefficient (numpy broadcasting = pointwise) -/
def adaptedList (u : UpdateFn) (dmin dmax ref : α) (vs : List α) : List α :=
  vs.map (adapted u dmin dmax ref)

/-! ## statistics over the committee axis -/

/-- `np.add.reduce` along the committee axis: member after member -/
def sum (l : List α) : α := l.foldl (· + ·) Num.zero

/-- `np.mean` -/
def mean (l : List α) : α := sum l / Num.ofNat l.length

/-- `np.std(·)` with `ddof = 0`: `sqrt(mean((a - mean(a))**2))` -/
def std (l : List α) : α :=
  let m := mean l
  Num.sqrt (sum (l.map (fun x => (x - m) * (x - m))) / Num.ofNat l.length)

/-! ### 1-D arrays: numpy's pairwise summation (`pairwise_sum_DOUBLE`, used when the reduced axis is the
contiguous one — the committee energies). `np.add.reduce(a)` is `0 + pairwise_sum(a)`. -/

/-- the final combination of the eight running sums -/
def combine8 : List α → α
  | [r0, r1, r2, r3, r4, r5, r6, r7] => ((r0 + r1) + (r2 + r3)) + ((r4 + r5) + (r6 + r7))
  | _ => Num.zero

/-- `r[j] += a[i + j]` for `k` further chunks of eight -/
def accum8 (r rest : List α) : Nat → List α
  | 0 => r
  | k + 1 => accum8 (List.zipWith (· + ·) r (rest.take 8)) (rest.drop 8) k

/-- `8 ≤ n ≤ 128`: eight running sums over the first `n - n % 8` elements, combined pairwise, then the
    remaining `n % 8` elements one after the other -/
def blockSum (l : List α) : α :=
  let m := l.length - l.length % 8
  let r := accum8 (l.take 8) ((l.take m).drop 8) (m / 8 - 1)
  (l.drop m).foldl (· + ·) (combine8 r)

/-- `pairwise_sum(a, n)`; the first argument is recursion fuel (`≥` the number of halvings; `n` is enough) -/
def pairwiseSum : Nat → List α → α
  | 0, l => l.foldl (· + ·) Num.zero
  | fuel + 1, l =>
    if l.length < 8 then l.foldl (· + ·) Num.zero
    else if l.length ≤ 128 then blockSum l
    else
      let h := l.length / 2
      let n2 := h - h % 8
      pairwiseSum fuel (l.take n2) + pairwiseSum fuel (l.drop n2)

/-- `np.add.reduce` of a 1-D array -/
def sum1 (l : List α) : α := Num.zero + pairwiseSum l.length l

/-- `np.std` of a 1-D array (`ddof = 0`) -/
def std1 (l : List α) : α :=
  let m := sum1 l / Num.ofNat l.length
  Num.sqrt (sum1 (l.map (fun x => (x - m) * (x - m))) / Num.ofNat l.length)

/-- `np.abs` -/
def absN [∀ a b : α, Decidable (a < b)] (x : α) : α := if x < Num.zero then -x else x

/-- `np.mean(np.abs(·))` -/
def meanAbs [∀ a b : α, Decidable (a < b)] (l : List α) : α := mean (l.map absN)

/-- one coordinate of `np.std(fc, axis=0) / np.mean(np.abs(fc), axis=0)`; `col` = that coordinate's value in
    every committee member -/
def coefOfColumnRaw [∀ a b : α, Decidable (a < b)] (col : List α) : α := std col / meanAbs col

/-- the same after the repair: `np.divide(spread, magnitude, out=np.zeros_like(spread), where=magnitude != 0)` — on a
    coordinate where every member gives exactly zero force the coefficient is 0 by the code's own branch (in `Float` the
    raw quotient is `0/0 = nan`, and a `nan` delta never leaves the rejection loop of `ForceBias.step`; over the reals Lean's
    `0/0 = 0` had hidden the difference). `magnitude` is a mean of absolute values, so `≠ 0` is `0 <`. -/
def coefOfColumn [∀ a b : α, Decidable (a < b)] (col : List α) : α :=
  if (Num.zero : α) < meanAbs col then std col / meanAbs col else Num.zero

/-- the columns (axis-0 slices) of a `(K, 3N)` array given as `K` rows -/
def columns (rows : List (List α)) : List (List α) :=
  match rows with
  | [] => []
  | r :: _ => (List.range r.length).map (fun j => rows.map (fun row => row.getD j Num.zero))

/-! ## the calculator as the getters see it -/

/-- `atoms.calc.results`, restricted to the two committee keys (`none` = key absent → `KeyError`) -/
structure Results (α : Type) where
  forcesComm : Option (List (List α))   -- results["forces_comm"], K rows of 3N coordinates
  energies : Option (List α)            -- results["energies"], K energies

/-- `get_forces_variation_coef(atoms)`; `clc = none` is `atoms.calc is None` (→ `AttributeError`);
    the result is the flattened `(N, 3)` array -/
def forcesVariationCoef [∀ a b : α, Decidable (a < b)] (ref : α) (natoms : Nat)
    (clc : Option (Results α)) : List α :=
  match clc with
  | none => List.replicate (3 * natoms) ref             -- except AttributeError: np.full((len(atoms), 3), ref)
  | some r =>
    match r.forcesComm with
    | none => List.replicate (3 * natoms) ref           -- except KeyError
    | some fc => (columns fc).map coefOfColumn

/-- `get_energy_variation_coef(atoms)`: `np.std(energies, axis=0) / len(atoms)` -/
def energyVariationCoef (ref : α) (natoms : Nat) (clc : Option (Results α)) : α :=
  match clc with
  | none => ref                                          -- except AttributeError
  | some r =>
    match r.energies with
    | none => ref                                        -- except KeyError
    | some es => std1 es / Num.ofNat natoms

/-! ## `update_delta` -/

inductive Scheme | forces | energy
deriving DecidableEq, Repr

/-- a float or an `(N, 3)` array (flattened) -/
inductive Value (α : Type) where
  | scalar (x : α)
  | array (xs : List α)

def Value.map {β : Type} (f : α → β) : Value α → Value β
  | .scalar x => .scalar (f x)
  | .array xs => .array (xs.map f)

/-- every entry satisfies `p` -/
def Value.All (p : α → Prop) : Value α → Prop
  | .scalar x => p x
  | .array xs => ∀ x ∈ xs, p x

structure Config (α : Type) where
  minDelta : α
  maxDelta : α
  ref : α            -- reference_variance
  scheme : Scheme
  fn : UpdateFn

/-- `self.schemes[self.scheme](self.atoms)` -/
def variationCoef [∀ a b : α, Decidable (a < b)] (cfg : Config α) (natoms : Nat)
    (clc : Option (Results α)) : Value α :=
  match cfg.scheme with
  | .forces => .array (forcesVariationCoef cfg.ref natoms clc)
  | .energy => .scalar (energyVariationCoef cfg.ref natoms clc)

/-- the second statement of `update_delta`, for a given variation coefficient -/
def deltaOf (cfg : Config α) (vc : Value α) : Value α :=
  vc.map (adapted cfg.fn cfg.minDelta cfg.maxDelta cfg.ref)

/-- `update_delta()`: returns `(self.variation_coef, self.delta)` -/
def updateDelta [∀ a b : α, Decidable (a < b)] (cfg : Config α) (natoms : Nat)
    (clc : Option (Results α)) : Value α × Value α :=
  let vc := variationCoef cfg natoms clc
  (vc, deltaOf cfg vc)

end AFB
