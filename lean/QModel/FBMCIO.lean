import QModel.FBMC
import QModel.Proto
/-! line protocol of the force-bias model (C13)

* `fbgamma F δ kT`                                  → `ok γ denominator`
* `fbprob γ ζ`                                      → `ok P`            (denominator computed from γ as the code does)
* `fbstep kT forces deltas masses powers pos script` → `ok gammas zetas momenta newpos rounds used trace stepcount fragile`
  (all lists flattened `(N,3)` arrays of equal length; `script` = every number the generator returned, in
  order; `exhausted <fragile>` when the script does not lead to acceptance of every coordinate)
-/
namespace FB

def showEffect : Effect → String
  | .getForces => "get_forces" | .getPositions => "get_positions" | .setMomenta => "set_momenta"
  | .getMomenta => "get_momenta" | .setPositions => "set_positions" | .getPotentialEnergy => "get_potential_energy"

def mkPars : List Float → List Float → List Float → List Float → List (Par Float)
  | f :: fs, d :: ds, m :: ms, p :: ps => { force := f, delta := d, mass := m, power := p } :: mkPars fs ds ms ps
  | _, _, _, _ => []

def nan : Float := 0.0 / 0.0

/-- Harness aid, not part of the model: is the decision `P > u` of this coordinate within the rounding noise of
    two different `exp` implementations (numpy's SIMD `exp` and libm's differ by one ulp in ~5 % of the
    arguments)?  `|ΔP| ≤ 2ε·coth|γ| + εP`; a vanishing denominator at `γ ≠ 0` is rounding level as well. -/
def fragileCoord (c : Coord Float) : Bool :=
  if c.gamma == 0.0 then false
  else if c.den == 0.0 then true
  else
    let p := trialProb c.gamma c.den c.zeta
    let thr := 2.0e-15 * (2.0 + (Float.exp c.gamma + Float.exp (-c.gamma)) / Float.abs c.den)
    Float.abs (p - c.u) <= thr

/-- replay of the rounds of `loop` looking for a fragile decision -/
def fragileRun (d : Nat → Float) : Nat → Nat → List (Coord Float) → Bool
  | 0, _, cs => cs.any fragileCoord
  | r + 1, p, cs =>
    cs.any fragileCoord ||
      (let k := nUnconv cs
       fragileRun d r (p + 2 * k) (redraw d k p cs))

def handle : List String → String
  | ["fbgamma", f, d, kt] =>
    match Proto.floatOfBits f, Proto.floatOfBits d, Proto.floatOfBits kt with
    | some f, some d, some kt =>
      let g : Float := gamma f d kt
      s!"ok {Proto.bitsOfFloat g} {Proto.bitsOfFloat (denominator g)}"
    | _, _, _ => "bad-op"
  | ["fbprob", g, z] =>
    match Proto.floatOfBits g, Proto.floatOfBits z with
    | some g, some z => s!"ok {Proto.bitsOfFloat (P g z)}"
    | _, _ => "bad-op"
  | ["fbstep", kt, fs, ds, ms, ps, xs, sc] =>
    match Proto.floatOfBits kt, Proto.floatList fs, Proto.floatList ds, Proto.floatList ms, Proto.floatList ps,
          Proto.floatList xs, Proto.floatList sc with
    | some kt, some fs, some ds, some ms, some ps, some xs, some sc =>
      let n := fs.length
      if n = 0 || ds.length ≠ n || ms.length ≠ n || ps.length ≠ n || xs.length ≠ n then "bad-op" else
      let arr := sc.toArray
      let d : Nat → Float := fun i => arr.getD i nan
      let s0 : Sys Float := { positions := xs, momenta := xs.map (fun _ => 0.0), stepCount := 0, trace := [] }
      let pars := mkPars fs ds ms ps
      let gd0 := (pars.map (fun q => gamma q.force q.delta kt)).map (fun g => (g, denominator g))
      let exhausted : Unit → String := fun _ =>
        s!"exhausted {fragileRun d (arr.size + 2) (2 * n) (initCoords d n 0 gd0)}"
      match step d (arr.size + 2) kt pars s0 with
      | none => exhausted ()
      | some o =>
        if o.used > arr.size then exhausted () else
        let tr := ",".intercalate (o.sys.trace.map showEffect)
        let gd := o.gammas.map (fun g => (g, denominator g))
        let fr := fragileRun d o.rounds (2 * n) (initCoords d n 0 gd)
        s!"ok {Proto.showFloats o.gammas} {Proto.showFloats o.zetas} {Proto.showFloats o.sys.momenta} {Proto.showFloats o.sys.positions} {o.rounds} {o.used} {tr} {o.sys.stepCount} {fr}"
    | _, _, _, _, _, _, _ => "bad-op"
  | _ => "bad-op"

end FB
