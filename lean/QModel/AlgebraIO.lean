import QModel.Algebra
import QModel.Proto
namespace Alg

def kindOfChar : Char → Option Kind
  | 'D' => some .disp | 'X' => some .exch | 'C' => some .cell | 'G' => some .gen | _ => none

/-- prefix parser: `L i` | `A e e` | `M n e` -/
partial def parseExpr : List String → Option (Expr × List String)
  | "L" :: i :: rest => i.toNat?.map (fun n => (.leaf n, rest))
  | "A" :: rest => do
      let (a, r1) ← parseExpr rest
      let (b, r2) ← parseExpr r1
      pure (.add a b, r2)
  | "M" :: n :: rest => do
      let k ← n.toInt?
      let (a, r1) ← parseExpr rest
      pure (.mul a k, r1)
  | _ => none

def showCType : CType → String
  | .plain => "CompositeMove" | .cdisp => "CompositeDisplacementMove" | .cexch => "CompositeExchangeMove"

def handle : List String → String
  | "alg" :: kinds :: rest =>
    match kinds.toList.mapM kindOfChar, parseExpr rest with
    | some ks, some (e, []) =>
      match eval (fun i => ks.getD i .gen) e with
      | .ok (.base i) => s!"ok base {i}"
      | .ok (.comp t ms) => s!"ok {showCType t} {Proto.showNats ms}"
      | .error _ => "err ValueError"
    | _, _ => "bad-op"
  | "oalg" :: rest =>
    match parseExpr rest with
    | some (e, []) =>
      match oeval e with
      | .ok (.base i) => s!"ok base {i}"
      | .ok (.comp os) => s!"ok CompositeOperation {Proto.showNats os}"
      | .error _ => "err ValueError"
    | _ => "bad-op"
  | "callplain" :: ms :: res :: [] =>
    match Proto.natList ms, Proto.natList res with
    | some ms, some rs =>
      let (order, ok) := callPlain ms (fun i => rs.contains i)
      s!"ok {Proto.showNats order} {ok}"
    | _, _ => "bad-op"
  | _ => "bad-op"

end Alg
