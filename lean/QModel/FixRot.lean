import QModel.Constraints
/-!
# Model of `quansino.constraints.FixRot.adjust_momenta` (C12)

```python
positions_to_com = atoms.positions - atoms.get_center_of_mass()
eig, vecs = atoms.get_moments_of_inertia(vectors=True)
inv_inertia = np.linalg.inv(np.linalg.inv(vecs) @ np.diag(eig) @ vecs)
angular_momentum = np.sum(np.cross(positions_to_com, momenta), axis=0)
omega = inv_inertia @ angular_momentum
correction = np.cross(omega, positions_to_com)
momenta[:] = momenta - correction * masses[:, None]
```

`vecs` are the (transposed) orthonormal eigenvectors of the inertia tensor that ASE builds in
`Atoms.get_moments_of_inertia`, so `inv(vecs) @ diag(eig) @ vecs` is that tensor again; the model inverts the
tensor directly (adjugate / determinant).  The eigen-decomposition route itself is ASE/LAPACK: modelled, not
verified.
-/

namespace Constr
open VecFn Verlet

variable {α : Type} [Num α] {n : Nat}

/-- a 3×3 matrix held as data: rows `r0 r1 r2` -/
structure M3 (α : Type) where
  r0 : V3 α
  r1 : V3 α
  r2 : V3 α

def det3 (A : M3 α) : α :=
  A.r0.x * (A.r1.y * A.r2.z - A.r1.z * A.r2.y) - A.r0.y * (A.r1.x * A.r2.z - A.r1.z * A.r2.x)
    + A.r0.z * (A.r1.x * A.r2.y - A.r1.y * A.r2.x)

/-- `np.linalg.inv` of a 3×3 matrix: adjugate over determinant -/
def inv3 (A : M3 α) : M3 α :=
  let d := det3 A
  ⟨⟨(A.r1.y * A.r2.z - A.r1.z * A.r2.y) / d, (A.r0.z * A.r2.y - A.r0.y * A.r2.z) / d, (A.r0.y * A.r1.z - A.r0.z * A.r1.y) / d⟩,
   ⟨(A.r1.z * A.r2.x - A.r1.x * A.r2.z) / d, (A.r0.x * A.r2.z - A.r0.z * A.r2.x) / d, (A.r0.z * A.r1.x - A.r0.x * A.r1.z) / d⟩,
   ⟨(A.r1.x * A.r2.y - A.r1.y * A.r2.x) / d, (A.r0.y * A.r2.x - A.r0.x * A.r2.y) / d, (A.r0.x * A.r1.y - A.r0.y * A.r1.x) / d⟩⟩

/-- `A @ v` -/
def mulVec3 (A : M3 α) (v : V3 α) : V3 α :=
  ⟨A.r0.x * v.x + A.r0.y * v.y + A.r0.z * v.z, A.r1.x * v.x + A.r1.y * v.y + A.r1.z * v.z,
   A.r2.x * v.x + A.r2.y * v.y + A.r2.z * v.z⟩

/-- `atoms.positions - atoms.get_center_of_mass()`, tabulated -/
def toComT (m : Col n α) (q : Arr n α) : Tab n α :=
  let cm := com m q
  Arr.tab fun i k => q i k - cm.get k

/-- `atoms.positions - atoms.get_center_of_mass()` -/
def toCom (m : Col n α) (q : Arr n α) : Arr n α := (toComT m q).get

/-- the inertia tensor of `Atoms.get_moments_of_inertia` for positions `r` relative to the centre of mass -/
def inertia (m : Col n α) (r : Arr n α) : M3 α :=
  let i11 := sumFin (fun i => m i * (r i 1 * r i 1 + r i 2 * r i 2))
  let i22 := sumFin (fun i => m i * (r i 0 * r i 0 + r i 2 * r i 2))
  let i33 := sumFin (fun i => m i * (r i 0 * r i 0 + r i 1 * r i 1))
  let i12 := sumFin (fun i => -(m i) * r i 0 * r i 1)
  let i13 := sumFin (fun i => -(m i) * r i 0 * r i 2)
  let i23 := sumFin (fun i => -(m i) * r i 1 * r i 2)
  ⟨⟨i11, i12, i13⟩, ⟨i12, i22, i23⟩, ⟨i13, i23, i33⟩⟩

/-- `np.sum(np.cross(positions_to_com, momenta), axis=0)` -/
def angularMomentum (r p : Arr n α) : V3 α :=
  ⟨sumFin (fun i => cross (r i) (p i) 0), sumFin (fun i => cross (r i) (p i) 1),
   sumFin (fun i => cross (r i) (p i) 2)⟩

/-- `omega = inv_inertia @ angular_momentum` -/
def omega (m : Col n α) (r p : Arr n α) : V3 α :=
  mulVec3 (inv3 (inertia m r)) (angularMomentum r p)

/-- `FixRot.adjust_momenta(atoms, momenta)`: the new content of `momenta` (as data) -/
def fixRotAdjustT (m : Col n α) (q p : Arr n α) : Tab n α :=
  let r := Tab.get (toComT m q)
  let w := omega m r p
  -- correction = np.cross(omega, positions_to_com); momenta - correction * masses[:, None]
  Arr.tab fun i k => p i k - cross w.get (r i) k * m i

/-- `FixRot.adjust_momenta(atoms, momenta)`: the new content of `momenta` -/
def fixRotAdjust (m : Col n α) (q p : Arr n α) : Arr n α := (fixRotAdjustT m q p).get

/-- `quansino.constraints.FixRot()` as a constraint (only `adjust_momenta` is overridden) -/
def fixRot (m : Col n α) : Cons n α where
  adjPos _ new := Arr.tab new
  adjMom q p := fixRotAdjustT m q p
  adjFor _ f := Arr.tab f

end Constr
