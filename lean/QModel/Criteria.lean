import QModel.Num
/-!
# M-criteria — the acceptance criteria of `src/quansino/mc/criteria.py` (properties C02, C01)

Every numeric function is written once over `[Num α]`; the driver runs it at `Float`, the theorems of
`QProps/C02.lean` are about the same definitions at `ℝ`.

The model mirrors the code **after** the two C02 fixes (`harness/patches/C02-overflow.diff`,
`harness/patches/C02-isotension-hydrostatic.diff`):

* every criteria ends in `_metropolis(rng, exponent)`: one uniform number is always drawn and the trial is
  accepted when `exponent >= 0 or u < math.exp(exponent)` (`acceptFixed`).  The code before the fix,
  `rng.random() < math.exp(exponent)`, is kept as `acceptRaw`; `math.exp` is the partial function `pyExp`
  (raises `OverflowError` above 709.782712893384).
* the isotension stress work uses `external_stress - pressure * np.eye(3)` (before the fix the scalar was
  subtracted from all nine entries: `isotensionElasticUnfixed`).

The strain matrix is the expression the code computes, including the factor `old_cell @ inv(old_cell)`
(= identity), i.e. `½((h·h₀⁻¹)ᵀ − 1)`; it is *not* the Lagrangian strain `½(FᵀF − 1)`.  The property text
does not pin the strain measure, so the model follows the code (DESIGN §7 row 2b).
-/

namespace Crit

/-! ## 3×3 matrices as explicit 9-tuples (row major, `aij` = row `i`, column `j`) -/

structure Mat3 (α : Type) where
  a00 : α
  a01 : α
  a02 : α
  a10 : α
  a11 : α
  a12 : α
  a20 : α
  a21 : α
  a22 : α

namespace Mat3
variable {α : Type} [Num α]

/-- `np.eye(3)` -/
def eye : Mat3 α :=
  ⟨Num.one, Num.zero, Num.zero, Num.zero, Num.one, Num.zero, Num.zero, Num.zero, Num.one⟩

/-- `A.T` -/
def transpose (A : Mat3 α) : Mat3 α :=
  ⟨A.a00, A.a10, A.a20, A.a01, A.a11, A.a21, A.a02, A.a12, A.a22⟩

/-- `A - B` -/
def sub (A B : Mat3 α) : Mat3 α :=
  ⟨A.a00 - B.a00, A.a01 - B.a01, A.a02 - B.a02, A.a10 - B.a10, A.a11 - B.a11, A.a12 - B.a12,
   A.a20 - B.a20, A.a21 - B.a21, A.a22 - B.a22⟩

/-- `c * A` (scalar times matrix) -/
def smul (c : α) (A : Mat3 α) : Mat3 α :=
  ⟨c * A.a00, c * A.a01, c * A.a02, c * A.a10, c * A.a11, c * A.a12, c * A.a20, c * A.a21, c * A.a22⟩

/-- `A - c` with numpy broadcasting: the scalar is subtracted from all nine entries -/
def subScalar (A : Mat3 α) (c : α) : Mat3 α :=
  ⟨A.a00 - c, A.a01 - c, A.a02 - c, A.a10 - c, A.a11 - c, A.a12 - c, A.a20 - c, A.a21 - c, A.a22 - c⟩

/-- `A @ B` -/
def mul (A B : Mat3 α) : Mat3 α :=
  ⟨A.a00 * B.a00 + A.a01 * B.a10 + A.a02 * B.a20,
   A.a00 * B.a01 + A.a01 * B.a11 + A.a02 * B.a21,
   A.a00 * B.a02 + A.a01 * B.a12 + A.a02 * B.a22,
   A.a10 * B.a00 + A.a11 * B.a10 + A.a12 * B.a20,
   A.a10 * B.a01 + A.a11 * B.a11 + A.a12 * B.a21,
   A.a10 * B.a02 + A.a11 * B.a12 + A.a12 * B.a22,
   A.a20 * B.a00 + A.a21 * B.a10 + A.a22 * B.a20,
   A.a20 * B.a01 + A.a21 * B.a11 + A.a22 * B.a21,
   A.a20 * B.a02 + A.a21 * B.a12 + A.a22 * B.a22⟩

/-- `np.trace(A)` -/
def trace (A : Mat3 α) : α := A.a00 + A.a11 + A.a22

/-- `np.linalg.det(A)` (cofactor expansion along the first row) -/
def det (A : Mat3 α) : α :=
  A.a00 * (A.a11 * A.a22 - A.a12 * A.a21) - A.a01 * (A.a10 * A.a22 - A.a12 * A.a20)
    + A.a02 * (A.a10 * A.a21 - A.a11 * A.a20)

/-- `np.linalg.inv(A)` as adjugate / determinant (numpy uses an LU solve; same value up to rounding) -/
def inv (A : Mat3 α) : Mat3 α :=
  let d := det A
  ⟨(A.a11 * A.a22 - A.a12 * A.a21) / d, (A.a02 * A.a21 - A.a01 * A.a22) / d, (A.a01 * A.a12 - A.a02 * A.a11) / d,
   (A.a12 * A.a20 - A.a10 * A.a22) / d, (A.a00 * A.a22 - A.a02 * A.a20) / d, (A.a02 * A.a10 - A.a00 * A.a12) / d,
   (A.a10 * A.a21 - A.a11 * A.a20) / d, (A.a01 * A.a20 - A.a00 * A.a21) / d, (A.a00 * A.a11 - A.a01 * A.a10) / d⟩

end Mat3

variable {α : Type} [Num α]

/-! ## `math.exp` and the Metropolis comparison -/

inductive PyErr where
  | overflow   -- `OverflowError: math range error`
  | domain     -- `ValueError: math domain error`
deriving DecidableEq, Repr

/-- the largest argument `math.exp` accepts: `709.782712893384` (= ⌊log(DBL_MAX)⌋ to the last bit) -/
def expMax : α := Num.ofNat 709782712893384 / Num.ofNat 1000000000000

/-- `math.exp(x)`: raises `OverflowError` above `expMax` -/
def pyExp [DecidableRel (α := α) (· < ·)] (x : α) : Except PyErr α :=
  if expMax < x then .error .overflow else .ok (Num.exp x)

/-- the code BEFORE the fix: `rng.random() < math.exp(exponent)` -/
def acceptRaw [DecidableRel (α := α) (· < ·)] (u e : α) : Except PyErr Bool :=
  match pyExp e with
  | .error err => .error err
  | .ok x => .ok (decide (u < x))

/-- the code AFTER the fix, `_metropolis`: `exponent >= 0 or u < math.exp(exponent)`, with `math.exp` still the
    partial function — `evaluate_total` shows it never fails -/
def acceptFixedE [DecidableRel (α := α) (· < ·)] [DecidableRel (α := α) (· ≤ ·)] (u e : α) : Except PyErr Bool :=
  if (Num.zero : α) ≤ e then .ok true
  else match pyExp e with
    | .error err => .error err
    | .ok x => .ok (decide (u < x))

/-- the decision of `_metropolis(rng, e)` when the generator returns `u` -/
def acceptFixed [DecidableRel (α := α) (· < ·)] [DecidableRel (α := α) (· ≤ ·)] (u e : α) : Bool :=
  if (Num.zero : α) ≤ e then true else decide (u < Num.exp e)

/-! ## exponents (logarithm of the acceptance ratio) -/

/-- `CanonicalCriteria.evaluate` / `HamiltonianCanonicalCriteria.evaluate`:
    `-energy_difference / (context.temperature * kB)` -/
def canonicalExponent (dE kT : α) : α := -dE / kT

/-- `IsobaricCriteria.evaluate`:
    `-(dE + P*(V' - V)) / kT + (len(atoms) + 1) * np.log(V' / V)` -/
def isobaricExponent (dE P Vnew Vold kT : α) (N : Nat) : α :=
  -(dE + P * (Vnew - Vold)) / kT + Num.ofNat (N + 1) * Num.log (Vnew / Vold)

/-- `IsotensionCriteria.evaluate`, `self.strain_tensor`:
    `0.5 * (inv(old.T) @ cur.T @ old @ inv(old) - np.eye(3))` -/
def codedStrain (cur old : Mat3 α) : Mat3 α :=
  Mat3.smul Num.half
    (Mat3.sub (Mat3.mul (Mat3.mul (Mat3.mul (Mat3.inv old.transpose) cur.transpose) old) (Mat3.inv old)) Mat3.eye)

/-- `elastic_energy = P*(V' - V) + V*np.trace((S - P*np.eye(3)) @ strain)` (after the fix) -/
def isotensionElastic (P Vnew Vold : α) (S strain : Mat3 α) : α :=
  P * (Vnew - Vold) + Vold * Mat3.trace (Mat3.mul (Mat3.sub S (Mat3.smul P Mat3.eye)) strain)

/-- before the fix: `(external_stress - pressure) @ strain`, scalar broadcast over all nine entries -/
def isotensionElasticUnfixed (P Vnew Vold : α) (S strain : Mat3 α) : α :=
  P * (Vnew - Vold) + Vold * Mat3.trace (Mat3.mul (Mat3.subScalar S P) strain)

/-- `-(dE + elastic_energy) / kT + (len(atoms) + 1) * np.log(V' / V)` -/
def isotensionExponent (dE P Vnew Vold kT : α) (N : Nat) (S cur old : Mat3 α) : α :=
  -(dE + isotensionElastic P Vnew Vold S (codedStrain cur old)) / kT
    + Num.ofNat (N + 1) * Num.log (Vnew / Vold)

/-! ## grand-canonical prefactor -/

/-- `x ** k` for a Python int `k` -/
def ipow (x : α) (k : Int) : α :=
  if k < 0 then Num.one / Num.npow x k.natAbs else Num.npow x k.natAbs

/-- `for i in range(lo, lo + n): acc /= i` -/
def divLoop (acc : α) (lo : Int) : Nat → α
  | 0 => acc
  | n + 1 => divLoop (acc / Num.ofInt lo) (lo + 1) n

/-- `for i in range(lo, lo + n): acc *= i` -/
def mulLoop (acc : α) (lo : Int) : Nat → α
  | 0 => acc
  | n + 1 => mulLoop (acc * Num.ofInt lo) (lo + 1) n

/-- `factorial_term`: the two `for` loops of `GrandCanonicalCriteria.evaluate`
    (`range(N+1, N+δ+1)` dividing for δ > 0, `range(N+δ+1, N+1)` multiplying for δ < 0) -/
def factorialTerm (N : Nat) (δ : Int) : α :=
  if 0 < δ then divLoop Num.one ((N : Int) + 1) δ.toNat
  else if δ < 0 then mulLoop Num.one ((N : Int) + δ + 1) (-δ).toNat
  else Num.one

/-- the unit constants of `ase.units` the code reads (passed in so that the `Float` run uses ASE's values) -/
structure Consts (α : Type) where
  kB : α        -- `ase.units.kB`        eV / K
  hplanck : α   -- `ase.units._hplanck`  J s
  nav : α       -- `ase.units._Nav`      1 / mol
  e : α         -- `ase.units._e`        C  (J / eV)

/-- the literal `1e-3` -/
def milli : α := Num.ofNat 1 / Num.ofNat 1000
/-- the literal `1e10` -/
def e10 : α := Num.ofNat 10000000000

/-- thermal de Broglie wavelength in Å, as coded:
    `math.sqrt(_hplanck**2 / (2*np.pi*mass*kB*T/_Nav*1e-3*_e)) * 1e10` (mass in amu, T in K) -/
def deBroglie (k : Consts α) (mass T : α) : α :=
  Num.sqrt (Num.npow k.hplanck 2 / (Num.two * Num.pi * mass * k.kB * T / k.nav * milli * k.e)) * e10

/-- `prefactor = volume**δ * factorial_term * Λ**(-3δ)` -/
def gcPrefactor (V lam : α) (N : Nat) (δ : Int) : α :=
  ipow V δ * factorialTerm N δ * ipow lam (-3 * δ)

/-- `exponential = (δ*μ - dE) / (T*kB)` -/
def gcExponential (dE mu kT : α) (δ : Int) : α := (Num.ofInt δ * mu - dE) / kT

/-! ### the prefactor accumulated as its logarithm (the code after the second repair: `V**δ` and `Λ**(-3δ)` leave the
double range — Python's `**` raises `OverflowError`, or the product underflows to 0 — long before the ratio does) -/

/-- `for i in range(lo, lo + n): log_prefactor -= math.log(i)` -/
def logDivLoop (acc : α) (lo : Int) : Nat → α
  | 0 => acc
  | n + 1 => logDivLoop (acc - Num.log (Num.ofInt lo)) (lo + 1) n

/-- `for i in range(lo, lo + n): log_prefactor = log_prefactor + math.log(i) if i > 0 else -math.inf`;
    `none` stands for `-inf` (which stays `-inf` under every later `+ log i` and `- 3δ·log Λ`) -/
def logMulLoop (acc : Option α) (lo : Int) : Nat → Option α
  | 0 => acc
  | n + 1 => logMulLoop (if 0 < lo then acc.map (· + Num.log (Num.ofInt lo)) else none) (lo + 1) n

/-- `0.5 * (math.log(_hplanck**2 / (2*np.pi*mass*kB/_Nav*1e-3*_e)) - math.log(T)) + math.log(1e10)` -/
def logDeBroglie (k : Consts α) (mass T : α) : α :=
  Num.half * (Num.log (Num.npow k.hplanck 2 / (Num.two * Num.pi * mass * k.kB / k.nav * milli * k.e)) - Num.log T)
    + Num.log e10

/-- `log_prefactor` of `GrandCanonicalCriteria.evaluate`: `δ·log V`, the factorial loop, `- 3·δ·log Λ` -/
def gcLogPrefactor (V logLam : α) (N : Nat) (δ : Int) : Option α :=
  let base : α := Num.ofInt δ * Num.log V
  let withFact : Option α :=
    if 0 < δ then some (logDivLoop base ((N : Int) + 1) δ.toNat)
    else if δ < 0 then logMulLoop (some base) ((N : Int) + δ + 1) (-δ).toNat
    else some base
  withFact.map (· - Num.ofInt (3 * δ) * logLam)

/-- the first repair (kept as the product-form reference): `log_prefactor = math.log(prefactor) if prefactor > 0 else -inf;
    _metropolis(rng, exponential + log_prefactor)`.  With `-inf` the Python expression is
    `u < math.exp(-inf) = 0.0`, false for every `u ≥ 0`; the model returns `false` directly. -/
def gcAcceptFixed [DecidableRel (α := α) (· < ·)] [DecidableRel (α := α) (· ≤ ·)] (u pref expo : α) : Bool :=
  if (Num.zero : α) < pref then acceptFixed u (expo + Num.log pref) else false

/-- `math.log(x)`: raises `ValueError` for `x ≤ 0` -/
def pyLog [DecidableRel (α := α) (· < ·)] (x : α) : Except PyErr α :=
  if (Num.zero : α) < x then .ok (Num.log x) else .error .domain

/-- `gcAcceptFixed` with `math.log` / `math.exp` as the partial functions — `gc_evaluate_total` shows it never fails -/
def gcAcceptFixedE [DecidableRel (α := α) (· < ·)] [DecidableRel (α := α) (· ≤ ·)] (u pref expo : α) :
    Except PyErr Bool :=
  if (Num.zero : α) < pref then
    match pyLog pref with
    | .error err => .error err
    | .ok l => acceptFixedE u (expo + l)
  else .ok false

/-- before the fix: `criteria = math.exp(exponential); rng.random() < criteria * prefactor` -/
def gcAcceptRaw [DecidableRel (α := α) (· < ·)] (u pref expo : α) : Except PyErr Bool :=
  match pyExp expo with
  | .error err => .error err
  | .ok x => .ok (decide (u < x * pref))

/-- the largest finite double, `sys.float_info.max` = (2 − 2⁻⁵²)·2¹⁰²³ -/
def floatMax : α := (Num.two - Num.one / Num.npow Num.two 52) * Num.npow Num.two 1023

/-- Python's `x ** k` for a float `x` and an int `k`: raises `OverflowError` when the result leaves the double range
    (the product-form prefactor used it for `V**δ` and `Λ**(-3δ)`) -/
def pyIPow [DecidableRel (α := α) (· < ·)] (x : α) (k : Int) : Except PyErr α :=
  if floatMax < ipow x k then .error .overflow else .ok (ipow x k)

/-! ## contexts, simulation-object setters, `evaluate` -/

/-- the attributes of `DisplacementContext ⊂ {Hamiltonian…, Deformation…, Exchange…}Context` that a criteria
    reads (one record with the union of the slots) -/
structure Ctx (α : Type) where
  temperature : α
  lastPotentialEnergy : α
  lastKineticEnergy : α       -- HamiltonianContext
  pressure : α                -- DeformationContext
  externalStress : Mat3 α
  lastCell : Mat3 α
  lastVolume : α              -- `context.last_cell.volume`
  chemicalPotential : α       -- ExchangeContext
  accessibleVolume : α
  exchangeMass : α            -- `context.exchange_atoms.get_masses().sum()`
  nExchange : Nat             -- `context.number_of_exchange_particles`
  particleDelta : Int

/-- what the criteria reads from the trial configuration `context.atoms` -/
structure Trial (α : Type) where
  energy : α        -- `atoms.get_potential_energy()`  (`get_total_energy()` for the Hamiltonian criteria)
  cell : Mat3 α     -- `atoms.get_cell().array`
  volume : α        -- `atoms.get_volume()`
  natoms : Nat      -- `len(atoms)`

/-- `Canonical.temperature = T`  (`self.context.temperature = temperature`) -/
def Ctx.setTemperature (c : Ctx α) (T : α) : Ctx α := { c with temperature := T }
/-- `Isobaric.pressure = P` -/
def Ctx.setPressure (c : Ctx α) (P : α) : Ctx α := { c with pressure := P }
/-- `Isotension.external_stress = S` -/
def Ctx.setExternalStress (c : Ctx α) (S : Mat3 α) : Ctx α := { c with externalStress := S }
/-- `GrandCanonical.chemical_potential = μ` -/
def Ctx.setChemicalPotential (c : Ctx α) (mu : α) : Ctx α := { c with chemicalPotential := mu }
/-- `GrandCanonical.accessible_volume = V` -/
def Ctx.setAccessibleVolume (c : Ctx α) (V : α) : Ctx α := { c with accessibleVolume := V }
/-- `GrandCanonical.number_of_exchange_particles = N` -/
def Ctx.setNExchange (c : Ctx α) (N : Nat) : Ctx α := { c with nExchange := N }

def canonicalExp (k : Consts α) (c : Ctx α) (t : Trial α) : α :=
  canonicalExponent (t.energy - c.lastPotentialEnergy) (c.temperature * k.kB)

def hamiltonianExp (k : Consts α) (c : Ctx α) (t : Trial α) : α :=
  canonicalExponent (t.energy - c.lastPotentialEnergy - c.lastKineticEnergy) (c.temperature * k.kB)

def isobaricExp (k : Consts α) (c : Ctx α) (t : Trial α) : α :=
  isobaricExponent (t.energy - c.lastPotentialEnergy) c.pressure t.volume c.lastVolume (c.temperature * k.kB) t.natoms

def isotensionExp (k : Consts α) (c : Ctx α) (t : Trial α) : α :=
  isotensionExponent (t.energy - c.lastPotentialEnergy) c.pressure t.volume c.lastVolume (c.temperature * k.kB)
    t.natoms c.externalStress t.cell c.lastCell

def gcPref (k : Consts α) (c : Ctx α) : α :=
  gcPrefactor c.accessibleVolume (deBroglie k c.exchangeMass c.temperature) c.nExchange c.particleDelta

def gcExpo (k : Consts α) (c : Ctx α) (t : Trial α) : α :=
  gcExponential (t.energy - c.lastPotentialEnergy) c.chemicalPotential (c.temperature * k.kB) c.particleDelta

section
variable [DecidableRel (α := α) (· < ·)] [DecidableRel (α := α) (· ≤ ·)]

/-- `CanonicalCriteria.evaluate(context)` when `context.rng.random()` returns `u` -/
def canonicalEvaluate (k : Consts α) (c : Ctx α) (t : Trial α) (u : α) : Bool :=
  acceptFixed u (canonicalExp k c t)
/-- `HamiltonianCanonicalCriteria.evaluate(context)` (`t.energy` = total energy) -/
def hamiltonianEvaluate (k : Consts α) (c : Ctx α) (t : Trial α) (u : α) : Bool :=
  acceptFixed u (hamiltonianExp k c t)
/-- `IsobaricCriteria.evaluate(context)` -/
def isobaricEvaluate (k : Consts α) (c : Ctx α) (t : Trial α) (u : α) : Bool :=
  acceptFixed u (isobaricExp k c t)
/-- `IsotensionCriteria.evaluate(context)` -/
def isotensionEvaluate (k : Consts α) (c : Ctx α) (t : Trial α) (u : α) : Bool :=
  acceptFixed u (isotensionExp k c t)
/-- `GrandCanonicalCriteria.evaluate(context)` with the prefactor as the product `V**δ * factorial_term * Λ**(-3δ)`
    (the code between the two repairs; `**` idealised as total — see `pyIPow` for what Python does) -/
def gcEvaluateProd (k : Consts α) (c : Ctx α) (t : Trial α) (u : α) : Bool :=
  gcAcceptFixed u (gcPref k c) (gcExpo k c t)

/-- `log_prefactor` for a context -/
def gcLogPref (k : Consts α) (c : Ctx α) : Option α :=
  gcLogPrefactor c.accessibleVolume (logDeBroglie k c.exchangeMass c.temperature) c.nExchange c.particleDelta

/-- `GrandCanonicalCriteria.evaluate(context)`: `_metropolis(rng, exponential + log_prefactor)`; with `log_prefactor = -inf`
    the Python expression is `exponent >= 0 or u < math.exp(exponent)` at `-inf` (or `nan`): false for every `u ≥ 0` -/
def gcEvaluate (k : Consts α) (c : Ctx α) (t : Trial α) (u : α) : Bool :=
  if ¬ (Num.zero : α) < c.exchangeMass then false      -- no exchange species configured: `_metropolis(rng, -inf)`
  else
    match gcLogPref k c with
    | none => false
    | some lp => acceptFixed u (gcExpo k c t + lp)

/-- the same with `math.log` / `math.exp` as the partial functions Python has (`gc_evaluate_total`: never fails for
    positive volume, temperature, mass and constants) -/
def gcEvaluateE (k : Consts α) (c : Ctx α) (t : Trial α) (u : α) : Except PyErr Bool :=
  if ¬ (Num.zero : α) < c.exchangeMass then .ok false else
  match pyLog c.accessibleVolume, pyLog c.temperature,
        pyLog (Num.npow k.hplanck 2 / (Num.two * Num.pi * c.exchangeMass * k.kB / k.nav * milli * k.e)) with
  | .ok _, .ok _, .ok _ =>
    match gcLogPref k c with
    | none => .ok false
    | some lp => acceptFixedE u (gcExpo k c t + lp)
  | .error e, _, _ => .error e
  | _, .error e, _ => .error e
  | _, _, .error e => .error e

end

end Crit
