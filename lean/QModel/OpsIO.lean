import QModel.Ops
import QModel.Proto
/-!
Line protocol of the C10 model (all numbers are 64-bit patterns in decimal, see `Proto`):

```
ops ball s u1 u2 u3                      -> ok x,y,z
ops sphere s u1 u2                       -> ok x,y,z
ops box s u1 u2 u3                       -> ok x,y,z
ops trans <cell:9> <pos:3n> u1 u2 u3     -> ok x,y,z
ops rot <pos:3n> <masses:n> w x y z      -> ok <3n>
ops transrot <cell:9> <pos:3n> <masses:n> u1 u2 u3 w x y z -> ok <3n>
ops comp | <sub> | <sub> ...             -> ok <3 or 3n>      (sub = any line above without the leading `ops`)
ops iso m <mask:9 of 0/1> u              -> ok <9>
ops aniso m <mask> u1 … u6               -> ok <9>
ops shape m <mask> u1 … u6               -> ok <9>
ops dcomp | <sub> | <sub> ...            -> ok <9>
ops expm <a:9>                           -> ok <9>
```
Malformed input gives `bad-op`; a composite whose parts have incompatible shapes gives `err shape`.
-/
namespace Ops

def f? (s : String) : Option Float := Proto.floatOfBits s

def vecs? : List Float → Option (List (Vec Float))
  | [] => some []
  | a :: b :: c :: rest => (vecs? rest).map (vec3 a b c :: ·)
  | _ => none

def mat? (l : List Float) : Option (Mat Float) :=
  match l with
  | [a, b, c, d, e, f, g, h, i] => some (mat3 (vec3 a b c) (vec3 d e f) (vec3 g h i))
  | _ => none

def mask? (s : String) : Option (Fin 3 → Fin 3 → Bool) :=
  let l := s.toList
  if l.length = 9 && l.all (fun c => c = '0' || c = '1') then
    some fun i j => l.getD (3 * i.val + j.val) '1' = '1'
  else none

def showVec (v : Vec Float) : List Float := [v 0, v 1, v 2]
def showVecs (l : List (Vec Float)) : String := Proto.showFloats (l.flatMap showVec)
def showMat (m : Mat Float) : String := Proto.showFloats (showVec (m 0) ++ showVec (m 1) ++ showVec (m 2))

/-- one displacement operation -/
def dispOp : List String → Option (List (Vec Float))
  | ["ball", s, u1, u2, u3] => do
      pure [ball (← f? s) (← f? u1) (← f? u2) (← f? u3)]
  | ["sphere", s, u1, u2] => do
      pure [sphere (← f? s) (← f? u1) (← f? u2)]
  | ["box", s, u1, u2, u3] => do
      pure [box (← f? s) (← f? u1) (← f? u2) (← f? u3)]
  | ["trans", cell, pos, u1, u2, u3] => do
      let c ← mat? (← Proto.floatList cell)
      let ps ← vecs? (← Proto.floatList pos)
      if ps.isEmpty then none
      pure [translation c ps (← f? u1) (← f? u2) (← f? u3)]
  | ["rot", pos, masses, w, x, y, z] => do
      let ps ← vecs? (← Proto.floatList pos)
      let ms ← Proto.floatList masses
      if ps.isEmpty || ms.length ≠ ps.length then none
      pure (rotation (ms.zip ps) (← f? w) (← f? x) (← f? y) (← f? z))
  | ["transrot", cell, pos, masses, u1, u2, u3, w, x, y, z] => do
      let c ← mat? (← Proto.floatList cell)
      let ps ← vecs? (← Proto.floatList pos)
      let ms ← Proto.floatList masses
      if ps.isEmpty || ms.length ≠ ps.length then none
      pure (translationRotation c (ms.zip ps) (← f? u1) (← f? u2) (← f? u3) (← f? w) (← f? x) (← f? y) (← f? z))
  | _ => none

/-- one deformation operation -/
def defOp : List String → Option (Mat Float)
  | ["iso", m, mask, u] => do
      pure (iso (← f? m) (← mask? mask) (← f? u))
  | ["aniso", m, mask, u1, u2, u3, u4, u5, u6] => do
      pure (aniso expmTaylor (← f? m) (← mask? mask) (← f? u1) (← f? u2) (← f? u3) (← f? u4) (← f? u5) (← f? u6))
  | ["shape", m, mask, u1, u2, u3, u4, u5, u6] => do
      pure (shape expmTaylor (← f? m) (← mask? mask) (← f? u1) (← f? u2) (← f? u3) (← f? u4) (← f? u5) (← f? u6))
  | _ => none

/-- split a token list at the `|` separators (the first, empty, chunk is dropped by the caller) -/
def splitBar (ws : List String) : List (List String) :=
  let (cur, acc) := ws.foldl (fun (st : List String × List (List String)) w =>
      if w = "|" then ([], st.1.reverse :: st.2) else (w :: st.1, st.2)) ([], [])
  (cur.reverse :: acc).reverse

/-- parts can be summed with numpy broadcasting iff all lengths are 1 or one common `n` -/
def shapesOk (parts : List (List (Vec Float))) : Bool :=
  let ns := (parts.map List.length).filter (· ≠ 1)
  match ns with
  | [] => true
  | n :: rest => rest.all (· = n)

def handle : List String → String
  | "ops" :: "comp" :: rest =>
    match splitBar rest with
    | [] :: subs =>
      match subs.mapM dispOp with
      | some parts => if shapesOk parts then s!"ok {showVecs (composite parts)}" else "err shape"
      | none => "bad-op"
    | _ => "bad-op"
  | "ops" :: "loop" :: maxAttempts :: checks :: rest =>
    -- `ops loop <max_attempts> <verdicts as 0/1 string> | op | op …` (one op per attempt)
    match maxAttempts.toNat?, splitBar rest with
    | some k, [] :: subs =>
      match subs.mapM dispOp with
      | some ts =>
        match moveLoop k ts (checks.toList.map (· = '1')) with
        | some d => s!"ok {showVecs d}"
        | none => "none"
      | none => "bad-op"
    | _, _ => "bad-op"
  | "ops" :: "dcomp" :: rest =>
    match splitBar rest with
    | [] :: subs =>
      match subs.mapM defOp with
      | some parts => s!"ok {showMat (compositeMat parts)}"
      | none => "bad-op"
    | _ => "bad-op"
  | ["ops", "expm", a] =>
    match (Proto.floatList a).bind mat? with
    | some m => s!"ok {showMat (expmTaylor m)}"
    | none => "bad-op"
  | "ops" :: rest =>
    match dispOp rest with
    | some d => s!"ok {showVecs d}"
    | none =>
      match defOp rest with
      | some m => s!"ok {showMat m}"
      | none => "bad-op"
  | _ => "bad-op"

end Ops
