import QModel.Num
/-!
# Force-bias Monte Carlo step — model of `quansino/mc/fbmc.py`, class `ForceBias`  (property C13)

Mirrors, line by line, `calculate_gamma`, `calculate_trial_probability`, `get_zeta` and `step`.
Numeric code is generic over `[Num α] [FB.Ops α]`; `FB.Ops` adds locally (QModel/Num.lean is shared and is
not edited) what this file needs beyond `Num`: Boolean comparisons and a real power.

The random generator is a *script*: `d : Nat → α` is the sequence of numbers the generator hands out, in the
order of the calls of the real code (`uniform(-1,1,size)` values then `random(size)` values, see `redraw`).
-/
namespace FB

/-- what the force-bias model needs beyond `Num` -/
class Ops (α : Type) [Num α] where
  /-- `a < b` as a Boolean (IEEE `<` on `Float`: false when an operand is NaN) -/
  ltb : α → α → Bool
  /-- `a != b` as a Boolean (IEEE `!=` on `Float`: true when an operand is NaN) -/
  neb : α → α → Bool
  /-- `np.power(x, p)` -/
  pow : α → α → α

instance : Ops Float where
  ltb a b := a < b
  neb a b := a != b
  pow := Float.pow

variable {α : Type} [Num α] [Ops α]

/-- `ForceBias.gamma_max_value = 709.782712` -/
def gammaMax : α := Num.ofNat 709782712 / Num.ofNat 1000000

/-- `np.clip(x, lo, hi) = minimum(maximum(x, lo), hi)` (a NaN goes through, as in numpy) -/
def clip (x lo hi : α) : α :=
  let y := if Ops.ltb x lo then lo else x
  if Ops.ltb hi y then hi else y

/-- `calculate_gamma`: `np.clip(forces * delta / (2 * temperature * kB), -gamma_max, gamma_max)`;
    `kT = temperature * kB` -/
def gamma (F δ kT : α) : α := clip ((F * δ) / (Num.two * kT)) (-gammaMax) gammaMax

/-- `calculate_gamma`: `self.denominator = np.exp(gamma) - np.exp(-gamma)` -/
def denominator (γ : α) : α := Num.exp γ - Num.exp (-γ)

/-- `np.sign` -/
def sign (z : α) : α :=
  if Ops.ltb Num.zero z then Num.one else if Ops.ltb z Num.zero then -Num.one else Num.zero

/-- `calculate_trial_probability` for one coordinate:
    ```
    sign_zeta = np.sign(zeta)
    probability_trial = np.exp(sign_zeta * gamma) - np.exp(gamma * (2 * zeta - sign_zeta))
    probability_trial *= sign_zeta
    return np.divide(probability_trial, denominator, out=ones, where=denominator != 0)
    ``` -/
def trialProb (γ den ζ : α) : α :=
  let s := sign ζ
  let pt := (Num.exp (s * γ) - Num.exp (γ * (Num.two * ζ - s))) * s
  if Ops.neb den Num.zero then pt / den else Num.one

/-- the trial probability with the denominator the code stores next to `gamma` -/
def P (γ ζ : α) : α := trialProb γ (denominator γ) ζ

/-- one Cartesian coordinate during the rejection loop -/
structure Coord (α : Type) where
  gamma : α
  den : α
  zeta : α
  u : α

/-- `converged = calculate_trial_probability() > probability_random`, one entry -/
def acc (c : Coord α) : Bool := Ops.ltb c.u (trialProb c.gamma c.den c.zeta)

/-- number of entries of `~converged` -/
def nUnconv (cs : List (Coord α)) : Nat := (cs.filter (fun c => !acc c)).length

/-- body of the `while` loop:
    ```
    self.zeta[~converged] = self._rng.uniform(-1, 1, k)      # script positions p … p+k-1, array order
    probability_random[~converged] = self._rng.random(k)     # script positions p+k … p+2k-1, array order
    ```
    `k` is the number of unconverged coordinates *before* the redraw (the mask is computed once). -/
def redraw (d : Nat → α) (k : Nat) : Nat → List (Coord α) → List (Coord α)
  | _, [] => []
  | p, c :: cs =>
    if acc c then c :: redraw d k p cs
    else { c with zeta := d p, u := d (p + k) } :: redraw d k (p + 1) cs

/-- the state before the loop: `self.zeta = uniform(-1,1,(N,3))` (script positions `0…n-1`) and
    `probability_random = random((N,3))` (script positions `n…2n-1`), flattened in C order -/
def initCoords (d : Nat → α) (n : Nat) : Nat → List (α × α) → List (Coord α)
  | _, [] => []
  | i, (g, dn) :: rest => { gamma := g, den := dn, zeta := d i, u := d (i + n) } :: initCoords d n (i + 1) rest

/-- the `while not np.all(converged)` loop with fuel; returns the final coordinates, the number of
    further rounds and the number of script entries consumed; `none` = fuel exhausted -/
def loop (d : Nat → α) : Nat → Nat → Nat → List (Coord α) → Option (List (Coord α) × Nat × Nat)
  | 0, _, _, _ => none
  | fuel + 1, rounds, p, cs =>
    let k := nUnconv cs
    if k = 0 then some (cs, rounds, p)
    else loop d fuel (rounds + 1) (p + 2 * k) (redraw d k p cs)

/-- `displacement = zeta * delta * np.power(np.min(shaped_masses) / shaped_masses, masses_scaling_power)` -/
def displacement (ζ δ mmin m p : α) : α := ζ * δ * Ops.pow (mmin / m) p

/-- `set_momenta(m * displacement); corrected = get_momenta() / m` (no constraint attached) -/
def corrected (m disp : α) : α := (m * disp) / m

/-- the effects `step()` has on its `Atoms` object, in order -/
inductive Effect
  | getForces | getPositions | setMomenta | getMomenta | setPositions | getPotentialEnergy
  deriving DecidableEq, Repr

/-- the observable state a step acts on: positions, momenta, and the driver's step counter -/
structure Sys (α : Type) where
  positions : List α
  momenta : List α
  stepCount : Nat
  trace : List Effect

/-- per-coordinate parameters of a step (flattened `(N,3)` arrays, C order) -/
structure Par (α : Type) where
  force : α
  delta : α
  mass : α
  power : α

def minList (lt : α → α → Bool) : List α → α → α
  | [], m => m
  | x :: xs, m => minList lt xs (if lt x m then x else m)

/-- `np.min(self.shaped_masses)` (the list is never empty in a step) -/
def massMin (ps : List (Par α)) : α :=
  match ps with
  | [] => Num.one
  | q :: qs => minList Ops.ltb (qs.map (·.mass)) q.mass

/-- the new positions given the accepted `zeta`: `positions + corrected_displacement` -/
def moved (mmin : α) : List (Par α) → List α → List α → List α
  | q :: qs, z :: zs, x :: xs => (x + corrected q.mass (displacement z q.delta mmin q.mass q.power)) :: moved mmin qs zs xs
  | _, _, xs => xs

/-- the momenta left behind: `shaped_masses * displacement` -/
def momentaOf (mmin : α) : List (Par α) → List α → List α
  | q :: qs, z :: zs => (q.mass * displacement z q.delta mmin q.mass q.power) :: momentaOf mmin qs zs
  | _, _ => []

/-- result of one `ForceBias.step()` -/
structure StepOut (α : Type) where
  sys : Sys α
  gammas : List α
  zetas : List α
  rounds : Nat
  used : Nat

/-- `ForceBias.step()`: a single function of the system state. `none` = fuel exhausted. -/
def step (d : Nat → α) (fuel : Nat) (kT : α) (ps : List (Par α)) (s : Sys α) : Option (StepOut α) :=
  let gs := ps.map (fun q => gamma q.force q.delta kT)
  let gd := gs.map (fun g => (g, denominator g))
  let n := ps.length
  match loop d fuel 0 (2 * n) (initCoords d n 0 gd) with
  | none => none
  | some (cs, rounds, used) =>
    let zs := cs.map (·.zeta)
    let mmin := massMin ps
    some {
      sys := { positions := moved mmin ps zs s.positions
               momenta := momentaOf mmin ps zs
               stepCount := s.stepCount
               trace := s.trace ++ [.getForces, .getPositions, .setMomenta, .getMomenta, .setPositions,
                                    .getPotentialEnergy] }
      gammas := gs, zetas := zs, rounds := rounds, used := used }

end FB
