/-!
# `Num α` — the numeric interface shared by the executable (`Float`) and the proof (`ℝ`) carriers

Every numeric model function is written once, generic over `[Num α]`. `instance : Num Float` (below) is what
the model driver runs; `noncomputable instance : Num ℝ` (QProofs/NumReal.lean) is what the theorems are about.
-/

class Num (α : Type) extends Add α, Sub α, Mul α, Div α, Neg α, LT α, LE α where
  ofNat : Nat → α
  exp : α → α
  log : α → α
  sqrt : α → α
  tanh : α → α
  sin : α → α
  cos : α → α
  pi : α

namespace Num
variable {α : Type} [Num α]

/-- small literals -/
def zero : α := Num.ofNat 0
def one : α := Num.ofNat 1
def two : α := Num.ofNat 2
def half : α := Num.ofNat 1 / Num.ofNat 2
def ofInt (i : Int) : α := if i < 0 then -(Num.ofNat i.natAbs) else Num.ofNat i.natAbs

/-- `x ** n` for a natural exponent, by repeated multiplication -/
def npow (x : α) : Nat → α
  | 0 => one
  | n+1 => npow x n * x

end Num

instance : Num Float where
  ofNat := Float.ofNat
  exp := Float.exp
  log := Float.log
  sqrt := Float.sqrt
  tanh := Float.tanh
  sin := Float.sin
  cos := Float.cos
  pi := 3.141592653589793
