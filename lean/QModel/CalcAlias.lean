import QModel.Calc
/-!
# C04 — result ARRAYS and who owns them

`QModel/Calc.lean` treats a cached result as a value. Real calculators hand out numpy arrays, and some (ASE's `EMT`:
`self.results['forces'] = self.forces`, with `self.forces[:] = 0.0` at the start of every calculation) keep writing into
the array they handed out. What `context.last_results` remembers is then a REFERENCE into the calculator's buffer.

This layer runs next to `MC.ctrial`: it tracks the calculator's force buffer, what `calc.results["forces"]` refers to
and what `context.last_results["forces"]` refers to.

* `inplace` — the calculator writes into one persistent buffer (EMT) instead of returning fresh arrays;
* `fixed` — `Context.save_state` / `MonteCarlo.validate_simulation` remember the results by value
  (`quansino.mc.contexts.detach_results`, repair commit "remember calculator results by value"); `fixed = false` is the
  pinned behaviour (`self.last_results = self.atoms.calc.results`).

The forces are those of the harness calculator (−2·r per atom); all that matters is that they are a function of the
positions.
-/
namespace MC
open MM

def forceOfPos (p : V3) : V3 := (-2 * p.1, -2 * p.2.1, -2 * p.2.2)

/-- forces of the harness calculator -/
def forcesOf (a : AtomsS) : List V3 := (positions a.rows).map forceOfPos

/-- what a `forces` entry of a results dictionary refers to -/
inductive FRef
  | buffer                 -- the calculator's own buffer (contents change with every calculation)
  | own (f : List V3)      -- an array nobody else writes to
deriving Repr, DecidableEq

structure AliasS where
  buf : List V3 := []
  ref : Option FRef := none        -- `calc.results["forces"]`
  lastRef : Option FRef := none    -- `context.last_results["forces"]`
deriving Repr

def deref (buf : List V3) : FRef → List V3
  | .buffer => buf
  | .own f => f

/-- `detach_results`: copy the arrays (only when `fixed`) -/
def detach (fixed : Bool) (buf : List V3) (r : FRef) : FRef :=
  if fixed then .own (deref buf r) else r

/-- what one `get_potential_energy()` / `get_forces()` does to the arrays: a calculation happened iff the evaluation
    counter moved; it writes the buffer (in-place calculators) or creates a fresh array -/
def aliasAfter (inplace : Bool) (c : CalcS) (a : AtomsS) (x : AliasS) : AliasS :=
  if (getEnergy c a).2.evals = c.evals then x
  else if inplace then { x with buf := forcesOf a, ref := some .buffer }
  else { x with ref := some (.own (forcesOf a)) }

structure AState where
  cs : CState
  x : AliasS
deriving Repr

/-- `validate_simulation()` -/
def avalidate (fixed inplace : Bool) (sim : Sim) (s : AState) : AState :=
  let m := validate sim s.cs.m
  let x1 := aliasAfter inplace s.cs.cal m.atoms s.x
  let r := x1.ref.map (detach fixed x1.buf)
  { cs := cvalidate sim s.cs, x := { x1 with ref := r, lastRef := r } }

/-- one trial of `MonteCarlo.step`, arrays included (`MC.ctrial` gives everything else) -/
def atrial (fixed inplace : Bool) (sim : Sim) (t : Tree) (v : Bool) (s : AState) : Outcome × AState :=
  let (ok, s1) := callTree t s.cs.m
  let r := ctrial sim t v s.cs
  if ok then
    let x1 := aliasAfter inplace s.cs.cal s1.atoms s.x                              -- criteria.evaluate
    if v then
      let x2 := aliasAfter inplace (getEnergy s.cs.cal s1.atoms).2 s1.atoms x1      -- context.save_state
      let ref := x2.ref.map (detach fixed x2.buf)
      (r.1, { cs := r.2, x := { x2 with ref := ref, lastRef := ref } })
    else (r.1, { cs := r.2, x := { x1 with ref := x1.lastRef } })                   -- calc.results = last_results
  else (r.1, { cs := r.2, x := s.x })

/-- the logger's read after a step -/
def alogRead (inplace : Bool) (s : AState) : AState :=
  { cs := (logRead s.cs).2, x := aliasAfter inplace s.cs.cal s.cs.m.atoms s.x }

/-- `atoms.get_forces()` as the user sees it after the step -/
def aForces (inplace : Bool) (s : AState) : Option (List V3) :=
  let x := aliasAfter inplace s.cs.cal s.cs.m.atoms s.x
  x.ref.map (deref x.buf)

/-- checksum used on the wire -/
def forceSum (f : List V3) : Int :=
  ((List.range f.length).zip f).foldl (fun acc (i, v) => acc + ((i : Int) + 1) * (v.1 + 2 * v.2.1 + 3 * v.2.2)) 0

end MC
