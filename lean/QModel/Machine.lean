/-!
# M-machine — the discrete state machine behind C03, C05, C11, C20 (and C04 with `Calc.lean`)

Mirrors, in the order of effects of the Python code:

* `moves/displacement.py` — `DisplacementMove.__call__/attempt_displacement/register_*/on_atoms_changed`,
  `CompositeDisplacementMove.__call__`, `HamiltonianDisplacementMove.attempt_displacement`
* `moves/exchange.py` — `ExchangeMove.__call__/attempt_addition/attempt_deletion`, `CompositeExchangeMove.__call__`
* `moves/cell.py` — `CellMove.attempt_deformation`;  `moves/composite.py` — `CompositeMove.__call__/on_atoms_changed`
* `mc/contexts.py` — `save_state/revert_state/reset` of Displacement/Hamiltonian/Deformation/Exchange contexts
* `mc/core.py: MonteCarlo.step`, `mc/canonical.py`, `mc/isobaric.py`, `mc/gcmc.py` — `save_state/revert_state`
* `utils/atoms.py: reinsert_atoms`; ASE: `Atoms.extend`, `__delitem__` (+ `FixAtoms.delete_atoms`),
  `set_positions(apply_constraint)`, `set_cell(scale_atoms)`.

Positions, momenta and cell entries are integers: the harness drives the real code with scripted operations
returning integer-valued floats, on which numpy arithmetic is exact. The properties are about *which* rows
change and *whether* they are restored, not about the size of a displacement.

External inputs of a trial (`Inputs`): the draws handed out by the generator, the operation results, the
verdicts of the user's `check_move`, and the criteria verdict. A script that runs out yields `0`/`(0,0,0)`/`true`
(the Python stubs do the same).
-/
namespace MM

abbrev V3 := Int × Int × Int
def V3.add (a b : V3) : V3 := (a.1 + b.1, a.2.1 + b.2.1, a.2.2 + b.2.2)
def V3.mul (a b : V3) : V3 := (a.1 * b.1, a.2.1 * b.2.1, a.2.2 * b.2.2)
def V3.zero : V3 := (0, 0, 0)

/-- one atom: position, momentum, and `aux` = every other per-atom array (number, tag, charge, custom …) -/
structure Row where
  pos : V3
  mom : V3
  aux : List Int
deriving DecidableEq, Repr

/-- the `Atoms` object: rows, diagonal cell, and the index list of a `FixAtoms` constraint (if any) -/
structure AtomsS where
  rows : List Row
  cell : V3
  fixed : Option (List Nat)
deriving DecidableEq, Repr

/-! ## numpy / ASE list primitives -/

/-- `del atoms[idx]` on the arrays: mask delete -/
def deleteFrom {α} (idx : List Nat) : Nat → List α → List α
  | _, [] => []
  | k, x :: xs => if k ∈ idx then deleteFrom idx (k+1) xs else x :: deleteFrom idx (k+1) xs

def deleteIdx {α} (l : List α) (idx : List Nat) : List α := deleteFrom idx 0 l

/-- `atoms[idx]`: rows in the order of `idx` -/
def pick {α} (l : List α) (idx : List Nat) : List α := idx.filterMap (fun i => l[i]?)

/-- `reinsert_atoms`: position `k ∈ idx` takes `taken[idxOf k]`, any other position the next kept row -/
def reinsertFrom {α} (idx : List Nat) (taken : List α) : Nat → Nat → List α → List α
  | _, 0, _ => []
  | k, n+1, kept =>
    if k ∈ idx then
      match taken[idx.idxOf k]? with
      | some x => x :: reinsertFrom idx taken (k+1) n kept
      | none => []
    else
      match kept with
      | x :: xs => x :: reinsertFrom idx taken (k+1) n xs
      | [] => []

def reinsert {α} (kept taken : List α) (idx : List Nat) : List α :=
  reinsertFrom idx taken 0 (kept.length + taken.length) kept

/-- `FixAtoms.delete_atoms(indices, natoms)`: remap the surviving fixed indices; drop the constraint when none is left -/
def remapFixed (fixed : List Nat) (idx : List Nat) : Option (List Nat) :=
  let kept := fixed.filter (fun i => !idx.contains i)
  let out := kept.map (fun i => i - (idx.eraseDups.filter (· < i)).length)
  if out.isEmpty then none else some out

/-- `del atoms[idx]` -/
def AtomsS.delete (a : AtomsS) (idx : List Nat) : AtomsS :=
  { a with rows := deleteIdx a.rows idx,
           fixed := match a.fixed with
                    | none => none
                    | some f => remapFixed f idx }

/-- `atoms.extend(other)`: new rows appended, constraints untouched -/
def AtomsS.extend (a : AtomsS) (new : List Row) : AtomsS := { a with rows := a.rows ++ new }

def isFixed (a : AtomsS) (i : Nat) : Bool :=
  match a.fixed with
  | none => false
  | some f => f.contains i

/-- `atoms.set_positions(atoms.positions + translation, apply_constraint=c)` where `translation` is `d` on `moving`
    and zero elsewhere: a row moves iff it is selected and (when constraints apply) not fixed -/
def applyDisp (a : AtomsS) (moving : List Nat) (d : V3) (constr : Bool) : AtomsS :=
  { a with rows := a.rows.zipIdx.map (fun (r, i) =>
      if moving.contains i && !(constr && isFixed a i) then { r with pos := V3.add r.pos d } else r) }

/-- `atoms.positions = saved` -/
def setPositions (rows : List Row) (ps : List V3) : List Row :=
  List.zipWith (fun r p => { r with pos := p }) rows ps

def setMomenta (rows : List Row) (ms : List V3) : List Row :=
  List.zipWith (fun r m => { r with mom := m }) rows ms

def positions (rows : List Row) : List V3 := rows.map (·.pos)
def momenta (rows : List Row) : List V3 := rows.map (·.mom)

/-! ## move objects, trees, context -/

inductive Kind | disp | exch | cell | ham | user
deriving DecidableEq, Repr

/-- one heap cell per Python move object (`m * 2` is two references to one cell) -/
structure MoveObj where
  kind : Kind
  labels : List Int := []
  defaultLabel : Option Int := none
  toDisplace : Option Int := none      -- to_displace_labels
  displaced : Option Int := none       -- displaced_labels
  toDelete : Option Int := none        -- to_delete_label
  toAdd : Option (List Row) := none    -- to_add_atoms
  bias : Nat := 500                    -- bias_towards_insert, in 1/1000
  maxAttempts : Nat := 1
  applyConstraints : Bool := true
  scaleAtoms : Bool := true
  userResult : Bool := true            -- what a bare user move returns
deriving DecidableEq, Repr

/-- composites are flat lists of references (`+`/`*` always flatten, see C17) -/
inductive Tree
  | leaf (r : Nat)
  | compDisp (rs : List Nat)
  | compExch (rs : List Nat) (bias : Nat)
  | plain (rs : List Nat)
deriving DecidableEq, Repr

inductive Ensemble | base | canonical | hamiltonian | isobaric | grand
deriving DecidableEq, Repr

structure Ctx where
  lastPos : List V3 := []
  lastCell : V3 := V3.zero
  lastMom : List V3 := []
  moving : List Nat := []
  addedIdx : List Nat := []
  addedAtoms : List Row := []
  addedSizes : List Nat := []        -- atoms of each particle inserted by the trial, in the order of `addedIdx`
  deletedIdx : List Nat := []
  deletedAtoms : List Row := []
  delta : Int := 0
  nExch : Int := 0
  template : List Row := []          -- exchange_atoms
  savedFixed : Option (Option (List Nat)) := none   -- constraints as they were before the first deletion of the trial
deriving DecidableEq, Repr

structure Inputs where
  draws : List Nat := []
  ops : List V3 := []
  checks : List Bool := []
deriving Repr

def Inputs.draw (i : Inputs) : Nat × Inputs :=
  match i.draws with
  | [] => (0, i)
  | d :: ds => (d, { i with draws := ds })

def Inputs.op (i : Inputs) : V3 × Inputs :=
  match i.ops with
  | [] => (V3.zero, i)
  | d :: ds => (d, { i with ops := ds })

def Inputs.check (i : Inputs) : Bool × Inputs :=
  match i.checks with
  | [] => (true, i)
  | d :: ds => (d, { i with checks := ds })

structure State where
  atoms : AtomsS
  heap : List MoveObj
  ctx : Ctx
  inp : Inputs
deriving Repr

def State.obj (s : State) (r : Nat) : MoveObj := s.heap.getD r { kind := .user }
def State.setObj (s : State) (r : Nat) (m : MoveObj) : State := { s with heap := s.heap.set r m }

/-- `rng.choice(xs)`: one draw, index = draw mod length -/
def choice {α} (xs : List α) (dflt : α) (i : Inputs) : α × Inputs :=
  let (d, i') := i.draw
  (xs.getD (d % xs.length) dflt, i')

/-! ## label helpers -/

def insertSorted (x : Int) : List Int → List Int
  | [] => [x]
  | y :: ys => if x < y then x :: y :: ys else if x = y then y :: ys else y :: insertSorted x ys

/-- `np.unique(labels[labels >= 0])` -/
def uniqueLabels (labels : List Int) : List Int :=
  (labels.filter (· ≥ 0)).foldr insertSorted []

/-- `np.where(labels == l)` -/
def whereEq (labels : List Int) (l : Int) : List Nat :=
  (labels.zipIdx.filter (fun p => p.1 = l)).map (·.2)

/-- `np.setdiff1d(a, b)` for an already sorted-unique `a` -/
def setdiff (a b : List Int) : List Int := a.filter (fun x => !b.contains x)

/-! ## `DisplacementMove` -/

/-- the retry loop of `attempt_displacement` (atoms restored to `old` positions after each veto) -/
def attemptLoop (moving : List Nat) (constr : Bool) (old : List V3) : Nat → AtomsS → Inputs → Bool × AtomsS × Inputs
  | 0, a, i => (false, a, i)
  | n+1, a, i =>
    let (d, i1) := i.op
    let a1 := applyDisp a moving d constr
    let (ok, i2) := i1.check
    if ok then (true, a1, i2)
    else attemptLoop moving constr old n { a1 with rows := setPositions a1.rows old } i2

def attemptDisplacement (m : MoveObj) (s : State) : Bool × State :=
  let (ok, a, i) := attemptLoop s.ctx.moving m.applyConstraints (positions s.atoms.rows) m.maxAttempts s.atoms s.inp
  (ok, { s with atoms := a, inp := i })

/-- `DisplacementMove.__call__` on heap cell `r` -/
def dispCall (r : Nat) (s : State) : Bool × State :=
  let m := s.obj r
  let pre : Option (MoveObj × State) :=
    match m.toDisplace with
    | some l => if (uniqueLabels m.labels).contains l then some (m, s) else none   -- a pre-selected label must be eligible
    | none =>
      let u := uniqueLabels m.labels
      if u.isEmpty then none
      else
        let (l, i) := choice u 0 s.inp
        some ({ m with toDisplace := some l }, { s with inp := i })
  match pre with
  | none => (false, s.setObj r { m with toDisplace := none, displaced := none })      -- register_failure
  | some (m1, s1) =>
    let l := m1.toDisplace.getD 0
    let s2 := { s1 with ctx := { s1.ctx with moving := whereEq m1.labels l } }
    let (ok, s3) := attemptDisplacement m1 s2
    if ok then (true, s3.setObj r { m1 with displaced := m1.toDisplace, toDisplace := none })   -- register_success
    else (false, s3.setObj r { m1 with toDisplace := none, displaced := none })

/-! ## `ExchangeMove` -/

/-- the atoms a new particle is made of: `self.to_add_atoms or context.exchange_atoms` -/
def toAddOf (m : MoveObj) (c : Ctx) : List Row :=
  match m.toAdd with
  | some rows => if rows.isEmpty then c.template else rows
  | none => c.template

/-- indices of `k` rows appended to `n` existing ones: `np.arange(len(atoms))[-k:]` -/
def addMoving (new : List Row) (n : Nat) : List Nat := (List.range new.length).map (· + n)

/-- state after `atoms.extend(to_add_atoms)` and `context._moving_indices = …` -/
def addStart (r : Nat) (s : State) : State :=
  let new := toAddOf (s.obj r) s.ctx
  { (s.setObj r { s.obj r with toAdd := some new }) with
      atoms := s.atoms.extend new,
      ctx := { s.ctx with moving := addMoving new s.atoms.rows.length } }

/-- `attempt_addition`: returns the indices of the added rows (`[]` on failure, atoms restored) -/
def attemptAddition (r : Nat) (s : State) : List Nat × State :=
  let new := toAddOf (s.obj r) s.ctx
  -- `if not len(self.to_add_atoms): return []` (nothing to insert is not a move; repair commit 9809729)
  if new.isEmpty then ([], s.setObj r { s.obj r with toAdd := some new }) else
  let moving := addMoving new s.atoms.rows.length
  let res := attemptDisplacement { s.obj r with toAdd := some new } (addStart r s)
  if res.1 then (moving, res.2)
  else ([], { res.2 with atoms := res.2.atoms.delete moving })

/-- `attempt_deletion`: the indices to delete (`[]` when no candidate) -/
def attemptDeletion (r : Nat) (s : State) : List Nat × State :=
  let m := s.obj r
  let pre : Option (MoveObj × State) :=
    match m.toDelete with
    | some l => if (uniqueLabels m.labels).contains l then some (m, s) else none   -- a pre-selected label must be eligible
    | none =>
      let u := uniqueLabels m.labels
      if u.isEmpty then none
      else
        let (l, i) := choice u 0 s.inp
        some ({ m with toDelete := some l }, { s with inp := i })
  match pre with
  | none => ([], s)
  | some (m1, s1) => (whereEq m1.labels (m1.toDelete.getD 0), s1.setObj r m1)

/-- remember the constraints before the first deletion of a trial (restored by `revert_state`) -/
def saveFixed (c : Ctx) (a : AtomsS) : Ctx :=
  match c.savedFixed with
  | some _ => c
  | none => { c with savedFixed := some a.fixed }

def clearExch (s : State) (r : Nat) : State :=
  s.setObj r { s.obj r with toAdd := none, toDelete := none }

/-- `context._added_indices = hstack(...)`, `context._added_atoms += atoms[indices]`, `particle_delta += 1` -/
def recordAdded (c : Ctx) (idx : List Nat) (rows : List Row) : Ctx :=
  { c with addedIdx := c.addedIdx ++ idx, addedAtoms := c.addedAtoms ++ pick rows idx,
           addedSizes := c.addedSizes ++ [idx.length], delta := c.delta + 1 }

/-- the same for a deletion (`save_constraints()` first), before `del atoms[indices]` -/
def recordDeleted (c : Ctx) (a : AtomsS) (idx : List Nat) : Ctx :=
  let c1 := saveFixed c a
  { c1 with deletedIdx := c1.deletedIdx ++ idx, deletedAtoms := c1.deletedAtoms ++ pick a.rows idx, delta := c1.delta - 1 }

/-- insertion or deletion? a pre-selection decides, else one draw against `bias_towards_insert` -/
def exchDecide (r : Nat) (s : State) : Bool × State :=
  let m := s.obj r
  match m.toAdd, m.toDelete with
  | none, none => (decide (s.inp.draw.1 < m.bias), { s with inp := s.inp.draw.2 })
  | ta, _ => ((ta.map (fun rows => !rows.isEmpty)).getD false, s)

def exchAdd (r : Nat) (s0 : State) : Bool × State :=
  let (idx, s1) := attemptAddition r s0
  if idx.isEmpty then (false, clearExch s1 r)
  else (true, clearExch { s1 with ctx := recordAdded s1.ctx idx s1.atoms.rows } r)

def exchDel (r : Nat) (s0 : State) : Bool × State :=
  let (idx, s1) := attemptDeletion r s0
  if idx.isEmpty then (false, clearExch s1 r)
  else (true, clearExch { s1 with ctx := recordDeleted s1.ctx s1.atoms idx, atoms := s1.atoms.delete idx } r)

/-- `ExchangeMove.__call__` -/
def exchCall (r : Nat) (s : State) : Bool × State :=
  let (isAdd, s0) := exchDecide r s
  if isAdd then exchAdd r s0 else exchDel r s0

/-! ## `CellMove`, `HamiltonianDisplacementMove`, user moves -/

/-- `set_cell(F @ old_cell, scale_atoms)` for diagonal integer `F` -/
def deform (a : AtomsS) (f : V3) (scale : Bool) : AtomsS :=
  { a with cell := V3.mul a.cell f,
           rows := if scale then a.rows.map (fun r => { r with pos := V3.mul r.pos f }) else a.rows }

/-- undo of a vetoed deformation: `atoms.cell = old_cell`, and `atoms.positions = old_positions` when atoms were scaled -/
def cellRestore (a1 : AtomsS) (scale : Bool) (oldCell : V3) (oldPos : List V3) : AtomsS :=
  { a1 with cell := oldCell, rows := if scale then setPositions a1.rows oldPos else a1.rows }

def cellLoop (scale : Bool) (oldCell : V3) (oldPos : List V3) : Nat → AtomsS → Inputs → Bool × AtomsS × Inputs
  | 0, a, i => (false, a, i)
  | n+1, a, i =>
    let (f, i1) := i.op
    let a1 := deform { a with cell := oldCell } f scale
    let (ok, i2) := i1.check
    if ok then (true, a1, i2)
    else cellLoop scale oldCell oldPos n (cellRestore a1 scale oldCell oldPos) i2

def cellCall (r : Nat) (s : State) : Bool × State :=
  let m := s.obj r
  let (ok, a, i) := cellLoop m.scaleAtoms s.atoms.cell (positions s.atoms.rows) m.maxAttempts s.atoms s.inp
  (ok, { s with atoms := a, inp := i })

/-- one scripted Hamiltonian attempt: momenta := `v`, then positions (constraints applied) and momenta += `d` -/
def hamStep (a : AtomsS) (v d : V3) : AtomsS :=
  let a1 := { a with rows := a.rows.map (fun r => { r with mom := v }) }
  let a2 := applyDisp a1 (List.range a1.rows.length) d true
  { a2 with rows := a2.rows.map (fun r => { r with mom := V3.add r.mom d }) }

/-- undo of a vetoed attempt: `atoms.positions = old_positions; atoms.set_array("momenta", old_momenta)` -/
def hamRestore (a : AtomsS) (oldPos oldMom : List V3) : AtomsS :=
  { a with rows := setMomenta (setPositions a.rows oldPos) oldMom }

def hamLoop (oldPos oldMom : List V3) : Nat → AtomsS → Inputs → Bool × AtomsS × Inputs
  | 0, a, i => (false, a, i)
  | n+1, a, i =>
    let (v, i1) := i.op
    let (d, i2) := i1.op
    let a3 := hamStep a v d
    let (ok, i3) := i2.check
    if ok then (true, a3, i3)
    else hamLoop oldPos oldMom n (hamRestore a3 oldPos oldMom) i3

def hamCall (r : Nat) (s : State) : Bool × State :=
  let m := s.obj r
  let (ok, a, i) := hamLoop (positions s.atoms.rows) (momenta s.atoms.rows) m.maxAttempts s.atoms s.inp
  (ok, { s with atoms := a, inp := i })

/-- a move object called on its own -/
def leafCall (r : Nat) (s : State) : Bool × State :=
  match (s.obj r).kind with
  | .disp => dispCall r s
  | .exch => exchCall r s
  | .cell => cellCall r s
  | .ham => hamCall r s
  | .user => ((s.obj r).userResult, s)

/-! ## composites -/

/-- `CompositeDisplacementMove.__call__` (returns the `displaced_labels` list as well) -/
def compDispLoop : List Nat → List (Option Int) → State → List (Option Int) × State
  | [], acc, s => (acc, s)
  | r :: rs, acc, s =>
    let m := s.obj r
    let cand := setdiff (uniqueLabels m.labels) (acc.filterMap id)
    if cand.isEmpty then
      -- no particle left for this member: its (possibly pre-selected) target is dropped, nothing is attempted
      compDispLoop rs (acc ++ [none]) (s.setObj r { m with toDisplace := none })
    else
      let (l, i) := choice cand 0 s.inp
      let s1 := ({ s with inp := i }).setObj r { m with toDisplace := some l }
      let (ok, s2) := dispCall r s1
      compDispLoop rs (acc ++ [if ok then (s2.obj r).displaced else none]) s2

def compDispCall (rs : List Nat) (s : State) : Bool × List (Option Int) × State :=
  let (acc, s1) := compDispLoop rs [] s
  (decide ((acc.filterMap id).length > 0), acc, s1)

def compExchAddLoop : List Nat → Bool → State → Bool × State
  | [], ok, s => (ok, s)
  | r :: rs, ok, s =>
    let (idx, s1) := attemptAddition r s
    let (ok1, s2) :=
      if idx.isEmpty then (ok, s1)
      else (true, { s1 with ctx := recordAdded s1.ctx idx s1.atoms.rows })
    -- a pre-selection is one-shot: `move.to_add_atoms = None; move.to_delete_label = None`, whatever was done with it
    compExchAddLoop rs ok1 (clearExch s2 r)

/-- the deletion branch draws its own targets; pre-selections placed on a member are dropped at the top of the loop
    body, i.e. on every exit path of the branch (`clearExch` touches neither labels nor inputs) -/
def compExchDelLoop : List Nat → List Int → List Nat → State → List Int × List Nat × State
  | [], labs, idx, s => (labs, idx, s)
  | r :: rs, labs, idx, s0 =>
    let s := clearExch s0 r
    let m := s.obj r
    let cand := setdiff (uniqueLabels m.labels) labs
    if cand.isEmpty then compExchDelLoop rs labs idx s
    else
      let (l, i) := choice cand 0 s.inp
      compExchDelLoop rs (labs ++ [l]) (idx ++ whereEq m.labels l) { s with inp := i }

/-- `CompositeExchangeMove.__call__` -/
def compExchCall (rs : List Nat) (bias : Nat) (s : State) : Bool × State :=
  let (d, i) := s.inp.draw
  let s0 := { s with inp := i }
  if d < bias then compExchAddLoop rs false s0
  else
    let (labs, idx, s1) := compExchDelLoop rs [] [] s0
    if idx.isEmpty then (false, s1)
    else
      let c := saveFixed s1.ctx s1.atoms
      (true, { s1 with ctx := { c with deletedIdx := idx,
                                        deletedAtoms := c.deletedAtoms ++ pick s1.atoms.rows idx,
                                        delta := c.delta - (labs.eraseDups.length : Int) },
                       atoms := s1.atoms.delete idx })

/-- `CompositeMove.__call__`: every element is called, in order; success iff any succeeded -/
def plainLoop : List Nat → Bool → State → Bool × State
  | [], ok, s => (ok, s)
  | r :: rs, ok, s =>
    let (ok1, s1) := leafCall r s
    plainLoop rs (ok || ok1) s1

def callTree (t : Tree) (s : State) : Bool × State :=
  match t with
  | .leaf r => leafCall r s
  | .compDisp rs => let (ok, _, s1) := compDispCall rs s; (ok, s1)
  | .compExch rs b => compExchCall rs b s
  | .plain rs => plainLoop rs false s

/-! ## notifications: `on_atoms_changed` -/

def maxFrom (acc : Int) : List Int → Int
  | [] => acc
  | x :: xs => maxFrom (if x > acc then x else acc) xs

/-- label given to new rows: the configured one, else max+1 (0 when there is no label yet) -/
def newLabel (labels : List Int) (dflt : Option Int) : Int :=
  match dflt with
  | some l => l
  | none =>
    let u := uniqueLabels labels
    if u.isEmpty then 0 else maxFrom (-1) u + 1

/-- `DisplacementMove.on_atoms_changed(added, removed)` -/
def onAtomsChangedObj (m : MoveObj) (added removed : List Nat) : MoveObj :=
  let l1 := if added.isEmpty then m.labels else m.labels ++ List.replicate added.length (newLabel m.labels m.defaultLabel)
  let l2 := if removed.isEmpty then l1 else deleteIdx l1 removed
  { m with labels := l2 }

def labelBearing (k : Kind) : Bool := k = .disp || k = .exch

def notifyRefs : List Nat → List Nat → List Nat → List MoveObj → List MoveObj
  | [], _, _, h => h
  | r :: rs, added, removed, h =>
    let m := h.getD r { kind := .user }
    let h1 := if labelBearing m.kind then h.set r (onAtomsChangedObj m added removed) else h
    notifyRefs rs added removed h1

/-- `GrandCanonical.save_state`: one notification per inserted particle (`added[start : start + size]` for every recorded
    size but the last), the rest of the added indices together with the deleted ones in the last notification -/
def notifyParts (refs : List Nat) : List Nat → List Nat → List Nat → List MoveObj → List MoveObj
  | [], added, removed, h => notifyRefs refs added removed h
  | [_], added, removed, h => notifyRefs refs added removed h
  | n :: m :: ns, added, removed, h =>
    notifyParts refs (m :: ns) (added.drop n) removed (notifyRefs refs (added.take n) [] h)

/-- the elementary move objects behind a table entry. The grand-canonical driver notifies every distinct
    object reachable from the table exactly once (identity de-duplication, see the `fix:` commits for C05). -/
def Tree.refs : Tree → List Nat
  | .leaf r => [r]
  | .compDisp rs => rs
  | .compExch rs _ => rs
  | .plain rs => rs

/-! ## ensemble drivers -/

structure Entry where
  name : String
  oid : Nat          -- identity of the table's move object (two entries may hold the same object)
  tree : Tree
deriving Repr

structure Sim where
  ens : Ensemble
  table : List Entry
deriving Repr

/-- the table's move objects, each distinct object once (first occurrence) -/
def dedupBy : List Entry → List Entry
  | [] => []
  | e :: es => e :: (dedupBy es).filter (fun e' => e'.oid ≠ e.oid)

/-- `context.save_state()` of the ensemble's context class -/
def ctxSave (ens : Ensemble) (s : State) : State :=
  let c := s.ctx
  let c1 := { c with lastPos := positions s.atoms.rows }
  let c2 := match ens with
    | .hamiltonian => { c1 with lastMom := momenta s.atoms.rows }
    | .isobaric => { c1 with lastCell := s.atoms.cell }
    | .grand => { c1 with nExch := c1.nExch + c1.delta, addedIdx := [], addedAtoms := [], addedSizes := [], deletedIdx := [],
                          deletedAtoms := [], delta := 0, moving := [], savedFixed := none }
    | _ => c1
  { s with ctx := c2 }

/-- `save_state()` of the driver: the grand-canonical driver first notifies every move in the table -/
def saveState (sim : Sim) (s : State) : State :=
  match sim.ens with
  | .base => s
  | .grand =>
    let refs := ((sim.table.map (fun e => e.tree.refs)).flatten).eraseDups
    ctxSave .grand { s with heap := notifyParts refs s.ctx.addedSizes s.ctx.addedIdx s.ctx.deletedIdx s.heap }
  | e => ctxSave e s

/-- `revert_state()` of the driver -/
def revertState (sim : Sim) (s : State) : State :=
  let c := s.ctx
  match sim.ens with
  | .base => s
  | .canonical => { s with atoms := { s.atoms with rows := setPositions s.atoms.rows c.lastPos } }
  | .hamiltonian =>
    { s with atoms := { s.atoms with rows := setPositions (setMomenta s.atoms.rows c.lastMom) c.lastPos } }
  | .isobaric =>
    { s with atoms := { s.atoms with rows := setPositions s.atoms.rows c.lastPos, cell := c.lastCell } }
  | .grand =>
    let a1 := if c.addedIdx.isEmpty then s.atoms else s.atoms.delete c.addedIdx
    let rows2 := if c.deletedIdx.isEmpty then a1.rows else reinsert a1.rows c.deletedAtoms c.deletedIdx
    let fixed2 := if c.deletedIdx.isEmpty then a1.fixed else (c.savedFixed.getD a1.fixed)
    { s with atoms := { a1 with rows := setPositions rows2 c.lastPos, fixed := fixed2 },
             ctx := { c with addedIdx := [], addedAtoms := [], addedSizes := [], deletedIdx := [], deletedAtoms := [],
                             delta := 0, moving := [], savedFixed := none } }

inductive Outcome | accepted | rejected | failed
deriving DecidableEq, Repr

/-- one trial of `MonteCarlo.step` for table entry `t` with criteria verdict `v` -/
def trial (sim : Sim) (t : Tree) (v : Bool) (s : State) : Outcome × State :=
  let (ok, s1) := callTree t s
  if ok then
    if v then (.accepted, saveState sim s1) else (.rejected, revertState sim s1)
  else (.failed, s1)

/-- `validate_simulation()` -/
def validate (sim : Sim) (s : State) : State :=
  match sim.ens with
  | .base => s
  | .isobaric => { s with ctx := { s.ctx with lastPos := positions s.atoms.rows, lastCell := s.atoms.cell } }
  | .hamiltonian => { s with ctx := { s.ctx with lastPos := positions s.atoms.rows, lastMom := momenta s.atoms.rows } }
  | _ => { s with ctx := { s.ctx with lastPos := positions s.atoms.rows } }

/-- between two `run()` calls the user may move the atoms or change the cell (`atoms.wrap()`, `atoms.positions = …`,
    `atoms.set_cell(…)`): positions are replaced when the list has the right length, the cell when one is given -/
def userEdit (s : State) (newPos : List V3) (newCell : Option V3) : State :=
  let rows := if newPos.length = s.atoms.rows.length then setPositions s.atoms.rows newPos else s.atoms.rows
  { s with atoms := { s.atoms with rows := rows, cell := newCell.getD s.atoms.cell } }

/-- the same with new momenta as well (`atoms.set_momenta(…)` between two runs of a Hamiltonian driver) -/
def userEditM (s : State) (newPos newMom : List V3) (newCell : Option V3) : State :=
  let s1 := userEdit s newPos newCell
  if newMom.length = s1.atoms.rows.length then
    { s1 with atoms := { s1.atoms with rows := setMomenta s1.atoms.rows newMom } }
  else s1

def newRunM (sim : Sim) (s : State) (newPos newMom : List V3) (newCell : Option V3) : State :=
  validate sim (userEditM s newPos newMom newCell)

/-- the next `run()`: `validate_simulation()` on the atoms as the user left them -/
def newRun (sim : Sim) (s : State) (newPos : List V3) (newCell : Option V3) : State :=
  validate sim (userEdit s newPos newCell)

end MM
