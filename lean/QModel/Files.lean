/-!
# Buffered-file machine and the observers' write protocols (C16)

**M-files.** A file as a Python text file object sees it (`TextIOWrapper` over `BufferedWriter` over `FileIO`):
the bytes the operating system holds (`disk` — what survives a process crash and what an independent reader
sees), the bytes handed to `write` but not yet to the OS (`pending`, the user-space buffers), the raw position
at which the pending bytes will land (`pos`) and the `O_APPEND` flag (mode `'a'`: every OS write goes to the
current end of file whatever the position). Operations: `write b`, `flush`, `seek n`, `truncate` (at the current
position). `seek` and `truncate` flush first, as CPython's buffered writer does.

CPython may hand part of the buffer to the OS before `flush` is called (the buffer is 8 KiB): `crashCuts`
therefore lists *every* prefix of the pending bytes as a possible disk image.

**Protocols** mirrored from `src/quansino/io`:
* `Logger.write_header` — `[write h]` (no flush); `Logger.__call__` — `[write line, flush]` (logger.py l.111-112);
* `TrajectoryObserver.__call__` — `write_xyz` (one `write` per line of the frame) then `flush`;
* `RestartObserver.__call__` — `seek(0); truncate(); write_json (one write); flush` (restart.py l.66-71).
-/
namespace Files

inductive Op (β : Type) where
  | write (b : List β)
  | flush
  | seek (n : Nat)
  | truncate
  deriving DecidableEq, Repr

structure File (β : Type) where
  disk : List β
  pending : List β
  pos : Nat
  append : Bool
  deriving DecidableEq, Repr

inductive Mode where
  | a | w
  deriving DecidableEq, Repr

variable {β : Type}

/-- `open(path, mode)` on a file that currently holds `existing` -/
def openFile (m : Mode) (existing : List β) : File β :=
  match m with
  | .w => { disk := [], pending := [], pos := 0, append := false }
  | .a => { disk := existing, pending := [], pos := existing.length, append := true }

/-- `pwrite`: overwrite/extend `disk` with `b` at offset `p` (a hole is filled with the zero byte `default`) -/
def writeAt [Inhabited β] (disk : List β) (p : Nat) (b : List β) : List β :=
  disk.take p ++ List.replicate (p - disk.length) default ++ b ++ disk.drop (p + b.length)

/-- where the OS puts the next write -/
def landing (f : File β) : Nat := if f.append then f.disk.length else f.pos

variable [Inhabited β]

def flush (f : File β) : File β :=
  match f.pending with
  | [] => f
  | b => { f with disk := writeAt f.disk (landing f) b, pos := landing f + b.length, pending := [] }

/-- `seek(n)`: flush, then move -/
def seekTo (n : Nat) (f : File β) : File β := { flush f with pos := n }

/-- `truncate()`: flush, then cut (or zero-extend) the file at the current position -/
def truncateAt (f : File β) : File β :=
  let g := flush f
  { g with disk := g.disk.take g.pos ++ List.replicate (g.pos - g.disk.length) default }

def step (f : File β) : Op β → File β
  | .write b => { f with pending := f.pending ++ b }
  | .flush => flush f
  | .seek n => seekTo n f
  | .truncate => truncateAt f

def run (ops : List (Op β)) (f : File β) : File β := ops.foldl step f

/-- the disk images a process crash may leave: the OS has received some prefix of the pending bytes -/
def crashCuts (f : File β) : List (List β) :=
  (List.range (f.pending.length + 1)).map (fun j => writeAt f.disk (landing f) (f.pending.take j))

/-! ## the observers' protocols -/

/-- `Logger.__call__` -/
def logCall (line : List β) : List (Op β) := [.write line, .flush]
/-- `write_header` followed by one `__call__` per line -/
def logOps (h : List β) (lines : List (List β)) : List (Op β) := .write h :: lines.flatMap logCall
/-- `TrajectoryObserver.__call__`: the writes of `write_xyz`, then `flush` -/
def frameCall (ws : List (List β)) : List (Op β) := ws.map .write ++ [.flush]
def trajOps (frames : List (List (List β))) : List (Op β) := frames.flatMap frameCall
/-- `RestartObserver.__call__` -/
def restartCall (ws : List (List β)) : List (Op β) := [.seek 0, .truncate] ++ frameCall ws
def restartOps (docs : List (List (List β))) : List (Op β) := docs.flatMap restartCall

/-- all bytes of a list of records -/
def bytes (recs : List (List (List β))) : List β := (recs.map List.flatten).flatten

/-! ## recognisers used for protocol conformance of recorded op sequences -/

def isWrite : Op β → Bool | .write _ => true | _ => false
def isFlush : Op β → Bool | .flush => true | _ => false

def isHeaderCall : List (Op β) → Bool
  | [.write _] => true
  | _ => false
def isLogCall : List (Op β) → Bool
  | [.write _, .flush] => true
  | _ => false
/-- `write⁺ flush` -/
def isFrameCall : List (Op β) → Bool
  | [.write _, .flush] => true
  | .write _ :: rest => isFrameCall rest
  | _ => false
def isRestartCall : List (Op β) → Bool
  | .seek 0 :: .truncate :: rest => isFrameCall rest
  | _ => false

/-- number of completed observer calls in an op sequence (every call ends with its only `flush`) -/
def nFlush (ops : List (Op β)) : Nat := (ops.filter isFlush).length

/-- the rewrite window of the restart protocol: opened by `truncate`, closed by the next `flush` -/
def windowAfter (w : Bool) (ops : List (Op β)) : Bool :=
  ops.foldl (fun w op => match op with | .truncate => true | .flush => false | _ => w) w
def inWindow (ops : List (Op β)) : Bool := windowAfter false ops

/-! ## linking a file: `TextObserver.file = value` (io/core.py)

What the setter decides from the outside of the object it is given: a name is opened in the observer's mode, an open
file-like object is linked as it is, a closed one is refused, and an observer that rewrites its file
(`accept_stream = False`: the restart observer) refuses what cannot seek. -/

inductive ArgKind | str | path | other
deriving DecidableEq, Repr

/-- the attributes of `value` the setter looks at -/
structure FileArg where
  kind : ArgKind
  hasRead : Bool
  hasWrite : Bool
  isIOBase : Bool
  /-- truthiness of `getattr(value, "closed", False)` -/
  closed : Bool
  /-- `value.seekable()` when the object has that method -/
  seekableMethod : Option Bool
  hasSeek : Bool
deriving DecidableEq, Repr

inductive LinkResult
  | opened          -- `Path(value).open(mode, encoding)`
  | linked          -- `self._file = value`
  | closedFile      -- ValueError: impossible to link a closed file
  | notSeekable     -- ValueError: does not accept non-file streams
  | typeError
deriving DecidableEq, Repr

def FileArg.seekable (a : FileArg) : Bool :=
  match a.seekableMethod with
  | some b => b
  | none => a.hasSeek

def link (acceptStream : Bool) (a : FileArg) : LinkResult :=
  match a.kind with
  | .str | .path => .opened
  | .other =>
    if a.hasRead || a.hasWrite || a.isIOBase then
      if a.closed then .closedFile
      else if !acceptStream && !a.seekable then .notSeekable
      else .linked
    else .typeError

end Files
