import QModel.FixRot
import QModel.Proto
/-!
Line protocol of the Verlet / Maxwell–Boltzmann / Hamiltonian-move model (C14; the parsers are shared with C12).

Arrays of shape `(n,3)` are flat row-major float lists (`Proto.floatList`), masses lists of `n` floats.

* `verlet n cons apply dt steps masses q p ff`            → `ok q' p'`
* `mbdist n cons forced kT ndof masses q z`                    → `ok p`
* `hmove n cons apply dt steps masses q p ff kT ndof forced sample maxAttempts zs checks lastKE`
                                                           → `ok <true|false> q p lastKE`
  (`lastKE` = `context.last_kinetic_energy` at entry; `-` = a context just constructed)
* `hcomp n cons masses q p ff kT ndof lastKE members`      → `ok <true|false> q p lastKE`
  one call of a plain `CompositeMove`; `members` separated by `|`, each
  `H/apply/dt/steps/forced/maxAttempts/zs/checks` (Hamiltonian member) or `D/<positions it left>`, `D/fail`
  (a member that only moves positions / that failed)

`cons`  = `none` | `fixatoms:<mask of 0/1>` | `fixcom` | `fixrot`
`ff`    = `zero` | `harm:<k>:<ctr>` | `quart:<k>:<g>:<ctr>` | `morse:<D>:<a>:<r0>`
`zs`    = arrays separated by `;` (`-` = none);  `checks` = string of `0`/`1` (`-` = none)
-/
namespace Verlet.IO
open VecFn Verlet Constr

def arrOfList (n : Nat) (l : List Float) : Option (Arr n Float) :=
  if l.length = 3 * n then
    let a := l.toArray
    some (fun i k => a.getD (3 * i.val + k.val) 0.0)
  else none

def colOfList (n : Nat) (l : List Float) : Option (Col n Float) :=
  if l.length = n then
    let a := l.toArray
    some (fun i => a.getD i.val 0.0)
  else none

def listOfArr {n : Nat} (a : Arr n Float) : List Float :=
  (List.finRange n).flatMap (fun i => [a i 0, a i 1, a i 2])

def showArr {n : Nat} (a : Arr n Float) : String := Proto.showFloats (listOfArr a)

def parseArr (n : Nat) (s : String) : Option (Arr n Float) := Proto.floatList s >>= arrOfList n
def parseCol (n : Nat) (s : String) : Option (Col n Float) := Proto.floatList s >>= colOfList n

def parseBool : String → Option Bool
  | "0" => some false | "1" => some true | _ => none

def parseChecks (s : String) : Option (List Bool) :=
  if s = "-" then some [] else s.toList.mapM (fun c => if c = '0' then some false else if c = '1' then some true else none)

def parseArrs (n : Nat) (s : String) : Option (List (Arr n Float)) :=
  if s = "-" then some [] else (s.splitOn ";").mapM (parseArr n)

def parseCons (n : Nat) (m : Col n Float) (s : String) : Option (Cons n Float) :=
  match s.splitOn ":" with
  | ["none"] => some Cons.none
  | ["fixcom"] => some (fixCom m)
  | ["fixrot"] => some (fixRot m)
  | ["fixatoms", mask] =>
    if mask.length = n then
      let a := mask.toList.toArray
      some (fixAtoms (fun i => a.getD i.val '0' == '1'))
    else none
  | _ => none

def parseFF (n : Nat) (s : String) : Option (Arr n Float → Arr n Float) :=
  match s.splitOn ":" with
  | ["zero"] => some (fun _ => Arr.zero)
  | ["harm", k, c] => do
    let k ← parseCol n k
    let c ← parseArr n c
    pure (harmonicForce k c)
  | ["quart", k, g, c] => do
    let k ← parseCol n k
    let g ← parseCol n g
    let c ← parseArr n c
    pure (quarticForce k g c)
  | ["morse", d, a, r0] => do
    let d ← Proto.floatOfBits d
    let a ← Proto.floatOfBits a
    let r0 ← Proto.floatOfBits r0
    pure (morseForce d a r0)
  | _ => none

/-- the context at entry: `lastKE` given as bits, or `-` for a context just constructed -/
def parseCtx {n : Nat} (m : Col n Float) (q p : Arr n Float) (lastKE : String) : Option (HCtx n Float) :=
  if lastKE = "-" then some (HCtx.fresh m q p)
  else do
    let k ← Proto.floatOfBits lastKE
    pure ⟨q, p, k, q, q⟩

def parseMember (n : Nat) (c : Cons n Float) (F : Arr n Float → Arr n Float) (m : Col n Float) (kT ndof : Float)
    (s : String) : Option (Member n Float) :=
  match s.splitOn "/" with
  | ["D", "fail"] => some (.disp none)
  | ["D", q'] => do
    let q' ← parseArr n q'
    pure (.disp (some q'))
  | ["H", apply, dt, steps, forced, maxAttempts, zs, checks] => do
    let apply ← parseBool apply
    let dt ← Proto.floatOfBits dt
    let steps ← steps.toNat?
    let forced ← parseBool forced
    let maxAttempts ← maxAttempts.toNat?
    let zs ← parseArrs n zs
    let checks ← parseChecks checks
    pure (.ham ⟨c, apply, F, m, dt, steps, kT, ndof, forced⟩ maxAttempts zs checks)
  | _ => none

def handle : List String → String
  | ["verlet", n, cons, apply, dt, steps, masses, q, p, ff] =>
    match n.toNat? with
    | none => "bad-op"
    | some n =>
      match (do
        let m ← parseCol n masses
        let c ← parseCons n m cons
        let apply ← parseBool apply
        let dt ← Proto.floatOfBits dt
        let steps ← steps.toNat?
        let q ← parseArr n q
        let p ← parseArr n p
        let F ← parseFF n ff
        pure (integrate c apply F m dt steps ⟨q, p⟩) : Option (St n Float)) with
      | some s => s!"ok {showArr s.q} {showArr s.p}"
      | none => "bad-op"
  | ["mbdist", n, cons, forced, kT, ndof, masses, q, z] =>
    match n.toNat? with
    | none => "bad-op"
    | some n =>
      match (do
        let m ← parseCol n masses
        let c ← parseCons n m cons
        let forced ← parseBool forced
        let kT ← Proto.floatOfBits kT
        let ndof ← ndof.toNat?
        let q ← parseArr n q
        let z ← parseArr n z
        pure (Tab.get (maxwellBoltzmannT c m kT (Num.ofNat ndof) forced q z)) : Option (Arr n Float)) with
      | some p => s!"ok {showArr p}"
      | none => "bad-op"
  | ["hmove", n, cons, apply, dt, steps, masses, q, p, ff, kT, ndof, forced, sample, maxAttempts, zs, checks, lastKE] =>
    match n.toNat? with
    | none => "bad-op"
    | some n =>
      match (do
        let m ← parseCol n masses
        let c ← parseCons n m cons
        let apply ← parseBool apply
        let dt ← Proto.floatOfBits dt
        let steps ← steps.toNat?
        let q ← parseArr n q
        let p ← parseArr n p
        let F ← parseFF n ff
        let kT ← Proto.floatOfBits kT
        let ndof ← ndof.toNat?
        let forced ← parseBool forced
        let sample ← parseBool sample
        let maxAttempts ← maxAttempts.toNat?
        let zs ← parseArrs n zs
        let checks ← parseChecks checks
        let g : HCfg n Float := ⟨c, apply, F, m, dt, steps, kT, Num.ofNat ndof, forced⟩
        let c0 ← parseCtx m q p lastKE
        pure (attemptDisplacement g sample maxAttempts zs checks c0)
          : Option (Bool × HCtx n Float)) with
      | some (b, c) => s!"ok {b} {showArr c.q} {showArr c.p} {Proto.bitsOfFloat c.lastKE}"
      | none => "bad-op"
  | ["hcomp", n, cons, masses, q, p, ff, kT, ndof, lastKE, members] =>
    match n.toNat? with
    | none => "bad-op"
    | some n =>
      match (do
        let m ← parseCol n masses
        let c ← parseCons n m cons
        let q ← parseArr n q
        let p ← parseArr n p
        let F ← parseFF n ff
        let kT ← Proto.floatOfBits kT
        let ndof ← ndof.toNat?
        let ms ← (members.splitOn "|").mapM (parseMember n c F m kT (Num.ofNat ndof))
        let c0 ← parseCtx m q p lastKE
        pure (compositeCall ms c0) : Option (Bool × HCtx n Float)) with
      | some (b, c) => s!"ok {b} {showArr c.q} {showArr c.p} {Proto.bitsOfFloat c.lastKE}"
      | none => "bad-op"
  | _ => "bad-op"

end Verlet.IO
