import QModel.VecFn
/-!
# Model of the velocity-Verlet integrator, the Maxwell–Boltzmann refresh and the Hamiltonian move (C14, C12)

Mirrors, line by line,

* `quansino/integrators/displacement.py : Verlet.integrate`,
* `quansino/utils/dynamics.py : maxwell_boltzmann_distribution`,
* `quansino/moves/displacement.py : HamiltonianDisplacementMove.attempt_displacement`,

with ASE's `Atoms.set_positions / set_momenta / get_forces` reduced to the three constraint hooks they call
(`Cons`).  The force field is an arbitrary function `F : Arr n α → Arr n α` (what the calculator returns for
the positions); everything is generic over `[Num α]` (`Float` in the driver, `ℝ` in the theorems).
-/

namespace Verlet
open VecFn

variable {α : Type} [Num α] {n : Nat}

/-- What the constraints attached to an `Atoms` object do inside `set_positions(new)` (argument 1 = the
    current `atoms.positions`), `set_momenta(p)` and `get_forces()` (argument 1 = current positions).
    ASE: `for constraint in self.constraints: constraint.adjust_xxx(self, array)`.
    The adjusted array is returned as data (`Tab`), as the numpy array it is. -/
structure Cons (n : Nat) (α : Type) where
  adjPos : Arr n α → Arr n α → Tab n α
  adjMom : Arr n α → Arr n α → Tab n α
  adjFor : Arr n α → Arr n α → Tab n α

/-- `atoms.constraints == []` -/
def Cons.none : Cons n α := ⟨fun _ x => Arr.tab x, fun _ x => Arr.tab x, fun _ x => Arr.tab x⟩

/-- `atoms.set_positions(new, apply_constraint=apply)` → the stored positions (`old` = `atoms.positions`) -/
def setPositions (c : Cons n α) (apply : Bool) (old new : Arr n α) : Tab n α :=
  if apply then c.adjPos old new else Arr.tab new

/-- `atoms.set_momenta(p, apply_constraint=apply)` → the stored momenta (`q` = `atoms.positions`) -/
def setMomenta (c : Cons n α) (apply : Bool) (q p : Arr n α) : Tab n α :=
  if apply then c.adjMom q p else Arr.tab p

/-- `atoms.get_forces()` (always `apply_constraint=True`, `md=False`): the calculator's array, then
    `constraint.adjust_forces` -/
def getForces (c : Cons n α) (F : Arr n α → Arr n α) (q : Arr n α) : Tab n α :=
  let raw : Arr n α := tab! (F q)
  c.adjFor q raw

/-- positions and momenta of the `Atoms` object -/
structure St (n : Nat) (α : Type) where
  q : Arr n α
  p : Arr n α

/-- one pass of the `for _ in range(self.max_steps)` body of `Verlet.integrate`;
    `forces` is the local variable carried from the previous pass -/
def step (c : Cons n α) (apply : Bool) (F : Arr n α → Arr n α) (m : Col n α) (dt : α)
    (s : St n α) (forces : Arr n α) : St n α × Arr n α :=
  -- new_momenta = atoms.get_momenta() + 0.5 * forces * self.dt
  let newMomenta : Arr n α := tab! fun i k => s.p i k + Num.half * forces i k * dt
  -- positions = atoms.get_positions()
  let positions := s.q
  -- atoms.set_positions(positions + new_momenta / masses * self.dt, apply_constraint=self.apply_constraints)
  let q' : Arr n α :=
    Tab.get (setPositions c apply positions (fun i k => positions i k + newMomenta i k / m i * dt))
  -- if self.apply_constraints: new_momenta = (atoms.positions - positions) * masses / self.dt
  let newMomenta : Arr n α :=
    if apply then tab! (fun i k => (q' i k - positions i k) * m i / dt) else newMomenta
  -- forces = atoms.get_forces()
  let forces' : Arr n α := Tab.get (getForces c F q')
  -- atoms.set_momenta(new_momenta + 0.5 * forces * self.dt, apply_constraint=self.apply_constraints)
  let p' : Arr n α :=
    Tab.get (setMomenta c apply q' (fun i k => newMomenta i k + Num.half * forces' i k * dt))
  (⟨q', p'⟩, forces')

/-- the `for` loop -/
def loop (c : Cons n α) (apply : Bool) (F : Arr n α → Arr n α) (m : Col n α) (dt : α) :
    Nat → St n α × Arr n α → St n α × Arr n α
  | 0, x => x
  | k + 1, x => loop c apply F m dt k (step c apply F m dt x.1 x.2)

/-- `Verlet(dt, max_steps, apply_constraints).integrate(context)`; `dt` is `self.dt` (already times `fs`) -/
def integrate (c : Cons n α) (apply : Bool) (F : Arr n α → Arr n α) (m : Col n α) (dt : α)
    (steps : Nat) (s : St n α) : St n α :=
  (loop c apply F m dt steps (s, Tab.get (getForces c F s.q))).1

/-- negate all momenta -/
def flip (s : St n α) : St n α := ⟨s.q, Arr.neg s.p⟩

/-! ## kinetic energy and the Maxwell–Boltzmann refresh -/

/-- `atoms.get_kinetic_energy()` = `0.5 * np.vdot(p, p / m[:, None])` -/
def ekin (m : Col n α) (p : Arr n α) : α := Num.half * sumAll (fun i k => p i k * (p i k / m i))

/-- `rng.standard_normal((N,3)) * np.sqrt(masses * temperature)[:, None]` -/
def mbDraw (m : Col n α) (kT : α) (z : Arr n α) : Arr n α := fun i k => z i k * Num.sqrt (m i * kT)

/-- the `1.0e-15` of `maxwell_boltzmann_distribution` -/
def eps15 : α := Num.ofNat 1 / Num.ofNat 1000000000000000

/-- `scale` of `maxwell_boltzmann_distribution` given the kinetic energy of the first `set_momenta` -/
def mbScale (kT ndof : α) (forced : Bool) (ke : α) : α :=
  if forced then
    let realTemperature := Num.two * ke / ndof + eps15
    Num.sqrt (kT / realTemperature)
  else Num.one

/-- `maxwell_boltzmann_distribution(context, forced)`: the momenta stored in `atoms` afterwards.
    `kT` is the local `temperature = context.temperature * kB`, `ndof = atoms.get_number_of_degrees_of_freedom()`,
    `z` the array returned by `context.rng.standard_normal((N, 3))`, `q` the current positions. -/
def maxwellBoltzmannT (c : Cons n α) (m : Col n α) (kT ndof : α) (forced : Bool)
    (q z : Arr n α) : Tab n α :=
  let p1 : Arr n α := Tab.get (setMomenta c true q (mbDraw m kT z))
  let scale := mbScale kT ndof forced (ekin m p1)
  setMomenta c true q (fun i k => p1 i k * scale)

/-- the same as a function of the atom and the component -/
def maxwellBoltzmann (c : Cons n α) (m : Col n α) (kT ndof : α) (forced : Bool)
    (q z : Arr n α) : Arr n α :=
  (maxwellBoltzmannT c m kT ndof forced q z).get

/-! ## `HamiltonianDisplacementMove.attempt_displacement` -/

/-- the part of the Hamiltonian context / atoms the move touches.  `calcAt` stands for
    `atoms.calc.results` (the positions they were computed for), `lastResults` for `context.last_results`. -/
structure HCtx (n : Nat) (α : Type) where
  q : Arr n α
  p : Arr n α
  lastKE : α
  calcAt : Arr n α
  lastResults : Arr n α

/-- everything fixed during one call of the move -/
structure HCfg (n : Nat) (α : Type) where
  cons : Cons n α
  apply : Bool                     -- Verlet.apply_constraints
  F : Arr n α → Arr n α
  m : Col n α
  dt : α
  steps : Nat
  kT : α
  ndof : α
  forced : Bool

/-- the momenta `self.distribution(context)` leaves in `atoms` for the normal draws `z` (as data) -/
def HCfg.drawT (g : HCfg n α) (q z : Arr n α) : Tab n α :=
  maxwellBoltzmannT g.cons g.m g.kT g.ndof g.forced q z

/-- the momenta `self.distribution(context)` leaves in `atoms` for the normal draws `z` -/
def HCfg.draw (g : HCfg n α) (q z : Arr n α) : Arr n α :=
  maxwellBoltzmann g.cons g.m g.kT g.ndof g.forced q z

/-- the trajectory `self.operation.integrate(context)` -/
def HCfg.run (g : HCfg n α) (s : St n α) : St n α :=
  integrate g.cons g.apply g.F g.m g.dt g.steps s

/-- `for _ in range(self.max_attempts)` of `HamiltonianDisplacementMove.attempt_displacement`.
    `zs` = successive results of `rng.standard_normal`, `checks` = successive `check_move` verdicts
    (default verdict `True`), `old` = `(old_positions, old_momenta)` taken before the loop,
    `reference` = `context.last_kinetic_energy` and `start` = `atoms.get_kinetic_energy()` read before the loop. -/
def attemptLoop (g : HCfg n α) (sample : Bool) (old : St n α) (reference start : α) :
    Nat → List (Arr n α) → List Bool → HCtx n α → Bool × HCtx n α
  | 0, _, _, c => (false, c)
  | k + 1, zs, checks, c =>
    -- if sample_momenta: self.distribution(context); drawn = atoms.get_kinetic_energy()
    --                    context.last_kinetic_energy = (reference - start) + drawn
    let c1 : HCtx n α :=
      if sample then
        let p := Tab.get (g.drawT c.q (zs.headD Arr.zero))
        { c with p := p, lastKE := (reference - start) + ekin g.m p }
      else c
    let zs' := if sample then zs.tail else zs
    -- self.operation.integrate(context)
    let s := g.run ⟨c1.q, c1.p⟩
    let c2 : HCtx n α := { c1 with q := s.q, p := s.p, calcAt := s.q }
    -- if self.check_move(context): return True
    if checks.headD true then (true, c2)
    else
      -- atoms.positions = old_positions; atoms.set_array("momenta", old_momenta)
      -- context.last_kinetic_energy = reference; Context.revert_state(context)
      attemptLoop g sample old reference start k zs' checks.tail
        { c2 with q := old.q, p := old.p, lastKE := reference, calcAt := c2.lastResults }

/-- `HamiltonianDisplacementMove.attempt_displacement(context, sample_momenta)`:
    `reference = context.last_kinetic_energy; start = atoms.get_kinetic_energy()` before the loop -/
def attemptDisplacement (g : HCfg n α) (sample : Bool) (maxAttempts : Nat)
    (zs : List (Arr n α)) (checks : List Bool) (c : HCtx n α) : Bool × HCtx n α :=
  attemptLoop g sample ⟨c.q, c.p⟩ c.lastKE (ekin g.m c.p) maxAttempts zs checks c

/-! ### the code as it was pinned (before the kinetic reference was carried)

`context.last_kinetic_energy = atoms.get_kinetic_energy()` after every draw, nothing put back after a veto.
Kept for the witness theorems `pinned_second_member_overwrites_reference` and `pinned_vetoed_member_leaks`. -/

def attemptLoopPinned (g : HCfg n α) (sample : Bool) (old : St n α) :
    Nat → List (Arr n α) → List Bool → HCtx n α → Bool × HCtx n α
  | 0, _, _, c => (false, c)
  | k + 1, zs, checks, c =>
    let c1 : HCtx n α :=
      if sample then
        let p := Tab.get (g.drawT c.q (zs.headD Arr.zero))
        { c with p := p, lastKE := ekin g.m p }
      else c
    let zs' := if sample then zs.tail else zs
    let s := g.run ⟨c1.q, c1.p⟩
    let c2 : HCtx n α := { c1 with q := s.q, p := s.p, calcAt := s.q }
    if checks.headD true then (true, c2)
    else
      attemptLoopPinned g sample old k zs' checks.tail
        { c2 with q := old.q, p := old.p, calcAt := c2.lastResults }

def attemptDisplacementPinned (g : HCfg n α) (sample : Bool) (maxAttempts : Nat)
    (zs : List (Arr n α)) (checks : List Bool) (c : HCtx n α) : Bool × HCtx n α :=
  attemptLoopPinned g sample ⟨c.q, c.p⟩ maxAttempts zs checks c

/-! ## where the kinetic reference comes from: `HamiltonianContext` and `HamiltonianCanonical` -/

/-- `HamiltonianDisplacementContext(atoms, rng)`: `last_kinetic_energy = atoms.get_kinetic_energy()` -/
def HCtx.fresh (m : Col n α) (q p : Arr n α) : HCtx n α := ⟨q, p, ekin m p, q, q⟩

/-- `HamiltonianContext.save_state` (accepted trial): `last_momenta = p`, `last_kinetic_energy = KE(p)`,
    `last_results` = the calculator's results -/
def HCtx.saveState (m : Col n α) (c : HCtx n α) : HCtx n α :=
  { c with lastKE := ekin m c.p, lastResults := c.calcAt }

/-- `HamiltonianDisplacementContext.revert_state` (rejected trial): momenta and positions put back to the
    remembered ones (`lastQ`, `lastP`), `last_kinetic_energy = atoms.get_kinetic_energy()` of those momenta,
    the calculator's results put back -/
def HCtx.revertState (m : Col n α) (lastQ lastP : Arr n α) (c : HCtx n α) : HCtx n α :=
  { c with q := lastQ, p := lastP, lastKE := ekin m lastP, calcAt := c.lastResults }

/-- `HamiltonianCanonical.validate_simulation` (start of every run): `last_momenta = p`,
    `last_kinetic_energy = KE(p)` for whatever momenta the atoms carry now -/
def HCtx.validate (m : Col n α) (c : HCtx n α) : HCtx n α := { c with lastKE := ekin m c.p }

/-! ## Hamiltonian moves inside a plain `CompositeMove` -/

/-- one member of a `CompositeMove` as one call sees it.
    `ham`: a `HamiltonianDisplacementMove` with its integrator, `max_attempts`, the normal draws and the
    `check_move` verdicts of this call.  `disp`: a member that changes positions only (`DisplacementMove`):
    `some q'` = it succeeded and left positions `q'`; `none` = it failed and restored what it found. -/
inductive Member (n : Nat) (α : Type) where
  | ham (g : HCfg n α) (maxAttempts : Nat) (zs : List (Arr n α)) (checks : List Bool)
  | disp (q' : Option (Arr n α))

/-- `move(context)` of one member -/
def memberCall : Member n α → HCtx n α → Bool × HCtx n α
  | .ham g k zs checks, c => attemptDisplacement g true k zs checks c
  | .disp (some q'), c => (true, { c with q := q', calcAt := q' })
  | .disp none, c => (false, c)

/-- `CompositeMove.__call__`: `any([move(context) for move in self.moves])` — every member is called, in
    order, on the context the previous one left -/
def compositeCall : List (Member n α) → HCtx n α → Bool × HCtx n α
  | [], c => (false, c)
  | mem :: rest, c =>
    let r := memberCall mem c
    let r' := compositeCall rest r.2
    (r.1 || r'.1, r'.2)

/-- the same with the pinned `attempt_displacement` -/
def memberCallPinned : Member n α → HCtx n α → Bool × HCtx n α
  | .ham g k zs checks, c => attemptDisplacementPinned g true k zs checks c
  | .disp (some q'), c => (true, { c with q := q', calcAt := q' })
  | .disp none, c => (false, c)

def compositeCallPinned : List (Member n α) → HCtx n α → Bool × HCtx n α
  | [], c => (false, c)
  | mem :: rest, c =>
    let r := memberCallPinned mem c
    let r' := compositeCallPinned rest r.2
    (r.1 || r'.1, r'.2)

/-- one trial of `MonteCarlo.step` under `HamiltonianCanonical` with a composite in the move table: the composite
    is called; if it reports success the criteria's verdict decides between `save_state` and `revert_state`
    (`lastQ`, `lastP` = the remembered positions and momenta); if it reports failure neither is called -/
def hamTrial (m : Col n α) (ms : List (Member n α)) (accept : Bool) (lastQ lastP : Arr n α)
    (c : HCtx n α) : HCtx n α :=
  let r := compositeCall ms c
  if r.1 then (if accept then r.2.saveState m else r.2.revertState m lastQ lastP) else r.2

/-- index of the first attempt among `k` whose `check_move` verdict is not a veto -/
def firstPass : List Bool → Nat → Option Nat
  | _, 0 => none
  | checks, k + 1 => if checks.headD true then some 0 else (firstPass checks.tail k).map (· + 1)

/-- the energy difference `HamiltonianCanonicalCriteria.evaluate` exponentiates:
    `atoms.get_total_energy() - context.last_potential_energy - context.last_kinetic_energy`
    (`pe` = the calculator's potential energy, `lastPE` = `context.last_potential_energy`) -/
def criteriaEnergyDifference (pe : Arr n α → α) (m : Col n α) (lastPE : α) (c : HCtx n α) : α :=
  (pe c.q + ekin m c.p) - lastPE - c.lastKE

/-! ## analytic force fields used by the correspondence runs (and by the harmonic theorems) -/

/-- harmonic wells `E = Σ ½ kᵢ |qᵢ − cᵢ|²`: `F = −kᵢ (qᵢ − cᵢ)` -/
def harmonicForce (k : Col n α) (ctr : Arr n α) (q : Arr n α) : Arr n α :=
  fun i a => -(k i) * (q i a - ctr i a)

def harmonicEnergy (k : Col n α) (ctr : Arr n α) (q : Arr n α) : α :=
  Num.half * sumAll (fun i a => k i * ((q i a - ctr i a) * (q i a - ctr i a)))

/-- component-wise quartic wells `E = Σ (½ kᵢ x² + ¼ gᵢ x⁴)`, `x = q − c`: `F = −kᵢ x − gᵢ x³` -/
def quarticForce (k g : Col n α) (ctr : Arr n α) (q : Arr n α) : Arr n α :=
  fun i a =>
    let x := q i a - ctr i a;
    -(k i) * x - g i * (x * x * x)

/-- pairwise Morse `E = Σ_{i<j} D (1 − e^{−a (r − r₀)})²`:
    `Fᵢ = −Σ_{j≠i} 2 D a (1 − e) e (qᵢ − qⱼ)/r` -/
def morseForce (D a r0 : α) (q : Arr n α) : Arr n α :=
  fun i c =>
    sumFin (fun j : Fin n =>
      if i = j then Num.zero
      else
        let dx := q i 0 - q j 0
        let dy := q i 1 - q j 1
        let dz := q i 2 - q j 2
        let r := Num.sqrt (dx * dx + dy * dy + dz * dz)
        let e := Num.exp (-(a * (r - r0)));
        -(Num.two * D * a * (Num.one - e) * e) * ((q i c - q j c) / r))

end Verlet
