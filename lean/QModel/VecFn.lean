import QModel.Num
/-!
# `(N,3)` numpy arrays as functions `Fin n → Fin 3 → α`

Shared by the Verlet / constraint models (C14, C12).  An `Arr n α` is the model of a numpy array of shape
`(n, 3)` (positions, momenta, forces), a `Col n α` of an array of shape `(n,)` (masses).  All arithmetic is
point-wise, exactly as numpy broadcasting does it (`masses[:, None]`).

Because a function is re-evaluated on every call, every "array assignment" of the Python code goes through
`tab!`, which tabulates the function once into a `Vector` (so that the executable `Float` runs are linear in
the number of steps).  `tab!` is the identity (`Tab.get_tab`), so it is invisible in the theorems.
-/

namespace VecFn

abbrev Arr (n : Nat) (α : Type) := Fin n → Fin 3 → α
abbrev Col (n : Nat) (α : Type) := Fin n → α

variable {α : Type} {n : Nat}

/-- an `(n,3)` array held as data (what a numpy array is) -/
structure Tab (n : Nat) (α : Type) where
  v : Vector (Vector α 3) n

/-- tabulate a function once -/
def Arr.tab (f : Arr n α) : Tab n α := ⟨Vector.ofFn (fun i => Vector.ofFn (f i))⟩

/-- read a tabulated array -/
def Tab.get (t : Tab n α) : Arr n α := fun i k => t.v[i][k]

@[simp] theorem Tab.get_tab (f : Arr n α) : (Arr.tab f).get = f := by
  funext i k; simp [Arr.tab, Tab.get]

/-- `tab! f` = the function `f` evaluated once into a table and read back: the identity (`Tab.get_tab`).
    It must be written at the place where the array is bound (inside a definition that returns data), because
    a definition that returns a function is re-run on every application. -/
macro "tab! " f:term : term => `(Tab.get (Arr.tab $f))

variable [Num α]

/-- `np.sum` over one axis: left-to-right accumulation starting from 0 -/
def sumFin {m : Nat} (f : Fin m → α) : α := Fin.foldl m (fun acc i => acc + f i) Num.zero

/-- `np.sum(a)` of an `(n,3)` array (also `np.vdot` after a point-wise product) -/
def sumAll (a : Arr n α) : α := sumFin (fun i => sumFin (fun k => a i k))

/-- `a.sum(axis=0)` -/
def sumRows (a : Arr n α) : Fin 3 → α := fun k => sumFin (fun i => a i k)

def Arr.add (a b : Arr n α) : Arr n α := fun i k => a i k + b i k
def Arr.sub (a b : Arr n α) : Arr n α := fun i k => a i k - b i k
def Arr.neg (a : Arr n α) : Arr n α := fun i k => -(a i k)
def Arr.scale (a : Arr n α) (c : α) : Arr n α := fun i k => a i k * c
def Arr.zero : Arr n α := fun _ _ => Num.zero

/-- the three components of a `Fin 3 → α` -/
def x3 (v : Fin 3 → α) : α := v 0
def y3 (v : Fin 3 → α) : α := v 1
def z3 (v : Fin 3 → α) : α := v 2

/-- build a 3-vector from its components -/
def mk3 (x y z : α) : Fin 3 → α := fun k => match k with | 0 => x | 1 => y | 2 => z

/-- a 3-vector held as data (so that it is computed once) -/
structure V3 (α : Type) where
  x : α
  y : α
  z : α

/-- read a component -/
def V3.get (v : V3 α) : Fin 3 → α := mk3 v.x v.y v.z

/-- `np.cross(u, v)` -/
def cross (u v : Fin 3 → α) : Fin 3 → α :=
  mk3 (u 1 * v 2 - u 2 * v 1) (u 2 * v 0 - u 0 * v 2) (u 0 * v 1 - u 1 * v 0)

end VecFn
