/-!
# Serialization model (properties C08 and C07)

An **object** is an instance of a *class spec*: the spec lists the settings of the class (constructor
parameters and tunable attributes, with the attribute each one is stored in and the conversion the
constructor applies), where `to_dict()` emits each of them, which child slots the class has (operation of
a move, moves of a composite, move + criteria of a `MoveStorage`, move table of a driver) and how its
`from_dict` rebuilds them.  The specs themselves are **generated** from the live package on every run
(`harness/gen_classes.py` → `QGen/Classes.lean`); this file is the hand-written, generic part:

* `toDict`   — mirrors the `to_dict` methods: `{"name": cls.__name__, "kwargs": {...}, "attributes": {...}}`,
               for drivers additionally `"context": {...}`, `"rng_state"`, `"atoms"`, `"moves": {...}`;
* `fromDict` — mirrors `BaseOperation/BaseIntegrator/BaseCriteria.from_dict` (`cls(**kwargs)` then `setattr`
               for `attributes`), `BaseMove.from_dict` (operation looked up by name under the `Operation`, then
               the `Integrator` protocol), `CompositeMove.from_dict`, `CompositeOperation.from_dict`
               (children by name under `Move` / `Operation`), `MoveStorage.from_dict` (move, criteria; no
               `attributes`), `MonteCarlo.from_dict` (`cls(data["atoms"], **kwargs)`, `rng_state`, `attributes`,
               `context` by `setattr` on the context, `moves` by name under `MoveStorage`) and
               `ForceBias.from_dict`;
* `wf`       — the decidable well-formedness of a spec that makes the round trip the identity;
* the attribute-lookup model for `todict` (the method ASE's JSON encoder calls when the restart observer
  writes its file): an alias `todict = to_dict` in a class body is bound to *that class's* function, so
  overrides in subclasses are bypassed; a method `def todict(self): return self.to_dict()` is resolved
  on the instance.

Values are an abstract type `V` (numbers, arrays, `Atoms`, generator states … are transported, never
inspected); the only operation on values is the constructor conversion `scale` (`Verlet`: `dt ↦ dt·fs`).
That ASE's JSON encoder/decoder is the identity on the leaf values (numpy arrays, numpy bools/ints,
`Atoms`, `Cell`) is *modelled, not verified*; it is exercised by the real round trips of the check.
Core Lean only.
-/
namespace Ser

inductive Kind | operation | integrator | criteria | move | storage | driver
deriving DecidableEq, Repr

/-- the sections of a component dictionary -/
inductive Sect | kwargs | attributes | context | top
deriving DecidableEq, Repr

/-- conversion applied by the constructor to a parameter before storing it -/
inductive Conv | id | mulFs
deriving DecidableEq, Repr

/-- which `from_dict` a class inherits (by `__qualname__` of `cls.from_dict.__func__`) -/
inductive Impl
  | plain                -- BaseOperation / BaseIntegrator / BaseCriteria .from_dict
  | baseMove | compositeMove | compositeOperation
  | moveStorage          -- cls(**kwargs), no `attributes`
  | monteCarlo           -- atoms, kwargs, rng_state, attributes, context, moves
  | forceBias            -- atoms, kwargs, rng_state, attributes
  | unknown              -- a from_dict this model does not know
deriving DecidableEq, Repr

def Impl.setsAttributes : Impl → Bool
  | .moveStorage | .unknown => false
  | _ => true
def Impl.readsContext : Impl → Bool
  | .monteCarlo => true
  | _ => false
def Impl.readsTop : Impl → Bool
  | .monteCarlo | .forceBias => true
  | _ => false
/-- `CompositeMove.from_dict` / `CompositeOperation.from_dict` always pass their (possibly empty) list -/
def Impl.supplies : Impl → List String
  | .compositeMove => ["moves"]
  | .compositeOperation => ["operations"]
  | _ => []
/-- drivers call the constructor before they rebuild their children; components do it after -/
def Impl.ctorFirst : Impl → Bool := Impl.readsTop

inductive Shape | single | list | dict
deriving DecidableEq, Repr

/-- one constructor parameter or tunable attribute of a class -/
structure Setting where
  /-- name the property talks about: the parameter name, or the attribute name of a tunable -/
  name : String
  /-- attribute through which the value is read and (by `setattr`) written -/
  attr : String
  /-- stored on the simulation context rather than on the object itself (drivers) -/
  onCtx : Bool
  isParam : Bool
  conv : Conv
  /-- part of the C08 view of a driver (constructor parameter or simulation-level setting);
      `false` = run-time state that only C07 needs -/
  sim : Bool
  /-- the key paths at which `to_dict()` emits the stored value -/
  emit : List (Sect × String)
deriving DecidableEq, Repr

/-- a child slot -/
structure Slot where
  /-- constructor parameter / dictionary key -/
  name : String
  shape : Shape
  /-- where `to_dict()` puts the children: under `kwargs[name]` or at top level (`d[name]`); `none` = omitted -/
  emit : Option Sect
  /-- `from_dict` rebuilds the children of this slot -/
  handled : Bool
  /-- protocols under which `from_dict` accepts the registered class of a child (`get_typed_class`) -/
  lookup : List Kind
  /-- kind of the child the constructor creates when the slot is left out (`default_operation`) -/
  dflt : Option Kind
deriving DecidableEq, Repr

/-- how the attribute `todict` of a class is bound (ASE's encoder calls `obj.todict()`) -/
inductive TodictBinding
  | aliasOf (owner : String)   -- `todict = to_dict` in the body of `owner`: that class's function, statically
  | dynamic                    -- `def todict(self): return self.to_dict()`
  | opaque                     -- something else
deriving DecidableEq, Repr

/-- one class of the MRO, as far as `to_dict`/`todict` lookup is concerned -/
structure MroEntry where
  cls : String
  definesToDict : Bool
  todict : Option TodictBinding
  /-- key paths present in `K.to_dict(obj)` when this class's own `to_dict` is called on the probe instance -/
  emits : List (Sect × String)
deriving DecidableEq, Repr

structure Spec where
  name : String
  kind : Kind
  /-- names under which the registry holds exactly this class -/
  registered : List String
  /-- runtime protocols (and `MoveStorage`/`Driver` bases) the class satisfies -/
  protos : List Kind
  impl : Impl
  /-- keyword arguments the constructor accepts (through `**kwargs` forwarding up the MRO) -/
  ctorAccepts : List String
  /-- parameters without default -/
  ctorRequired : List String
  settings : List Setting
  slots : List Slot
  /-- keys under `kwargs` of the probe dictionary that belong to no setting and no slot -/
  extraKwargs : List String
  /-- instances have a `__dict__` (any attribute can be set) -/
  openAttrs : Bool
  /-- attribute names that `setattr` accepts when there is no `__dict__` (`__slots__` of the MRO) -/
  settable : List String
  mro : List MroEntry
deriving DecidableEq, Repr

/-- the registry: registered name ↦ class -/
abbrev Reg := List (String × Spec)

def regOf (classes : List Spec) : Reg :=
  classes.flatMap (fun c => c.registered.map (fun n => (n, c)))

/-! ## objects and dictionaries -/

mutual
  /-- an instance: its class, one value per setting of the class (in the order of `spec.settings`), and
      its children tagged with slot name and key (key: the move name in a driver's table, else "") -/
  inductive Obj (V : Type) where
    | mk (spec : Spec) (vals : List V) (kids : Kids V)
  inductive Kids (V : Type) where
    | nil
    | cons (slot key : String) (o : Obj V) (rest : Kids V)
end

mutual
  inductive Dict (V : Type) where
    | mk (name : String) (kwargs attributes context top : List (String × V)) (kids : DKids V)
  inductive DKids (V : Type) where
    | nil
    | cons (slot key : String) (d : Dict V) (rest : DKids V)
end

def Obj.spec {V} : Obj V → Spec | .mk c _ _ => c
def Obj.vals {V} : Obj V → List V | .mk _ v _ => v
def Obj.kids {V} : Obj V → Kids V | .mk _ _ k => k
def Dict.name {V} : Dict V → String | .mk n _ _ _ _ _ => n
def Dict.kwargs {V} : Dict V → List (String × V) | .mk _ k _ _ _ _ => k
def Dict.attributes {V} : Dict V → List (String × V) | .mk _ _ a _ _ _ => a
def Dict.context {V} : Dict V → List (String × V) | .mk _ _ _ c _ _ => c
def Dict.top {V} : Dict V → List (String × V) | .mk _ _ _ _ t _ => t
def Dict.kids {V} : Dict V → DKids V | .mk _ _ _ _ _ k => k

def Kids.slots {V} : Kids V → List String
  | .nil => []
  | .cons s _ _ r => s :: r.slots
def DKids.slots {V} : DKids V → List String
  | .nil => []
  | .cons s _ _ r => s :: r.slots

/-- the value of setting number `i` -/
def Obj.get {V} (o : Obj V) (i : Nat) : Option V := o.vals[i]?

/-! ## to_dict -/

def Setting.keyIn (s : Setting) (sect : Sect) : Option String :=
  (s.emit.find? (fun p => p.1 == sect)).map (·.2)

/-- the entries one section of the dictionary gets from the settings -/
def emitSect {V} (sect : Sect) : List Setting → List V → List (String × V)
  | s :: ss, v :: vs =>
    match s.keyIn sect with
    | some k => (k, v) :: emitSect sect ss vs
    | none => emitSect sect ss vs
  | _, _ => []

def Spec.slot? (c : Spec) (name : String) : Option Slot := c.slots.find? (fun s => s.name == name)

def Spec.slotEmitted (c : Spec) (name : String) : Bool :=
  match c.slot? name with
  | some s => s.emit.isSome
  | none => false

mutual
  /-- `obj.to_dict()` -/
  def toDict {V} : Obj V → Dict V
    | .mk c vals kids =>
      .mk c.name (emitSect .kwargs c.settings vals) (emitSect .attributes c.settings vals)
        (emitSect .context c.settings vals) (emitSect .top c.settings vals) (toDKids c kids)
  /-- the children that `to_dict` of class `c` includes -/
  def toDKids {V} (c : Spec) : Kids V → DKids V
    | .nil => .nil
    | .cons slot key o rest =>
      if c.slotEmitted slot then .cons slot key (toDict o) (toDKids c rest) else toDKids c rest
end

/-! ## from_dict -/

inductive Err
  | unregistered (name : String)               -- registry.get_class: KeyError
  | protoMismatch (parent slot child : String) -- registry.get_typed_class: TypeError
  | childNotRebuilt (parent slot : String)     -- the child dictionary would reach the constructor as a dict
  | ctorUnexpected (cls key : String)          -- TypeError: unexpected keyword argument
  | ctorMissing (cls key : String)             -- TypeError: missing required argument
  | missingKey (cls key : String)              -- KeyError: data["atoms"], data["rng_state"]
  | attrError (cls key : String)               -- AttributeError: setattr on a slotted class
  | unknownFromDict (cls : String)
deriving DecidableEq, Repr

def keys {V} (l : List (String × V)) : List String := l.map (·.1)

def Conv.apply {V} (scale : V → V) : Conv → V → V
  | .id, v => v
  | .mulFs, v => scale v

/-- keys at top level that a driver's `from_dict` indexes directly -/
def topKeyOf (s : Setting) : Option String :=
  if s.name = "atoms" then some "atoms" else if s.name = "rng_state" then some "rng_state" else none

/-- constructor: `cls(**kwargs)` stores the converted parameter -/
def srcKw {V} (scale : V → V) (kw : List (String × V)) (s : Setting) : Option V :=
  if s.isParam then (kw.lookup s.name).map (s.conv.apply scale) else none
/-- drivers: `data["atoms"]` (positional constructor argument), `data["rng_state"]` -/
def srcTop {V} (c : Spec) (tp : List (String × V)) (s : Setting) : Option V :=
  if c.impl.readsTop then (topKeyOf s).bind (fun k => tp.lookup k) else none
/-- `for key, value in data["attributes"].items(): setattr(instance, key, value)` -/
def srcAt {V} (c : Spec) (at_ : List (String × V)) (s : Setting) : Option V :=
  if c.impl.setsAttributes && !s.onCtx then at_.lookup s.attr else none
/-- `for key, value in data["context"].items(): setattr(mc.context, key, value)` -/
def srcCx {V} (c : Spec) (cx : List (String × V)) (s : Setting) : Option V :=
  if c.impl.readsContext && s.onCtx then cx.lookup s.attr else none

/-- the value setting `s` has after `from_dict`: constructor (kwargs, converted), then the generator state,
    then `attributes`, then `context`; the last one present wins -/
def restore1 {V} (scale : V → V) (dflt : Spec → Setting → V) (c : Spec)
    (kw at_ cx tp : List (String × V)) (s : Setting) : V :=
  ((srcCx c cx s <|> srcAt c at_ s <|> srcTop c tp s <|> srcKw scale kw s).getD (dflt c s))

/-- `cls(**kwargs)`: every key must be a parameter, every required parameter must be there -/
def ctorCheck (c : Spec) (kwKeys : List String) : Except Err Unit :=
  match kwKeys.find? (fun k => !c.ctorAccepts.contains k) with
  | some k => .error (.ctorUnexpected c.name k)
  | none =>
    match c.ctorRequired.find? (fun r => !kwKeys.contains r) with
    | some r => .error (.ctorMissing c.name r)
    | none => .ok ()

def topCheck (c : Spec) (tpKeys : List String) : Except Err Unit :=
  if c.impl.readsTop then
    if !tpKeys.contains "atoms" then .error (.missingKey c.name "atoms")
    else if !tpKeys.contains "rng_state" then .error (.missingKey c.name "rng_state")
    else .ok ()
  else .ok ()

def attrCheck (c : Spec) (atKeys : List String) : Except Err Unit :=
  if c.impl.setsAttributes && !c.openAttrs then
    match atKeys.find? (fun k => !c.settable.contains k) with
    | some k => .error (.attrError c.name k)
    | none => .ok ()
  else .ok ()

/-- slot names of the children that travel inside `kwargs` -/
def kwSlotKeys (c : Spec) (slots : List String) : List String :=
  slots.filter (fun s => match c.slot? s with | some sl => sl.emit == some .kwargs | none => true)

def Spec.hasProto (c : Spec) (ks : List Kind) : Bool := ks.any (fun k => c.protos.contains k)

mutual
  /-- `get_class(d["name"]).from_dict(d)` -/
  def fromDict {V} (reg : Reg) (scale : V → V) (dflt : Spec → Setting → V) : Dict V → Except Err (Obj V)
    | .mk name kw at_ cx tp dk =>
      match reg.lookup name with
      | none => .error (.unregistered name)
      | some c =>
        if c.impl == .unknown then .error (.unknownFromDict c.name) else
        let pre : Except Err Unit := do
          topCheck c (keys tp)
          ctorCheck c (keys kw ++ kwSlotKeys c dk.slots ++ c.impl.supplies)
        let post : Except Err Unit := attrCheck c (keys at_)
        let vals := c.settings.map (restore1 scale dflt c kw at_ cx tp)
        if c.impl.ctorFirst then
          match pre with
          | .error e => .error e
          | .ok _ =>
            match post with
            | .error e => .error e
            | .ok _ =>
              match fromKids reg scale dflt c dk with
              | .error e => .error e
              | .ok ks => .ok (.mk c vals ks)
        else
          match fromKids reg scale dflt c dk with
          | .error e => .error e
          | .ok ks =>
            match pre with
            | .error e => .error e
            | .ok _ =>
              match post with
              | .error e => .error e
              | .ok _ => .ok (.mk c vals ks)
  /-- the children of an instance of `c`: typed registry lookup by name, then the child's own `from_dict` -/
  def fromKids {V} (reg : Reg) (scale : V → V) (dflt : Spec → Setting → V) (c : Spec) :
      DKids V → Except Err (Kids V)
    | .nil => .ok .nil
    | .cons slot key d rest =>
      match c.slot? slot with
      | none => .error (.childNotRebuilt c.name slot)
      | some sl =>
        if !sl.handled then .error (.childNotRebuilt c.name slot) else
        match reg.lookup d.name with
        | none => .error (.unregistered d.name)
        | some cc =>
          if !cc.hasProto sl.lookup then .error (.protoMismatch c.name slot d.name) else
          match fromDict reg scale dflt d with
          | .error e => .error e
          | .ok o =>
            match fromKids reg scale dflt c rest with
            | .error e => .error e
            | .ok r => .ok (.cons slot key o r)
end

/-! ## well-formedness of a spec (decidable; checked over the generated table by kernel evaluation) -/

/-- `fromDict` reads the place `(sect, k)` back into setting `s` -/
def placeOk (c : Spec) (s : Setting) (p : Sect × String) : Bool :=
  match p.1 with
  | .kwargs => s.isParam && p.2 == s.name && s.conv == .id && c.ctorAccepts.contains p.2
  | .attributes => c.impl.setsAttributes && !s.onCtx && p.2 == s.attr && (c.openAttrs || c.settable.contains p.2)
  | .context => c.impl.readsContext && s.onCtx && p.2 == s.attr
  | .top => c.impl.readsTop && topKeyOf s == some p.2

def sectKeys (c : Spec) (sect : Sect) : List String := c.settings.filterMap (fun s => s.keyIn sect)

def Setting.wf (c : Spec) (s : Setting) : Bool :=
  !s.emit.isEmpty && s.emit.all (placeOk c s)

def Slot.wf (c : Spec) (sl : Slot) : Bool :=
  sl.handled && !sl.lookup.isEmpty &&
  (match sl.dflt with | some k => sl.lookup.contains k | none => true) &&
  (match sl.shape, sl.emit with
   | .dict, some .top => c.impl == .monteCarlo
   | .single, some .kwargs => c.ctorAccepts.contains sl.name
   | .list, some .kwargs => c.ctorAccepts.contains sl.name
   | _, _ => false)

/-- the emitted keys satisfy the constructor: required parameters are emitted under `kwargs` (as a setting
    or as a child slot), nothing else is -/
def ctorWf (c : Spec) : Bool :=
  c.extraKwargs.all (fun k => c.ctorAccepts.contains k) &&
  c.impl.supplies.all (fun k => c.ctorAccepts.contains k) &&
  c.ctorRequired.all (fun r =>
    (sectKeys c .kwargs).contains r ||
    c.slots.any (fun sl => sl.name == r && sl.emit == some .kwargs))

def topWf (c : Spec) : Bool :=
  !c.impl.readsTop || ((sectKeys c .top).contains "atoms" && (sectKeys c .top).contains "rng_state")

def Spec.registeredOk (reg : Reg) (c : Spec) : Bool := reg.lookup c.name == some c

/-- well-formedness: registered under its class name; a known `from_dict`; every setting emitted at key
    paths from which `from_dict` restores it; no key clash; the constructor accepts exactly what is
    emitted; children rebuilt under a protocol their kind satisfies -/
def wf (reg : Reg) (c : Spec) : Bool :=
  c.registeredOk reg && c.impl != .unknown &&
  decide (c.settings.map (·.name)).Nodup &&
  decide (c.settings.map (fun s => (s.onCtx, s.attr))).Nodup &&
  decide (c.slots.map (·.name)).Nodup &&
  c.settings.all (Setting.wf c) &&
  c.slots.all (Slot.wf c) &&
  (c.slots.all fun sl => !(c.settings.any fun s => s.name == sl.name)) &&
  ctorWf c && topWf c

/-- the C08 view of a spec: constructor parameters and the simulation-level settings only -/
def Spec.simView (c : Spec) : Spec := { c with settings := c.settings.filter (·.sim) }

/-! ## well-typed objects -/

mutual
  /-- `o` is an instance of its spec, all specs in the tree are well-formed, every child sits in a slot of
      its parent whose lookup protocol the child's class satisfies -/
  def Obj.conf {V} (reg : Reg) : Obj V → Bool
    | .mk c vals kids => wf reg c && vals.length == c.settings.length && Kids.conf reg c kids &&
        c.ctorRequired.all (fun r => (sectKeys c .kwargs).contains r || (kwSlotKeys c kids.slots).contains r)
  def Kids.conf {V} (reg : Reg) (c : Spec) : Kids V → Bool
    | .nil => true
    | .cons slot _ o rest =>
      (match c.slot? slot with
       | some sl => o.spec.hasProto sl.lookup
       | none => false) && Obj.conf reg o && Kids.conf reg c rest
end

/-! ## the `todict` attribute-lookup model (restart file, C07) -/

/-- first class of the MRO that defines `todict` -/
def resolveTodict : List MroEntry → Option (String × TodictBinding)
  | [] => none
  | e :: rest => match e.todict with | some b => some (e.cls, b) | none => resolveTodict rest

/-- the `to_dict` found by attribute lookup starting at class `from_` of the MRO -/
def resolveToDictFrom (from_ : String) : List MroEntry → Option MroEntry
  | [] => none
  | e :: rest =>
    if e.cls == from_ then (e :: rest).find? (·.definesToDict)
    else resolveToDictFrom from_ rest

/-- key paths of the dictionary obtained through `obj.to_dict()` -/
def keysViaToDict (c : Spec) : Option (List (Sect × String)) :=
  (c.mro.find? (·.definesToDict)).map (·.emits)

/-- key paths of the dictionary ASE's encoder obtains through `obj.todict()`; `none` = no such attribute
    (the encoder raises `TypeError: Cannot convert object of type …`) -/
def keysViaTodict (c : Spec) : Option (List (Sect × String)) :=
  match resolveTodict c.mro with
  | none => none
  | some (_, .dynamic) => keysViaToDict c
  | some (_, .aliasOf owner) => (resolveToDictFrom owner c.mro).map (·.emits)
  | some (_, .opaque) => none

/-- the restart file holds what `to_dict()` returns -/
def restartFileIsToDict (c : Spec) : Bool :=
  keysViaToDict c != none && keysViaTodict c == keysViaToDict c

/-! ## restart model (C07): a simulation = serialised object tree + transients -/

/-- a simulation state: the driver object (settings, context state, generator state, step counter, atoms,
    move table) and everything that is documented *not* to be saved: one-shot preselections, `move_history`,
    observers, the calculator -/
structure Sim (V T : Type) where
  obj : Obj V
  transient : T

/-- what the restart observer writes (through `todict`, which for a well-formed spec is `to_dict`) -/
def save {V T} (s : Sim V T) : Dict V := toDict s.obj

/-- `read_json` → `Cls.from_dict(data)` → re-attach a fresh calculator -/
def load {V T} (reg : Reg) (scale : V → V) (dflt : Spec → Setting → V) (fresh : T) (d : Dict V) :
    Option (Sim V T) :=
  match fromDict reg scale dflt d with
  | .ok o => some ⟨o, fresh⟩
  | .error _ => none

/-- equal up to the documented transients -/
def Sim.equiv {V T} (a b : Sim V T) : Prop := a.obj = b.obj

def runN {S} (step : S → S) : Nat → S → S
  | 0, s => s
  | n + 1, s => runN step n (step s)

/-- the per-step outputs of `n` steps from `s` (atoms, energies, history, labels, counters after each step) -/
def traceN {S O} (step : S → S) (out : S → O) : Nat → S → List O
  | 0, _ => []
  | n + 1, s => out (step s) :: traceN step out n (step s)

end Ser
