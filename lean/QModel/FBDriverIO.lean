import QModel.FBDriver
import QModel.Proto
/-!
# line protocol of the force-bias driver machine (QModel/FBDriver.lean), carrier `Float`

```
fbd <fb|afb> <v|nov> <natoms> <kT> <masses> <powers> <delta> <min> <max> <ref> <tanh|exp>
    <k> <c> <e> <positions> <momenta> <cache: none|list> <thr> <stream> <events>
```
All lists are flattened `(N,3)` arrays (floats as 64-bit patterns, comma separated, `-` = empty); `stream` = every number
the generator of the real object returned over the whole history, in order. `v` = the machine as it is (`FBD.cfg`), `nov` =
without the adaptive class's `validate_simulation` (`FBD.cfgNoValidate`, used to show what the repair changed).

**The environment** is a harmonic well with a committee whose spread depends on the configuration, written with IEEE
`+ - * /` only, in an order numpy reproduces bit for bit (one ufunc per operation, no fused multiply-add):
```
d = x - c                     # per coordinate
F = (-k) * d                  # results["forces"]
s = (d * d) / (1.0 + d * d)   # in [0, 1)
member_j = F * (1.0 + e_j * s)   # results["forces_comm"][j]
```
`np.std(axis=0)`, `np.mean(np.abs(.), axis=0)` follow `QModel/Adaptive.lean` (member after member). `tanh`, `exp`, `pow`
are libm's here and numpy's SIMD kernels there (≤ 1 ulp apart): the harness compares at 1e-12 relative.

**Events** (`|`-separated): `run:<n>` = `sim.run(n)`; `edit:<positions>:<momenta>` = `atoms.set_positions/set_momenta`;
`restart` = `to_dict → encode → decode → from_dict` + fresh calculator (`FBD.restart`); `attach:<none|list>` = another
calculator object, new or holding the results of the listed configuration.

**Reply** `ok <record>|<record>|…`, one `S` record per executed step and one `E` record after every event:
```
S:<step_count after>:<rngPos>:<ok|exhausted>:<fragile>:<positions>:<momenta>:<delta>:<gamma>
E:<step_count>:<rngPos>:<positions>:<momenta>:<delta>:<cache: none|list>
```
`run` is `RunLoop.run` of the machine with ONE observer of interval 1; the per-step states are read from the observer
trace (so the records are what an observer of the real simulation sees after `step_count += 1`). `exhausted`: the
recorded stream did not lead to acceptance of every coordinate (processing stops there). `fragile` (harness aid, not
part of the model): some acceptance decision `P > u` of that step is within `thr·(2+coth|γ|)·(1+|γ|)` of the threshold,
i.e. within the rounding noise of two `exp`/`tanh` implementations — from there on model and code may legitimately part.
-/
namespace FBD.IO
open FBD

def nan : Float := 0.0 / 0.0

def zip3 (f : Float → Float → Float → Float) : List Float → List Float → List Float → List Float
  | a :: as, b :: bs, c :: cs => f a b c :: zip3 f as bs cs
  | _, _, _ => []

def harmForce (k c x : Float) : Float := (-k) * (x - c)

def harmMember (e : Float) (k c x : Float) : Float :=
  let d := x - c
  let f := (-k) * d
  let s := (d * d) / (1.0 + d * d)
  f * (1.0 + e * s)

def harmEnv (ks cs es : List Float) (arr : Array Float) : Env Float :=
  { forces := fun pos => zip3 harmForce ks cs pos
    committee := fun pos => es.map (fun e => zip3 (harmMember e) ks cs pos)
    stream := fun i => arr.getD i nan
    fuel := arr.size + 2 }

/-! ### harness aid: is a decision of this step within rounding noise? -/

def fragileCoord (thr : Float) (c : FB.Coord Float) : Bool :=
  if c.gamma == 0.0 then false
  else if c.den == 0.0 then true
  else
    let p := FB.trialProb c.gamma c.den c.zeta
    let t := thr * (2.0 + (Float.exp c.gamma + Float.exp (-c.gamma)) / Float.abs c.den) * (1.0 + Float.abs c.gamma)
    Float.abs (p - c.u) <= t

def fragileRun (thr : Float) (d : Nat → Float) : Nat → Nat → List (FB.Coord Float) → Bool
  | 0, _, cs => cs.any (fragileCoord thr)
  | r + 1, p, cs =>
    cs.any (fragileCoord thr) ||
      (let k := FB.nUnconv cs
       if k = 0 then false else fragileRun thr d r (p + 2 * k) (FB.redraw d k p cs))

/-- replay of the rejection loop of the step that starts from `pre` (after `validate`), looking for a fragile decision -/
def stepFragile (env : Env Float) (thr : Float) (pre : St Float) : Bool :=
  let s := if pre.adaptive then updateDelta env pre else pre
  let ps := mkPars (env.forces s.positions) s.delta s.masses s.powers
  let gd := (ps.map (fun q => FB.gamma q.force q.delta s.kT)).map (fun g => (g, FB.denominator g))
  let d : Nat → Float := fun i => env.stream (s.rngPos + i)
  let n := ps.length
  fragileRun thr d env.fuel (2 * n) (FB.initCoords d n 0 gd)

/-! ### events -/

inductive Event where
  | run (n : Nat)
  | edit (pos mom : List Float)
  | restart
  | attach (c : Option (List Float))

def parseCache (s : String) : Option (Option (List Float)) :=
  if s = "none" then some none else (Proto.floatList s).map some

def parseEvent (s : String) : Option Event :=
  match s.splitOn ":" with
  | ["run", n] => n.toNat?.map .run
  | ["edit", p, m] =>
    match Proto.floatList p, Proto.floatList m with
    | some p, some m => some (.edit p m)
    | _, _ => none
  | ["restart"] => some .restart
  | ["attach", c] => (parseCache c).map .attach
  | _ => none

def showCache : Option (List Float) → String
  | none => "none"
  | some c => Proto.showFloats c

def showE (sim : RunLoop.Sim (St Float)) : String :=
  s!"E:{sim.stepCount}:{sim.st.rngPos}:{Proto.showFloats sim.st.positions}:{Proto.showFloats sim.st.momenta}:{Proto.showFloats sim.st.delta}:{showCache sim.st.cache}"

/-- the `S` records of one `run`: the observer calls made after a step of this run, each with the state the step
    started from; stops at the first exhausted step -/
def stepRecords (env : Env Float) (thr : Float) (size : Nat) :
    St Float → List (Nat × RunLoop.Ev (St Float)) → List String × Bool
  | _, [] => ([], true)
  | pre, (_, .header) :: rest => stepRecords env thr size pre rest
  | pre, (_, .call k st) :: rest =>
    let fr := stepFragile env thr pre
    let bad := st.diverged || st.rngPos > size
    let r := s!"S:{k}:{st.rngPos}:{if bad then "exhausted" else "ok"}:{fr}:{Proto.showFloats st.positions}:{Proto.showFloats st.momenta}:{Proto.showFloats st.delta}:{Proto.showFloats st.gamma}"
    if bad then ([r], false)
    else
      let (rs, ok) := stepRecords env thr size st rest
      (r :: rs, ok)

/-- process the events; returns the records in order -/
def process (c : RunLoop.Cfg (St Float)) (env : Env Float) (thr : Float) (size : Nat) :
    List Event → RunLoop.Sim (St Float) → List String
  | [], _ => []
  | .run n :: rest, sim =>
    let sim' := RunLoop.run c n sim
    let fresh := (sim'.trace.drop sim.trace.length).filter (fun e =>
      match e.2 with
      | .call k _ => decide (sim.stepCount < k)
      | .header => false)
    let (rs, ok) := stepRecords env thr size (c.validate sim.st) fresh
    if ok then rs ++ showE sim' :: process c env thr size rest sim' else rs
  | .edit p m :: rest, sim =>
    let sim' := { sim with st := userEdit sim.st p m }
    showE sim' :: process c env thr size rest sim'
  | .restart :: rest, sim =>
    let sim' := restart sim
    showE sim' :: process c env thr size rest sim'
  | .attach cc :: rest, sim =>
    let sim' := { sim with st := attachCalc sim.st cc }
    showE sim' :: process c env thr size rest sim'

def handle : List String → String
  | ["fbd", cls, val, natoms, kt, ms, pw, dl, dmin, dmax, ref, fn, ks, cs, es, pos, mom, cache, thr, stream, events] =>
    let cls? : Option Bool := match cls with | "fb" => some false | "afb" => some true | _ => none
    let val? : Option Bool := match val with | "v" => some true | "nov" => some false | _ => none
    let fn? : Option AFB.UpdateFn := match fn with | "tanh" => some .tanh | "exp" => some .exp | _ => none
    match cls?, val?, natoms.toNat?, Proto.floatOfBits kt, Proto.floatList ms, Proto.floatList pw, Proto.floatList dl with
    | some ad, some val, some natoms, some kt, some ms, some pw, some dl =>
      match Proto.floatOfBits dmin, Proto.floatOfBits dmax, Proto.floatOfBits ref, fn?, Proto.floatList ks,
            Proto.floatList cs, Proto.floatList es with
      | some dmin, some dmax, some ref, some fn, some ks, some cs, some es =>
        match Proto.floatList pos, Proto.floatList mom, parseCache cache, Proto.floatOfBits thr, Proto.floatList stream,
              (events.splitOn "|").mapM parseEvent with
        | some pos, some mom, some cache, some thr, some stream, some evs =>
          let n := 3 * natoms
          if pos.length ≠ n || mom.length ≠ n || ms.length ≠ n || pw.length ≠ n || dl.length ≠ n || ks.length ≠ n
              || cs.length ≠ n then "bad-op" else
          let arr := stream.toArray
          let env := harmEnv ks cs es arr
          let st0 : St Float :=
            { natoms := natoms, positions := pos, momenta := mom, masses := ms, powers := pw, delta := dl, kT := kt,
              rngPos := 0, cache := cache, adaptive := ad, minDelta := dmin, maxDelta := dmax, refVar := ref, fn := fn,
              varCoef := [], gamma := [], zeta := [], diverged := false }
          let c : RunLoop.Cfg (St Float) :=
            if val then cfg env [1] none .fixed else cfgNoValidate env [1] none .fixed
          let recs := process c env thr arr.size evs (RunLoop.fresh st0)
          "ok " ++ (if recs.isEmpty then "-" else "|".intercalate recs)
        | _, _, _, _, _, _ => "bad-op"
      | _, _, _, _, _, _, _ => "bad-op"
    | _, _, _, _, _, _, _ => "bad-op"
  | _ => "bad-op"

end FBD.IO
