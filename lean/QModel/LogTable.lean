/-!
# The logger's field table: `Logger.add_field`, `remove_fields`, `create_header`, `__call__`

Model of `src/quansino/io/logger.py` (the table of fields and the two lines it produces) and of
`src/quansino/utils/strings.py:get_auto_header_format`, for format strings made of literal text and placeholders
`{:[align][width]type}` with `type` one of `s` (a string value) and `d` (an integer value).

* `self.fields` is a `dict`: a field added under a used key replaces the entry and keeps its place; keys are `str`
  or `tuple` of `str` (a list is turned into a tuple), and `("a",)` is not `"a"`.
* `__call__`: for every field `str_format.format(value)` (`.format(*value)` when `is_array`), joined by single blanks,
  `"\n"` appended, one `write`, one `flush` (the bytes-level part is `QModel/Files.lean`).
* `create_header`: for every field `header_format.format(name)`; for an array field the names (one, or a tuple) are
  filled up with empty strings to the number of placeholders.
* `get_auto_header_format`: every placeholder `{:[align][width]…}` becomes `{:[align or >][width or 10]s}`.

Strings are lists of characters (`Str`), so that lengths are what the theorems speak about. Core Lean only.
-/
namespace LogT

abbrev Str := List Char

inductive Align | left | right | center
deriving DecidableEq, Repr

inductive Ty | str | int
deriving DecidableEq, Repr

/-- a replacement field `{:[align][width]type}` -/
structure Spec where
  align : Option Align
  width : Option Nat
  ty : Ty
deriving DecidableEq, Repr

/-- a format string: literal text and placeholders -/
inductive Seg
  | lit (s : Str)
  | hole (sp : Spec)
deriving DecidableEq, Repr

inductive Val
  | str (s : Str)
  | int (i : Int)
deriving DecidableEq, Repr

inductive Err
  | index      -- IndexError: fewer arguments than placeholders
  | value      -- ValueError: format code does not fit the value (`d` for a str, `s` for an int)
  | type_      -- TypeError: a tuple (or list) formatted with a non-empty format spec
deriving DecidableEq, Repr

/-! ## Python's padding -/

def spaces (n : Nat) : Str := List.replicate n ' '

/-- `format(s, f"{align}{width}")` for text that is already rendered -/
def pad (a : Align) (w : Nat) (s : Str) : Str :=
  let n := w - s.length
  match a with
  | .left => s ++ spaces n
  | .right => spaces n ++ s
  | .center => spaces (n / 2) ++ s ++ spaces (n - n / 2)

/-- decimal digits of a natural number, most significant first -/
def natDigits (n : Nat) (acc : Str) : Str :=
  if h : n < 10 then Char.ofNat (48 + n) :: acc
  else natDigits (n / 10) (Char.ofNat (48 + n % 10) :: acc)
termination_by n
decreasing_by omega

/-- `str(i)` -/
def intRepr (i : Int) : Str :=
  match i with
  | .ofNat n => natDigits n []
  | .negSucc n => '-' :: natDigits (n + 1) []

/-- one placeholder applied to one value; strings are left-aligned by default, integers right-aligned -/
def fmtVal (sp : Spec) : Val → Except Err Str
  | .str s => if sp.ty = .str then .ok (pad (sp.align.getD .left) (sp.width.getD 0) s) else .error .value
  | .int i => if sp.ty = .int then .ok (pad (sp.align.getD .right) (sp.width.getD 0) (intRepr i)) else .error .value

/-- `fmt.format(*args)` with automatically numbered placeholders; surplus arguments are ignored -/
def fmt : List Seg → List Val → Except Err Str
  | [], _ => .ok []
  | .lit s :: r, vs => (fmt r vs).map (s ++ ·)
  | .hole _ :: _, [] => .error .index
  | .hole sp :: r, v :: vs =>
    match fmtVal sp v with
    | .error e => .error e
    | .ok c => (fmt r vs).map (c ++ ·)

/-! ## `get_auto_header_format` -/

/-- `{:[align][width]…}` ↦ `{:[align or ">"][width or "10"]s}` -/
def hdrSpec (sp : Spec) : Spec := ⟨some (sp.align.getD .right), some (sp.width.getD 10), .str⟩

def autoHeader : List Seg → List Seg
  | [] => []
  | .lit s :: r => .lit s :: autoHeader r
  | .hole sp :: r => .hole (hdrSpec sp) :: autoHeader r

def holes : List Seg → Nat
  | [] => 0
  | .lit _ :: r => holes r
  | .hole _ :: r => holes r + 1

/-! ## the table -/

/-- the key of `self.fields`: a string, or a tuple of strings -/
structure Key where
  tuple : Bool
  names : List Str
deriving DecidableEq, Repr

structure Field where
  key : Key
  strFormat : List Seg
  headerFormat : List Seg
  isArray : Bool
deriving DecidableEq, Repr

abbrev Table := List Field

/-- `add_field(name, function, str_format, header_format, is_array)` -/
def mkField (key : Key) (strFormat : List Seg) (headerFormat : Option (List Seg)) (isArray : Bool) : Field :=
  ⟨key, strFormat, headerFormat.getD (autoHeader strFormat), isArray⟩

/-- `self.fields[name] = {...}`: a used key keeps its place -/
def upsert (f : Field) : Table → Table
  | [] => [f]
  | g :: r => if g.key = f.key then f :: r else g :: upsert f r

def addField (t : Table) (key : Key) (strFormat : List Seg) (headerFormat : Option (List Seg)) (isArray : Bool) : Table :=
  upsert (mkField key strFormat headerFormat isArray) t

/-- `pattern in name` -/
def containsStr (p : Str) : Str → Bool
  | [] => p.isEmpty
  | c :: cs => p.isPrefixOf (c :: cs) || containsStr p cs

/-- `remove_fields(pattern)`: a field goes when (one of) its name(s) contains the pattern -/
def removeFields (t : Table) (p : Str) : Table := t.filter (fun f => !f.key.names.any (containsStr p))

/-! ## the two lines -/

/-- what a field's function returned: one value, or a sequence for an array field -/
abbrev Vals := List Val

/-- the cell of a field in a row -/
def rowCell (f : Field) (v : Vals) : Except Err Str := fmt f.strFormat v

/-- the arguments `create_header` hands to `header_format.format` -/
def hdrArgs (f : Field) : Except Err (List Val) :=
  if f.isArray then
    -- one name per component, or fewer: filled up with empty strings to the number of placeholders
    .ok ((f.key.names ++ List.replicate (holes f.headerFormat - f.key.names.length) []).map Val.str)
  else if f.key.tuple then
    -- `"{:>10s}".format(("a", "b"))`: TypeError (a header format without placeholders accepts anything)
    if holes f.headerFormat = 0 then .ok [] else .error .type_
  else .ok (f.key.names.map Val.str)

/-- the cell of a field in the header -/
def headerCell (f : Field) : Except Err Str :=
  match hdrArgs f with
  | .error e => .error e
  | .ok a => fmt f.headerFormat a

def mapE {α β : Type} (g : α → Except Err β) : List α → Except Err (List β)
  | [] => .ok []
  | a :: r =>
    match g a with
    | .error e => .error e
    | .ok b => (mapE g r).map (b :: ·)

def headerCells (t : Table) : Except Err (List Str) := mapE headerCell t

/-- the cells of one call; `vs` holds what each field's function returned, field by field -/
def rowCells : Table → List Vals → Except Err (List Str)
  | [], _ => .ok []
  | f :: r, vs =>
    match rowCell f (vs.headD []) with
    | .error e => .error e
    | .ok c => (rowCells r vs.tail).map (c :: ·)

/-- `" ".join(parts)` -/
def joinBlank : List Str → Str
  | [] => []
  | [c] => c
  | c :: r => c ++ ' ' :: joinBlank r

/-- `write_header`: `create_header() + "\n"` -/
def headerLine (t : Table) : Except Err Str := (headerCells t).map (fun cs => joinBlank cs ++ ['\n'])

/-- `__call__`: `" ".join(parts) + "\n"` -/
def rowLine (t : Table) (vs : List Vals) : Except Err Str := (rowCells t vs).map (fun cs => joinBlank cs ++ ['\n'])

end LogT
