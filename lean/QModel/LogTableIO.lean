import QModel.LogTable
import QModel.FilesIO

/-!
Line protocol of the logger's field table.

`logt <op>*` with ops (no blanks inside an op; strings are hex of their ASCII bytes, the empty string is `-`):

* `A;<key>;<fmt>;<hdr>;<0|1>` — `add_field(key, f, str_format=fmt, header_format=hdr, is_array=…)`; `<hdr>` = `~` for `None`
  * `<key>` = `s:<hex>` (a string) or `t:<hex>,<hex>,…` (a tuple; `t:` is the empty tuple)
  * `<fmt>` = segments joined by `|`: `L<hex>` literal text, `H<l|r|c|n><width or ~>.<s|d>` a placeholder (`n` = no alignment given)
* `R;<hex>` — `remove_fields(pattern)`
* `H` — `write_header()`: answers the line in hex, or `err:<kind>`
* `C;<vals>/<vals>/…` — `__call__()` with one `<vals>` per field: values joined by `,`, each `s<hex>` or `i<int>`; `~` for no values

Answer: one token per `H`/`C` op, then `keys=<k>,<k>,…` with `k` = `s:<hex>` / `t:<hex>+<hex>…`.
-/
namespace LogT.IO
open Files (unhex hex)

def strOfHex (s : String) : Option Str :=
  if s == "-" then some [] else (unhex s).map (fun bs => bs.map (fun b => Char.ofNat b.toNat))

def hexOfStr (s : Str) : String :=
  if s.isEmpty then "-" else hex (s.map (fun c => UInt8.ofNat c.toNat))

def parseKey (s : String) : Option Key :=
  match s.splitOn ":" with
  | ["s", h] => (strOfHex h).map (fun n => ⟨false, [n]⟩)
  | ["t", ""] => some ⟨true, []⟩
  | ["t", hs] => ((hs.splitOn ",").mapM strOfHex).map (fun ns => ⟨true, ns⟩)
  | _ => none

def parseSeg (s : String) : Option Seg :=
  match s.toList with
  | 'L' :: h => (strOfHex (String.ofList h)).map Seg.lit
  | 'H' :: a :: rest =>
    match (String.ofList rest).splitOn "." with
    | [w, ty] => do
      let al ← match a with
        | 'l' => some (some Align.left) | 'r' => some (some Align.right) | 'c' => some (some Align.center)
        | 'n' => some none | _ => none
      let wd ← if w == "~" then some none else w.toNat?.map some
      let t ← match ty with | "s" => some Ty.str | "d" => some Ty.int | _ => none
      pure (Seg.hole ⟨al, wd, t⟩)
    | _ => none
  | _ => none

def parseFmt (s : String) : Option (List Seg) :=
  if s == "" then some [] else (s.splitOn "|").mapM parseSeg

def parseVal (s : String) : Option Val :=
  match s.toList with
  | 's' :: h => (strOfHex (String.ofList h)).map Val.str
  | 'i' :: n => (String.ofList n).toInt?.map Val.int
  | _ => none

def parseVals (s : String) : Option Vals :=
  if s == "~" then some [] else (s.splitOn ",").mapM parseVal

def showErr : Err → String
  | .index => "err:index"
  | .value => "err:value"
  | .type_ => "err:type"

def showKey (k : Key) : String :=
  if k.tuple then "t:" ++ "+".intercalate (k.names.map hexOfStr) else "s:" ++ "+".intercalate (k.names.map hexOfStr)

def showLine : Except Err Str → String
  | .ok s => hexOfStr s
  | .error e => showErr e

/-- run the ops; `none` = an op that does not parse -/
def runOps : Table → List String → List String → Option (Table × List String)
  | t, [], out => some (t, out.reverse)
  | t, op :: rest, out =>
    match op.splitOn ";" with
    | ["A", k, f, h, a] => do
      let key ← parseKey k
      let sf ← parseFmt f
      let hf ← if h == "~" then some none else (parseFmt h).map some
      let arr ← if a == "1" then some true else if a == "0" then some false else none
      runOps (addField t key sf hf arr) rest out
    | ["R", p] => do
      let pat ← strOfHex p
      runOps (removeFields t pat) rest out
    | ["H"] => runOps t rest (showLine (headerLine t) :: out)
    | ["C", vs] => do
      let vals ← (vs.splitOn "/").mapM parseVals
      runOps t rest (showLine (rowLine t vals) :: out)
    | ["C"] => runOps t rest (showLine (rowLine t []) :: out)
    | _ => none

def handle : List String → String
  | "logt" :: ops =>
    match runOps [] ops [] with
    | some (t, out) => " ".intercalate (out ++ ["keys=" ++ ",".intercalate (t.map (fun f => showKey f.key))])
    | none => "bad-op"
  | _ => "bad-op"

end LogT.IO
