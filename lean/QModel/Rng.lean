/-!
# The random oracle (DESIGN.md §2.2)

All randomness in quansino goes through one `numpy.random.Generator`.  In the models the generator is an explicit
input: a **script** of draws `u ∈ [0,1)` (rationals) that is consumed from left to right.  Theorems quantify over
all scripts; correspondence runs feed the same script to `harness/scripted.py:ScriptedRNG`, which implements exactly
the rules below.

Assumptions recorded here (cross-checked against a real `Generator(PCG64(seed))` by the twin test of C09):
* `random()` returns a draw `u` with `0 ≤ u < 1`;
* `choice(a)` is a uniform index: one stream element, index `⌊u·len a⌋`;
* `choice(a, p=p)` (scalar) consumes one `random()` and returns `a[cumsum(p).searchsorted(u, side='right')]`,
  i.e. the first index whose cumulative probability exceeds `u`;
* `choice(a, size=k, replace=False)` returns `k` distinct elements of `a`.  numpy's algorithm is permutation based;
  the script rule used here (successive pops from the remaining list) is *a* rule with that property, shared with
  `ScriptedRNG`; theorems that need only distinctness take it as a hypothesis on the slots.
Core Lean only.
-/
namespace Rng

/-- a script of draws, consumed left to right -/
abbrev Script := List Rat

inductive Err where
  | exhausted       -- the script ran out: a harness error, never a behaviour of the code
  | emptyChoice     -- numpy: "a cannot be empty unless no samples are taken"
  | sampleTooLarge  -- numpy: "Cannot take a larger sample than population when replace is False"
  | probNaN         -- numpy: "Probabilities contain NaN"   (0/0 after the caller's normalisation)
  | probNegative    -- numpy: "Probabilities are not non-negative"
  | indexError      -- an index outside the list (cannot happen for draws in [0,1))
  deriving DecidableEq, Repr

/-- take the next element of any stream (also used for the separate stream of normals) -/
def popOf {α : Type} : List α → Except Err (α × List α)
  | [] => .error .exhausted
  | x :: s => .ok (x, s)

/-- `rng.random()` -/
def random (s : Script) : Except Err (Rat × Script) := popOf s

/-- the uniform index `⌊u·n⌋` into a range of `n ≥ 1` elements (clamped to `n-1`) -/
def index (u : Rat) (n : Nat) : Nat := min (u * (n : Rat)).floor.toNat (n - 1)

/-- `rng.integers(lo, hi)` for naturals `lo < hi` -/
def integers (lo hi : Nat) (s : Script) : Except Err (Nat × Script) :=
  if hi ≤ lo then .error .emptyChoice else
  match s with
  | [] => .error .exhausted
  | u :: s' => .ok (lo + index u (hi - lo), s')

/-- `rng.choice(xs)`: one draw, uniform index -/
def choice {α : Type} (xs : List α) (s : Script) : Except Err (α × Script) :=
  match xs, s with
  | [], _ => .error .emptyChoice
  | _ :: _, [] => .error .exhausted
  | x :: xs', u :: s' =>
    match (x :: xs')[index u (xs'.length + 1)]? with
    | some y => .ok (y, s')
    | none => .error .indexError

/-- `cdf.searchsorted(u, side='right')` over `cdf = acc + cumsum ps`: the first index whose cumulative sum
    exceeds `u` (`ps.length` when there is none) -/
def searchCum : List Rat → Rat → Rat → Nat
  | [], _, _ => 0
  | p :: ps, acc, u => if u < acc + p then 0 else searchCum ps (acc + p) u + 1

/-- the caller's `p /= np.sum(p)` -/
def normalise (ws : List Rat) : List Rat := ws.map (· / ws.sum)

/-- numpy's validity checks on `p = ws / sum ws` (`sum ws = 0` gives `nan`/`inf` entries, which numpy refuses) -/
def checkP (ws : List Rat) : Option Err :=
  if ws.sum = 0 then some .probNaN
  else if (normalise ws).any (· < 0) then some .probNegative
  else none

/-- the index chosen by `choice(…, p = ws / sum ws)` from the draw `u` -/
def choicePIdx (ws : List Rat) (u : Rat) : Except Err Nat :=
  match checkP ws with
  | some e => .error e
  | none => .ok (searchCum (normalise ws) 0 u)

/-- `rng.choice(xs, p = ws / sum ws)`: validity checks, then one draw -/
def choiceP {α : Type} (xs : List α) (ws : List Rat) (s : Script) : Except Err (α × Script) :=
  match xs with
  | [] => .error .emptyChoice
  | _ :: _ =>
    match checkP ws, s with
    | some e, _ => .error e
    | none, [] => .error .exhausted
    | none, u :: s' =>
      match xs[searchCum (normalise ws) 0 u]? with
      | some y => .ok (y, s')
      | none => .error .indexError

/-- `k` successive pops from the list `rem`: draw `u`, take `rem[⌊u·len rem⌋]`, erase it -/
def sampleFrom : List Nat → Nat → Script → Except Err (List Nat × Script)
  | _, 0, s => .ok ([], s)
  | _, _ + 1, [] => .error .exhausted
  | rem, k + 1, u :: s =>
    match rem[index u rem.length]? with
    | none => .error .indexError
    | some x =>
      match sampleFrom (rem.eraseIdx (index u rem.length)) k s with
      | .error e => .error e
      | .ok (r, s') => .ok (x :: r, s')

/-- `rng.choice(np.arange(n), size=k, replace=False)`: `k` distinct indices below `n` -/
def sampleNoRepl (n k : Nat) (s : Script) : Except Err (List Nat × Script) :=
  if k > n then .error .sampleTooLarge else sampleFrom (List.range n) k s

/-- `rng.uniform(lo, hi)` over any carrier with `+ - *` (the caller supplies the draw already in the carrier) -/
def uniformOf {α : Type} [Add α] [Sub α] [Mul α] (lo hi u : α) : α := lo + (hi - lo) * u

/-- `rng.uniform(lo, hi)` on the rational script -/
def uniform (lo hi : Rat) (s : Script) : Except Err (Rat × Script) :=
  match s with
  | [] => .error .exhausted
  | u :: s' => .ok (uniformOf lo hi u, s')

end Rng
