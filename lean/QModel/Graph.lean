import QModel.Atoms
/-!
# C19 — connected components computed inside the model

`quansino/utils/atoms.py: search_molecules` builds a symmetric adjacency matrix from ASE's neighbour list
(`neighbor_list("ij", atoms, cutoff)` → the bonded pairs) and runs `networkx.connected_components` on it.
networkx walks the nodes `0..n-1`; for every node not seen yet it yields the set of all nodes reachable from it and
marks them seen (`for v in G: if v not in seen: c = _plain_bfs(G, v); seen.update(c); yield c`).

`componentsOf n pairs` is that loop; "reachable" is computed by `n` rounds of neighbour expansion (a path between two
of `n` nodes needs at most `n - 1` bonds). Pairs may come in one or both directions, may repeat, may contain `i = i`;
a pair with an endpoint `≥ n` never matters (expansion only produces nodes `< n`). Every component is listed
ascending. Core Lean only; the proofs are in `QProofs/Graph.lean`, the properties in `QProps/C19g.lean`.
-/
namespace RI

/-- `i` and `j` are a listed pair, in either direction (the adjacency matrix is symmetrised) -/
def adjB (pairs : List (Nat × Nat)) (i j : Nat) : Bool :=
  pairs.any fun p => (p.1 == i && p.2 == j) || (p.1 == j && p.2 == i)

/-- one round of neighbour expansion: the nodes `< n` that are in `s` or bonded to a member of `s`, ascending -/
def expand (n : Nat) (pairs : List (Nat × Nat)) (s : List Nat) : List Nat :=
  (List.range n).filter fun j => s.any fun i => i == j || adjB pairs i j

/-- `k` rounds of neighbour expansion -/
def expandN (n : Nat) (pairs : List (Nat × Nat)) : Nat → List Nat → List Nat
  | 0, s => s
  | k+1, s => expand n pairs (expandN n pairs k s)

/-- everything reachable from node `i`: `n` rounds starting from `[i]` -/
def reach (n : Nat) (pairs : List (Nat × Nat)) (i : Nat) : List Nat := expandN n pairs n [i]

/-- networkx's loop over the nodes `todo` with the set `seen` of nodes already put into a component -/
def compsFrom (n : Nat) (pairs : List (Nat × Nat)) : List Nat → List Nat → List (List Nat)
  | [], _ => []
  | i :: rest, seen =>
    if i ∈ seen then compsFrom n pairs rest seen
    else reach n pairs i :: compsFrom n pairs rest (reach n pairs i ++ seen)

/-- `list(networkx.connected_components(G))` for the graph on `0..n-1` with the edges `pairs`: components in the order
    of their smallest node, each ascending -/
def componentsOf (n : Nat) (pairs : List (Nat × Nat)) : List (List Nat) :=
  compsFrom n pairs (List.range n) []

/-- `search_molecules` from the bonded pairs on: components computed by the model -/
def searchMoleculesG (n : Nat) (pairs : List (Nat × Nat)) (req : ReqSize) (default : Option (List Int)) :
    Except String (List Int) :=
  searchMolecules n (componentsOf n pairs) req default

end RI
