import QModel.Machine
/-!
# C04 — the calculator layer on top of the M-machine

Models ASE's `Calculator.get_property` protocol (`check_state` → on change `reset()` → `calculate()` which stores
`atoms.copy()` and counts one evaluation), three calculator styles, and what the drivers do to the calculator:

* `criteria.evaluate` → `atoms.get_potential_energy()`;
* `context.save_state()` → `last_potential_energy = atoms.get_potential_energy()`, `last_results = calc.results`;
* `Context.revert_state()` → `calc.results = last_results`; `Canonical.revert_state` → `calc.atoms.positions = …`;
  `Isobaric.revert_state` → `calc.atoms.cell = …`; `GrandCanonical.revert_state` → `calc.atoms = atoms.copy()`,
  `calc.results = last_results.copy()`;
* the logger reading `atoms.get_potential_energy()` after every step.

The energy is an arbitrary function of the fields ASE compares (`positions`, `numbers`, `cell`), instantiated in the
driver by the harness calculator's integer-exact expression.
-/
namespace MC
open MM

inductive CStyle | stateless | caching | perAtom
deriving DecidableEq, Repr

structure CalcS where
  style : CStyle
  snap : Option AtomsS := none      -- `calc.atoms`
  results : Option Int := none      -- `calc.results.get("energy")`
  evals : Nat := 0
  stateSize : Option Nat := none    -- size of the per-atom internal state (style `perAtom`)
  broken : Bool := false            -- a `calculate` ran with a per-atom state of the wrong size (the real one raises)
deriving Repr

/-- the harness calculator's energy: Σ |r|² + tr(cell) -/
def energy (a : AtomsS) : Int :=
  (a.rows.map (fun r => r.pos.1 * r.pos.1 + r.pos.2.1 * r.pos.2.1 + r.pos.2.2 * r.pos.2.2)).sum
    + a.cell.1 + a.cell.2.1 + a.cell.2.2

def numbersOf (a : AtomsS) : List Int := a.rows.map (fun r => r.aux.headD 0)

/-- `compare_atoms(calc.atoms, atoms)`: (something changed, `numbers` among the changes) -/
def changes (snap : Option AtomsS) (a : AtomsS) : Bool × Bool :=
  match snap with
  | none => (true, true)
  | some sn =>
    if sn.rows.length ≠ a.rows.length then (true, true)
    else
      let nums := decide (numbersOf sn ≠ numbersOf a)
      (decide (positions sn.rows ≠ positions a.rows) || nums || decide (sn.cell ≠ a.cell)
        || decide (sn.rows.map (·.aux) ≠ a.rows.map (·.aux)), nums)

/-- `atoms.get_potential_energy()` -/
def getEnergy (c : CalcS) (a : AtomsS) : Int × CalcS :=
  let ch := if c.style = .stateless then (true, true) else changes c.snap a
  let c1 := if ch.1 then { c with snap := none, results := none } else c      -- reset()
  match c1.results with
  | some e => (e, c1)
  | none =>
    let n := a.rows.length
    let size := if c1.style = .perAtom then (if ch.2 || c1.stateSize.isNone then some n else c1.stateSize) else c1.stateSize
    let bad := c1.style = .perAtom && size != some n
    (energy a, { c1 with snap := some a, results := some (energy a), evals := c1.evals + 1,
                         stateSize := size, broken := c1.broken || bad })

structure CState where
  m : State
  cal : CalcS
  lastE : Int := 0
  lastResults : Option Int := none
deriving Repr

/-- what `revert_state` does to the calculator, per ensemble -/
def revertCalc (ens : Ensemble) (c : CalcS) (lastResults : Option Int) (a : AtomsS) : CalcS :=
  match ens with
  | .base => { c with results := lastResults }
  | .canonical | .hamiltonian =>
    { c with results := lastResults,
             snap := c.snap.map (fun sn => { sn with rows := setPositions sn.rows (positions a.rows) }) }
  | .isobaric =>
    { c with results := lastResults,
             snap := c.snap.map (fun sn => { sn with rows := setPositions sn.rows (positions a.rows), cell := a.cell }) }
  | .grand => { c with results := lastResults, snap := some a }

/-- `validate_simulation()` -/
def cvalidate (sim : Sim) (cs : CState) : CState :=
  let m := validate sim cs.m
  let (e, c1) := getEnergy cs.cal m.atoms
  { m := m, cal := c1, lastE := e, lastResults := c1.results }

/-- one trial of `MonteCarlo.step` with the calculator -/
def ctrial (sim : Sim) (t : Tree) (v : Bool) (cs : CState) : Outcome × CState :=
  let (ok, s1) := callTree t cs.m
  if ok then
    let c1 := (getEnergy cs.cal s1.atoms).2                      -- criteria.evaluate
    if v then
      let r := getEnergy c1 s1.atoms                              -- context.save_state (cached)
      (.accepted, { m := saveState sim s1, cal := r.2, lastE := r.1, lastResults := r.2.results })
    else
      let m2 := revertState sim s1
      (.rejected, { cs with m := m2, cal := revertCalc sim.ens c1 cs.lastResults m2.atoms })
  else (.failed, { cs with m := s1 })

/-- the logger's read after a step -/
def logRead (cs : CState) : Int × CState :=
  let r := getEnergy cs.cal cs.m.atoms
  (r.1, { cs with cal := r.2 })

end MC
