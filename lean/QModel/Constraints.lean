import QModel.Verlet
/-!
# Model of ASE's `FixAtoms` / `FixCom` and of the three kinds of trial that move atoms (C12)

ASE semantics (`ase/constraints.py`, `ase/atoms.py`), generic over `[Num α]`:

* `FixAtoms.adjust_positions(atoms, new)`: `new[index] = atoms.positions[index]`;
  `adjust_momenta` = `adjust_forces`: `x[index] = 0.0`;
* `FixCom.adjust_positions`: `new += old_cm − new_cm` (mass weighted);
  `adjust_momenta`: `p −= m · (Σp / Σm)`; `adjust_forces`: `f −= m · (m @ f / Σ m²)`;

and their use by quansino:

* `DisplacementMove.attempt_displacement` (`moves/displacement.py`): `set_positions(positions + translation,
  apply_constraint=self.apply_constraints)`, veto → `atoms.positions = old_positions`;
* `CompositeDisplacementMove.__call__`: the elementary moves one after the other;
* `MonteCarlo.step` + `Canonical.save_state/revert_state` (accepted: `last_positions = positions`; rejected:
  `atoms.positions = last_positions`);
* `HamiltonianDisplacementMove` + `Verlet.integrate` (model in `QModel/Verlet.lean`);
* `ForceBias.step` (`mc/fbmc.py`): `set_momenta(m·disp)`; `get_momenta()/m`; `set_positions(positions + …)`.

One constraint kind at a time (ASE applies a list of constraints sequentially; `FixAtoms` followed by `FixCom`
moves the "fixed" atom — ASE behaviour, outside the property).
-/

namespace Constr
open VecFn Verlet

variable {α : Type} [Num α] {n : Nat}

/-- `ase.constraints.FixAtoms(mask=fixed)` -/
def fixAtoms (fixed : Fin n → Bool) : Cons n α where
  adjPos old new := Arr.tab fun i k => if fixed i then old i k else new i k
  adjMom _ p := Arr.tab fun i k => if fixed i then Num.zero else p i k
  adjFor _ f := Arr.tab fun i k => if fixed i then Num.zero else f i k

/-- `atoms.get_center_of_mass()` = `masses @ positions / masses.sum()` -/
def com (m : Col n α) (q : Arr n α) : V3 α :=
  let M := sumFin m
  ⟨sumFin (fun i => m i * q i 0) / M, sumFin (fun i => m i * q i 1) / M, sumFin (fun i => m i * q i 2) / M⟩

/-- `ase.constraints.FixCom()` -/
def fixCom (m : Col n α) : Cons n α where
  adjPos old new :=
    let oldCm := com m old
    let newCm := com m new
    let diff : V3 α := ⟨oldCm.x - newCm.x, oldCm.y - newCm.y, oldCm.z - newCm.z⟩
    Arr.tab fun i k => new i k + diff.get k
  adjMom _ p :=
    let M := sumFin m
    let vcom : V3 α := ⟨sumFin (fun i => p i 0) / M, sumFin (fun i => p i 1) / M, sumFin (fun i => p i 2) / M⟩
    Arr.tab fun i k => p i k - m i * vcom.get k
  adjFor _ f :=
    let d := sumFin (fun i => m i * m i)
    let lmd : V3 α := ⟨sumFin (fun i => m i * f i 0) / d, sumFin (fun i => m i * f i 1) / d,
      sumFin (fun i => m i * f i 2) / d⟩
    Arr.tab fun i k => f i k - m i * lmd.get k

/-! ## trials -/

/-- atoms (`q`, `p`) and the saved copies of the context (`last_positions`, `last_momenta`) -/
structure Sys (n : Nat) (α : Type) where
  q : Arr n α
  p : Arr n α
  lastQ : Arr n α
  lastP : Arr n α

/-- `for _ in range(self.max_attempts)` of `DisplacementMove.attempt_displacement`; `ts` = the successive
    full `translation` arrays (zero outside the moving rows — whatever the operation returned), `checks` =
    successive `check_move` verdicts (default `True`), `old` = `old_positions`, `q` = current positions -/
def dispLoop (c : Cons n α) (apply : Bool) (old : Arr n α) :
    Nat → List (Arr n α) → List Bool → Arr n α → Bool × Arr n α
  | 0, _, _, q => (false, q)
  | k + 1, ts, checks, q =>
    let t := ts.headD Arr.zero
    -- atoms.set_positions(atoms.positions + translation, apply_constraint=self.apply_constraints)
    let q1 := Tab.get (setPositions c apply q (fun i a => q i a + t i a))
    if checks.headD true then (true, q1)
    else dispLoop c apply old k ts.tail checks.tail old      -- atoms.positions = old_positions

/-- one elementary `DisplacementMove` call: translations, verdicts and `max_attempts` -/
structure Elem (n : Nat) (α : Type) where
  ts : List (Arr n α)
  checks : List Bool
  maxAttempts : Nat

/-- `DisplacementMove.attempt_displacement(context)` -/
def dispAttempt (c : Cons n α) (apply : Bool) (e : Elem n α) (q : Arr n α) : Bool × Arr n α :=
  dispLoop c apply q e.maxAttempts e.ts e.checks q

/-- `CompositeDisplacementMove.__call__` (a single move is a one-element list): every element is attempted
    in turn on the positions the previous ones left; success = at least one succeeded -/
def dispComposite (c : Cons n α) (apply : Bool) : List (Elem n α) → Arr n α → Bool × Arr n α
  | [], q => (false, q)
  | e :: es, q =>
    let r := dispAttempt c apply e q
    let r' := dispComposite c apply es r.2
    (r.1 || r'.1, r'.2)

/-- what can happen between two observations of the atoms -/
inductive Trial (n : Nat) (α : Type) where
  /-- `Canonical.step` with a displacement (or composite displacement) move and the criteria verdict -/
  | disp (moves : List (Elem n α)) (accept : Bool)
  /-- `HamiltonianCanonical.step` with `HamiltonianDisplacementMove(Verlet(dt, steps))` -/
  | ham (dt : α) (steps : Nat) (kT ndof : α) (forced : Bool) (maxAttempts : Nat) (zs : List (Arr n α))
      (checks : List Bool) (accept : Bool)
  /-- `ForceBias.step` with the raw `displacement` array (any delta, temperature, zeta) and the driver's own mass
      table `shaped_masses` (any (n, 3) table: `update_masses`, or the atoms' masses at construction) -/
  | fb (disp : Arr n α) (shaped : Arr n α)

/-- `MonteCarlo.step` for one selected move: `if move(context): accepted → save_state, rejected →
    revert_state`; `ForceBias.step` for `fb`.  `apply` = the moves' `apply_constraints` flag. -/
def runTrial (c : Cons n α) (apply : Bool) (F : Arr n α → Arr n α) (m : Col n α) :
    Trial n α → Sys n α → Sys n α
  | .disp moves accept, s =>
    let r := dispComposite c apply moves s.q
    if r.1 then
      if accept then { s with q := r.2, lastQ := r.2 }          -- context.save_state()
      else { s with q := s.lastQ }                               -- context.revert_state()
    else { s with q := r.2 }
  | .ham dt steps kT ndof forced maxAttempts zs checks accept, s =>
    let g : HCfg n α := ⟨c, apply, F, m, dt, steps, kT, ndof, forced⟩
    let r := attemptDisplacement g true maxAttempts zs checks ⟨s.q, s.p, Num.zero, s.q, s.q⟩
    if r.1 then
      if accept then { q := r.2.q, p := r.2.p, lastQ := r.2.q, lastP := r.2.p }
      else { s with q := s.lastQ, p := s.lastP }
    else { s with q := r.2.q, p := r.2.p }
  | .fb disp shaped, s =>
    -- self.atoms.set_momenta(self.shaped_masses * displacement)
    let p' := Tab.get (setMomenta c true s.q (fun i k => shaped i k * disp i k))
    -- corrected_displacement = self.atoms.get_momenta() / self.shaped_masses
    -- self.atoms.set_positions(positions + corrected_displacement)
    let q' := Tab.get (setPositions c true s.q (fun i k => s.q i k + p' i k / shaped i k))
    { s with q := q', p := p' }

/-- a history of trials -/
def runHistory (c : Cons n α) (apply : Bool) (F : Arr n α → Arr n α) (m : Col n α)
    (h : List (Trial n α)) (s : Sys n α) : Sys n α :=
  h.foldl (fun s t => runTrial c apply F m t s) s

end Constr
