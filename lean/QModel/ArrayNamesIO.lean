import QModel.ArrayNames

/-!
`arrn <names> <op>*` with `<names>` = comma-separated array names (`-` for none) and ops `I:<names>:<0|1>` (an insertion of a
species with these arrays, placement succeeded or vetoed), `R` (`revert_state`), `S` (`save_state`).
Answer: after every op the system's array names joined by `,` (ops separated by blanks), then `saved=<names|none>`.
-/
namespace ArrN.IO

def parseNames (s : String) : List String := if s == "-" then [] else s.splitOn ","
def showNames (l : List String) : String := if l.isEmpty then "-" else ",".intercalate l

def runOps : St → List String → List String → Option (St × List String)
  | s, [], out => some (s, out.reverse)
  | s, op :: rest, out =>
    match op.splitOn ":" with
    | ["I", names, "1"] => let s1 := (attemptAddition s (parseNames names) true).2; runOps s1 rest (showNames s1.sys :: out)
    | ["I", names, "0"] => let s1 := (attemptAddition s (parseNames names) false).2; runOps s1 rest (showNames s1.sys :: out)
    | ["R"] => let s1 := revert s; runOps s1 rest (showNames s1.sys :: out)
    | ["S"] => let s1 := save s; runOps s1 rest (showNames s1.sys :: out)
    | _ => none

def handle : List String → String
  | "arrn" :: names :: ops =>
    match runOps { sys := parseNames names } ops [] with
    | some (s, out) => " ".intercalate (out ++ ["saved=" ++ (match s.saved with | some k => showNames k | none => "none")])
    | none => "bad-op"
  | _ => "bad-op"

end ArrN.IO
