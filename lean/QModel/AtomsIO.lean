import QModel.Atoms
import QModel.Graph
import QModel.Proto
/-!
Protocol handler for `QModel/Atoms.lean`.

rows   : `-` (no rows) or rows separated by `;`, each row a comma-separated Int list      e.g. `1,2,3;4,5,6`
col    : `name/dtype/shape/rows`, dtype `f|i|b`, shape `-` (scalar) or dims joined by `x`   e.g. `momenta/f/3/1,2,3;4,5,6`
idx    : Int list (`-` = empty)

* `ri.delete rows idx` / `ri.pick rows idx`             → `ok rows`       (idx: Nat list)
* `ri.reinsert kept taken idx`                          → `ok rows` | `err E`   (numpy-checked)
* `at.del idx col*` / `at.pick idx col*`                → `ok col*` | `err E`
* `at.reins idx dm nk col*`  (first `nk` cols = atoms, rest = new_atoms; `dm` = default masses of new_atoms) → `ok col*` | `err E`
* `at.rt idx dm col*`  (`t = a[idx]; del a[idx]; reinsert_atoms(a, t, idx)`)  → `ok col*` | `err E`
* `mol n comps req default`  (comps = rows; req `N` | `I:k` | `P:lo:hi`; default `N` | Int list) → `ok labels` | `err E`
* `molg n pairs req default`  (pairs = `-` or `i:j,i:j,…` bonded pairs, components computed by `componentsOf`; rest as `mol`)
-/
namespace RI

def parseRows (s : String) : Option (List (List Int)) :=
  if s = "-" then some [] else (s.splitOn ";").mapM Proto.intList

def parseNatRows (s : String) : Option (List (List Nat)) :=
  if s = "-" then some [] else (s.splitOn ";").mapM Proto.natList

def showRows (l : List (List Int)) : String :=
  if l.isEmpty then "-" else ";".intercalate (l.map Proto.showInts)

def parseDType : String → Option DType
  | "f" => some .f8 | "i" => some .i8 | "b" => some .b1 | _ => none

def showDType : DType → String
  | .f8 => "f" | .i8 => "i" | .b1 => "b"

def parseShape (s : String) : Option (List Nat) :=
  if s = "-" then some [] else (s.splitOn "x").mapM String.toNat?

def showShape (l : List Nat) : String :=
  if l.isEmpty then "-" else "x".intercalate (l.map toString)

def parseCol (s : String) : Option Col :=
  match s.splitOn "/" with
  | [n, d, sh, r] => do
    let d ← parseDType d
    let sh ← parseShape sh
    let r ← parseRows r
    pure { name := n, dtype := d, shape := sh, rows := r }
  | _ => none

def showCol (c : Col) : String := s!"{c.name}/{showDType c.dtype}/{showShape c.shape}/{showRows c.rows}"

def showAtoms (r : Except String Atoms) : String :=
  match r with
  | .ok a => if a.isEmpty then "ok" else "ok " ++ " ".intercalate (a.map showCol)
  | .error e => s!"err {e}"

def parseReq (s : String) : Option ReqSize :=
  match s.splitOn ":" with
  | ["N"] => some .all
  | ["I", k] => k.toInt?.map .exact
  | ["P", lo, hi] => do pure (.between (← lo.toInt?) (← hi.toInt?))
  | _ => none

def parsePairs (s : String) : Option (List (Nat × Nat)) :=
  if s = "-" then some [] else
    (s.splitOn ",").mapM fun t =>
      match t.splitOn ":" with
      | [a, b] => do pure ((← a.toNat?), (← b.toNat?))
      | _ => none

def handle : List String → String
  | ["ri.delete", rows, idx] =>
    match parseRows rows, Proto.natList idx with
    | some r, some i => s!"ok {showRows (delete r i)}"
    | _, _ => "bad-op"
  | ["ri.pick", rows, idx] =>
    match parseRows rows, Proto.natList idx with
    | some r, some i => s!"ok {showRows (pick r i)}"
    | _, _ => "bad-op"
  | ["ri.reinsert", kept, taken, idx] =>
    match parseRows kept, parseRows taken, Proto.natList idx with
    | some k, some t, some i =>
      match reinsertChecked k t i with
      | .ok r => s!"ok {showRows r}"
      | .error e => s!"err {e}"
    | _, _, _ => "bad-op"
  | "at.del" :: idx :: cols =>
    match Proto.intList idx, cols.mapM parseCol with
    | some i, some a => showAtoms (delAtoms a i)
    | _, _ => "bad-op"
  | "at.pick" :: idx :: cols =>
    match Proto.intList idx, cols.mapM parseCol with
    | some i, some a => showAtoms (pickAtoms a i)
    | _, _ => "bad-op"
  | "at.reins" :: idx :: dm :: nk :: cols =>
    match Proto.intList idx, Proto.intList dm, nk.toNat?, cols.mapM parseCol with
    | some i, some dm, some nk, some a => showAtoms (reinsertAtoms (a.take nk) (a.drop nk) i dm)
    | _, _, _, _ => "bad-op"
  | "at.rt" :: idx :: dm :: cols =>
    match Proto.intList idx, Proto.intList dm, cols.mapM parseCol with
    | some i, some dm, some a =>
      showAtoms (match pickAtoms a i with
        | .error e => .error e
        | .ok t =>
          match delAtoms a i with
          | .error e => .error e
          | .ok k => reinsertAtoms k t i dm)
    | _, _, _ => "bad-op"
  | ["mol", n, comps, req, dflt] =>
    match n.toNat?, parseNatRows comps, parseReq req,
          (if dflt = "N" then some none else (Proto.intList dflt).map some) with
    | some n, some c, some r, some d =>
      match searchMolecules n c r d with
      | .ok l => s!"ok {Proto.showInts l}"
      | .error e => s!"err {e}"
    | _, _, _, _ => "bad-op"
  | ["molg", n, pairs, req, dflt] =>
    match n.toNat?, parsePairs pairs, parseReq req,
          (if dflt = "N" then some none else (Proto.intList dflt).map some) with
    | some n, some p, some r, some d =>
      match searchMoleculesG n p r d with
      | .ok l => s!"ok {Proto.showInts l}"
      | .error e => s!"err {e}"
    | _, _, _, _ => "bad-op"
  | _ => "bad-op"

end RI
