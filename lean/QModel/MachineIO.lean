import QModel.Machine
import QModel.Proto
/-!
Line protocol of the M-machine: one whole case per line, one snapshot per trial in the answer.

```
mm <ens> A <cell> <fixed> <rows> T <template rows> N <nExch> M <lastMom flat> H <obj> … E <name>=<oid>=<tree> … R <trial> …
```
ints inside a field are `:`-separated; rows are `;`-separated (`-` = empty list, `n` = None).
-/
namespace MM

def ints (s : String) : Option (List Int) :=
  if s = "-" then some [] else (s.splitOn ":").mapM String.toInt?

def nats (s : String) : Option (List Nat) :=
  if s = "-" then some [] else (s.splitOn ":").mapM String.toNat?

def optInt (s : String) : Option (Option Int) :=
  if s = "n" then some none else s.toInt?.map some

def v3OfList : List Int → Option V3
  | [a, b, c] => some (a, b, c)
  | _ => none

def v3s : List Int → Option (List V3)
  | [] => some []
  | a :: b :: c :: rest => (v3s rest).map (fun l => (a, b, c) :: l)
  | _ => none

def rowOf (s : String) : Option Row := do
  let l ← ints s
  match l with
  | px :: py :: pz :: mx :: my :: mz :: aux => some { pos := (px, py, pz), mom := (mx, my, mz), aux := aux }
  | _ => none

def rowsOf (s : String) : Option (List Row) :=
  if s = "-" then some [] else (s.splitOn ";").mapM rowOf

def kindOf : String → Option Kind
  | "D" => some .disp | "X" => some .exch | "C" => some .cell | "H" => some .ham | "U" => some .user | _ => none

def boolOf : String → Option Bool
  | "1" => some true | "0" => some false | _ => none

/-- `kind,labels,default,bias,maxAttempts,applyC,scale,userResult` -/
def objOf (s : String) : Option MoveObj :=
  match s.splitOn "," with
  | [k, labels, dflt, bias, ma, ac, sc, ur] => do
    pure { kind := ← kindOf k, labels := ← ints labels, defaultLabel := ← optInt dflt, bias := ← bias.toNat?,
           maxAttempts := ← ma.toNat?, applyConstraints := ← boolOf ac, scaleAtoms := ← boolOf sc,
           userResult := ← boolOf ur }
  | _ => none

def treeOf (s : String) : Option Tree :=
  match s.toList with
  | 'L' :: rest => (String.ofList rest).toNat?.map .leaf
  | 'D' :: rest => (nats (String.ofList rest)).map .compDisp
  | 'P' :: rest => (nats (String.ofList rest)).map .plain
  | 'X' :: rest =>
    match nats (String.ofList rest) with
    | some (b :: rs) => some (.compExch rs b)
    | _ => none
  | _ => none

def entryOf (s : String) : Option Entry :=
  match s.splitOn "=" with
  | [n, oid, t] => do pure { name := n, oid := ← oid.toNat?, tree := ← treeOf t }
  | _ => none

def ensOf : String → Option Ensemble
  | "base" => some .base | "canonical" => some .canonical | "hamiltonian" => some .hamiltonian
  | "isobaric" => some .isobaric | "grand" => some .grand | _ => none

inductive Presel
  | displace (r : Nat) (l : Int)
  | delete (r : Nat) (l : Int)
  | add (r : Nat)
  | addTwice (r : Nat)      -- `to_add_atoms` = a species of another size than the template (two copies of it)

def preselOf (s : String) : Option (List Presel) :=
  if s = "-" then some [] else
  (s.splitOn "+").mapM fun p =>
    match p.splitOn "/" with
    | [r, "D", l] => do pure (.displace (← r.toNat?) (← l.toInt?))
    | [r, "X", l] => do pure (.delete (← r.toNat?) (← l.toInt?))
    | [r, "A"] => do pure (.add (← r.toNat?))
    | [r, "B"] => do pure (.addTwice (← r.toNat?))
    | _ => none

structure TrialIn where
  name : String
  verdict : Bool
  inp : Inputs
  pre : List Presel

/-- `name,verdict,draws,ops,checks,presel` -/
def trialOf (s : String) : Option TrialIn :=
  match s.splitOn "," with
  | [n, v, d, o, c, p] => do
    let ops ← v3s (← ints o)
    let checks ← (← nats c).mapM (fun x => if x = 1 then some true else if x = 0 then some false else none)
    pure { name := n, verdict := ← boolOf v, inp := { draws := ← nats d, ops := ops, checks := checks }, pre := ← preselOf p }
  | _ => none

/-! canonical snapshot -/

def sInts (l : List Int) : String := if l.isEmpty then "-" else ":".intercalate (l.map toString)
def sNats (l : List Nat) : String := if l.isEmpty then "-" else ":".intercalate (l.map toString)
def sV3 (v : V3) : String := s!"{v.1}:{v.2.1}:{v.2.2}"
def sV3s (l : List V3) : String := if l.isEmpty then "-" else ":".intercalate (l.map sV3)
def sRow (r : Row) : String := sInts ([r.pos.1, r.pos.2.1, r.pos.2.2, r.mom.1, r.mom.2.1, r.mom.2.2] ++ r.aux)
def sRows (l : List Row) : String := if l.isEmpty then "-" else ";".intercalate (l.map sRow)
def sOpt (o : Option Int) : String := match o with | none => "n" | some x => toString x
def sFixed (o : Option (List Nat)) : String := match o with | none => "none" | some l => sNats l

def sObj (m : MoveObj) : String :=
  if labelBearing m.kind then
    s!"{sInts m.labels}/{sOpt m.toDisplace}/{sOpt m.displaced}/{sOpt m.toDelete}/{if m.toAdd.isSome then "A" else "n"}"
  else "-"

def sOutcome : Outcome → String
  | .accepted => "T" | .rejected => "F" | .failed => "N"

def snapshot (o : Outcome) (s : State) : String :=
  let c := s.ctx
  s!"{sOutcome o} c={sV3 s.atoms.cell} f={sFixed s.atoms.fixed} r={sRows s.atoms.rows} " ++
  s!"h={";".intercalate (s.heap.map sObj)} " ++
  s!"x={sV3s c.lastPos}|{sV3 c.lastCell}|{sV3s c.lastMom}|{sNats c.addedIdx}|{sNats c.deletedIdx}|{c.delta}|{c.nExch} " ++
  s!"t={sRows c.template}"

def applyPresel (s : State) : List Presel → State
  | [] => s
  | .displace r l :: ps => applyPresel (s.setObj r { s.obj r with toDisplace := some l }) ps
  | .delete r l :: ps => applyPresel (s.setObj r { s.obj r with toDelete := some l }) ps
  | .add r :: ps => applyPresel (s.setObj r { s.obj r with toAdd := some s.ctx.template }) ps
  | .addTwice r :: ps => applyPresel (s.setObj r { s.obj r with toAdd := some (s.ctx.template ++ s.ctx.template) }) ps

/-- decode the user's edit of a `!run` event -/
def runEdit (inp : Inputs) : List V3 × Option V3 :=
  if inp.draws.isEmpty then (inp.ops, none) else (inp.ops.dropLast, inp.ops.getLast?)

/-- `!runm`: first half of the ops = positions, second half = momenta (no cell) -/
def runEditM (inp : Inputs) : List V3 × List V3 :=
  (inp.ops.take (inp.ops.length / 2), inp.ops.drop (inp.ops.length / 2))

def runTrials (sim : Sim) : List TrialIn → State → List String → List String
  | [], _, acc => acc.reverse
  | t :: ts, s, acc =>
    if t.name = "!runm" then
      let (pos, mom) := runEditM t.inp
      let s1 := newRunM sim s pos mom none
      runTrials sim ts s1 (("U" ++ (snapshot .accepted s1).drop 1) :: acc)
    else
    if t.name = "!run" then
      -- a run boundary: the user's edit (new positions = the ops; with a draw, the last op is the new cell), then
      -- `validate_simulation()`
      let (pos, cell) := runEdit t.inp
      let s1 := newRun sim s pos cell
      runTrials sim ts s1 (("U" ++ (snapshot .accepted s1).drop 1) :: acc)
    else
    match sim.table.find? (fun e => e.name = t.name) with
    | none => (("unknown-move " ++ t.name) :: acc).reverse
    | some e =>
      let s0 := applyPresel { s with inp := t.inp } t.pre
      let (o, s1) := trial sim e.tree t.verdict s0
      runTrials sim ts s1 (snapshot o s1 :: acc)

/-- split a token list at single-letter section markers -/
def sect (ws : List String) (tag : String) (stop : List String) : List String :=
  ((ws.dropWhile (· ≠ tag)).drop 1).takeWhile (fun w => !stop.contains w)

/-- parse `<ens> A … T … N … M … H … E … R …` into the simulation, its validated initial state and the trials -/
def parseCase (ens : String) (rest : List String) : Option (Sim × State × List TrialIn) := do
  let tags := ["A", "T", "N", "M", "H", "E", "R"]
  let ens ← ensOf ens
  let (cellS, fixedS, rowsS) ← match sect rest "A" tags with | [a, b, c] => some (a, b, c) | _ => none
  let cell ← v3OfList (← ints cellS)
  let fixed ← if fixedS = "none" then some none else (nats fixedS).map some
  let rows ← rowsOf rowsS
  let template ← match sect rest "T" tags with | [t] => rowsOf t | _ => none
  let nExch ← match sect rest "N" tags with | [n] => n.toInt? | _ => none
  let lastMom ← match sect rest "M" tags with | [m] => (ints m).bind v3s | _ => none
  let heap ← (sect rest "H" tags).mapM objOf
  let table ← (sect rest "E" tags).mapM entryOf
  let trials ← (sect rest "R" tags).mapM trialOf
  let sim : Sim := { ens := ens, table := table }
  let s0 : State := { atoms := { rows := rows, cell := cell, fixed := fixed }, heap := heap,
                      ctx := { template := template, nExch := nExch, lastMom := lastMom,
                               lastPos := if ens = .base then [] else positions rows,
                               lastCell := if ens = .isobaric then cell else V3.zero },
                      inp := {} }
  pure (sim, s0, trials)

def handle : List String → String
  | "mm" :: ens :: rest =>
    match parseCase ens rest with
    | some (sim, s0, trials) => " | ".intercalate (runTrials sim trials (validate sim s0) [])
    | none => "bad-op"
  | _ => "bad-op"

end MM
