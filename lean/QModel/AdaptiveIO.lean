import QModel.Adaptive
import QModel.Proto
/-!
Protocol of the C18 model (floats are 64-bit patterns, lists comma-separated, `-` = empty):

* `c18direct <tanh|exp> <min> <max> <ref> <S|A> <values>` — `update_delta` with the variation coefficient
  given (scalar `S`: one value; array `A`: the flattened `(N,3)` array)
  → `ok <S|A> <variation_coef> <delta>`
* `c18run <forces|energy> <tanh|exp> <min> <max> <ref> <natoms> nocalc`
* `c18run <forces|energy> <tanh|exp> <min> <max> <ref> <natoms> calc (fnone | f <K> <row>×K) (enone | e <energies>)`
  — `update_delta` through the real getters → `ok <S|A> <variation_coef> <delta>`
-/
namespace AFB

def parseFn : String → Option UpdateFn
  | "tanh" => some .tanh | "exp" => some .exp | _ => none

def parseScheme : String → Option Scheme
  | "forces" => some .forces | "energy" => some .energy | _ => none

def showValue : Value Float → String
  | .scalar x => s!"S {Proto.bitsOfFloat x}"
  | .array xs => s!"A {Proto.showFloats xs}"

def showPair (p : Value Float × Value Float) : String :=
  match p with
  | (.scalar v, .scalar d) => s!"ok S {Proto.bitsOfFloat v} {Proto.bitsOfFloat d}"
  | (.array v, .array d) => s!"ok A {Proto.showFloats v} {Proto.showFloats d}"
  | _ => "bad-op"

/-- `(fnone | f K row…) (enone | e list)` -/
def parseResults : List String → Option (Results Float)
  | "fnone" :: rest => parseE none rest
  | "f" :: k :: rest => do
      let k ← k.toNat?
      if rest.length < k then none else
      let rows ← (rest.take k).mapM Proto.floatList
      parseE (some rows) (rest.drop k)
  | _ => none
where
  parseE (fc : Option (List (List Float))) : List String → Option (Results Float)
    | ["enone"] => some { forcesComm := fc, energies := none }
    | ["e", es] => (Proto.floatList es).map (fun l => { forcesComm := fc, energies := some l })
    | _ => none

def handle : List String → String
  | ["c18direct", fn, dmin, dmax, ref, shape, vals] =>
    match parseFn fn, Proto.floatOfBits dmin, Proto.floatOfBits dmax, Proto.floatOfBits ref,
          Proto.floatList vals with
    | some fn, some dmin, some dmax, some ref, some vs =>
      let cfg : Config Float := { minDelta := dmin, maxDelta := dmax, ref := ref, scheme := .energy, fn := fn }
      match shape, vs with
      | "S", [v] => showPair (.scalar v, deltaOf cfg (.scalar v))
      | "A", vs => showPair (.array vs, deltaOf cfg (.array vs))
      | _, _ => "bad-op"
    | _, _, _, _, _ => "bad-op"
  | "c18run" :: scheme :: fn :: dmin :: dmax :: ref :: natoms :: rest =>
    match parseScheme scheme, parseFn fn, Proto.floatOfBits dmin, Proto.floatOfBits dmax,
          Proto.floatOfBits ref, natoms.toNat? with
    | some scheme, some fn, some dmin, some dmax, some ref, some natoms =>
      let cfg : Config Float := { minDelta := dmin, maxDelta := dmax, ref := ref, scheme := scheme, fn := fn }
      match rest with
      | ["nocalc"] => showPair (updateDelta cfg natoms none)
      | "calc" :: r =>
        match parseResults r with
        | some res => showPair (updateDelta cfg natoms (some res))
        | none => "bad-op"
      | _ => "bad-op"
    | _, _, _, _, _, _ => "bad-op"
  | _ => "bad-op"

end AFB
