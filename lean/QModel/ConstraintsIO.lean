import QModel.VerletIO
/-!
Line protocol of the constraint model (C12).  Parsers and token formats: see `QModel/VerletIO.lean`.

* `cadj n cons masses old new mom frc`     → `ok adjPos(old,new) adjMom(old,mom) adjFor(old,frc)`
* `fixrot n masses q p`                    → `ok omega p' L' ` (`L'` = angular momentum the code would compute after)
* `c12trial n cons apply masses q p lastQ lastP ff disp accept nelem {maxAttempts ts checks}*`
* `c12trial n cons apply masses q p lastQ lastP ff ham accept dt steps kT ndof forced maxAttempts zs checks`
* `c12trial n cons apply masses q p lastQ lastP ff fb disp shaped_masses`
                                            → `ok q p lastQ lastP`
-/
namespace Constr.IO
open VecFn Verlet Constr Verlet.IO

def parseElems (n : Nat) : Nat → List String → Option (List (Elem n Float))
  | 0, [] => some []
  | k + 1, ma :: ts :: checks :: rest => do
    let ma ← ma.toNat?
    let ts ← parseArrs n ts
    let checks ← parseChecks checks
    let es ← parseElems n k rest
    pure (⟨ts, checks, ma⟩ :: es)
  | _, _ => none

def parseTrial (n : Nat) : List String → Option (Trial n Float)
  | "disp" :: accept :: nelem :: rest => do
    let accept ← parseBool accept
    let nelem ← nelem.toNat?
    let es ← parseElems n nelem rest
    pure (.disp es accept)
  | ["ham", accept, dt, steps, kT, ndof, forced, maxAttempts, zs, checks] => do
    let accept ← parseBool accept
    let dt ← Proto.floatOfBits dt
    let steps ← steps.toNat?
    let kT ← Proto.floatOfBits kT
    let ndof ← ndof.toNat?
    let forced ← parseBool forced
    let maxAttempts ← maxAttempts.toNat?
    let zs ← parseArrs n zs
    let checks ← parseChecks checks
    pure (.ham dt steps kT (Num.ofNat ndof) forced maxAttempts zs checks accept)
  | ["fb", d, sh] => do
    let d ← parseArr n d
    let sh ← parseArr n sh
    pure (.fb d sh)
  | _ => none

def handle : List String → String
  | ["cadj", n, cons, masses, old, new, mom, frc] =>
    match n.toNat? with
    | none => "bad-op"
    | some n =>
      match (do
        let m ← parseCol n masses
        let c ← parseCons n m cons
        let old ← parseArr n old
        let new ← parseArr n new
        let mom ← parseArr n mom
        let frc ← parseArr n frc
        pure (Tab.get (c.adjPos old new), Tab.get (c.adjMom old mom), Tab.get (c.adjFor old frc))
          : Option (Arr n Float × Arr n Float × Arr n Float)) with
      | some (a, b, c) => s!"ok {showArr a} {showArr b} {showArr c}"
      | none => "bad-op"
  | ["fixrot", n, masses, q, p] =>
    match n.toNat? with
    | none => "bad-op"
    | some n =>
      match (do
        let m ← parseCol n masses
        let q ← parseArr n q
        let p ← parseArr n p
        let r := Tab.get (toComT m q)
        let w := omega m r p
        let p' := Tab.get (fixRotAdjustT m q p)
        let l := angularMomentum r p'
        pure ([w.x, w.y, w.z], p', [l.x, l.y, l.z]) : Option (List Float × Arr n Float × List Float)) with
      | some (w, p', l) => s!"ok {Proto.showFloats w} {showArr p'} {Proto.showFloats l}"
      | none => "bad-op"
  | "c12trial" :: n :: cons :: apply :: masses :: q :: p :: lastQ :: lastP :: ff :: rest =>
    match n.toNat? with
    | none => "bad-op"
    | some n =>
      match (do
        let m ← parseCol n masses
        let c ← parseCons n m cons
        let apply ← parseBool apply
        let q ← parseArr n q
        let p ← parseArr n p
        let lastQ ← parseArr n lastQ
        let lastP ← parseArr n lastP
        let F ← parseFF n ff
        let t ← parseTrial n rest
        pure (runTrial c apply F m t ⟨q, p, lastQ, lastP⟩) : Option (Sys n Float)) with
      | some s => s!"ok {showArr s.q} {showArr s.p} {showArr s.lastQ} {showArr s.lastP}"
      | none => "bad-op"
  | _ => "bad-op"

end Constr.IO
