/-! # Python import semantics on a module graph (property C08, "whichever public module is imported first")

Mirrors what CPython's import system does with the modules of one package (`importlib._bootstrap`:
`_find_and_load`, `_handle_fromlist`), as far as it decides *whether a first import succeeds*:

* executing a module = running its top-level statement list in order; the module is put into
  `sys.modules` *before* its body runs (so it can be found partially initialised);
* `import a.b.c` imports `a`, then `a.b`, then `a.b.c` (each one only if not yet in `sys.modules`), binds
  the sub-module in its parent when its body has finished, and binds `a` in the importing module;
* `from M import x` imports `M`; then `x` must be an attribute of `M` *now* (bound by a statement of `M`
  that already ran), or a sub-module `M.x` (which is then imported); otherwise `ImportError`
  ("cannot import name … from partially initialized module …");
* modules outside the graph (numpy, ase, the standard library) always import and provide every name.

The graph (`QGen.graph`) is regenerated from the `ast` of every file under `src/quansino` on every run
by `harness/gen_imports.py`; `if TYPE_CHECKING:` bodies and function-level imports are not executed at
import time and are dropped there.  Modules and names are numbered by the generator (module `i` is the
`i`-th entry of the graph; `QGen.moduleNames`/`QGen.identNames` give the spellings) so that the theorems
over the table are closed by kernel evaluation on `Nat`.  Core Lean only. -/
namespace PyImp

/-- a dotted module path as the import system walks it: the package modules among its prefixes, left to
    right (`a.b.c` ↦ ids of `a`, `a.b`, `a.b.c`); a path that leaves the package is the empty chain -/
abbrev Chain := List Nat

inductive Stmt
  /-- `import a.b.c [as x]`: walk the chain, bind name `x` in the importing module -/
  | imp (chain : Chain) (x : Nat)
  /-- `from M import n₁, …`: walk the chain to `M`; `target = none` when `M` is outside the package;
      each entry is (name looked up in `M`, id of the sub-module `M.nᵢ` if there is one, name bound
      in the importing module — different from the first for `import n as x`) -/
  | fromImp (chain : Chain) (target : Option Nat) (names : List (Nat × Option Nat × Nat))
  /-- `from M import *` -/
  | fromStar (chain : Chain) (target : Option Nat)
  /-- def / class / assignment: binds a name -/
  | bind (x : Nat)
deriving DecidableEq, Repr

structure Module where
  /-- parent package id and the name under which this module is bound in it -/
  parent : Option (Nat × Nat)
  body : List Stmt
deriving Repr

abbrev Graph := List Module

/-- interpreter state: `sys.modules` (ids, newest first; `true` = body finished) and, per module id, the
    names bound so far -/
structure St where
  mods : List (Nat × Bool) := []
  bound : List (Nat × Nat) := []     -- (module, name) pairs
deriving Repr

def St.has (s : St) (m : Nat) : Bool := s.mods.any (fun p => p.1 == m)
def St.isBound (s : St) (m x : Nat) : Bool := s.bound.any (fun p => p.1 == m && p.2 == x)
def St.bindName (s : St) (m x : Nat) : St := { s with bound := (m, x) :: s.bound }
def St.names (s : St) (m : Nat) : List Nat := (s.bound.filter (fun p => p.1 == m)).map (·.2)
def St.enter (s : St) (m : Nat) : St := { s with mods := (m, false) :: s.mods }
def St.finish (s : St) (m : Nat) : St :=
  { s with mods := s.mods.map (fun p => if p.1 == m then (p.1, true) else p) }

inductive Err
  /-- `from M import x` while `M` is partially initialised and `x` not yet bound: (importing module, x, M) -/
  | importError (inModule name fromModule : Nat)
  | fuel
  | badGraph
deriving DecidableEq, Repr

/-- one statement of module `p`, given the function that imports one module of the package by id -/
def execStmt (imp1 : Nat → St → Except Err St) (p : Nat) (s : Stmt) (st : St) : Except Err St :=
  match s with
  | .bind x => .ok (st.bindName p x)
  | .imp chain x => do
      let st ← chain.foldlM (fun acc m => imp1 m acc) st
      pure (st.bindName p x)
  | .fromStar chain target => do
      let st ← chain.foldlM (fun acc m => imp1 m acc) st
      match target with
      | none => pure st
      | some m => pure ((st.names m).foldl (fun acc x => acc.bindName p x) st)
  | .fromImp chain target names => do
      let st ← chain.foldlM (fun acc m => imp1 m acc) st
      match target with
      | none => pure (names.foldl (fun acc nx => acc.bindName p nx.2.2) st)   -- external: has every name
      | some m =>
        names.foldlM (fun acc nx =>
          if acc.isBound m nx.1 then pure (acc.bindName p nx.2.2)
          else match nx.2.1 with
            | some sub => do
                let acc ← imp1 sub acc
                pure (acc.bindName p nx.2.2)
            | none => .error (.importError p nx.1 m)) st

/-- import one module of the package (if it is not in `sys.modules` yet): enter it, run its body, mark
    it loaded, bind it in its parent.  Fuel bounds the nesting depth of imports. -/
def importMod : Nat → Graph → Nat → St → Except Err St
  | 0, _, _, _ => .error .fuel
  | fuel + 1, g, m, st =>
    if st.has m then .ok st
    else match g[m]? with
      | none => .error .badGraph
      | some md => do
          let st ← md.body.foldlM (fun acc s => execStmt (importMod fuel g) m s acc) (st.enter m)
          let st := st.finish m
          pure (match md.parent with
            | some (par, x) => st.bindName par x
            | none => st)

def importChain (g : Graph) (chain : Chain) (st : St) : Except Err St :=
  chain.foldlM (fun acc m => importMod (g.length + 1) g m acc) st

/-- a fresh interpreter imports the module with the given chain first -/
def importFirst (g : Graph) (chain : Chain) : Except Err Unit :=
  match importChain g chain {} with
  | .ok _ => .ok ()
  | .error e => .error e

instance : DecidableEq (Except Err Unit)
  | .ok (), .ok () => isTrue rfl
  | .error a, .error b => if h : a = b then isTrue (by rw [h]) else isFalse (by intro e; cases e; exact h rfl)
  | .ok (), .error _ => isFalse (by intro e; cases e)
  | .error _, .ok () => isFalse (by intro e; cases e)

def importOk (g : Graph) (chain : Chain) : Bool :=
  match importFirst g chain with | .ok _ => true | .error _ => false

/-- after a fresh interpreter imported `first` and then `then_`, is `x` bound in module `owner`? -/
def boundAfter (g : Graph) (first : Chain) (then_ : List Chain) (owner x : Nat) : Bool :=
  match (first :: then_).foldlM (fun st c => importChain g c st) ({} : St) with
  | .ok st => st.isBound owner x
  | .error _ => false

/-- the registry after a fresh interpreter imported `first` and then `then_`: every module whose body has FINISHED has
    run its registration statements (`regs` = per module the ids of the names it registers); empty when an import fails -/
def registeredAfter (g : Graph) (regs : List (List Nat)) (first : Chain) (then_ : List Chain) : List Nat :=
  match (first :: then_).foldlM (fun st c => importChain g c st) ({} : St) with
  | .ok st => (st.mods.filter (·.2)).flatMap (fun p => regs.getD p.1 [])
  | .error _ => []

end PyImp
