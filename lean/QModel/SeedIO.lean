import QModel.Seed
import QModel.MachineIO
/-!
Line protocol of the seed model (C06).

```
seed    raw|fixed <n|none> <fresh>             -> ok <effective seed>
seedrt  raw|fixed <n|none> <fresh> <fresh'>    -> ok <seed after to_dict/from_dict>
seedrun <ens> A <cell> <fixed> <rows> T <template> N <nExch> M <lastMom> H <obj> … E <entry> …
        S <threshold> <steps> <draws> <ops> <checks>
                                               -> <name>,<snapshot> | … one per step (`MM.snapshot`, see MachineIO)
```
The case part of `seedrun` is the `mm` case of `MachineIO.lean`; `S` carries the whole run's stream: the criterion
accepts iff its draw is `< threshold` (draws are in 1/1000).
-/
namespace Seed

def optNat (s : String) : Option (Option Nat) :=
  if s = "none" then some none else s.toNat?.map some

def ctorOf : String → Option (Option Nat → Nat → Nat)
  | "raw" => some effectiveSeedRaw
  | "fixed" => some effectiveSeed
  | _ => none

def sMoved : Option (String × MM.Outcome) → String × MM.Outcome
  | some p => p
  | none => ("-", .failed)

/-- the run, rendered: one `name,snapshot` per step -/
def runSnap (cfg : Config) : Nat → MM.State → List String → List String
  | 0, _, acc => acc.reverse
  | n + 1, s, acc =>
    let r := step cfg s
    let (name, o) := sMoved r.1.moved
    runSnap cfg n r.2 ((name ++ "," ++ MM.snapshot o r.2) :: acc)

def handle : List String → String
  | ["seed", which, seed, fresh] =>
    match ctorOf which, optNat seed, fresh.toNat? with
    | some f, some s, some fr => s!"ok {f s fr}"
    | _, _, _ => "bad-op"
  | ["seedrt", which, seed, fresh, fresh'] =>
    match ctorOf which, optNat seed, fresh.toNat?, fresh'.toNat? with
    | some f, some s, some fr, some fr' => s!"ok {restoredSeed f s fr fr'}"
    | _, _, _, _ => "bad-op"
  | "seedrun" :: ens :: rest =>
    let tags := ["A", "T", "N", "M", "H", "E", "S"]
    let r : Option String := do
      let ens ← MM.ensOf ens
      let (cellS, fixedS, rowsS) ← match MM.sect rest "A" tags with | [a, b, c] => some (a, b, c) | _ => none
      let cell ← MM.v3OfList (← MM.ints cellS)
      let fixed ← if fixedS = "none" then some none else (MM.nats fixedS).map some
      let rows ← MM.rowsOf rowsS
      let template ← match MM.sect rest "T" tags with | [t] => MM.rowsOf t | _ => none
      let nExch ← match MM.sect rest "N" tags with | [n] => n.toInt? | _ => none
      let lastMom ← match MM.sect rest "M" tags with | [m] => (MM.ints m).bind MM.v3s | _ => none
      let heap ← (MM.sect rest "H" tags).mapM MM.objOf
      let table ← (MM.sect rest "E" tags).mapM MM.entryOf
      let (thrS, stepsS, drawsS, opsS, checksS) ← match MM.sect rest "S" tags with
        | [a, b, c, d, e] => some (a, b, c, d, e) | _ => none
      let thr ← thrS.toNat?
      let steps ← stepsS.toNat?
      let draws ← MM.nats drawsS
      let ops ← MM.v3s (← MM.ints opsS)
      let checks ← (← MM.nats checksS).mapM (fun x => if x = 1 then some true else if x = 0 then some false else none)
      let cfg : Config :=
        { sim := { ens := ens, table := table },
          atoms := { rows := rows, cell := cell, fixed := fixed },
          heap := heap,
          ctx := { template := template, nExch := nExch, lastMom := lastMom,
                   lastPos := if ens = .base then [] else MM.positions rows,
                   lastCell := if ens = .isobaric then cell else MM.V3.zero },
          checks := checks,
          accept := fun u _ _ => decide (u < thr),
          steps := steps }
      pure (" | ".intercalate (runSnap cfg cfg.steps (initState cfg { draws := draws, ops := ops }) []))
    r.getD "bad-op"
  | _ => "bad-op"

end Seed
