import QModel.Serial
import QModel.PyImport
import QModel.Proto
import QGen.Classes
import QGen.Imports
/-! Line-protocol handler of the serialization / import model (C08, C07).

* `c08.rt <tree> mut <path> <mutation…>` — build the probe object described by `<tree>` over the generated
  class table (setting number `i` of every node holds the value `i+1`; the constructor default is `0`),
  take its dictionary, apply one mutation to the node at `<path>` (kid indices separated by `.`, `-` = root),
  rebuild it with `fromDict` and report `ok`, `lost a,b` (root-level settings / slots in which the rebuilt
  object differs) or `err <kind> <detail>`.
    tree      ::= N <Class> <k> (<slot> <key> <tree>){k}          key `-` = none
    mutation  ::= none | drop <sect> <key> | rename <Name> | extra <key> | extraattr <key> | dropslot <slot>
* `c08.wf <Class>`  — `wf` of the spec (C07 view) and of its C08 view
* `c08.imp <module>` — verdict of `importFirst` for a fresh interpreter importing `<module>` first
* `c08.reg <module>` — registered names missing after `import <module>; import quansino.mc`
* `c07.todict <Class>` — is the dictionary reached through `todict` the one `to_dict()` returns? -/
namespace Ser.IO
open Ser

abbrev V := Nat

def specOf (name : String) : Option Spec := QGen.classes.find? (fun c => c.name == name)

/-- prefix parser for probe trees -/
partial def parseTree : List String → Option (Obj V × List String)
  | "N" :: cls :: k :: rest => do
      let c ← specOf cls
      let n ← k.toNat?
      let rec kids (n : Nat) (ts : List String) : Option (Kids V × List String) :=
        match n with
        | 0 => some (.nil, ts)
        | n + 1 =>
          match ts with
          | slot :: key :: ts' => do
              let (o, r1) ← parseTree ts'
              let (ks, r2) ← kids n r1
              some (.cons slot (if key == "-" then "" else key) o ks, r2)
          | _ => none
      let (ks, r) ← kids n rest
      some (.mk c ((List.range c.settings.length).map (· + 1)) ks, r)
  | _ => none

def parseSect : String → Option Sect
  | "kwargs" => some .kwargs | "attributes" => some .attributes
  | "context" => some .context | "top" => some .top | _ => none

inductive Mut
  | none | drop (s : Sect) (k : String) | rename (n : String) | extra (k : String) | extraattr (k : String) | dropslot (slot : String)

def parseMut : List String → Option Mut
  | ["none"] => some .none
  | ["drop", s, k] => (parseSect s).map (fun s => .drop s k)
  | ["rename", n] => some (.rename n)
  | ["extra", k] => some (.extra k)
  | ["extraattr", k] => some (.extraattr k)
  | ["dropslot", s] => some (.dropslot s)
  | _ => Option.none

def dropKey (k : String) (l : List (String × V)) : List (String × V) := l.filter (fun p => p.1 != k)

def DKids.dropSlot : DKids V → String → DKids V
  | .nil, _ => .nil
  | .cons s k d r, slot => if s == slot then DKids.dropSlot r slot else .cons s k d (DKids.dropSlot r slot)

def applyMut (m : Mut) : Dict V → Dict V
  | .mk n kw at_ cx tp ks =>
    match m with
    | .none => .mk n kw at_ cx tp ks
    | .drop .kwargs k => .mk n (dropKey k kw) at_ cx tp ks
    | .drop .attributes k => .mk n kw (dropKey k at_) cx tp ks
    | .drop .context k => .mk n kw at_ (dropKey k cx) tp ks
    | .drop .top k => .mk n kw at_ cx (dropKey k tp) ks
    | .rename n' => .mk n' kw at_ cx tp ks
    | .extra k => .mk n (kw ++ [(k, 999)]) at_ cx tp ks
    | .extraattr k => .mk n kw (at_ ++ [(k, 999)]) cx tp ks
    | .dropslot s => .mk n kw at_ cx tp (DKids.dropSlot ks s)

mutual
  def mutAt (m : Mut) : List Nat → Dict V → Dict V
    | [], d => applyMut m d
    | i :: path, .mk n kw at_ cx tp ks => .mk n kw at_ cx tp (mutKid m i path ks)
  def mutKid (m : Mut) : Nat → List Nat → DKids V → DKids V
    | _, _, .nil => .nil
    | 0, path, .cons s k d r => .cons s k (mutAt m path d) r
    | i + 1, path, .cons s k d r => .cons s k d (mutKid m i path r)
end

mutual
  def objEq : Obj V → Obj V → Bool
    | .mk c v k, .mk c' v' k' => c.name == c'.name && v == v' && kidsEq k k'
  def kidsEq : Kids V → Kids V → Bool
    | .nil, .nil => true
    | .cons s k o r, .cons s' k' o' r' => s == s' && k == k' && objEq o o' && kidsEq r r'
    | _, _ => false
end

def Kids.ofSlot (slot : String) : Kids V → List (String × Obj V)
  | .nil => []
  | .cons s k o r => (if s == slot then [(k, o)] else []) ++ Kids.ofSlot slot r

def listEq : List (String × Obj V) → List (String × Obj V) → Bool
  | [], [] => true
  | (k, o) :: r, (k', o') :: r' => k == k' && objEq o o' && listEq r r'
  | _, _ => false

/-- root-level names in which two objects of the same class differ -/
def diffs (a b : Obj V) : List String :=
  let c := a.spec
  let vs := (c.settings.zip (a.vals.zip b.vals)).filterMap (fun p => if p.2.1 == p.2.2 then none else some p.1.name)
  let short := if a.vals.length == b.vals.length then [] else ["#settings"]
  let ks := c.slots.filterMap (fun sl =>
    if listEq (Kids.ofSlot sl.name a.kids) (Kids.ofSlot sl.name b.kids) then none else some sl.name)
  vs ++ short ++ ks

def showErr : Err → String
  | .unregistered n => s!"err unregistered {n}"
  | .protoMismatch _ _ ch => s!"err proto {ch}"
  | .childNotRebuilt _ slot => s!"err notrebuilt {slot}"
  | .ctorUnexpected _ k => s!"err unexpected {k}"
  | .ctorMissing _ k => s!"err missing {k}"
  | .missingKey _ k => s!"err missing {k}"
  | .attrError _ k => s!"err attr {k}"
  | .unknownFromDict c => s!"err unknownfromdict {c}"

def parsePath (s : String) : Option (List Nat) :=
  if s == "-" then some [] else (s.splitOn ".").mapM String.toNat?

def roundtrip (o : Obj V) (path : List Nat) (m : Mut) : String :=
  let d := mutAt m path (toDict o)
  match fromDict QGen.registry (fun v => v + 1000000) (fun _ _ => 0) d with
  | .error e => showErr e
  | .ok o' =>
    if o'.spec.name != o.spec.name then s!"class {o'.spec.name}"
    else match diffs o o' with
      | [] => "ok"
      | l => "lost " ++ ",".intercalate l

def showImpErr (e : PyImp.Err) : String :=
  let mn (i : Nat) := QGen.moduleNames.getD i "?"
  let id_ (i : Nat) := QGen.identNames.getD i "?"
  match e with
  | .importError p x m => s!"ImportError {mn p} {id_ x} {mn m}"
  | .fuel => "fuel"
  | .badGraph => "bad-graph"

def handle : List String → String
  | "c08.rt" :: rest =>
    match parseTree rest with
    | some (o, "mut" :: p :: ms) =>
      match parsePath p, parseMut ms with
      | some path, some m => roundtrip o path m
      | _, _ => "bad-op"
    | _ => "bad-op"
  | ["c08.wf", cls] =>
    match specOf cls with
    | some c => s!"{wf QGen.registry c} {wf (regOf (QGen.classes.map Spec.simView)) c.simView}"
    | none => "unknown-class"
  | ["c08.imp", m] =>
    match QGen.moduleNames.idxOf? m with
    | some i =>
      match PyImp.importFirst QGen.graph (QGen.chainOf i) with
      | .ok _ => "ok"
      | .error e => showImpErr e
    | none => "unknown-module"
  | ["c08.reg", m] =>
    -- registered names missing after `import m; import quansino.mc` in a fresh interpreter
    match QGen.moduleNames.idxOf? m with
    | some i =>
      let regd := (PyImp.registeredAfter QGen.graph QGen.registers (QGen.chainOf i)
        [QGen.chainOf (QGen.moduleNames.idxOf "quansino.mc")]).map (fun k => QGen.registeredNames.getD k "")
      let miss := (QGen.classes.flatMap (·.registered)).filter (fun n => !regd.contains n)
      "missing " ++ ",".intercalate miss
    | none => "unknown-module"
  | ["c07.todict", cls] =>
    match specOf cls with
    | some c =>
      match keysViaTodict c, keysViaToDict c with
      | none, _ => "no-todict"
      | some a, some b => if a == b then "same" else "differs"
      | some _, none => "no-to_dict"
    | none => "unknown-class"
  | _ => "bad-op"

end Ser.IO
