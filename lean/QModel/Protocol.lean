/-!
# C20 — the protocol surface between a driver and user-defined moves / criteria

The model can only mention the protocol methods: a user move is `call`, `onAtomsChanged`, `onCellChanged`, `toDict`;
a user criteria is `evaluate`, `toDict`. The trace of one `MonteCarlo.step` trial, as the drivers produce it
(`mc/core.py: step`, `notify_moves`; `mc/gcmc.py: save_state`; `mc/isobaric.py: save_state`):

1. `call m`
2. iff the result is truthy: `evaluate c`
3. iff accepted: the notifications — grand canonical: `atomsChanged u added removed` once for every distinct move
   object `u` of the table; isobaric / isotension: `cellChanged u` once for every distinct move iff the cell changed.
-/
namespace Proto20

inductive Ens | base | canonical | hamiltonian | isobaric | isotension | grand
deriving DecidableEq, Repr

inductive Ev
  | call (m : Nat)
  | evaluate (c : Nat)
  | atomsChanged (m : Nat) (added removed : List Nat)
  | cellChanged (m : Nat)
deriving DecidableEq, Repr

/-- what the scheduled move did, as far as the driver can see -/
structure TrialIn where
  move : Nat            -- the scheduled table entry's move object
  criteria : Nat
  truthy : Bool         -- result of `move(context)`
  accepted : Bool       -- result of `criteria.evaluate(context)` (only consulted when truthy)
  added : List Nat
  removed : List Nat
  cellChanged : Bool

/-- `table` = the distinct elementary move objects of the move table, in table order -/
def trialTrace (ens : Ens) (table : List Nat) (t : TrialIn) : List Ev :=
  [Ev.call t.move] ++
  (if t.truthy then
    [Ev.evaluate t.criteria] ++
    (if t.accepted then
      match ens with
      | .grand => table.map (fun u => Ev.atomsChanged u t.added t.removed)
      | .isobaric | .isotension => if t.cellChanged then table.map Ev.cellChanged else []
      | _ => []
    else [])
  else [])

/-- the entry appended to `move_history`: `none` = not attempted -/
def historyEntry (t : TrialIn) : Option Bool := if t.truthy then some t.accepted else none

def showEv : Ev → String
  | .call m => s!"call:{m}"
  | .evaluate c => s!"evaluate:{c}"
  | .atomsChanged m a r => s!"atoms:{m}:{",".intercalate (a.map toString)}:{",".intercalate (r.map toString)}"
  | .cellChanged m => s!"cell:{m}"

end Proto20
