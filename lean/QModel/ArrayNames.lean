/-!
# Which per-atom arrays the system has: insertions that are taken back

`Atoms.extend(species)` creates on the system every per-atom array that only the species carries (zeros for the atoms
already there). `ExchangeMove.attempt_addition` therefore remembers the array names from before the `extend`: a vetoed
placement removes the atoms AND the arrays that came with them, a successful one hands the names to the context
(`ExchangeContext.save_array_names`, first writer wins within a trial), `revert_state` drops every array that is not among
them, `save_state` forgets them. Names are kept in dictionary order. Core Lean only.
-/
namespace ArrN

structure St where
  /-- `list(atoms.arrays)`: the names, in dictionary order -/
  sys : List String
  /-- `context._saved_array_names` -/
  saved : Option (List String) := none
deriving DecidableEq, Repr

/-- `atoms.extend(species)`: arrays of the species the system lacks are appended, in the species' order -/
def extend (sys species : List String) : List String := sys ++ species.filter (fun n => !sys.contains n)

/-- `del atoms.arrays[name]` for every name not among `keep` -/
def dropOthers (sys keep : List String) : List String := sys.filter (fun n => keep.contains n)

/-- `ExchangeMove.attempt_addition` with the verdict of the placement (`check_move` within `max_attempts`) -/
def attemptAddition (s : St) (species : List String) (placed : Bool) : Bool × St :=
  let before := s.sys
  let sys1 := extend s.sys species
  if placed then (true, { sys := sys1, saved := match s.saved with | some k => some k | none => some before })
  else (false, { s with sys := dropOthers sys1 before })

/-- the code before the repair: nothing remembered, nothing removed -/
def attemptAdditionPinned (s : St) (species : List String) (_placed : Bool) : Bool × St :=
  (_placed, { s with sys := extend s.sys species })

/-- `ExchangeContext.revert_state` after the added atoms are deleted -/
def revert (s : St) : St :=
  match s.saved with
  | some keep => { sys := dropOthers s.sys keep, saved := none }
  | none => { s with saved := none }

def revertPinned (s : St) : St := { s with saved := none }

/-- `ExchangeContext.save_state` (`reset`) -/
def save (s : St) : St := { s with saved := none }

/-- the insertions of one trial (a composite move makes several): species and placement verdict of each -/
def insertions : St → List (List String × Bool) → St
  | s, [] => s
  | s, (sp, ok) :: r => insertions (attemptAddition s sp ok).2 r

end ArrN
