/-!
# Run loop, observer schedule and run entry points (C15)

Mirrors `src/quansino/mc/driver.py` (`Driver.irun`, `call_observers`, `converged`, `run`) and
`src/quansino/mc/core.py` (`MonteCarlo.run`, `srun`, the *lazy* `step` generator), for every driver:
`ForceBias.step` executes when `irun` calls it (*eager*), `MonteCarlo.step` is a generator function whose
body only runs when the caller iterates the yielded generator (*lazy*).

The simulation proper is abstract: a state `σ` advanced by an arbitrary deterministic
`stepFn : step_count → σ → σ` (the move loop with its random stream folded into `σ`) and an arbitrary
`validate : σ → σ` (`validate_simulation`). What an observer does when called is abstract as well: the model
records *that* observer `i` (position in attach order) was called, at which `step_count`, and in which
simulation state; every file an observer writes is a function of that record (`fileOf`).

`Variant.coded` is the loop of the pinned tree; `Variant.fixed` is the loop after
`harness/patches/C15-step0-once.diff` (the step-0 block runs once per simulation object).
-/
namespace RunLoop

/-- what one observer invocation leaves behind -/
inductive Ev (σ : Type) where
  /-- `Logger.write_header()` -/
  | header
  /-- `observer()` while `step_count = k` and the simulation is in state `st` -/
  | call (k : Nat) (st : σ)
  deriving DecidableEq, Repr

/-- does `self.step()` run inside `irun` (`ForceBias`) or only when the yielded generator is iterated
    (`MonteCarlo`)? -/
inductive Kind where
  | eager | lazy
  deriving DecidableEq, Repr

inductive Variant where
  | coded | fixed
  deriving DecidableEq, Repr

structure Cfg (σ : Type) where
  /-- `observer.interval` of `file_manager.observers.values()`, in attach (dict insertion) order -/
  intervals : List Int
  /-- position of `default_logger` among the observers, if there is one -/
  logger : Option Nat
  kind : Kind
  variant : Variant
  /-- `validate_simulation` -/
  validate : σ → σ
  /-- `step` when `step_count = k` -/
  stepFn : Nat → σ → σ

structure Sim (σ : Type) where
  stepCount : Nat
  maxSteps : Nat
  /-- `self._started` of the fixed loop (never read by the coded loop) -/
  started : Bool
  /-- number of executed step bodies (bookkeeping of the model, not an attribute of the code) -/
  performed : Nat
  st : σ
  /-- every observer invocation so far, in execution order: (observer position, event) -/
  trace : List (Nat × Ev σ)
  deriving DecidableEq, Repr

/-- a simulation object straight out of `__init__` -/
def fresh {σ : Type} (st : σ) : Sim σ :=
  { stepCount := 0, maxSteps := 0, started := false, performed := 0, st := st, trace := [] }

/-- `(interval > 0 and step_count % interval == 0) or (interval < 0 and step_count == abs(interval))`
    (`and` short-circuits, so `% 0` is never evaluated; for a positive divisor Python's `%` is `Int.emod`) -/
def fires (interval : Int) (k : Nat) : Bool :=
  (decide (interval > 0) && ((k : Int) % interval == 0)) ||
  (decide (interval < 0) && ((k : Int) == (interval.natAbs : Int)))

variable {σ : Type}

/-- the `for observer in self.file_manager.observers.values()` loop of `call_observers`, from position `i` -/
def callFrom (k : Nat) (st : σ) : Nat → List Int → List (Nat × Ev σ)
  | _, [] => []
  | i, iv :: rest => (if fires iv k then [(i, Ev.call k st)] else []) ++ callFrom k st (i + 1) rest

/-- `Driver.call_observers` -/
def callObservers (cfg : Cfg σ) (s : Sim σ) : Sim σ :=
  { s with trace := s.trace ++ callFrom s.stepCount s.st 0 cfg.intervals }

/-- `if self.default_logger: self.default_logger.write_header()` -/
def writeHeader (cfg : Cfg σ) (s : Sim σ) : Sim σ :=
  match cfg.logger with
  | some i => { s with trace := s.trace ++ [(i, Ev.header)] }
  | none => s

/-- is the step-0 block entered?  coded: `self.step_count == 0`;
    fixed: `self.step_count == 0 and not self._started` -/
def entersStepZero (cfg : Cfg σ) (s : Sim σ) : Bool :=
  match cfg.variant with
  | .coded => s.stepCount == 0
  | .fixed => s.stepCount == 0 && !s.started

/-- the step-0 block of `irun` (header, then the step-0 observer call) -/
def stepZero (cfg : Cfg σ) (s : Sim σ) : Sim σ :=
  if entersStepZero cfg s then
    match cfg.variant with
    | .coded => callObservers cfg (writeHeader cfg s)
    | .fixed => callObservers cfg (writeHeader cfg { s with started := true })
  else s

/-- `yield self.step()` followed by whatever the caller does with the yielded value: the step body runs if the
    driver is eager or the caller exhausts the yielded generator (`consume`) -/
def doStep (cfg : Cfg σ) (consume : Bool) (s : Sim σ) : Sim σ :=
  if cfg.kind == .eager || consume then
    { s with st := cfg.stepFn s.stepCount s.st, performed := s.performed + 1 }
  else s

/-- one iteration of the `while` body: `yield self.step(); self.step_count += 1; self.call_observers()` -/
def tick (cfg : Cfg σ) (consume : Bool) (s : Sim σ) : Sim σ :=
  let s1 := doStep cfg consume s
  callObservers cfg { s1 with stepCount := s1.stepCount + 1 }

/-- `while not self.converged(): …` with `converged = step_count >= max_steps`; `fuel` bounds the iterations -/
def loop (cfg : Cfg σ) (consume : Bool) : Nat → Sim σ → Sim σ
  | 0, s => s
  | fuel + 1, s => if s.stepCount < s.maxSteps then loop cfg consume fuel (tick cfg consume s) else s

/-- `Driver.irun(steps)` iterated to exhaustion by a caller that does (`consume`) or does not exhaust each
    yielded value -/
def irunWith (cfg : Cfg σ) (consume : Bool) (steps : Nat) (s : Sim σ) : Sim σ :=
  let s1 := { s with st := cfg.validate s.st }                -- self.validate_simulation()
  let s2 := { s1 with maxSteps := s1.stepCount + steps }      -- self.max_steps = self.step_count + steps
  let s3 := stepZero cfg s2
  loop cfg consume (s3.maxSteps - s3.stepCount) s3

/-- `run(steps)`: `MonteCarlo.run` exhausts every yielded generator; `Driver.run` (used by `ForceBias`)
    ignores the yielded value (the step has already been executed) -/
def run (cfg : Cfg σ) (steps : Nat) (s : Sim σ) : Sim σ :=
  match cfg.kind with
  | .lazy => irunWith cfg true steps s
  | .eager => irunWith cfg false steps s

/-- `MonteCarlo.srun(steps)` fully iterated: exhausts each step generator, then yields it -/
def srun (cfg : Cfg σ) (steps : Nat) (s : Sim σ) : Sim σ := irunWith cfg true steps s

/-- `irun(steps)` fully iterated: the caller exhausts every yielded value -/
def irunFull (cfg : Cfg σ) (steps : Nat) (s : Sim σ) : Sim σ := irunWith cfg true steps s

/-- consecutive `run` calls, one per segment length -/
def runs (cfg : Cfg σ) : List Nat → Sim σ → Sim σ
  | [], s => s
  | n :: rest, s => runs cfg rest (run cfg n s)

/-- the `while` body iterated `n` times (the closed form of `loop`, see `QProofs.RunLoop.loop_eq_iter`) -/
def iter (cfg : Cfg σ) (consume : Bool) : Nat → Sim σ → Sim σ
  | 0, s => s
  | n + 1, s => iter cfg consume n (tick cfg consume s)

/-- events of observer `i`, in order -/
def evsOf (i : Nat) (tr : List (Nat × Ev σ)) : List (Ev σ) :=
  tr.filterMap (fun e => if e.1 = i then some e.2 else none)

/-- `step_count` at each call of observer `i` (what a recording observer logs) -/
def callsOf (i : Nat) (tr : List (Nat × Ev σ)) : List Nat :=
  tr.filterMap (fun e => if e.1 = i then (match e.2 with | .call k _ => some k | .header => none) else none)

/-- content of the file written by observer `i`, for any rendering of its invocations -/
def fileOf {β : Type} (render : Ev σ → List β) (i : Nat) (s : Sim σ) : List β :=
  (evsOf i s.trace).flatMap render

end RunLoop
