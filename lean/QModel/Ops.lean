import QModel.Num
/-!
# Ops — proposal operations (C10, used by C01)

Mirrors `src/quansino/operations/displacement.py` (`Box`, `Sphere`, `Ball`, `Translation`, `Rotation`,
`TranslationRotation`), `operations/cell.py` (`IsotropicDeformation`, `AnisotropicDeformation`,
`ShapeDeformation`, mask blending) and `operations/composite.py` (`CompositeOperation.calculate`).

Every function is generic over `[Num α]` and takes the **random draws as explicit inputs**, in the exact order in
which the Python code asks `context.rng` for them:

* `uniform lo hi u = lo + (hi - lo) * u` is numpy's `Generator.uniform(lo, hi)` for one underlying `u ∈ [0,1)`;
* `Rotation` (after `harness/patches/C10-rotation.diff`) draws `context.rng.standard_normal(4)`: four normal
  deviates `w x y z` (the unnormalised quaternion).

**The matrix exponential is a parameter.** `scipy.linalg.expm` is not modelled: the deformation models take
`expm : Mat α → Mat α` as an argument. The model driver instantiates it with `expmTaylor` below (3×3 scaling and
squaring Taylor series in `Float`, good to ~1e-15 for |A| ≤ 1); the theorems in `QProps/C10.lean` instantiate it with
Mathlib's `NormedSpace.exp` on `Matrix (Fin 3) (Fin 3) ℝ`. That split is on DESIGN §5's "modelled, not verified" list:
no theorem relates `expmTaylor` (or scipy's Padé `expm`) to `NormedSpace.exp`; correspondence compares the two
numerically at 1e-7.

`CompositeOperation.calculate` is modelled **as repaired** (`harness/patches/C10-composite-broadcast.diff`): the parts
are summed with numpy broadcasting, so a `(1,3)` part (Ball, Translation, …) can be combined with an `(n,3)` part
(Rotation); the pinned code raises `ValueError` for such a mixture (`np.sum` of a ragged list).

`Rotation` is modelled **as repaired**: the pinned code passes radians in `[0, 2π)` to ASE's degree-based
`Atoms.euler_rotate`; `eulerAngleDeg` below records the coded angle so that the negation of symmetry can be stated
(`QProps/C10.lean: Ops.euler_coded_not_symmetric`).
-/

namespace Ops
variable {α : Type} [Num α]

abbrev Vec (α : Type) := Fin 3 → α
abbrev Mat (α : Type) := Fin 3 → Fin 3 → α

def vec3 (a b c : α) : Vec α := fun i => match i with | 0 => a | 1 => b | 2 => c
def mat3 (r0 r1 r2 : Vec α) : Mat α := fun i => match i with | 0 => r0 | 1 => r1 | 2 => r2

def vzero : Vec α := fun _ => Num.zero
def vadd (a b : Vec α) : Vec α := fun i => a i + b i
def vsub (a b : Vec α) : Vec α := fun i => a i - b i
def vneg (a : Vec α) : Vec α := fun i => -(a i)
def vscale (c : α) (a : Vec α) : Vec α := fun i => c * a i
def vdiv (a : Vec α) (c : α) : Vec α := fun i => a i / c
def norm2 (a : Vec α) : α := a 0 * a 0 + a 1 * a 1 + a 2 * a 2
/-- `np.linalg.norm` of a 3-vector -/
def norm (a : Vec α) : α := Num.sqrt (norm2 a)
def dist2 (a b : Vec α) : α := norm2 (vsub a b)

/-- row vector times matrix: `u @ cell` -/
def vecMul (u : Vec α) (c : Mat α) : Vec α := fun j => u 0 * c 0 j + u 1 * c 1 j + u 2 * c 2 j
/-- matrix times column vector: `(v @ R.T)` for one row `v` -/
def mulVec (r : Mat α) (v : Vec α) : Vec α := fun i => r i 0 * v 0 + r i 1 * v 1 + r i 2 * v 2

/-- `sum` of a list of row vectors -/
def vsum : List (Vec α) → Vec α
  | [] => vzero
  | p :: ps => vadd p (vsum ps)
def ssum : List α → α
  | [] => Num.zero
  | x :: xs => x + ssum xs

/-- numpy `Generator.uniform(lo, hi)` as a function of the underlying `u ∈ [0,1)` -/
def uniform (lo hi u : α) : α := lo + (hi - lo) * u

def twoPi : α := Num.two * Num.pi

/-! ## displacement.py -/

/-- `Box.calculate`: `rng.uniform(-s, s, size=(1, 3))` -/
def box (s u1 u2 u3 : α) : Vec α := vec3 (uniform (-s) s u1) (uniform (-s) s u2) (uniform (-s) s u3)

/-- `Sphere.calculate`: `phi = U(0, 2π)`, `cosθ = U(-1, 1)`, `sinθ = sqrt(1 - cosθ²)` -/
def sphere (s u1 u2 : α) : Vec α :=
  let phi := uniform Num.zero twoPi u1
  let c := uniform (-Num.one) Num.one u2
  let st := Num.sqrt (Num.one - c * c)
  vec3 (s * (st * Num.cos phi)) (s * (st * Num.sin phi)) (s * c)

/-- `Ball.calculate`: `r = U(0, s)`, then as `Sphere` -/
def ball (s u1 u2 u3 : α) : Vec α :=
  let r := uniform Num.zero s u1
  let phi := uniform Num.zero twoPi u2
  let c := uniform (-Num.one) Num.one u3
  let st := Num.sqrt (Num.one - c * c)
  vec3 (r * st * Num.cos phi) (r * st * Num.sin phi) (r * c)

/-- `positions[moving].mean(axis=0)` -/
def centroid (ps : List (Vec α)) : Vec α := vdiv (vsum ps) (Num.ofNat ps.length)

/-- `Translation.calculate`: `rng.uniform(0, 1, (1, 3)) @ cell - positions[moving].mean(axis=0)` -/
def translation (cell : Mat α) (ps : List (Vec α)) (u1 u2 u3 : α) : Vec α :=
  vsub (vecMul (vec3 (uniform Num.zero Num.one u1) (uniform Num.zero Num.one u2) (uniform Num.zero Num.one u3)) cell)
    (centroid ps)

/-- the rotation matrix of the (unnormalised) quaternion `(w, x, y, z)`, as in the repaired `Rotation.calculate` -/
def quatMat (w x y z : α) : Mat α :=
  let n := w * w + x * x + y * y + z * z
  mat3
    (vec3 ((w * w + x * x - y * y - z * z) / n) (Num.two * (x * y - w * z) / n) (Num.two * (x * z + w * y) / n))
    (vec3 (Num.two * (x * y + w * z) / n) ((w * w - x * x + y * y - z * z) / n) (Num.two * (y * z - w * x) / n))
    (vec3 (Num.two * (x * z - w * y) / n) (Num.two * (y * z + w * x) / n) ((w * w - x * x - y * y + z * z) / n))

/-- `masses @ positions / masses.sum()` for a group given as (mass, position) pairs -/
def com (g : List (α × Vec α)) : Vec α :=
  vdiv (vsum (g.map fun mp => vscale mp.1 mp.2)) (ssum (g.map Prod.fst))

/-- new position of one row: `(p - com) @ R.T + com` -/
def rotPoint (r : Mat α) (c p : Vec α) : Vec α := vadd (mulVec r (vsub p c)) c

/-- the rotated group (masses kept) -/
def rotated (r : Mat α) (g : List (α × Vec α)) : List (α × Vec α) :=
  g.map fun mp => (mp.1, rotPoint r (com g) mp.2)

/-- displacement rows returned by `Rotation.calculate` for a rotation matrix `r`:
    `(positions - com) @ r.T + com - positions` -/
def rotationWith (r : Mat α) (g : List (α × Vec α)) : List (Vec α) :=
  g.map fun mp => vsub (rotPoint r (com g) mp.2) mp.2

/-- `Rotation.calculate` (repaired): `w, x, y, z = rng.standard_normal(4)` -/
def rotation (g : List (α × Vec α)) (w x y z : α) : List (Vec α) := rotationWith (quatMat w x y z) g

/-- the angle (in **degrees**, as ASE's `euler_rotate` reads it) the pinned `Rotation.calculate` passes for a
    draw `u`: `rng.uniform(0, 2π)` — kept only to state the defect -/
def eulerAngleDeg (u : α) : α := uniform Num.zero twoPi u

/-! ## composite.py — `np.sum([op.calculate(context) for op in ops], axis=0)` with row broadcasting
    (a `(1,3)` result added to an `(n,3)` result is added to every row, as `TranslationRotation` does with `+`) -/

/-- broadcasting add of two displacement blocks (`(1,3)` or `(n,3)`) -/
def badd (a b : List (Vec α)) : List (Vec α) :=
  if a.length = 1 then b.map (vadd (a.headD vzero))
  else if b.length = 1 then a.map (fun x => vadd x (b.headD vzero))
  else List.zipWith vadd a b

/-- sum of the parts, left to right; the empty composite returns `0.0` (a single zero row here) -/
def composite : List (List (Vec α)) → List (Vec α)
  | [] => [vzero]
  | [p] => p
  | p :: ps => badd p (composite ps)

/-- `TranslationRotation.calculate`: `translation + rotation` (numpy broadcasting of `(1,3) + (n,3)`) -/
def translationRotation (cell : Mat α) (g : List (α × Vec α)) (u1 u2 u3 w x y z : α) : List (Vec α) :=
  (rotation g w x y z).map (vadd (translation cell (g.map Prod.snd) u1 u2 u3))

/-- `DisplacementMove.attempt_displacement` as seen from the operation: attempt `k` adds the translation the operation
    computed (on the ORIGINAL positions — a vetoed attempt is undone before the next draw) and `check_move` gives its
    verdict; the displacement the atoms end up with is the translation of the first attempt that passes, and none at
    all (`none`: positions restored, the move fails) when `max_attempts` attempts were vetoed -/
def moveLoop : Nat → List (List (Vec α)) → List Bool → Option (List (Vec α))
  | 0, _, _ => none
  | k + 1, t :: ts, c :: cs => if c then some t else moveLoop k ts cs
  | _ + 1, _, _ => none

/-- `BaseMove.__init__`: `self.operation = operation if operation is not None else self.default_operation` -/
def chosenOp {β : Type} (given : Option β) (dflt : β) : β := given.getD dflt

/-- the line before the repair, `operation or self.default_operation`: Python truthiness — an object with `__len__`
    (`CompositeOperation`) is falsy when its length is 0; `len g = none` for operations without `__len__` -/
def chosenOpPinned {β : Type} (len : β → Option Nat) (given : Option β) (dflt : β) : β :=
  match given with
  | none => dflt
  | some g => if len g = some 0 then dflt else g

/-! ## cell.py -/

def b2n (b : Bool) : α := if b then Num.one else Num.zero
def eye : Mat α := fun i j => if i = j then Num.one else Num.zero
def madd (a b : Mat α) : Mat α := fun i j => a i j + b i j
def mzero : Mat α := fun _ _ => Num.zero

/-- `E * mask + np.eye(3) * (~mask)` -/
def blend (e : Mat α) (mask : Fin 3 → Fin 3 → Bool) : Mat α :=
  fun i j => e i j * b2n (mask i j) + eye i j * b2n (!mask i j)

def allTrue : Fin 3 → Fin 3 → Bool := fun _ _ => true

/-- the symmetric generator of `AnisotropicDeformation.calculate` from `components = U(-m, m, size=6)` -/
def anisoGen (m u1 u2 u3 u4 u5 u6 : α) : Mat α :=
  let c1 := uniform (-m) m u1; let c2 := uniform (-m) m u2; let c3 := uniform (-m) m u3
  let c4 := uniform (-m) m u4; let c5 := uniform (-m) m u5; let c6 := uniform (-m) m u6
  mat3 (vec3 c1 c4 c5) (vec3 c4 c2 c6) (vec3 c5 c6 c3)

/-- the symmetric traceless generator of `ShapeDeformation.calculate` -/
def shapeGen (m u1 u2 u3 u4 u5 u6 : α) : Mat α :=
  let c1 := uniform (-m) m u1; let c2 := uniform (-m) m u2; let c3 := uniform (-m) m u3
  let c4 := uniform (-m) m u4; let c5 := uniform (-m) m u5; let c6 := uniform (-m) m u6
  let mean := (c1 + c2 + c3) / Num.ofNat 3
  mat3 (vec3 (c1 - mean) c4 c5) (vec3 c4 (c2 - mean) c6) (vec3 c5 c6 (c3 - mean))

/-- `AnisotropicDeformation.calculate` -/
def aniso (expm : Mat α → Mat α) (m : α) (mask : Fin 3 → Fin 3 → Bool) (u1 u2 u3 u4 u5 u6 : α) : Mat α :=
  blend (expm (anisoGen m u1 u2 u3 u4 u5 u6)) mask

/-- `ShapeDeformation.calculate` -/
def shape (expm : Mat α → Mat α) (m : α) (mask : Fin 3 → Fin 3 → Bool) (u1 u2 u3 u4 u5 u6 : α) : Mat α :=
  blend (expm (shapeGen m u1 u2 u3 u4 u5 u6)) mask

/-- `IsotropicDeformation.calculate`: `np.eye(3) * exp(U(-m, m)) * mask + np.eye(3) * (~mask)` -/
def iso (m : α) (mask : Fin 3 → Fin 3 → Bool) (u : α) : Mat α :=
  fun i j => eye i j * Num.exp (uniform (-m) m u) * b2n (mask i j) + eye i j * b2n (!mask i j)

/-- composite of deformation operations: entrywise sum, `0.0` when empty -/
def compositeMat : List (Mat α) → Mat α
  | [] => mzero
  | [p] => p
  | p :: ps => madd p (compositeMat ps)

/-! ## executable 3×3 matrix exponential (Float only; see the header) -/

structure M9 where
  (a00 a01 a02 a10 a11 a12 a20 a21 a22 : Float)

namespace M9
def ofMat (a : Mat Float) : M9 := ⟨a 0 0, a 0 1, a 0 2, a 1 0, a 1 1, a 1 2, a 2 0, a 2 1, a 2 2⟩
def toMat (m : M9) : Mat Float :=
  mat3 (vec3 m.a00 m.a01 m.a02) (vec3 m.a10 m.a11 m.a12) (vec3 m.a20 m.a21 m.a22)
def one : M9 := ⟨1, 0, 0, 0, 1, 0, 0, 0, 1⟩
def add (a b : M9) : M9 :=
  ⟨a.a00 + b.a00, a.a01 + b.a01, a.a02 + b.a02, a.a10 + b.a10, a.a11 + b.a11, a.a12 + b.a12,
   a.a20 + b.a20, a.a21 + b.a21, a.a22 + b.a22⟩
def smul (c : Float) (a : M9) : M9 :=
  ⟨c * a.a00, c * a.a01, c * a.a02, c * a.a10, c * a.a11, c * a.a12, c * a.a20, c * a.a21, c * a.a22⟩
def mul (a b : M9) : M9 :=
  ⟨a.a00 * b.a00 + a.a01 * b.a10 + a.a02 * b.a20, a.a00 * b.a01 + a.a01 * b.a11 + a.a02 * b.a21,
   a.a00 * b.a02 + a.a01 * b.a12 + a.a02 * b.a22,
   a.a10 * b.a00 + a.a11 * b.a10 + a.a12 * b.a20, a.a10 * b.a01 + a.a11 * b.a11 + a.a12 * b.a21,
   a.a10 * b.a02 + a.a11 * b.a12 + a.a12 * b.a22,
   a.a20 * b.a00 + a.a21 * b.a10 + a.a22 * b.a20, a.a20 * b.a01 + a.a21 * b.a11 + a.a22 * b.a21,
   a.a20 * b.a02 + a.a21 * b.a12 + a.a22 * b.a22⟩
/-- max row sum of absolute values -/
def normInf (a : M9) : Float :=
  let r0 := a.a00.abs + a.a01.abs + a.a02.abs
  let r1 := a.a10.abs + a.a11.abs + a.a12.abs
  let r2 := a.a20.abs + a.a21.abs + a.a22.abs
  let m := if r0 < r1 then r1 else r0
  if m < r2 then r2 else m
end M9

/-- number of halvings needed to bring `x` to at most 1/2 (capped) -/
def halvings (x : Float) : Nat → Nat → Nat
  | 0, k => k
  | fuel + 1, k => if x ≤ 0.5 then k else halvings (x / 2) fuel (k + 1)

/-- Taylor polynomial `Σ_{k ≤ n} B^k / k!` by Horner's rule -/
def taylorHorner (b : M9) : Nat → M9 → M9
  | 0, acc => acc
  | k + 1, acc => taylorHorner b k (M9.add M9.one (M9.smul (1 / Float.ofNat (k + 1)) (M9.mul b acc)))

def sqTimes : Nat → M9 → M9
  | 0, m => m
  | k + 1, m => sqTimes k (M9.mul m m)

/-- scaling-and-squaring Taylor matrix exponential for 3×3 `Float` matrices -/
def expmTaylor (a : Mat Float) : Mat Float :=
  let m := M9.ofMat a
  let s := halvings (M9.normInf m) 60 0
  let b := M9.smul (1 / Float.ofNat (2 ^ s)) m
  (sqTimes s (taylorHorner b 20 M9.one)).toMat

end Ops
