import QModel.Protocol
import QModel.Proto
namespace Proto20

def ensOf : String → Option Ens
  | "base" => some .base | "canonical" => some .canonical | "hamiltonian" => some .hamiltonian
  | "isobaric" => some .isobaric | "isotension" => some .isotension | "grand" => some .grand | _ => none

def b01 : String → Option Bool | "1" => some true | "0" => some false | _ => none

/-- `p20 <ens> <table> <move> <criteria> <truthy> <accepted> <added> <removed> <cellChanged>` -/
def handle : List String → String
  | ["p20", ens, table, mv, cr, tr, ac, ad, rm, cc] =>
    let r : Option String := do
      let t : TrialIn := { move := ← mv.toNat?, criteria := ← cr.toNat?, truthy := ← b01 tr, accepted := ← b01 ac,
                           added := ← Proto.natList ad, removed := ← Proto.natList rm, cellChanged := ← b01 cc }
      let tr := trialTrace (← ensOf ens) (← Proto.natList table) t
      let h := match historyEntry t with | none => "None" | some true => "True" | some false => "False"
      pure (s!"ok {h} " ++ " ".intercalate (tr.map showEv))
    r.getD "bad-op"
  | _ => "bad-op"

end Proto20
