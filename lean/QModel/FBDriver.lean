import QModel.FBMC
import QModel.Adaptive
import QModel.RunLoop
/-!
# Driver-level machine of `ForceBias` / `AdaptiveForceBias`  (`quansino/mc/fbmc.py`, `mc/driver.py`; C07, C15, C18)

`FB.step` (QModel/FBMC.lean) is ONE `ForceBias.step()` on prescribed forces; `AFB.updateDelta` (QModel/Adaptive.lean) is
ONE `update_delta()` on a prescribed `calc.results`. This file puts them into the object they live in: a simulation that
owns atoms, a generator and a calculator WITH A CACHE, and is driven by `Driver.irun` (QModel/RunLoop.lean) through
`validate_simulation()` and `step()`, edited by the user between runs, and rebuilt from its restart dictionary.

Everything numeric is generic over `[Num α] [FB.Ops α]` (as FBMC.lean) plus decidable `<` (as Adaptive.lean needs for
`np.abs`): `Float` for the model driver (FBDriverIO.lean), `ℝ`/`Rat` for theorems and computed witnesses.

## the calculator (ASE `Calculator.get_property`)

`atoms.get_forces()` / `atoms.get_potential_energy()` call `calc.get_property(name, atoms)`: `check_state(atoms)` compares
the atoms with the copy the calculator kept at its last calculation; on a difference `results` is emptied, the atoms are
copied and `calculate` runs, which fills `results` (forces, energy AND the committee arrays) for the CURRENT atoms;
otherwise the stored result is returned. `cache : Option (List α)` is the configuration `calc.results` belongs to
(`none`: freshly constructed calculator, `results = {}`). The calculator is a deterministic function of the positions
(`Env.forces`, `Env.committee`), so what `get_forces()` RETURNS is `forces positions` on a hit and on a miss alike; the
only thing that reads the cache WITHOUT `check_state` is `update_delta()` (`atoms.calc.results["forces_comm"]`).
Momenta are not part of `check_state`.  Not modelled: ASE's comparison tolerance (`check_state(atoms, tol=1e-15)` uses
`np.allclose`: positions within `1e-15·(1+|x|)` of the cached ones count as unchanged), `atoms.calc is None`, constraints,
the `energy` scheme of `AdaptiveForceBias`, arrays of inconsistent shapes.

## the generator

`Env.stream : Nat → α` is the sequence of numbers the simulation's generator returns, in the order `FB.step` consumes them
(QModel/FBMC.lean `redraw`); `St.rngPos` = how many have been consumed = the generator state (`rng_state` in `to_dict`).

## non-termination

`FB.step` returns `none` when the rejection loop has not accepted every coordinate within `Env.fuel` rounds (the real
loop would still be running: C13 `accept_half`, `step_terminates`). The driver machine records that in the sticky flag
`diverged`; the effects that precede the loop (`update_delta`, `get_forces`, `calculate_gamma`) have taken place,
`self.zeta` is whatever the loop is working on (`[]`), atoms and generator are left alone. All theorems hold whatever the flag; it is there so that no statement silently speaks about a run the real
program would not have finished.
-/
namespace FBD

/-- what the simulation object is plugged into: calculator and generator -/
structure Env (α : Type) where
  /-- `results["forces"]` as a function of the flattened positions -/
  forces : List α → List α
  /-- `results["forces_comm"]` (K rows of 3N numbers) as a function of the flattened positions -/
  committee : List α → List (List α)
  /-- the numbers the generator hands out, in order -/
  stream : Nat → α
  /-- bound on the rounds of one rejection loop -/
  fuel : Nat

/-- the simulation object (all arrays flattened `(N,3)`, C order; a scalar `delta` / `masses_scaling_power` is the
    constant list) -/
structure St (α : Type) where
  natoms : Nat
  positions : List α
  momenta : List α
  /-- `self.shaped_masses` -/
  masses : List α
  /-- `self.masses_scaling_power` -/
  powers : List α
  /-- `self.delta` -/
  delta : List α
  /-- `self.temperature * kB` -/
  kT : α
  /-- generator state -/
  rngPos : Nat
  /-- the configuration `atoms.calc.results` belongs to -/
  cache : Option (List α)
  /-- `AdaptiveForceBias` (true) or `ForceBias` (false) -/
  adaptive : Bool
  minDelta : α
  maxDelta : α
  /-- `reference_variance` -/
  refVar : α
  /-- `update_function` -/
  fn : AFB.UpdateFn
  /-- `self.variation_coef` (set by `update_delta`, never read back) -/
  varCoef : List α
  /-- `self.gamma`, `self.zeta` of the last step (never read back) -/
  gamma : List α
  zeta : List α
  /-- a rejection loop ran out of fuel at some point (see the header) -/
  diverged : Bool
  deriving DecidableEq, Repr

variable {α : Type} [Num α] [FB.Ops α] [∀ a b : α, Decidable (a < b)]

/-- `atoms.calc.results` as `get_forces_variation_coef` sees it: a fresh calculator has no `forces_comm` (`KeyError`) -/
def calcResults (env : Env α) (s : St α) : Option (AFB.Results α) :=
  match s.cache with
  | none => some { forcesComm := none, energies := none }
  | some c => some { forcesComm := some (env.committee c), energies := none }

/-- the delta `update_delta()` computes when `calc.results` belongs to configuration `c`:
    `min_delta + (max_delta - min_delta) * update(std(fc)/mean|fc|)`, `fc = committee c` -/
def deltaFor (env : Env α) (s : St α) (c : List α) : List α :=
  AFB.adaptedList s.fn s.minDelta s.maxDelta s.refVar
    (AFB.forcesVariationCoef s.refVar s.natoms (some { forcesComm := some (env.committee c), energies := none }))

/-- the delta `update_delta()` computes when there are no committee results: the fallback `reference_variance` -/
def deltaFallback (s : St α) : List α :=
  AFB.adaptedList s.fn s.minDelta s.maxDelta s.refVar (List.replicate (3 * s.natoms) s.refVar)

/-- `AdaptiveForceBias.update_delta()` (scheme `"forces"`): reads `atoms.calc.results` as it is — no `check_state` -/
def updateDelta (env : Env α) (s : St α) : St α :=
  let vc := AFB.forcesVariationCoef s.refVar s.natoms (calcResults env s)
  { s with varCoef := vc, delta := AFB.adaptedList s.fn s.minDelta s.maxDelta s.refVar vc }

/-- the per-coordinate parameters `FB.step` works on -/
def mkPars : List α → List α → List α → List α → List (FB.Par α)
  | f :: fs, d :: ds, m :: ms, p :: ps => { force := f, delta := d, mass := m, power := p } :: mkPars fs ds ms ps
  | _, _, _, _ => []

/-- `ForceBias.step()` on the object:
    ```
    forces = self.atoms.get_forces()          # check_state: hit or recalculation — the forces of the current positions
    …  FB.step on the generator from its current state …
    self.atoms.set_momenta(…); self.atoms.set_positions(…)
    self.atoms.get_potential_energy()         # results now belong to the new positions
    ``` -/
def fbStep (env : Env α) (s : St α) : St α :=
  let ps := mkPars (env.forces s.positions) s.delta s.masses s.powers
  let d : Nat → α := fun i => env.stream (s.rngPos + i)
  let sys : FB.Sys α := { positions := s.positions, momenta := s.momenta, stepCount := 0, trace := [] }
  match FB.step d env.fuel s.kT ps sys with
  | none =>
    { s with cache := some s.positions, gamma := ps.map (fun q => FB.gamma q.force q.delta s.kT), zeta := [],
             diverged := true }
  | some o =>
    { s with positions := o.sys.positions, momenta := o.sys.momenta, gamma := o.gammas, zeta := o.zetas,
             rngPos := s.rngPos + o.used, cache := some o.sys.positions }

/-- `step()`: `AdaptiveForceBias.step` is `self.update_delta(); return super().step()` -/
def step (env : Env α) (_stepCount : Nat) (s : St α) : St α :=
  fbStep env (if s.adaptive then updateDelta env s else s)

/-- `validate_simulation()`: `Driver`'s does nothing; `AdaptiveForceBias`'s calls `self.atoms.get_forces()` first -/
def validate (s : St α) : St α :=
  if s.adaptive then { s with cache := some s.positions } else s

/-- the user moves the atoms and / or sets momenta between two `run()` calls (`atoms.set_positions`,
    `atoms.set_momenta`): the calculator is not told -/
def userEdit (s : St α) (positions momenta : List α) : St α :=
  { s with positions := positions, momenta := momenta }

/-- the user attaches another calculator object: a new one (`none`) or one that still holds the results of some
    configuration -/
def attachCalc (s : St α) (c : Option (List α)) : St α := { s with cache := c }

/-- what `from_dict(decode(encode(to_dict())))` + a fresh calculator rebuilds: `atoms` (positions, momenta, masses),
    `rng_state`, `temperature`, `delta` (kwargs for `ForceBias`, attributes for `AdaptiveForceBias`),
    `masses_scaling_power`, `shaped_masses`, `min_delta`, `max_delta`, `reference_variance`, `update_function`
    (`step_count` lives in `RunLoop.Sim`). NOT kept: the calculator, `variation_coef`, `gamma`, `zeta`
    (back at their constructor values). -/
def persist (s : St α) : St α :=
  { s with cache := none, varCoef := [], gamma := [], zeta := [] }

/-- `Driver.irun` of a force-bias driver (`step` executes inside `irun`: eager) with observers `ivs`, default logger `lg` -/
def cfg (env : Env α) (ivs : List Int) (lg : Option Nat) (v : RunLoop.Variant) : RunLoop.Cfg (St α) :=
  { intervals := ivs, logger := lg, kind := .eager, variant := v, validate := validate, stepFn := step env }

/-- the same before the commit "fix: a run always starts with calculator results for the current configuration":
    `AdaptiveForceBias` had no `validate_simulation` of its own -/
def cfgNoValidate (env : Env α) (ivs : List Int) (lg : Option Nat) (v : RunLoop.Variant) : RunLoop.Cfg (St α) :=
  { cfg env ivs lg v with validate := id }

/-- a restart on the whole object: a new simulation object (`_started = False`, no observer has been called, nothing
    executed yet) with the restored `step_count` and the persisted state -/
def restart (s : RunLoop.Sim (St α)) : RunLoop.Sim (St α) :=
  { stepCount := s.stepCount, maxSteps := 0, started := false, performed := 0, st := persist s.st, trace := [] }

/-- what an observer of the simulation can see after a step -/
structure View (α : Type) where
  positions : List α
  momenta : List α
  delta : List α
  rngPos : Nat
  gamma : List α
  zeta : List α
  diverged : Bool
  deriving DecidableEq, Repr

def view (s : St α) : View α :=
  { positions := s.positions, momenta := s.momenta, delta := s.delta, rngPos := s.rngPos, gamma := s.gamma,
    zeta := s.zeta, diverged := s.diverged }

/-- the per-step outputs of `run n`: the view after step 1, …, step `n` (the view after step `j` of a run is the view
    at the end of `run j`: `QProofs.FBDriver.run_prefix`) -/
def outputs (c : RunLoop.Cfg (St α)) (n : Nat) (s : RunLoop.Sim (St α)) : List (View α) :=
  (List.range n).map (fun j => view (RunLoop.run c (j + 1) s).st)

end FBD
