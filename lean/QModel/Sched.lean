import QModel.Rng
/-!
# Move scheduling (C09): model of `MonteCarlo.add_move`, `MonteCarlo.yield_moves`, `MonteCarlo.step`
(`src/quansino/mc/core.py`).

The move table is the dict `mc.moves` in insertion order: a list of entries `(name, interval, probability weight,
minimum_count)`.  Weights are rationals (the harness feeds floats that are exactly these rationals).
Core Lean only.
-/
namespace Sched
open Rng (Script)

/-- one `MoveStorage` as far as scheduling is concerned -/
structure Entry (ν : Type) where
  name : ν
  interval : Nat
  weight : Rat
  minCount : Nat
  deriving DecidableEq, Repr

/-- `mc.moves` (a dict: insertion ordered, keys unique) -/
abbrev Table (ν : Type) := List (Entry ν)

inductive Err where
  | zeroDivision          -- `step_count % 0`
  | rng (e : Rng.Err)     -- an error raised by the generator (numpy `ValueError`) or an exhausted script
  | zipStrict             -- `zip(..., strict=True)` with unequal lengths
  | overcommit            -- add_move: "The number of forced moves exceeds the number of cycles."
  | noCriteria            -- add_move: "No criteria provided, and no default criteria found …"
  | move                  -- an exception escaping from a move / criteria call (step only)
  deriving DecidableEq, Repr

variable {ν : Type}

/-! ### the Python type of a weight
The scheduling model works with the VALUE of a weight (a rational). What the code does with the TYPE is modelled separately:
`np.array([...])` of the due moves' weights, then `move_probabilities /= np.sum(move_probabilities)`. -/

/-- how a weight was written: `probability=1` or `probability=1.0` -/
inductive PyNum where
  | int | float
  deriving DecidableEq, Repr

/-- is `np.array(ws)` a float array? (numpy's type inference: all Python ints give int64, one float gives float64, the
    empty list float64; with `dtype=float` — the repaired line — always) -/
def arrayIsFloat (forceFloat : Bool) (ws : List PyNum) : Bool :=
  forceFloat || ws.isEmpty || ws.any (· == .float)

/-- `a /= x` (true division in place): numpy refuses to cast the float64 result into an integer array
    (`UFuncTypeError`, casting rule 'same_kind') -/
def inplaceTrueDivOK (isFloat : Bool) : Bool := isFloat

/-- does the normalisation of the weights of one free slot go through? -/
def normaliseOK (forceFloat : Bool) (ws : List PyNum) : Bool := inplaceTrueDivOK (arrayIsFloat forceFloat ws)

/-- `available_moves = [name for name in self.moves if self.step_count % self.moves[name].interval == 0]` -/
def dueList (t : Table ν) (step : Nat) : Table ν := t.filter (fun e => step % e.interval == 0)

/-- `np.repeat(available_moves, counts)` (entries instead of names; names are taken at the end) -/
def forced (d : Table ν) : List (Entry ν) := d.flatMap (fun e => List.replicate e.minCount e)

/-- `dict(pairs)[i]`: the *last* pair with key `i` wins -/
def lookupLast {β : Type} (i : Nat) : List (Nat × β) → Option β
  | [] => none
  | (j, b) :: rest =>
    match lookupLast i rest with
    | some b' => some b'
    | none => if j = i then some b else none

/-- what one cycle holds: a forced move (`free = false`) or a freely chosen one -/
structure Slot (ν : Type) where
  free : Bool
  entry : Entry ν

/-- one iteration of `for index in range(self.max_cycles)`: the forced move mapped to `index`, else
    `rng.choice(available_moves, p = probabilities / sum(probabilities))` (one draw, weights read afresh) -/
def pickSlot (d : Table ν) (m : List (Nat × Entry ν)) (idx : Nat) (s : Script) : Except Err (Slot ν × Script) :=
  match lookupLast idx m with
  | some e => .ok (⟨false, e⟩, s)
  | none =>
    match Rng.choiceP d (d.map (·.weight)) s with
    | .error e => .error (.rng e)
    | .ok (e, s') => .ok (⟨true, e⟩, s')

/-- the loop over the cycles.  `yield_moves` is a generator: the consumer (`step`) runs the yielded move — the
    effect `k`, which may consume draws of the same stream — before the next cycle's draw is taken. -/
def fillM {β : Type} (d : Table ν) (m : List (Nat × Entry ν)) (k : ν → Script → Except Err (β × Script)) :
    List Nat → Script → Except Err (List (Slot ν × β) × Script)
  | [], s => .ok ([], s)
  | idx :: rest, s =>
    match pickSlot d m idx s with
    | .error e => .error e
    | .ok (sl, s1) =>
      match k sl.entry.name s1 with
      | .error e => .error e
      | .ok (b, s2) =>
        match fillM d m k rest s2 with
        | .error e => .error e
        | .ok (l, s3) => .ok ((sl, b) :: l, s3)

/-- everything after the forced slot indices are known:
    `forced_moves_mapping = dict(zip(forced_moves_index, forced_moves, strict=True))` and the loop.
    `slots` is whatever `rng.choice(np.arange(max_cycles), size=len(forced), replace=False)` returned. -/
def fillWith {β : Type} (d : Table ν) (maxCycles : Nat) (slots : List Nat)
    (k : ν → Script → Except Err (β × Script)) (s : Script) : Except Err (List (Slot ν × β) × Script) :=
  if slots.length ≠ (forced d).length then .error .zipStrict
  else fillM d (List.zip slots (forced d)) k (List.range maxCycles) s

/-- `yield_moves` driven by a consumer `k` -/
def run {β : Type} (t : Table ν) (maxCycles step : Nat) (k : ν → Script → Except Err (β × Script)) (s : Script) :
    Except Err (List (Slot ν × β) × Script) :=
  if t.any (fun e => e.interval == 0) then .error .zeroDivision
  else if (dueList t step).isEmpty then .ok ([], s)
  else
    match Rng.sampleNoRepl maxCycles (forced (dueList t step)).length s with
    | .error e => .error (.rng e)
    | .ok (slots, s1) => fillWith (dueList t step) maxCycles slots k s1

/-- the consumer that does nothing: `list(mc.yield_moves())` -/
def noop : ν → Script → Except Err (Unit × Script) := fun _ s => .ok ((), s)

/-- `list(mc.yield_moves())` with the free/forced flag of every cycle -/
def yieldTrace (t : Table ν) (maxCycles step : Nat) (s : Script) : Except Err (List (Slot ν) × Script) :=
  match run t maxCycles step noop s with
  | .error e => .error e
  | .ok (l, s') => .ok (l.map (·.1), s')

/-- `list(mc.yield_moves())` -/
def yieldMoves (t : Table ν) (maxCycles step : Nat) (s : Script) : Except Err (List ν × Script) :=
  match yieldTrace t maxCycles step s with
  | .error e => .error e
  | .ok (l, s') => .ok (l.map (·.entry.name), s')

/-- `MonteCarlo.step`: `move_history = []`, then for every yielded name run the move (`exec` returns
    `some accepted` or `none` when the move did not happen) and append `(name, is_accepted)` -/
def step (t : Table ν) (maxCycles stepCount : Nat) (exec : ν → Script → Except Err (Option Bool × Script))
    (s : Script) : Except Err (List (ν × Option Bool) × Script) :=
  match run t maxCycles stepCount exec s with
  | .error e => .error e
  | .ok (l, s') => .ok (l.map (fun x => (x.1.entry.name, x.2)), s')

/-! ## the number of cycles of a step -/

/-- `Canonical.__init__`: `max_cycles` as given, and `max(len(atoms), 1)` when it is left out -/
def defaultCycles (given : Option Nat) (nAtoms : Nat) : Nat :=
  match given with
  | some c => c
  | none => max nAtoms 1

/-- the line before the repair "the default number of cycles is at least one": `len(atoms)` -/
def defaultCyclesPinned (given : Option Nat) (nAtoms : Nat) : Nat :=
  match given with
  | some c => c
  | none => nAtoms

/-! ## `add_move` -/

/-- `sum([self.moves[name].minimum_count for name in self.moves])` -/
def minSum (t : Table ν) : Nat := (t.map (·.minCount)).sum

/-- `self.moves[name] = …`: an existing key keeps its place, a new key goes to the end -/
def upsert [DecidableEq ν] (e : Entry ν) : Table ν → Table ν
  | [] => [e]
  | x :: xs => if x.name = e.name then e :: xs else x :: upsert e xs

/-- `add_move`: the guard sums **all** current minimum counts (also the one of a move that is being replaced) -/
def addMove [DecidableEq ν] (t : Table ν) (maxCycles : Nat) (e : Entry ν) (hasCriteria : Bool) :
    Except Err (Table ν) :=
  if minSum t + e.minCount > maxCycles then .error .overcommit
  else if !hasCriteria then .error .noCriteria
  else .ok (upsert e t)

/-- a sequence of `add_move` calls; a refused call raises and leaves `mc.moves` as it was -/
def addMoves [DecidableEq ν] (maxCycles : Nat) : Table ν → List (Entry ν × Bool) → Table ν
  | t, [] => t
  | t, (e, c) :: rest =>
    match addMove t maxCycles e c with
    | .ok t' => addMoves maxCycles t' rest
    | .error _ => addMoves maxCycles t rest

end Sched
