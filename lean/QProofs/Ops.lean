import QModel.Ops
import QProofs.NumReal
import QProofs.DetExp
import Mathlib.LinearAlgebra.Matrix.PosDef
import Mathlib.Algebra.Order.Star.Real
import Mathlib.Tactic

/-! Helper lemmas for C10 (proposal operations) over `ℝ`. -/

namespace Ops
open Real

/-! ### unfolding the small-vector helpers -/
section unfold
variable {α : Type}
@[simp] theorem vec3_0 (a b c : α) : vec3 a b c 0 = a := rfl
@[simp] theorem vec3_1 (a b c : α) : vec3 a b c 1 = b := rfl
@[simp] theorem vec3_2 (a b c : α) : vec3 a b c 2 = c := rfl
@[simp] theorem mat3_0 (a b c : Vec α) : mat3 a b c 0 = a := rfl
@[simp] theorem mat3_1 (a b c : Vec α) : mat3 a b c 1 = b := rfl
@[simp] theorem mat3_2 (a b c : Vec α) : mat3 a b c 2 = c := rfl
end unfold

@[simp] theorem uniform_real (lo hi u : ℝ) : uniform lo hi u = lo + (hi - lo) * u := rfl
@[simp] theorem twoPi_real : (twoPi : ℝ) = 2 * π := by simp [twoPi]
@[simp] theorem vzero_real (i : Fin 3) : (vzero : Vec ℝ) i = 0 := by simp [vzero]
theorem vzero_eq : (vzero : Vec ℝ) = 0 := by funext i; simp
@[simp] theorem vadd_real (a b : Vec ℝ) : vadd a b = a + b := rfl
@[simp] theorem vsub_real (a b : Vec ℝ) : vsub a b = a - b := rfl
@[simp] theorem vneg_real (a : Vec ℝ) : vneg a = -a := rfl
@[simp] theorem vscale_real (c : ℝ) (a : Vec ℝ) : vscale c a = c • a := rfl
theorem vdiv_real (a : Vec ℝ) (c : ℝ) : vdiv a c = c⁻¹ • a := by
  funext i; simp [vdiv, div_eq_inv_mul]
theorem norm2_real (a : Vec ℝ) : norm2 a = a 0 ^ 2 + a 1 ^ 2 + a 2 ^ 2 := by simp [norm2]; ring
theorem norm2_nonneg (a : Vec ℝ) : 0 ≤ norm2 a := by rw [norm2_real]; positivity
theorem norm_real (a : Vec ℝ) : norm a = Real.sqrt (a 0 ^ 2 + a 1 ^ 2 + a 2 ^ 2) := by
  simp [norm, norm2_real]
theorem vecMul_real (u : Vec ℝ) (c : Mat ℝ) : vecMul u c = Matrix.vecMul u (c : Matrix (Fin 3) (Fin 3) ℝ) := by
  funext j; simp [vecMul, Matrix.vecMul, dotProduct, Fin.sum_univ_three]
theorem mulVec_real (r : Mat ℝ) (v : Vec ℝ) : mulVec r v = Matrix.mulVec (r : Matrix (Fin 3) (Fin 3) ℝ) v := by
  funext i; simp [mulVec, Matrix.mulVec, dotProduct, Fin.sum_univ_three]

/-! ### ball / sphere / box -/

theorem sq_sqrt_one_sub (c : ℝ) (h : c ^ 2 ≤ 1) : Real.sqrt (1 - c * c) ^ 2 = 1 - c ^ 2 := by
  rw [Real.sq_sqrt (by nlinarith)]; ring

theorem cosTheta_sq_le (u : ℝ) (h0 : 0 ≤ u) (h1 : u ≤ 1) : (-1 + (1 - -1) * u) ^ 2 ≤ 1 := by nlinarith

theorem ball_norm2 (s u1 u2 u3 : ℝ) (h0 : 0 ≤ u3) (h1 : u3 ≤ 1) :
    norm2 (ball s u1 u2 u3) = (s * u1) ^ 2 := by
  have hc := cosTheta_sq_le u3 h0 h1
  have hs := sq_sqrt_one_sub _ hc
  have ht := Real.sin_sq_add_cos_sq (0 + (2 * π - 0) * u2)
  simp only [norm2_real, ball, vec3_0, vec3_1, vec3_2, uniform_real, twoPi_real, Num.real_zero, Num.real_one,
    Num.real_sqrt, Num.real_cos, Num.real_sin] at *
  set c := (-1 + (1 - -1) * u3) with hcdef
  set st := Real.sqrt (1 - c * c)
  set φ := (0 + (2 * π - 0) * u2)
  have : ((0 + (s - 0) * u1) * st * Real.cos φ) ^ 2 + ((0 + (s - 0) * u1) * st * Real.sin φ) ^ 2
      + ((0 + (s - 0) * u1) * c) ^ 2 = (s * u1) ^ 2 * (st ^ 2 * (Real.sin φ ^ 2 + Real.cos φ ^ 2) + c ^ 2) := by ring
  rw [this, ht, hs]; ring

theorem sphere_norm2 (s u1 u2 : ℝ) (h0 : 0 ≤ u2) (h1 : u2 ≤ 1) :
    norm2 (sphere s u1 u2) = s ^ 2 := by
  have hc := cosTheta_sq_le u2 h0 h1
  have hs := sq_sqrt_one_sub _ hc
  have ht := Real.sin_sq_add_cos_sq (0 + (2 * π - 0) * u1)
  simp only [norm2_real, sphere, vec3_0, vec3_1, vec3_2, uniform_real, twoPi_real, Num.real_zero, Num.real_one,
    Num.real_sqrt, Num.real_cos, Num.real_sin] at *
  set c := (-1 + (1 - -1) * u2) with hcdef
  set st := Real.sqrt (1 - c * c)
  set φ := (0 + (2 * π - 0) * u1)
  have : (s * (st * Real.cos φ)) ^ 2 + (s * (st * Real.sin φ)) ^ 2 + (s * c) ^ 2
      = s ^ 2 * (st ^ 2 * (Real.sin φ ^ 2 + Real.cos φ ^ 2) + c ^ 2) := by ring
  rw [this, ht, hs]; ring

theorem box_apply (s u1 u2 u3 : ℝ) (i : Fin 3) :
    box s u1 u2 u3 i = -s + 2 * s * (vec3 u1 u2 u3 i) := by
  have h : ∀ u : ℝ, uniform (-s) s u = -s + 2 * s * u := fun u => by simp only [uniform_real]; ring
  fin_cases i <;> simp only [box, h] <;> rfl

/-! ### reparametrisations of the draws that negate a displacement -/

/-- `φ ↦ φ + π (mod 2π)` on the underlying uniform draw -/
noncomputable def shiftHalf (u : ℝ) : ℝ := Int.fract (u + 1 / 2)
/-- `c ↦ -c` (and `x ↦ -x` for a symmetric interval) on the underlying uniform draw -/
def flip (u : ℝ) : ℝ := 1 - u

theorem shiftHalf_mem (u : ℝ) : 0 ≤ shiftHalf u ∧ shiftHalf u < 1 := ⟨Int.fract_nonneg _, Int.fract_lt_one _⟩
theorem flip_mem (u : ℝ) (h0 : 0 < u) (h1 : u < 1) : 0 < flip u ∧ flip u < 1 := by
  unfold flip; constructor <;> linarith
theorem flip_flip (u : ℝ) : flip (flip u) = u := by unfold flip; ring
theorem shiftHalf_shiftHalf (u : ℝ) (h0 : 0 ≤ u) (h1 : u < 1) : shiftHalf (shiftHalf u) = u := by
  unfold shiftHalf
  have : Int.fract (u + 1 / 2) + 1 / 2 = u + ((1 : ℤ) : ℝ) - ((⌊u + 1 / 2⌋ : ℤ) : ℝ) := by
    rw [Int.fract]; push_cast; ring
  rw [this, Int.fract_sub_intCast, Int.fract_add_intCast, Int.fract_eq_iff]
  exact ⟨h0, h1, 0, by simp⟩
/-- `shiftHalf` is the translation by `+1/2` on `[0,1/2)` and by `-1/2` on `[1/2,1)`: a piecewise translation,
    hence Lebesgue-measure preserving on `[0,1)` -/
theorem shiftHalf_piecewise (u : ℝ) (h0 : 0 ≤ u) (h1 : u < 1) :
    shiftHalf u = if u < 1 / 2 then u + 1 / 2 else u - 1 / 2 := by
  unfold shiftHalf
  split
  · rw [Int.fract_eq_iff]; exact ⟨by linarith, by linarith, 0, by simp⟩
  · rw [Int.fract_eq_iff]; exact ⟨by linarith, by linarith, 1, by simp; ring⟩

theorem cos_shiftHalf (u : ℝ) : Real.cos (0 + (2 * π - 0) * shiftHalf u) = -Real.cos (0 + (2 * π - 0) * u) := by
  have : 0 + (2 * π - 0) * shiftHalf u = (2 * π * u + π) - (⌊u + 1 / 2⌋ : ℤ) * (2 * π) := by
    unfold shiftHalf; rw [Int.fract]; ring
  rw [this, Real.cos_sub_int_mul_two_pi, Real.cos_add_pi]; ring_nf
theorem sin_shiftHalf (u : ℝ) : Real.sin (0 + (2 * π - 0) * shiftHalf u) = -Real.sin (0 + (2 * π - 0) * u) := by
  have : 0 + (2 * π - 0) * shiftHalf u = (2 * π * u + π) - (⌊u + 1 / 2⌋ : ℤ) * (2 * π) := by
    unfold shiftHalf; rw [Int.fract]; ring
  rw [this, Real.sin_sub_int_mul_two_pi, Real.sin_add_pi]; ring_nf

theorem cosTheta_flip (u : ℝ) : -1 + (1 - -1) * flip u = -(-1 + (1 - -1) * u) := by unfold flip; ring

theorem neg_vec3 (a b c : ℝ) : -vec3 a b c = vec3 (-a) (-b) (-c) := by
  funext i; fin_cases i <;> rfl

theorem ball_flip (s u1 u2 u3 : ℝ) : ball s u1 (shiftHalf u2) (flip u3) = -ball s u1 u2 u3 := by
  have hc := cos_shiftHalf u2
  have hs := sin_shiftHalf u2
  have hf := cosTheta_flip u3
  simp only [ball, uniform_real, twoPi_real, Num.real_zero, Num.real_one, Num.real_sqrt, Num.real_cos,
    Num.real_sin]
  rw [hc, hs, hf, neg_vec3, neg_mul_neg]
  congr 1 <;> ring

theorem sphere_flip (s u1 u2 : ℝ) : sphere s (shiftHalf u1) (flip u2) = -sphere s u1 u2 := by
  have hc := cos_shiftHalf u1
  have hs := sin_shiftHalf u1
  have hf := cosTheta_flip u2
  simp only [sphere, uniform_real, twoPi_real, Num.real_zero, Num.real_one, Num.real_sqrt, Num.real_cos,
    Num.real_sin]
  rw [hc, hs, hf, neg_vec3, neg_mul_neg]
  congr 1 <;> ring

theorem box_flip (s u1 u2 u3 : ℝ) : box s (flip u1) (flip u2) (flip u3) = -box s u1 u2 u3 := by
  funext i
  rw [Pi.neg_apply, box_apply, box_apply]
  fin_cases i <;> simp [flip] <;> ring

/-! ### sums over a group -/

theorem vsum_real (ps : List (Vec ℝ)) : vsum ps = ps.sum := by
  induction ps with
  | nil => simp [vsum, vzero_eq]
  | cons p ps ih => simp [vsum, ih]

theorem ssum_real (xs : List ℝ) : ssum xs = xs.sum := by
  induction xs with
  | nil => simp [ssum]
  | cons x xs ih => simp [ssum, ih]

theorem centroid_real (ps : List (Vec ℝ)) : centroid ps = ((ps.length : ℝ))⁻¹ • ps.sum := by
  simp [centroid, vdiv_real, vsum_real]

theorem sum_map_add_const (ps : List (Vec ℝ)) (d : Vec ℝ) :
    (ps.map (fun p => p + d)).sum = ps.sum + (ps.length : ℝ) • d := by
  induction ps with
  | nil => simp
  | cons p ps ih =>
    simp only [List.map_cons, List.sum_cons, ih, List.length_cons]
    push_cast
    module

/-- translating every row by `d` translates the centroid by `d` -/
theorem centroid_map_add (ps : List (Vec ℝ)) (d : Vec ℝ) (h : ps ≠ []) :
    centroid (ps.map (fun p => p + d)) = centroid ps + d := by
  have hn : ((ps.length : ℝ)) ≠ 0 := by
    have : ps.length ≠ 0 := by simpa using h
    exact_mod_cast this
  rw [centroid_real, centroid_real, List.length_map, sum_map_add_const, smul_add, smul_smul,
    inv_mul_cancel₀ hn, one_smul]

theorem translation_real (cell : Mat ℝ) (ps : List (Vec ℝ)) (u1 u2 u3 : ℝ) :
    translation cell ps u1 u2 u3 = Matrix.vecMul (vec3 u1 u2 u3) (Matrix.of cell) - centroid ps := by
  have : (vec3 (uniform (Num.zero : ℝ) Num.one u1) (uniform (Num.zero : ℝ) Num.one u2)
      (uniform (Num.zero : ℝ) Num.one u3)) = vec3 u1 u2 u3 := by
    funext i; fin_cases i <;> simp
  simp only [translation, this, vsub_real, vecMul_real]
  rfl

/-! ### rotation of a group about its centre of mass -/

/-- mass-weighted sum and total mass of a group -/
noncomputable def wsum (g : List (ℝ × Vec ℝ)) : Vec ℝ := (g.map fun mp => mp.1 • mp.2).sum
noncomputable def msum (g : List (ℝ × Vec ℝ)) : ℝ := (g.map Prod.fst).sum

theorem com_real (g : List (ℝ × Vec ℝ)) : com g = (msum g)⁻¹ • wsum g := by
  simp [com, vdiv_real, vsum_real, ssum_real, wsum, msum]

theorem rotPoint_real (r : Mat ℝ) (c p : Vec ℝ) :
    rotPoint r c p = Matrix.mulVec (Matrix.of r) (p - c) + c := by
  simp only [rotPoint, vadd_real, vsub_real, mulVec_real]; rfl

theorem wsum_rot (R : Matrix (Fin 3) (Fin 3) ℝ) (c : Vec ℝ) (g : List (ℝ × Vec ℝ)) :
    wsum (g.map fun mp => (mp.1, R.mulVec (mp.2 - c) + c)) = R.mulVec (wsum g - msum g • c) + msum g • c := by
  induction g with
  | nil => simp [wsum, msum]
  | cons a g ih =>
    simp only [wsum, msum, List.map_cons, List.sum_cons] at ih ⊢
    rw [ih]
    simp only [Matrix.mulVec_sub, Matrix.mulVec_add, Matrix.mulVec_smul]
    module

theorem msum_rot (f : ℝ × Vec ℝ → Vec ℝ) (g : List (ℝ × Vec ℝ)) :
    msum (g.map fun mp => (mp.1, f mp)) = msum g := by
  simp [msum, List.map_map, Function.comp_def]

theorem rotated_real (r : Mat ℝ) (g : List (ℝ × Vec ℝ)) :
    rotated r g = g.map fun mp => (mp.1, Matrix.mulVec (Matrix.of r) (mp.2 - com g) + com g) := by
  simp only [rotated, rotPoint_real]

/-- the mass-weighted centre is a fixed point of the rotation of the group about it -/
theorem com_rotated (r : Mat ℝ) (g : List (ℝ × Vec ℝ)) (hm : msum g ≠ 0) : com (rotated r g) = com g := by
  rw [rotated_real, com_real (g.map _), wsum_rot, msum_rot]
  have h0 : wsum g - msum g • com g = 0 := by
    rw [com_real, smul_smul, mul_inv_cancel₀ hm, one_smul, sub_self]
  rw [h0, Matrix.mulVec_zero, zero_add, smul_smul, inv_mul_cancel₀ hm, one_smul]

/-- an orthogonal matrix preserves the squared length -/
theorem norm2_mulVec (R : Matrix (Fin 3) (Fin 3) ℝ) (h : R.transpose * R = 1) (v : Vec ℝ) :
    norm2 (R.mulVec v) = norm2 v := by
  have e : ∀ j k : Fin 3, R 0 j * R 0 k + R 1 j * R 1 k + R 2 j * R 2 k = (1 : Matrix (Fin 3) (Fin 3) ℝ) j k := by
    intro j k
    have := congrFun (congrFun h j) k
    simpa [Matrix.mul_apply, Fin.sum_univ_three] using this
  have e00 := e 0 0; have e01 := e 0 1; have e02 := e 0 2
  have e11 := e 1 1; have e12 := e 1 2; have e22 := e 2 2
  simp only [Matrix.one_apply_eq, Matrix.one_apply_ne, ne_eq, Fin.reduceEq, not_false_eq_true] at e00 e01 e02 e11 e12 e22
  simp only [norm2_real, Matrix.mulVec, dotProduct, Fin.sum_univ_three]
  linear_combination (v 0 ^ 2) * e00 + (2 * v 0 * v 1) * e01 + (2 * v 0 * v 2) * e02 + (v 1 ^ 2) * e11
    + (2 * v 1 * v 2) * e12 + (v 2 ^ 2) * e22

theorem dist2_rotPoint (r : Mat ℝ) (h : (Matrix.of r).transpose * Matrix.of r = 1) (c p q : Vec ℝ) :
    dist2 (rotPoint r c p) (rotPoint r c q) = dist2 p q := by
  simp only [dist2, rotPoint_real, vsub_real]
  have : (Matrix.of r).mulVec (p - c) + c - ((Matrix.of r).mulVec (q - c) + c) = (Matrix.of r).mulVec (p - q) := by
    rw [add_sub_add_right_eq_sub, ← Matrix.mulVec_sub]; congr 1; abel
  rw [this, norm2_mulVec _ h]

theorem dist2_add_right (p q d : Vec ℝ) : dist2 (p + d) (q + d) = dist2 p q := by
  simp [dist2]

/-- positions of a group after adding an `(n,3)` displacement block row by row -/
def moveGroup (g : List (ℝ × Vec ℝ)) (d : List (Vec ℝ)) : List (ℝ × Vec ℝ) :=
  List.zipWith (fun mp di => (mp.1, mp.2 + di)) g d

theorem moveGroup_rotationWith (r : Mat ℝ) (g : List (ℝ × Vec ℝ)) :
    moveGroup g (rotationWith r g) = rotated r g := by
  simp only [moveGroup, rotationWith, rotated, List.zipWith_map_right, List.zipWith_self, vsub_real]
  apply List.map_congr_left
  intro mp _
  simp

theorem moveGroup_map_add (g : List (ℝ × Vec ℝ)) (d : List (Vec ℝ)) (t : Vec ℝ) :
    moveGroup g (d.map (vadd t)) = (moveGroup g d).map (fun mp => (mp.1, mp.2 + t)) := by
  simp only [moveGroup, List.zipWith_map_right, List.map_zipWith, vadd_real]
  congr 1
  funext mp di
  simp only [Prod.mk.injEq, true_and]
  abel

theorem rotated_length (r : Mat ℝ) (g : List (ℝ × Vec ℝ)) : (rotated r g).length = g.length := by
  simp [rotated]

theorem rotated_getElem (r : Mat ℝ) (g : List (ℝ × Vec ℝ)) (i : ℕ) (hi : i < g.length) :
    (rotated r g)[i]'(by rw [rotated_length]; exact hi) = (g[i].1, rotPoint r (com g) g[i].2) := by
  simp [rotated]

/-- rotating the rotated group by the transposed matrix restores every row -/
theorem rotated_transpose (r : Mat ℝ) (h : (Matrix.of r).transpose * Matrix.of r = 1) (g : List (ℝ × Vec ℝ))
    (hm : msum g ≠ 0) :
    rotated (fun i j => r j i) (rotated r g) = g := by
  have hc := com_rotated r g hm
  have hT : (Matrix.of fun i j => r j i) = (Matrix.of r).transpose := by ext i j; rfl
  rw [rotated_real (fun i j => r j i), hc, rotated_real r, List.map_map]
  conv_rhs => rw [← List.map_id g]
  apply List.map_congr_left
  intro mp _
  simp only [Function.comp, id, hT, add_sub_cancel_right, Matrix.mulVec_mulVec, h, Matrix.one_mulVec,
    sub_add_cancel]

/-! ### quaternion → rotation matrix -/

theorem quatMat_orthogonal (w x y z : ℝ) (h : w * w + x * x + y * y + z * z ≠ 0) :
    (Matrix.of (quatMat w x y z)).transpose * Matrix.of (quatMat w x y z) = 1 := by
  simp only [quatMat]
  generalize hn : w * w + x * x + y * y + z * z = n at h ⊢
  ext i j
  fin_cases i <;> fin_cases j <;>
    simp [Matrix.mul_apply, Fin.sum_univ_three] <;> field_simp <;> rw [← hn] <;> ring

theorem quatMat_det (w x y z : ℝ) (h : w * w + x * x + y * y + z * z ≠ 0) :
    (Matrix.of (quatMat w x y z)).det = 1 := by
  simp only [quatMat]
  generalize hn : w * w + x * x + y * y + z * z = n at h ⊢
  rw [Matrix.det_fin_three]
  simp
  field_simp
  rw [← hn]
  ring

theorem quatMat_conj (w x y z : ℝ) :
    Matrix.of (quatMat w (-x) (-y) (-z)) = (Matrix.of (quatMat w x y z)).transpose := by
  ext i j
  fin_cases i <;> fin_cases j <;> simp [quatMat] <;> ring

/-! ### composite operations -/

/-- row `i` of a displacement block under numpy broadcasting: a `(1,3)` block has the same row everywhere -/
noncomputable def rowOf (d : List (Vec ℝ)) (i : ℕ) : Vec ℝ := if d.length = 1 then d.headD 0 else d.getD i 0

theorem headD_of_length_one (d : List (Vec ℝ)) (h : d.length = 1) (z : Vec ℝ) : d.headD z = d.getD 0 z := by
  match d, h with
  | [x], _ => rfl

theorem badd_length (a b : List (Vec ℝ)) (n : ℕ) (ha : a.length = 1 ∨ a.length = n)
    (hb : b.length = 1 ∨ b.length = n) : (badd a b).length = 1 ∨ (badd a b).length = n := by
  unfold badd
  split
  · simpa using hb
  · split
    · simpa using ha
    · rename_i h1 h2
      have h1' : a.length = n := by tauto
      have h2' : b.length = n := by tauto
      right; simp [h1', h2']

theorem badd_row (a b : List (Vec ℝ)) (n i : ℕ) (hi : i < n) (ha : a.length = 1 ∨ a.length = n)
    (hb : b.length = 1 ∨ b.length = n) : rowOf (badd a b) i = rowOf a i + rowOf b i := by
  unfold badd
  by_cases h1 : a.length = 1
  · simp only [h1, if_true, rowOf, List.length_map]
    by_cases h2 : b.length = 1
    · match a, b, h1, h2 with
      | [x], [y], _, _ => simp [vzero_eq]
    · have h2' : b.length = n := by tauto
      have hn1 : n ≠ 1 := fun h => h2 (h2'.trans h)
      match a, h1 with
      | [x], _ => simp [h2', hn1, hi, List.getD_eq_getElem?_getD]
  · have h1' : a.length = n := by tauto
    have hn1 : n ≠ 1 := fun h => h1 (h1'.trans h)
    simp only [h1, if_false]
    by_cases h2 : b.length = 1
    · match b, h2 with
      | [y], _ => simp [rowOf, h1', hn1, hi, List.getD_eq_getElem?_getD]
    · have h2' : b.length = n := by tauto
      simp [rowOf, h1', h2', hn1, hi, List.getD_eq_getElem?_getD]

theorem composite_spec (n : ℕ) (parts : List (List (Vec ℝ))) (hne : parts ≠ [])
    (hc : ∀ p ∈ parts, p.length = 1 ∨ p.length = n) :
    ((composite parts).length = 1 ∨ (composite parts).length = n) ∧
    ∀ i, i < n → rowOf (composite parts) i = (parts.map (fun p => rowOf p i)).sum := by
  induction parts with
  | nil => exact absurd rfl hne
  | cons p ps ih =>
    cases ps with
    | nil => simpa [composite] using hc
    | cons q qs =>
      have ih' := ih (by simp) (fun r hr => hc r (List.mem_cons_of_mem _ hr))
      have hp := hc p (by simp)
      refine ⟨?_, fun i hi => ?_⟩
      · simpa [composite] using badd_length p _ n hp ih'.1
      · have := badd_row p (composite (q :: qs)) n i hi hp ih'.1
        simp only [composite, List.map_cons, List.sum_cons] at this ⊢
        rw [this, ih'.2 i hi]
        simp

theorem compositeMat_apply (parts : List (Mat ℝ)) (i j : Fin 3) :
    compositeMat parts i j = (parts.map (fun p => p i j)).sum := by
  induction parts with
  | nil => simp [compositeMat, mzero]
  | cons p ps ih =>
    cases ps with
    | nil => simp [compositeMat]
    | cons q qs => simp only [compositeMat, madd] at ih ⊢; simp [ih]

/-! ### deformation gradients -/

theorem eye_apply (i j : Fin 3) : (eye : Mat ℝ) i j = (1 : Matrix (Fin 3) (Fin 3) ℝ) i j := by
  simp [eye, Matrix.one_apply]

theorem blend_allTrue (e : Mat ℝ) : blend e allTrue = e := by
  funext i j; simp [blend, allTrue, b2n]

theorem blend_masked (e : Mat ℝ) (mask : Fin 3 → Fin 3 → Bool) (i j : Fin 3) (h : mask i j = false) :
    blend e mask i j = (1 : Matrix (Fin 3) (Fin 3) ℝ) i j := by
  simp [blend, h, b2n, eye_apply]

theorem blend_kept (e : Mat ℝ) (mask : Fin 3 → Fin 3 → Bool) (i j : Fin 3) (h : mask i j = true) :
    blend e mask i j = e i j := by
  simp [blend, h, b2n]

theorem iso_allTrue (m u : ℝ) :
    Matrix.of (iso m allTrue u) = Real.exp (-m + (m - -m) * u) • (1 : Matrix (Fin 3) (Fin 3) ℝ) := by
  ext i j
  simp [iso, allTrue, b2n, eye, Matrix.one_apply]

theorem iso_masked (m u : ℝ) (mask : Fin 3 → Fin 3 → Bool) (i j : Fin 3) (h : mask i j = false) :
    iso m mask u i j = (1 : Matrix (Fin 3) (Fin 3) ℝ) i j := by
  simp [iso, h, b2n, eye_apply]

theorem uniform_flip (m u : ℝ) : uniform (-m) m (flip u) = -uniform (-m) m u := by
  simp only [uniform_real, flip]; ring

theorem neg_mat3 (a b c : Vec ℝ) : -mat3 a b c = mat3 (-a) (-b) (-c) := by
  funext i; fin_cases i <;> rfl

theorem anisoGen_flip (m u1 u2 u3 u4 u5 u6 : ℝ) :
    anisoGen m (flip u1) (flip u2) (flip u3) (flip u4) (flip u5) (flip u6) = -anisoGen m u1 u2 u3 u4 u5 u6 := by
  simp only [anisoGen, uniform_flip, neg_mat3, neg_vec3]

theorem shapeGen_flip (m u1 u2 u3 u4 u5 u6 : ℝ) :
    shapeGen m (flip u1) (flip u2) (flip u3) (flip u4) (flip u5) (flip u6) = -shapeGen m u1 u2 u3 u4 u5 u6 := by
  simp only [shapeGen, uniform_flip, neg_mat3, neg_vec3]
  congr 2 <;> simp only [Num.real_ofNat] <;> ring

theorem anisoGen_symm (m u1 u2 u3 u4 u5 u6 : ℝ) : (Matrix.of (anisoGen m u1 u2 u3 u4 u5 u6)).IsHermitian := by
  ext i j; fin_cases i <;> fin_cases j <;> rfl

theorem shapeGen_symm (m u1 u2 u3 u4 u5 u6 : ℝ) : (Matrix.of (shapeGen m u1 u2 u3 u4 u5 u6)).IsHermitian := by
  ext i j; fin_cases i <;> fin_cases j <;> rfl

theorem shapeGen_trace (m u1 u2 u3 u4 u5 u6 : ℝ) : (Matrix.of (shapeGen m u1 u2 u3 u4 u5 u6)).trace = 0 := by
  rw [Matrix.trace_fin_three]
  simp only [shapeGen, Matrix.of_apply, mat3_0, mat3_1, mat3_2, vec3_0, vec3_1, vec3_2, Num.real_ofNat]
  ring

/-- the matrix exponential used in the theorems: Mathlib's `NormedSpace.exp` on real 3×3 matrices -/
noncomputable def expR (a : Mat ℝ) : Mat ℝ :=
  Matrix.of.symm (NormedSpace.exp (Matrix.of a : Matrix (Fin 3) (Fin 3) ℝ))

theorem of_expR (a : Mat ℝ) :
    (Matrix.of (expR a) : Matrix (Fin 3) (Fin 3) ℝ) = NormedSpace.exp (Matrix.of a : Matrix (Fin 3) (Fin 3) ℝ) := by
  simp [expR]

theorem expR_det_one (a : Mat ℝ) (hs : (Matrix.of a).IsHermitian) (ht : (Matrix.of a).trace = 0) :
    (Matrix.of (expR a)).det = 1 := by
  have := det_exp_of_isHermitian (Matrix.of a) hs
  rw [ht, Real.exp_zero] at this
  rw [of_expR]; exact this

theorem expR_isHermitian (a : Mat ℝ) (hs : (Matrix.of a).IsHermitian) : (Matrix.of (expR a)).IsHermitian := by
  rw [of_expR]; exact Matrix.IsHermitian.exp hs

theorem expR_posDef (a : Mat ℝ) (hs : (Matrix.of a).IsHermitian) : (Matrix.of (expR a)).PosDef := by
  set A : Matrix (Fin 3) (Fin 3) ℝ := Matrix.of a with hA
  set B : Matrix (Fin 3) (Fin 3) ℝ := NormedSpace.exp ((2 : ℝ)⁻¹ • A) with hB
  have hBh : B.conjTranspose = B := by
    have : ((2 : ℝ)⁻¹ • A).IsHermitian := by
      rw [Matrix.IsHermitian, Matrix.conjTranspose_smul, hs.eq]; simp
    exact Matrix.IsHermitian.exp this
  have hsq : Matrix.of (expR a) = B.conjTranspose * B := by
    rw [hBh, of_expR, ← hA]
    have h2 : A = (2 : ℕ) • ((2 : ℝ)⁻¹ • A) := by
      rw [← Nat.cast_smul_eq_nsmul ℝ, smul_smul]; norm_num
    conv_lhs => rw [h2]
    rw [Matrix.exp_nsmul, pow_two]
  rw [hsq]
  apply Matrix.PosDef.conjTranspose_mul_self
  have hu : IsUnit B := Matrix.isUnit_exp ((2 : ℝ)⁻¹ • A)
  exact Matrix.mulVec_injective_iff_isUnit.mpr hu

theorem expR_neg (a : Mat ℝ) : Matrix.of (expR (-a)) = (Matrix.of (expR a))⁻¹ := by
  rw [of_expR, of_expR]
  have : (Matrix.of (-a) : Matrix (Fin 3) (Fin 3) ℝ) = -Matrix.of a := rfl
  rw [this]
  exact Matrix.exp_neg (Matrix.of a : Matrix (Fin 3) (Fin 3) ℝ)

end Ops
